/-
  GM.Proof.CMFragRender13 — the renderer half of the conformance proof for stage 13 (the union of the stages):
  * `renderNode_em13`, `renderNode_strong13`: an Emphasis node of level 1 / 2 around one Text node;
  * `renderNodes_uatoms13`: the nodes of one line (`uatomNodes soft hard`), for a line that ends with a text atom and
    whose code atoms do not end with a line feed (`LineShape13`, from `ERichLine`: `lineShape_of_erichLine13`);
  * `renderNodes_uNodes13`: the children of a paragraph; `renderNode_ublock13`: one block; `renderPanicsNode_ublock13`;
  * `renderDoc_u13`, `renderDoc_quote_u13`: the document, and the document inside one block quote.
-/
import GM.Proof.CMFrag13Defs
import GM.Proof.CMFragRender8
import GM.Proof.CMFragRender9
import GM.Proof.CMFragRenderQ
namespace GM.Proof.CMFrag
open GM GM.Spec.CM GM.Spec.CMFrag

/-! ### emphasis nodes -/

theorem handled_emph13 (e : Exts) (n : Nat) : handled e (.emphasis n) = true := rfl

theorem renderNode_em13 (rc : RCfg) (hes : rc.core.escSpace = false) (hhw : rc.core.hardWraps = false)
    (hea : rc.core.ea = 0) (ph : Bool) (next : Option Node) (bs : Bytes) :
    renderNode rc ph next (.mk (.emphasis 1) none [.mk (.text bs false false false false) none []]) =
      strBytes "<em>" ++ GM.write false bs ++ strBytes "</em>" := by
  rw [renderNode]
  have h1 : strBytes "<em>" = [60] ++ strBytes "em" ++ [62] := by decide +kernel
  have h2 : strBytes "</em>" = strBytes "</" ++ strBytes "em" ++ [62] := by decide +kernel
  simp [enter, leave, handled_emph13, skipsChildren, Kind.isTableHeader, renderAttrs, renderNodes,
    renderNode_text rc hes hhw hea, h1, h2]

theorem renderNode_strong13 (rc : RCfg) (hes : rc.core.escSpace = false) (hhw : rc.core.hardWraps = false)
    (hea : rc.core.ea = 0) (ph : Bool) (next : Option Node) (bs : Bytes) :
    renderNode rc ph next (.mk (.emphasis 2) none [.mk (.text bs false false false false) none []]) =
      strBytes "<strong>" ++ GM.write false bs ++ strBytes "</strong>" := by
  rw [renderNode]
  have h1 : strBytes "<strong>" = [60] ++ strBytes "strong" ++ [62] := by decide +kernel
  have h2 : strBytes "</strong>" = strBytes "</" ++ strBytes "strong" ++ [62] := by decide +kernel
  simp [enter, leave, handled_emph13, skipsChildren, Kind.isTableHeader, renderAttrs, renderNodes,
    renderNode_text rc hes hhw hea, h1, h2]

theorem renderPanicsNode_emph13 (rc : RCfg) (n : Nat) (bs : Bytes) :
    renderPanicsNode rc (.mk (.emphasis n) none [.mk (.text bs false false false false) none []]) = none := by
  simp [renderPanicsNode, nodePanic, renderPanicsNodes, handled_emph13, skipsChildren]

/-! ### the nodes of one line -/

/-- what the renderer needs of a line: it ends with a text atom (the line break is a flag of the last Text node), and
    no code atom ends with a line feed -/
structure LineShape13 (l : List EAtom) : Prop where
  last : ∃ init bs, l = init ++ [.txt bs]
  code : ∀ bs, EAtom.code bs ∈ l → bs.getLast? ≠ some 10

theorem lineShape_of_erichLine13 (l : List EAtom) (h : ERichLine l) : LineShape13 l := by
  obtain ⟨init, bs, hl, _⟩ := h.last
  refine ⟨⟨init, bs, hl⟩, ?_⟩
  intro b hb hlast
  have hok := h.ok _ hb
  obtain ⟨ys, hys⟩ := List.getLast?_eq_some_iff.mp hlast
  exact alnum_ne_lf8 10 (hok.2 10 (by rw [hys]; simp)) rfl

theorem uatomNodes_txt_cons13 (soft hard : Bool) (b : Bytes) (rest : List EAtom) (h : rest ≠ []) :
    uatomNodes soft hard (.txt b :: rest) =
      .mk (.text b false false false false) none [] :: uatomNodes soft hard rest := by
  cases rest with
  | nil => exact absurd rfl h
  | cons a rest => rfl

/-- the break written behind a line -/
def lineBreak13 (soft hard : Bool) : Bytes := if hard then strBytes "<br />\n" else if soft then [10] else []

/-- the nodes of one line, followed by any other nodes -/
theorem renderNodes_uatoms13 (rc : RCfg) (hes : rc.core.escSpace = false) (hhw : rc.core.hardWraps = false)
    (hea : rc.core.ea = 0) (hx : rc.core.xhtml = true) (ph soft hard : Bool) (init : List EAtom) (bs : Bytes)
    (tail : List Node) (hc : ∀ b, EAtom.code b ∈ init → b.getLast? ≠ some 10) :
    renderNodes rc ph (uatomNodes soft hard (init ++ [.txt bs]) ++ tail) =
      erichLineHtml (init ++ [.txt bs]) ++ lineBreak13 soft hard ++ renderNodes rc ph tail := by
  induction init with
  | nil =>
    simp only [List.nil_append, uatomNodes, List.cons_append, renderNodes, renderNode_text9 rc hes hhw hea hx,
      erichLineHtml, List.flatMap_cons, List.flatMap_nil, eatomHtml, List.append_nil, lineBreak13]
  | cons a init ih =>
    have ih' := ih (fun b hb => hc b (by simp [hb]))
    cases a with
    | txt b =>
      rw [List.cons_append, uatomNodes_txt_cons13 soft hard b _ (by simp), List.cons_append, renderNodes,
        renderNode_text rc hes hhw hea, ih']
      simp [erichLineHtml, eatomHtml]
    | code b =>
      rw [List.cons_append, uatomNodes, List.cons_append, renderNodes,
        renderNode_code8 rc ph _ b (hc b (by simp)), ih']
      simp [erichLineHtml, eatomHtml]
    | em b =>
      rw [List.cons_append, uatomNodes, List.cons_append, renderNodes, renderNode_em13 rc hes hhw hea, ih']
      simp [erichLineHtml, eatomHtml]
    | strong b =>
      rw [List.cons_append, uatomNodes, List.cons_append, renderNodes, renderNode_strong13 rc hes hhw hea, ih']
      simp [erichLineHtml, eatomHtml]

/-- ingredient (2): the nodes of one line of shape `LineShape13` -/
theorem renderNodes_uline13 (rc : RCfg) (hes : rc.core.escSpace = false) (hhw : rc.core.hardWraps = false)
    (hea : rc.core.ea = 0) (hx : rc.core.xhtml = true) (ph soft hard : Bool) (l : List EAtom) (hl : LineShape13 l) :
    renderNodes rc ph (uatomNodes soft hard l) =
      erichLineHtml l ++ (if hard then strBytes "<br />\n" else if soft then [10] else []) := by
  obtain ⟨⟨init, bs, rfl⟩, hc⟩ := hl
  have := renderNodes_uatoms13 rc hes hhw hea hx ph soft hard init bs [] (fun b hb => hc b (by simp [hb]))
  simpa [renderNodes, lineBreak13] using this

/-- ingredient (3): the children of a paragraph -/
theorem renderNodes_uNodes13 (rc : RCfg) (hes : rc.core.escSpace = false) (hhw : rc.core.hardWraps = false)
    (hea : rc.core.ea = 0) (hx : rc.core.xhtml = true) (ph : Bool) (ls : List ULine)
    (hl : ∀ x ∈ ls, LineShape13 x.atoms) :
    renderNodes rc ph (uNodes ls) = uHtml ls := by
  induction ls with
  | nil => simp [uNodes, renderNodes, uHtml]
  | cons x rest ih =>
    cases rest with
    | nil =>
      rw [uNodes, uHtml, renderNodes_uline13 rc hes hhw hea hx ph false false _ (hl x (by simp))]
      simp
    | cons y rest =>
      obtain ⟨⟨init, bs, hx'⟩, hc⟩ := hl x (by simp)
      have hc' : ∀ b, EAtom.code b ∈ init → b.getLast? ≠ some 10 := fun b hb => hc b (by rw [hx']; simp [hb])
      rw [uNodes, uHtml, hx', renderNodes_uatoms13 rc hes hhw hea hx ph _ _ init bs _ hc',
        ih (fun z hz => hl z (by simp [hz]))]
      cases x.hard <;> simp [lineBreak13]

theorem renderNodes_uNodesOK13 (rc : RCfg) (hes : rc.core.escSpace = false) (hhw : rc.core.hardWraps = false)
    (hea : rc.core.ea = 0) (hx : rc.core.xhtml = true) (ph : Bool) (ls : List ULine) (hl : ULinesOK ls) :
    renderNodes rc ph (uNodes ls) = uHtml ls :=
  renderNodes_uNodes13 rc hes hhw hea hx ph ls (fun x hx' => lineShape_of_erichLine13 _ (hl.1 x hx'))

/-! ### no panic inside a line -/

theorem renderPanicsNodes_uatoms13 (rc : RCfg) (soft hard : Bool) (l : List EAtom) (tail : List Node)
    (ht : renderPanicsNodes rc tail = none) :
    renderPanicsNodes rc (uatomNodes soft hard l ++ tail) = none := by
  induction l with
  | nil => simpa [uatomNodes] using ht
  | cons a rest ih =>
    cases a with
    | txt b =>
      cases rest with
      | nil => simp [uatomNodes, renderPanicsNodes, renderPanicsNode, nodePanic, ht]
      | cons a' rest' =>
        rw [uatomNodes_txt_cons13 soft hard b _ (by simp), List.cons_append, renderPanicsNodes, ih]
        simp [renderPanicsNode, nodePanic, renderPanicsNodes]
    | code b =>
      rw [uatomNodes, List.cons_append, renderPanicsNodes, ih]
      simp [renderPanicsNode, nodePanic, handled_codeSpan8, skipsChildren, codeSpanChildrenText, Node.kind, Kind.isText]
    | em b =>
      rw [uatomNodes, List.cons_append, renderPanicsNodes, ih, renderPanicsNode_emph13]
    | strong b =>
      rw [uatomNodes, List.cons_append, renderPanicsNodes, ih, renderPanicsNode_emph13]

theorem renderPanicsNodes_uline13 (rc : RCfg) (soft hard : Bool) (l : List EAtom) :
    renderPanicsNodes rc (uatomNodes soft hard l) = none := by
  have := renderPanicsNodes_uatoms13 rc soft hard l [] (by simp [renderPanicsNodes])
  simpa using this

theorem renderPanicsNodes_uNodes13 (rc : RCfg) (ls : List ULine) : renderPanicsNodes rc (uNodes ls) = none := by
  induction ls with
  | nil => simp [uNodes, renderPanicsNodes]
  | cons x rest ih =>
    cases rest with
    | nil => rw [uNodes]; exact renderPanicsNodes_uline13 rc false false x.atoms
    | cons y rest =>
      rw [uNodes]
      exact renderPanicsNodes_uatoms13 rc _ _ x.atoms _ ih

/-! ### one block -/

theorem renderNode_upara13 (rc : RCfg) (hes : rc.core.escSpace = false) (hhw : rc.core.hardWraps = false)
    (hea : rc.core.ea = 0) (hx : rc.core.xhtml = true) (ph : Bool) (next : Option Node) (ls : List ULine)
    (hl : ∀ x ∈ ls, LineShape13 x.atoms) :
    renderNode rc ph next (uNode (.para ls)) = uBlockHtml (.para ls) := by
  rw [uNode, uBlockHtml, renderNode]
  simp only [enter, leave, handled_para, skipsChildren, openTag, Kind.isTableHeader,
    renderNodes_uNodes13 rc hes hhw hea hx _ ls hl]
  have h1 : strBytes "<p>" = [60] ++ strBytes "p" ++ [62] := by decide +kernel
  rw [h1]; simp

theorem renderNode_uatx13 (rc : RCfg) (hes : rc.core.escSpace = false) (hhw : rc.core.hardWraps = false)
    (hea : rc.core.ea = 0) (hx : rc.core.xhtml = true) (ph : Bool) (next : Option Node) (level : Nat)
    (l : List EAtom) (hl : LineShape13 l) :
    renderNode rc ph next (uNode (.atx level l)) = uBlockHtml (.atx level l) := by
  rw [uNode, uBlockHtml, renderNode]
  simp only [enter, leave, handled_heading4, skipsChildren, Kind.isTableHeader, renderAttrs,
    renderNodes_uline13 rc hes hhw hea hx _ false false l hl]
  have h1 : strBytes ">\n" = [62, 10] := by decide +kernel
  rw [h1]; simp

/-- ingredient (4): one block -/
theorem renderNode_ublock13 (rc : RCfg) (hes : rc.core.escSpace = false) (hhw : rc.core.hardWraps = false)
    (hea : rc.core.ea = 0) (hx : rc.core.xhtml = true) (ph : Bool) (next : Option Node) (b : UBlock)
    (hg : UGood b) : renderNode rc ph next (uNode b) = uBlockHtml b := by
  cases b with
  | para ls =>
    exact renderNode_upara13 rc hes hhw hea hx ph next ls
      (fun x hx' => lineShape_of_erichLine13 _ (hg.2.1 x hx'))
  | atx level l =>
    exact renderNode_uatx13 rc hes hhw hea hx ph next level l (lineShape_of_erichLine13 _ hg.2.2.1)
  | hr h => rw [uNode, uBlockHtml, renderNode_raw5 rc hes hhw hea hx]
  | fence fc n info ls => rw [uNode, uBlockHtml, renderNode_raw5 rc hes hhw hea hx]
  | icode ls => rw [uNode, uBlockHtml, renderNode_raw5 rc hes hhw hea hx]

theorem renderPanicsNode_ublock13 (rc : RCfg) (b : UBlock) (hg : UGood b) :
    renderPanicsNode rc (uNode b) = none := by
  cases b with
  | para ls => simp [uNode, renderPanicsNode, nodePanic, renderPanicsNodes_uNodes13]
  | atx level l =>
    have h6 : ¬ level > 6 := by have := hg.2.1; omega
    simp [uNode, renderPanicsNode, nodePanic, handled_heading4, h6, skipsChildren, renderPanicsNodes_uline13]
  | hr h =>
    rw [uNode]
    exact renderPanicsNode_raw5 rc _ (fun level l he => by simp at he)
  | fence fc n info ls =>
    rw [uNode]
    exact renderPanicsNode_raw5 rc _ (fun level l he => by simp at he)
  | icode ls =>
    rw [uNode]
    exact renderPanicsNode_raw5 rc _ (fun level l he => by simp at he)

theorem renderPanics_ublock13 (rc : RCfg) (b : UBlock) (hg : UGood b) : renderPanics rc (uNode b) = none :=
  renderPanicsNode_ublock13 rc b hg

/-! ### the blocks of a document -/

theorem renderNodes_ublocks13 (rc : RCfg) (hes : rc.core.escSpace = false) (hhw : rc.core.hardWraps = false)
    (hea : rc.core.ea = 0) (hx : rc.core.xhtml = true) (ph : Bool) (bs : List UBlock) (hg : ∀ b ∈ bs, UGood b) :
    renderNodes rc ph (bs.map uNode) = uDocHtml bs := by
  induction bs with
  | nil => simp [renderNodes, uDocHtml]
  | cons b rest ih =>
    rw [List.map_cons, renderNodes, renderNode_ublock13 rc hes hhw hea hx _ _ b (hg b (by simp)),
      ih (fun x hx' => hg x (by simp [hx']))]
    simp [uDocHtml]

theorem renderPanicsNodes_ublocks13 (rc : RCfg) (bs : List UBlock) (hg : ∀ b ∈ bs, UGood b) :
    renderPanicsNodes rc (bs.map uNode) = none := by
  induction bs with
  | nil => simp [renderPanicsNodes]
  | cons b rest ih =>
    rw [List.map_cons, renderPanicsNodes, ih (fun x hx' => hg x (by simp [hx'])),
      renderPanicsNode_ublock13 rc b (hg b (by simp))]

theorem render_udoc13 (rc : RCfg) (hes : rc.core.escSpace = false) (hhw : rc.core.hardWraps = false)
    (hea : rc.core.ea = 0) (hx : rc.core.xhtml = true) (bs : List UBlock) (hg : ∀ b ∈ bs, UGood b) :
    render rc (.mk .document none (bs.map uNode)) = uDocHtml bs := by
  rw [render, renderNode]
  simp [enter, leave, handled_doc, skipsChildren, Kind.isTableHeader,
    renderNodes_ublocks13 rc hes hhw hea hx _ bs hg]

theorem renderPanics_udoc13 (rc : RCfg) (bs : List UBlock) (hg : ∀ b ∈ bs, UGood b) :
    renderPanics rc (.mk .document none (bs.map uNode)) = none := by
  simp [renderPanics, renderPanicsNode, nodePanic, renderPanicsNodes_ublocks13 rc bs hg]

theorem renderDoc_u_any13 (o : GM.Convert.ROpts) (ho : o.hardWraps = false) (hx : o.xhtml = true)
    (bs : List UBlock) (hg : ∀ b ∈ bs, UGood b) :
    GM.Convert.renderDoc o (.mk .document none (bs.map uNode)) = .ok (uDocHtml bs) := by
  rw [GM.Convert.renderDoc, renderPanics_udoc13 o.rcfg bs hg,
    render_udoc13 o.rcfg (rcfg_escSpace o) (by rw [rcfg_hardWraps, ho]) (rcfg_ea o) (by rw [rcfg_xhtml4, hx]) bs hg]

/-- the renderer on a document of union blocks -/
theorem renderDoc_u13 (bs : List UBlock) (hg : ∀ b ∈ bs, UGood b) :
    GM.Convert.renderDoc cmOpts (.mk .document none (bs.map uNode)) = .ok (uDocHtml bs) :=
  renderDoc_u_any13 cmOpts rfl rfl bs hg

/-! ### the document inside one block quote -/

theorem render_uquote13 (rc : RCfg) (hes : rc.core.escSpace = false) (hhw : rc.core.hardWraps = false)
    (hea : rc.core.ea = 0) (hx : rc.core.xhtml = true) (bs : List UBlock) (hg : ∀ b ∈ bs, UGood b) :
    render rc (.mk .document none [.mk .blockquote none (bs.map uNode)]) =
      strBytes "<blockquote>\n" ++ uDocHtml bs ++ strBytes "</blockquote>\n" := by
  rw [render, renderNode]
  simp only [enter, leave, handled_doc, skipsChildren, Kind.isTableHeader, renderNodes, renderNode,
    handled_quoteQ, renderNodes_ublocks13 rc hes hhw hea hx _ bs hg, openTag, quoteOpen_bytes]
  simp

theorem renderPanics_uquote13 (rc : RCfg) (bs : List UBlock) (hg : ∀ b ∈ bs, UGood b) :
    renderPanics rc (.mk .document none [.mk .blockquote none (bs.map uNode)]) = none := by
  simp [renderPanics, renderPanicsNode, nodePanic, renderPanicsNodes, renderPanicsNodes_ublocks13 rc bs hg]

theorem renderDoc_quote_u_any13 (o : GM.Convert.ROpts) (ho : o.hardWraps = false) (hx : o.xhtml = true)
    (bs : List UBlock) (hg : ∀ b ∈ bs, UGood b) :
    GM.Convert.renderDoc o (.mk .document none [.mk .blockquote none (bs.map uNode)]) =
      .ok (strBytes "<blockquote>\n" ++ uDocHtml bs ++ strBytes "</blockquote>\n") := by
  rw [GM.Convert.renderDoc, renderPanics_uquote13 o.rcfg bs hg,
    render_uquote13 o.rcfg (rcfg_escSpace o) (by rw [rcfg_hardWraps, ho]) (rcfg_ea o) (by rw [rcfg_xhtml4, hx]) bs hg]

/-- the renderer on one block quote around union blocks -/
theorem renderDoc_quote_u13 (bs : List UBlock) (hg : ∀ b ∈ bs, UGood b) :
    GM.Convert.renderDoc cmOpts (.mk .document none [.mk .blockquote none (bs.map uNode)]) =
      .ok (strBytes "<blockquote>\n" ++ uDocHtml bs ++ strBytes "</blockquote>\n") :=
  renderDoc_quote_u_any13 cmOpts rfl rfl bs hg

end GM.Proof.CMFrag
