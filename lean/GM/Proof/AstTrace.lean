/-
  GM.Proof.AstTrace — the decidable proviso check `preCheck`/`preB` of GM.Model.AstTrace is exact on
  heaps that represent a forest, its fuel suffices, `compact` is the identity, and therefore the
  checked replay `runChecked` answers `ok h'` exactly when the call list is within the proviso
  (`PreAll`), in which case `h'` is the heap of the unchecked run and represents the spec forest.
-/
import GM.Proof.AstTreeSize
import GM.Model.AstTrace

namespace GM.Proof.AstTrace
open GM.Spec GM.Spec.Forest GM.AstHeap GM.AstTrace GM.Proof.AstHeap GM.Proof.ForestLists

/-! ## the ancestor walk -/

theorem desc_tail {f : Forest} {a c : Nat} (h : Desc f a c) : a = c ∨ ∃ b, Desc f a b ∧ c ∈ f b := by
  cases h with
  | refl => exact Or.inl rfl
  | step h1 h2 => exact Or.inr ⟨_, h1, h2⟩

theorem descB_true {h : Heap} {f : Forest} (A : Abs h f) (c : Nat) :
    ∀ (fuel p : Nat), descB h c fuel p = some true → Desc f c p := by
  intro fuel
  induction fuel with
  | zero => intro p hp; simp [descB] at hp
  | succ fuel ih =>
    intro p hp
    simp only [descB] at hp
    split at hp
    · rename_i e; subst e; exact Desc.refl _
    · split at hp
      · cases hp
      · rename_i q hq
        exact Desc.step (ih q hp) ((A.parent p q).1 hq)

theorem descB_false {h : Heap} {f : Forest} (A : Abs h f) (c : Nat) :
    ∀ (fuel p : Nat), descB h c fuel p = some false → ¬ Desc f c p := by
  intro fuel
  induction fuel with
  | zero => intro p hp; simp [descB] at hp
  | succ fuel ih =>
    intro p hp hd
    simp only [descB] at hp
    split at hp
    · cases hp
    · rename_i hne
      rcases desc_tail hd with e | ⟨b, hb, hm⟩
      · exact hne e.symm
      · have hpar := (A.parent p b).2 hm
        rw [hpar] at hp
        exact ih b hp hb

/-- a walk that runs out of fuel has passed `fuel` nodes of strictly increasing height, all of them
    children of some node -/
theorem descB_none_chain {h : Heap} {f : Forest} (A : Abs h f) {ht : Nat → Nat}
    (hht : ∀ q x, x ∈ f q → ht x < ht q) (c : Nat) :
    ∀ (fuel p : Nat), descB h c fuel p = none →
      ∃ l : List Nat, l.length = fuel ∧ l.Pairwise (fun a b => ht a < ht b) ∧
        (∀ x ∈ l, ht p ≤ ht x) ∧ (∀ x ∈ l, ∃ q, x ∈ f q) := by
  intro fuel
  induction fuel with
  | zero => intro p _; exact ⟨[], rfl, List.Pairwise.nil, by simp, by simp⟩
  | succ fuel ih =>
    intro p hp
    simp only [descB] at hp
    split at hp
    · cases hp
    · split at hp
      · cases hp
      · rename_i q hq
        have hm : p ∈ f q := (A.parent p q).1 hq
        have hlt := hht q p hm
        obtain ⟨l, hl, hpw, hge, hch⟩ := ih q hp
        refine ⟨p :: l, by simp [hl], ?_, ?_, ?_⟩
        · exact List.Pairwise.cons (fun x hx => Nat.lt_of_lt_of_le hlt (hge x hx)) hpw
        · intro x hx
          rcases List.mem_cons.1 hx with e | hx
          · subst e; exact Nat.le_refl _
          · exact Nat.le_of_lt (Nat.lt_of_lt_of_le hlt (hge x hx))
        · intro x hx
          rcases List.mem_cons.1 hx with e | hx
          · subst e; exact ⟨q, hm⟩
          · exact hch x hx

/-- the fuel of the ancestor walk suffices: on an acyclic forest over `n` allocated nodes the walk ends
    within `n + 1` steps -/
theorem descB_fuel_suffices {h : Heap} {f : Forest} (A : Abs h f) (hA : Acyclic f) {n : Nat} (B : Bounded n f)
    {fuel : Nat} (hn : n < fuel) (c p : Nat) : descB h c fuel p ≠ none := by
  intro hnone
  obtain ⟨ht, hht⟩ := hA
  obtain ⟨l, hl, hpw, _, hch⟩ := descB_none_chain A hht c fuel p hnone
  have nd : l.Nodup := by
    refine hpw.imp ?_
    intro a b hab e; subst e; exact Nat.lt_irrefl _ hab
  have hb : ∀ x ∈ l, x < n := by
    intro x hx
    obtain ⟨q, hq⟩ := hch x hx
    exact B q x hq
  have := length_le_of_nodup_lt nd hb
  omega

/-! ## one call -/

theorem preInsert_ok {h : Heap} {f : Forest} (A : Abs h f) {fuel p c : Nat} {side : Bool}
    (hok : preInsert fuel h p c side = .ok) : ¬ Desc f c p ∧ side = true := by
  unfold preInsert at hok
  split at hok
  · cases hok
  · cases hok
  · rename_i hd
    split at hok
    · rename_i hs; exact ⟨descB_false A c fuel p hd, hs⟩
    · cases hok

theorem preInsert_violated {h : Heap} {f : Forest} (A : Abs h f) {fuel p c : Nat} {side : Bool}
    (hv : preInsert fuel h p c side = .violated) : Desc f c p ∨ side = false := by
  unfold preInsert at hv
  split at hv
  · cases hv
  · rename_i hd; exact Or.inl (descB_true A c fuel p hd)
  · split at hv
    · cases hv
    · rename_i hs; exact Or.inr (by simpa using hs)

theorem preInsert_ne_fuel {h : Heap} {f : Forest} (A : Abs h f) (hA : Acyclic f) {n : Nat} (B : Bounded n f)
    {fuel : Nat} (hn : n < fuel) (p c : Nat) (side : Bool) : preInsert fuel h p c side ≠ .fuel := by
  unfold preInsert
  split
  · rename_i hd; exact absurd hd (descB_fuel_suffices A hA B hn c p)
  · intro hc; cases hc
  · split <;> (intro hc; cases hc)

/-- the check accepts only calls within the proviso -/
theorem preCheck_sound {h : Heap} {f : Forest} (A : Abs h f) {fuel : Nat} {op : Op}
    (hok : preCheck fuel h op = .ok) : Pre f op := by
  cases op with
  | append p c =>
    cases c with
    | none => simp [preCheck] at hok
    | some c => exact (preInsert_ok A hok).1
  | insertBefore p v c =>
    cases c with
    | none => simp [preCheck] at hok
    | some c =>
      have := preInsert_ok A hok
      exact ⟨this.1, by simpa using this.2⟩
  | insertAfter p v c =>
    cases c with
    | none => simp [preCheck] at hok
    | some c =>
      have := preInsert_ok A hok
      exact ⟨this.1, by simpa using this.2⟩
  | replace p v c =>
    cases c with
    | none => cases v <;> simp [preCheck] at hok
    | some c =>
      cases v with
      | none => simp [preCheck] at hok
      | some v =>
        have := preInsert_ok A hok
        exact ⟨this.1, by simpa using this.2⟩
  | remove p c =>
    cases c with
    | none => simp [preCheck] at hok
    | some c => trivial
  | removeChildren p => trivial
  | sort p cmp => trivial

theorem preB_sound {h : Heap} {f : Forest} (A : Abs h f) {fuel : Nat} {op : Op}
    (hok : preB fuel h op = true) : Pre f op :=
  preCheck_sound A (by simpa [preB] using hok)

/-- the check rejects only calls outside the proviso -/
theorem preCheck_violated {h : Heap} {f : Forest} (A : Abs h f) {fuel : Nat} {op : Op}
    (hv : preCheck fuel h op = .violated) : ¬ Pre f op := by
  cases op with
  | append p c =>
    cases c with
    | none => simp [Pre]
    | some c =>
      rcases preInsert_violated A hv with hd | hs
      · exact fun hp => hp hd
      · cases hs
  | insertBefore p v c =>
    cases c with
    | none => simp [Pre]
    | some c =>
      rcases preInsert_violated A hv with hd | hs
      · exact fun hp => hp.1 hd
      · exact fun hp => hp.2 (by simpa using hs)
  | insertAfter p v c =>
    cases c with
    | none => simp [Pre]
    | some c =>
      rcases preInsert_violated A hv with hd | hs
      · exact fun hp => hp.1 hd
      · exact fun hp => hp.2 (by simpa using hs)
  | replace p v c =>
    cases c with
    | none => cases v <;> simp [Pre]
    | some c =>
      cases v with
      | none => simp [Pre]
      | some v =>
        rcases preInsert_violated A hv with hd | hs
        · exact fun hp => hp.1 hd
        · exact fun hp => hp.2 (by simpa using hs)
  | remove p c =>
    cases c with
    | none => simp [Pre]
    | some c => simp [preCheck] at hv
  | removeChildren p => simp [preCheck] at hv
  | sort p cmp => simp [preCheck] at hv

theorem preCheck_ne_fuel {h : Heap} {f : Forest} (A : Abs h f) (hA : Acyclic f) {n : Nat} (B : Bounded n f)
    {fuel : Nat} (hn : n < fuel) (op : Op) : preCheck fuel h op ≠ .fuel := by
  cases op with
  | append p c => cases c <;> simp only [preCheck] <;> first | exact preInsert_ne_fuel A hA B hn _ _ _ | (intro hc; cases hc)
  | insertBefore p v c => cases c <;> simp only [preCheck] <;> first | exact preInsert_ne_fuel A hA B hn _ _ _ | (intro hc; cases hc)
  | insertAfter p v c => cases c <;> simp only [preCheck] <;> first | exact preInsert_ne_fuel A hA B hn _ _ _ | (intro hc; cases hc)
  | replace p v c =>
    cases c <;> cases v <;> simp only [preCheck] <;> first | exact preInsert_ne_fuel A hA B hn _ _ _ | (intro hc; cases hc)
  | remove p c => cases c <;> simp only [preCheck] <;> (intro hc; cases hc)
  | removeChildren p => simp only [preCheck]; intro hc; cases hc
  | sort p cmp => simp only [preCheck]; intro hc; cases hc

/-! ## re-tabulation is the identity -/

theorem tabGet_tabulate {α : Type} (n : Nat) (f : Nat → α) : tabGet (tabulate n f) f = f := by
  funext i
  simp only [tabGet, tabulate]
  split
  · rename_i v hv
    rw [Array.getElem?_ofFn] at hv
    split at hv
    · exact (Option.some.inj hv).symm
    · cases hv
  · rfl

theorem compact_eq (n : Nat) (h : Heap) : compact n h = h := by
  cases h
  simp only [compact, tabGet_tabulate]

/-! ## the checked replay -/

/-- what an answer of the checked replay means -/
def Meaning (fuel : Nat) (h : Heap) (f : Forest) (ops : List Op) : Outcome → Prop
  | .ok h' => PreAll f ops ∧ run fuel h ops = .ok h' ∧ Abs h' (specRun f ops)
  | .preViolated _ => ¬ PreAll f ops
  | .preFuel _ => False
  | .fault _ _ => False

theorem runChecked_meaning {n fuel : Nat} (hn : n < fuel) : ∀ (ops : List Op) (k : Nat) {h : Heap} {f : Forest},
    Abs h f → Bounded n f → Acyclic f → (∀ op ∈ ops, OpIn n op) →
    Meaning fuel h f ops (runChecked n fuel k h ops) := by
  intro ops
  induction ops with
  | nil => intro k h f A _ _ _; exact ⟨trivial, rfl, A⟩
  | cons op ops ih =>
    intro k h f A B hA hin
    simp only [runChecked]
    cases hc : preCheck fuel h op with
    | violated =>
      exact fun hp => preCheck_violated A hc hp.1
    | fuel => exact absurd hc (preCheck_ne_fuel A hA B hn op)
    | ok =>
      have hpre : Pre f op := preCheck_sound A hc
      obtain ⟨h1, e1, A1⟩ := step_refines A hpre (fuel := fuel)
        (fun p => Nat.lt_of_le_of_lt (A.length_le B p) hn)
      have B1 := specStep_bounded B (hin op (by simp))
      have hA1 := specStep_acyclic A.nodup hA hpre
      have hh : (if (k + 1) % 32 = 0 then compact n h1 else h1) = h1 := by
        split
        · exact compact_eq n h1
        · rfl
      simp only [e1, hh]
      have := ih (k + 1) A1 B1 hA1 (fun o ho => hin o (by simp [ho]))
      cases hr : runChecked n fuel (k + 1) h1 ops with
      | ok h' =>
        rw [hr] at this
        exact ⟨⟨hpre, this.1⟩, by simp only [run, e1]; exact this.2.1, this.2.2⟩
      | preViolated k' =>
        rw [hr] at this
        exact fun hp => this hp.2
      | preFuel k' => rw [hr] at this; exact this
      | fault k' e => rw [hr] at this; exact this

/-- the checked replay accepts a call list exactly when every call is within the proviso -/
theorem runChecked_isOk_iff {n fuel : Nat} (hn : n < fuel) (ops : List Op) (hin : ∀ op ∈ ops, OpIn n op) :
    (runChecked n fuel 0 Heap.empty ops).isOk = true ↔ PreAll Forest.empty ops := by
  have := runChecked_meaning hn ops 0 abs_empty (bounded_empty n) acyclic_empty hin
  cases hr : runChecked n fuel 0 Heap.empty ops with
  | ok h' => rw [hr] at this; simp only [Outcome.isOk, true_iff]; exact this.1
  | preViolated k => rw [hr] at this; simp only [Outcome.isOk, Bool.false_eq_true, false_iff]; exact this
  | preFuel k => rw [hr] at this; exact this.elim
  | fault k e => rw [hr] at this; exact this.elim

end GM.Proof.AstTrace
