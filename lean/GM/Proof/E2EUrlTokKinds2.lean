/-
  GM.Proof.E2EUrlTokKinds2 — copy of GM.Proof.RenderWF.Kinds2 for the grammar `WFHtmlU` (harmless `href` / `src` values as a side
  condition of every start tag); see GM.Proof.E2EUrlTokGrammar. Only `wf_el` / `wf_void` differ (they ask for `UrlAttrs`).
-/
import GM.Proof.E2EUrlTokKinds
import GM.Proof.RenderWF.Kinds2

namespace GM.Proof.RenderWFU
open GM GM.Spec GM.Proof.RenderWF

variable {x : Bool} {rc : RCfg}

theorem wf_link (hc : CfgOK x rc) (pih next attrs cs) (dest : Bytes) (title : Option Bytes) {body : Bytes}
    (hb : WFHtmlU x body) (hinv : attrsInv attrs = true) (hcl : noClash (.link dest title) attrs = true) :
    WFHtmlU x (enter rc pih next (.link dest title) attrs cs ++ body ++ leave rc pih next (.link dest title) cs) := by
  unfold_el
  rw [hc.safe]
  cases title with
  | none =>
    have sok : StartOK [97] ([([104, 114, 101, 102], urlOut false (urlEscape dest true))] ++
        userAttrsO Gen.LinkAttributeFilter attrs) :=
      startOK_intro tag_a.name tag_a.allowed (sub_append _ _)
        (hfix_cons (by decide +kernel) (by decide +kernel) (urlOut_inert _) hfix_nil) (by simp) hinv
        (hc_blocked (by decide +kernel) hc_nil)
    exact wf_el tag_a sok (pre := []) (post := []) (by rw [renderAttrs_eq]; bnorm) (by bnorm) rfl rfl hb
  | some t =>
    have hcl' := absent_of (n := [116, 105, 116, 108, 101]) hcl (by simp only [fixedAttrNames]; bnorm; simp)
    have sok : StartOK [97] ([([104, 114, 101, 102], urlOut false (urlEscape dest true)),
        ([116, 105, 116, 108, 101], write rc.core.escSpace t)] ++ userAttrsO Gen.LinkAttributeFilter attrs) :=
      startOK_intro tag_a.name tag_a.allowed (sub_append _ _)
        (hfix_cons (by decide +kernel) (by decide +kernel) (urlOut_inert _)
          (hfix_cons (by decide +kernel) (by decide +kernel) (write_inert _ _) hfix_nil)) (by simp only [List.map]; decide) hinv
        (hc_blocked (by decide +kernel) (hc_absent hcl' hc_nil))
    exact wf_el tag_a sok (pre := []) (post := []) (by rw [renderAttrs_eq]; bnorm) (by bnorm) rfl rfl hb

theorem wf_image (hc : CfgOK x rc) (pih next attrs cs) (dest : Bytes) (title : Option Bytes) {body : Bytes}
    (hb : WFHtmlU x body) (hinv : attrsInv attrs = true) (hcl : noClash (.image dest title) attrs = true)
    (halt : inertBytes (altTexts rc.core.escSpace cs) = true) :
    WFHtmlU x (enter rc pih next (.image dest title) attrs cs ++ body ++ leave rc pih next (.image dest title) cs) := by
  unfold_el
  rw [hc.safe, hc.core]
  cases title with
  | none =>
    have sok : StartOK [105, 109, 103] ([([115, 114, 99], urlOut false (urlEscape dest true)),
        ([97, 108, 116], altTexts rc.core.escSpace cs)] ++ userAttrsO Gen.ImageAttributeFilter attrs) :=
      startOK_intro tag_img.name tag_img.allowed (sub_append _ _)
        (hfix_cons (by decide +kernel) (by decide +kernel) (urlOut_inert _)
          (hfix_cons (by decide +kernel) (by decide +kernel) halt hfix_nil)) (by simp only [List.map]; decide) hinv
        (hc_blocked (by decide +kernel) (hc_blocked (by decide +kernel) hc_nil))
    have v := wf_void (x := x) tag_img sok (post := [])
      (opn := strBytes "<img src=\"" ++ urlOut false (urlEscape dest true) ++ strBytes "\" alt=\"" ++
        altTexts rc.core.escSpace cs ++ [34] ++ [] ++ renderAttrs Gen.ImageAttributeFilter attrs ++
        (if x then strBytes " />" else [62]))
      (by rw [renderAttrs_eq]; cases x <;> bnorm) rfl
    exact (WFHtmlU.append _ _ v hb).of_eq (by simp)
  | some t =>
    have hcl' := absent_of (n := [116, 105, 116, 108, 101]) hcl (by simp only [fixedAttrNames]; bnorm; simp)
    have sok : StartOK [105, 109, 103] ([([115, 114, 99], urlOut false (urlEscape dest true)),
        ([97, 108, 116], altTexts rc.core.escSpace cs), ([116, 105, 116, 108, 101], write rc.core.escSpace t)] ++
        userAttrsO Gen.ImageAttributeFilter attrs) :=
      startOK_intro tag_img.name tag_img.allowed (sub_append _ _)
        (hfix_cons (by decide +kernel) (by decide +kernel) (urlOut_inert _)
          (hfix_cons (by decide +kernel) (by decide +kernel) halt
            (hfix_cons (by decide +kernel) (by decide +kernel) (write_inert _ _) hfix_nil))) (by simp only [List.map]; decide) hinv
        (hc_blocked (by decide +kernel) (hc_blocked (by decide +kernel) (hc_absent hcl' hc_nil)))
    have v := wf_void (x := x) tag_img sok (post := [])
      (opn := strBytes "<img src=\"" ++ urlOut false (urlEscape dest true) ++ strBytes "\" alt=\"" ++
        altTexts rc.core.escSpace cs ++ [34] ++ (strBytes " title=\"" ++ write rc.core.escSpace t ++ [34]) ++
        renderAttrs Gen.ImageAttributeFilter attrs ++ (if x then strBytes " />" else [62]))
      (by rw [renderAttrs_eq]; cases x <;> bnorm) rfl
    exact (WFHtmlU.append _ _ v hb).of_eq (by simp)

theorem wf_rawHTML (hc : CfgOK x rc) (pih next attrs cs) (segs : List Bytes) {body : Bytes} (hb : WFHtmlU x body) :
    WFHtmlU x (enter rc pih next (.rawHTML segs) attrs cs ++ body ++ leave rc pih next (.rawHTML segs) cs) := by
  unfold_el
  simp only [hc.safe, Bool.false_eq_true, ↓reduceIte]
  exact (WFHtmlU.append _ _ (WFHtmlU.comment.of_eq omitted_eq) hb).of_eq (by simp)

theorem wf_br : WFHtmlU x (if x then strBytes "<br />\n" else strBytes "<br>\n") :=
  wf_void (x := x) tag_br (sok_fixed tag_br (fixed := []) rfl (by simp)) (post := [10])
    (by cases x <;> bnorm) (by decide)

theorem wf_text (hc : CfgOK x rc) (pih next attrs cs) (v : Bytes) (soft hard raw cjk : Bool) {body : Bytes}
    (hb : WFHtmlU x body) :
    WFHtmlU x (enter rc pih next (.text v soft hard raw cjk) attrs cs ++ body ++
      leave rc pih next (.text v soft hard raw cjk) cs) := by
  unfold_el
  rw [hc.core]
  refine .append3 ?_ hb .nil
  split
  · exact .txt (rawWrite_inert _)
  · refine .append _ _ (.txt (write_inert _ _)) ?_
    split
    · exact wf_br
    · refine .txt ?_
      split
      · split
        · split <;> decide
        · decide
      · rfl

theorem wf_string (pih next attrs cs) (v : Bytes) (raw code : Bool) {body : Bytes}
    (hb : WFHtmlU x body) (hcode : code = true → inertBytes v = true) :
    WFHtmlU x (enter rc pih next (.string v raw code) attrs cs ++ body ++
      leave rc pih next (.string v raw code) cs) := by
  unfold_el
  refine .append3 (.txt ?_) hb .nil
  unfold renderStringOut
  split
  · rename_i h; exact hcode h
  · split
    · exact rawWrite_inert _
    · exact write_inert _ _

end GM.Proof.RenderWFU

