/-
  GM.Proof.BlocksTNP30 — the block driver with paragraph transformers for a WIDER transformer contract (so that GFM's table
  paragraph transformer fits): `StepX` = what ONE transformer call must guarantee (abstract, relational): `TStep` (reader,
  pc, kinds, other nodes' lines, `NodesOK`, KEEP: the paragraph keeps a parent and lines / GONE: it is parentless), the
  tree-link frame `TF`, `PLTf`, `TreeOK`, the frame of "x is the last child of q" for every other node x, and in the KEEP
  case `KeepF` (`Ext`; old nodes other than the paragraph keep their parent; parents of fresh nodes are fresh or the
  paragraph's parent) INSTEAD of `TreeSame` — a KEEP call may now attach fresh subtrees (the Table directly behind the
  paragraph). `PTSpecX` / `PTsSpecX`; `PTSpec → PTSpecX`. Then `transformParagraph`, `closeLoopT`, `closeBlocksT` as in
  GM.Proof.BlocksTNP22 (namespace `GM.Blocks.L.G.X`; everything that does not mention the contract is reused from `L.G`).
-/
import GM.Proof.BlocksTNP22

namespace GM.Blocks.L.G.X
open GM GM.Text GM.Spec GM.Proof.Reader GM.Blocks.T GM.Blocks.TR

/-- the KEEP case of a transformer call: `Ext`, and what it may do to parent pointers -/
structure KeepF (node : Nat) (s s' : St) : Prop where
  ext : Ext s s'
  parOld : ∀ i, i < s.nodes.length → i ≠ node → (nd s' i).parent = (nd s i).parent
  parNew : ∀ i, s.nodes.length ≤ i → ∀ q, (nd s' i).parent = some q → s.nodes.length ≤ q ∨ (nd s node).parent = some q

theorem KeepF.refl (node : Nat) (s : St) : KeepF node s s :=
  ⟨Ext.refl s, fun _ _ _ => rfl, fun i hi q hq => by rw [nd_default_of_ge s hi] at hq; cases hq⟩

theorem KeepF.of_treeSame {node : Nat} {s s' : St} (t : TreeSame s s') (e : Ext s s') : KeepF node s s' :=
  ⟨e, fun i _ _ => (t.same i).2.1, fun i hi q hq => by
    rw [(t.same i).2.1, nd_default_of_ge s hi] at hq; cases hq⟩

/-- what ONE paragraph transformer call guarantees; `g` = the paragraph is parentless afterwards -/
def StepX (src : Bytes) (node : Nat) (s s' : St) (g : Bool) : Prop :=
  TStep src node s s' g ∧ TF s s' ∧ PLTf s' ∧ TreeOK s' ∧ (∀ x q, x ≠ node → LK s x q → LK s' x q) ∧
    (g = false → KeepF node s s')

theorem StepX.trans {src : Bytes} {node : Nat} {s s1 s2 : St} {g : Bool} (hlt : node < s.nodes.length)
    (h1 : StepX src node s s1 false) (h2 : StepX src node s1 s2 g) : StepX src node s s2 g := by
  obtain ⟨hg, htf, _, _, hlk1, hkeep1⟩ := h1
  obtain ⟨hg2, htf2, hplt2, htree2, hlk2, hkeep2⟩ := h2
  have k1 := hkeep1 rfl
  refine ⟨hg.trans hg2, L.T.TF.transW htf hg.extW htf2 hg2.extW, hplt2, htree2,
    fun x q hx hlk => hlk2 x q hx (hlk1 x q hx hlk), fun hg' => ?_⟩
  have k2 := hkeep2 hg'
  refine ⟨k1.ext.trans k2.ext, fun i hi hne => ?_, fun i hi q hq => ?_⟩
  · rw [k2.parOld i (Nat.lt_of_lt_of_le hi hg.len) hne, k1.parOld i hi hne]
  · rcases Nat.lt_or_ge i s1.nodes.length with h | h
    · have hne : i ≠ node := by omega
      rw [k2.parOld i h hne] at hq
      exact k1.parNew i hi q hq
    · rcases k2.parNew i h q hq with h' | h'
      · left; have := hg.len; omega
      · right; rw [← (hg.keep rfl).2]; exact h'

/-- the contract of a paragraph transformer (wide form): from a state of the driver it ends as `StepX` says, or with `e` -/
def PTSpecX (src : Bytes) (e : Panic) (pt : PT) : Prop :=
  ∀ (node : Nat) (s : St), s.r.source = src → node < s.nodes.length → (nd s node).kind = .paragraph →
    (nd s node).parent.isSome = true → (nd s node).lines ≠ [] → NodesOK src s → KidsOK s → PLTf s → TreeOK s →
    (∃ s' g, pt node s = .ok ((), s') ∧ StepX src node s s' g) ∨ pt node s = .error e

def PTsSpecX (src : Bytes) (e : Panic) (pts : List PT) : Prop := ∀ pt ∈ pts, PTSpecX src e pt

/-- the old contract (`PTPost`: a suffix of the lines is kept, or ONE fresh TextBlock replaces the paragraph) is a special case -/
theorem ptSpecX_of_ptSpec {src : Bytes} {e : Panic} {pt : PT} (h : PTSpec src e pt) : PTSpecX src e pt := by
  intro node s hsrc hlt hk hp _ hn hkids hplt htree
  rcases h node s hsrc hlt hk hp hn with ⟨s1, e1, hpost⟩ | e1
  · obtain ⟨g, a, b, c⟩ := L.T.tstepL_of_post hn hlt hk hkids hplt hpost
    exact .inl ⟨s1, g, e1, a, b, c, treeOK_post hlt htree hpost, fun x q hx hlk => lk_post hx htree hlk hpost,
      fun hg => by
        obtain ⟨t, e'⟩ := keep_facts hlt hpost (hg ▸ a) hp
        exact KeepF.of_treeSame t e'⟩
  · exact .inr e1

theorem ptsSpecX_of_ptsSpec {src : Bytes} {e : Panic} {pts : List PT} (h : PTsSpec src e pts) : PTsSpecX src e pts :=
  fun pt hpt => ptSpecX_of_ptSpec (h pt hpt)

theorem ptsSpecX_append {src : Bytes} {e : Panic} {l1 l2 : List PT} (h1 : PTsSpecX src e l1) (h2 : PTsSpecX src e l2) :
    PTsSpecX src e (l1 ++ l2) := fun pt hpt => by
  rcases List.mem_append.1 hpt with h | h
  · exact h1 pt h
  · exact h2 pt h

theorem transformParagraphG_oke {src : Bytes} {e : Panic} : ∀ (pts : List PT), PTsSpecX src e pts →
    ∀ (node : Nat) (s : St), s.r.source = src → node < s.nodes.length → (nd s node).kind = .paragraph →
      (nd s node).parent.isSome = true → (nd s node).lines ≠ [] → NodesOK src s → KidsOK s → PLTf s → TreeOK s →
      OKE e (fun g s' => TStep src node s s' g ∧ TF s s' ∧ PLTf s' ∧ TreeOK s' ∧
        (∀ x q, x ≠ node → LK s x q → LK s' x q) ∧ (g = false → KeepF node s s'))
        (transformParagraph pts node s) := by
  intro pts
  induction pts with
  | nil =>
    intro _ node s _ _ _ _ hl hn _ hplt htree
    unfold transformParagraph
    exact OKE.ok ⟨TStep.refl hn hl, L.TF.refl s, hplt, htree, fun _ _ _ h => h, fun _ => KeepF.refl node s⟩
  | cons pt pts ih =>
    intro hs node s hsrc hlt hk hp hl hn hkids hplt htree
    unfold transformParagraph
    have h1 : OKE e (fun (_ : Unit) s1 => ∃ g, StepX src node s s1 g) (pt node s) := by
      rcases hs pt (List.mem_cons_self ..) node s hsrc hlt hk hp hl hn hkids hplt htree with ⟨s1, g, e1, hst⟩ | e1
      · rw [e1]; exact OKE.ok ⟨g, hst⟩
      · exact .inr e1
    refine OKE.bind h1 (fun _ s1 hg => ?_)
    obtain ⟨g, hst1⟩ := hg
    obtain ⟨hg, htf, hplt1, htree1, hlk1, hkeep1⟩ := hst1
    refine OKE.bind (m := getNode node) (P := fun n sy => n = nd s1 node ∧ sy = s1) (OKE.ok ⟨rfl, rfl⟩) (fun n sy hy => ?_)
    obtain ⟨hn1, hsy⟩ := hy
    subst n sy
    cases g with
    | true =>
      have : (nd s1 node).parent.isNone = true := by rw [hg.goneP rfl]; rfl
      rw [if_pos this]
      exact OKE.ok ⟨hg, htf, hplt1, htree1, hlk1, fun h => by cases h⟩
    | false =>
      obtain ⟨hl1, hp1⟩ := hg.keep rfl
      have : ¬ (nd s1 node).parent.isNone = true := by
        rw [hp1]; cases hh : (nd s node).parent with
        | none => rw [hh] at hp; cases hp
        | some _ => simp
      rw [if_neg this]
      have := ih (fun q hq => hs q (List.mem_cons_of_mem _ hq)) node s1 (by rw [hg.r]; exact hsrc)
        (Nat.lt_of_lt_of_le hlt hg.len) (by rw [hg.kind node hlt]; exact hk) (by rw [hp1]; exact hp) hl1 hg.nodes
        (L.T.KidsOK.tfW hkids hg.extW htf) hplt1 htree1
      exact this.mono (fun g2 s2 h2 =>
        StepX.trans hlt ⟨hg, htf, hplt1, htree1, hlk1, hkeep1⟩ h2)


section close
variable {src : Bytes} (lsp : LSp src) {e : Panic} {pts : List PT} (hpts : PTsSpecX src e pts)
include lsp hpts

theorem closeListG_oke (K : List Block) : ∀ (l : List Block) (s : St), s.r.source = src → CInv src s →
    (∀ b ∈ l, BlockOK s b) → (∀ b ∈ l.tail, b.bp.isContainer = true) →
    ((∃ b ∈ l, b.bp = .setext) → TmpOK s) →
    (∀ k ∈ K, BlockOK s k ∧ ∀ top, l.head? = some top → CompatG s k top) →
    OKE e (fun _ s' => s'.pc.opened = s.pc.opened ∧ CRel src K s s' ∧ ∀ x q, LK s x q → LKHyp s l x q → LK s' x q)
      (closeListT pts l s) := by
  intro l
  induction l with
  | nil =>
    intro s _ hi _ _ _ hK
    exact OKE.ok ⟨rfl, CRel.refl hi (fun k hk => (hK k hk).1), fun _ _ h _ => h⟩
  | cons top cs ih =>
    intro s hsrc hi hl hcs htl hK
    unfold closeListT
    refine OKE.bind (m := getNode top.node) (P := fun n s1 => n = nd s top.node ∧ s1 = s)
      (OKE.ok ⟨rfl, rfl⟩) (fun n s0 hn0 => ?_)
    obtain ⟨hn0, hs0⟩ := hn0
    subst n s0
    have htop := hl top (by simp)
    have hcsc : ∀ top', cs.head? = some top' → top'.bp.isContainer = true := fun top' ht => hcs top' (by
      cases cs with
      | nil => simp at ht
      | cons a as => simp at ht; subst ht; simp)
    have rest : ∀ s1 : St, s1.pc.opened = s.pc.opened → CRel src K s s1 → (∀ b ∈ cs, BlockOK s1 b) →
        (∀ x q, LK s x q → LKHyp s (top :: cs) x q → LK s1 x q) →
        OKE e (fun _ s' => s'.pc.opened = s.pc.opened ∧ CRel src K s s' ∧
          ∀ x q, LK s x q → LKHyp s (top :: cs) x q → LK s' x q) (closeListT pts cs s1) := by
      intro s1 hop h1 hcs1 hf1
      have := ih s1 (by rw [h1.r]; exact hsrc) h1.inv hcs1 (fun b hb => hcs b (List.mem_of_mem_tail hb))
        (fun ⟨b, hb, hs⟩ => by have := hcs b hb; rw [hs] at this; cases this)
        (fun k hk' => ⟨h1.blocks k hk', fun top' ht => CompatG.of_container (hcsc top' ht)⟩)
      refine OKE.mono this (fun _ s2 h2 => ?_)
      obtain ⟨hop2, h2r, hf2⟩ := h2
      exact ⟨by rw [hop2, hop], h1.trans h2r, fun x q hlk hh =>
        hf2 x q (hf1 x q hlk hh) (hh.step h1 hlk (fun b hb => List.mem_cons_of_mem _ hb))⟩
    have close : ∀ s1 : St, s1.pc.opened = s.pc.opened → CRel src K s s1 → (∀ b ∈ cs, BlockOK s1 b) →
        (∀ x q, LK s x q → LKHyp s (top :: cs) x q → LK s1 x q) →
        BlockOK s1 top → (∀ k ∈ K, Compat s1 k top) → (top.bp = .setext → TmpOK s1) →
        OKE e (fun _ s' => s'.pc.opened = s.pc.opened ∧ CRel src K s s' ∧
          ∀ x q, LK s x q → LKHyp s (top :: cs) x q → LK s' x q)
          ((do
            if (← getNode top.node).parent.isSome then bpClose top.bp top.node
            closeListT pts cs : M Unit) s1) := by
      intro s1 hop h1 hcs1 hf1 htop1 hcomp1 htm1
      refine OKE.bind (m := getNode top.node) (P := fun n sy => n = nd s1 top.node ∧ sy = s1)
        (OKE.ok ⟨rfl, rfl⟩) (fun n sy hy => ?_)
      obtain ⟨hn0, hsy⟩ := hy
      subst n sy
      by_cases hp : (nd s1 top.node).parent.isSome = true
      · rw [if_pos hp]
        have hc := closeG lsp top.bp top.node s1 (by rw [h1.r]; exact hsrc) h1.inv.nodes h1.inv.keys htop1 h1.inv.kids
          h1.inv.plt htm1
        refine OKE.bind (OKE.of_okl hc) (fun _ s2 h2 => ?_)
        obtain ⟨h2, htf2, hplt2, heq2⟩ := h2
        have htmS : top.bp = .setext → ∀ t, s1.pc.tmpPara = some t →
            (nd s1 t).kind = .paragraph ∧ (nd s1 t).lines ≠ [] ∧ True := fun hs t ht =>
          ⟨(htm1 hs t ht).2.1, (htm1 hs t ht).2.2, trivial⟩
        have hks : W.KeysOKF s2 := h1.inv.keys.ext h2.ext
          (by rcases h2.tmp with h | h; exact .inl h; exact .inr h.2)
          (by rcases h2.fence with h | h; exact .inl h; exact .inr h.2.1)
        have hr2 : CRel src K s1 s2 := by
          refine ⟨h2.r, ⟨h2.nodes, hks, h1.inv.kids.tf h2.ext htf2, hplt2,
            inv_bpClose treeOK_tinv src top.bp top.node s1 s2 h1.inv.nodes htop1 h1.inv.kids htmS
              (fun _ _ _ => trivial) h1.inv.tree heq2⟩, ExtW.of_ext h2.ext, ?_, htf2, ?_, ?_⟩
          · rcases h2.tmp with h | h
            · exact .inl h
            · exact .inr h.2
          · intro k hk'
            have kok := h1.blocks k hk'
            have kc := hcomp1 k hk'
            refine kok.ext h2.ext ?_ ?_
            · intro hse
              rcases h2.tmp with h | h
              · rw [h]; exact (kok.setext hse).2
              · exact absurd h.1 (kc.1 hse)
            · intro hfe
              rcases h2.fence with h | h
              · rw [h]; exact kok.fenced hfe
              · obtain ⟨h1', _, f, hf, hfn⟩ := h
                exact absurd hfn (kc.2 hfe h1' f hf)
          · intro ⟨k, hk', hks'⟩ ht
            rcases h2.tmp with h | h
            · exact ht.ext h2.ext h
            · exact absurd h.1 ((hcomp1 k hk').1 hks')
        refine rest s2 (by rw [h2.opened, hop]) (h1.trans hr2)
          (fun b hb => (hcs1 b hb).ext_container h2.ext (hcs b hb)) (fun x q hlk hh => ?_)
        have hlk1 := hf1 x q hlk hh
        have hh1 : LKHyp s1 (top :: cs) x q := hh.step h1 hlk (fun b hb => hb)
        refine inv_bpClose (lk_tinv x q) src top.bp top.node s1 s2 h1.inv.nodes htop1 h1.inv.kids ?_ ?_ hlk1 heq2
        · intro hs t ht
          exact ⟨(htm1 hs t ht).2.1, (htm1 hs t ht).2.2, fun e' => hh1.2.1 (by rw [ht, e'])⟩
        · intro hlist c hc e'
          have hkl : (nd s1 top.node).kind = .list := by rw [htop1.kind, hlist]; rfl
          have hkq : (nd s1 q).kind = .listItem := by rw [← e']; exact (h1.inv.kids.kids top.node c hkl hc).2
          have hpq : (nd s1 q).parent = some top.node := by rw [← e']; exact h1.inv.tree.cp top.node c hc
          exact hh1.2.2 hkq top (by simp) hpq
      · rw [if_neg hp]
        exact rest s1 hop h1 hcs1 hf1
    have hKb : ∀ k ∈ K, BlockOK s k := fun k hk => (hK k hk).1
    by_cases hpar : ((nd s top.node).kind == Kind.paragraph && (nd s top.node).parent.isSome) = true
    · rw [if_pos hpar]
      simp only [Bool.and_eq_true, beq_iff_eq] at hpar
      obtain ⟨hkind, hpp⟩ := hpar
      have hbp : top.bp = .paragraph := by
        have := htop.kind; rw [hkind] at this; exact kind_paragraph this.symm
      have htp := transformParagraphG_oke pts hpts top.node s hsrc htop.lt hkind hpp (htop.para hbp) hi.nodes hi.kids
        hi.plt hi.tree
      refine OKE.bind htp (fun g s1 hg => ?_)
      obtain ⟨hg, htf1, hplt1, htree1, hlk1, _⟩ := hg
      have hk1 : W.KeysOKF s1 := ⟨fun f hf => by
        rw [hg.fence] at hf
        obtain ⟨a, b, c⟩ := hi.keys.fence f hf
        exact ⟨a, b, Nat.lt_of_lt_of_le c hg.len⟩⟩
      have hK1 : ∀ k ∈ K, BlockOK s1 k := fun k hk' =>
        hg.blockOK hkind (hK k hk').1 (fun hkp => ((hK k hk').2 top rfl).1.2 hbp hkp)
      have hcs1 : ∀ b ∈ cs, BlockOK s1 b := fun b hb =>
        hg.blockOK hkind (hl b (by simp [hb])) (fun hkp => absurd hkp (container_kind (hcs b hb)).1)
      have hr1 : CRel src K s s1 := ⟨hg.r, ⟨hg.nodes, hk1, L.T.KidsOK.tfW hi.kids hg.extW htf1, hplt1, htree1⟩, hg.extW,
        .inl hg.tmp, htf1, hK1, fun ⟨k, hk', hks⟩ _ => absurd hbp (((hK k hk').2 top rfl).2 hks)⟩
      have hf1 : ∀ x q, LK s x q → LKHyp s (top :: cs) x q → LK s1 x q := fun x q hlk hh =>
        hlk1 x q (fun e' => hh.1 top (by simp) e'.symm) hlk
      cases g with
      | false =>
        obtain ⟨hl1, hp1⟩ := hg.keep rfl
        have htop1 : BlockOK s1 top :=
          ⟨Nat.lt_of_lt_of_le htop.lt hg.len, by rw [hg.kind _ htop.lt]; exact htop.kind, fun _ => hl1,
            (fun h => by rw [hbp] at h; cases h), (fun h => by rw [hbp] at h; cases h)⟩
        refine close s1 hg.opened hr1 hcs1 hf1 htop1 (fun k hk' => ?_) (fun h => by rw [hbp] at h; cases h)
        have kc := ((hK k hk').2 top rfl).1.1
        refine ⟨kc.1, fun _ hc => ?_⟩
        rw [hbp] at hc; cases hc
      | true =>
        refine OKE.bind (m := getNode top.node) (P := fun n sy => n = nd s1 top.node ∧ sy = s1)
          (OKE.ok ⟨rfl, rfl⟩) (fun n sy hy => ?_)
        obtain ⟨hn0, hsy⟩ := hy
        subst n sy
        have : ¬ (nd s1 top.node).parent.isSome = true := by rw [hg.goneP rfl]; simp
        rw [if_neg this]
        exact rest s1 hg.opened hr1 hcs1 hf1
    · rw [if_neg hpar]
      exact close s rfl (CRel.refl hi hKb) (fun b hb => hl b (by simp [hb])) (fun _ _ h _ => h) htop
        (fun k hk' => ((hK k hk').2 top rfl).1.1) (fun hs => htl ⟨top, by simp, hs⟩)

theorem closeBlocksG_oke (pre mid post : List Block) (s : St) (hop : s.pc.opened = pre ++ mid ++ post)
    (hsrc : s.r.source = src) (hi : CInv src s) (hmid : ∀ b ∈ mid, BlockOK s b) (hleafy : Leafy mid)
    (htl : (∃ b ∈ mid, b.bp = .setext) → TmpOK s)
    (hK : ∀ k ∈ pre ++ post, BlockOK s k ∧ ∀ top, mid.getLast? = some top → CompatG s k top) :
    OKE e (fun _ s' => s'.pc.opened = pre ++ post ∧ CRel src (pre ++ post) s s' ∧
        ∀ x q, LK s x q → LKHyp s mid x q → LK s' x q)
      (closeBlocksT pts ((pre.length : Int) + (mid.length : Int) - 1) (pre.length : Int) s) := by
  unfold closeBlocksT
  refine OKE.bind (m := getPc) (P := fun pc s1 => pc = s.pc ∧ s1 = s) (OKE.ok ⟨rfl, rfl⟩) (fun pc s0 h0 => ?_)
  obtain ⟨h0, h0'⟩ := h0
  subst pc s0
  have hcnt : ((pre.length : Int) + (mid.length : Int) - 1 - (pre.length : Int) + 1).toNat = mid.length := by omega
  rw [hcnt, hop, closeLoopT_eq pts (pre ++ mid ++ post) pre.length mid.length (by simp)]
  have hdt : ((pre ++ mid ++ post).drop pre.length).take mid.length = mid := by
    rw [List.append_assoc, List.drop_left, List.take_left]
  rw [hdt]
  have hcl := closeListG_oke lsp hpts (pre ++ post) mid.reverse s hsrc hi
    (fun b hb => hmid b (by simpa using hb))
    (fun b hb => hleafy b (by
      have : mid.reverse.tail = mid.dropLast.reverse := by
        rw [List.tail_reverse]
      rw [this] at hb; simpa using hb))
    (fun ⟨b, hb, hs⟩ => htl ⟨b, by simpa using hb, hs⟩)
    (fun k hk' => ⟨(hK k hk').1, fun top ht => (hK k hk').2 top (by
      rw [List.head?_reverse] at ht; exact ht)⟩)
  refine OKE.bind hcl (fun _ s1 h1 => ?_)
  obtain ⟨hop1, hr1, hf1⟩ := h1
  have hpre : closeBlocks.slice' (pre ++ mid ++ post) 0 (pre.length : Int) = .ok pre := by
    unfold closeBlocks.slice'
    rw [if_pos ⟨by omega, by omega, by simp; omega⟩]
    simp
  have hpost : closeBlocks.slice' (pre ++ mid ++ post) ((pre.length : Int) + (mid.length : Int) - 1 + 1)
      ((pre ++ mid ++ post).length : Int) = .ok post := by
    unfold closeBlocks.slice'
    rw [if_pos ⟨by omega, by simp; omega, by omega⟩]
    have e1 : ((pre.length : Int) + (mid.length : Int) - 1 + 1).toNat = pre.length + mid.length := by omega
    have e2 : (((pre ++ mid ++ post).length : Int) - ((pre.length : Int) + (mid.length : Int) - 1 + 1)).toNat = post.length := by
      simp; omega
    rw [e1, e2]
    have : (pre ++ mid ++ post).drop (pre.length + mid.length) = post := by
      rw [← List.length_append, List.drop_left]
    rw [this]; simp
  have fin : ∀ o : List Block, CRel src (pre ++ post) s ({ s1 with pc := { s1.pc with opened := o } } : St) ∧
      ∀ x q, LK s x q → LKHyp s mid x q → LK ({ s1 with pc := { s1.pc with opened := o } } : St) x q := by
    intro o
    refine ⟨⟨hr1.r, ⟨hr1.inv.nodes, ⟨hr1.inv.keys.fence⟩, ⟨hr1.inv.kids.kids, hr1.inv.kids.off, hr1.inv.kids.pk⟩,
      hr1.inv.plt, ⟨hr1.inv.tree.pc, hr1.inv.tree.cp, hr1.inv.tree.nodup⟩⟩, ⟨hr1.extw.len, hr1.extw.kind⟩, hr1.tmp,
      ⟨hr1.tf.parent, hr1.tf.kids, hr1.tf.offset, hr1.tf.newParent, hr1.tf.newKind⟩, ?_, hr1.tmpok⟩, ?_⟩
    · intro k hk'
      have := hr1.blocks k hk'
      exact ⟨this.lt, this.kind, this.para, this.setext, this.fenced⟩
    · intro x q hlk hh
      have := hf1 x q hlk ⟨fun b hb => hh.1 b (by simpa using hb), hh.2.1, fun hk b hb => hh.2.2 hk b (by simpa using hb)⟩
      exact ⟨this.par, this.last, this.only⟩
  by_cases hfl : ((pre.length : Int) + (mid.length : Int) - 1 == ((pre ++ mid ++ post).length : Int) - 1) = true
  · rw [if_pos hfl]
    have hpe : post = [] := by
      have : (pre.length : Int) + (mid.length : Int) - 1 = ((pre ++ mid ++ post).length : Int) - 1 := by simpa using hfl
      simp at this
      cases post with
      | nil => rfl
      | cons a as => simp at this; omega
    subst hpe
    simp only [bind, StateT.bind, liftE, hpre, Except.map, Except.bind, modPc, pure, StateT.pure, Except.pure]
    exact OKE.ok ⟨by simp, fin _⟩
  · rw [if_neg hfl]
    simp only [bind, StateT.bind, liftE, hpre, hpost, Except.map, Except.bind, modPc, pure, StateT.pure, Except.pure]
    exact OKE.ok ⟨rfl, fin _⟩

end close


end GM.Blocks.L.G.X
