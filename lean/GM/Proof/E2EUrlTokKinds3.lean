/-
  GM.Proof.E2EUrlTokKinds3 — copy of GM.Proof.RenderWF.Kinds3 for the grammar `WFHtmlU` (harmless `href` / `src` values as a side
  condition of every start tag); see GM.Proof.E2EUrlTokGrammar. Only `wf_el` / `wf_void` differ (they ask for `UrlAttrs`).
-/
import GM.Proof.E2EUrlTokKinds2
import GM.Proof.RenderWF.Kinds3

namespace GM.Proof.RenderWFU
open GM GM.Spec GM.Proof.RenderWF

variable {x : Bool} {rc : RCfg}

theorem wf_table (hh : rc.exts.table = true) (pih next attrs cs) {body : Bytes} (hb : WFHtmlU x body)
    (hinv : attrsInv attrs = true) :
    WFHtmlU x (enter rc pih next .table attrs cs ++ body ++ leave rc pih next .table cs) := by
  unfold_elx hh
  exact wf_el tag_table (sok_user tag_table (sub_self _) hinv) (pre := [10]) (post := [10])
    (by rw [renderAttrs_eq]; bnorm) (by bnorm) (by decide) (by decide) hb

theorem wf_tableHeader (hh : rc.exts.table = true) (pih next attrs cs) {body : Bytes} (hb : WFHtmlU x body)
    (hinv : attrsInv attrs = true) :
    ∃ core, enter rc pih next .tableHeader attrs cs ++ body ++ leave rc pih next .tableHeader cs =
      core ++ tbodyFix rc .tableHeader next ∧ WFHtmlU x core := by
  have inner := wf_el (x := x) tag_tr (sok_fixed tag_tr (fixed := []) rfl (by simp))
    (pre := [10]) (post := [10]) (opn := [60, 116, 114, 62, 10]) (cls := [60, 47, 116, 114, 62, 10])
    (by bnorm) (by bnorm) (by decide) (by decide) hb
  have outer := wf_el (x := x) tag_thead (sok_user tag_thead (sub_self _) hinv) (pre := [10]) (post := [10])
    (opn := strBytes "<thead" ++ renderAttrs Gen.TableHeaderAttributeFilter attrs ++ [62, 10])
    (cls := [60, 47, 116, 104, 101, 97, 100, 62, 10])
    (by rw [renderAttrs_eq]; bnorm) (by bnorm) (by decide) (by decide) inner
  refine ⟨_, ?_, outer⟩
  simp only [tbodyFix]
  unfold_elx hh
  bnorm

theorem wf_tableRow (hh : rc.exts.table = true) (pih next attrs cs) {body : Bytes} (hb : WFHtmlU x body)
    (hinv : attrsInv attrs = true) :
    ∃ core, enter rc pih next .tableRow attrs cs ++ body ++ leave rc pih next .tableRow cs =
      core ++ tbodyFix rc .tableRow next ∧ WFHtmlU x core := by
  have outer := wf_el (x := x) tag_tr (sok_user tag_tr (sub_self _) hinv) (pre := [10]) (post := [10])
    (opn := strBytes "<tr" ++ renderAttrs Gen.TableRowAttributeFilter attrs ++ [62, 10])
    (cls := strBytes "</tr>\n")
    (by rw [renderAttrs_eq]; bnorm) (by bnorm) (by decide) (by decide) hb
  refine ⟨_, ?_, outer⟩
  simp only [tbodyFix]
  unfold_elx hh
  bnorm

/-! ### table cells -/

theorem wf_cell_gen {n : Bytes} {names filter : List Bytes} (tf : TagFacts n names false)
    (hsub : ∀ f ∈ filter, names.contains f = true) (hal : names.contains [97, 108, 105, 103, 110] = true)
    (align : Nat) (attrs : Option (List Attr)) (hinv : attrsInv attrs = true) {body : Bytes} (hb : WFHtmlU x body)
    (hf : filter.all (fun n => !urlAttrNames.contains n) = true := by decide +kernel) :
    WFHtmlU x ([60] ++ n ++ (tableCellHead rc align attrs).1 ++
      renderAttrs filter (tableCellHead rc align attrs).2 ++ [62] ++ body ++ ([60, 47] ++ n ++ [62, 10])) := by
  obtain ⟨h2, h1⟩ := cellHead_ok rc align attrs hinv
  rcases h1 with h1 | ⟨h1, habs⟩
  · rw [h1]
    exact wf_el tf (sok_user tf hsub h2) (pre := []) (post := [10])
      (by rw [renderAttrs_eq]; bnorm) (by bnorm) rfl (by decide) hb (urlAttrs_user _ hf _)
  · rw [h1]
    have sok : StartOK n ([([97, 108, 105, 103, 110], alignName align)] ++
        userAttrsO filter (tableCellHead rc align attrs).2) :=
      startOK_intro tf.name tf.allowed hsub
        (hfix_cons hal (by decide +kernel) (alignName_inert _) hfix_nil) (by simp) h2
        (hc_absent habs hc_nil)
    exact wf_el tf sok (pre := []) (post := [10])
      (by rw [renderAttrs_eq]; bnorm) (by bnorm) rfl (by decide) hb
      (urlAttrs_cons_nonurl (by decide +kernel) (urlAttrs_user _ hf _))

theorem wf_tableCell (hh : rc.exts.table = true) (pih next attrs cs) (align : Nat) {body : Bytes}
    (hb : WFHtmlU x body) (hinv : attrsInv attrs = true) :
    WFHtmlU x (enter rc pih next (.tableCell align) attrs cs ++ body ++ leave rc pih next (.tableCell align) cs) := by
  unfold_elx hh
  cases pih with
  | true =>
    have := wf_cell_gen (x := x) (rc := rc) tag_th (sub_append _ _) (by decide +kernel) align attrs hinv hb
      (filter := Gen.TableThCellAttributeFilter)
    exact this.of_eq (by bnorm)
  | false =>
    have := wf_cell_gen (x := x) (rc := rc) tag_td (sub_append _ _) (by decide +kernel) align attrs hinv hb
      (filter := Gen.TableTdCellAttributeFilter)
    exact this.of_eq (by bnorm)

/-! ### strikethrough, task list, definition list -/

theorem wf_strikethrough (hh : rc.exts.strike = true) (pih next attrs cs) {body : Bytes} (hb : WFHtmlU x body)
    (hinv : attrsInv attrs = true) :
    WFHtmlU x (enter rc pih next .strikethrough attrs cs ++ body ++ leave rc pih next .strikethrough cs) := by
  unfold_elx hh
  exact wf_el tag_del (sok_user tag_del (sub_self _) hinv) (pre := []) (post := [])
    (by rw [openTag_eq]; cases attrs <;> bnorm) (by bnorm) rfl rfl hb

theorem wf_taskCheckBox (hc : CfgOK x rc) (hh : rc.exts.task = true) (pih next attrs cs) (checked : Bool)
    {body : Bytes} (hb : WFHtmlU x body) :
    WFHtmlU x (enter rc pih next (.taskCheckBox checked) attrs cs ++ body ++
      leave rc pih next (.taskCheckBox checked) cs) := by
  unfold_elx hh
  rw [hc.task]
  refine .append3 ?_ hb .nil
  cases checked with
  | true =>
    exact wf_void (x := x) tag_input
      (sok_fixed tag_input (fixed := [([99, 104, 101, 99, 107, 101, 100], []),
        ([100, 105, 115, 97, 98, 108, 101, 100], []), ([116, 121, 112, 101], [99, 104, 101, 99, 107, 98, 111, 120])])
        (by decide +kernel) (by decide)) (post := [32])
      (by cases x <;> bnorm) (by decide)
  | false =>
    exact wf_void (x := x) tag_input
      (sok_fixed tag_input (fixed := [([100, 105, 115, 97, 98, 108, 101, 100], []),
        ([116, 121, 112, 101], [99, 104, 101, 99, 107, 98, 111, 120])])
        (by decide +kernel) (by decide)) (post := [32])
      (by cases x <;> bnorm) (by decide)

theorem wf_definitionList (hh : rc.exts.dl = true) (pih next attrs cs) {body : Bytes} (hb : WFHtmlU x body)
    (hinv : attrsInv attrs = true) :
    WFHtmlU x (enter rc pih next .definitionList attrs cs ++ body ++ leave rc pih next .definitionList cs) := by
  unfold_elx hh
  exact wf_el tag_dl (sok_user tag_dl (sub_self _) hinv) (pre := [10]) (post := [10])
    (by rw [openTag_eq]; cases attrs <;> bnorm) (by bnorm) (by decide) (by decide) hb

theorem wf_definitionTerm (hh : rc.exts.dl = true) (pih next attrs cs) {body : Bytes} (hb : WFHtmlU x body)
    (hinv : attrsInv attrs = true) :
    WFHtmlU x (enter rc pih next .definitionTerm attrs cs ++ body ++ leave rc pih next .definitionTerm cs) := by
  unfold_elx hh
  exact wf_el tag_dt (sok_user tag_dt (sub_self _) hinv) (pre := []) (post := [10])
    (by rw [openTag_eq]; cases attrs <;> bnorm) (by bnorm) rfl (by decide) hb

theorem wf_definitionDescription (hh : rc.exts.dl = true) (pih next attrs cs) (tight : Bool) {body : Bytes}
    (hb : WFHtmlU x body) (hinv : attrsInv attrs = true) :
    WFHtmlU x (enter rc pih next (.definitionDescription tight) attrs cs ++ body ++
      leave rc pih next (.definitionDescription tight) cs) := by
  unfold_elx hh
  exact wf_el tag_dd (sok_user tag_dd (sub_self _) hinv) (pre := if tight then [] else [10]) (post := [10])
    (by rw [renderAttrs_eq]; cases tight <;> bnorm) (by bnorm) (by cases tight <;> decide) (by decide) hb

end GM.Proof.RenderWFU

