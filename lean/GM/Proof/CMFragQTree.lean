/-
  GM.Proof.CMFragQTree — stage 10 (a stage-6 document inside one block quote): from quotesim2's relation between the node
  stores of the run on `S` and of the run on `quotePrefix S` (`StoreRel`) to the block tree of the prefixed run, for a
  store of the shape the fragment's run leaves: the Document and its leaf children.
-/
import GM.Proof.CMFragQSeg
import GM.Proof.CMFragGen

namespace GM.Proof.CMFrag
open GM GM.Text GM.Blocks GM.Spec

/-- element by element -/
def RelL {α β : Type} (P : α → β → Prop) : List α → List β → Prop
  | [], [] => True
  | a :: as, b :: bs => P a b ∧ RelL P as bs
  | _, _ => False

theorem relL_of_index {α β : Type} [Inhabited α] [Inhabited β] (P : α → β → Prop) :
    ∀ (as : List α) (bs : List β), bs.length = as.length →
      (∀ j, j < as.length → P (as.getD j default) (bs.getD j default)) → RelL P as bs
  | [], [], _, _ => trivial
  | [], _ :: _, h, _ => by simp at h
  | _ :: _, [], h, _ => by simp at h
  | a :: as, b :: bs, h, hp => by
    refine ⟨?_, relL_of_index P as bs (by simpa using h) (fun j hj => ?_)⟩
    · simpa using hp 0 (by simp)
    · have := hp (j + 1) (by simpa using hj)
      simpa using this

theorem getD_mem {α : Type} [Inhabited α] (l : List α) (j : Nat) (h : j < l.length) : l.getD j default ∈ l := by
  rw [List.getD_eq_getElem?_getD, List.getElem?_eq_getElem h]
  exact List.getElem_mem h

theorem getD_out {α : Type} [Inhabited α] (l : List α) (j : Nat) (h : l.length ≤ j) : l.getD j default = default := by
  rw [List.getD_eq_getElem?_getD, List.getElem?_eq_none h]; rfl

/-- the tree of the prefixed run: Document[Blockquote[the related leaves]] -/
theorem treeOf_quoteQ {S : Bytes} (dA : Blocks.Node) (ms nB : List Blocks.Node) (n : Nat)
    (hdA : dA.children = List.range' 1 n) (hdl : dA.lines = []) (hlen : ms.length = n)
    (hch : ∀ m ∈ ms, m.children = []) (h : StoreRel S (dA :: ms) nB) :
    ∃ (bq : Blocks.Node) (kidsB : List Blocks.Node),
      treeOf nB nB.length 0 =
        .node { kind := .document, children := [1] } [.node bq (kidsB.map fun m => Tree.node m [])] ∧
      bq.kind = .blockquote ∧ bq.lines = [] ∧ RelL (NodeRel S false) ms kidsB := by
  have hl : nB.length = n + 2 := by rw [h.len]; simp [hlen]
  have h0 := h.node 0
  simp only [List.getD_cons_zero, Nat.zero_add] at h0
  have hk0 := h0.kind
  have hc0 := h0.children
  have hl0 := h0.lines
  simp only [beq_self_eq_true, if_true] at hk0
  rw [hdl] at hl0
  have hbl : (nB.getD 1 default).lines = [] := by
    cases hx : (nB.getD 1 default).lines with
    | nil => rfl
    | cons a t => rw [hx] at hl0; exact hl0.elim
  have hkid : ∀ i, 1 ≤ i → (nB.getD (i + 1) default).children = [] := by
    intro i hi
    obtain ⟨j, rfl⟩ : ∃ j, i = j + 1 := ⟨i - 1, by omega⟩
    have := (h.node (j + 1)).children
    rw [this]
    simp only [List.getD_cons_succ]
    by_cases hj : j < ms.length
    · rw [hch _ (getD_mem ms j hj)]; rfl
    · rw [getD_out ms j (by omega)]; rfl
  refine ⟨nB.getD 1 default, (List.range' 1 n).map (fun i => nB.getD (i + 1) default), ?_, hk0.1, hbl, ?_⟩
  · rw [hl]
    show treeOf nB (n + 1 + 1) 0 = _
    rw [treeOf]
    simp only [h.doc0, List.map_cons, List.map_nil]
    congr 1
    congr 1
    rw [treeOf]
    congr 1
    rw [hc0, hdA, List.map_map, List.map_map]
    apply List.map_congr_left
    intro i hi
    simp only [List.mem_range'_1] at hi
    simp only [Function.comp]
    exact treeOf_leaf nB n (i + 1) (hkid i hi.1)
  · apply relL_of_index
    · simp [hlen]
    · intro j hj
      have := h.node (j + 1)
      have e : ((j + 1 == 0) : Bool) = false := rfl
      rw [e] at this
      simp only [List.getD_cons_succ] at this
      have e2 : ((List.range' 1 n).map (fun i => nB.getD (i + 1) default)).getD j default = nB.getD (j + 1 + 1) default := by
        rw [List.getD_eq_getElem?_getD, List.getElem?_map, List.getElem?_range' (by omega)]
        simp only [Option.map_some, Option.getD_some]
        congr 1; omega
      rw [e2]
      exact this

end GM.Proof.CMFrag
