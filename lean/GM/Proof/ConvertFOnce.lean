/-
  GM.Proof.ConvertFOnce — the FootnoteList is met at most once by the walk `treeOfF` over the final store of the block phase
  with the footnote block parser. With GM.Proof.ConvertFWF (node 0 stays the plain Document) this is: the domain monitor
  `GM.ConvertF.monitorFires` never fires.

  Argument: in a tree-shaped store (`GM.ConvertH.TreeWF`) every node the walk reaches from node 0 has a parent chain that
  ends in node 0, node 0 has no parent, so a node has one depth only; two different children of a node cannot both have
  the list below them, because the list's parent chain passes through one node per depth.
-/
import GM.Proof.ConvertFWF
import GM.Proof.ConvertFShape

namespace GM.ConvertF
open GM GM.Text GM.Blocks GM.Convert GM.ConvertH

/-- the `k`-th ancestor -/
def anc (s : St) : Nat → Nat → Option Nat
  | 0, x => some x
  | k + 1, x =>
    match (ndx s x).parent with
    | none => none
    | some p => anc s k p

theorem anc_root {s : St} (w : TreeWF s) : ∀ (k : Nat) (y : Nat), anc s k 0 = some y → k = 0
  | 0, _, _ => rfl
  | k + 1, y, h => by
    unfold anc at h
    rw [w.root] at h
    cases h

theorem anc_depth {s : St} (w : TreeWF s) : ∀ (j k : Nat) (x : Nat), anc s j x = some 0 → anc s k x = some 0 → j = k
  | 0, k, x, h1, h2 => by
    have : x = 0 := by simpa [anc] using h1
    subst this
    exact (anc_root w k 0 h2).symm
  | j + 1, 0, x, h1, h2 => by
    have : x = 0 := by simpa [anc] using h2
    subst this
    exact anc_root w (j + 1) 0 h1
  | j + 1, k + 1, x, h1, h2 => by
    unfold anc at h1 h2
    cases hp : (ndx s x).parent with
    | none => rw [hp] at h1; cases h1
    | some p =>
      rw [hp] at h1 h2
      have := anc_depth w j k p h1 h2
      omega

theorem anc_add {s : St} : ∀ (e d : Nat) (l x y : Nat), anc s e l = some x → anc s d x = some y → anc s (e + d) l = some y
  | 0, d, l, x, y, h1, h2 => by
    have : l = x := by simpa [anc] using h1
    subst this
    rw [Nat.zero_add]; exact h2
  | e + 1, d, l, x, y, h1, h2 => by
    have he : e + 1 + d = (e + d) + 1 := by omega
    rw [he]
    unfold anc at h1 ⊢
    cases hp : (ndx s l).parent with
    | none => rw [hp] at h1; cases h1
    | some p =>
      rw [hp] at h1
      exact anc_add e d p x y h1 h2

theorem anc_child {s : St} (w : TreeWF s) {x c : Nat} (hc : c ∈ (ndx s x).children) (d : Nat) (y : Nat) (h : anc s d x = some y) :
    anc s (d + 1) c = some y := by
  have hp := (w.edge x c hc).2
  have h1 : anc s 1 c = some x := by simp [anc, hp]
  have := anc_add 1 d c x y h1 h
  rw [Nat.add_comm]; exact this

/-! ### counting -/

theorem listCountL_mapIdx_zero (g : Nat → Nat → FTree) (hg : ∀ i c, (g i c).listCount = 0) :
    ∀ (k : Nat) (cs : List Nat), FTree.listCountL (mapIdxFrom g k cs) = 0
  | _, [] => rfl
  | k, c :: rest => by simp [mapIdxFrom, FTree.listCountL, hg k c, listCountL_mapIdx_zero g hg (k + 1) rest]

theorem tagIn_nonbody_notList (f : FS) (m : Mode) (hm : m ≠ .body) (id : Nat) : (tagIn f m id).isList = false := by
  cases m with
  | body => exact absurd rfl hm
  | noteRoot i => rcases tagIn_noteRoot f i id with h | h <;> rw [h] <;> rfl
  | note => rcases tagIn_note f id with h | h <;> rw [h] <;> rfl

/-- below the list the walk meets no list -/
theorem treeOfF_nonbody (f : FS) (nodes : List Blocks.Node) : ∀ (fuel : Nat) (m : Mode), m ≠ .body → ∀ id : Nat,
    (treeOfF f nodes fuel m id).listCount = 0
  | 0, m, hm, id => by
    simp [treeOfF, tagIn_nonbody_notList f m hm id, FTree.listCount, FTree.listCountL]
  | fuel + 1, m, hm, id => by
    simp only [treeOfF, tagIn_nonbody_notList f m hm id, Bool.false_eq_true, if_false, FTree.listCount, Nat.zero_add]
    refine listCountL_map_zero _ (fun c => treeOfF_nonbody f nodes fuel _ ?_ c) _
    cases m with
    | body => exact absurd rfl hm
    | noteRoot i => simp
    | note => simp

theorem ite_le_one (b : Bool) : (if b = true then 1 else 0) ≤ 1 := by split <;> omega

theorem listCountL_map_le_one (g : Nat → FTree) : ∀ cs : List Nat, cs.Nodup → (∀ c ∈ cs, (g c).listCount ≤ 1) →
    (∀ c ∈ cs, ∀ c' ∈ cs, (g c).listCount ≠ 0 → (g c').listCount ≠ 0 → c = c') →
    FTree.listCountL (cs.map g) ≤ 1 ∧ (FTree.listCountL (cs.map g) ≠ 0 → ∃ c ∈ cs, (g c).listCount ≠ 0)
  | [], _, _, _ => ⟨by simp [FTree.listCountL], fun h => by simp [FTree.listCountL] at h⟩
  | c :: rest, hn, h1, h2 => by
    have hn' := List.nodup_cons.1 hn
    obtain ⟨r1, r2⟩ := listCountL_map_le_one g rest hn'.2 (fun x hx => h1 x (List.mem_cons_of_mem _ hx))
      (fun x hx y hy => h2 x (List.mem_cons_of_mem _ hx) y (List.mem_cons_of_mem _ hy))
    simp only [List.map_cons, FTree.listCountL]
    have hc := h1 c (List.mem_cons_self ..)
    constructor
    · by_cases hz : (g c).listCount = 0
      · omega
      · by_cases hr : FTree.listCountL (rest.map g) = 0
        · omega
        · obtain ⟨c', hc', hne⟩ := r2 hr
          have := h2 c (List.mem_cons_self ..) c' (List.mem_cons_of_mem _ hc') hz hne
          subst this
          exact absurd hc' hn'.1
    · intro h
      by_cases hz : (g c).listCount = 0
      · have hr : FTree.listCountL (rest.map g) ≠ 0 := by omega
        obtain ⟨c', hc', hne⟩ := r2 hr
        exact ⟨c', List.mem_cons_of_mem _ hc', hne⟩
      · exact ⟨c, List.mem_cons_self .., hz⟩

/-- in a tree-shaped store the walk from a node at depth `d` meets the list at most once, and only when the node is an
    ancestor of the list -/
theorem treeOfF_body_count (f : FS) (s : St) (w : TreeWF s) (l : Nat) (hl : f.list = some l) :
    ∀ (fuel : Nat) (x d : Nat), anc s d x = some 0 →
      (treeOfF f s.nodes fuel .body x).listCount ≤ 1 ∧
      ((treeOfF f s.nodes fuel .body x).listCount ≠ 0 → ∃ e, anc s e l = some x)
  | 0, x, d, _ => by
    simp only [treeOfF, FTree.listCount, FTree.listCountL, Nat.add_zero]
    constructor
    · exact ite_le_one _
    · intro h
      have h' : (tagIn f .body x).isList = true := by
        cases ht : (tagIn f .body x).isList with
        | true => rfl
        | false =>
          exfalso
          apply h
          by_cases hc : ((tagIn f .body x).isList && !(s.nodes.getD x default).children.isEmpty) = true
          · rw [if_pos hc]; rfl
          · rw [if_neg hc, ht]; rfl
      have := tagIn_list f .body x ((isList_iff _).1 h')
      rw [hl] at this
      cases this
      exact ⟨0, rfl⟩
  | fuel + 1, x, d, hd => by
    by_cases ht : (tagIn f .body x).isList = true
    · simp only [treeOfF, ht, if_true, FTree.listCount]
      rw [listCountL_mapIdx_zero _ (fun i c => treeOfF_nonbody f s.nodes fuel (.noteRoot i) (by simp) c)]
      refine ⟨by simp [FTag.isList], fun _ => ?_⟩
      have := tagIn_list f .body x ((isList_iff _).1 ht)
      rw [hl] at this
      cases this
      exact ⟨0, rfl⟩
    · have ht' : (tagIn f .body x).isList = false := by simpa using ht
      simp only [treeOfF, ht', Bool.false_eq_true, if_false, FTree.listCount, Nat.zero_add]
      have ih := fun c (hc : c ∈ (ndx s x).children) => treeOfF_body_count f s w l hl fuel c (d + 1) (anc_child w hc d 0 hd)
      have key := listCountL_map_le_one (treeOfF f s.nodes fuel .body) (ndx s x).children (w.nodup x)
        (fun c hc => (ih c hc).1)
        (fun c hc c' hc' hz hz' => by
          obtain ⟨e, he⟩ := (ih c hc).2 hz
          obtain ⟨e', he'⟩ := (ih c' hc').2 hz'
          have a1 := anc_add e (d + 1) l c 0 he (anc_child w hc d 0 hd)
          have a2 := anc_add e' (d + 1) l c' 0 he' (anc_child w hc' d 0 hd)
          have := anc_depth w _ _ l a1 a2
          have hee : e = e' := by omega
          subst hee
          rw [he] at he'
          cases he'
          rfl)
      refine ⟨key.1, fun h => ?_⟩
      obtain ⟨c, hc, hz⟩ := key.2 h
      obtain ⟨e, he⟩ := (ih c hc).2 hz
      refine ⟨e + 1, ?_⟩
      have h1 : anc s 1 c = some x := by simp [anc, (w.edge x c hc).2]
      exact anc_add e 1 l c x he h1

/-- **THE MONITOR `monitorFires` NEVER FIRES**: for every source, guard setting and registration flag, in the final
    state of the block phase the walk meets the FootnoteList at most once and node 0 is the plain Document -/
theorem monitor_never_fires (on guard : Bool) (src : Bytes) (f : FS) (st : St)
    (e : blockPhaseF on guard src = .ok (f, st)) :
    monitorFires f st (treeOfF f st.nodes st.nodes.length .body 0) = false := by
  obtain ⟨w, _⟩ := blockPhaseF_wf on guard src f st e
  unfold monitorFires
  rw [root_monitor_never_fires on guard src f st e, Bool.or_false]
  have hle : (treeOfF f st.nodes st.nodes.length .body 0).listCount ≤ 1 := by
    cases hl : f.list with
    | none => rw [treeOfF_nolist f hl]; omega
    | some l => exact (treeOfF_body_count f st w l hl st.nodes.length 0 0 rfl).1
  simp only [decide_eq_false_iff_not]
  omega

end GM.ConvertF
