/-
  GM.Proof.ConvertFBrPar — `BR` for every `Open` / `Continue` / `Close` function of the ten block parsers, `toContinuable` and the
  link reference transformer (the function lists of GM.Proof.ConvertHWFPar / ConvertHWFClose). `Open` writes lines only of the
  node it creates; `Continue` / `Close` / the transformer only of their own node `n` (`W = (· = n)`).
-/
import GM.Proof.ConvertFBr

namespace GM.ConvertF
open GM GM.Text GM.Blocks GM.ConvertH

variable {W : Nat → Prop}

theorem lastOpenedBlock_br : Br W lastOpenedBlock := by unfold lastOpenedBlock; br
theorem preserveLeadingTab_br (seg : Segment) (ind : Int) : Br W (preserveLeadingTab seg ind) := by
  unfold preserveLeadingTab; br

theorem paragraphOpen_br (p : Nat) : Br W (paragraphOpen p) := by unfold paragraphOpen; br
theorem paragraphContinue_br (n : Nat) : Br (fun i => i = n) (paragraphContinue n) := by unfold paragraphContinue; br
theorem thematicOpen_br (p : Nat) : Br W (thematicOpen p) := by unfold thematicOpen; br
theorem atxOpen_br (p : Nat) : Br W (atxOpen p) := by unfold atxOpen; br

theorem setextOpen_br (p : Nat) : Br W (setextOpen p) := by
  have := @lastOpenedBlock_br
  unfold setextOpen; br

theorem codeTakeLine_br (n : Nat) (pos padding : Int) (hw : W n) : Br W (codeTakeLine n pos padding) := by
  have := @preserveLeadingTab_br
  unfold codeTakeLine; br

theorem codeTakeLine_brx (x n : Nat) (pos padding : Int) (hw : W n) : BrX x W (codeTakeLine n pos padding) :=
  .of_br (codeTakeLine_br n pos padding hw)

theorem codeOpen_br (p : Nat) : Br W (codeOpen p) := by
  unfold codeOpen
  repeat' first
    | (apply codeTakeLine_brx; wmem)
    | br_step

theorem codeContinue_br (n : Nat) : Br (fun i => i = n) (codeContinue n) := by
  unfold codeContinue
  repeat' first
    | (apply codeTakeLine_br; wmem)
    | br_step

theorem codeClose_br (n : Nat) : Br (fun i => i = n) (codeClose n) := by unfold codeClose; br

theorem fencedOpen_br (p : Nat) : Br W (fencedOpen p) := by unfold fencedOpen; br

theorem fencedContinue_br (n : Nat) : Br (fun i => i = n) (fencedContinue n) := by
  have := @preserveLeadingTab_br
  unfold fencedContinue; br

theorem fencedClose_br (n : Nat) : Br (fun i => i = n) (fencedClose n) := by unfold fencedClose; br

theorem blockquoteProcess_br : Br W blockquoteProcess := by unfold blockquoteProcess; br

theorem blockquoteOpen_br (p : Nat) : Br W (blockquoteOpen p) := by
  have := @blockquoteProcess_br
  unfold blockquoteOpen; br

/-- the block quote parser's `Continue` writes no lines at all -/
theorem blockquoteContinue_br (n : Nat) : Br W (blockquoteContinue n) := by
  have := @blockquoteProcess_br
  unfold blockquoteContinue; br

theorem lastOffset_br (n : Nat) : Br W (lastOffset n) := by unfold lastOffset; br
theorem lastChildCount_br (n : Nat) : Br W (lastChildCount n) := by unfold lastChildCount; br

theorem listOpen_br (p : Nat) : Br W (listOpen p) := by
  have := @lastOpenedBlock_br
  unfold listOpen; br

theorem listContinue_br (n : Nat) : Br W (listContinue n) := by
  have := @lastOpenedBlock_br
  have := @lastOffset_br
  have := @lastChildCount_br
  unfold listContinue; br

theorem listItemOpen_br (p : Nat) : Br W (listItemOpen p) := by
  have := @lastOffset_br
  unfold listItemOpen; br

theorem listItemContinue_br (n : Nat) : Br W (listItemContinue n) := by
  have := @lastOffset_br
  unfold listItemContinue; br

theorem htmlOpen_br (p : Nat) : Br W (htmlOpen p) := by
  have := @lastOpenedBlock_br
  unfold htmlOpen; br

theorem htmlContinue_br (n : Nat) : Br (fun i => i = n) (htmlContinue n) := by unfold htmlContinue; br

theorem bpOpen_br (bp : BP) (p : Nat) : Br W (bpOpen bp p) := by
  cases bp <;> unfold bpOpen
  · exact setextOpen_br p
  · exact thematicOpen_br p
  · exact listOpen_br p
  · exact listItemOpen_br p
  · exact codeOpen_br p
  · exact atxOpen_br p
  · exact fencedOpen_br p
  · exact blockquoteOpen_br p
  · exact htmlOpen_br p
  · exact paragraphOpen_br p

theorem bpContinue_br (bp : BP) (n : Nat) : Br (fun i => i = n ∧ bp ≠ .blockquote) (bpContinue bp n) := by
  cases bp <;> unfold bpContinue
  · exact Br.pure _
  · exact Br.pure _
  · exact listContinue_br n
  · exact listItemContinue_br n
  · exact (codeContinue_br n).weaken (fun i h => ⟨h, by simp⟩)
  · exact Br.pure _
  · exact (fencedContinue_br n).weaken (fun i h => ⟨h, by simp⟩)
  · exact blockquoteContinue_br n
  · exact (htmlContinue_br n).weaken (fun i h => ⟨h, by simp⟩)
  · exact (paragraphContinue_br n).weaken (fun i h => ⟨h, by simp⟩)

theorem toContinuable_br (c : Bool) (r : OpenResult) (lb : Option Block) :
    Br (fun i => ∃ b, lb = some b ∧ i = b.node ∧ b.bp ≠ .blockquote) (toContinuable c r lb) := by
  unfold toContinuable
  dsimp only
  split
  · split
    · br
    · rename_i b
      apply Br.bind
      · exact (bpContinue_br b.bp b.node).weaken (fun i h => ⟨b, rfl, h.1, h.2⟩)
      · intro _; br
  · br

/-! ### the functions with tree surgery -/

theorem paragraphClose_br (n : Nat) : Br (fun i => i = n) (paragraphClose n) := by unfold paragraphClose; br

theorem tightenItem_br (child : Nat) : ∀ (gcs : List Nat) {W : Nat → Prop}, Br W (tightenItem child gcs)
  | [], W => by unfold tightenItem; br
  | gc :: gcs, W => by
    have ih := @tightenItem_br child gcs
    unfold tightenItem; br

theorem tightenItems_br (cs : List Nat) : Br W (tightenItems cs) := by
  have := @tightenItem_br
  induction cs with
  | nil => unfold tightenItems; br
  | cons c cs ih => unfold tightenItems; br

theorem listClose_br (n : Nat) : Br W (listClose n) := by
  have := @tightenItems_br
  unfold listClose; br

theorem transformFinish_br (node : Nat) (n : Blocks.Node) (removes : List (Int × Int)) (refs : GM.LinkRef.RefMap) :
    Br (fun i => i = node) (GM.LinkRef.transformFinish node n removes refs) := by
  unfold GM.LinkRef.transformFinish; br

theorem transform_br (node : Nat) : Br (fun i => i = node) (GM.LinkRef.transform node) := by
  have := transformFinish_br
  unfold GM.LinkRef.transform; br

theorem guardedTransform_br (node : Nat) : Br (fun i => i = node) (GM.LinkRef.guardedTransform node) := by
  have := transform_br
  unfold GM.LinkRef.guardedTransform; br

/-- a paragraph transformer that writes lines only of its node -/
def PTBr (pt : PT) : Prop := ∀ n, Br (fun i => i = n) (pt n)

theorem transformParagraph_br : ∀ (pts : List PT), (∀ pt ∈ pts, PTBr pt) → ∀ n, Br (fun i => i = n) (transformParagraph pts n)
  | [], _, n => by unfold transformParagraph; br
  | pt :: pts, hp, n => by
    have h1 : ∀ n, Br (fun i => i = n) (pt n) := hp pt (List.mem_cons_self ..)
    have h2 := transformParagraph_br pts (fun q hq => hp q (List.mem_cons_of_mem _ hq))
    unfold transformParagraph; br

theorem paragraphTransformers_br (guard : Bool) : ∀ pt ∈ GM.Convert.paragraphTransformers guard, PTBr pt := by
  intro pt hpt
  unfold GM.Convert.paragraphTransformers at hpt
  rw [List.mem_singleton] at hpt
  subst hpt
  intro n
  split
  · exact guardedTransform_br n
  · exact transform_br n

/-- the end of setextHeadingParser.Close when the paragraph has lost all its lines, from the test of the next sibling on -/
def setextTail2 (node hp : Nat) (segment : Segment) (next : Option Nat) (nextIsPara : Bool) : M Unit := do
  if !nextIsPara then
    let para ← newNode { kind := .paragraph }
    appendLine para segment
    insertAfter hp (some node) para
  else
    match next with
    | none => pure ()
    | some nx =>
      let nn ← getNode nx
      if nn.linesNil then throw .slice
      modNode nx fun n => { n with lines := segment :: n.lines }
  removeChild hp node

def setextTail1 (node hp : Nat) (segment : Segment) (next : Option Nat) : M Unit := do
  let nextIsPara ← match next with
    | none => pure false
    | some nx => do pure ((← getNode nx).kind == .paragraph)
  setextTail2 node hp segment next nextIsPara

theorem setextClose_eq (node : Nat) : setextClose node = (do
    let hn ← getNode node
    let segment ← liftE (lineAt hn.lines 0)
    modNode node fun n => { n with lines := [], linesNil := true }
    let tmp ← match (← getPc).tmpPara with
      | some t => pure t
      | none => throw .assert
    modPc fun pc => { pc with tmpPara := none }
    let tn ← getNode tmp
    if tn.lines.length == 0 then
      let next ← nextSibling node
      let segment ← liftE (segment.trimLeftSpace (← source))
      let hp ← match (← getNode node).parent with
        | some p => pure p
        | none => throw .nil
      setextTail1 node hp segment next
    else
      modNode node fun n => { n with lines := tn.lines, linesNil := tn.linesNil, blankPrev := tn.blankPrev }
      match tn.parent with
      | some tp => removeChild tp tmp
      | none => pure ()) := by
  unfold setextClose setextTail1 setextTail2
  rfl

theorem setextTail2_br (n hp : Nat) (seg : Segment) (next : Option Nat) (b : Bool) :
    Br (fun i => i = n ∨ (next = some i ∧ b = true)) (setextTail2 n hp seg next b) := by
  unfold setextTail2
  cases b with
  | false => br
  | true =>
    cases next with
    | none => br
    | some nx =>
      have hw : (fun i => i = n ∨ (some nx = some i ∧ true = true)) nx := Or.inr ⟨rfl, rfl⟩
      br

theorem setextTail1_br (n hp : Nat) (seg : Segment) (next : Option Nat) : Br (fun i => i = n) (setextTail1 n hp seg next) := by
  constructor
  intro s a s' h
  unfold setextTail1 at h
  have key : ∃ b s1, s1 = s ∧ (b = true → ∃ nx, next = some nx ∧ (ndx s nx).kind = .paragraph) ∧
      setextTail2 n hp seg next b s1 = .ok (a, s') := by
    cases next with
    | none =>
      obtain ⟨b, s1, h1, h2⟩ := bind_ok h
      cases h1
      exact ⟨false, s, rfl, (fun e => by cases e), h2⟩
    | some nx =>
      obtain ⟨nn, s0, g1, g2⟩ := bind_ok h
      obtain ⟨rfl, rfl⟩ := getNode_ok g1
      obtain ⟨b, s1, h1, h2⟩ := bind_ok g2
      cases h1
      exact ⟨_, _, rfl, (fun e => ⟨nx, rfl, by simpa [ndx] using e⟩), h2⟩
  obtain ⟨b, s1, rfl, hb, h2⟩ := key
  have st := (setextTail2_br n hp seg next b).h _ _ _ h2
  refine ⟨st.len, st.kind, st.opened, fun i hn hk => ?_, st.edges⟩
  apply st.lines i _ hk
  intro hw
  rcases hw with hw | ⟨hnx, hbt⟩
  · exact hn hw
  · obtain ⟨nx, e1, e2⟩ := hb hbt
    rw [hnx] at e1
    cases e1
    have hv : i < s1.nodes.length := by
      cases hlt : decide (i < s1.nodes.length) with
      | true => simpa using hlt
      | false =>
        have : s1.nodes.length ≤ i := by simpa using hlt
        rw [ndx_ge s1 this] at e2
        cases e2
    rw [st.kind i hv, e2] at hk
    cases hk

theorem setextClose_br (n : Nat) : Br (fun i => i = n) (setextClose n) := by
  have := setextTail1_br
  rw [setextClose_eq]; br

theorem bpClose_br (bp : BP) (n : Nat) : Br (fun i => i = n ∧ bp ≠ .blockquote) (bpClose bp n) := by
  cases bp <;> unfold bpClose
  · exact (setextClose_br n).weaken (fun i h => ⟨h, by simp⟩)
  · exact Br.pure _
  · exact listClose_br n
  · exact Br.pure _
  · exact (codeClose_br n).weaken (fun i h => ⟨h, by simp⟩)
  · exact Br.pure _
  · exact (fencedClose_br n).weaken (fun i h => ⟨h, by simp⟩)
  · exact Br.pure _
  · exact Br.pure _
  · exact (paragraphClose_br n).weaken (fun i h => ⟨h, by simp⟩)

end GM.ConvertF
