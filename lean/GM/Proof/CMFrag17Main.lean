/-
  GM.Proof.CMFrag17Main — stage 17: paragraphs whose lines contain images; the phases composed.
-/
import GM.Proof.CMFragParas
import GM.Proof.CMFrag16Main
import GM.Proof.CMFrag17Inl
import GM.Proof.CMFragRender17
import GM.Proof.CMFragSpec17

namespace GM.Proof.CMFrag
open GM GM.Text GM.Blocks GM.Spec GM.Spec.CM GM.Spec.CMFrag

theorem imatomSrc_noNl (a : ImAtom) (h : ImAtomOK a) : ∀ c ∈ imatomSrc a, c ≠ 10 := by
  cases a with
  | txt bs => exact quiet_no_nl bs 0 false (h.2.1 0)
  | img t d =>
    intro c hc
    simp only [imatomSrc, List.mem_append, List.mem_cons, List.not_mem_nil, or_false] at hc
    rcases hc with ((((rfl | rfl) | hc) | (rfl | rfl)) | hc) | rfl
    · decide
    · decide
    · exact alnum_ne_lf8 c (h.1.2 c hc)
    · decide
    · decide
    · exact dest_ne_lf16 c (h.2.2 c hc)
    · decide

theorem imlineSrc_append (a b : List ImAtom) : imlineSrc (a ++ b) = imlineSrc a ++ imlineSrc b := by
  simp [imlineSrc]

/-- a rich line is good for the block phase -/
theorem imrichLine_blk {l : List ImAtom} (h : ImRichLine l) : BlkLine (imlineSrc l) := by
  refine ⟨?_, ?_, ?_⟩
  · obtain ⟨bs, rest, e, hf⟩ := h.first
    have hok := h.ok (.txt bs) (by rw [e]; simp)
    cases bs with
    | nil => exact absurd rfl hok.1
    | cons c t =>
      exact ⟨c, t ++ imlineSrc rest, by rw [e]; simp [imlineSrc, imatomSrc], hf c rfl⟩
  · obtain ⟨init, bs, e, hl⟩ := h.last
    have hok := h.ok (.txt bs) (by rw [e]; simp)
    intro c hc
    have e2 : imlineSrc l = imlineSrc init ++ bs := by rw [e, imlineSrc_append]; simp [imlineSrc, imatomSrc]
    rw [e2, List.getLast?_append] at hc
    cases hb : bs.getLast? with
    | none => exact absurd (List.getLast?_eq_none_iff.mp hb) hok.1
    | some z =>
      rw [hb] at hc
      have hc' : z = c := by simpa using hc
      subst hc'
      exact (hl z hb).1
  · intro c hc
    simp only [imlineSrc, List.mem_flatMap] at hc
    obtain ⟨a, ha, hca⟩ := hc
    exact imatomSrc_noNl a (h.ok a ha) c hca

/-- the paragraphs of a stage-17 document as byte lines with the extra blank lines in front -/
def itemsOfImg (d : ImgDoc) : List (Nat × List Bytes) :=
  d.items.map fun it => (it.gap, (it.lines.map (·.map imatomOfS)).map imlineSrc)

theorem spellImgItems_raw : ∀ (first : Bool) (its : List ImgItem) (trail : Nat),
    spellImgItems first its ++ GM.Spec.CMFrag.blanks trail =
      rawDoc6 (paraItems first (its.map fun it => (it.gap, (it.lines.map (·.map imatomOfS)).map imlineSrc))) trail
  | _, [], _ => by simp [spellImgItems, paraItems, rawDoc6, blanks_eq]
  | first, it :: rest, trail => by
    have ih := spellImgItems_raw false rest trail
    have e : it.lines.flatMap (fun l => spellImgLine l ++ [10]) =
        paraBytes ((it.lines.map (·.map imatomOfS)).map imlineSrc) := by
      simp [paraBytes, List.flatMap_map, imlineSrc_imatomOfS17]
    simp only [spellImgItems, List.map_cons, paraItems, rawDoc6, lines5, lines4, List.append_assoc, ih, e, blanks_eq]

theorem spellImg_raw (d : ImgDoc) : spellImg d = rawDoc6 (paraItems true (itemsOfImg d)) d.trail :=
  spellImgItems_raw true d.items d.trail

theorem imgfrag_items (d : ImgDoc) (h : ImgFrag d) : ∀ it ∈ d.items, imgitemOKS it = true := by
  have := h; simp only [ImgFrag, imgfragB, List.all_eq_true] at this; exact this

theorem imgitem_rich (it : ImgItem) (h : imgitemOKS it = true) : ∀ l ∈ it.lines.map (·.map imatomOfS), ImRichLine l := by
  intro l hl
  obtain ⟨r, hr, rfl⟩ := List.mem_map.mp hl
  exact imrichLine_imatomOfS17 r ((imgitemOKS_lines17 it h).2 r hr)

theorem itemsOfImg_blk (d : ImgDoc) (h : ImgFrag d) : ∀ it ∈ itemsOfImg d, it.2 ≠ [] ∧ ∀ l ∈ it.2, BlkLine l := by
  intro x hx
  obtain ⟨it, hit, rfl⟩ := List.mem_map.mp hx
  have hok := imgfrag_items d h it hit
  refine ⟨by simpa using (imgitemOKS_lines17 it hok).1, ?_⟩
  intro l hl
  obtain ⟨y, hy, rfl⟩ := List.mem_map.mp hl
  exact imrichLine_blk (imgitem_rich it hok y hy)

theorem parasDT_Img (env : GM.Inl.Env) (henv : env.escapedSpace = false) : ∀ (its : List ImgItem),
    (∀ it ∈ its, imgitemOKS it = true) →
    ParasDT env (its.map fun it => (it.gap, (it.lines.map (·.map imatomOfS)).map imlineSrc))
      ((its.map fun it => it.lines.map (·.map imatomOfS)).map imrichNodes)
  | [], _ => trivial
  | it :: rest, h => by
    have hok := imgitem_rich it (h it (by simp))
    have hne : it.lines.map (·.map imatomOfS) ≠ [] := by simpa using (imgitemOKS_lines17 it (h it (by simp))).1
    exact ⟨⟨fun p => richKids17 p (it.lines.map (·.map imatomOfS)),
        fun src p hl => parseBlock_rich17 env henv src p _ hne hok hl,
        fun src p hl => inlineTrees_rich17 src p _ hok hl⟩,
      parasDT_Img env henv rest (fun x hx => h x (by simp [hx]))⟩

/-- **the conformance theorem of the stage-17 fragment** -/
theorem fragment17_conforms (d : ImgDoc) (h : ImgFrag d) (uc : List (Nat × (Bool × Bool))) :
    GM.Convert.convertCore uc cmOpts (spellImg d) = .ok (expectedImg d) := by
  rw [spellImg_raw]
  refine convert_paras_gen uc (itemsOfImg d) d.trail ((atomsOfImg d).map imrichNodes) (expectedImg d) (itemsOfImg_blk d h)
    (fun env henv => parasDT_Img env henv d.items (imgfrag_items d h)) ?_
  have := renderDoc_expectedImg17 d h
  simpa [List.map_map, Function.comp_def] using this

/-- the stage-17 document without its final line feed -/
theorem fragment17_conforms_nofinal (d : ImgDoc) (h : ImgFrag d) (hne : d.items ≠ []) (uc : List (Nat × (Bool × Bool))) :
    GM.Convert.convertCore uc cmOpts (rawDoc6E (paraItems true (itemsOfImg d))) = .ok (expectedImg d) := by
  refine convert_paras_genE uc (itemsOfImg d) (by simpa [itemsOfImg] using hne) ((atomsOfImg d).map imrichNodes) (expectedImg d)
    (itemsOfImg_blk d h) (fun env henv => parasDT_Img env henv d.items (imgfrag_items d h)) ?_
  have := renderDoc_expectedImg17 d h
  simpa [List.map_map, Function.comp_def] using this

end GM.Proof.CMFrag
