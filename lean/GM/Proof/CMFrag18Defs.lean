/-
  GM.Proof.CMFrag18Defs — stage 18 (URI autolinks inside the text lines): lines made of text atoms and autolink atoms
  `<s:r>`, as source bytes, as renderer nodes and as HTML. (Definitions only.)
-/
import GM.Proof.CMFrag8Inl

namespace GM.Proof.CMFrag
open GM GM.Text

/-- a piece of a line: literal text (source bytes that never consult an inline parser), or a URI autolink with the
    scheme `s` and the rest `r` -/
inductive AAtom where
  | txt (bs : Bytes)
  | auto (s r : Bytes)
deriving Repr, Inhabited

/-- the URI of an autolink: scheme, colon, rest -/
def autoUri18 (s r : Bytes) : Bytes := s ++ [58] ++ r

/-- the source bytes of an atom: an autolink is written `<s:r>` -/
def aatomSrc : AAtom → Bytes
  | .txt bs => bs
  | .auto s r => [60] ++ s ++ [58] ++ r ++ [62]

def alineSrc (as : List AAtom) : Bytes := as.flatMap aatomSrc

def AAtom.isTxt : AAtom → Bool
  | .txt _ => true
  | .auto _ _ => false

/-- text and autolink atoms alternate -/
def aalternating : List AAtom → Bool
  | a :: b :: rest => (a.isTxt != b.isTxt) && aalternating (b :: rest)
  | _ => true

/-- a byte of the part behind the colon: a letter, a digit, `/` or `.` -/
def isAutoC18 (c : UInt8) : Bool := GM.Spec.CM.isAlnumC c || c == 47 || c == 46

/-- an atom is well formed: text = non-empty bytes that are quiet at every position of a line (in particular no
    unescaped `<`), leaving the flag `escaped` cleared; autolink = a scheme of 2 to 32 ASCII letters and a non-empty
    rest of letters, digits, `/` and `.` -/
def AAtomOK : AAtom → Prop
  | .txt bs => bs ≠ [] ∧ (∀ i, quiet bs i false = true) ∧ escAfter bs false = false
  | .auto s r => (2 ≤ s.length ∧ s.length ≤ 32 ∧ ∀ c ∈ s, GM.Spec.CM.isLetter c = true) ∧
      (r ≠ [] ∧ ∀ c ∈ r, isAutoC18 c = true)

/-- a rich line: text atoms and autolinks alternate, starting and ending with text; the first byte is a letter, the
    last byte neither white space nor a backslash -/
structure ARichLine (as : List AAtom) : Prop where
  alt : aalternating as = true
  first : ∃ bs rest, as = .txt bs :: rest ∧ ∀ c, bs.head? = some c → GM.Spec.CM.isLetter c = true
  last : ∃ init bs, as = init ++ [.txt bs] ∧ (∀ c, bs.getLast? = some c → isSpace c = false ∧ c ≠ 92)
  ok : ∀ a ∈ as, AAtomOK a

/-- the nodes of one line as the renderer reads them; `soft`: the line is not the last of its paragraph -/
def aatomNodes (soft : Bool) : List AAtom → List GM.Node
  | [] => []
  | [.txt bs] => [.mk (.text bs soft false false false) none []]
  | .txt bs :: rest => .mk (.text bs false false false false) none [] :: aatomNodes soft rest
  | .auto s r :: rest => .mk (.autoLink false (autoUri18 s r) (autoUri18 s r)) none [] :: aatomNodes soft rest

def arichNodes : List (List AAtom) → List GM.Node
  | [] => []
  | [l] => aatomNodes false l
  | l :: l' :: rest => aatomNodes true l ++ arichNodes (l' :: rest)

/-- the HTML of one line (a URI of letters, digits, `/`, `.` and `:` is written as it is, as address and as label) -/
def aatomHtml : AAtom → Bytes
  | .txt bs => GM.write false bs
  | .auto s r => strBytes "<a href=\"" ++ autoUri18 s r ++ strBytes "\">" ++ autoUri18 s r ++ strBytes "</a>"

def arichLineHtml (as : List AAtom) : Bytes := as.flatMap aatomHtml

end GM.Proof.CMFrag
