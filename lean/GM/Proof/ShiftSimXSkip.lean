/-
  GM.Proof.ShiftSimXSkip — `SkipBlankLines` in the two-run simulation when run B's source goes on behind run A's
  with a blank line and a NON-BLANK line: `F.q = 10 :: (L ++ rest)`.

  While run A sees lines of `b`, both runs step together. When run A's blank lines reach the end of `b`, run A answers
  `(_, lines, false)`; run B skips one blank line more (the `\n` in front of `L`) and answers `(_, lines + 1, true)`,
  its reader standing at the start of `L`.
-/
import GM.Proof.ShiftSimXRel
import GM.Proof.ShiftSimEndC

namespace GM.Blocks.Xs
open GM GM.Text GM.Spec GM.Proof.Reader GM.Blocks

/-! ### bytes -/

theorem xsk_lineEnd_at (pre L rest body : Bytes) (hL : L = body ++ [10]) (hb : ∀ c ∈ body, c ≠ 10) :
    lineEnd (pre ++ (L ++ rest)) pre.length = pre.length + L.length := by
  unfold lineEnd
  rw [if_pos (by simp), List.drop_left' rfl]
  subst hL
  have e : body ++ [10] ++ rest = body ++ 10 :: rest := by simp
  rw [e, Sh.lineLen_noLF body rest hb]
  simp

theorem xsk_sub_at (pre L rest : Bytes) : sub (pre ++ (L ++ rest)) pre.length (pre.length + L.length) = L := by
  unfold sub
  rw [List.drop_left' rfl]
  have : pre.length + L.length - pre.length = L.length := by omega
  rw [this, List.take_left' rfl]

/-! ### run B alone: the blank line behind `b`, then `L` -/

/-- what run B's reader looks like when it stands at the start of `L` -/
structure XskEnd (F : Frame) (b L : Bytes) (rA rB : Reader) : Prop where
  source : rB.source = F.p ++ b ++ F.q
  pos : rB.pos = { start := ((F.p.length + b.length + 1 : Nat) : Int),
                   stop := ((F.p.length + b.length + 1 + L.length : Nat) : Int), padding := 0, forceNewline := false }
  line : rB.line = rA.line + F.dl + 1
  atLine : AtLine L rB
  riA : ∃ c, RI b rA c ∧ c.p = b.length

/-- `r0` is a reader whose line ends where `pre` ends; behind `pre` the source holds `\n`, then `L`. -/
theorem xsk_tail (pre L rest : Bytes) (r0 : Reader)
    (hL : ∃ body, L = body ++ [10] ∧ ∀ c ∈ body, c ≠ 10) (hLb : isBlank L = false)
    (hs : r0.source = pre ++ 10 :: (L ++ rest)) (hstop : r0.pos.stop = (pre.length : Int))
    (hf : r0.pos.forceNewline = false) :
    ∀ (f : Nat) (lines : Int) x r', skipBlankLines readerOps f lines r0.advanceLine = .ok (x, r') →
      x.2.2 = true ∧ x.2.1 = lines + 1 ∧ AtLine L r' ∧ r'.source = pre ++ 10 :: (L ++ rest) ∧
      r'.pos = { start := ((pre.length + 1 : Nat) : Int), stop := ((pre.length + 1 + L.length : Nat) : Int),
                 padding := 0, forceNewline := false } ∧ r'.line = r0.line + 2 := by
  obtain ⟨body, hLe, hbody⟩ := hL
  -- byte facts
  have e1 : lineEnd (pre ++ 10 :: (L ++ rest)) pre.length = pre.length + 1 := by
    have := xsk_lineEnd_at pre [10] (L ++ rest) [] rfl (by intro c hc; cases hc)
    simpa using this
  have s1 : sub (pre ++ 10 :: (L ++ rest)) pre.length (pre.length + 1) = [10] := by
    have := xsk_sub_at pre [10] (L ++ rest)
    simpa using this
  have esrc : pre ++ 10 :: (L ++ rest) = (pre ++ [10]) ++ (L ++ rest) := by simp
  have e2 : lineEnd (pre ++ 10 :: (L ++ rest)) (pre.length + 1) = pre.length + 1 + L.length := by
    have := xsk_lineEnd_at (pre ++ [10]) L rest body hLe hbody
    rw [esrc]; simpa using this
  have s2 : sub (pre ++ 10 :: (L ++ rest)) (pre.length + 1) (pre.length + 1 + L.length) = L := by
    have := xsk_sub_at (pre ++ [10]) L rest
    rw [esrc]; simpa using this
  have hLlen : 0 < L.length := by rw [hLe]; simp
  have hlen : (pre ++ 10 :: (L ++ rest)).length = pre.length + 1 + L.length + rest.length := by
    simp; omega
  -- the two readers
  have a1 : AtLine [10] r0.advanceLine := by
    have := Sh.atLine_advanceLine (r := r0) (src := pre ++ 10 :: (L ++ rest)) (k := pre.length) hs hstop hf (by omega)
    rwa [e1, s1] at this
  have q1 := Sh.advanceLine_eq r0 (by omega)
  have hs1 : r0.advanceLine.source = pre ++ 10 :: (L ++ rest) := by rw [q1]; exact hs
  have hstop1 : r0.advanceLine.pos.stop = ((pre.length + 1 : Nat) : Int) := by
    rw [q1]; simp only; rw [hs, hstop, Int.toNat_natCast, e1]
  have hf1 : r0.advanceLine.pos.forceNewline = false := by rw [q1]; exact hf
  have hl1 : r0.advanceLine.line = r0.line + 1 := by rw [q1]
  have a2 : AtLine L r0.advanceLine.advanceLine := by
    have := Sh.atLine_advanceLine (r := r0.advanceLine) (src := pre ++ 10 :: (L ++ rest)) (k := pre.length + 1)
      hs1 hstop1 hf1 (by omega)
    rwa [e2, s2] at this
  have q2 := Sh.advanceLine_eq r0.advanceLine (by omega)
  have hs2 : r0.advanceLine.advanceLine.source = pre ++ 10 :: (L ++ rest) := by rw [q2]; exact hs1
  have hp2 : r0.advanceLine.advanceLine.pos =
      { start := ((pre.length + 1 : Nat) : Int), stop := ((pre.length + 1 + L.length : Nat) : Int),
        padding := 0, forceNewline := false } := by
    rw [q2]; simp only; rw [hs1, hstop1, hf1, Int.toNat_natCast, e2]
  have hl2 : r0.advanceLine.advanceLine.line = r0.line + 2 := by rw [q2]; simp only; rw [hl1]; omega
  intro f lines x r' h
  cases f with
  | zero => unfold skipBlankLines at h; cases h
  | succ f =>
    unfold skipBlankLines at h
    obtain ⟨r1, p1, _, rc1⟩ := Sh.h2_peekLineR a1
    simp only [readerOps, p1, bind, Except.bind, Sh.h2_isBlank_nl, if_true, pure, Except.pure] at h
    rw [Sh.h2_advanceLine_congr rc1] at h
    cases f with
    | zero => unfold skipBlankLines at h; cases h
    | succ f =>
      unfold skipBlankLines at h
      obtain ⟨r2, p2, al2, rc2⟩ := Sh.h2_peekLineR a2
      simp only [readerOps, p2, bind, Except.bind, hLb, Bool.false_eq_true, if_false, pure, Except.pure] at h
      cases h
      exact ⟨rfl, rfl, al2, by rw [rc2.1, hs2], by rw [rc2.2.1, hp2], by rw [rc2.2.2, hl2]⟩

/-! ### the two loops together -/

theorem xsk_loop (F : Frame) (b L rest : Bytes) (hq : F.q = 10 :: (L ++ rest))
    (hL : ∃ body, L = body ++ [10] ∧ ∀ c ∈ body, c ≠ 10) (hLb : isBlank L = false) (hnl : b.getLast? = some 10) :
    ∀ (fA fB : Nat) (lines : Int) (r : Reader) (c : RCur), RI b r c → c.p < b.length →
      ∀ xA rA xB rB, skipBlankLines readerOps fA lines r = .ok (xA, rA) →
        skipBlankLines readerOps fB lines (shR F r) = .ok (xB, rB) →
        (xA.2.2 = true → xB = (moveSeg F.d xA.1, xA.2.1, true) ∧ rB = shR F rA ∧ ∃ c', RI b rA c' ∧ c'.p < b.length) ∧
        (xA.2.2 = false → xB.2.2 = true ∧ xB.2.1 = xA.2.1 + 1 ∧ XskEnd F b L rA rB) := by
  intro fA
  induction fA with
  | zero => intro fB lines r c _ _ xA rA xB rB e; cases e
  | succ fA ih =>
    intro fB lines r c hri hlt xA rA xB rB e1 e2
    cases fB with
    | zero => cases e2
    | succ fB =>
      unfold skipBlankLines at e1 e2
      obtain ⟨r1, hp, hri1⟩ := ri_peekLine hri
      have h0 : 0 ≤ r.pos.start := by rw [hri.pos]; simp
      have hle := GM.Blocks.lineEnd_le b c.p
      have hpB : (shR F r).peekLine = .ok ((RCur.view b c, moveSeg F.d (RCur.seg b c)), shR F r1) := by
        rw [peekLine_sh F r h0 (.inr (by rw [hri.source, hri.pos]; simp only; omega)), hp]; rfl
      simp only [readerOps, hp, hpB, bind, Except.bind] at e1 e2
      rw [GM.Blocks.view_eq b c hlt] at e1 e2
      simp only at e1 e2
      by_cases hb : isBlank (spaces c.pad ++ sub b c.p (lineEnd b c.p)) = true
      · rw [if_pos hb] at e1 e2
        simp only [pure, Except.pure] at e1 e2
        have h1 : 0 ≤ r1.pos.stop := by rw [hri1.pos]; simp
        have hri2 := ri_advanceLine hri1
        by_cases hend : lineEnd b c.p < b.length
        · rw [advanceLine_sh F r1 h1 (.inr ⟨by rw [hri1.source, hri1.pos]; simp only; omega,
            by rw [hri1.source]; exact hnl⟩)] at e2
          exact ih fB (lines + 1) r1.advanceLine _ hri2 hend xA rA xB rB e1 e2
        · -- run A's blank line is the last line of `b`
          have hpe : (RCur.advanceLine b c).p = b.length := by
            show lineEnd b c.p = b.length
            omega
          cases fA with
          | zero => unfold skipBlankLines at e1; cases e1
          | succ fA =>
            unfold skipBlankLines at e1
            obtain ⟨r2, hp2, hri3⟩ := ri_peekLine hri2
            simp only [readerOps, hp2, bind, Except.bind] at e1
            rw [GM.Blocks.view_none b _ (by rw [hpe]; omega)] at e1
            simp only [pure, Except.pure, Except.ok.injEq, Prod.mk.injEq] at e1
            obtain ⟨e1a, e1b⟩ := e1
            subst e1a e1b
            have hsrc : (shR F r1).source = (F.p ++ b) ++ 10 :: (L ++ rest) := by
              show F.p ++ r1.source ++ F.q = _
              rw [hri1.source, hq]
            have hstop : (shR F r1).pos.stop = ((F.p ++ b).length : Int) := by
              show r1.pos.stop + F.d = _
              rw [hri1.pos]
              simp only [Frame.d, List.length_append, Int.natCast_add]
              omega
            have hf : (shR F r1).pos.forceNewline = false := by
              show r1.pos.forceNewline = false
              rw [hri1.pos]
            obtain ⟨t1, t2, t3, t4, t5, t6⟩ :=
              xsk_tail (F.p ++ b) L rest (shR F r1) hL hLb hsrc hstop hf fB (lines + 1) xB rB e2
            refine ⟨fun h => (by cases h), fun _ => ⟨t1, t2, ?_⟩⟩
            have hlA : r2.line = r1.line + 1 := by
              have a := hri3.abs.line
              have b' := hri1.abs.line
              show r2.line = r1.line + 1
              have a' : r2.line = (RCur.advanceLine b c).ln := a
              have b'' : r1.line = c.ln := b'
              rw [a', b'']; rfl
            refine ⟨by rw [t4, hq, List.append_assoc], ?_, ?_, t3, _, hri3, hpe⟩
            · rw [t5]; simp only [List.length_append]
            · rw [t6, hlA]
              show r1.line + F.dl + 2 = _
              omega
      · rw [if_neg hb] at e1 e2
        simp only [pure, Except.pure, Except.ok.injEq, Prod.mk.injEq] at e1 e2
        obtain ⟨e1a, e1b⟩ := e1
        obtain ⟨e2a, e2b⟩ := e2
        subst e1a e1b e2a e2b
        exact ⟨fun _ => ⟨rfl, rfl, c, hri1, hlt⟩, fun h => by cases h⟩

/-! ### the `M` level -/

theorem skipBlankLinesR_x {F : Frame} {b : Bytes} {sA sB : St} (L rest : Bytes)
    (hq : F.q = 10 :: (L ++ rest)) (hL : ∃ body, L = body ++ [10] ∧ ∀ c ∈ body, c ≠ 10) (hLb : isBlank L = false)
    (hnl : b.getLast? = some 10) (h : RD F b sA sB) (hl : ∃ c, RI b sA.r c ∧ c.p < b.length) :
    P2 (fun x y sA' sB' =>
        (x.2.2 = true → y = (moveSeg F.d x.1, x.2.1, true) ∧ RDstep F b sA sB sA' sB' ∧
          (∃ c, RI b sA'.r c ∧ c.p < b.length)) ∧
        (x.2.2 = false → y.2.2 = true ∧ y.2.1 = x.2.1 + 1 ∧ sB'.nodes = sB.nodes ∧ sB'.pc = sB.pc ∧
          sA'.nodes = sA.nodes ∧ sA'.pc = sA.pc ∧
          sB'.r.source = F.p ++ b ++ F.q ∧
          sB'.r.pos = { start := ((F.p.length + b.length + 1 : Nat) : Int),
                        stop := ((F.p.length + b.length + 1 + L.length : Nat) : Int), padding := 0,
                        forceNewline := false } ∧
          sB'.r.line = sA'.r.line + F.dl + 1 ∧ AtLine L sB'.r ∧ (∃ c, RI b sA'.r c ∧ c.p = b.length)))
      (skipBlankLinesR sA) (skipBlankLinesR sB) := by
  obtain ⟨_, hr⟩ := h
  obtain ⟨c, hc, hlt⟩ := hl
  intro x sA' y sB' e1 e2
  unfold skipBlankLinesR at e1 e2
  cases h1 : skipBlankLines readerOps (loopFuel sA.r.source) 0 sA.r with
  | error e => rw [h1] at e1; cases e1
  | ok v1 =>
    cases h2 : skipBlankLines readerOps (loopFuel sB.r.source) 0 sB.r with
    | error e => rw [h2] at e2; cases e2
    | ok v2 =>
      rw [h1] at e1; rw [h2] at e2
      cases e1; cases e2
      rw [hr] at h2
      obtain ⟨k1, k2⟩ := xsk_loop F b L rest hq hL hLb hnl _ _ 0 sA.r c hc hlt v1.1 v1.2 v2.1 v2.2 h1 h2
      refine ⟨fun ht => ?_, fun hf => ?_⟩
      · obtain ⟨q1, q2, c', q3, q4⟩ := k1 ht
        exact ⟨q1, ⟨v1.2, c', q3, rfl, by rw [q2]⟩, c', q3, q4⟩
      · obtain ⟨q1, q2, q3⟩ := k2 hf
        exact ⟨q1, q2, rfl, rfl, rfl, rfl, q3.source, q3.pos, q3.line, q3.atLine, q3.riA⟩

end GM.Blocks.Xs
