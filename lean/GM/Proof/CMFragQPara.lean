/-
  GM.Proof.CMFragQPara — the line segments of a paragraph of the run on `S` and the related (`SegsRel`) segments of
  the run on `quotePrefix S`: the same lines, lying somewhere in `quotePrefix S`, in order (`segsRel_paraQ`); the
  one-segment instance (`segsRel_oneQ`). Core Lean only.
-/
import GM.Proof.CMFragQSeg
import GM.Proof.CMFragQInl
namespace GM.Proof.CMFrag
open GM GM.Text GM.Blocks

/-- cast normalisation: a segment written with default fields and any `Int` expressions -/
theorem seg_eqQ {a b c d : Int} (h1 : a = c) (h2 : b = d) :
    ({ start := a, stop := b } : Segment) = { start := c, stop := d, padding := 0, forceNewline := false } := by
  subst h1; subst h2; rfl

/-- `segRel_transportQ` for a segment written the way `paraSegs` writes it -/
theorem segRel_transportQ_int {S : Bytes} {p n : Nat} {e : Int} {t : Segment}
    (h : SegRel S { start := (p : Int), stop := e } t) (he : e = (p : Int) + (n : Int)) (hn : 0 < n)
    (hb : p + n ≤ S.length) :
    ∃ A : Nat, (∀ e' : Int, e' = (A : Int) + (n : Int) → t = { start := (A : Int), stop := e' }) ∧
      A + n ≤ (quotePrefix S).length ∧
      sub (quotePrefix S) A (A + n) = sub S p (p + n) ∧
      SegRel S { start := (p : Nat), stop := ((p + n : Nat) : Int), padding := 0, forceNewline := false }
        { start := (A : Nat), stop := ((A + n : Nat) : Int), padding := 0, forceNewline := false } := by
  have e1 : ({ start := (p : Int), stop := e } : Segment) =
      { start := ((p : Nat) : Int), stop := ((p + n : Nat) : Int), padding := 0, forceNewline := false } :=
    seg_eqQ rfl (by omega)
  rw [e1] at h
  obtain ⟨A, ht, h2, h3, _⟩ := segRel_transportQ h (by omega) hb
  have hd : p + n - p = n := by omega
  rw [hd] at ht h2 h3
  refine ⟨A, ?_, h2, h3, ?_⟩
  · intro e' he'
    rw [ht]
    exact (seg_eqQ rfl (by omega)).symm
  · rw [← ht]; exact h

/-- `segRel_orderQ` with the second pair written the way `paraSegs` / `paraSegsG` write it -/
theorem segRel_orderQ_int {S : Bytes} {p n q m A B : Nat} {e f : Int}
    (h1 : SegRel S { start := (p : Nat), stop := ((p + n : Nat) : Int), padding := 0, forceNewline := false }
      { start := (A : Nat), stop := ((A + n : Nat) : Int), padding := 0, forceNewline := false })
    (h2 : SegRel S { start := (q : Int), stop := e } { start := (B : Int), stop := f })
    (he : e = (q : Int) + (m : Int)) (hf : f = (B : Int) + (m : Int)) (hn : 0 < n) (hm : 0 < m)
    (hle : p + n ≤ q) (hb : q + m ≤ S.length) : A + n ≤ B := by
  have e1 : ({ start := (q : Int), stop := e } : Segment) =
      { start := ((q : Nat) : Int), stop := ((q + m : Nat) : Int), padding := 0, forceNewline := false } :=
    seg_eqQ rfl (by omega)
  have e2 : ({ start := (B : Int), stop := f } : Segment) =
      { start := ((B : Nat) : Int), stop := ((B + m : Nat) : Int), padding := 0, forceNewline := false } :=
    seg_eqQ rfl (by omega)
  rw [e1, e2] at h2
  exact segRel_orderQ h1 h2 (by omega) (by omega) hle hb

/-- the line segments of a paragraph of the run on `S`, and the related segments of the run on `quotePrefix S`: they are
    the segments of the same lines lying somewhere in `quotePrefix S`, in order -/
theorem segsRel_paraQ {S : Bytes} : ∀ (ls : List Bytes) (p : Nat) (L' : List Segment), LinesAtE S p ls →
    (∀ l ∈ ls, l ≠ []) → SegsRel S (paraSegs p ls) L' →
    ∃ ps : List Nat, L' = paraSegsG ps ls ∧ LinesAtG (quotePrefix S) ps ls
  | [], _, L', _, _, h => by
    cases L' with
    | nil => exact ⟨[], rfl, trivial⟩
    | cons _ _ => exact h.elim
  | [l], p, L', hla, hne, h => by
    cases L' with
    | nil => exact h.elim
    | cons t L'' =>
      cases L'' with
      | cons _ _ => exact h.2.elim
      | nil =>
        have hl : 0 < l.length := List.length_pos_iff.mpr (hne l (List.mem_singleton.mpr rfl))
        have h1 : SegRel S { start := (p : Int), stop := (p : Int) + (l.length : Int) } t := h.1
        obtain ⟨A, ht, h2, h3, _⟩ := segRel_transportQ_int (n := l.length) h1 rfl hl hla.2
        refine ⟨[A], ?_, ?_, h2⟩
        · show [t] = [{ start := (A : Int), stop := (A : Int) + (l.length : Int) }]
          rw [ht ((A : Int) + (l.length : Int)) rfl]
        · rw [h3]; exact hla.1
  | l :: l' :: rest, p, L', hla, hne, h => by
    cases L' with
    | nil => exact h.elim
    | cons t1 L1 =>
      have h1 : SegRel S { start := (p : Int), stop := (p : Int) + (l.length : Int) + 1 } t1 := h.1
      have hr : SegsRel S (paraSegs (p + l.length + 1) (l' :: rest)) L1 := h.2
      obtain ⟨hs, hb, hla'⟩ := hla
      have hl' : 0 < l'.length :=
        List.length_pos_iff.mpr (hne l' (List.mem_cons_of_mem _ (List.mem_cons_self ..)))
      obtain ⟨ps, hL1, hG⟩ := segsRel_paraQ (l' :: rest) (p + l.length + 1) L1 hla'
        (fun x hx => hne x (List.mem_cons_of_mem _ hx)) hr
      obtain ⟨A1, ht1, _, s1, r1⟩ := segRel_transportQ_int (n := l.length + 1) h1 (by omega) (by omega) hb
      cases ps with
      | nil => exact hG.elim
      | cons A2 ps' =>
        have key : A1 + (l.length + 1) ≤ A2 := by
          subst hL1
          cases rest with
          | nil =>
            cases ps' with
            | cons _ _ => exact hG.elim
            | nil =>
              have h2 : SegRel S
                  { start := ((p + l.length + 1 : Nat) : Int),
                    stop := ((p + l.length + 1 : Nat) : Int) + (l'.length : Int) }
                  { start := (A2 : Int), stop := (A2 : Int) + (l'.length : Int) } := hr.1
              exact segRel_orderQ_int (m := l'.length) r1 h2 rfl rfl (by omega) hl' (by omega) hla'.2
          | cons l'' rest' =>
            cases ps' with
            | nil => exact hG.elim
            | cons A3 ps'' =>
              have h2 : SegRel S
                  { start := ((p + l.length + 1 : Nat) : Int),
                    stop := ((p + l.length + 1 : Nat) : Int) + (l'.length : Int) + 1 }
                  { start := (A2 : Int), stop := (A2 : Int) + (l'.length : Int) + 1 } := hr.1
              exact segRel_orderQ_int (m := l'.length + 1) r1 h2 (by omega) (by omega) (by omega) (by omega)
                (by omega) hla'.2.1
        refine ⟨A1 :: A2 :: ps', ?_, ?_, by omega, hG⟩
        · show t1 :: L1 = { start := (A1 : Int), stop := (A1 : Int) + (l.length : Int) + 1 } ::
            paraSegsG (A2 :: ps') (l' :: rest)
          rw [hL1, ht1 ((A1 : Int) + (l.length : Int) + 1) (by omega)]
        · exact s1.trans hs

/-- one segment (ATX headings) -/
theorem segsRel_oneQ {S : Bytes} (a : Nat) (l : Bytes) (L' : List Segment) (hl : l ≠ [])
    (hs : sub S a (a + l.length) = l) (hb : a + l.length ≤ S.length) (h : SegsRel S [sg a (a + l.length)] L') :
    ∃ A : Nat, L' = paraSegsG [A] [l] ∧ LinesAtG (quotePrefix S) [A] [l] := by
  have h' : SegsRel S (paraSegs a [l]) L' := by
    have e : paraSegs a [l] = [sg a (a + l.length)] := by
      show [({ start := (a : Int), stop := (a : Int) + (l.length : Int) } : Segment)] = [sg a (a + l.length)]
      rw [seg_eqQ (c := ((a : Nat) : Int)) (d := ((a + l.length : Nat) : Int)) rfl (by omega)]
      rfl
    rw [e]; exact h
  obtain ⟨ps, e, hG⟩ := segsRel_paraQ [l] a L' ⟨hs, hb⟩
    (fun x hx => by rw [List.mem_singleton.mp hx]; exact hl) h'
  cases ps with
  | nil => exact hG.elim
  | cons A ps' =>
    cases ps' with
    | nil => exact ⟨A, e, hG⟩
    | cons _ _ => exact hG.elim

end GM.Proof.CMFrag
