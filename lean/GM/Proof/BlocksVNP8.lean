-- GENERATED from BlocksTNP8.lean by tools/port_blocks_v.py (package headingids): the same proofs for the monitored driver runV. Do not edit.
/-
  GM.Proof.BlocksTNP8 — the whole block phase WITH paragraph transformers, ALL ten block parsers (lists included), for
  every source without the two trigger bytes of the setext heading parser (`-` and `=`): `runV_total_noSetext`.
  The block phase returns a tree all of whose line segments lie inside the source, or the transformers' run-time guard
  answered `e`: no Go panic of the driver or the parsers, no fuel exhaustion, contract monitor (1) of `retryStepV` kept,
  monitor (2) unreachable (`.retryTransformed` is only answered behind the setext parser). Assembly of the list-aware
  walk GM.Proof.BlocksTNP3/6/7 with the per-parser lemmas (`lsp_all`) and the termination theorem `GM.Blocks.V.runV_noLoop`.
-/
import GM.Proof.BlocksVNP7
import GM.Proof.BlocksNoPanicAll
import GM.Proof.BlocksVT

namespace GM.Blocks.TV
open GM GM.Text GM.Spec GM.Proof.Reader

/-- no byte of the source triggers `setextHeadingParser`: no `-`, no `=` -/
def SetextFree (src : Bytes) : Prop := ∀ b ∈ src, b ≠ 45 ∧ b ≠ 61

instance (src : Bytes) : Decidable (SetextFree src) := by unfold SetextFree; infer_instance

theorem runV_total_noSetext (src : Bytes) (e : Panic) (pts : List PT) (hs : PTsSpec src e pts) (hl : PTsOK pts)
    (hsrc : SetextFree src) :
    (∃ s, runV pts src = .ok s ∧ NodesOK src s) ∨ runV pts src = .error e := by
  rcases L.TV.runL (lsp_all src) hs hsrc with h | h | h
  · exact .inl h
  · exact absurd h (GM.Blocks.V.runV_noLoop hl src)
  · exact .inr h

end GM.Blocks.TV
