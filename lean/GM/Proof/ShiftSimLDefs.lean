/-
  GM.Proof.ShiftSimLDefs — the shift simulation WITH the two list parsers: the interfaces between the pieces.
  The list parsers read children lists (`LastChild`, the walk of `listParser.Close`), which differ between the runs for
  the Document (node 0: run B's Document also has the children of the prefix). So their contracts need facts about run
  A's store: the node is not the Document and no children list mentions node 0 — the unary invariant `K` of
  GM.Proof.ShiftSimAcyc2, which every driver function keeps. The driver lemmas of this family thread `K` instead of a
  set `Cov` of covered parsers (all ten parsers are covered).
-/
import GM.Proof.ShiftSimDriver
import GM.Proof.ShiftSimWDefs
import GM.Proof.ShiftSimAcyc2

namespace GM.Blocks.Sh
open GM GM.Text GM.Spec GM.Proof.Reader GM.Blocks

/-- the per-parser contracts, all ten parsers; `Continue` of `listItemParser` on a line is separate (`coLI`): it needs
    the facts the no-panic proof has about the list the item belongs to -/
structure PSimL (F : Frame) (b : Bytes) : Prop where
  op : ∀ bp, OpenSim F b bp
  cl : ∀ bp node rA rB sA sB, SRL F b rA rB sA sB → K sA → 0 < node →
    P2 (fun _ _ sA' sB' => SRL F b rA rB sA' sB') (bpClose bp node sA) (bpClose bp (F.ι node) sB)
  co : ∀ bp, bp ≠ .listItem → ∀ node sA sB, SR F b sA sB → HasLine b sA → K sA → 0 < node →
    P2 (fun x y sA' sB' => y = x ∧ SRLim F b sA' sB' ∧ ((x.cont = true ∧ x.hasChildren = false) ∨ SR F b sA' sB'))
      (bpContinue bp node sA) (bpContinue bp (F.ι node) sB)
  coEof : ∀ bp node sA sB, SR F b sA sB → (∃ c, RI b sA.r c ∧ ¬ c.p < b.length) → K sA → 0 < node →
    P2 (fun x y sA' sB' => y = x ∧ SRLim F b sA' sB') (bpContinue bp node sA) (bpContinue bp (F.ι node) sB)
  coLI : ∀ node sA sB, SR F b sA sB → HasLine b sA → K sA → 0 < node →
    (∀ p, (sA.nodes.getD node default).parent = some p → p ≠ 0) →
    (∀ a sA', listItemContinue node sA = .ok (a, sA') → ∃ c', RI b sA'.r c') →
    P2 (fun x y sA' sB' => y = x ∧ SR F b sA' sB') (bpContinue .listItem node sA) (bpContinue .listItem (F.ι node) sB)

/-- `closeBlocks` under the relation (proved in GM.Proof.ShiftSimDriverL) -/
def CloseBlocksSimL (F : Frame) (b : Bytes) : Prop :=
  ∀ (frm to : Int) (rA rB : Reader) (sA sB : St), SRL F b rA rB sA sB → K sA →
    P2 (fun _ _ sA' sB' => SRL F b rA rB sA' sB' ∧ K sA') (closeBlocks frm to sA) (closeBlocks frm to sB)

/-- what one run of the candidate loop establishes (`sA0`: run A's state at its start, `resIn` / `lbIn`: the `result` and
    `lastBlock` it got) -/
structure TryPostL (F : Frame) (b : Bytes) (sA0 : St) (resIn : OpenResult) (lbIn : Option Block)
    (x : TryOutcome × OpenResult × Option Block) (sA' sB' : St) : Prop where
  lim : SRLim F b sA' sB'
  k : K sA'
  lb : ∀ l, x.2.2 = some l → 0 < l.node
  par : ∀ p, x.1 = .retry p → p < sA'.nodes.length
  sr : ((∃ p, x.1 = .retry p) ∨ x.2.1 = .noBlocksOpened) → SR F b sA' sB'
  line : sA0.r.line ≤ sA'.r.line
  hasLine : x.2.1 = .noBlocksOpened → HasLine b sA'
  ne : x.2.1 = .newBlocksOpened → (resIn = .newBlocksOpened → sA0.pc.opened ≠ []) → sA'.pc.opened ≠ []
  /-- nothing opened: the stack of open blocks is the old one, `lastBlock` is the one handed in or the last open block -/
  same : x.2.1 = .noBlocksOpened → resIn = .noBlocksOpened ∧ sA'.pc.opened = sA0.pc.opened ∧
    (x.2.2 = lbIn ∨ x.2.2 = sA0.pc.opened.getLast?)
  retryNew : ∀ p, x.1 = .retry p → x.2.1 = .newBlocksOpened

/-- the candidate loop of `openBlocks` under the relation (proved in GM.Proof.ShiftSimDriverL) -/
def TryParsersSimL (F : Frame) (b : Bytes) : Prop :=
  ∀ (parent : Nat) (blankLine continuable : Bool) (w : Int) (bps : List BP) (result : OpenResult)
    (lastBlock : Option Block) (sA sB : St),
    (∀ l, lastBlock = some l → 0 < l.node) → SR F b sA sB → HasLine b sA → K sA → parent < sA.nodes.length →
    P2 (fun x y sA' sB' => y = (shO F x.1, x.2.1, x.2.2.map (shB F)) ∧ TryPostL F b sA result lastBlock x sA' sB')
      (tryParsers parent blankLine continuable w bps result lastBlock sA)
      (tryParsers (F.ι parent) blankLine continuable w bps result (lastBlock.map (shB F)) sB)

/-- a block whose node is a Paragraph does not belong to `listItemParser` (so `openBlocks` never asks
    `listItemParser.Continue` about a "continuable" last block); follows from `BlockOK` -/
def NoLI (continuable : Bool) (o : Option Block) : Prop := continuable = true → ∀ x, o = some x → x.bp ≠ .listItem

/-- `openBlocks` under the relation (proved in GM.Proof.ShiftSimOpenL) -/
def OpenBlocksSimL (F : Frame) (b : Bytes) : Prop :=
  ∀ (parent : Nat) (blank : Bool) (sA sB : St), SRw F b sA sB → K sA → parent < sA.nodes.length →
    (∀ x, sA.pc.opened.getLast? = some x → (sA.nodes.getD x.node default).kind = .paragraph → x.bp ≠ .listItem) →
    P2 (fun x y sA' sB' => y = x ∧ SRLim F b sA' sB' ∧ K sA' ∧ sA.r.line ≤ sA'.r.line ∧
        (x = OpenResult.newBlocksOpened → sA'.pc.opened ≠ []))
      (openBlocks parent blank sA) (openBlocks (F.ι parent) blank sB)

end GM.Blocks.Sh
