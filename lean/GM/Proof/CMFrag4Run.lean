/-
  GM.Proof.CMFrag4Run — stage 4: `blocksLoopT` over a document of paragraphs, ATX headings and thematic breaks
  separated by blank lines (induction over the blocks), `runT`.
-/
import GM.Proof.CMFrag4Hr
import GM.Proof.CMFragDoc

namespace GM.Proof.CMFrag
open GM GM.Text GM.Blocks GM.Spec

/-- the source lines of a block (without line feeds) -/
def lines4 : RawBlock → List Bytes
  | .para ls => ls
  | .atx level l => [List.replicate level 35 ++ 32 :: l]
  | .hr h => [h]

def conv4 (it : Nat × RawBlock) : Nat × List Bytes := (it.1, lines4 it.2)

/-- the closed block-phase node of a block that starts at byte `p` -/
def node4 (p : Nat) : RawBlock → Bool → Blocks.Node
  | .para ls, b => paraN (paraSegs p ls) b
  | .atx level l, b => headN level [sg (p + level + 1) (p + level + 1 + l.length)] b
  | .hr _, b => hrN b

def mkNodes4 : List (Nat × List Bytes) → List RawBlock → List Bool → List Blocks.Node
  | (p, _) :: cl, blk :: blks, b :: bs => node4 p blk b :: mkNodes4 cl blks bs
  | _, _, _ => []

/-- what the block phase needs of a block -/
def Good4 : RawBlock → Prop
  | .para ls => ls ≠ [] ∧ ∀ l ∈ ls, BlkLine l
  | .atx level l => 1 ≤ level ∧ level ≤ 6 ∧ BlkLine l ∧ ∀ c, l.getLast? = some c → c ≠ 35
  | .hr h => ∃ ch n, hrChar ch ∧ h = List.replicate (n + 3) ch

/-- the statement of GM.Proof.CMFrag.openBlocks_atx (proved in CMFrag4Atx) -/
def AtxOpens : Prop :=
  ∀ {src : Bytes} {p e : Nat} {v : Bytes} (_ : Ln src p e v) (level : Nat) (l : Bytes)
    (_ : v = List.replicate level 35 ++ 32 :: (l ++ [10])) (_ : 1 ≤ level) (_ : level ≤ 6)
    (_ : BlkLine l) (_ : ∀ c, l.getLast? = some c → c ≠ 35)
    (pts : List PT) (k : Int) (d : Blocks.Node) (rest : List Blocks.Node) (pc : Ctx) (_ : pc.opened = []) (blank : Bool)
    (pk : Option Bytes) (_ : pk = none ∨ pk = some v),
    openBlocksT pts 0 blank ⟨rdr src k p p e pk (-1), d :: rest, pc⟩ =
      .ok (.newBlocksOpened,
        ⟨rdr src k p p e (some v) 0,
          { d with children := d.children ++ [rest.length + 1] } ::
            (rest ++ [headN level [sg (p + level + 1) (e - 1)] blank]),
          { pc with blockOffset := 0, blockIndent := 0, opened := [{ node := rest.length + 1, bp := .atx }] }⟩)

section run4
variable {src : Bytes}

/-- one block: from a block boundary to behind the block's last line (and the blank line that follows, if any) -/
theorem step4 (HA : AtxOpens) (g : Nat) (blk : RawBlock) (q : Nat) (k : Int) (f : Nat) (bl : List LineStat)
    (d : Blocks.Node) (cs : List Blocks.Node) (pc : Ctx)
    (hbl : BlanksAt src q g) (hpa : ParaAt src (q + g) (lines4 blk)) (hgood : Good4 blk)
    (haft : After src (q + g + (paraBytes (lines4 blk)).length)) (hf : (lines4 blk).length + 1 ≤ f) (hop : pc.opened = []) :
    ∃ ret bl' s1 bk,
      blocksLoopT pts 0 (f + 1) bl ⟨rdr src k q q (lineEnd src q) none (-1), d :: cs, pc⟩ =
        (if ret = true then pure () else blocksLoopT pts 0 f bl') s1 ∧
      s1.nodes = { d with children := d.children ++ [cs.length + 1] } :: (cs ++ [node4 (q + g) blk bk]) ∧
      s1.pc.opened = [] ∧ s1.pc.refs = pc.refs ∧
      ((ret = true ∧ q + g + (paraBytes (lines4 blk)).length = src.length) ∨
       (ret = false ∧ Ln src (q + g + (paraBytes (lines4 blk)).length) (q + g + (paraBytes (lines4 blk)).length + 1) [10] ∧
          ∃ k', s1.r = rdr src k' (q + g + (paraBytes (lines4 blk)).length + 1) (q + g + (paraBytes (lines4 blk)).length + 1)
            (lineEnd src (q + g + (paraBytes (lines4 blk)).length + 1)) none (-1))) := by
  cases blk with
  | para ls =>
    obtain ⟨hne, hbk⟩ := hgood
    cases ls with
    | nil => exact absurd rfl hne
    | cons l0 more =>
      obtain ⟨hl0, hmore⟩ := hpa
      obtain ⟨c, t, hlc, hc⟩ := (hbk l0 (by simp)).first
      obtain ⟨_, _, _, hsp, _, _⟩ := letter_facts c hc
      have hv : l0 ++ [10] = c :: (t ++ [10]) := by rw [hlc]; rfl
      have hnb : isBlank (l0 ++ [10]) = false := by rw [hv]; simp [isBlank, hsp]
      have e0 : q + g + (paraBytes [l0]).length = q + g + l0.length + 1 := by simp [paraBytes]; omega
      have hfl : more.length + 2 ≤ f := by simp [lines4] at hf; omega
      have hall : ∀ l ∈ [l0] ++ more, BlkLine l := by simpa using hbk
      have key : ∀ (BL : List LineStat) (bk : Bool), ∃ ret bl' s1,
          linesLoopT pts 0 f BL
            ⟨rdr src (k + g + 1) (q + g + l0.length + 1) (q + g + l0.length + 1) (lineEnd src (q + g + l0.length + 1)) none (-1),
              { d with children := d.children ++ [cs.length + 1] } :: (cs ++ [paraN [sg (q + g) (q + g + l0.length + 1)] bk]),
              { pc with blockOffset := 0, blockIndent := 0, opened := [{ node := cs.length + 1, bp := .paragraph }] }⟩ =
            .ok ((ret, bl'), s1) ∧
          s1.nodes = { d with children := d.children ++ [cs.length + 1] } :: (cs ++ [paraN (paraSegs (q + g) (l0 :: more)) bk]) ∧
          s1.pc.opened = [] ∧ s1.pc.refs = pc.refs ∧
          ((ret = true ∧ q + g + (paraBytes (l0 :: more)).length = src.length) ∨
           (ret = false ∧ Ln src (q + g + (paraBytes (l0 :: more)).length) (q + g + (paraBytes (l0 :: more)).length + 1) [10] ∧
              ∃ k', s1.r = rdr src k' (q + g + (paraBytes (l0 :: more)).length + 1) (q + g + (paraBytes (l0 :: more)).length + 1)
                (lineEnd src (q + g + (paraBytes (l0 :: more)).length + 1)) none (-1))) := by
        intro BL bk
        obtain ⟨ret, bl', s1, h1, h2, h3, h4, h5⟩ :=
          linesLoop_para (src := src) { d with children := d.children ++ [cs.length + 1] } cs bk (q + g) more [l0]
            (k + g + 1) f BL
            { pc with blockOffset := 0, blockIndent := 0, opened := [{ node := cs.length + 1, bp := .paragraph }] }
            (by simp) ⟨hl0, trivial⟩ (by rw [e0]; exact hmore) hall haft hfl rfl
        rw [e0] at h1
        exact ⟨ret, bl', s1, h1, h2, h3, h4, h5⟩
      rw [blocksLoopT]
      simp only [bind_apply, skipR_text k hbl hl0 hnb, Bool.not_true, Bool.false_eq_true, if_false, position_run,
        getPc_run, hop, List.length_nil, rdr_line, blankStats,
        openBlocks_line hl0 hv hc pts _ d cs pc hop _ (some (l0 ++ [10])) (Or.inr rfl)]
      generalize (if ((g : Int) != 0) = true then [] else bl) = BL
      generalize isBlankLine (k + (g : Int) - 1) 0 BL = bk
      simp only [bne_self_eq_false, Bool.false_eq_true, if_false, bind_apply, advanceLine_run]
      obtain ⟨ret, bl', s1, h1, h2, h3, h4, h5⟩ := key BL bk
      refine ⟨ret, bl', s1, bk, ?_, h2, h3, h4, h5⟩
      simp only [h1]
  | atx level l =>
    obtain ⟨h1l, h6l, hbl', hlast⟩ := hgood
    obtain ⟨hl0, _⟩ := hpa
    have hv : (List.replicate level 35 ++ 32 :: l) ++ [10] = List.replicate level 35 ++ 32 :: (l ++ [10]) := by simp
    have hnb : isBlank ((List.replicate level 35 ++ 32 :: l) ++ [10]) = false := by
      obtain ⟨m, rfl⟩ : ∃ m, level = m + 1 := ⟨level - 1, by omega⟩
      simp only [List.replicate_succ, List.cons_append, isBlank, List.all_cons]
      have : isSpace 35 = false := by decide
      simp [this]
    have elen : (List.replicate level 35 ++ 32 :: l).length = level + 1 + l.length := by simp; omega
    have e0 : q + g + (paraBytes (lines4 (.atx level l))).length = q + g + (level + 1 + l.length) + 1 := by
      simp [paraBytes, lines4]; omega
    rw [elen] at hl0
    rw [blocksLoopT]
    simp only [bind_apply, skipR_text k hbl hl0 hnb, Bool.not_true, Bool.false_eq_true, if_false,
      position_run, getPc_run, hop, List.length_nil, rdr_line, blankStats,
      HA hl0 level l hv h1l h6l hbl' hlast pts _ d cs pc hop _ _ (Or.inr rfl)]
    generalize (if ((g : Int) != 0) = true then [] else bl) = BL
    generalize isBlankLine (k + (g : Int) - 1) 0 BL = bk
    simp only [bne_self_eq_false, Bool.false_eq_true, if_false, bind_apply, advanceLine_run]
    rw [e0] at haft ⊢
    obtain ⟨ret, bl', s1, h1, h2, h3, h4, h5⟩ :=
      linesLoop_leaf (src := src) .atx (Or.inl rfl) { d with children := d.children ++ [cs.length + 1] } cs
        (headN level [sg (q + g + level + 1) (q + g + (level + 1 + l.length) + 1 - 1)] bk) (by simp [headN]) rfl
        (q + g + (level + 1 + l.length) + 1) (k + g + 1) f BL
        { pc with blockOffset := 0, blockIndent := 0, opened := [{ node := cs.length + 1, bp := .atx }] }
        haft (by simp [lines4] at hf; omega) rfl
    have en : node4 (q + g) (.atx level l) bk =
        headN level [sg (q + g + level + 1) (q + g + (level + 1 + l.length) + 1 - 1)] bk := by
      simp only [node4]
      congr 3 <;> omega
    refine ⟨ret, bl', s1, bk, ?_, by rw [en]; exact h2, h3, h4, h5⟩
    simp only [h1]
  | hr h =>
    obtain ⟨ch, n, hch, hh⟩ := hgood
    obtain ⟨hl0, _⟩ := hpa
    have hv : h ++ [10] = List.replicate (n + 3) ch ++ [10] := by rw [hh]
    have hnb : isBlank (h ++ [10]) = false := by
      have : isSpace ch = false := by rcases hch with h' | h' | h' <;> subst h' <;> decide
      rw [hh]; simp [List.replicate_succ, isBlank, this]
    have e0 : q + g + (paraBytes (lines4 (.hr h))).length = q + g + h.length + 1 := by
      simp [paraBytes, lines4]; omega
    rw [blocksLoopT]
    simp only [bind_apply, skipR_text k hbl hl0 hnb, Bool.not_true, Bool.false_eq_true, if_false,
      position_run, getPc_run, hop, List.length_nil, rdr_line, blankStats,
      openBlocks_hr hl0 ch hch n hv pts _ d cs pc hop _ _ (Or.inr rfl)]
    generalize (if ((g : Int) != 0) = true then [] else bl) = BL
    generalize isBlankLine (k + (g : Int) - 1) 0 BL = bk
    simp only [bne_self_eq_false, Bool.false_eq_true, if_false, bind_apply, advanceLine_run]
    rw [e0] at haft ⊢
    obtain ⟨ret, bl', s1, h1, h2, h3, h4, h5⟩ :=
      linesLoop_leaf (src := src) .thematic (Or.inr rfl) { d with children := d.children ++ [cs.length + 1] } cs
        (hrN bk) (by simp [hrN]) rfl
        (q + g + h.length + 1) (k + g + 1) f BL
        { pc with blockOffset := 0, blockIndent := 0, opened := [{ node := cs.length + 1, bp := .thematic }] }
        haft (by simp [lines4] at hf; omega) rfl
    refine ⟨ret, bl', s1, bk, ?_, h2, h3, h4, h5⟩
    simp only [h1]

theorem lines4_ne (blk : RawBlock) (h : Good4 blk) : lines4 blk ≠ [] := by
  cases blk with
  | para ls => exact h.1
  | atx level l => simp [lines4]
  | hr h' => simp [lines4]

/-- the outer loop of parseBlocks over a stage-4 document -/
theorem blocksLoop_doc4 (HA : AtxOpens) : ∀ (items : List (Nat × RawBlock)) (trail q : Nat) (k : Int) (fuel : Nat)
    (bl : List LineStat) (d : Blocks.Node) (cs : List Blocks.Node) (pc : Ctx),
    DocAt src q (items.map conv4) trail → (∀ it ∈ items, Good4 it.2) → cost (items.map conv4) + 1 ≤ fuel →
    pc.opened = [] →
    ∃ s' bs, blocksLoopT pts 0 fuel bl ⟨rdr src k q q (lineEnd src q) none (-1), d :: cs, pc⟩ = .ok ((), s') ∧
      bs.length = items.length ∧
      s'.nodes = addKids d cs.length items.length ::
        (cs ++ mkNodes4 (closedOf q (items.map conv4)) (items.map (·.2)) bs) ∧ s'.pc.refs = pc.refs
  | [], trail, q, k, fuel, bl, d, cs, pc, hd, _, hf, hop => by
    obtain ⟨f, rfl⟩ : ∃ f, fuel = f + 1 := ⟨fuel - 1, by omega⟩
    obtain ⟨r', hs⟩ := skipR_eof k hd.1 hd.2 (d :: cs) pc
    refine ⟨⟨r', d :: cs, pc⟩, [], ?_, rfl, ?_, rfl⟩
    · rw [blocksLoopT]
      simp only [bind_apply, hs]
      simp [pure_apply]
    · simp [addKids_zero, mkNodes4, closedOf]
  | (g, blk) :: rest, trail, q, k, fuel, bl, d, cs, pc, hd, hgood, hf, hop => by
    obtain ⟨f, rfl⟩ : ∃ f, fuel = f + 1 := ⟨fuel - 1, by omega⟩
    have hd' : DocAt src q ((g, lines4 blk) :: rest.map conv4) trail := hd
    obtain ⟨hbl, hpa, htail⟩ := hd'
    have hg : Good4 blk := hgood (g, blk) (by simp)
    have haft : After src (q + g + (paraBytes (lines4 blk)).length) := by
      rcases htail with h | h
      · exact Or.inl h.2.2
      · exact Or.inr h.1
    have hfl : (lines4 blk).length + 1 ≤ f := by
      simp only [List.map_cons, conv4, cost] at hf; omega
    obtain ⟨ret, bl', s1, bk, e1, h2, h3, h4, h5⟩ :=
      step4 HA g blk q k f bl d cs pc hbl hpa hg haft hfl hop
    rw [e1]
    rcases h5 with ⟨hr, hq⟩ | ⟨hr, hln, k', hk'⟩
    · subst hr
      have hrest : rest = [] := by
        rcases htail with h | h
        · simpa using h.1
        · have := h.1.le; omega
      subst hrest
      refine ⟨s1, [bk], ?_, rfl, ?_, h4⟩
      · simp [pure_apply]
      · rw [h2]; simp [addKids, mkNodes4, closedOf, conv4]
    · subst hr
      have step : ∀ trail', DocAt src (q + g + (paraBytes (lines4 blk)).length + 1) (rest.map conv4) trail' →
          ∃ s' bs, (if false = true then pure () else blocksLoopT pts 0 f bl') s1 = .ok ((), s') ∧
            bs.length = ((g, blk) :: rest).length ∧
            s'.nodes = addKids d cs.length ((g, blk) :: rest).length ::
              (cs ++ mkNodes4 (closedOf q (((g, blk) :: rest).map conv4)) (((g, blk) :: rest).map (·.2)) bs) ∧
            s'.pc.refs = pc.refs := by
        intro trail' hdt
        have es1 : s1 = ⟨rdr src k' (q + g + (paraBytes (lines4 blk)).length + 1)
            (q + g + (paraBytes (lines4 blk)).length + 1)
            (lineEnd src (q + g + (paraBytes (lines4 blk)).length + 1)) none (-1),
            { d with children := d.children ++ [cs.length + 1] } :: (cs ++ [node4 (q + g) blk bk]), s1.pc⟩ := by
          cases s1; simp only at hk' h2 ⊢; rw [hk', h2]
        obtain ⟨s', bs, i1, i2, i3, i4⟩ :=
          blocksLoop_doc4 HA rest trail' (q + g + (paraBytes (lines4 blk)).length + 1) k' f bl'
            { d with children := d.children ++ [cs.length + 1] } (cs ++ [node4 (q + g) blk bk])
            s1.pc hdt (fun it hit => hgood it (by simp [hit])) (by simp only [List.map_cons, conv4, cost] at hf ⊢; omega) h3
        refine ⟨s', bk :: bs, ?_, by simp [i2], ?_, by rw [i4, h4]⟩
        · rw [es1]; simpa using i1
        · rw [i3]
          simp [addKids, mkNodes4, closedOf, conv4, List.range'_succ]
      rcases htail with h | h
      · exfalso; have := hln.le; omega
      · rcases h.2 with ⟨_, t, _, hdt⟩ | ⟨_, hdt⟩
        · exact step t hdt
        · exact step trail hdt

/-- the block phase on a stage-4 document -/
theorem runT_doc4 (HA : AtxOpens) (items : List (Nat × RawBlock)) (trail : Nat) (hgood : ∀ it ∈ items, Good4 it.2)
    (hno : ∀ it ∈ items.map conv4, ∀ l ∈ it.2, ∀ c ∈ l, c ≠ 10) :
    ∃ s' bs, runT pts (rawDoc (items.map conv4) trail) = .ok s' ∧ bs.length = items.length ∧
      s'.nodes = addKids { kind := .document } 0 items.length ::
        mkNodes4 (closedOf 0 (items.map conv4)) (items.map (·.2)) bs ∧ s'.pc.refs = [] := by
  have hd := docAt_raw (items.map conv4) trail [] hno
  simp only [List.nil_append, List.length_nil] at hd
  have hc := cost_le_nl (items.map conv4) trail hno
  have hf : cost (items.map conv4) + 1 ≤ linesFuel (rawDoc (items.map conv4) trail) := by
    simp only [linesFuel, lineCount]
    have : nl (rawDoc (items.map conv4) trail) =
      (List.filter (fun x => x == 10) (rawDoc (items.map conv4) trail)).length := rfl
    omega
  obtain ⟨s', bs, h1, h2, h3, h4⟩ :=
    blocksLoop_doc4 (src := rawDoc (items.map conv4) trail) HA items trail 0 0
      (linesFuel (rawDoc (items.map conv4) trail)) [] { kind := .document } [] ({ } : Ctx) hd hgood hf rfl
  refine ⟨s', bs, ?_, h2, by simpa using h3, h4⟩
  unfold runT parseBlocksT
  simp only [bind_apply, modPc_run, source_run, initSt, reader_new, rdr_source]
  simp only [h1]
  rfl
end run4

end GM.Proof.CMFrag
