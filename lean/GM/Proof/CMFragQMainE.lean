/-
  GM.Proof.CMFragQMainE — stage 10 for stage-7 documents: a stage-6 document WITHOUT the line feed of its last line,
  inside one block quote (`"> "` in front of every line). The development of GM.Proof.CMFragQMain with the last block
  lying in the source as `ParaAtE` (GM.Proof.CMFrag7Main).
-/
import GM.Proof.CMFragQMain
import GM.Proof.CMFrag7Main

namespace GM.Proof.CMFrag
open GM GM.Text GM.Blocks GM.Spec

/-- `docTree` on the node of the prefixed run that is related to the closed node of the LAST block `b` (its last line
    ends the source) -/
theorem docTree_blockQE {S : Bytes} (env : GM.Inl.Env) (henv : env.escapedSpace = false) (b : Raw5) (p : Nat)
    (bk : Bool) (hg : Good5' b) (hnic : isIcB b = false) (h : ParaAtE S p (lines5 b)) (m' : Blocks.Node)
    (hr : NodeRel S false (node5 p b bk) m') :
    GM.Convert.docTree true env (quotePrefix S) (.node m' []) = .ok (rawNode5 b) := by
  have hk := hr.kind
  have hlv := hr.level
  have hli := hr.lines
  have hin := hr.info
  simp only [Bool.false_eq_true, if_false] at hk
  cases b with
  | icode ls => exact absurd hnic (by simp [isIcB])
  | old b' =>
    cases b' with
    | hr x =>
      simp only [node5, node4, hrN] at hk hli
      have hl := segsRel_nil hli
      simp only [GM.Convert.docTree, GM.Convert.docTrees, GM.Convert.inlinePhase, hk, hl, GM.Convert.isRawKind,
        GM.Convert.inlineTrees, GM.Convert.liftErr, GM.Convert.blockKind, List.isEmpty_nil, bind, Except.bind, pure,
        Except.pure, rawNode5, rawNode]
      simp [GM.Convert.inlineTrees, pure, Except.pure]
    | para ls =>
      simp only [node5, node4, paraN] at hk hli
      have hpa : ParaAtE S p ls := by simpa [lines5, lines4] using h
      obtain ⟨ps, hL, hG⟩ := segsRel_paraQ ls p m'.lines (linesAtE_of_paraAtE ls p hpa)
        (fun l hl => (hg.2 l hl).ne) hli
      have hpb := parseBlock_linesG env henv (quotePrefix S) ps ls hg.1 hg.2 hG
      have hw := wf0B_linesG ps ls hg.1 hG (fun l hl => (hg.2 l hl).ne)
      have hit := inlineTrees_linesG ps ls hG
      have hle : (paraSegsG ps ls).isEmpty = false := by
        cases hs : paraSegsG ps ls with
        | nil => rw [hs] at hw; simp [GM.LinkRef.wf0B, GM.LinkRef.wfSegsB] at hw
        | cons _ _ => rfl
      simp only [GM.Convert.docTree, GM.Convert.docTrees, GM.Convert.inlinePhase, hk, hL, GM.Convert.isRawKind, hle, hw,
        hpb, GM.Convert.liftErr, GM.Convert.blockKind, bind, Except.bind, pure, Except.pure, rawNode5, rawNode, paraNode]
      simp [hit]
    | atx level l =>
      obtain ⟨h1, h6, hgl, _⟩ := hg
      simp only [node5, node4, headN] at hk hli hlv
      obtain ⟨hln, heof⟩ : Ln S p (p + (List.replicate level 35 ++ 32 :: l).length)
          (List.replicate level 35 ++ 32 :: l) ∧ p + (List.replicate level 35 ++ 32 :: l).length = S.length := by
        simpa [lines5, lines4, ParaAtE] using h
      have hsub : sub S (p + level + 1) (p + (List.replicate level 35 ++ 32 :: l).length) = l := by
        have := sub_drop_prefix S p (p + (List.replicate level 35 ++ 32 :: l).length) (List.replicate level 35 ++ [32]) l
          (by rw [hln.sub]; simp) (by simp)
        simpa [Nat.add_assoc] using this
      have hE : p + (List.replicate level 35 ++ 32 :: l).length = p + level + 1 + l.length := by simp; omega
      rw [hE] at hsub
      have hle := hln.le
      obtain ⟨A, hL, hG⟩ := segsRel_oneQ (p + level + 1) l m'.lines hgl.ne hsub (by omega) hli
      have hpb := parseBlock_linesG env henv (quotePrefix S) [A] [l] (by simp) (by simpa using hgl) hG
      have hw := wf0B_linesG [A] [l] (by simp) hG (by simpa using hgl.ne)
      have hit := inlineTrees_linesG [A] [l] hG
      have hle' : (paraSegsG [A] [l]).isEmpty = false := rfl
      simp only [GM.Convert.docTree, GM.Convert.docTrees, GM.Convert.inlinePhase, hk, hL, GM.Convert.isRawKind, hle', hw,
        hpb, GM.Convert.liftErr, GM.Convert.blockKind, hlv, bind, Except.bind, pure, Except.pure, rawNode5, rawNode]
      simp [hit, textNodes]
  | fence fc n info ls =>
    have hS := docTree_block7 env henv (.fence fc n info ls) p bk hg rfl h
    have hE' : ParaAtE S p (((List.replicate (n + 3) fc ++ info) :: ls) ++ [List.replicate (n + 3) fc]) := by
      simpa [lines5] using h
    obtain ⟨hpa, _⟩ := (paraAtE_snoc _ _ p).mp hE'
    obtain ⟨hl0, hrest⟩ := hpa
    have elen : (List.replicate (n + 3) fc ++ info).length = n + 3 + info.length := by simp
    rw [elen] at hl0 hrest
    have e1 : p + n + 3 + info.length + 1 = p + (n + 3 + info.length) + 1 := by omega
    simp only [node5, fenceN] at hk hli hin
    have hshape := csegs_shape ls [] (p + (n + 3 + info.length) + 1) (by simpa using hrest)
    rw [← e1] at hshape
    have hvals := segsRel_valuesQ _ _ hli hshape
    have hle := hl0.le
    by_cases hi : info = []
    · subst hi
      simp only [List.isEmpty_nil, if_true] at hin
      have hinfo : m'.info = none := by
        cases hx : m'.info with
        | none => rfl
        | some s => rw [hx] at hin; exact hin.elim
      simp only [node5, fenceN, GM.Convert.docTree, GM.Convert.docTrees, GM.Convert.inlinePhase, GM.Convert.isRawKind,
        GM.Convert.inlineTrees, GM.Convert.liftErr, GM.Convert.blockKind, List.isEmpty_nil, if_true,
        bind, Except.bind, pure, Except.pure] at hS
      simp only [GM.Convert.docTree, GM.Convert.docTrees, GM.Convert.inlinePhase, hk, GM.Convert.isRawKind,
        GM.Convert.inlineTrees, GM.Convert.liftErr, GM.Convert.blockKind, hinfo, hvals,
        bind, Except.bind, pure, Except.pure]
      exact hS
    · have hie : info.isEmpty = false := by cases info with
        | nil => exact absurd rfl hi
        | cons a t => rfl
      simp only [hie, Bool.false_eq_true, if_false] at hin
      obtain ⟨t, hinfo, hrel⟩ : ∃ t, m'.info = some t ∧ SegRel S (sg (p + n + 3) (p + n + 3 + info.length)) t := by
        cases hx : m'.info with
        | none => rw [hx] at hin; exact hin.elim
        | some s => rw [hx] at hin; exact ⟨s, rfl, hin⟩
      have hval := segRel_valueQ_sg hrel (by
        have : 0 < info.length := by cases info with
          | nil => exact absurd rfl hi
          | cons a t => simp
        omega) (by omega)
      simp only [node5, fenceN, GM.Convert.docTree, GM.Convert.docTrees, GM.Convert.inlinePhase, GM.Convert.isRawKind,
        GM.Convert.inlineTrees, GM.Convert.liftErr, GM.Convert.blockKind, hie, Bool.false_eq_true, if_false,
        bind, Except.bind, pure, Except.pure] at hS
      simp only [GM.Convert.docTree, GM.Convert.docTrees, GM.Convert.inlinePhase, hk, GM.Convert.isRawKind,
        GM.Convert.inlineTrees, GM.Convert.liftErr, GM.Convert.blockKind, hinfo, hvals, hval,
        bind, Except.bind, pure, Except.pure]
      exact hS

/-- the children of the Blockquote, for a document without final line feed -/
theorem docTrees_quoteQE {S : Bytes} (env : GM.Inl.Env) (henv : env.escapedSpace = false) :
    ∀ (items : List (Nat × Raw5)) (trail q : Nat) (bs : List Bool) (kidsB : List Blocks.Node),
      DocAt6E S q items trail → (∀ it ∈ items, Good5' it.2) → (∀ it ∈ items, isIcB it.2 = false) →
      bs.length = items.length →
      RelL (NodeRel S false) (mkNodes5 (closedOf6 q items) (items.map (·.2)) bs) kidsB →
      GM.Convert.docTrees true env (quotePrefix S) (kidsB.map (fun n => Tree.node n [])) =
        .ok ((items.map (·.2)).map rawNode5)
  | [], _, _, _, _, h, _, _, _, _ => h.elim
  | _ :: _, _, _, [], _, _, _, _, hl, _ => by simp at hl
  | [(s, b)], trail, q, bk :: bs, kidsB, h, hg, hni, hl, hr => by
    obtain ⟨_, _, hE⟩ := h
    cases kidsB with
    | nil => simp [closedOf6, mkNodes5, RelL] at hr
    | cons m' kidsB' =>
      simp only [closedOf6, List.map_cons, List.map_nil, mkNodes5, RelL] at hr
      cases kidsB' with
      | cons _ _ =>
        have := hr.2
        cases bs <;> simp [mkNodes5, RelL] at this
      | nil =>
        simp only [List.map_cons, List.map_nil, GM.Convert.docTrees,
          docTree_blockQE env henv b (q + s) bk (hg (s, b) (by simp)) (hni (s, b) (by simp)) hE m' hr.1, bind, Except.bind, pure, Except.pure]
  | (s, b) :: it :: rest, trail, q, bk :: bs, kidsB, h, hg, hni, hl, hr => by
    obtain ⟨_, hpa, hdr⟩ := h
    have hle := docAt6E_le (it :: rest) trail _ hdr
    cases kidsB with
    | nil => simp [closedOf6, mkNodes5, RelL] at hr
    | cons m' kidsB' =>
      simp only [closedOf6, List.map_cons, mkNodes5, RelL] at hr
      have ih := docTrees_quoteQE env henv (it :: rest) trail _ bs kidsB' hdr (fun x hx => hg x (by simp [hx]))
        (fun x hx => hni x (by simp [hx])) (by simpa using hl) (by simpa only [closedOf6, List.map_cons] using hr.2)
      simp only [List.map_cons, GM.Convert.docTrees,
        docTree_blockQ env henv b (q + s) bk (hg (s, b) (by simp)) (hni (s, b) (by simp)) hpa (by omega) m' hr.1, bind, Except.bind,
        pure, Except.pure]
      simp only [List.map_cons] at ih
      rw [ih]

/-- **the model of `goldmark.Convert` on a stage-6 document without its final line feed, put into a block quote** —
    for a source in `C08ClassL` and without `[`, given `BPFree` -/
theorem convert_quote7QE (H : BPFree) (uc : List (Nat × (Bool × Bool))) (items : List (Nat × Raw5)) (hne : items ≠ [])
    (hgood : ∀ it ∈ items, Good5' it.2) (hseps : SepsOK6 none items) (hnoic : ∀ it ∈ items, isIcB it.2 = false)
    (hclass : C08ClassL (rawDoc6E items)) (hnb : ∀ b ∈ rawDoc6E items, b ≠ 91) :
    GM.Convert.convertCore uc cmOpts (quotePrefix (rawDoc6E items)) =
      .ok (strBytes "<blockquote>\n" ++ hdocHtml (items.map (·.2)) ++ strBytes "</blockquote>\n") := by
  have hno : ∀ it ∈ items, lines5 it.2 ≠ [] ∧ (∀ l, (lines5 it.2).getLast? = some l → l ≠ []) ∧
      ∀ l ∈ lines5 it.2, ∀ c ∈ l, c ≠ 10 :=
    fun it hit => ⟨lines5_ne it.2 (good5_of it.2 (hgood it hit)), lastLine_ne it.2 (hgood it hit),
      lines5_no_nl it.2 (hgood it hit)⟩
  obtain ⟨s', bs, h1, h2, h3, h4⟩ := runT_doc7 atxOpenE_holds hrOpenE_holds fenceCloseE_holds items hne
    (fun it hit => good5_of it.2 (hgood it hit)) hseps (icOK6_of_none _ false hnoic) hno
  rw [mkNodes5L_congr node5E node5 _ _ _ (fun b hb p bk => node5E_of_notIc b
      (lastNotIc_getLast items (lastNotIc_of_none _ hnoic) b hb) p bk), mkNodes5L_node5] at h3
  have hrunT : GM.Convert.blockPhase true (rawDoc6E items) = .ok s' := h1
  have hA : GM.Blocks.run (rawDoc6E items) = .ok s' := by rw [← H _ hnb]; exact hrunT
  obtain ⟨sB, hB, hrel, _⟩ := run_sim hclass hA
  have hBP : GM.Convert.blockPhase true (quotePrefix (rawDoc6E items)) = .ok sB := by
    rw [H _ (noBracket_quotePrefix _ hnb)]; exact hB
  have hd := docAt6E_raw items [] hne hno
  simp only [List.nil_append, List.length_nil] at hd
  have hlen : (closedOf6 0 items).length = items.length := closedOf6_length items 0
  have hml := mkNodes5_length (closedOf6 0 items) (items.map (·.2)) bs (by simp [hlen]) (by rw [hlen]; exact h2)
  rw [h3] at hrel
  obtain ⟨bq, kidsB, htree, hbk, hbl, hkids⟩ := treeOf_quoteQ (addKids { kind := .document } 0 items.length)
    (mkNodes5 (closedOf6 0 items) (items.map (·.2)) bs) sB.nodes items.length (by simp [addKids]) rfl
    (by rw [hml, hlen]) (mkNodes5_children _ _ _) hrel
  have hdt := docTrees_quoteQE (S := rawDoc6E items) { refs := sB.pc.refs, uc := uc } rfl
    items 0 0 bs kidsB hd hgood hnoic h2 hkids
  have hlev : ∀ b ∈ items.map (·.2), ∀ level l, b = Raw5.old (RawBlock.atx level l) → level ≤ 6 := by
    intro b hb level l he
    obtain ⟨it, hit, rfl⟩ := List.mem_map.mp hb
    have := hgood it hit
    rw [he] at this
    exact this.2.1
  unfold GM.Convert.convertCore GM.Convert.convertWith GM.Convert.parseDoc
  simp only [hBP, GM.Convert.liftErr, bind, Except.bind, htree, GM.Convert.docTree, GM.Convert.docTrees, hdt,
    GM.Convert.inlinePhase, hbk, hbl, GM.Convert.isRawKind, GM.Convert.blockKind, List.isEmpty_nil, pure, Except.pure]
  have hit0 : GM.Convert.inlineTrees (quotePrefix (rawDoc6E items)) [] = .ok [] := rfl
  have := renderDoc_quoteQ (items.map (·.2)) hlev
  simpa [hit0] using this

/-! ### the fragment level: the class facts for a source without final line feed -/

open GM.Spec.CM GM.Spec.CMFrag

theorem getLast_appendQE {α : Type} (a b : List α) (c : α) (h : b.getLast? = some c) :
    (a ++ b).getLast? = some c := by
  rw [List.getLast?_append, h]; rfl

theorem getLast_someQE {α : Type} (l : List α) (h : l ≠ []) : ∃ z, l.getLast? = some z := by
  cases hl : l.getLast? with
  | none => exact absurd (List.getLast?_eq_none_iff.mp hl) h
  | some z => exact ⟨z, rfl⟩

theorem not32_of_noSpaceQE : ∀ c : UInt8, isSpace c = false → c ≠ 32 := GM.forall_uint8 _ (by decide +kernel)

/-- the last byte of the last line of a good block is not a space -/
theorem lastLine_noSpaceQE (b : Raw5) (h : Good5' b) (hnic : isIcB b = false) :
    ∀ l, (lines5 b).getLast? = some l → ∀ c, l.getLast? = some c → c ≠ 32 := by
  cases b with
  | icode ls => exact absurd hnic (by simp [isIcB])
  | old b' =>
    cases b' with
    | para ls =>
      intro l hl c hc
      exact not32_of_noSpaceQE c ((h.2 l (List.mem_of_getLast? hl)).lastNoSpace c hc)
    | atx level l =>
      obtain ⟨_, _, hgl, _⟩ := h
      intro x hx c hc
      simp only [lines5, lines4, List.getLast?_singleton, Option.some.injEq] at hx
      subst hx
      obtain ⟨z, hz⟩ := getLast_someQE l hgl.ne
      have e : List.replicate level 35 ++ 32 :: l = (List.replicate level 35 ++ [32]) ++ l := by simp
      rw [e, getLast_appendQE _ _ z hz] at hc
      rw [← Option.some.inj hc]
      exact not32_of_noSpaceQE z (hgl.lastNoSpace z hz)
    | hr x =>
      obtain ⟨ch, n, hch, rfl⟩ := h
      intro l hl c hc
      simp only [lines5, lines4, List.getLast?_singleton, Option.some.injEq] at hl
      subst hl
      rw [List.getLast?_replicate, if_neg (by omega)] at hc
      rw [← Option.some.inj hc]
      rcases hch with rfl | rfl | rfl <;> decide
  | fence fc n info ls =>
    intro l hl c hc
    have : (lines5 (.fence fc n info ls)).getLast? = some (List.replicate (n + 3) fc) := by
      simp only [lines5]
      rw [List.getLast?_cons, List.getLast?_append]
      simp
    rw [this] at hl
    cases hl
    rw [List.getLast?_replicate, if_neg (by omega)] at hc
    rw [← Option.some.inj hc]
    rcases h.1 with rfl | rfl <;> decide

theorem paraBytesE_lastQE : ∀ (ls : List Bytes) (l : Bytes) (c : UInt8), ls.getLast? = some l → l.getLast? = some c →
    (paraBytesE ls).getLast? = some c
  | [], _, _, h, _ => by simp at h
  | [x], l, c, h, hc => by
    simp only [List.getLast?_singleton, Option.some.injEq] at h
    subst h
    exact hc
  | x :: y :: rest, l, c, h, hc => by
    have ih := paraBytesE_lastQE (y :: rest) l c (by rwa [List.getLast?_cons_cons] at h) hc
    show (x ++ [10] ++ paraBytesE (y :: rest)).getLast? = some c
    exact getLast_appendQE _ _ c ih

/-- the last byte of the source of a stage-7 document of good blocks: not a space -/
theorem rawDoc6E_lastQE : ∀ (items : List (Nat × Raw5)), items ≠ [] → (∀ it ∈ items, Good5' it.2) →
    (∀ it ∈ items, isIcB it.2 = false) → ∃ c, (rawDoc6E items).getLast? = some c ∧ c ≠ 32
  | [], h, _, _ => absurd rfl h
  | [(s, b)], _, hg, hni => by
    have hgb := hg (s, b) (by simp)
    obtain ⟨l, hl⟩ := getLast_someQE (lines5 b) (lines5_ne b (good5_of b hgb))
    obtain ⟨c, hc⟩ := getLast_someQE l (lastLine_ne b hgb l hl)
    refine ⟨c, ?_, lastLine_noSpaceQE b hgb (hni (s, b) (by simp)) l hl c hc⟩
    show (blanks s ++ paraBytesE (lines5 b)).getLast? = some c
    exact getLast_appendQE _ _ c (paraBytesE_lastQE (lines5 b) l c hl hc)
  | (s, b) :: it :: rest, _, hg, hni => by
    obtain ⟨c, hc, h32⟩ := rawDoc6E_lastQE (it :: rest) (by simp) (fun x hx => hg x (by simp [hx]))
      (fun x hx => hni x (by simp [hx]))
    refine ⟨c, ?_, h32⟩
    show (blanks s ++ (paraBytes (lines5 b) ++ rawDoc6E (it :: rest))).getLast? = some c
    exact getLast_appendQE _ _ c (getLast_appendQE _ _ c hc)

theorem qfragE_partsQE (d : KDoc) (h : QFragE d) : KFragE d ∧ ∀ c ∈ spellK d, qcleanByte c = true := by
  have := h
  simp only [QFragE, qfragEB, Bool.and_eq_true, List.all_eq_true] at this
  exact ⟨this.1, this.2⟩

theorem kfragE_partsQE (d : KDoc) (h : KFragE d) :
    (∀ it ∈ d.items, hblockOK it.block = true) ∧ ksepsOK none d.items = true ∧ d.trail = 0 ∧ d.items ≠ [] := by
  have := h
  simp only [KFragE, kfragEB, kfragB, Bool.and_eq_true, List.all_eq_true, beq_iff_eq, Bool.not_eq_true',
    List.isEmpty_eq_false_iff] at this
  exact ⟨this.1.1.1, this.1.1.2, this.1.2, this.2⟩

theorem spellKE_rawQE (d : KDoc) (h : KFragE d) : spellKE d = rawDoc6E (d.items.map convK) := by
  obtain ⟨hok, _, ht, hne⟩ := kfragE_partsQE d h
  have hgood : ∀ it ∈ d.items.map convK, Good5' it.2 := by
    intro x hx
    obtain ⟨it, hit, rfl⟩ := List.mem_map.mp hx
    exact good5_rawOfH it.block (hok it hit)
  unfold spellKE
  rw [spellK_raw, ht, rawDoc6_dropLast _ (by simpa using hne)
    (fun it hit => lines5_ne it.2 (good5_of it.2 (hgood it hit)))]

theorem mem_spellKE_QE (d : KDoc) : ∀ c ∈ spellKE d, c ∈ spellK d := by
  intro c hc
  unfold spellKE at hc
  rw [List.dropLast_eq_take] at hc
  exact List.mem_of_mem_take hc

/-- the contents of a stage-10 document without final line feed are in the class `C08ClassL` of the simulation -/
theorem qcleanE_classQE (d : KDoc) (h : QFragE d) : GM.Blocks.C08ClassL (spellKE d) := by
  obtain ⟨hk, hc⟩ := qfragE_partsQE d h
  obtain ⟨hok, _, _, hne⟩ := kfragE_partsQE d hk
  have hgood : ∀ it ∈ d.items.map convK, Good5' it.2 := by
    intro x hx
    obtain ⟨it, hit, rfl⟩ := List.mem_map.mp hx
    exact good5_rawOfH it.block (hok it hit)
  obtain ⟨z, hz, h32⟩ := rawDoc6E_lastQE (d.items.map convK) (by simpa using hne) hgood (by
    intro x hx
    obtain ⟨it, _, rfl⟩ := List.mem_map.mp hx
    exact isIcB_rawOfH it.block)
  rw [← spellKE_rawQE d hk] at hz
  have hnl : GM.Blocks.NoListTrigger (spellKE d) :=
    fun c hcm => (qclean_facts c (hc c (mem_spellKE_QE d c hcm))).2.2.2
  exact
    { tf := fun c hcm => (qclean_facts c (hc c (mem_spellKE_QE d c hcm))).1
      cr := fun c hcm => (qclean_facts c (hc c (mem_spellKE_QE d c hcm))).2.1
      ne := by intro e; rw [e] at hz; cases hz
      last := fun c hl => by rw [hz] at hl; cases hl; exact h32
      noitem := GM.Blocks.noItem_of_noTrigger hnl }

theorem spellQE_eq (d : KDoc) : spellQE d = GM.Blocks.quotePrefix (spellKE d) := quoteLines_eq _

/-- **the conformance theorem of the stage-10 fragment without final line feed** (a stage-7 document inside one block
    quote), given `BPFree` -/
theorem fragmentQE_conforms (H : BPFree) (d : KDoc) (h : QFragE d) (uc : List (Nat × (Bool × Bool))) :
    GM.Convert.convertCore uc cmOpts (spellQE d) = .ok (expectedQ d) := by
  obtain ⟨hk, hc⟩ := qfragE_partsQE d h
  obtain ⟨hok, hseps, _, hne⟩ := kfragE_partsQE d hk
  have hcl := qcleanE_classQE d h
  have hnb : ∀ c ∈ spellKE d, c ≠ 91 :=
    fun c hcm => (qclean_facts c (hc c (mem_spellKE_QE d c hcm))).2.2.1
  have hgood : ∀ it ∈ d.items.map convK, Good5' it.2 := by
    intro x hx
    obtain ⟨it, hit, rfl⟩ := List.mem_map.mp hx
    exact good5_rawOfH it.block (hok it hit)
  rw [spellKE_rawQE d hk] at hcl hnb
  have hq := convert_quote7QE H uc (d.items.map convK) (by simpa using hne) hgood (sepsOK_of none d.items hseps) (by
    intro x hx
    obtain ⟨it, _, rfl⟩ := List.mem_map.mp hx
    exact isIcB_rawOfH it.block) hcl hnb
  rw [spellQE_eq, spellKE_rawQE d hk, hq]
  have he : expectedK d = hdocHtml ((d.items.map (·.block)).map rawOfH) := by
    rw [hdocHtml_spelled _ (by
      intro b hb
      obtain ⟨it, hit, rfl⟩ := List.mem_map.mp hb
      exact hok it hit)]
    simp [expectedK, List.flatMap_map]
  rw [expectedQ, he]
  simp [convK, List.map_map, Function.comp_def]

end GM.Proof.CMFrag
