/-
  GM.Proof.UrlBytes — which bytes util.URLEscape (model: urlEscapeLoop / urlCopies / urlEscapeRaw) can leave in
  its result: never a space or control byte (≤ 0x20, 0x7f), never `"`, `<`, `>`. Every branch of the loop is
  covered, including "input returned unchanged" (`urlCopies = false`).
-/
import GM.Model.Util

namespace GM.Proof
open GM

/-- a byte that a browser's URL parser does not strip and that cannot end a quoted attribute value -/
def plainUrlByte (c : UInt8) : Bool := c > 32 && c != 127 && c != 34 && c != 60 && c != 62

/-- no space, control, double-quote or angle-bracket byte anywhere -/
def plainUrl (b : Bytes) : Bool := b.all plainUrlByte

/-! ### byte facts (exhaustive kernel evaluation over the 256 bytes) -/

theorem urlSafe_plain : ∀ c : UInt8, urlSafe c = true → plainUrlByte c = true := by
  apply forall_uint8; decide +kernel

theorem qeByte_plain : ∀ c : UInt8, plainUrl (qeByte c) = true := by
  apply forall_uint8; decide +kernel

theorem isHex_plain : ∀ c : UInt8, isHex c = true → plainUrlByte c = true := by
  apply forall_uint8; decide +kernel

theorem badLead_plain : ∀ c : UInt8, utf8len c = 99 → plainUrlByte c = true := by
  apply forall_uint8; decide +kernel

theorem multi_plain : ∀ c : UInt8, 1 < utf8len c → plainUrlByte c = true := by
  apply forall_uint8; decide +kernel

theorem utf8len_pos : ∀ c : UInt8, 1 ≤ utf8len c := by
  apply forall_uint8; decide +kernel

theorem plainUrl_append (a b : Bytes) : plainUrl (a ++ b) = (plainUrl a && plainUrl b) := by
  simp [plainUrl]

theorem plainUrl_cons (c : UInt8) (b : Bytes) : plainUrl (c :: b) = (plainUrlByte c && plainUrl b) := by
  simp [plainUrl]

theorem queryEscape_plain (x : Bytes) : plainUrl (queryEscape x) = true := by
  induction x with
  | nil => rfl
  | cons c x ih =>
    have : queryEscape (c :: x) = qeByte c ++ queryEscape x := by simp [queryEscape]
    rw [this, plainUrl_append, qeByte_plain, ih]; rfl

theorem pctTriple_hex {c : UInt8} {cs : Bytes} {a b : UInt8} {rest : Bytes}
    (h : pctTriple c cs = some (a, b, rest)) : c = 37 ∧ isHex a = true ∧ isHex b = true := by
  unfold pctTriple at h
  split at h
  · rename_i hc
    split at h
    · split at h
      · rename_i hab
        simp only [Bool.and_eq_true] at hab
        cases h
        exact ⟨by simpa using hc, hab.1, hab.2⟩
      · cases h
    · cases h
  · cases h

/-! ### the loop's output -/

/-- whatever the loop writes is plain (spaces become `%20`, control bytes, `"`, `<`, `>`, 0x7f become `%XX`) -/
theorem loop_plain (total : Nat) (l : Bytes) : plainUrl (urlEscapeLoop total l) = true := by
  fun_induction urlEscapeLoop total l with
  | case1 => rfl
  | case2 c cs hs ih => rw [plainUrl_cons, urlSafe_plain c hs, ih]; rfl
  | case3 c cs hs a b rest h ih =>
    obtain ⟨hc, ha, hb⟩ := pctTriple_hex h
    subst hc
    simp only [plainUrl_cons, isHex_plain a ha, isHex_plain b hb, ih]; decide
  | case4 c cs hs h h99 ih =>
    rw [plainUrl_cons, badLead_plain c (by simpa using h99), ih]; rfl
  | case5 c cs hs h h99 h32 ih => simp only [plainUrl_cons, ih]; decide
  | case6 c cs hs h h99 h32 h0 ih => exact ih
  | case7 c cs hs h h99 h32 h0 hlen ih => exact ih
  | case8 c cs hs h h99 h32 h0 hlen ih =>
    rw [plainUrl_append, queryEscape_plain]; simpa using ih

/-! ### the input returned unchanged -/

/-- when the loop never writes (`urlCopies = false`) every input byte was URL-safe, part of a `%XX` triple, an
    invalid UTF-8 leading byte, or — for a one-byte input — a multi-byte leading byte: all plain. -/
theorem noCopy_plain (total : Nat) (htot : 1 ≤ total) (l : Bytes) (h : urlCopies total l = false) :
    plainUrl l = true := by
  fun_induction urlCopies total l with
  | case1 => rfl
  | case2 c cs hs ih => rw [plainUrl_cons, urlSafe_plain c hs, ih h]; rfl
  | case3 c cs hs a b rest hp ih =>
    obtain ⟨hc, ha, hb⟩ := pctTriple_hex hp
    have := pctTriple_len hp
    subst hc; subst this
    simp only [plainUrl_cons, isHex_plain a ha, isHex_plain b hb, ih h]; decide
  | case4 c cs hs hp h99 ih =>
    rw [plainUrl_cons, badLead_plain c (by simpa using h99), ih h]; rfl
  | case5 => cases h
  | case6 c cs hs hp h99 h32 h0 ih =>
    have hpos := utf8len_pos c
    have : 1 < utf8len c := by
      simp only [beq_iff_eq] at h0
      split at h0 <;> omega
    rw [plainUrl_cons, multi_plain c this, ih h]; rfl
  | case7 => cases h

/-- (a): the escaping half of util.URLEscape returns a plain byte string, for every input -/
theorem urlEscapeRaw_plain (v : Bytes) : plainUrl (urlEscapeRaw v) = true := by
  unfold urlEscapeRaw
  split
  · exact loop_plain _ _
  · rename_i h
    cases v with
    | nil => rfl
    | cons c cs => exact noCopy_plain (c :: cs).length (by simp) _ (by simpa using h)

theorem urlEscape_plain (v : Bytes) (r : Bool) : plainUrl (urlEscape v r) = true :=
  urlEscapeRaw_plain _

end GM.Proof
