/-
  GM.Proof.ConvertHSim — erasing the AutoHeadingID state layer of GM.Model.ConvertH gives the block driver with paragraph
  transformers (GM.Model.Blocks.DriverT) back.

  `HSim strict IH m m0`: from every two-layer state `(h, s)` with `IH h`, the `MH` program `m` and the `M` program `m0`
  agree: when `m` ends normally so does `m0`, with the same value and the same `St`, and `IH` holds of the new `HS`; when
  `m` ends in a panic, `m0` ends in the same panic — or (only when `strict = false`) the panic is one of the option's own
  code (`Segment.Value` in generateAutoHeadingID), which is never fuel exhaustion.
  `HSim` is closed under the `do` constructs; `up x` simulates `x`; so the proof for a driver function is a walk over two
  `do` blocks of the same shape (tactic `hsim`), and the only leaf that is not `up` is `bpCloseH` (hypothesis `HookOK`).
-/
import GM.Model.ConvertH
import GM.Proof.BlocksPres

namespace GM.ConvertH
open GM GM.Text GM.Blocks GM.Convert

/-- the relation between the two outcomes -/
def RSim (strict : Bool) (IH : HS → Prop) {α : Type} (x : Except Panic ((α × HS) × St)) (y : Except Panic (α × St)) : Prop :=
  match x with
  | .ok ((a, h'), s') => IH h' ∧ y = .ok (a, s')
  | .error e => y = .error e ∨ (strict = false ∧ e ≠ Panic.loop)

structure HSim (strict : Bool) (IH : HS → Prop) {α : Type} (m : MH α) (m0 : M α) : Prop where
  h : ∀ h s, IH h → RSim strict IH (m h s) (m0 s)

variable {strict : Bool} {IH : HS → Prop}

theorem mh_bind_apply {α β} (m : MH α) (f : α → MH β) (h : HS) (s : St) :
    (m >>= f) h s = match m h s with
      | .ok ((a, h'), s') => f a h' s'
      | .error e => .error e := by
  simp only [bind, StateT.bind, Except.bind]
  cases m h s with
  | error e => rfl
  | ok x => rfl

theorem m_bind_apply {α β} (m : M α) (f : α → M β) (s : St) :
    (m >>= f) s = match m s with
      | .ok (a, s') => f a s'
      | .error e => .error e := by
  simp only [bind, StateT.bind, Except.bind]
  cases m s with
  | error e => rfl
  | ok x => rfl

theorem up_apply {α} (x : M α) (h : HS) (s : St) :
    (up x) h s = match x s with
      | .ok (a, s') => .ok ((a, h), s')
      | .error e => .error e := by
  simp only [up, StateT.lift, bind, StateT.bind, Except.bind, pure, StateT.pure, Except.pure]
  cases x s with
  | error e => rfl
  | ok x => rfl

theorem HSim.up {α} (x : M α) : HSim strict IH (up x) x := by
  constructor
  intro h s hh
  rw [up_apply]
  cases x s with
  | error e => exact Or.inl rfl
  | ok p => exact ⟨hh, rfl⟩

theorem HSim.pure {α} (a : α) : HSim strict IH (Pure.pure a : MH α) (Pure.pure a : M α) :=
  ⟨fun _ _ hh => ⟨hh, rfl⟩⟩

theorem HSim.throw {α} (e : Panic) : HSim strict IH (throw e : MH α) (throw e : M α) :=
  ⟨fun _ _ _ => Or.inl rfl⟩

theorem HSim.bind {α β} {m : MH α} {m0 : M α} {f : α → MH β} {f0 : α → M β}
    (hm : HSim strict IH m m0) (hf : ∀ a, HSim strict IH (f a) (f0 a)) : HSim strict IH (m >>= f) (m0 >>= f0) := by
  constructor
  intro h s hh
  rw [mh_bind_apply, m_bind_apply]
  have h1 := hm.h h s hh
  cases hx : m h s with
  | error e =>
    rw [hx] at h1
    rcases h1 with h1 | h1
    · rw [h1]; exact Or.inl rfl
    · exact Or.inr h1
  | ok p =>
    obtain ⟨⟨a, h'⟩, s'⟩ := p
    rw [hx] at h1
    obtain ⟨h2, h3⟩ := h1
    rw [h3]
    exact (hf a).h h' s' h2

theorem HSim.ite {α} {c : Prop} [Decidable c] {a b : MH α} {a0 b0 : M α}
    (ha : HSim strict IH a a0) (hb : HSim strict IH b b0) :
    HSim strict IH (if c then a else b) (if c then a0 else b0) := by
  split <;> assumption

/-- what the driver proofs need from `bpCloseH` -/
def HookOK (strict : Bool) (IH : HS → Prop) (autoId : Bool) : Prop :=
  ∀ bp node, HSim strict IH (bpCloseH autoId bp node) (bpClose bp node)

open Lean Elab Tactic Meta in
/-- when the `MH` side of an `HSim` goal is a `match` on a term that is not a variable, generalise that term in the whole
    goal (both sides match on it), so that `split` analyses both sides at once -/
elab "gen_discr" : tactic => do
  let g ← getMainGoal
  g.withContext do
    let t ← instantiateMVars (← g.getType)
    let args := t.getAppArgs
    if args.size < 5 then throwError "not an HSim goal"
    let m := args[3]!
    let env ← getEnv
    -- a discriminant (closed w.r.t. bound variables, not a variable) of some `match` inside the `MH` program
    let cand : Option Expr := (m.find? fun e =>
      if isMatcherAppCore env e then
        match e.getAppFn.constName? >>= fun n => (getMatcherInfoCore? env n) with
        | some info =>
          let as := e.getAppArgs
          (List.range info.numDiscrs).any fun i =>
            match as[info.numParams + 1 + i]? with
            | some d => !d.isFVar && !d.hasLooseBVars
            | none => false
        | none => false
      else false)
    let some e := cand | throwError "no match on a non-variable"
    let some info := e.getAppFn.constName? >>= fun n => (getMatcherInfoCore? env n) | throwError "no matcher info"
    let as := e.getAppArgs
    for i in List.range info.numDiscrs do
      match as[info.numParams + 1 + i]? with
      | some d =>
        if !d.isFVar && !d.hasLooseBVars then
          let (_, g') ← g.generalize #[{ expr := d }]
          replaceMainGoal [g']
          return
      | none => pure ()
    throwError "no discriminant"

macro "hsim_step" : tactic =>
  `(tactic| first
    | exact HSim.up _
    | exact HSim.pure _
    | exact HSim.throw _
    | apply_hyp
    | with_reducible apply HSim.bind
    | with_reducible apply HSim.ite
    | intro _
    | gen_discr
    | split)

/-- walk over two `do` blocks of the same shape -/
macro "hsim" : tactic => `(tactic| repeat' hsim_step)

section driver
variable {autoId : Bool} (hook : HookOK strict IH autoId) (pts : List PT)
include hook

theorem closeLoopH_sim (blocks : List Block) (to : Int) (k : Nat) :
    HSim strict IH (closeLoopH autoId pts blocks to k) (closeLoopT pts blocks to k) := by
  have hk : ∀ bp node, HSim strict IH (bpCloseH autoId bp node) (bpClose bp node) := hook
  induction k with
  | zero => unfold closeLoopH closeLoopT; hsim
  | succ k ih => unfold closeLoopH closeLoopT; hsim

theorem closeBlocksH_sim (frm to : Int) :
    HSim strict IH (closeBlocksH autoId pts frm to) (closeBlocksT pts frm to) := by
  have := closeLoopH_sim hook pts
  unfold closeBlocksH closeBlocksT; hsim

theorem requireParaH_sim (parent : Nat) (last : Option Nat) (lastBlock : Option Block) :
    HSim strict IH (requireParaH autoId pts parent last lastBlock) (requireParaT pts parent last lastBlock) := by
  have hk : ∀ bp node, HSim strict IH (bpCloseH autoId bp node) (bpClose bp node) := hook
  unfold requireParaH requireParaT; hsim

theorem tryParsersH_sim (parent : Nat) (blankLine continuable : Bool) (w : Int) (bps : List BP)
    (result : OpenResult) (lastBlock : Option Block) :
    HSim strict IH (tryParsersH autoId pts parent blankLine continuable w bps result lastBlock)
      (tryParsersT pts parent blankLine continuable w bps result lastBlock) := by
  have := requireParaH_sim hook pts
  have := closeBlocksH_sim hook pts
  induction bps generalizing result lastBlock with
  | nil => unfold tryParsersH tryParsersT; hsim
  | cons bp bps ih => unfold tryParsersH tryParsersT; hsim

theorem retryStepH_sim (blankLine tdone continuable : Bool) (parent : Nat) (w : Int) (bps : List BP)
    (result : OpenResult) (lastBlock : Option Block)
    (againH : Bool → Bool → Nat → OpenResult → Option Block → MH OpenResult)
    (againT : Bool → Bool → Nat → OpenResult → Option Block → M OpenResult)
    (ha : ∀ a b c d e, HSim strict IH (againH a b c d e) (againT a b c d e)) :
    HSim strict IH (retryStepH autoId pts blankLine tdone continuable parent w bps result lastBlock againH)
      (retryStepT pts blankLine tdone continuable parent w bps result lastBlock againT) := by
  have := tryParsersH_sim hook pts
  unfold retryStepH retryStepT; hsim

theorem openBlocksLoopH_sim (blankLine : Bool) (fuel : Nat) (tdone continuable : Bool) (parent : Nat)
    (result : OpenResult) (lastBlock : Option Block) :
    HSim strict IH (openBlocksLoopH autoId pts blankLine fuel tdone continuable parent result lastBlock)
      (openBlocksLoopT pts blankLine fuel tdone continuable parent result lastBlock) := by
  induction fuel generalizing tdone continuable parent result lastBlock with
  | zero => unfold openBlocksLoopH openBlocksLoopT; hsim
  | succ fuel ih =>
    have := retryStepH_sim hook pts
    unfold openBlocksLoopH openBlocksLoopT; hsim

theorem openBlocksH_sim (parent : Nat) (blankLine : Bool) :
    HSim strict IH (openBlocksH autoId pts parent blankLine) (openBlocksT pts parent blankLine) := by
  have := openBlocksLoopH_sim hook pts
  unfold openBlocksH openBlocksT; hsim

theorem lineLoopH_sim (parent : Nat) (openedBlocks : List Block) (lastIndex : Int) (rest : List Block) (i : Int)
    (blankLines : List LineStat) :
    HSim strict IH (lineLoopH autoId pts parent openedBlocks lastIndex rest i blankLines)
      (lineLoopT pts parent openedBlocks lastIndex rest i blankLines) := by
  have := closeBlocksH_sim hook pts
  have := openBlocksH_sim hook pts
  induction rest generalizing i blankLines with
  | nil => unfold lineLoopH lineLoopT; hsim
  | cons be rest ih => unfold lineLoopH lineLoopT; hsim

theorem linesLoopH_sim (parent : Nat) (fuel : Nat) (blankLines : List LineStat) :
    HSim strict IH (linesLoopH autoId pts parent fuel blankLines) (linesLoopT pts parent fuel blankLines) := by
  have := lineLoopH_sim hook pts
  induction fuel generalizing blankLines with
  | zero => unfold linesLoopH linesLoopT; hsim
  | succ fuel ih => unfold linesLoopH linesLoopT; hsim

theorem blocksLoopH_sim (parent : Nat) (fuel : Nat) (blankLines : List LineStat) :
    HSim strict IH (blocksLoopH autoId pts parent fuel blankLines) (blocksLoopT pts parent fuel blankLines) := by
  have := openBlocksH_sim hook pts
  have := linesLoopH_sim hook pts
  induction fuel generalizing blankLines with
  | zero => unfold blocksLoopH blocksLoopT; hsim
  | succ fuel ih => unfold blocksLoopH blocksLoopT; hsim

theorem parseBlocksH_sim (parent : Nat) :
    HSim strict IH (parseBlocksH autoId pts parent) (parseBlocksT pts parent) := by
  have := blocksLoopH_sim hook pts
  unfold parseBlocksH parseBlocksT; hsim

end driver

end GM.ConvertH
