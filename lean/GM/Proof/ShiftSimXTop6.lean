/-
  GM.Proof.ShiftSimXTop6 — `TopLast` through a pass of `lineLoop` for stacks of `Cov6` blocks whose candidate parsers
  are `Cov6` too.
-/
import GM.Proof.ShiftSimXTop4
import GM.Proof.ShiftSimXHcl

namespace GM.Blocks.Xs
open GM GM.Text GM.Spec GM.Proof.Reader GM.Blocks GM.Blocks.L
open GM.Blocks.Sh (K KS bind_ok_inv liftE_ok_inv a2_getNode_inv a2_getPc_inv a2_modPc_inv a2_lastOpenedBlock_inv
  ac_getD_set ac_pure_bind ac_throw_bind llOpen llFall llBody ll_lineLoop_cons tpJp1 tpJp2 tpSome tryParsers_cons
  oblTry openBlocksLoop_succ)

/-! ### closing `Cov6` blocks keeps the Document's last child -/

section last
variable {z : Nat}

theorem h6_noR : NoR (tl_Last z) := ⟨fun _ _ hs => hs⟩

theorem h6_modPc (f : Ctx → Ctx) : Keeps (tl_Last z) (modPc f) := modPc_keeps f fun _ hs => hs

theorem h6_modNode (id : Nat) (f : Node → Node)
    (h : ∀ n : Node, n.children.getLast? = some z → (f n).children.getLast? = some z) :
    Keeps (tl_Last z) (modNode id f) := by
  intro s a s' hs hm
  cases hm
  show ((s.nodes.set id _).getD 0 default).children.getLast? = some z
  rw [ac_getD_set]
  split
  · next hc => obtain ⟨rfl, _⟩ := hc; exact h _ hs
  · exact hs

macro "h6_step" : tactic =>
  `(tactic| first
    | with_reducible apply Keeps.pure
    | with_reducible apply ac_pure_bind
    | with_reducible apply ac_throw_bind
    | with_reducible apply Keeps.bind
    | with_reducible apply Keeps.ite
    | with_reducible apply Keeps.throw
    | with_reducible apply getNode_keeps
    | with_reducible apply getPc_keeps
    | with_reducible apply source_keeps
    | with_reducible apply position_keeps
    | with_reducible apply get_keeps
    | with_reducible apply liftE_keeps
    | with_reducible apply h6_modPc
    | ((with_reducible apply h6_modNode); (intro n hn; exact hn))
    | apply_hyp
    | intro_pi
    | split)

macro "h6" : tactic => `(tactic| repeat' h6_step)

theorem h6_removeChild (p c : Nat) (hc : c ≠ z) : Keeps (tl_Last z) (removeChild p c) := by
  unfold removeChild
  refine Keeps.bind (getNode_keeps _) fun cn => ?_
  split
  · exact Keeps.pure _
  · refine Keeps.bind ?_ fun _ => ?_
    · exact h6_modNode p _ fun n hn => tl_getLast_erase c z hc _ hn
    · exact h6_modNode c _ fun n hn => hn

theorem h6_paragraphClose (n : Nat) (hn : n ≠ z) : Keeps (tl_Last z) (paragraphClose n) := by
  have := fun p => h6_removeChild (z := z) p n hn
  unfold paragraphClose; h6

theorem h6_codeClose (n : Nat) : Keeps (tl_Last z) (codeClose n) := by
  unfold codeClose; h6

theorem h6_bpClose (bp : BP) (h : Cov6 bp) (n : Nat) (hn : n ≠ z) : Keeps (tl_Last z) (bpClose bp n) := by
  cases bp <;> unfold bpClose
  · exact absurd rfl h.2.2.1
  · exact Keeps.pure _
  · exact absurd rfl h.1
  · exact Keeps.pure _
  · exact h6_codeClose n
  · exact Keeps.pure _
  · exact absurd rfl h.2.2.2
  · exact Keeps.pure _
  · exact Keeps.pure _
  · exact h6_paragraphClose n hn

theorem h6_closeLoop (blocks : List Block) (to : Int)
    (hb : ∀ (j : Int) b, to ≤ j → blockAt blocks j = .ok b → Cov6 b.bp ∧ b.node ≠ z) :
    ∀ k, Keeps (tl_Last z) (closeLoop blocks to k)
  | 0 => by unfold closeLoop; exact Keeps.pure _
  | k + 1 => by
    have ih := h6_closeLoop blocks to hb k
    unfold closeLoop
    intro s a s' hs h
    obtain ⟨b, s1, h1, hA⟩ := bind_ok_inv h
    obtain ⟨hb1, e1⟩ := liftE_ok_inv h1
    subst e1
    obtain ⟨hc, hne⟩ := hb (to + k) b (by omega) hb1
    have := h6_bpClose (z := z) b.bp hc b.node hne
    revert hA
    refine (?_ : Keeps (tl_Last z) _) s1 a s' hs
    h6

theorem h6_closeBlocks (frm to : Int) (s s' : St) (a : Unit)
    (hb : ∀ (j : Int) b, to ≤ j → blockAt s.pc.opened j = .ok b → Cov6 b.bp ∧ b.node ≠ z)
    (hs : tl_Last z s) (h : closeBlocks frm to s = .ok (a, s')) : tl_Last z s' := by
  unfold closeBlocks at h
  obtain ⟨pc, s1, h1, hA⟩ := bind_ok_inv h
  cases h1
  obtain ⟨_, s2, h2, hB⟩ := bind_ok_inv hA
  have k2 := h6_closeLoop s.pc.opened to hb _ _ _ _ hs h2
  revert hB
  refine (?_ : Keeps (tl_Last z) _) s2 a s' k2
  h6

end last

/-! ### no `Cov6` parser asks for a paragraph -/

theorem h6_open_norp (bp : BP) (h : Cov6 bp) (p : Nat) : Ret (bpOpen bp p) (fun x => x.2.requirePara = false) := by
  cases bp <;> unfold bpOpen
  · exact absurd rfl h.2.2.1
  · unfold thematicOpen; ret
  · exact absurd rfl h.1
  · exact absurd rfl h.2.1
  · unfold codeOpen; ret
  · unfold atxOpen; ret
  · exact absurd rfl h.2.2.2
  · unfold blockquoteOpen; ret
  · unfold htmlOpen; ret
  · unfold paragraphOpen; ret

/-! ### `openBlocks` over an attached stack: blocks are only pushed -/

/-- the Document's children while `openBlocks p0` runs: the first new block is appended iff `p0 = 0` -/
def w6D (p0 : Nat) (d0 : List Nat) : List Block → List Nat
  | [] => d0
  | n0 :: _ => if p0 = 0 then d0 ++ [n0.node] else d0

/-- the current parent: `p0` until a block is pushed, then a node other than the Document -/
def w6P (p0 p : Nat) : List Block → Prop
  | [] => p = p0
  | _ :: _ => 0 < p

def W6 (ob : List Block) (p0 : Nat) (d0 : List Nat) (L0 : Nat) (p : Nat) (t : St) : Prop :=
  K t ∧ (∀ x ∈ t.pc.opened, (nd t x.node).parent.isSome = true ∧ Cov6 x.bp) ∧ L0 ≤ t.nodes.length ∧
  p < t.nodes.length ∧
  ∃ new, t.pc.opened = ob ++ new ∧ (∀ x ∈ new, L0 ≤ x.node) ∧ (nd t 0).children = w6D p0 d0 new ∧ w6P p0 p new

variable {ob : List Block} {p0 : Nat} {d0 : List Nat} {L0 : Nat}

theorem W6.links {p : Nat} {t t' : St} (h : W6 ob p0 d0 L0 p t) (k : K t') (lk : LinksKept t t')
    (ho : t'.pc.opened = t.pc.opened) : W6 ob p0 d0 L0 p t' := by
  obtain ⟨hk, hatt, hl, hp, new, e1, e2, e3, e4⟩ := h
  refine ⟨k, fun x hx => ?_, Nat.le_trans hl lk.1, Nat.lt_of_lt_of_le hp lk.1, new, ho.trans e1, e2, ?_, e4⟩
  · rw [ho] at hx
    rw [(lk.2.1 x.node (hk.opened x hx).2).1]
    exact hatt x hx
  · rw [(lk.2.1 0 hk.doc.1).2]; exact e3

theorem tl_appendChild_r (p c : Nat) (s s' : St) (a : Unit) (hc : (nd s c).parent = none)
    (h : appendChild p c s = .ok (a, s')) : s'.r = s.r := by
  unfold appendChild at h
  obtain ⟨_, t1, g1, gA⟩ := bind_ok_inv h
  have e1 : t1 = s := by
    unfold ensureIsolated at g1
    obtain ⟨cn, t0, g0, gB⟩ := bind_ok_inv g1
    obtain ⟨ecn, e0⟩ := a2_getNode_inv g0
    subst e0
    have : cn.parent = none := by rw [ecn]; exact hc
    rw [this] at gB
    cases gB
    rfl
  subst e1
  obtain ⟨_, t2, g2, g3⟩ := bind_ok_inv gA
  have e2 := tl_modNode_inv g2
  subst e2
  have e3 := tl_modNode_inv g3
  subst e3
  rfl

section chain
variable {J : St → Prop} (hJr : ∀ t t' : St, J t → t'.r = t.r → J t')
include hJr

theorem h6_tpJp2 (parent node : Nat) (bp : BP) (hbp : Cov6 bp) (state : PState) (lastBlock : Option Block)
    (s s' : St) (x : TryOutcome × OpenResult × Option Block) (hj : J s) (hw : W6 ob p0 d0 L0 parent s)
    (hpn : parent < node) (hn : node < s.nodes.length) (hfr : (nd s node).parent = none) (hL : L0 ≤ node)
    (hnew : ∀ y ∈ s.pc.opened, y.node ≠ node)
    (h : tpJp2 parent node bp state lastBlock s = .ok (x, s')) :
    J s' ∧ W6 ob p0 d0 L0 node s' ∧ ∀ q, x.1 = .retry q → q = node := by
  have hks := (Sh.a2_tpJp2 parent node bp state lastBlock s s' x hw.1 hpn hn h).1
  obtain ⟨hk, hatt, hl, hp, new, e1, e2, e3, e4⟩ := hw
  unfold tpJp2 at h
  obtain ⟨_, s1, h1, hA⟩ := bind_ok_inv h
  obtain ⟨epc, hch, hpar, hpo⟩ := tl_appendChild parent node s s1 _ hfr hn h1
  have er := tl_appendChild_r parent node s s1 _ hfr h1
  obtain ⟨_, s2, h2, hB⟩ := bind_ok_inv hA
  have e2' := a2_modPc_inv h2
  subst e2'
  have hfin : ∀ t : St, t = { s1 with pc := { s1.pc with opened := s1.pc.opened ++ [(⟨node, bp⟩ : Block)] } } →
      K t → s.nodes.length ≤ t.nodes.length → J t ∧ W6 ob p0 d0 L0 node t := by
    intro t et kt hlen
    subst et
    refine ⟨hJr _ _ hj er, kt, ?_, Nat.le_trans hl hlen, Nat.lt_of_lt_of_le hn hlen, new ++ [⟨node, bp⟩], ?_, ?_, ?_, ?_⟩
    · intro y hy
      have hy' : y ∈ s1.pc.opened ++ [(⟨node, bp⟩ : Block)] := hy
      rcases List.mem_append.1 hy' with hy1 | hy1
      · rw [epc] at hy1
        show (nd s1 y.node).parent.isSome = true ∧ _
        rw [hpo y.node (hnew y hy1)]
        exact hatt y hy1
      · rw [List.mem_singleton.1 hy1]
        show (nd s1 node).parent.isSome = true ∧ _
        rw [hpar]; exact ⟨rfl, hbp⟩
    · show s1.pc.opened ++ [(⟨node, bp⟩ : Block)] = ob ++ (new ++ [⟨node, bp⟩])
      rw [epc, e1, List.append_assoc]
    · intro y hy
      rcases List.mem_append.1 hy with hy1 | hy1
      · exact e2 y hy1
      · rw [List.mem_singleton.1 hy1]; exact hL
    · show (nd s1 0).children = _
      rw [hch 0]
      cases new with
      | nil =>
        have e4' : parent = p0 := e4
        subst e4'
        show _ = (if parent = 0 then d0 ++ [node] else d0)
        by_cases hz : parent = 0
        · subst hz
          rw [if_pos ⟨rfl, hk.doc.1⟩, if_pos rfl, e3]; rfl
        · rw [if_neg (fun hh => hz hh.1), if_neg hz, e3]; rfl
      | cons n0 more =>
        have e4' : 0 < parent := e4
        rw [if_neg (fun hh => by omega), e3]; rfl
    · cases new with
      | nil => show 0 < node; omega
      | cons n0 more => show 0 < node; omega
  by_cases hc : state.hasChildren = true
  · rw [if_pos hc] at hB
    cases hB
    have := hfin _ rfl hks.1 hks.2
    exact ⟨this.1, this.2, fun q e => by cases e; rfl⟩
  · rw [if_neg hc] at hB
    cases hB
    have := hfin _ rfl hks.1 hks.2
    exact ⟨this.1, this.2, fun q e => by cases e⟩

theorem h6_tpSome (parent node : Nat) (bp : BP) (hbp : Cov6 bp) (state : PState) (hrp : state.requirePara = false)
    (lastBlock : Option Block) (blankLine : Bool) (last : Option Nat)
    (s s' : St) (x : TryOutcome × OpenResult × Option Block) (hj : J s) (hw : W6 ob p0 d0 L0 parent s)
    (hpn : parent < node) (hn : node < s.nodes.length) (hfr : (nd s node).parent = none) (hL : L0 ≤ node)
    (hnew : ∀ y ∈ s.pc.opened, y.node ≠ node)
    (hlast : last = s.pc.opened.getLast?.map (fun z : Block => z.node))
    (h : tpSome parent node bp state lastBlock blankLine last s = .ok (x, s')) :
    J s' ∧ W6 ob p0 d0 L0 node s' ∧ ∀ q, x.1 = .retry q → q = node := by
  unfold tpSome at h
  rw [if_neg (by rw [hrp]; decide)] at h
  have hs := hw.1
  unfold tpJp1 at h
  obtain ⟨_, s1, h1, hA⟩ := bind_ok_inv h
  have a1 := Sh.ac_modNode_acyc node (fun n => { n with blankPrev := blankLine }) (fun _ => ⟨rfl, rfl⟩) s _ s1 hs.acyc h1
  have d1 := Sh.a2_modNode_ch node (fun n => { n with blankPrev := blankLine })
    (fun _ => ⟨rfl, rfl, fun x hx => Or.inl hx⟩) s _ s1 hs.doc h1
  have o1 := Sh.modNode_opened _ _ _ _ _ h1
  have l1 : s.nodes.length ≤ s1.nodes.length :=
    Sh.ac_modNode_len s.nodes.length node _ s _ s1 (Nat.le_refl _) h1
  have k1 : KS s s1 := Sh.a2_KS_mk hs a1 d1 o1 l1
  have lk := (modNode_frl node (fun n => { n with blankPrev := blankLine }) (fun _ => ⟨rfl, rfl⟩)).h _ _ _ h1
  have hw1 := hw.links k1.1 lk o1
  have e1 := tl_modNode_inv h1
  have hj1 : J s1 := hJr _ _ hj (by rw [e1])
  have hn1 : node < s1.nodes.length := Nat.lt_of_lt_of_le hn l1
  have hfr1 : (nd s1 node).parent = none := by rw [(lk.2.1 node hn).1]; exact hfr
  have hnew1 : ∀ y ∈ s1.pc.opened, y.node ≠ node := by rw [o1]; exact hnew
  cases last with
  | none => exact h6_tpJp2 hJr parent node bp hbp state lastBlock s1 s' x hj1 hw1 hpn hn1 hfr1 hL hnew1 hA
  | some l =>
    obtain ⟨ln, s2, h2, hB⟩ := bind_ok_inv hA
    obtain ⟨eln, e2⟩ := a2_getNode_inv h2
    subst e2
    have hnot : ¬ (ln.parent.isNone = true) := by
      cases hg : s.pc.opened.getLast? with
      | none => rw [hg] at hlast; cases hlast
      | some lb =>
        rw [hg] at hlast
        have hl' : some l = some lb.node := hlast
        cases hl'
        have hm : lb ∈ s2.pc.opened := by rw [o1]; exact List.mem_of_getLast? hg
        have := (hw1.2.1 lb hm).1
        rw [eln]
        cases hq : (nd s2 lb.node).parent with
        | none => rw [hq] at this; cases this
        | some q => intro hh; cases hh
    rw [if_neg hnot] at hB
    exact h6_tpJp2 hJr parent node bp hbp state lastBlock s2 s' x hj1 hw1 hpn hn1 hfr1 hL hnew1 hB

end chain

section chain2
variable {J : St → Prop} {src : Bytes} (hJr : ∀ t t' : St, J t → t'.r = t.r → J t')
  (hJo : ∀ bp, Cov6 bp → ∀ p, Keeps J (bpOpen bp p)) (hJlo : Keeps J lineOffset)
  (hJpk : ∀ (t : St) lp t1, J t → peekLine t = .ok (lp, t1) → J t1 ∧ ∀ c ∈ lp.1.getD [], c ∈ src ∨ c = 32)
  (hpl : Plain6 src)
include hJr hJo

theorem h6_tryParsers (parent : Nat) (blankLine continuable : Bool) (w : Int) :
    ∀ (bps : List BP), (∀ bp ∈ bps, Cov6 bp) → ∀ (result : OpenResult) (lastBlock : Option Block) (s s' : St)
      (x : TryOutcome × OpenResult × Option Block), J s → W6 ob p0 d0 L0 parent s →
      tryParsers parent blankLine continuable w bps result lastBlock s = .ok (x, s') →
      ∃ q, J s' ∧ W6 ob p0 d0 L0 q s' ∧ ∀ p', x.1 = .retry p' → p' = q := by
  intro bps
  induction bps with
  | nil =>
    intro _ result lastBlock s s' x hj hw h
    unfold tryParsers at h
    cases h
    exact ⟨parent, hj, hw, fun p' e => by cases e⟩
  | cons bp bps ih =>
    intro hb result lastBlock s s' x hj hw h
    have ih' := ih (fun b hb' => hb b (List.mem_cons_of_mem _ hb'))
    have hcov := hb bp List.mem_cons_self
    rw [tryParsers_cons] at h
    by_cases c1 : (continuable && result == OpenResult.noBlocksOpened && !bp.canInterruptParagraph) = true
    · rw [if_pos c1] at h; exact ih' result lastBlock s s' x hj hw h
    rw [if_neg c1] at h
    by_cases c2 : (decide (w > 3) && !bp.canAcceptIndentedLine) = true
    · rw [if_pos c2] at h; exact ih' result lastBlock s s' x hj hw h
    rw [if_neg c2] at h
    obtain ⟨x0, s1, h1, hA⟩ := bind_ok_inv h
    obtain ⟨ex0, e1⟩ := a2_lastOpenedBlock_inv h1
    subst e1
    obtain ⟨y, s2, h2, hB⟩ := bind_ok_inv hA
    have k2 := Sh.a2_bpOpen_KS bp parent _ _ _ hw.1 h2
    have lk := (bpOpen_frl bp parent).h _ _ _ h2
    have o2 := bpOpen_opened bp parent _ _ _ h2
    have hw2 := hw.links k2.1 lk o2
    have hj2 : J s2 := hJo bp hcov parent _ _ _ hj h2
    have hrp := (h6_open_norp bp hcov parent).h _ _ _ h2
    cases hy : y.1 with
    | none =>
      rw [hy] at hB
      exact ih' result x0 s2 s' x hj2 hw2 hB
    | some node =>
      rw [hy] at hB
      have hy' : y = (some node, y.2) := by rw [← hy]
      rw [hy'] at h2
      obtain ⟨f1, f2, f3, _⟩ := Sh.bpOpen_fresh bp parent _ _ node y.2 h2
      have hp := hw.2.2.2.1
      have hl := hw.2.2.1
      obtain ⟨a, b, c⟩ := h6_tpSome hJr parent node bp hcov y.2 hrp x0 blankLine _ s2 s' x hj2 hw2 (by omega) f2 f3
        (by omega) (fun z hz => by
          rw [o2] at hz
          have := (hw.1.opened z hz).2
          omega) (by rw [o2]; exact congrArg _ ex0) hB
      exact ⟨node, a, b, c⟩

omit hJr hJo in
theorem h6_toContinuable (continuable : Bool) (result : OpenResult) (lastBlock : Option Block) (p : Nat) (s s' : St)
    (x : OpenResult) (hw : W6 ob p0 d0 L0 p s) (hlb : ∀ l, lastBlock = some l → 0 < l.node)
    (h : toContinuable continuable result lastBlock s = .ok (x, s')) : W6 ob p0 d0 L0 p s' := by
  unfold toContinuable at h
  by_cases hc : (result == OpenResult.noBlocksOpened && continuable) = true
  · rw [if_pos hc] at h
    cases lastBlock with
    | none =>
      obtain ⟨_, _, h3, _⟩ := bind_ok_inv h
      cases h3
    | some lb =>
      obtain ⟨st, s1, h1, hA⟩ := bind_ok_inv h
      have k1 := Sh.a2_bpContinue_KS lb.bp lb.node (hlb lb rfl) _ _ _ hw.1 h1
      have lk := (bpContinue_frl lb.bp lb.node).h _ _ _ h1
      have o1 := bpContinue_opened lb.bp lb.node _ _ _ h1
      have hw1 := hw.links k1.1 lk o1
      by_cases hcont : st.cont = true
      · rw [if_pos hcont] at hA; cases hA; exact hw1
      · rw [if_neg hcont] at hA; cases hA; exact hw1
  · rw [if_neg hc] at h
    cases h
    exact hw

include hJlo hJpk hpl

theorem h6_openBlocksLoop (blankLine continuable : Bool) :
    ∀ (fuel parent : Nat) (result : OpenResult) (lastBlock : Option Block) (s s' : St) (x : OpenResult),
      J s → W6 ob p0 d0 L0 parent s → (∀ l, lastBlock = some l → 0 < l.node) →
      openBlocksLoop blankLine continuable fuel parent result lastBlock s = .ok (x, s') →
      ∃ q, W6 ob p0 d0 L0 q s' := by
  intro fuel
  induction fuel with
  | zero =>
    intro parent result lastBlock s s' x _ _ _ h
    unfold openBlocksLoop at h
    cases h
  | succ fuel ih =>
    intro parent result lastBlock s s' x hj hw hlb h
    rw [openBlocksLoop_succ] at h
    obtain ⟨lp, s1, h1, hA⟩ := bind_ok_inv h
    obtain ⟨hj1, hbytes⟩ := hJpk s lp s1 hj h1
    have m1 : Sh.Same s s1 := peekLine_keeps (Sh.a2_same_noR s) s _ s1 ⟨rfl, rfl⟩ h1
    obtain ⟨lo, s2, h2, hB⟩ := bind_ok_inv hA
    have hj2 : J s2 := hJlo _ _ _ hj1 h2
    have m2 : Sh.Same s s2 := lineOffset_keeps (Sh.a2_same_noR s) s1 _ s2 m1 h2
    obtain ⟨_, s3, h3, hC⟩ := bind_ok_inv hB
    have e3 := a2_modPc_inv h3
    have hj3 : J s3 := hJr _ _ hj2 (by rw [e3])
    have m3 : Sh.Same s s3 := by
      subst e3
      refine ⟨m2.1, ?_⟩
      show (ite _ _ _ : Ctx).opened = _
      split
      · exact m2.2
      · exact m2.2
    have hw3 : W6 ob p0 d0 L0 parent s3 :=
      hw.links (Sh.a2_KS_same hw.1 m3).1 (LinksKept.of_nodes m3.1) m3.2
    have try6 : ∀ (w : Int) (bps : List BP), (∀ bp ∈ bps, Cov6 bp) →
        oblTry blankLine continuable fuel parent w result lastBlock bps s3 = .ok (x, s') →
        ∃ q, W6 ob p0 d0 L0 q s' := by
      intro w bps hb e
      unfold oblTry at e
      obtain ⟨s0, t1, g1, gA⟩ := bind_ok_inv e
      cases g1
      obtain ⟨y, t2, g2, gB⟩ := bind_ok_inv gA
      obtain ⟨q, hjq, hwq, hr⟩ := h6_tryParsers hJr hJo parent blankLine continuable w bps hb result lastBlock _ _ _ hj3 hw3 g2
      obtain ⟨_, _, hl2⟩ := Sh.a2_tryParsers parent blankLine continuable w bps result lastBlock _ _ _ hw3.1
        hw3.2.2.2.1 hlb g2
      cases hy : y.1 with
      | done =>
        rw [hy] at gB
        exact ⟨q, h6_toContinuable continuable y.2.1 y.2.2 q _ _ _ hwq hl2 gB⟩
      | retry p' =>
        rw [hy] at gB
        obtain ⟨t3, t4, g3, gC⟩ := bind_ok_inv gB
        cases g3
        have := hr p' hy
        subst this
        split at gC
        · obtain ⟨_, _, g4, _⟩ := bind_ok_inv gC
          cases g4
        · exact ih p' y.2.1 y.2.2 _ _ _ hjq hwq hl2 gC
    by_cases c1 : lp.1.isNone = true
    · rw [if_pos c1] at hC
      exact ⟨parent, h6_toContinuable _ _ _ _ _ _ _ hw3 hlb hC⟩
    rw [if_neg c1] at hC
    obtain ⟨c0, s4, h4, hD⟩ := bind_ok_inv hC
    obtain ⟨_, e4⟩ := liftE_ok_inv h4
    subst e4
    by_cases c2 : (c0 == 10) = true
    · rw [if_pos c2] at hD
      exact ⟨parent, h6_toContinuable _ _ _ _ _ _ _ hw3 hlb hD⟩
    rw [if_neg c2] at hD
    split at hD
    · obtain ⟨c, s5, h5, hE⟩ := bind_ok_inv hD
      obtain ⟨ec, e5⟩ := liftE_ok_inv h5
      subst e5
      exact try6 _ _ ((triggers_cov6 src hpl).2 c (hbytes c (Sh.idx_mem ec))) hE
    · exact try6 _ _ (triggers_cov6 src hpl).1 hD

/-- `openBlocks` over an attached stack of `Cov6` blocks only pushes blocks -/
theorem h6_openBlocks (p0 : Nat) (blank : Bool) (s s' : St) (r : OpenResult) (hj : J s) (hk : K s)
    (hatt : ∀ x ∈ s.pc.opened, (nd s x.node).parent.isSome = true ∧ Cov6 x.bp) (hp0 : p0 < s.nodes.length)
    (h : openBlocks p0 blank s = .ok (r, s')) :
    ∃ q, W6 s.pc.opened p0 (nd s 0).children s.nodes.length q s' := by
  have hw : W6 s.pc.opened p0 (nd s 0).children s.nodes.length p0 s :=
    ⟨hk, hatt, Nat.le_refl _, hp0, ⟨[], (List.append_nil _).symm, (fun x hx => by cases hx), rfl, rfl⟩⟩
  unfold openBlocks at h
  obtain ⟨x0, s1, h1, hA⟩ := bind_ok_inv h
  obtain ⟨ex0, e1⟩ := a2_lastOpenedBlock_inv h1
  subst e1
  have hlb0 : ∀ l, x0 = some l → 0 < l.node := by
    intro l hl
    rw [ex0] at hl
    exact (hk.opened l (List.mem_of_getLast? hl)).1
  have fin : ∀ c, (do
        let src ← source
        openBlocksLoop blank c (retryFuel src) p0 OpenResult.noBlocksOpened x0) s1 = .ok (r, s') →
      ∃ q, W6 s1.pc.opened p0 (nd s1 0).children s1.nodes.length q s' := by
    intro c hB
    obtain ⟨src', s3, h3, hC⟩ := bind_ok_inv hB
    cases h3
    exact h6_openBlocksLoop hJr hJo hJlo hJpk hpl blank c _ p0 _ x0 _ _ _ hj hw hlb0 hC
  cases x0 with
  | none => exact fin false hA
  | some lb =>
    obtain ⟨n, s3, h3, hC⟩ := bind_ok_inv hA
    obtain ⟨_, e3⟩ := a2_getNode_inv h3
    subst e3
    exact fin _ hC

end chain2

theorem w6D_pos {p0 : Nat} (h : 0 < p0) (d0 : List Nat) (new : List Block) : w6D p0 d0 new = d0 := by
  cases new with
  | nil => rfl
  | cons n0 more => show (if p0 = 0 then _ else _) = _; rw [if_neg (by omega)]

/-- after `openBlocks p0` with `p0 ≠ 0` the stack is the old one plus pushed blocks, the Document's children are the same -/
theorem W6.topLast_pos {ob : List Block} {p0 L0 q : Nat} {d0 : List Nat} {t : St} (h : W6 ob p0 d0 L0 q t)
    (hp0 : 0 < p0) (b0 : Block) (rest : List Block) (hob : ob = b0 :: rest) (hd0 : d0.getLast? = some b0.node) :
    TopLast t ∧ tl_Last b0.node t ∧ t.pc.opened.head? = some b0 := by
  obtain ⟨_, _, _, _, new, e1, _, e3, _⟩ := h
  rw [w6D_pos hp0] at e3
  have hl : tl_Last b0.node t := by
    show (nd t 0).children.getLast? = _
    rw [e3]; exact hd0
  have hh : t.pc.opened.head? = some b0 := by rw [e1, hob]; rfl
  refine ⟨fun b hb => ?_, hl, hh⟩
  rw [hh] at hb
  cases hb
  exact hl

end GM.Blocks.Xs
