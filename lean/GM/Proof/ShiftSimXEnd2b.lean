/-
  GM.Proof.ShiftSimXEnd2b — right-extension simulation: the inner `for {}` over lines when run A stands at the end of `b`
  and run B on the blank line behind it (`XEnd`).
-/
import GM.Proof.ShiftSimXEnd2
import GM.Proof.ShiftSimXTop

namespace GM.Blocks.Xs
open GM GM.Text GM.Spec GM.Proof.Reader GM.Blocks GM.Blocks.L

theorem xe_linesLoop_zero (parent : Nat) (bl : List LineStat) (s : St) (x) (s' : St) :
    linesLoop parent 0 bl s ≠ .ok (x, s') := by
  rw [linesLoop]
  intro h
  cases h

/-- the inner loop with nothing open -/
theorem xe_linesLoop_nil (parent fuel : Nat) (bl : List LineStat) (s : St) (hop : s.pc.opened = []) (x) (s' : St)
    (h : linesLoop parent fuel bl s = .ok (x, s')) : x = (false, bl) ∧ s' = s := by
  cases fuel with
  | zero => exact absurd h (xe_linesLoop_zero _ _ _ _ _)
  | succ f =>
    rw [linesLoop] at h
    obtain ⟨pc, s0, h0, h⟩ := bind_ok h
    obtain ⟨rfl, rfl⟩ := getPc_ok h0
    simp only [hop, List.length_nil, beq_self_eq_true, if_true] at h
    exact pure_ok h

/-- the inner loop with something open -/
theorem xe_linesLoop_cons (parent fuel : Nat) (bl : List LineStat) (s : St) (b0 : Block) (rs : List Block)
    (hop : s.pc.opened = b0 :: rs) (x) (s' : St)
    (h : linesLoop parent (fuel + 1) bl s = .ok (x, s')) :
    ∃ o bl1 s1, lineLoop parent (b0 :: rs) (((b0 :: rs).length : Int) - 1) (b0 :: rs) 0 bl s = .ok ((o, bl1), s1) ∧
      ((o = .eof ∧ x = (true, bl1) ∧ s' = s1) ∨
       (o = .next ∧ linesLoop parent fuel bl1 { s1 with r := s1.r.advanceLine } = .ok (x, s'))) := by
  rw [linesLoop] at h
  obtain ⟨pc, s0, h0, h⟩ := bind_ok h
  obtain ⟨rfl, rfl⟩ := getPc_ok h0
  simp only [hop] at h
  have hl : ((b0 :: rs).length == 0) = false := by simp
  rw [hl] at h
  simp only [Bool.false_eq_true, if_false] at h
  obtain ⟨⟨o, bl1⟩, s1, h1, h⟩ := bind_ok h
  refine ⟨o, bl1, s1, h1, ?_⟩
  cases o with
  | eof =>
    left
    obtain ⟨rfl, rfl⟩ := pure_ok h
    exact ⟨rfl, rfl, rfl⟩
  | next =>
    right
    obtain ⟨u, s2, h2, h⟩ := bind_ok h
    have : s2 = { s1 with r := s1.r.advanceLine } := by cases h2; rfl
    rw [this] at h
    exact ⟨rfl, h⟩

/-- run A's pass of the per-line loop at the end of its source -/
theorem xe_lineLoop_end {b : Bytes} (s : St) (c : RCur) (hri : RI b s.r c) (hcp : c.p = b.length)
    (ob : List Block) (li : Int) (be : Block) (rs : List Block) (i : Int) (bl : List LineStat) (x) (s' : St)
    (h : lineLoop 0 ob li (be :: rs) i bl s = .ok (x, s')) :
    ∃ r1 sc, RI b r1 c ∧ closeBlocks li 0 { s with r := r1 } = .ok ((), sc) ∧ x = (.eof, bl) ∧
      s' = { sc with r := sc.r.advanceLine } := by
  rw [ll_lineLoop_cons] at h
  obtain ⟨y, s1, h1, k1⟩ := bind_ok h
  obtain ⟨ey, r1, es1, hri1⟩ := Sh.okl_ok (peekLine_okl hri) h1
  have hv : y.1 = none := by rw [ey]; exact view_none b c (by omega)
  rw [hv] at k1
  dsimp only at k1
  obtain ⟨u, s2, h2, k2⟩ := bind_ok k1
  obtain ⟨u', s3, h3, k3⟩ := bind_ok k2
  have e3 : s3 = { s2 with r := s2.r.advanceLine } := by cases h3; rfl
  obtain ⟨rfl, rfl⟩ := pure_ok k3
  cases u
  rw [es1] at h2
  exact ⟨r1, s2, hri1, h2, rfl, e3⟩

theorem xe_bp_cases (bp : BP) (h6 : Cov6 bp) (hr : bp ≠ .code ∧ bp ≠ .fenced ∧ bp ≠ .html) :
    bp = .thematic ∨ bp = .atx ∨ bp = .blockquote ∨ bp = .paragraph ∨ bp = .setext := by
  obtain ⟨a1, a2, a3, a4⟩ := h6
  obtain ⟨a5, a6, a7⟩ := hr
  cases bp <;> simp at *

theorem linesLoop_xend {b L rest : Bytes} (hL : ∃ body, L = body ++ [10] ∧ ∀ c ∈ body, c ≠ 10)
    (hP : PSim (FQ L rest) b Cov6) (fuelA fuelB : Nat) (sa sb : List LineStat) (sA sB : St)
    (hx : XEnd (FQ L rest) b sA sB) (hc : AI Cov6 sA) (hst : StatsRel (FQ L rest) sa sb) (hline : 1 ≤ sA.r.line)
    (hau : AU b sA) (hsle : SLe sa sA) :
    P2 (LinesQX b L rest sA sa) (linesLoop 0 fuelA sa sA) (linesLoop 0 fuelB sb sB) := by
  intro x sA' y sB' e1 e2
  obtain ⟨⟨c, hri, hcp⟩, hn, hctx, hat1, hat2, hsrcB, hposB, hlineB, hlineB2⟩ := xend_facts hL hx
  have hnodes : sB.nodes = sA.nodes := FX_store hn
  have hopAB : sB.pc.opened = sA.pc.opened := by rw [hctx.opened, FX_shB_map]
  cases hopA : sA.pc.opened with
  | nil =>
    obtain ⟨rfl, rfl⟩ := xe_linesLoop_nil _ _ _ _ hopA _ _ e1
    obtain ⟨rfl, rfl⟩ := xe_linesLoop_nil _ _ _ _ (hopAB.trans hopA) _ _ e2
    refine ⟨fun _ => ⟨rfl, hst, .inr hx, hopA, hc, hline, hau, hsle, fun h => ?_⟩, fun h => by cases h⟩
    rcases h with h | h
    · exact h
    · exact absurd hopA h
  | cons b0 rs =>
    have hopB : sB.pc.opened = b0 :: rs := hopAB.trans hopA
    cases fuelA with
    | zero => exact absurd e1 (xe_linesLoop_zero _ _ _ _ _)
    | succ fA =>
    cases fuelB with
    | zero => exact absurd e2 (xe_linesLoop_zero _ _ _ _ _)
    | succ fB =>
    -- run A
    obtain ⟨oA, blA, sA1', hA, hAalt⟩ := xe_linesLoop_cons _ _ _ _ b0 rs hopA _ _ e1
    obtain ⟨r1, sAc, hri1, hclA, exA, esA⟩ := xe_lineLoop_end sA c hri hcp _ _ _ _ _ _ _ _ hA
    obtain ⟨rfl, rfl⟩ := Prod.mk.inj exA
    have hAalt' : x = (true, blA) ∧ sA' = sA1' := by
      rcases hAalt with ⟨_, h1, h2⟩ | ⟨h, _⟩
      · exact ⟨h1, h2⟩
      · cases h
    obtain ⟨rfl, rfl⟩ := hAalt'
    subst esA
    refine ⟨fun h => (by cases h), fun _ hraw => ?_⟩
    have hraw' : endsInRawBlock sAc = false := hraw
    have hmemA : ∀ z ∈ b0 :: rs, z ∈ sA.pc.opened := fun z hz => hopA ▸ hz
    have hleaf : b0.bp.isContainer = false → (nd sA b0.node).children = [] :=
      tl_GP.leafKids hau.gp hau.st.blocks b0 (hmemA b0 List.mem_cons_self)
    have hnr := first_open_not_raw (src := b) { sA with r := r1 } sAc (hau.st.congr_r r1) (hau.top.congr_r r1) b0 rs hopA
      hleaf (by rw [show ({ sA with r := r1 } : St).pc.opened = b0 :: rs from hopA]; exact hclA) hraw'
    have hb0 := xe_bp_cases b0.bp (hc.1 b0 (hmemA b0 List.mem_cons_self)) hnr
    -- run B
    obtain ⟨oB, blB, sB1, hB, hBalt⟩ := xe_linesLoop_cons _ _ _ _ b0 rs hopB _ _ e2
    obtain ⟨eo, ebl, o, i, rm, hrc, hclBp⟩ := blank_pass_closes sB b0 rs sb hat1 hopB
      (fun z hz => by rw [hnodes]; exact (hau.st.blocks z (hmemA z hz)).lt)
      (fun z hz => by rw [hnodes]; exact (hau.st.blocks z (hmemA z hz)).kind) hb0 _ _ hB
    simp only at eo ebl
    subst eo ebl
    rcases hBalt with ⟨h, _⟩ | ⟨_, hB2⟩
    · cases h
    rw [closeBlocks_setBO _ _ o i sB rm hrc.1] at hclBp
    cases hclB : closeBlocks (((b0 :: rs).length : Int) - 1) 0 sB with
    | error e => rw [hclB] at hclBp; cases hclBp
    | ok p =>
    obtain ⟨u, sBc⟩ := p
    cases u
    rw [hclB] at hclBp
    have esB1 : sB1 = { SetBO o i sBc with r := rm } := by cases hclBp; rfl
    subst esB1
    have hsrl : SRL (FQ L rest) b r1 sB.r { sA with r := r1 } sB :=
      { ra := rfl, rb := rfl, srcA := hri1.abs.source, srcB := by rw [hsrcB]; rfl, n := hn, c := hctx }
    obtain ⟨hs2, hai2⟩ := closeBlocks_l2 hP _ 0 (sA := { sA with r := r1 }) hc hsrl _ _ _ _ hclA hclB
    have hn2 : sBc.nodes = sAc.nodes := FX_store hs2.n
    have hk2 : KeysOff sBc := by
      obtain ⟨k1, k2, k3, k4⟩ := hai2.2
      refine ⟨?_, ?_, ?_, ?_⟩
      · rw [hs2.c.tmpPara, k1]; rfl
      · rw [hs2.c.fence, k2]; rfl
      · rw [hs2.c.skipList, k3]
      · rw [hs2.c.emptyItemBlank rfl, k4]
    have ho2 : sBc.pc.opened = [] := by
      have := (closeBlocks_opened _ _ _ _ hclB).2
      rw [this, hopB]
      have e : (((b0 :: rs).length : Int) - 1 + 1).toNat = (b0 :: rs).length := by omega
      rw [e]
      simp
    obtain ⟨rfl, rfl⟩ := xe_linesLoop_nil _ _ _ { ({ SetBO o i sBc with r := rm } : St) with r := rm.advanceLine }
      ho2 _ _ hB2
    have eadv : rm.advanceLine = sB.r.advanceLine := Sh.h2_advanceLine_congr hrc
    refine ⟨rfl, ?_⟩
    refine { nodes := hn2, opened := ho2, keys := hk2, atLine := ?_, source := ?_, pos := ?_, stats := ?_ }
    · show AtLine L rm.advanceLine
      rw [eadv]; exact hat2
    · show rm.advanceLine.source = _
      rw [eadv, GM.Blocks.advanceLine_source]; exact hsrcB
    · show rm.advanceLine.pos = _
      rw [eadv]; exact hposB
    · show ∀ e ∈ sb ++ [{ lineNum := sB.r.line, level := 0, isBlank := true }], e.lineNum ≤ rm.advanceLine.line
      rw [eadv, hlineB2]
      intro e he
      rcases List.mem_append.mp he with he | he
      · obtain ⟨stale, esb, hstale⟩ := hst
        rw [esb] at he
        rcases List.mem_append.mp he with he | he
        · have := hstale e he
          have hdl : (FQ L rest).dl = 0 := rfl
          rw [hdl] at this
          omega
        · obtain ⟨e0, he0, rfl⟩ := List.mem_map.mp he
          have := hsle e0 he0
          have hdl : (FQ L rest).dl = 0 := rfl
          show e0.lineNum + (FQ L rest).dl ≤ _
          rw [hdl]
          omega
      · rw [List.mem_singleton] at he
        rw [he]
        show sB.r.line ≤ _
        rw [hlineB]
        omega

end GM.Blocks.Xs
