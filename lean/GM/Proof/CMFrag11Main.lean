/-
  GM.Proof.CMFrag11Main — stage 11: paragraphs whose lines contain code spans, emphasis and strong emphasis; the phases
  composed.
-/
import GM.Proof.CMFrag13Main
import GM.Proof.CMFrag11Inl
import GM.Proof.CMFragRender11
import GM.Proof.CMFragSpec11

namespace GM.Proof.CMFrag
open GM GM.Text GM.Blocks GM.Spec GM.Spec.CM GM.Spec.CMFrag

/-- the paragraphs of a stage-11 document as byte lines with the extra blank lines in front -/
def itemsOfE (d : EDoc) : List (Nat × List Bytes) :=
  d.items.map fun it => (it.gap, (it.lines.map (·.map eatomOfS)).map elineSrc)

theorem spellEItems_raw : ∀ (first : Bool) (its : List EItem) (trail : Nat),
    spellEItems first its ++ GM.Spec.CMFrag.blanks trail =
      rawDoc6 (paraItems first (its.map fun it => (it.gap, (it.lines.map (·.map eatomOfS)).map elineSrc))) trail
  | _, [], _ => by simp [spellEItems, paraItems, rawDoc6, blanks_eq]
  | first, it :: rest, trail => by
    have ih := spellEItems_raw false rest trail
    have e : it.lines.flatMap (fun l => spellELine l ++ [10]) =
        paraBytes ((it.lines.map (·.map eatomOfS)).map elineSrc) := by
      simp [paraBytes, List.flatMap_map, elineSrc_eatomOfS11]
    simp only [spellEItems, List.map_cons, paraItems, rawDoc6, lines5, lines4, List.append_assoc, ih, e, blanks_eq]

theorem spellE_raw (d : EDoc) : spellE d = rawDoc6 (paraItems true (itemsOfE d)) d.trail :=
  spellEItems_raw true d.items d.trail

theorem efrag_items (d : EDoc) (h : EFrag d) : ∀ it ∈ d.items, eitemOKS it = true := by
  have := h; simp only [EFrag, efragB, List.all_eq_true] at this; exact this

theorem eitem_rich (it : EItem) (h : eitemOKS it = true) : ∀ l ∈ it.lines.map (·.map eatomOfS), ERichLine l := by
  intro l hl
  obtain ⟨r, hr, rfl⟩ := List.mem_map.mp hl
  exact erichLine_eatomOfS11 r ((eitemOKS_lines11 it h).2 r hr)

theorem itemsOfE_blk (d : EDoc) (h : EFrag d) : ∀ it ∈ itemsOfE d, it.2 ≠ [] ∧ ∀ l ∈ it.2, BlkLine l := by
  intro x hx
  obtain ⟨it, hit, rfl⟩ := List.mem_map.mp hx
  have hok := efrag_items d h it hit
  refine ⟨by simpa using (eitemOKS_lines11 it hok).1, ?_⟩
  intro l hl
  obtain ⟨y, hy, rfl⟩ := List.mem_map.mp hl
  exact erichLine_blk (eitem_rich it hok y hy)

theorem parasDT_E (env : GM.Inl.Env) (henv : env.escapedSpace = false) : ∀ (its : List EItem),
    (∀ it ∈ its, eitemOKS it = true) →
    ParasDT env (its.map fun it => (it.gap, (it.lines.map (·.map eatomOfS)).map elineSrc))
      ((its.map fun it => it.lines.map (·.map eatomOfS)).map erichNodes)
  | [], _ => trivial
  | it :: rest, h => by
    have hok := eitem_rich it (h it (by simp))
    have hne : it.lines.map (·.map eatomOfS) ≠ [] := by simpa using (eitemOKS_lines11 it (h it (by simp))).1
    exact ⟨⟨fun p => richKids11 p (it.lines.map (·.map eatomOfS)),
        fun src p hl => parseBlock_rich11 env henv src p _ hne hok hl,
        fun src p hl => inlineTrees_rich11 src p _ hok hl⟩,
      parasDT_E env henv rest (fun x hx => h x (by simp [hx]))⟩

/-- **the conformance theorem of the stage-11 fragment** -/
theorem fragment11_conforms (d : EDoc) (h : EFrag d) (uc : List (Nat × (Bool × Bool))) :
    GM.Convert.convertCore uc cmOpts (spellE d) = .ok (expectedE d) := by
  rw [spellE_raw]
  refine convert_paras_gen uc (itemsOfE d) d.trail ((atomsOfE d).map erichNodes) (expectedE d) (itemsOfE_blk d h)
    (fun env henv => parasDT_E env henv d.items (efrag_items d h)) ?_
  have := renderDoc_expectedE11 d h
  simpa [List.map_map, Function.comp_def] using this

/-- the stage-11 document without its final line feed -/
theorem fragment11_conforms_nofinal (d : EDoc) (h : EFrag d) (hne : d.items ≠ []) (uc : List (Nat × (Bool × Bool))) :
    GM.Convert.convertCore uc cmOpts (rawDoc6E (paraItems true (itemsOfE d))) = .ok (expectedE d) := by
  refine convert_paras_genE uc (itemsOfE d) (by simpa [itemsOfE] using hne) ((atomsOfE d).map erichNodes) (expectedE d)
    (itemsOfE_blk d h) (fun env henv => parasDT_E env henv d.items (efrag_items d h)) ?_
  have := renderDoc_expectedE11 d h
  simpa [List.map_map, Function.comp_def] using this

end GM.Proof.CMFrag
