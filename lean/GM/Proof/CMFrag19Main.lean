/-
  GM.Proof.CMFrag19Main — stage 19: paragraphs whose lines contain raw inline HTML tags; the phases composed.
-/
import GM.Proof.CMFragParas
import GM.Proof.CMFrag8Main
import GM.Proof.CMFrag19Inl
import GM.Proof.CMFragRender19
import GM.Proof.CMFragSpec19

namespace GM.Proof.CMFrag
open GM GM.Text GM.Blocks GM.Spec GM.Spec.CM GM.Spec.CMFrag

theorem hatomSrc_noNl19 (a : HAtom) (h : HAtomOK19 a) : ∀ c ∈ hatomSrc a, c ≠ 10 := by
  cases a with
  | txt bs => exact quiet_no_nl bs 0 false (h.2.1 0)
  | «open» n =>
    intro c hc
    simp only [hatomSrc, List.mem_append, List.mem_cons, List.not_mem_nil, or_false] at hc
    rcases hc with (rfl | hc) | rfl
    · decide
    · exact alnum_ne_lf8 c (h.2.2 c hc)
    · decide
  | close n =>
    intro c hc
    simp only [hatomSrc, List.mem_append, List.mem_cons, List.not_mem_nil, or_false] at hc
    rcases hc with ((rfl | rfl) | hc) | rfl
    · decide
    · decide
    · exact alnum_ne_lf8 c (h.2.2 c hc)
    · decide

theorem hlineSrc19_append (a b : List HAtom) : hlineSrc19 (a ++ b) = hlineSrc19 a ++ hlineSrc19 b := by
  simp [hlineSrc19]

/-- a rich line is good for the block phase -/
theorem hrichLine_blk19 {l : List HAtom} (h : HRichLine19 l) : BlkLine (hlineSrc19 l) := by
  refine ⟨?_, ?_, ?_⟩
  · obtain ⟨bs, rest, e, hf⟩ := h.first
    have hok := h.ok (.txt bs) (by rw [e]; simp)
    cases bs with
    | nil => exact absurd rfl hok.1
    | cons c t =>
      exact ⟨c, t ++ hlineSrc19 rest, by rw [e]; simp [hlineSrc19, hatomSrc], hf c rfl⟩
  · obtain ⟨init, bs, e, hl⟩ := h.last
    have hok := h.ok (.txt bs) (by rw [e]; simp)
    intro c hc
    have e2 : hlineSrc19 l = hlineSrc19 init ++ bs := by rw [e, hlineSrc19_append]; simp [hlineSrc19, hatomSrc]
    rw [e2, List.getLast?_append] at hc
    cases hb : bs.getLast? with
    | none => exact absurd (List.getLast?_eq_none_iff.mp hb) hok.1
    | some z =>
      rw [hb] at hc
      have hc' : z = c := by simpa using hc
      subst hc'
      exact (hl z hb).1
  · intro c hc
    simp only [hlineSrc19, List.mem_flatMap] at hc
    obtain ⟨a, ha, hca⟩ := hc
    exact hatomSrc_noNl19 a (h.ok a ha) c hca

/-- the paragraphs of a stage-19 document as byte lines with the extra blank lines in front -/
def itemsOfH19 (d : H19Doc) : List (Nat × List Bytes) :=
  d.items.map fun it => (it.gap, (it.lines.map (·.map hatomOfS19)).map hlineSrc19)

theorem spellH19Items_raw : ∀ (first : Bool) (its : List H19Item) (trail : Nat),
    spellH19Items first its ++ GM.Spec.CMFrag.blanks trail =
      rawDoc6 (paraItems first (its.map fun it => (it.gap, (it.lines.map (·.map hatomOfS19)).map hlineSrc19))) trail
  | _, [], _ => by simp [spellH19Items, paraItems, rawDoc6, blanks_eq]
  | first, it :: rest, trail => by
    have ih := spellH19Items_raw false rest trail
    have e : it.lines.flatMap (fun l => spellH19Line l ++ [10]) =
        paraBytes ((it.lines.map (·.map hatomOfS19)).map hlineSrc19) := by
      simp [paraBytes, List.flatMap_map, hlineSrc19_hatomOfS19]
    simp only [spellH19Items, List.map_cons, paraItems, rawDoc6, lines5, lines4, List.append_assoc, ih, e, blanks_eq]

theorem spellH19_raw (d : H19Doc) : spellH19 d = rawDoc6 (paraItems true (itemsOfH19 d)) d.trail :=
  spellH19Items_raw true d.items d.trail

theorem h19frag_items (d : H19Doc) (h : H19Frag d) : ∀ it ∈ d.items, h19itemOKS it = true := by
  have := h; simp only [H19Frag, h19fragB, List.all_eq_true] at this; exact this

theorem h19item_rich (it : H19Item) (h : h19itemOKS it = true) : ∀ l ∈ it.lines.map (·.map hatomOfS19), HRichLine19 l := by
  intro l hl
  obtain ⟨r, hr, rfl⟩ := List.mem_map.mp hl
  exact hrichLine_hatomOfS19 r ((h19itemOKS_lines19 it h).2 r hr)

theorem itemsOfH19_blk (d : H19Doc) (h : H19Frag d) : ∀ it ∈ itemsOfH19 d, it.2 ≠ [] ∧ ∀ l ∈ it.2, BlkLine l := by
  intro x hx
  obtain ⟨it, hit, rfl⟩ := List.mem_map.mp hx
  have hok := h19frag_items d h it hit
  refine ⟨by simpa using (h19itemOKS_lines19 it hok).1, ?_⟩
  intro l hl
  obtain ⟨y, hy, rfl⟩ := List.mem_map.mp hl
  exact hrichLine_blk19 (h19item_rich it hok y hy)

theorem parasDT_H19 (env : GM.Inl.Env) (henv : env.escapedSpace = false) : ∀ (its : List H19Item),
    (∀ it ∈ its, h19itemOKS it = true) →
    ParasDT env (its.map fun it => (it.gap, (it.lines.map (·.map hatomOfS19)).map hlineSrc19))
      ((its.map fun it => it.lines.map (·.map hatomOfS19)).map hrichNodes19)
  | [], _ => trivial
  | it :: rest, h => by
    have hok := h19item_rich it (h it (by simp))
    have hne : it.lines.map (·.map hatomOfS19) ≠ [] := by simpa using (h19itemOKS_lines19 it (h it (by simp))).1
    exact ⟨⟨fun p => richKids19 p (it.lines.map (·.map hatomOfS19)),
        fun src p hl => parseBlock_rich19 env henv src p _ hne hok hl,
        fun src p hl => inlineTrees_rich19 src p _ hok hl⟩,
      parasDT_H19 env henv rest (fun x hx => h x (by simp [hx]))⟩

/-- **the conformance theorem of the stage-19 fragment** -/
theorem fragment19_conforms (d : H19Doc) (h : H19Frag d) (uc : List (Nat × (Bool × Bool))) :
    GM.Convert.convertCore uc cmOpts (spellH19 d) = .ok (expectedH19 d) := by
  rw [spellH19_raw]
  refine convert_paras_gen uc (itemsOfH19 d) d.trail ((atomsOfH19 d).map hrichNodes19) (expectedH19 d) (itemsOfH19_blk d h)
    (fun env henv => parasDT_H19 env henv d.items (h19frag_items d h)) ?_
  have := renderDoc_expectedH19 d h
  simpa [List.map_map, Function.comp_def] using this

/-- the stage-19 document without its final line feed -/
theorem fragment19_conforms_nofinal (d : H19Doc) (h : H19Frag d) (hne : d.items ≠ []) (uc : List (Nat × (Bool × Bool))) :
    GM.Convert.convertCore uc cmOpts (rawDoc6E (paraItems true (itemsOfH19 d))) = .ok (expectedH19 d) := by
  refine convert_paras_genE uc (itemsOfH19 d) (by simpa [itemsOfH19] using hne) ((atomsOfH19 d).map hrichNodes19) (expectedH19 d)
    (itemsOfH19_blk d h) (fun env henv => parasDT_H19 env henv d.items (h19frag_items d h)) ?_
  have := renderDoc_expectedH19 d h
  simpa [List.map_map, Function.comp_def] using this

end GM.Proof.CMFrag
