/-
  GM.Proof.CMFragSpec18 — the stage-18 fragment (paragraphs whose lines contain URI autolinks `<s:r>`) of GM.Spec.CMFrag
  inside the spec model GM.Spec.CommonMark:
  * `expectedAD_eq_expected`: the prescribed HTML of a stage-18 document is `expected` of the embedded document (the
    reference renderer's percent-encoding `urlEnc` and its HTML escaping are the identity on a URI of letters, digits,
    `/`, `.` and `:`: `urlEnc_uri_s18`, `escHtml_uri_s18`);
  * `spellAD_eq_spell`: for a NON-EMPTY stage-18 document without extra blank lines the source is `spell` of the
    embedded document, byte for byte.
-/
import GM.Proof.CMFragSpec16
namespace GM.Proof.CMFrag
open GM GM.Spec.CM GM.Spec.CMFrag

/-! ### URIs of letters, digits, `/`, `.` and `:` -/

/-- a byte of the URI of a stage-18 autolink -/
def isUriC_s18 (c : UInt8) : Bool := isAlnumC c || c == 47 || c == 46 || c == 58

theorem uriC_facts_s18 : ∀ c : UInt8, (isLetter c = true → isUriC_s18 c = true) ∧ (isAutoC c = true → isUriC_s18 c = true) ∧
    (isUriC_s18 c = true → c ≠ 37 ∧ urlKeep c = true ∧ escHtmlByte c = [c] ∧ printable c = true) :=
  GM.forall_uint8 _ (by decide +kernel)

theorem urlEnc_uri_s18 (d : Bytes) (h : ∀ c ∈ d, isUriC_s18 c = true) : urlEnc d = d := by
  induction d with
  | nil => rfl
  | cons c rest ih =>
    have hc := (uriC_facts_s18 c).2.2 (h c (by simp))
    have ih' := ih (fun x hx => h x (by simp [hx]))
    unfold urlEnc
    split
    · rename_i heq; cases heq
    · rename_i heq
      injection heq with h1 _
      exact absurd h1 hc.1
    · rename_i heq
      injection heq with h1 h2
      subst h1; subst h2
      simp [hc.2.1, ih']

theorem escHtml_uri_s18 (d : Bytes) (h : ∀ c ∈ d, isUriC_s18 c = true) : escHtml d = d := by
  induction d with
  | nil => rfl
  | cons c rest ih =>
    have := ih (fun x hx => h x (by simp [hx]))
    simp only [escHtml, List.flatMap_cons] at this ⊢
    rw [this, ((uriC_facts_s18 c).2.2 (h c (by simp))).2.2.1]
    rfl

/-- what `aatomOKS` says about an autolink: every byte of its URI is a letter, a digit, `/`, `.` or `:` -/
theorem aatomOKS_auto_s18 (s r : Bytes) (h : aatomOKS (.auto s r) = true) : ∀ c ∈ autoUri s r, isUriC_s18 c = true := by
  simp only [aatomOKS, Bool.and_eq_true, Bool.not_eq_true', List.isEmpty_eq_false_iff, List.all_eq_true,
    decide_eq_true_eq] at h
  intro c hc
  simp only [autoUri, List.mem_append, List.mem_singleton] at hc
  rcases hc with (hc | hc) | hc
  · exact (uriC_facts_s18 c).1 (h.1.1.2 c hc)
  · subst hc; rfl
  · exact (uriC_facts_s18 c).2.1 (h.2 c hc)

/-! ### S1: prescribed HTML -/

theorem render_expI_atom18 (a : AAtomS) (h : aatomOKS a = true) : render (expI (aembedAtom a)) = expAAtom a := by
  cases a with
  | txt cs => simp [aembedAtom, expI, render, renderPiece, expAAtom]
  | auto s r =>
    have hu := aatomOKS_auto_s18 s r h
    have h1 : strBytes "<a href=\"" = [60] ++ strBytes "a" ++ ([32] ++ strBytes "href" ++ strBytes "=\"") := by
      decide +kernel
    have h2 : strBytes "\">" = [34] ++ [62] := by decide +kernel
    have h3 : strBytes "</a>" = [60, 47] ++ strBytes "a" ++ [62] := by decide +kernel
    rw [aembedAtom, expI]
    simp only [Bool.false_eq_true, if_false, List.nil_append]
    rw [urlEnc_uri_s18 _ hu, escHtml_uri_s18 _ hu, expAAtom, h1, h2, h3]
    simp [wrap, render, renderPiece, attr]

theorem render_expIs_line18 (l : ALine) (h : ∀ a ∈ l, aatomOKS a = true) :
    render (expIs (l.map aembedAtom)) = expALine l := by
  induction l with
  | nil => simp [expIs, render, expALine]
  | cons a rest ih =>
    rw [List.map_cons, expIs, render_append, ih (fun x hx => h x (by simp [hx])),
      render_expI_atom18 a (h a (by simp))]
    simp [expALine]

theorem render_expIs_aembedLines18 (ls : List ALine) (h : ∀ l ∈ ls, ∀ a ∈ l, aatomOKS a = true) :
    render (expIs (aembedLines ls)) = GM.Spec.CMFrag.joinNl (ls.map expALine) := by
  induction ls with
  | nil => simp [aembedLines, expIs, render, GM.Spec.CMFrag.joinNl]
  | cons l rest ih =>
    cases rest with
    | nil => simp [aembedLines, GM.Spec.CMFrag.joinNl, render_expIs_line18 l (h l (by simp))]
    | cons l' rest =>
      have e : aembedLines (l :: l' :: rest) = l.map aembedAtom ++ .softBreak :: aembedLines (l' :: rest) := rfl
      rw [e, expIs_append11, render_append, render_expIs_line18 l (h l (by simp)), expIs, render_append,
        ih (fun x hx => h x (by simp [hx]))]
      simp [expI, render, renderPiece, nl, GM.Spec.CMFrag.joinNl]

theorem render_expB_apara18 (ls : List ALine) (g : Nat) (h : ∀ l ∈ ls, ∀ a ∈ l, aatomOKS a = true) :
    render (expB false false (.para {} (aembedLines ls) 0)) = expAItem ⟨g, ls⟩ := by
  rw [expB]
  simp only [wrap, Bool.false_eq_true, if_false, List.cons_append]
  have h1 : strBytes "<p>" = [60] ++ strBytes "p" ++ [62] := by decide +kernel
  have h2 : strBytes "</p>\n" = [60, 47] ++ strBytes "p" ++ [62] ++ [10] := by decide +kernel
  rw [expAItem, h1, h2, ← render_expIs_aembedLines18 ls h]
  simp [render, renderPiece, nl]

theorem alineOKS_atoms_s18 (l : ALine) (h : alineOKS l = true) : ∀ a ∈ l, aatomOKS a = true := by
  simp only [alineOKS, Bool.and_eq_true, List.all_eq_true] at h
  exact h.2

theorem aitemOKS_parts18 (it : AItem) (h : aitemOKS it = true) : it.lines ≠ [] ∧ ∀ l ∈ it.lines, alineOKS l = true := by
  simp only [aitemOKS, Bool.and_eq_true, Bool.not_eq_true', List.isEmpty_eq_false_iff, List.all_eq_true] at h
  exact h

theorem render_expBs_aembed18 (its : List AItem) (hok : ∀ it ∈ its, aitemOKS it = true) :
    render (expBs false false (its.map fun it => .para {} (aembedLines it.lines) 0)) = its.flatMap expAItem := by
  induction its with
  | nil => simp [expBs, render]
  | cons it rest ih =>
    have hit := (aitemOKS_parts18 it (hok it (by simp))).2
    obtain ⟨g, ls⟩ := it
    rw [List.map_cons, expBs, render_append, ih (fun x hx => hok x (by simp [hx]))]
    simp [render_expB_apara18 ls g (fun l hl => alineOKS_atoms_s18 l (hit l hl))]

/-- S1 -/
theorem expectedAD_eq_expected (d : ADoc) (h : AFrag d) : expectedAD d = expected (aembed d) := by
  have hok : ∀ it ∈ d.items, aitemOKS it = true := by
    have := h; simp only [AFrag, afragB, List.all_eq_true] at this; exact this
  rw [expected, expectedPieces, aembed, expectedAD, render_expBs_aembed18 _ hok]

/-! ### S2: source -/

/-! #### `spellIs` on text, autolinks and soft breaks: no dependence on the neighbours -/

def simple18 : Inline → Bool
  | .text _ => true
  | .autolink .. => true
  | .softBreak => true
  | _ => false

theorem spellI_simple18 (x : Inline) (h : simple18 x = true) (pa na : Bool) : spellI pa na x = spellI false false x := by
  cases x with
  | text _ => simp only [spellI]
  | autolink _ _ => simp only [spellI]
  | softBreak => simp only [spellI]
  | _ => cases h

theorem spellIs_simple18 (ks : List Inline) (h : ∀ x ∈ ks, simple18 x = true) (pa : Bool) :
    spellIs pa ks = ks.flatMap (spellI false false) := by
  induction ks generalizing pa with
  | nil => simp [spellIs]
  | cons x rest ih =>
    simp only [spellIs]
    rw [spellI_simple18 x (h x (by simp)), ih (fun y hy => h y (by simp [hy]))]
    simp

theorem simple_aembedAtom18 (a : AAtomS) : simple18 (aembedAtom a) = true := by cases a <;> rfl

theorem simple_aembedLines18 (ls : List ALine) : ∀ x ∈ aembedLines ls, simple18 x = true := by
  induction ls with
  | nil => simp [aembedLines]
  | cons l rest ih =>
    cases rest with
    | nil =>
      intro x hx
      simp only [aembedLines, List.mem_map] at hx
      obtain ⟨a, _, rfl⟩ := hx
      exact simple_aembedAtom18 a
    | cons l' rest =>
      have e : aembedLines (l :: l' :: rest) = l.map aembedAtom ++ .softBreak :: aembedLines (l' :: rest) := rfl
      intro x hx
      rw [e] at hx
      rcases List.mem_append.mp hx with hx | hx
      · obtain ⟨a, _, rfl⟩ := List.mem_map.mp hx
        exact simple_aembedAtom18 a
      · rcases List.mem_cons.mp hx with rfl | hx
        · rfl
        · exact ih x hx

theorem spellI_aembedAtom18 (a : AAtomS) (_h : aatomOKS a = true) : spellI false false (aembedAtom a) = spellAAtom a := by
  cases a with
  | txt cs => simp only [aembedAtom, spellI, spellAAtom]
  | auto s r => simp only [aembedAtom, spellI, spellAAtom]

theorem flat_line18 (l : ALine) (h : ∀ a ∈ l, aatomOKS a = true) :
    (l.map aembedAtom).flatMap (spellI false false) = spellALine l := by
  induction l with
  | nil => rfl
  | cons a rest ih =>
    simp only [List.map_cons, List.flatMap_cons, spellALine] at ih ⊢
    rw [spellI_aembedAtom18 a (h a (by simp)), ih (fun x hx => h x (by simp [hx]))]

theorem flat_aembedLines18 (ls : List ALine) (h : ∀ l ∈ ls, ∀ a ∈ l, aatomOKS a = true) :
    (aembedLines ls).flatMap (spellI false false) = GM.Spec.CMFrag.joinNl (ls.map spellALine) := by
  induction ls with
  | nil => simp [aembedLines, GM.Spec.CMFrag.joinNl]
  | cons l rest ih =>
    cases rest with
    | nil => simp [aembedLines, GM.Spec.CMFrag.joinNl, flat_line18 l (h l (by simp))]
    | cons l' rest =>
      have e : aembedLines (l :: l' :: rest) = l.map aembedAtom ++ .softBreak :: aembedLines (l' :: rest) := rfl
      rw [e, List.flatMap_append, List.flatMap_cons, flat_line18 l (h l (by simp)),
        ih (fun x hx => h x (by simp [hx]))]
      simp [spellI, GM.Spec.CMFrag.joinNl]

theorem spellIs_aembedLines18 (ls : List ALine) (h : ∀ l ∈ ls, ∀ a ∈ l, aatomOKS a = true) (pa : Bool) :
    spellIs pa (aembedLines ls) = GM.Spec.CMFrag.joinNl (ls.map spellALine) := by
  rw [spellIs_simple18 _ (simple_aembedLines18 ls), flat_aembedLines18 ls h]

/-! #### the lines of a document -/

theorem spellAAtom_printable18 (a : AAtomS) (h : aatomOKS a = true) : (spellAAtom a).all printable = true := by
  cases a with
  | txt cs =>
    simp only [aatomOKS, Bool.and_eq_true, List.all_eq_true] at h
    exact escSpell_printable cs (fun t ht => charOK_printable t (h.2 t ht))
  | auto s r =>
    have hu := aatomOKS_auto_s18 s r h
    simp only [spellAAtom, List.all_append, Bool.and_eq_true, List.all_eq_true]
    exact ⟨⟨by decide, fun x hx => ((uriC_facts_s18 x).2.2 (hu x hx)).2.2.2⟩, by decide⟩

theorem spellALine_printable18 (l : ALine) (h : alineOKS l = true) : ∀ c ∈ spellALine l, printable c = true := by
  intro c hc
  simp only [spellALine, List.mem_flatMap] at hc
  obtain ⟨a, ha, hca⟩ := hc
  exact List.all_eq_true.mp (spellAAtom_printable18 a (alineOKS_atoms_s18 l h a ha)) c hca

theorem paraLines_aembed18 (ls : List ALine) (hne : ls ≠ []) (hok : ∀ l ∈ ls, alineOKS l = true) :
    (paraLines 0 0 (spellIs false (aembedLines ls))).map (renderLine 0 0 0 0) = ls.map spellALine := by
  have hpr : ∀ b ∈ ls.map spellALine, ∀ c ∈ b, printable c = true := by
    intro b hb c hc
    obtain ⟨l, hl, rfl⟩ := List.mem_map.mp hb
    exact spellALine_printable18 l (hok l hl) c hc
  have hsplit := splitLines_joinNl (ls.map spellALine) (by simpa using hne)
    (fun b hb c hc => (printable_facts c (hpr b hb c hc)).1)
  rw [paraLines, spellIs_aembedLines18 ls (fun l hl => alineOKS_atoms_s18 l (hok l hl)), hsplit]
  cases hls : ls.map spellALine with
  | nil => simp at hls; exact absurd hls hne
  | cons f rest =>
    rw [hls] at hpr
    simp only [List.map_cons, List.map_map]
    congr 1
    · exact renderLine_plain f (fun c hc => (printable_facts c (hpr f (by simp) c hc)).2)
    · conv => rhs; rw [← List.map_id rest]
      apply List.map_congr_left
      intro b hb
      exact renderLine_plain b (fun c hc => (printable_facts c (hpr b (by simp [hb]) c hc)).2)

/-- the source lines of the items (a blank line in front of every item but the first) -/
def docLinesA18 (first : Bool) : List AItem → List Bytes
  | [] => []
  | it :: rest => (if first then [] else [[]]) ++ it.lines.map spellALine ++ docLinesA18 false rest

theorem spellBs_aembed18 (its : List AItem) (hok : ∀ it ∈ its, aitemOKS it = true) (prev pm : Nat) :
    (spellBs false false prev pm (its.map fun it => .para {} (aembedLines it.lines) 0)).map (renderLine 0 0 0 0) =
      docLinesA18 (prev == 0) its := by
  induction its generalizing prev pm with
  | nil => simp [spellBs, docLinesA18]
  | cons it rest ih =>
    obtain ⟨hne, hls⟩ := aitemOKS_parts18 it (hok it (by simp))
    have hp := paraLines_aembed18 it.lines hne hls
    have ih' := ih (fun x hx => hok x (by simp [hx])) 1 0
    rw [List.map_cons, spellBs_para, List.map_append, List.map_append, hp, ih', docLinesA18]
    by_cases h0 : prev = 0
    · subst h0; simp
    · have : (prev == 0) = false := by simpa using h0
      simp [this, renderLine_blank]

theorem docLinesA_flatMap18 (its : List AItem) (hg : ∀ it ∈ its, it.gap = 0) (first : Bool) :
    (docLinesA18 first its).flatMap (· ++ [10]) = spellAItems first its := by
  induction its generalizing first with
  | nil => simp [docLinesA18, spellAItems]
  | cons it rest ih =>
    obtain ⟨g, ls⟩ := it
    have hg0 : g = 0 := hg ⟨g, ls⟩ (by simp)
    subst hg0
    rw [docLinesA18, spellAItems, List.flatMap_append, List.flatMap_append, ih (fun x hx => hg x (by simp [hx]))]
    cases first
    · simp [blanks, List.flatMap_map]
    · simp [blanks, List.flatMap_map]

theorem docLinesA_ne18 (it : AItem) (rest : List AItem) (h : aitemOKS it = true) :
    docLinesA18 true (it :: rest) ≠ [] := by
  obtain ⟨hne, _⟩ := aitemOKS_parts18 it h
  obtain ⟨g, ls⟩ := it
  cases ls with
  | nil => exact absurd rfl hne
  | cons l ls => simp [docLinesA18]

/-- S2: a non-empty stage-18 document without extra blank lines is spelled byte for byte like the embedded one -/
theorem spellAD_eq_spell (d : ADoc) (h : AFrag d) (hb : anoExtraBlanks d = true) (hne : d.items ≠ []) :
    spellAD d = spell (aembed d) := by
  obtain ⟨items, trail⟩ := d
  simp only [anoExtraBlanks, Bool.and_eq_true, beq_iff_eq, List.all_eq_true] at hb
  obtain ⟨ht, hg⟩ := hb
  simp only at ht hne; subst ht
  have hok : ∀ it ∈ items, aitemOKS it = true := by
    have := h; simp only [AFrag, afragB, List.all_eq_true] at this; exact this
  have hl := spellBs_aembed18 items hok 0 0
  cases items with
  | nil => exact absurd rfl hne
  | cons it rest =>
    have hdn := docLinesA_ne18 it rest (hok it (by simp))
    simp only [spell, aembed, spellAD, blanks, List.replicate_zero, List.append_nil, if_true]
    rw [hl]
    simp only [beq_self_eq_true]
    rw [joinLines_flatMap _ hdn, docLinesA_flatMap18 _ hg]

end GM.Proof.CMFrag
