/-
  GM.Proof.CMFrag7Defs — stage 7 (a missing final line feed): the lines of the LAST block of a document whose last line
  has no line feed.
-/
import GM.Proof.CMFrag6Run

namespace GM.Proof.CMFrag
open GM GM.Text GM.Blocks

/-- the lines `ls` of a block lie in `src` from byte `p` on, the last one WITHOUT a line feed and ending the source -/
def ParaAtE (src : Bytes) : Nat → List Bytes → Prop
  | _, [] => False
  | p, [l] => Ln src p (p + l.length) l ∧ p + l.length = src.length
  | p, l :: l' :: rest => Ln src p (p + l.length + 1) (l ++ [10]) ∧ ParaAtE src (p + l.length + 1) (l' :: rest)

/-- the source bytes of such a block: no line feed behind the last line -/
def paraBytesE : List Bytes → Bytes
  | [] => []
  | [l] => l
  | l :: l' :: rest => l ++ [10] ++ paraBytesE (l' :: rest)

end GM.Proof.CMFrag
