/-
  GM.Proof.BlocksTNO35 — X-port of GM.Proof.BlocksTNO10: the two-transformer lists agree (`agreeP_two`), the checked
  twins `[guardE e, tableE e src]` meet the wide contract, and whole runs: with the table transformer behind the link
  reference transformer the run-time checks never fire, the block phase ends normally, and `InvG` holds of the final store.
-/
import GM.Proof.BlocksTNO34

namespace GM.Blocks.TX
open GM GM.Text GM.Spec GM.Proof.Reader GM.Blocks.L GM.Blocks.T GM.LinkRef GM.Blocks.TO GM.TableX
open GM.Proof.BlocksWF0 (isRaw)

theorem wfSegsFrom_tbl (src : Bytes) : ∀ (segs : List Segment) (lo : Int), 0 ≤ lo → wfSegsFromB src lo segs = true →
    TO.tblLinesB src segs = true
  | [], _, _, _ => rfl
  | sg :: rest, lo, hlo, h => by
    simp only [wfSegsFromB, Bool.and_eq_true, decide_eq_true_eq, Bool.not_eq_true'] at h
    obtain ⟨⟨⟨⟨⟨h1, h2⟩, h3⟩, h4⟩, h5⟩, h6⟩ := h
    have ih := wfSegsFrom_tbl src rest sg.stop (by omega) h6
    unfold TO.tblLinesB at ih ⊢
    simp only [List.all_cons, Bool.and_eq_true]
    refine ⟨?_, ih⟩
    simp only [validB, Bool.and_eq_true, decide_eq_true_eq, Bool.not_eq_true']
    exact ⟨⟨⟨⟨⟨by omega, by omega⟩, h3⟩, h4⟩, h5⟩, h2⟩

theorem tblLinesB_of_linesOKB {src : Bytes} {ls : List Segment} (h : linesOKB src ls = true) : TO.tblLinesB src ls = true := by
  unfold linesOKB at h
  simp only [Bool.or_eq_true, beq_iff_eq, Bool.and_eq_true] at h
  rcases h with h | ⟨h, _⟩
  · rw [List.length_eq_zero_iff.1 h]; rfl
  · unfold wfSegsB at h
    simp only [Bool.and_eq_true] at h
    exact wfSegsFrom_tbl src ls 0 (Int.le_refl _) h.2

theorem tblLinesB_drop {src : Bytes} {ls : List Segment} (k : Nat) (h : TO.tblLinesB src ls = true) :
    TO.tblLinesB src (ls.drop k) = true := by
  unfold TO.tblLinesB at h ⊢
  simp only [List.all_eq_true] at *
  exact fun x hx => h x (List.mem_of_mem_drop hx)

/-- two lists `[a, b]` whose first transformers are `GM.LinkRef.transform` on lines that pass its check and whose second
    transformers are `transformPT src` on fit lines do the same, and what `PTPostX` says -/
theorem agreeP_two (src : Bytes) (a1 a2 b1 b2 : PT)
    (ha1 : ∀ (node : Nat) (s : St), linesOKB s.r.source (nd s node).lines = true → a1 node s = transform node s)
    (ha2 : ∀ (node : Nat) (s : St), linesOKB s.r.source (nd s node).lines = true → a2 node s = transform node s)
    (hb1 : ∀ (node : Nat) (s : St), TO.tblLinesB src (nd s node).lines = true → b1 node s = transformPT src node s)
    (hb2 : ∀ (node : Nat) (s : St), TO.tblLinesB src (nd s node).lines = true → b2 node s = transformPT src node s) :
    AgreeP src [a1, b1] [a2, b2] := by
  intro node s hsrc hlt _ _ hok
  have hok' : linesOKB s.r.source (nd s node).lines = true := by rw [hsrc]; exact hok
  unfold transformParagraph
  refine EQV.bind (P := fun _ s1 => PTPost node s s1) ⟨by rw [ha1 node s hok', ha2 node s hok'], fun a s1 e => ?_⟩
    (fun _ s1 _ h1 => ?_)
  · rw [ha1 node s hok'] at e
    exact TO.transform_post node s s1 (GM.Proof.LinkRefTot2.linesOKB_sound hok') e
  · refine EQV.bind_same (fun n s2 h2 => ?_)
    obtain ⟨hn, hs2⟩ := ogetNode_ok h2
    subst s2
    refine EQV.ite (fun _ => EQV.pure ⟨.inl h1, fun h => by cases h⟩) (fun _ => ?_)
    have hv1 : TO.tblLinesB src (nd s1 node).lines = true := by
      obtain ⟨k, hk⟩ := ptpost_lines hlt h1 node
      rw [hk]; exact tblLinesB_drop k (tblLinesB_of_linesOKB hok)
    unfold transformParagraph
    refine EQV.bind (P := fun _ s3 => PTPostX src node s s3) ⟨by rw [hb1 node s1 hv1, hb2 node s1 hv1], fun a s3 e => ?_⟩
      (fun _ s3 _ h3 => ?_)
    · rw [hb1 node s1 hv1] at e
      rcases transformPT_data src e with ⟨_, hs⟩ | ⟨t, htb, _, hT⟩
      · subst hs; exact .inl h1
      · exact .inr ⟨s1, t, h1, htb, hT⟩
    · refine EQV.bind_same (fun n4 s4 h4 => ?_)
      obtain ⟨hn4, hs4⟩ := ogetNode_ok h4
      subst s4
      refine EQV.ite (fun _ => EQV.pure ⟨h3, fun h => by cases h⟩) (fun hc => ?_)
      unfold transformParagraph
      refine EQV.pure ⟨h3, fun _ => ?_⟩
      cases hp : (nd s3 node).parent with
      | none =>
        exfalso; apply hc; rw [hn4]
        show (nd s3 node).parent.isNone = true
        rw [hp]; rfl
      | some q => rfl

theorem agreeP_twins (src : Bytes) (e : Panic) : AgreeP src [guardE e, tableE e src] [transform, transformPT src] :=
  agreeP_two src _ _ _ _ (fun node s h => GM.Proof.LinkRefTot2.guardE_passes e node s h) (fun _ _ _ => rfl)
    (fun node s h => tableE_passes e src node s h) (fun _ _ _ => rfl)

theorem agreeP_twins_guarded (src : Bytes) (e : Panic) :
    AgreeP src [guardE e, tableE e src] [guardedTransform, transformPT src] :=
  agreeP_two src _ _ _ _ (fun node s h => GM.Proof.LinkRefTot2.guardE_passes e node s h)
    (fun node s h => guardedTransform_passes node s h)
    (fun node s h => tableE_passes e src node s h) (fun _ _ _ => rfl)

/-! ### the checked twins against the wide contract -/

theorem tableE_ptok (e : Panic) (he : e ≠ .loop) (src : Bytes) : PTOK (tableE e src) := by
  intro I hI node
  constructor
  intro s hs
  by_cases hv : TO.tblLinesB src (nd s node).lines = true
  · rw [tableE_passes e src node s hv]
    exact (GM.Blocks.transformPT_ptok src I hI node).h s hs
  · rw [tableE_fails e src node s hv]
    exact he

theorem twins_specX (src : Bytes) (e : Panic) : GM.Blocks.L.G.X.PTsSpecX src e [guardE e, tableE e src] := by
  intro pt hpt
  simp only [List.mem_cons, List.not_mem_nil, or_false] at hpt
  rcases hpt with rfl | rfl
  · exact GM.Blocks.L.G.X.ptSpecX_of_ptSpec (GM.Proof.LinkRefTot2.guardE_spec src e)
  · exact tableE_specX src e

theorem twins_ptsOK (src : Bytes) (e : Panic) (he : e ≠ .loop) : PTsOK [guardE e, tableE e src] := by
  intro pt hpt
  simp only [List.mem_cons, List.not_mem_nil, or_false] at hpt
  rcases hpt with rfl | rfl
  · exact GM.Proof.LinkRefTot2.guardE_ptok e he
  · exact tableE_ptok e he src

/-! ### whole runs -/

section run
variable {src : Bytes} {e : Panic} {pts1 pts2 : List PT}

/-- the two runs are the same, and a normal end satisfies the order invariant -/
theorem runT_eqg (hag : AgreeP src pts1 pts2) (hsp : GM.Blocks.L.G.X.PTsSpecX src e pts1) :
    runT pts1 src = runT pts2 src ∧ ∀ s, runT pts1 src = .ok s → ∃ E, InvG src E s := by
  have hnd0 : ∀ i, nd ({ (initSt src) with pc := { (initSt src).pc with opened := [] } } : St) i =
      if i = 0 then { kind := .document } else default := by
    intro i
    cases i with
    | zero => rfl
    | succ n => rfl
  have hnodes0 : NodesOK src { (initSt src) with pc := { (initSt src).pc with opened := [] } } := by
    intro n hn
    simp only [initSt, List.mem_singleton] at hn
    subst hn
    exact ⟨by intro t ht; simp at ht, fun _ => rfl⟩
  have hinit : GM.Blocks.L.G.X.StableG src 0 { (initSt src) with pc := { (initSt src).pc with opened := [] } } := by
    refine ⟨hnodes0, ⟨?_⟩, ?_, ?_, ⟨⟨?_, ?_, ?_⟩, ?_, ?_, ?_, ?_, ?_⟩, ?_, ?_, (fun ⟨b, hb, _⟩ => by simp at hb), ?tree,
      (fun lb hlb _ => by simp at hlb), (fun t h => by simp [initSt] at h)⟩
    case tree =>
      refine ⟨fun i p hp => ?_, fun p i hi => ?_, fun p => ?_⟩
      · rw [hnd0] at hp; split at hp <;> cases hp
      · rw [hnd0] at hi; split at hi <;> cases hi
      · rw [hnd0]; split <;> exact List.nodup_nil
    · intro f h; simp [initSt] at h
    · intro b hb; simp at hb
    · intro b hb; simp at hb
    · intro i lc hk; rw [hnd0] at hk; split at hk <;> cases hk
    · intro i hk; rw [hnd0] at hk; split at hk <;> cases hk
    · intro i p hp; rw [hnd0] at hp; split at hp <;> cases hp
    · intro i p hp; rw [hnd0] at hp; split at hp <;> cases hp
    · rw [hnd0]; rfl
    · simp [initSt]
    · intro b hb; simp at hb
    · simp
    · trivial
    · show (nd _ (lastNode 0 [])).kind ≠ .list
      rw [lastNode_nil, hnd0]; decide
  have hinv0 : InvG src ((RCur.init).p : Int) { (initSt src) with pc := { (initSt src).pc with opened := [] } } := by
    refine ⟨fun i _ _ => ?_, List.Pairwise.nil, fun i hk => ?_, fun t ht => ?_, fun b hb => ?_, hnodes0, fun t ht => ?_,
      fun i _ => ?_, fun i hk => ?_, fun b hb => (by simp at hb)⟩
    · rw [hnd0]; split
      · exact ⟨trivial, fun _ => Below.nil _, fun t ht => by cases ht⟩
      · exact ⟨trivial, fun _ => Below.nil _, fun t ht => by cases ht⟩
    · rw [hnd0] at hk; split at hk <;> cases hk
    · simp [initSt] at ht
    · simp at hb
    · simp [initSt] at ht
    · rw [hnd0]; split
      · exact ⟨trivial, Below.nil _⟩
      · exact ⟨trivial, Below.nil _⟩
    · rw [hnd0] at hk; split at hk <;> cases hk
  have hb := blocksLoopT_eqg (lsp_all src) hag hsp 0 rfl (linesFuel src) []
    { (initSt src) with pc := { (initSt src).pc with opened := [] } } RCur.init (ri_init src)
    (fun h => absurd rfl h) hinit rfl hinv0 rfl
  have hp : ∀ pts : List PT, parseBlocksT pts 0 (initSt src) = blocksLoopT pts 0 (linesFuel src) []
      { (initSt src) with pc := { (initSt src).pc with opened := [] } } := fun pts => rfl
  unfold runT
  rw [hp pts1, hp pts2, ← hb.1]
  refine ⟨rfl, fun s hs => ?_⟩
  cases hx : blocksLoopT pts1 0 (linesFuel src) [] { (initSt src) with pc := { (initSt src).pc with opened := [] } } with
  | error e' => rw [hx] at hs; cases hs
  | ok p =>
    obtain ⟨u, s1⟩ := p
    rw [hx] at hs
    have : s1 = s := by simpa [Except.map] using hs
    subst this
    exact hb.2 u s1 hx

end run


/-- **the run-time checks of the twins never fire**: the block phase with `[guardE e, tableE e src]` and the block phase
    with `[transform, transformPT src]` are the same run -/
theorem twins_never_fire (src : Bytes) (e : Panic) :
    runT [guardE e, tableE e src] src = runT [transform, transformPT src] src :=
  (runT_eqg (agreeP_twins src e) (twins_specX src e)).1

/-- **the block phase with the link reference transformer and the table transformer ends normally** -/
theorem runT_tableX_total (src : Bytes) :
    ∃ s, runT [transform, transformPT src] src = .ok s ∧ NodesOK src s := by
  have h1 := GM.Blocks.T.runT_totalX src .nil [guardE .nil, tableE .nil src] (twins_specX src .nil)
    (twins_ptsOK src .nil (by decide))
  have h2 := GM.Blocks.T.runT_totalX src .slice [guardE .slice, tableE .slice src] (twins_specX src .slice)
    (twins_ptsOK src .slice (by decide))
  rw [twins_never_fire src _] at h1 h2
  rcases h1 with ⟨s, a, b, _⟩ | h1
  · exact ⟨s, a, b⟩
  · rcases h2 with ⟨s, a, b, _⟩ | h2
    · exact ⟨s, a, b⟩
    · rw [h1] at h2; cases h2

/-- the check of `guardedTransform` never fires in front of the table transformer either -/
theorem guarded_tableX_eq (src : Bytes) :
    runT [guardedTransform, transformPT src] src = runT [transform, transformPT src] src := by
  have h1 := (runT_eqg (agreeP_twins src .nil) (twins_specX src .nil)).1
  have h2 := (runT_eqg (agreeP_twins_guarded src .nil) (twins_specX src .nil)).1
  rw [← h2, h1]

/-- the order invariant of the final store -/
theorem runT_tableX_inv (src : Bytes) (s : St) (hr : runT [transform, transformPT src] src = .ok s) :
    ∃ E, InvG src E s := by
  rw [← twins_never_fire src .nil] at hr
  exact (runT_eqg (agreeP_twins src .nil) (twins_specX src .nil)).2 s hr

end GM.Blocks.TX
