/-
  GM.Proof.ShiftSimXReach — `Reach a h b sa sh sd` (GM.Proof.ShiftSimCompose) for a NON-EMPTY first part `a` that ends with
  a line feed, from the fact that the run on the joined document stands at the top of `blocksLoop` with nothing open, the
  store of `run a`, and its `skipBlankLines` takes it to the heading line (`AtHeading`).
-/
import GM.Proof.ShiftSimCompose
import GM.Proof.ShiftSimEndC

namespace GM.Blocks.Sh
open GM GM.Text GM.Spec GM.Proof.Reader GM.Blocks

/-- run B (on the joined document) stands at the top of `blocksLoop`: nothing open, keys reset, the store is `N`; the
    `skipBlankLines` at the top of the loop takes it to the heading line -/
structure AtHeading (a h b : Bytes) (N : List Node) (s1 : St) (stats1 : List LineStat) : Prop where
  nodes : s1.nodes = N
  opened : s1.pc.opened = []
  tmpPara : s1.pc.tmpPara = none
  fence : s1.pc.fence = none
  skipList : s1.pc.skipList = false
  eib : s1.pc.emptyItemBlank = false
  skip : ∃ x s1', skipBlankLinesR s1 = .ok (x, s1') ∧ x.2.2 = true ∧ s1'.nodes = s1.nodes ∧ s1'.pc = s1.pc ∧
    AtLine (hlB h) s1'.r ∧ AtLine [10] s1'.r.advanceLine ∧
    s1'.r.source = a ++ 10 :: (hlB h ++ 10 :: b) ∧
    s1'.r.pos = { start := ((a.length + 1 : Nat) : Int), stop := ((a.length + 1 + (h.length + 3) : Nat) : Int), padding := 0, forceNewline := false } ∧
    (x.2.1 = 0 → ∀ e ∈ stats1, e.lineNum ≤ s1'.r.line)

/-! ### small facts -/

theorem xr_linesLoop_one (s : St) (hd : Nat) (stats : List LineStat)
    (hl : AtLine [10] s.r) (hop : s.pc.opened = [⟨hd, .atx⟩]) (y : Bool × List LineStat) (s' : St) :
    linesLoop 0 1 stats s ≠ .ok (y, s') := by
  intro h
  unfold linesLoop at h
  obtain ⟨pc, s1, h1, k1⟩ := bind_ok h
  obtain ⟨epc, e1⟩ := getPc_ok h1
  rw [e1, epc, hop] at k1
  dsimp only at k1
  have hl0 : (([⟨hd, .atx⟩] : List Block).length == 0) = false := by simp
  rw [hl0] at k1
  simp only [Bool.false_eq_true, if_false] at k1
  have hlen1 : ((([⟨hd, .atx⟩] : List Block).length : Nat) : Int) - 1 = 0 := by simp
  rw [hlen1] at k1
  obtain ⟨x5, s5, h5, k5⟩ := bind_ok k1
  obtain ⟨out5, st5⟩ := x5
  obtain ⟨ho5, hst5, hn5, hp5, rc5⟩ := h2_lineLoop_blank s hd stats hl hop out5 st5 s5 h5
  subst ho5
  dsimp only at k5
  obtain ⟨u6, s6, h6, k6⟩ := bind_ok k5
  unfold linesLoop at k6
  cases k6

theorem xr_isBlankLine_snoc (ln : Int) (st : List LineStat) :
    isBlankLine ln 0 (st ++ [{ lineNum := ln, level := 0, isBlank := true }]) = true := by
  unfold isBlankLine
  have hn : ((st ++ [({ lineNum := ln, level := 0, isBlank := true } : LineStat)]).length : Int) - 1 - 0 = (st.length : Int) := by
    simp
  simp only [hn]
  rw [if_neg (by omega)]
  have ht : ((st.length : Int) + 1).toNat = (st ++ [({ lineNum := ln, level := 0, isBlank := true } : LineStat)]).length := by
    simp
  rw [ht, List.take_length, List.reverse_append]
  simp [isBlankLoop]

/-- the store of a run is not empty -/
theorem xr_run_pos (src : Bytes) (s : St) (h : run src = .ok s) : 0 < s.nodes.length := by
  rw [a2_run_eq_blocksLoop] at h
  cases hb : blocksLoop 0 (linesFuel src) [] (initSt src) with
  | error e => rw [hb] at h; cases h
  | ok p =>
    rw [hb] at h
    cases h
    have k := a2_blocksLoop 0 _ _ _ p.2 p.1 (a2_K_init src) Nat.zero_lt_one hb
    exact k.1.doc.1

/-! ### bytes of the joined document -/

theorem xr_lineEnd_blank (P1 b : Bytes) : lineEnd (P1 ++ 10 :: b) P1.length = P1.length + 1 := by
  unfold lineEnd
  rw [if_pos (by simp)]
  rw [List.drop_left' rfl]
  simp [lineLen]

/-! ### step (1): the heading line and the blank line behind it -/

theorem xr_step (a h b : Bytes) (N : List Node) (hN : 0 < N.length)
    (s1 : St) (stats1 : List LineStat) (f1 : Nat) (sd : St)
    (hat : AtHeading a h b N s1 stats1)
    (hloop : blocksLoop 0 f1 stats1 s1 = .ok ((), sd)) :
    ∃ (n : Node) (blank : Bool) (st : List LineStat) (ln : Int) (s'' : St) (fuel'' : Nat),
      atxNodeOf (hlB h) { start := ((a.length + 1 : Nat) : Int), stop := ((a.length + 1 + (h.length + 3) : Nat) : Int), padding := 0, forceNewline := false } 0 = .ok (some n) ∧
      s''.nodes = (N.set 0 { (N.getD 0 default) with children := (N.getD 0 default).children ++ [N.length] })
        ++ [{ n with parent := some 0, blankPrev := blank }] ∧
      s''.pc.opened = [] ∧ s''.pc.tmpPara = none ∧ s''.pc.fence = none ∧ s''.pc.skipList = false ∧
      s''.pc.emptyItemBlank = false ∧
      (∀ e ∈ st, e.lineNum ≤ ln) ∧
      s''.r = shR { p := a ++ 10 :: (hlB h ++ [10]), dl := ln + 2, c := 0, kids0 := [] } (Reader.new b) ∧
      blocksLoop 0 fuel'' (st ++ [{ lineNum := ln + 1, level := 0, isBlank := true }]) s'' = .ok ((), sd) := by
  obtain ⟨x0, s1', hsk, hx2, hn1, hp1, hl1, hlb, hsrc1, hpos1, hst1⟩ := hat.skip
  cases f1 with
  | zero => unfold blocksLoop at hloop; cases hloop
  | succ f =>
  unfold blocksLoop at hloop
  obtain ⟨x, s1x, h1, k1⟩ := bind_ok hloop
  rw [hsk] at h1
  cases h1
  obtain ⟨seg, lines, ok⟩ := x0
  simp only at hx2 hst1
  subst hx2
  simp only [Bool.not_true, Bool.false_eq_true, if_false] at k1
  obtain ⟨pos, s2, h2, k2⟩ := bind_ok k1
  have e2 : s2 = s1' := by cases h2; rfl
  rw [e2] at k2
  obtain ⟨pc, s3, h3, k3⟩ := bind_ok k2
  obtain ⟨epc, e3⟩ := getPc_ok h3
  rw [e3] at k3
  have hop1 : s1'.pc.opened = [] := by rw [hp1]; exact hat.opened
  have hnop : pc.opened.length = 0 := by rw [epc, hop1]; rfl
  rw [hnop] at k3
  simp only [blankStats] at k3
  -- the statistics
  generalize hstd : (if (lines != 0) = true then ([] : List LineStat) else stats1) = st at k3
  have hstP : ∀ e ∈ st, e.lineNum ≤ s1'.r.line := by
    intro e he
    by_cases hl0 : lines = 0
    · subst hl0
      simp at hstd
      subst hstd
      exact hst1 rfl e he
    · have : (lines != 0) = true := by simpa using hl0
      rw [this, if_pos rfl] at hstd
      subst hstd
      cases he
  obtain ⟨res, s4, h4, k4⟩ := bind_ok k3
  have hlen1 : 0 < s1'.nodes.length := by rw [hn1, hat.nodes]; exact hN
  obtain ⟨hres, n, hn, hnodes4, hpc4, hsrc4, hpos4, hline4, hat4⟩ :=
    openBlocks_heading_exact (h ++ [10]) _ s1' hl1 hop1 hlen1 res s4 h4
  subst hres
  simp only [bne_self_eq_false, Bool.false_eq_true, if_false] at k4
  obtain ⟨u5, s5, h5, k5⟩ := bind_ok k4
  have e5 : s5 = { s4 with r := s4.r.advanceLine } := by
    unfold GM.Blocks.advanceLine at h5; cases h5; rfl
  obtain ⟨y, s6, h6, k6⟩ := bind_ok k5
  obtain ⟨ret, st6⟩ := y
  have hrc : s4.r.advanceLine = s1'.r.advanceLine := h2_advanceLine_congr ⟨hsrc4, hpos4, hline4⟩
  have hr5 : s5.r = s1'.r.advanceLine := by rw [e5]; exact hrc
  have hat5 : AtLine [10] s5.r := by rw [hr5]; exact hlb
  have hop5 : s5.pc.opened = [⟨s1'.nodes.length, .atx⟩] := by rw [e5]; simp only; rw [hpc4]
  -- the fuel of the line loop
  match f, h6, k6 with
  | 0, h6, _ => unfold linesLoop at h6; cases h6
  | 1, h6, _ => exact absurd h6 (xr_linesLoop_one s5 _ _ hat5 hop5 _ _)
  | f + 2, h6, k6 =>
  obtain ⟨hret, hnodes6, hop6, htmp6, hfence6, hskip6, heib6, hstats6, _⟩ :=
    blank_after_heading_exact s5 _ st f hat5 hop5 ret st6 s6 h6
  obtain ⟨hr6, hpc6⟩ := blank_after_heading_reader s5 _ st f hat5 hop5 ret st6 s6 h6
  subst hret
  simp only [Bool.false_eq_true, if_false] at k6
  -- readers
  have hstop1 : s1'.r.pos.stop = (((a ++ 10 :: hlB h).length : Nat) : Int) := by
    rw [hpos1]; simp [hlB]; omega
  have hforce1 : s1'.r.pos.forceNewline = false := by rw [hpos1]
  have hD1 : a ++ 10 :: (hlB h ++ 10 :: b) = (a ++ 10 :: hlB h) ++ 10 :: b := by simp
  have hD : a ++ 10 :: (hlB h ++ 10 :: b) = (a ++ 10 :: (hlB h ++ [10])) ++ b := by simp
  have hr5' := advanceLine_eq s1'.r (by rw [hstop1]; omega)
  rw [← hr5, hsrc1, hstop1, hforce1, Int.toNat_natCast, hD1, xr_lineEnd_blank, ← hD1] at hr5'
  have hstop5 : s5.r.pos.stop = (((a ++ 10 :: (hlB h ++ [10])).length : Nat) : Int) := by
    rw [hr5']; simp; omega
  have hsrc5 : s5.r.source = a ++ 10 :: (hlB h ++ 10 :: b) := by rw [hr5']
  have hforce5 : s5.r.pos.forceNewline = false := by rw [hr5']
  have hline5 : s5.r.line = s1'.r.line + 1 := by rw [hr5']
  have hle : lineEnd (a ++ 10 :: (hlB h ++ 10 :: b)) (a ++ 10 :: (hlB h ++ [10])).length =
      lineEnd b 0 + (a ++ 10 :: (hlB h ++ [10])).length := by
    have := lineEnd_shift (a ++ 10 :: (hlB h ++ [10])) b 0
    rw [Nat.zero_add, ← hD] at this
    exact this
  refine ⟨n, isBlankLine (pos.fst - 1) 0 st, st, s1'.r.line, s6, f + 2, ?_, ?_, hop6, ?_, ?_, ?_, ?_, hstP, ?_, ?_⟩
  · rw [hpos1] at hn; exact hn
  · rw [hnodes6, e5]; simp only
    rw [hnodes4, hn1, hat.nodes]
  · rw [htmp6, e5]; simp only; rw [hpc4, hp1]; exact hat.tmpPara
  · rw [hfence6, e5]; simp only; rw [hpc4, hp1]; exact hat.fence
  · rw [hskip6, e5]; simp only; rw [hpc4, hp1]; exact hat.skipList
  · rw [heib6, e5]; simp only; rw [hpc4, hp1]; exact hat.eib
  · rw [hr6, advanceLine_eq _ (by rw [hstop5]; omega)]
    unfold Reader.new
    rw [advanceLine_eq { source := b, line := -1, peekedLine := none, pos := { start := 0, stop := 0 }, head := 0, lineOffset := -1 } (by simp)]
    simp only [shR, moveSeg, Frame.d, hsrc5, hstop5, hforce5, hline5, Int.toNat_natCast, hle, Reader.mk.injEq,
      Segment.mk.injEq, Int.toNat_zero]
    refine ⟨hD, ?_, trivial, ⟨by omega, by omega, trivial, trivial⟩, by omega, trivial⟩
    omega
  · rw [hstats6, hline5] at k6
    exact k6

/-! ### the store behind the heading -/

theorem xr_getD_store0 (N : List Node) (x y : Node) (hN : 0 < N.length) : ((N.set 0 x) ++ [y]).getD 0 default = x := by
  cases N with
  | nil => cases hN
  | cons z zs => rfl

theorem xr_getD_store_old (N : List Node) (x y : Node) (i : Nat) (h1 : 1 ≤ i) (h2 : i < N.length) :
    ((N.set 0 x) ++ [y]).getD i default = N.getD i default := by
  rw [List.getD_eq_getElem?_getD, List.getD_eq_getElem?_getD, List.getElem?_append_left (by simp; exact h2),
    List.getElem?_set_ne (by omega)]

theorem xr_getD_store_new (N : List Node) (x y : Node) : ((N.set 0 x) ++ [y]).getD N.length default = y := by
  rw [List.getD_eq_getElem?_getD, List.getElem?_append_right (by simp)]
  simp

theorem xr_treeOf_old (N M : List Node)
    (hsame : ∀ i, 1 ≤ i → i < N.length → M.getD i default = N.getD i default)
    (hkids : ∀ j c, c ∈ (N.getD j default).children → j < c ∧ c < N.length) :
    ∀ fuel i, 1 ≤ i → i < N.length → treeOf M fuel i = treeOf N fuel i
  | 0, i, h1, h2 => by simp only [treeOf]; rw [hsame i h1 h2]
  | fuel + 1, i, h1, h2 => by
    simp only [treeOf]
    rw [hsame i h1 h2]
    congr 1
    apply fu_map_congr
    intro c hc
    have := hkids i c hc
    exact xr_treeOf_old N M hsame hkids fuel c (by omega) this.2

/-- the frame of the prefix `a ++ "\n# h\n\n"`: the old nodes are the nodes of `run a` and the heading -/
def xr_frame (a h : Bytes) (ln : Int) (N M : List Node) : Frame :=
  { p := a ++ 10 :: (hlB h ++ [10]), dl := ln + 2, c := N.length,
    kids0 := (N.getD 0 default).children ++ [N.length], flag := true, oldNodes := M }

theorem xr_last2 (X : Bytes) : (X ++ [10, 10])[(X ++ [10, 10]).length - 1]? = some 10 ∧
    (X ++ [10, 10])[(X ++ [10, 10]).length - 2]? = some 10 := by
  constructor
  · rw [List.getElem?_append_right (by simp)]
    have : (X ++ [10, 10]).length - 1 - X.length = 1 := by simp
    rw [this]; rfl
  · rw [List.getElem?_append_right (by simp)]
    have : (X ++ [10, 10]).length - 2 - X.length = 0 := by simp
    rw [this]; rfl

theorem xr_frame_p (a h : Bytes) : a ++ 10 :: (hlB h ++ [10]) = (a ++ 10 :: 35 :: 32 :: h) ++ [10, 10] := by
  simp [hlB]

theorem reach_of_atHeading (a h b : Bytes) (hh : ∀ c ∈ h, c ≠ 10) (ha : a.getLast? = some 10)
    (sa sh sd : St) (hsa : run a = .ok sa) (hsh : run (headingLine h) = .ok sh)
    (hdoc : sa.nodes.getD 0 default = { kind := .document, children := (sa.nodes.getD 0 default).children })
    (hkids : ∀ j c, c ∈ (sa.nodes.getD j default).children → c < sa.nodes.length)
    (s1 : St) (stats1 : List LineStat) (f1 : Nat)
    (hat : AtHeading a h b sa.nodes s1 stats1)
    (hloop : blocksLoop 0 f1 stats1 s1 = .ok ((), sd)) : Reach a h b sa sh sd := by
  have hN := xr_run_pos a sa hsa
  obtain ⟨hac, hdla, hdka⟩ := run_acyc a sa hsa
  obtain ⟨n1, blank, st, ln, s'', fuel'', hn1, hnodes, hop, htmp, hfence, hskip, heib, hstP, hr, hcont⟩ :=
    xr_step a h b sa.nodes hN s1 stats1 f1 sd hat hloop
  have hsep : indepSep a = [10] := by simp [indepSep, ha]
  have hFok : (xr_frame a h ln sa.nodes s''.nodes).OK := by
    obtain ⟨l1, l2⟩ := xr_last2 (a ++ 10 :: 35 :: 32 :: h)
    refine ⟨.inr ?_, .inr ?_, ?_⟩
    · show (a ++ 10 :: (hlB h ++ [10]))[(a ++ 10 :: (hlB h ++ [10])).length - 1]? = some 10
      rw [xr_frame_p]; exact l1
    · show (a ++ 10 :: (hlB h ++ [10]))[(a ++ 10 :: (hlB h ++ [10])).length - 2]? = some 10
      rw [xr_frame_p]; exact l2
    · intro x hx
      show 1 ≤ x ∧ x ≤ sa.nodes.length
      have hx' : x ∈ (sa.nodes.getD 0 default).children ++ [sa.nodes.length] := hx
      rw [List.mem_append, List.mem_singleton] at hx'
      rcases hx' with hx' | hx'
      · have := hac.1 0 x hx'
        have := hkids 0 x hx'
        omega
      · omega
  have hFd : ((xr_frame a h ln sa.nodes s''.nodes).d : Int) = ((a ++ indepSep a ++ headingLine h ++ [10]).length : Int) := by
    simp [Frame.d, xr_frame, hsep, headingLine, hlB]
  have hstart : Start (xr_frame a h ln sa.nodes s''.nodes) b s'' (st ++ [{ lineNum := ln + 1, level := 0, isBlank := true }]) := by
    refine ⟨hr, ?_, ?_, hop, htmp, hfence, hskip, fun _ => heib, fun i _ _ => rfl, ?_, ?_⟩
    · rw [hnodes]; simp [xr_frame]; omega
    · rw [hnodes, xr_getD_store0 _ _ _ hN]
      show ({ (sa.nodes.getD 0 default) with children := (sa.nodes.getD 0 default).children ++ [sa.nodes.length] } : Node) =
        { kind := .document, children := (sa.nodes.getD 0 default).children ++ [sa.nodes.length] }
      rw [hdoc]
    · intro e he
      show e.lineNum < ln + 2
      rw [List.mem_append, List.mem_singleton] at he
      rcases he with he | he
      · have := hstP e he; omega
      · subst he; show ln + 1 < ln + 2; omega
    · right
      show isBlankLine (ln + 2 - 1) 0 _ = true
      have : ln + 2 - 1 = ln + 1 := by omega
      rw [this]
      exact xr_isBlankLine_snoc _ _
  refine ⟨xr_frame a h ln sa.nodes s''.nodes, _, s'', fuel'', hFok, rfl, hFd, hstart, hcont, ?_⟩
  obtain ⟨sb, hsb, hrel⟩ := shift_invariance_all _ hFok rfl b hstart fuel'' sd hcont
  have hlen : sd.nodes.length = sb.nodes.length + sa.nodes.length := hrel.len
  have hpos := hrel.pos
  have hold : ∀ i, 1 ≤ i → i ≤ sa.nodes.length → sd.nodes.getD i default = s''.nodes.getD i default :=
    fun i h1 h2 => hrel.old i h1 h2
  have hkids' : ∀ j c, c ∈ (sa.nodes.getD j default).children → j < c ∧ c < sa.nodes.length :=
    fun j c hc => ⟨hac.1 j c hc, hkids j c hc⟩
  have hsame : ∀ i, 1 ≤ i → i < sa.nodes.length → sd.nodes.getD i default = sa.nodes.getD i default := by
    intro i h1 h2
    rw [hold i h1 (by omega), hnodes, xr_getD_store_old _ _ _ i h1 h2]
  -- the heading line alone
  rw [headingLine_eq] at hsh
  obtain ⟨n0, hn0, hnh⟩ := run_heading_line hh sh hsh
  have hmove : n1 = { n0 with lines := n0.lines.map (moveSeg ((a.length + 1 : Nat) : Int)) } := by
    have := atxNodeOf_move (hlB h) { start := 0, stop := ((h.length + 3 : Nat) : Int) } 0 ((a.length + 1 : Nat) : Int)
    have e : moveSeg ((a.length + 1 : Nat) : Int) { start := 0, stop := ((h.length + 3 : Nat) : Int) } =
        ({ start := ((a.length + 1 : Nat) : Int), stop := ((a.length + 1 + (h.length + 3) : Nat) : Int), padding := 0, forceNewline := false } : Segment) := by
      simp only [moveSeg, Segment.mk.injEq, and_true]
      omega
    rw [e, hn1, hn0] at this
    simp only [Except.map, Option.map_some, Except.ok.injEq, Option.some.injEq] at this
    exact this
  obtain ⟨hk0, hc0, _, _⟩ := atxNodeOf_shape hn0
  have hk1 : (((a ++ indepSep a).length : Nat) : Int) = ((a.length + 1 : Nat) : Int) := by simp [hsep]
  rw [hk1]
  have hnewD : sd.nodes.getD sa.nodes.length default = { n1 with parent := some 0, blankPrev := blank } := by
    rw [hold _ hN (Nat.le_refl _), hnodes, xr_getD_store_new]
  have hleaf : treeOf sd.nodes (sd.nodes.length - 1) sa.nodes.length = .node { n1 with parent := some 0, blankPrev := blank } [] := by
    have := fu_treeOf_leaf (nodes := sd.nodes) (id := sa.nodes.length) (by rw [hnewD, hmove]; exact hc0) (sd.nodes.length - 1)
    rw [this, hnewD]
  show Tree.strs (Tree.readBlankL false true
      (((sa.nodes.getD 0 default).children ++ [sa.nodes.length]).map (treeOf sd.nodes (sd.nodes.length - 1)))) = _
  rw [List.map_append, to_readBlankL_false_append, to_readBlankL_false_append, to_strs_append, to_strs_append]
  congr 1
  · rw [st_docKids_b sa hN]
    congr 2
    apply fu_map_congr
    intro c hc
    have hc' := hkids' 0 c hc
    rw [xr_treeOf_old sa.nodes sd.nodes hsame hkids' _ c (by omega) hc'.2]
    exact treeOf_child_stable hac.1 _ c (by omega) (by omega)
  · rw [st_docKids_h sh { n0 with parent := some 0, blankPrev := true } (by rw [hnh]; rfl) hc0]
    simp only [List.map, hleaf, Tree.mapSegsL, Tree.mapSegs, Tree.readBlankL, Tree.readBlank, Tree.strs]
    congr 1
    refine to_str_congr (by rw [hmove]) (by simp) ?_ (by rw [hmove]) rfl
    exact st_nodeFields_heading (by rw [hmove]; exact hk0) hk0 (by rw [hmove])

end GM.Blocks.Sh
