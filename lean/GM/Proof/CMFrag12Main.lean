/-
  GM.Proof.CMFrag12Main — stage 12: the conformance theorem for documents of paragraphs, ATX headings, thematic breaks,
  fenced code blocks and INDENTED CODE BLOCKS (`GM.Spec.CMFrag.IDoc`), with the final line feed.
  The block phase is `claim6_all` (CMFrag6Run: an open indented code block absorbs the blank lines behind it and gives
  them back when it is closed — `OpenPrev.code`, `code_absorb`, `code_eof`, `lineLoop6_code`); docTree / renderer are
  `docTree_block5` / `renderNode_raw5` with the new constructor `Raw5.icode`; the composition is `convert_raw12`.
-/
import GM.Proof.CMFrag7Main

namespace GM.Proof.CMFrag
open GM GM.Text GM.Blocks GM.Spec
open GM.Spec.CM GM.Spec.CMFrag

def rawOfI : IBlock → Raw5
  | .h b => rawOfH b
  | .icode lines => .icode lines

def convI (it : IItem) : Nat × Raw5 := (it.sep, rawOfI it.block)

theorem paraBytes_rawOfI (b : IBlock) : paraBytes (lines5 (rawOfI b)) = spellIBlock b := by
  cases b with
  | h b => exact paraBytes_rawOfH b
  | icode lines =>
    simp only [rawOfI, lines5, icLines, spellIBlock, paraBytes, List.flatMap_map, ind4]

theorem spellI_raw (d : IDoc) : spellIc d = rawDoc6 (d.items.map convI) d.trail := by
  obtain ⟨items, trail⟩ := d
  simp only [spellIc]
  induction items with
  | nil => rfl
  | cons it rest ih =>
    simp only [List.flatMap_cons, List.map_cons, convI, rawDoc6, paraBytes_rawOfI, blanks_eq] at ih ⊢
    rw [← ih]
    simp

theorem printable_notSpace : ∀ c : UInt8, printable c = true → c ≠ 32 → isSpace c = false :=
  GM.forall_uint8 _ (by decide +kernel)

theorem icLine_of_ok (l : Bytes) (h : icLineOK l = true) : IcLine l := by
  simp only [icLineOK, Bool.and_eq_true, List.all_eq_true] at h
  obtain ⟨hp, hh⟩ := h
  refine ⟨?_, fun c hc => (printable_code c (hp c hc)).1⟩
  cases l with
  | nil => simp at hh
  | cons a r =>
    simp only [List.head?_cons, bne_iff_ne, ne_eq] at hh
    exact ⟨a, r, rfl, printable_notSpace a (hp a (by simp)) hh⟩

theorem good5_rawOfI (b : IBlock) (h : iblockOK b = true) : Good5' (rawOfI b) := by
  cases b with
  | h b => exact good5_rawOfH b h
  | icode lines =>
    simp only [iblockOK, Bool.and_eq_true, List.all_eq_true, Bool.not_eq_true', List.isEmpty_eq_false_iff] at h
    exact ⟨h.1, fun l hl => icLine_of_ok l (h.2 l hl)⟩

theorem isParaB_rawOfI (a : IBlock) : isParaB (rawOfI a) = a.isPara := by
  cases a with
  | h a =>
    cases a with
    | base a' => cases a' <;> rfl
    | fcode _ _ _ _ => rfl
  | icode _ => rfl

theorem isIcB_rawOfI (a : IBlock) : isIcB (rawOfI a) = a.isIc := by
  cases a with
  | h a => exact isIcB_rawOfH a
  | icode _ => rfl

theorem abutOK_ofI (a b : IBlock) (h : iabutOK a b = true) : AbutOK5 (isParaB (rawOfI a)) (rawOfI b) := by
  cases b with
  | h b' =>
    cases a with
    | h a' =>
      have := abutOK_of a' b' (by simpa [iabutOK] using h)
      simpa [rawOfI] using this
    | icode ls =>
      have : isParaB (rawOfI (.icode ls)) = false := rfl
      rw [this]
      exact abutOK5_false _
  | icode ls =>
    rw [isParaB_rawOfI]
    cases a with
    | h a' => simpa [iabutOK, rawOfI, AbutOK5] using h
    | icode ls' => rfl

theorem sepsOK_ofI : ∀ (prev : Option IBlock) (items : List IItem), isepsOK prev items = true →
    SepsOK6 (prev.map fun a => isParaB (rawOfI a)) (items.map convI)
  | _, [], _ => by cases ‹Option IBlock› <;> trivial
  | none, it :: rest, h => by
    simp only [isepsOK] at h
    exact sepsOK_ofI (some it.block) rest h
  | some a, it :: rest, h => by
    simp only [isepsOK, Bool.and_eq_true, Bool.or_eq_true, bne_iff_ne, ne_eq] at h
    refine ⟨?_, sepsOK_ofI (some it.block) rest h.2⟩
    intro hs
    rcases h.1.1 with h1 | h1
    · exact absurd hs h1
    · exact abutOK_ofI a it.block h1

theorem icOK_ofI : ∀ (prev : Option IBlock) (items : List IItem), isepsOK prev items = true →
    IcOK6 (match prev with | some a => a.isIc | none => false) (items.map convI)
  | _, [], _ => trivial
  | none, it :: rest, h => by
    simp only [isepsOK] at h
    refine ⟨fun hf => Bool.noConfusion hf, ?_⟩
    have := icOK_ofI (some it.block) rest h
    simpa [convI, isIcB_rawOfI] using this
  | some a, it :: rest, h => by
    simp only [isepsOK, Bool.and_eq_true, Bool.not_eq_true', Bool.and_eq_false_iff] at h
    refine ⟨?_, ?_⟩
    · intro ha
      simp only [convI, isIcB_rawOfI]
      rcases h.1.2 with h1 | h1
      · have ha' : a.isIc = true := ha
        rw [h1] at ha'; exact Bool.noConfusion ha'
      · exact h1
    · have := icOK_ofI (some it.block) rest h.2
      simpa [convI, isIcB_rawOfI] using this

theorem rawHtml_spelledI (b : IBlock) (hok : iblockOK b = true) : rawHtml5 (rawOfI b) = expIBlock b := by
  cases b with
  | h b => exact rawHtml_spelled5 b hok
  | icode lines =>
    rw [rawOfI, rawHtml5, expIBlock]
    have hfm : ∀ ls : List Bytes, ls.flatMap (fun l => GM.rawWrite (l ++ [10])) = ls.flatMap (fun l => escHtml l ++ [10]) := by
      intro ls
      induction ls with
      | nil => rfl
      | cons l rest ih => rw [List.flatMap_cons, List.flatMap_cons, ih, rawWrite_line5]
    rw [hfm]

theorem hdocHtml_spelledI (blocks : List IBlock) (hok : ∀ b ∈ blocks, iblockOK b = true) :
    hdocHtml (blocks.map rawOfI) = blocks.flatMap expIBlock := by
  induction blocks with
  | nil => rfl
  | cons b rest ih =>
    have h2 := ih (fun x hx => hok x (by simp [hx]))
    simp only [hdocHtml, List.map_cons, List.flatMap_cons] at h2 ⊢
    rw [h2, rawHtml_spelledI b (hok b (by simp))]

/-- **the conformance theorem of the stage-12 fragment** (stage 6 plus indented code blocks), for any renderer
    options with XHTML and without HardWraps -/
theorem fragment12_conforms_any (o : GM.Convert.ROpts) (ho : o.hardWraps = false) (hxo : o.xhtml = true)
    (d : IDoc) (h : IFrag d) (uc : List (Nat × (Bool × Bool))) :
    GM.Convert.convertCore uc o (spellIc d) = .ok (expectedI d) := by
  unfold IFrag ifragB at h
  simp only [Bool.and_eq_true, List.all_eq_true] at h
  obtain ⟨hok, hseps⟩ := h
  have hgood : ∀ it ∈ d.items.map convI, Good5' it.2 := by
    intro x hx
    obtain ⟨it, hit, rfl⟩ := List.mem_map.mp hx
    exact good5_rawOfI it.block (hok it hit)
  have hc := convert_raw6_any o ho hxo uc (d.items.map convI) d.trail hgood (sepsOK_ofI none d.items hseps)
    (icOK_ofI none d.items hseps)
  rw [spellI_raw, hc]
  have he : expectedI d = hdocHtml ((d.items.map (·.block)).map rawOfI) := by
    rw [hdocHtml_spelledI _ (by
      intro b hb
      obtain ⟨it, hit, rfl⟩ := List.mem_map.mp hb
      exact hok it hit)]
    simp [expectedI, List.flatMap_map]
  rw [he]
  simp [convI, List.map_map, Function.comp_def]

/-- **the conformance theorem of the stage-12 fragment** -/
theorem fragment12_conforms (d : IDoc) (h : IFrag d) (uc : List (Nat × (Bool × Bool))) :
    GM.Convert.convertCore uc cmOpts (spellIc d) = .ok (expectedI d) :=
  fragment12_conforms_any cmOpts rfl rfl d h uc

/-- **stage 12 without the final line feed** (the last block may be an indented code block whose last line ends the
    source) -/
theorem fragment12_conforms_no_final_newline (d : IDoc) (h : IFragE d) (uc : List (Nat × (Bool × Bool))) :
    GM.Convert.convertCore uc cmOpts (spellIcE d) = .ok (expectedI d) := by
  unfold IFragE ifragEB at h
  simp only [Bool.and_eq_true, beq_iff_eq, Bool.not_eq_true', List.isEmpty_eq_false_iff] at h
  obtain ⟨⟨hk, ht⟩, hne⟩ := h
  unfold ifragB at hk
  simp only [Bool.and_eq_true, List.all_eq_true] at hk
  obtain ⟨hok, hseps⟩ := hk
  have hgood : ∀ it ∈ d.items.map convI, Good5' it.2 := by
    intro x hx
    obtain ⟨it, hit, rfl⟩ := List.mem_map.mp hx
    exact good5_rawOfI it.block (hok it hit)
  have hne' : d.items.map convI ≠ [] := by simpa using hne
  have hc := convert_raw7 uc (d.items.map convI) hne' hgood (sepsOK_ofI none d.items hseps) (icOK_ofI none d.items hseps)
  have hsp : spellIcE d = rawDoc6E (d.items.map convI) := by
    unfold spellIcE
    rw [spellI_raw, ht, rawDoc6_dropLast _ hne' (fun it hit => lines5_ne it.2 (good5_of it.2 (hgood it hit)))]
  rw [hsp, hc]
  have he : expectedI d = hdocHtml ((d.items.map (·.block)).map rawOfI) := by
    rw [hdocHtml_spelledI _ (by
      intro b hb
      obtain ⟨it, hit, rfl⟩ := List.mem_map.mp hb
      exact hok it hit)]
    simp [expectedI, List.flatMap_map]
  rw [he]
  simp [convI, List.map_map, Function.comp_def]

/-- stage 6 is the part of stage 12 without indented code blocks -/
theorem spellI_toI (d : KDoc) : spellIc d.toI = spellK d := by
  simp [spellIc, spellK, KDoc.toI, List.flatMap_map, spellIBlock]

theorem expectedI_toI (d : KDoc) : expectedI d.toI = expectedK d := by
  simp [expectedI, expectedK, KDoc.toI, List.flatMap_map, expIBlock]

end GM.Proof.CMFrag
