/-
  GM.Proof.ConvertXMon — the domain monitor of the table paragraph transformer cannot fire behind the guarded link-reference
  transformer: `guardedTransform` leaves the reader alone and leaves the paragraph with a suffix of lines it has just checked
  to be well-formed on that reader's source. Hence Table is conservative at whole-document level without a proviso.
-/
import GM.Proof.ConvertXRel
import GM.Proof.LinkRefFacts

namespace GM.Proof.ConvertXMon
open GM GM.Text GM.Blocks GM.LinkRef GM.Proof.ConvertXRel

theorem mbind_ok {α β} {m : M α} {f : α → M β} {s : St} {b : β} {s'' : St} (h : (m >>= f) s = .ok (b, s'')) :
    ∃ a s', m s = .ok (a, s') ∧ f a s' = .ok (b, s'') := by
  simp only [Bind.bind, StateT.bind] at h
  cases hm : m s with
  | error e => rw [hm] at h; simp [Except.bind] at h
  | ok p => rw [hm] at h; exact ⟨p.1, p.2, rfl, h⟩

/-- keeps the reader, never shortens the node store, keeps the lines of every node that was there -/
structure PL {α : Type} (m : M α) : Prop where
  h : ∀ s a s', m s = .ok (a, s') → s'.r = s.r ∧ s.nodes.length ≤ s'.nodes.length ∧
    ∀ id, id < s.nodes.length → (s'.nodes.getD id default).lines = (s.nodes.getD id default).lines

theorem PL.pure {α} (a : α) : PL (pure a : M α) :=
  ⟨fun s a' s' h => by
    simp only [Pure.pure, StateT.pure, Except.pure, Except.ok.injEq, Prod.mk.injEq] at h
    obtain ⟨_, rfl⟩ := h; exact ⟨rfl, Nat.le_refl _, fun _ _ => rfl⟩⟩

theorem PL.bind {α β} {m : M α} {f : α → M β} (hm : PL m) (hf : ∀ a, PL (f a)) : PL (m >>= f) := by
  constructor
  intro s b s'' h
  obtain ⟨a, s', h1, h2⟩ := mbind_ok h
  obtain ⟨a1, a2, a3⟩ := hm.h s a s' h1
  obtain ⟨b1, b2, b3⟩ := (hf a).h s' b s'' h2
  exact ⟨b1.trans a1, Nat.le_trans a2 b2, fun id hid => (b3 id (Nat.lt_of_lt_of_le hid a2)).trans (a3 id hid)⟩

theorem PL.ite {α} {c : Prop} [Decidable c] {a b : M α} (ha : PL a) (hb : PL b) : PL (if c then a else b) := by
  split <;> assumption

theorem PL.throw {α} (e : Panic) : PL (throw e : M α) := ⟨fun _ _ _ h => by cases h⟩

theorem getNode_pl (id : Nat) : PL (getNode id) :=
  ⟨fun s a s' h => by
    simp only [getNode, Pure.pure, Except.pure, Except.ok.injEq, Prod.mk.injEq] at h
    obtain ⟨_, rfl⟩ := h; exact ⟨rfl, Nat.le_refl _, fun _ _ => rfl⟩⟩

theorem modNode_pl (id : Nat) (f : Blocks.Node → Blocks.Node) (hf : ∀ n, (f n).lines = n.lines) : PL (modNode id f) :=
  ⟨fun s a s' h => by
    simp only [modNode, Pure.pure, Except.pure, Except.ok.injEq, Prod.mk.injEq] at h
    obtain ⟨_, rfl⟩ := h
    refine ⟨rfl, by simp, fun i hi => ?_⟩
    simp only [List.getD_eq_getElem?_getD, List.getElem?_set]
    split
    · rename_i e; subst e
      simp only [hi, if_true, Option.getD_some]
      rw [hf]
    · rfl⟩

theorem newNode_pl (n : Blocks.Node) : PL (newNode n) :=
  ⟨fun s a s' h => by
    simp only [newNode, Pure.pure, Except.pure, Except.ok.injEq, Prod.mk.injEq] at h
    obtain ⟨_, rfl⟩ := h
    refine ⟨rfl, by simp, fun i hi => ?_⟩
    simp [List.getD_eq_getElem?_getD, List.getElem?_append_left hi]⟩

macro "pl_step" : tactic =>
  `(tactic| first
    | with_reducible apply PL.pure
    | with_reducible apply PL.bind
    | with_reducible apply PL.ite
    | with_reducible apply PL.throw
    | with_reducible apply getNode_pl
    | (with_reducible apply modNode_pl; intro _; rfl)
    | with_reducible apply newNode_pl
    | apply_hyp
    | intro _
    | split)

macro "pl" : tactic => `(tactic| repeat' pl_step)

theorem removeChild_pl (p c : Nat) : PL (removeChild p c) := by unfold removeChild; pl
theorem ensureIsolated_pl (c : Nat) : PL (ensureIsolated c) := by
  have := removeChild_pl
  unfold ensureIsolated; pl
theorem appendChild_pl (p c : Nat) : PL (appendChild p c) := by
  have := ensureIsolated_pl
  unfold appendChild; pl
theorem insertBefore_pl (p : Nat) (v1 : Option Nat) (ins : Nat) : PL (insertBefore p v1 ins) := by
  have := ensureIsolated_pl
  have := appendChild_pl
  unfold insertBefore; pl
theorem replaceChild_pl (p v1 ins : Nat) : PL (replaceChild p v1 ins) := by
  have := insertBefore_pl
  have := removeChild_pl
  unfold replaceChild; pl

theorem wfSegsFrom_valid (src : Bytes) : ∀ (segs : List Segment) (lo : Int), 0 ≤ lo → wfSegsFromB src lo segs = true →
    segs.all (GM.TableX.validB src) = true
  | [], _, _, _ => rfl
  | sg :: rest, lo, hlo, h => by
    simp only [wfSegsFromB, Bool.and_eq_true, decide_eq_true_eq, Bool.not_eq_true'] at h
    obtain ⟨⟨⟨⟨⟨h1, h2⟩, h3⟩, h4⟩, h5⟩, h6⟩ := h
    simp only [List.all_cons, Bool.and_eq_true]
    refine ⟨?_, wfSegsFrom_valid src rest sg.stop (by omega) h6⟩
    simp only [GM.TableX.validB, Bool.and_eq_true, decide_eq_true_eq, Bool.not_eq_true']
    exact ⟨⟨⟨⟨by omega, by omega⟩, h3⟩, h4⟩, h5⟩

theorem all_drop {α} (p : α → Bool) (l : List α) (k : Nat) (h : l.all p = true) : (l.drop k).all p = true := by
  simp only [List.all_eq_true] at *
  exact fun x hx => h x (List.mem_of_mem_drop hx)

/-- what `transformFinish` does behind `modNode` -/
def finishTail (node : Nat) (n : Blocks.Node) (lines : List Segment) : M Unit := do
  if lines.length == 0 then
    let t ← newNode { kind := .textBlock, blankPrev := n.blankPrev }
    match n.parent with
    | none => throw .nil
    | some p => replaceChild p node t

theorem finishTail_pl (node : Nat) (n : Blocks.Node) (lines : List Segment) : PL (finishTail node n lines) := by
  have := replaceChild_pl
  unfold finishTail; pl

theorem transformFinish_eq (node : Nat) (n : Blocks.Node) (removes : List (Int × Int)) (refs : RefMap) :
    transformFinish node n removes refs = (do
      modPc fun pc => { pc with refs := refs }
      let lines ← liftE (finishLines removes n.lines)
      modNode node fun n => { n with lines := lines }
      finishTail node n lines) := rfl

/-- behind the guarded link-reference transformer: the reader is the one before, and the paragraph's lines are inside its
    source, with non-negative padding and without ForceNewline -/
theorem guarded_post (node : Nat) (s s1 : St) (h : guardedTransform node s = .ok ((), s1)) :
    s1.r = s.r ∧ (s1.nodes.getD node default).lines.all (GM.TableX.validB s.r.source) = true := by
  unfold guardedTransform at h
  simp only [bind, StateT.bind, getNode, source, pure, Except.pure, Except.bind, StateT.pure] at h
  split at h
  · cases h
  · rename_i hchk
    have hv0 : (s.nodes.getD node default).lines.all (GM.TableX.validB s.r.source) = true := by
      by_cases hl : (s.nodes.getD node default).lines.length = 0
      · have : (s.nodes.getD node default).lines = [] := List.eq_nil_of_length_eq_zero hl
        rw [this]; rfl
      · have hw : wfSegsB s.r.source (s.nodes.getD node default).lines = true := by
          simp only [Bool.and_eq_true, bne_iff_ne, ne_eq, Bool.not_eq_true', not_and, Bool.not_eq_false] at hchk
          exact hchk hl
        simp only [wfSegsB, Bool.and_eq_true] at hw
        exact wfSegsFrom_valid _ _ 0 (Int.le_refl _) hw.2
    unfold transform at h
    simp only [bind, StateT.bind, getNode, source, getPc, pure, Except.pure, Except.bind, liftE, Except.map] at h
    cases hsc : transformScan s.r.source (s.nodes.getD node default).lines s.pc.refs with
    | error e => rw [hsc] at h; cases h
    | ok x =>
      obtain ⟨removes, refs⟩ := x
      rw [hsc] at h
      simp only [] at h
      rw [transformFinish_eq] at h
      simp only [bind, StateT.bind, modPc, liftE, modNode, pure, Except.pure, Except.bind, Except.map] at h
      cases hf : finishLines removes (s.nodes.getD node default).lines with
      | error e => rw [hf] at h; cases h
      | ok ls =>
        rw [hf] at h
        simp only [] at h
        have hls : ls.all (GM.TableX.validB s.r.source) = true := by
          rw [GM.Proof.LinkRefFacts.finishLines_front hf]
          exact all_drop _ _ _ hv0
        obtain ⟨p1, p2, p3⟩ := (finishTail_pl node (s.nodes.getD node default) ls).h _ _ _ h
        refine ⟨p1, ?_⟩
        by_cases hn : node < s.nodes.length
        · have := p3 node (by simpa using hn)
          rw [this]
          simp only [List.getD_eq_getElem?_getD, List.getElem?_set, hn, if_true, Option.getD_some]
          exact hls
        · -- a node id outside the store: its record is the default one, without lines and without parent: Transform fails
          exfalso
          have hd : s.nodes.getD node default = default := by
            simp [List.getD_eq_getElem?_getD, List.getElem?_eq_none (by omega : s.nodes.length ≤ node)]
          rw [hd] at hf h
          have hl0 : ls = [] := by
            have := GM.Proof.LinkRefFacts.finishLines_front hf
            have hdl : (default : Blocks.Node).lines = [] := rfl
            rw [hdl] at this
            simpa using this
          subst hl0
          simp only [finishTail, List.length_nil, beq_self_eq_true, if_true, bind, StateT.bind, newNode, pure, Except.pure,
            Except.bind] at h
          cases h

/-! ### Table, whole documents, without proviso -/

section table
open GM.ConvertX GM.Convert GM.Proof.ConvertX

theorem transformPT_no_dash_valid (src : Bytes) (h : (45 : UInt8) ∉ src) (node : Nat) (s : St)
    (hv : (s.nodes.getD node default).lines.all (GM.TableX.validB s.r.source) = true) :
    GM.TableX.transformPT src node s = .ok ((), s) := by
  have ht := GM.Ext.transform_no_dash src (List.map GM.TableX.toSeg (s.nodes.getD node default).lines)
    (fun l _ => GM.Ext.value_no_dash src l h)
  unfold GM.TableX.transformPT
  simp only [bind, StateT.bind, getNode, source, pure, Except.pure, Except.bind, StateT.pure, hv, Bool.not_true,
    Bool.false_eq_true, if_false, ht]

/-- behind the GUARDED link-reference transformer the table transformer on a source without '-' does nothing at all -/
theorem transformParagraph_silent_guarded (src : Bytes) (h : (45 : UInt8) ∉ src) (n : Nat) :
    Rel false (transformParagraph ([guardedTransform] ++ [GM.TableX.transformPT src]) n)
      (transformParagraph ([guardedTransform] ++ []) n) := by
  constructor
  intro s
  left
  simp only [List.append_nil, List.singleton_append, transformParagraph, bind, StateT.bind, getNode, pure,
    Except.pure, Except.bind]
  cases hg : guardedTransform n s with
  | error e => rfl
  | ok r =>
    obtain ⟨u, s1⟩ := r
    obtain ⟨q1, q2⟩ := guarded_post n s s1 hg
    simp only []
    split
    · rfl
    · rename_i hp
      have hv : (s1.nodes.getD n default).lines.all (GM.TableX.validB s1.r.source) = true := by rw [q1]; exact q2
      simp only [StateT.bind, transformPT_no_dash_valid src h n s1 hv, getNode, pure, Except.pure]
      show (if (s1.nodes.getD n default).parent.isNone = true then StateT.pure true else StateT.pure false) s1 = _
      rw [if_neg hp]

/-- **the block phase behind the run-time checks**: with the table transformer on a source without '-' it is EXACTLY the block
    phase without it -/
theorem blockPhaseX_table_guarded (c : XCfg) (src : Bytes) (h : (45 : UInt8) ∉ src) :
    blockPhaseX { c with table := true } true src = blockPhaseX { c with table := false } true src := by
  unfold blockPhaseX paragraphTransformersX paragraphTransformers
  rcases runT_rel (fun n => transformParagraph_silent_guarded src h n) src with e | e
  · exact e
  · exact absurd e.1 (by decide)

theorem parseDocX_table_guarded (c : XCfg) (uc : List (Nat × (Bool × Bool))) (src : Bytes) (h : (45 : UInt8) ∉ src) :
    parseDocX { c with table := true } true uc src = parseDocX { c with table := false } true uc src := by
  unfold parseDocX
  rw [blockPhaseX_table_guarded c src h]
  cases liftErr Err.blocks (blockPhaseX { c with table := false } true src) with
  | error e => rfl
  | ok st =>
    simp only [bind, Except.bind, Bool.false_eq_true, if_false, if_true]
    exact docTreeX_table c true _ src h _ _ _

/-- **Table is conservative at whole-document level**, every member set, no proviso -/
theorem convertX_table_guarded (c : XCfg) (uc : List (Nat × (Bool × Bool))) (o : ROpts) (src : Bytes)
    (h : (45 : UInt8) ∉ src) :
    convertX { c with table := true } uc o src = convertX { c with table := false } uc o src := by
  unfold convertX convertXWith
  rw [parseDocX_table_guarded c uc src h]
  cases hq : parseDocX { c with table := false } true uc src with
  | error e => rfl
  | ok t =>
    simp only [bind, Except.bind]
    apply renderDocX_exts
    unfold parseDocX at hq
    obtain ⟨st, _, hq⟩ := ebind_ok hq
    have hk := docTreeX_notTable { c with table := false } rfl true _ src _ _ _ t hq
    exact allKinds_mono (fun k hk => by
      simp only [beq_iff_eq]
      exact handled_table c.exts true false hk) t hk

end table
end GM.Proof.ConvertXMon
