/-
  GM.Proof.ShiftSimStrings — the final assembly of the two canonical dumps that `indepPair [] h b` compares.
-/
import GM.Proof.ShiftSimTreeOf
import GM.Proof.ShiftSimFuel

namespace GM.Blocks.Sh
open GM GM.Text GM.Blocks

theorem st_nodeFields_doc {n : Node} (h : n.kind = .document) : nodeFields n = "" := by
  unfold nodeFields; rw [h]

theorem st_nodeFields_heading {n m : Node} (hn : n.kind = .heading) (hm : m.kind = .heading)
    (hl : n.level = m.level) : nodeFields n = nodeFields m := by
  unfold nodeFields; rw [hn, hm]; simp only [hl]

/-- the children of the Document of the heading-line run -/
theorem st_docKids_h (sh : St) (HH : Node)
    (hsh : sh.nodes = [{ kind := .document, children := [1] }, HH]) (hHHc : HH.children = []) :
    (docKids sh).2 = [.node HH []] := by
  unfold docKids
  rw [hsh]
  simp [treeOf, hHHc]

/-- the children of the Document of a run, with the canonical fuel -/
theorem st_docKids_b (sb : St) (hpos : 0 < sb.nodes.length) :
    (docKids sb).2 = (sb.nodes.getD 0 default).children.map (treeOf sb.nodes (sb.nodes.length - 1)) := by
  unfold docKids
  obtain ⟨k, hk⟩ : ∃ k, sb.nodes.length = k + 1 := ⟨sb.nodes.length - 1, by omega⟩
  rw [hk]
  simp [treeOf]

/-- `nb` = final store of `run b` (state `sb`), `nd` = final store of the run on the joined document, `sh` = final state
    of the run on the heading line alone (Document + one heading `HH`); in `nd` node 1 is the heading `HD`, whose line is
    `HH`'s moved by 1 byte. -/
theorem indep_strings (F : Frame) (sh sb : St) (nb nd : List Node) (HH HD : Node)
    (hsh : sh.nodes = [{ kind := .document, children := [1] }, HH]) (hsb : sb.nodes = nb)
    (hrel : StoreRel F nb nd) (hk : F.kids0 = [1]) (hc : F.c = 1)
    (hac : ∀ j c, c ∈ (nb.getD j default).children → j < c)
    (hdl : (nb.getD 0 default).lines = [])
    (hd1 : nd.getD 1 default = HD)
    (hHHc : HH.children = []) (hHDc : HD.children = [])
    (hkind : HD.kind = HH.kind) (hlev : HD.level = HH.level) (hbp : HD.blankPrev = HH.blankPrev)
    (hnotl : HH.kind = .heading)
    (hlines : HD.lines = HH.lines.map (moveSeg 1)) :
    ((Tree.node ({ kind := .document } : Node)
        (([] : List Tree) ++ Tree.mapSegsL (moveSeg 1) (docKids sh).2 ++
          Tree.mapSegsL (moveSeg F.d) (docKids sb).2)).readBlank false).str =
      ((treeOf nd nd.length 0).readBlank false).str := by
  subst hsb
  have hpos := hrel.pos
  have hlen : nd.length = sb.nodes.length + 1 := by rw [hrel.len, hc]
  have h0 : ∀ j, ∀ c ∈ (sb.nodes.getD j default).children, c ≠ 0 := by
    intro j c hm; have := hac j c hm; omega
  have hdd : nd.getD 0 default = shN F true (sb.nodes.getD 0 default) := by
    have := hrel.node 0
    rw [ι_zero] at this
    exact this
  have hddk : (nd.getD 0 default).kind = .document := by rw [hdd]; exact hrel.doc
  have hddl : (nd.getD 0 default).lines = [] := by
    rw [hdd]; show (sb.nodes.getD 0 default).lines.map (moveSeg F.d) = []; rw [hdl]; rfl
  rw [st_docKids_h sh HH hsh hHHc, st_docKids_b sb hpos, hlen]
  simp only [treeOf, Tree.readBlank, List.nil_append]
  refine to_str_congr hddk.symm (by simp) ?_ hddl.symm ?_
  · rw [st_nodeFields_doc rfl]; exact (st_nodeFields_doc hddk).symm
  · have hf1 : ((({ kind := .document } : Node).kind == Kind.list) ||
        (({ kind := .document } : Node).kind == Kind.listItem)) = false := rfl
    have hf2 : (((nd.getD 0 default).kind == Kind.list) || ((nd.getD 0 default).kind == Kind.listItem)) = false := by
      rw [hddk]; rfl
    rw [hf1, hf2, treeOf_shift_doc hrel sb.nodes.length h0, hk]
    have hst : (sb.nodes.getD 0 default).children.map (treeOf sb.nodes sb.nodes.length) =
        (sb.nodes.getD 0 default).children.map (treeOf sb.nodes (sb.nodes.length - 1)) := by
      apply fu_map_congr
      intro c hm
      have := hac 0 c hm
      exact treeOf_child_stable hac sb.nodes.length c (by omega) (by omega)
    rw [hst, to_readBlankL_false_append, to_readBlankL_false_append, to_strs_append, to_strs_append]
    congr 1
    have hleaf : treeOf nd sb.nodes.length 1 = .node HD [] := by
      have := fu_treeOf_leaf (nodes := nd) (id := 1) (by rw [hd1]; exact hHDc) sb.nodes.length
      rw [this, hd1]
    simp only [List.map, hleaf, Tree.mapSegsL, Tree.mapSegs, Tree.readBlankL, Tree.readBlank, Tree.strs]
    congr 1
    refine to_str_congr hkind.symm (by simp) ?_ hlines.symm rfl
    exact st_nodeFields_heading hnotl (hkind.trans hnotl) hlev.symm

end GM.Blocks.Sh
