/-
  GM.Proof.QuoteSimSetext — the remaining tree operations of ast.go (NextSibling, InsertBefore, InsertAfter,
  ReplaceChild) under the simulation relation, and the one-line-step simulation of the setext heading parser
  (parser/setext_headings.go): `setextOpen_sim`, `setextClose_sim'`.
-/
import GM.Proof.QuoteSimTree

namespace GM.Blocks
open GM GM.Text GM.Spec GM.Proof.Reader

/-! ### list helpers -/

theorem nextIn_map_succ (c : Nat) : ∀ l : List Nat, nextIn (c + 1) (l.map (· + 1)) = (nextIn c l).map (· + 1)
  | [] => rfl
  | [_] => rfl
  | a :: b :: rest => by
    have ih := nextIn_map_succ c (b :: rest)
    simp only [List.map_cons] at ih ⊢
    unfold nextIn
    by_cases h : a = c
    · subst h; simp
    · have h1 : (a == c) = false := beq_eq_false_iff_ne.mpr h
      have h2 : (a + 1 == c + 1) = false := beq_eq_false_iff_ne.mpr (by omega)
      rw [h1, h2]
      simp only [Bool.false_eq_true, if_false]
      exact ih

theorem insertBeforeIn_map_succ (v ins : Nat) : ∀ l : List Nat,
    insertBeforeIn (v + 1) (ins + 1) (l.map (· + 1)) = (insertBeforeIn v ins l).map (· + 1)
  | [] => rfl
  | a :: rest => by
    have ih := insertBeforeIn_map_succ v ins rest
    simp only [List.map_cons]
    unfold insertBeforeIn
    by_cases h : a = v
    · subst h; simp
    · have h1 : (a == v) = false := beq_eq_false_iff_ne.mpr h
      have h2 : (a + 1 == v + 1) = false := beq_eq_false_iff_ne.mpr (by omega)
      rw [h1, h2]
      simp only [Bool.false_eq_true, if_false, List.map_cons, ih]

theorem opt_succ_beq (o : Option Nat) (p : Nat) : (o.map (· + 1) == some (p + 1)) = (o == some p) := by
  cases o with
  | none => rfl
  | some q =>
    simp only [Option.map_some, Option.some_beq_some]
    exact decide_eq_decide.mpr (by constructor <;> intro _ <;> omega)

/-! ### NextSibling, InsertBefore, InsertAfter, ReplaceChild -/

/-- Node.NextSibling; holds for every node (for A's Document `0`, B's Blockquote `1` is the only child of B's
    Document, so both answers are `none`) -/
theorem nextSibling_s2 {src k ls p} {sA sB : St} (h : SR src k ls p sA sB) (c : Nat) :
    S2 (fun a b sA' sB' => b = a.map (· + 1) ∧ SR src k ls p sA' sB') (nextSibling c sA) (nextSibling (c + 1) sB) := by
  unfold nextSibling
  refine S2.bind (getNode_s2 h c) (fun a b sA1 sB1 hq => ?_)
  obtain ⟨hab, h1⟩ := hq
  by_cases hc0 : c = 0
  · subst hc0
    have hp := hab.parent
    simp only [beq_self_eq_true, if_true] at hp
    rw [hp.1, hp.2]
    show S2 _ ((pure none : M (Option Nat)) sA1) ((getNode 0 >>= fun pn => pure (nextIn (0 + 1) pn.children)) sB1)
    refine S2.bindR (b := sB1.nodes.getD 0 default) (sB1 := sB1) rfl ?_
    rw [h1.n.doc.2]
    exact S2.pure ⟨rfl, h1⟩
  · have hc : (c == 0) = false := beq_eq_false_iff_ne.mpr hc0
    rw [hc] at hab
    have hp := hab.parent
    simp only [Bool.false_eq_true, if_false] at hp
    rw [hp]
    cases a.parent with
    | none => exact S2.pure ⟨rfl, h1⟩
    | some q =>
      show S2 _ ((getNode q >>= fun pn => pure (nextIn c pn.children)) sA1)
        ((getNode (q + 1) >>= fun pn => pure (nextIn (c + 1) pn.children)) sB1)
      refine S2.bind (getNode_s2 h1 q) (fun a' b' sA2 sB2 hq => ?_)
      obtain ⟨hab', h2⟩ := hq
      rw [hab'.children, nextIn_map_succ]
      exact S2.pure ⟨rfl, h2⟩

theorem insertBefore_s2 {src k ls p} {sA sB : St} (h : SR src k ls p sA sB) (q : Nat) (v1 : Option Nat) (ins : Nat)
    (hins : ins ≠ 0) :
    S2 (fun _ _ sA' sB' => SR src k ls p sA' sB') (insertBefore q v1 ins sA)
      (insertBefore (q + 1) (v1.map (· + 1)) (ins + 1) sB) := by
  unfold insertBefore
  cases v1 with
  | none => exact appendChild_s2 h q ins hins
  | some v =>
    simp only [Option.map_some]
    refine S2.bind (getNode_s2 h v) (fun a b sA1 sB1 hq => ?_)
    obtain ⟨hab, h1⟩ := hq
    by_cases hv0 : v = 0
    · subst hv0
      have hp := hab.parent
      simp only [beq_self_eq_true, if_true] at hp
      have e1 : (a.parent != some q) = true := by rw [hp.2]; rfl
      have e2 : (b.parent != some (q + 1)) = true := by rw [hp.1]; simp
      rw [if_pos e1, if_pos e2]
      exact appendChild_s2 h1 q ins hins
    · have hc : (v == 0) = false := beq_eq_false_iff_ne.mpr hv0
      rw [hc] at hab
      have hp := hab.parent
      simp only [Bool.false_eq_true, if_false] at hp
      rw [hp, opt_succ_bne]
      by_cases hcond : (a.parent != some q) = true
      · rw [if_pos hcond, if_pos hcond]; exact appendChild_s2 h1 q ins hins
      · rw [if_neg hcond, if_neg hcond]
        refine S2.bind (ensureIsolated_s2 h1 ins hins) (fun _ _ sA2 sB2 h2 => ?_)
        refine S2.bind (modNode_s2 h2 q _ _ (fun a b hab => ?_)) (fun _ _ sA3 sB3 h3 => ?_)
        · exact { hab with children := by simp only [hab.children, insertBeforeIn_map_succ] }
        · refine modNode_s2 h3 ins _ _ (fun a b hab => ?_)
          have hi : (ins == 0) = false := beq_eq_false_iff_ne.mpr hins
          rw [hi] at hab ⊢
          exact { hab with parent := by simp }

theorem insertAfter_s2 {src k ls p} {sA sB : St} (h : SR src k ls p sA sB) (q : Nat) (v1 : Option Nat) (ins : Nat)
    (hins : ins ≠ 0) :
    S2 (fun _ _ sA' sB' => SR src k ls p sA' sB') (insertAfter q v1 ins sA)
      (insertAfter (q + 1) (v1.map (· + 1)) (ins + 1) sB) := by
  unfold insertAfter
  cases v1 with
  | none => exact appendChild_s2 h q ins hins
  | some v =>
    simp only [Option.map_some]
    refine S2.bind (nextSibling_s2 h v) (fun a b sA1 sB1 hq => ?_)
    obtain ⟨hb, h1⟩ := hq
    subst hb
    rw [opt_succ_beq]
    by_cases hc : (a == some ins) = true
    · rw [if_pos hc, if_pos hc]
      refine S2.bind (nextSibling_s2 h1 ins) (fun a' b' sA2 sB2 hq => ?_)
      obtain ⟨hb, h2⟩ := hq
      subst hb
      exact insertBefore_s2 h2 q a' ins hins
    · rw [if_neg hc, if_neg hc]
      exact insertBefore_s2 h1 q a ins hins

theorem replaceChild_s2 {src k ls p} {sA sB : St} (h : SR src k ls p sA sB) (q v1 ins : Nat) (hins : ins ≠ 0) :
    S2 (fun _ _ sA' sB' => SR src k ls p sA' sB') (replaceChild q v1 ins sA)
      (replaceChild (q + 1) (v1 + 1) (ins + 1) sB) := by
  unfold replaceChild
  refine S2.bind (insertBefore_s2 h q (some v1) ins hins) (fun _ _ sA1 sB1 h1 => ?_)
  exact removeChild_s2 h1 q v1

/-! ### setextHeadingParser.Open -/

theorem matchesSetextHeadingBar_nil : matchesSetextHeadingBar [] = .error .index := by rfl

theorem setextOpen_sim (src : Bytes) : OpenSim src .setext := by
  intro k ls p parent sA sB h
  show S2 _ (setextOpen parent sA) (setextOpen (parent + 1) sB)
  unfold setextOpen
  refine S2.bind (lastOpenedBlock_s2 h) (fun a b sA0 sB0 hq => ?_)
  obtain ⟨hl, _, hA, hB⟩ := hq
  subst hA hB
  rcases hl with ⟨ha, hb⟩ | ⟨x, ha, hb⟩
  · subst ha hb
    show S2 _ ((pure (none, stNoChildren) : M (Option Nat × PState)) sA0) ((getNode 1 >>= _) sB0)
    refine S2.bindR (b := sB0.nodes.getD 1 default) (sB1 := sB0) rfl ?_
    have hk := (h.n.node 0).kind
    simp only [beq_self_eq_true, if_true] at hk
    have e : ((sB0.nodes.getD (0 + 1) default).kind != Kind.paragraph ||
        (sB0.nodes.getD (0 + 1) default).parent != some (parent + 1)) = true := by rw [hk.1]; rfl
    rw [if_pos e]
    exact S2.pure ⟨⟨rfl, .inl ⟨rfl, rfl⟩⟩, p, Nat.le_refl _, h⟩
  · subst ha hb
    show S2 _ ((getNode x.node >>= _) sA0) ((getNode (x.node + 1) >>= _) sB0)
    refine S2.bind (getNode_s2 h x.node) (fun a b sA1 sB1 hq => ?_)
    obtain ⟨hab, h1⟩ := hq
    by_cases hx0 : x.node = 0
    · have hk := hab.kind
      rw [hx0] at hk
      simp only [beq_self_eq_true, if_true] at hk
      have e1 : (a.kind != Kind.paragraph || a.parent != some parent) = true := by rw [hk.2]; rfl
      have e2 : (b.kind != Kind.paragraph || b.parent != some (parent + 1)) = true := by rw [hk.1]; rfl
      rw [if_pos e1, if_pos e2]
      exact S2.pure ⟨⟨rfl, .inl ⟨rfl, rfl⟩⟩, p, Nat.le_refl _, h1⟩
    · have hc : (x.node == 0) = false := beq_eq_false_iff_ne.mpr hx0
      rw [hc] at hab
      have hk := hab.kind
      have hp := hab.parent
      simp only [Bool.false_eq_true, if_false] at hk hp
      rw [hk, hp, opt_succ_bne]
      by_cases hcond : (a.kind != Kind.paragraph || a.parent != some parent) = true
      · rw [if_pos hcond, if_pos hcond]
        exact S2.pure ⟨⟨rfl, .inl ⟨rfl, rfl⟩⟩, p, Nat.le_refl _, h1⟩
      · rw [if_neg hcond, if_neg hcond]
        refine S2.bind (peekLine_s2 h1) (fun a' b' sA2 sB2 hq => ?_)
        obtain ⟨ha', hb', h2⟩ := hq
        subst ha' hb'
        simp only
        refine S2.bind (P := fun x' y' sA' sB' => y' = x' ∧
            matchesSetextHeadingBar ((viewA src ls p).getD []) = .ok x' ∧ SR src k ls p sA' sB')
          (S2.liftE (fun x' hx' => ⟨x', hx', rfl, hx', h2⟩)) (fun x' y' sA3 sB3 hq => ?_)
        obtain ⟨hy', hm, h3⟩ := hq
        subst hy'
        obtain ⟨c, ok⟩ := y'
        simp only
        by_cases hok : (!ok) = true
        · rw [if_pos hok, if_pos hok]
          exact S2.pure ⟨⟨rfl, .inl ⟨rfl, rfl⟩⟩, p, Nat.le_refl _, h3⟩
        · rw [if_neg hok, if_neg hok]
          have hi := h.r.inl
          have hplt : p < lineEnd src ls := by
            rcases Nat.lt_or_ge p (lineEnd src ls) with h' | h'
            · exact h'
            · exfalso
              simp only [viewA, Nat.not_lt.mpr h', if_false, Option.getD_none, matchesSetextHeadingBar_nil] at hm
              cases hm
          have hseg : SegRel src (segA src ls p) (shK k (segA src ls p)) :=
            segRel_of_in (segA_in hi) (by simp [segA]; exact hplt)
          refine S2.bind (newNode_s2 h3 _ _ (nodeRel_new src { kind := .heading, level := if (c == 45) = true then 2 else 1 }
            rfl rfl rfl rfl (by show (-1 : Int) < 0; decide))) (fun n m sA4 sB4 hq => ?_)
          obtain ⟨_, hm', hn0, h4⟩ := hq
          subst hm'
          refine S2.bind (appendLine_s2 h4 n hseg (.inl (by simp only [segA]; omega))) (fun _ _ sA5 sB5 h5 => ?_)
          refine S2.bind (modPc_s2 h5 _ _ (fun ca cb hcc => ?_)) (fun _ _ sA6 sB6 h6 => ?_)
          · exact { hcc with tmpPara := rfl }
          · exact S2.pure ⟨⟨rfl, .inr ⟨n, hn0, rfl, rfl⟩⟩, p, Nat.le_refl _, h6⟩

/-! ### setextHeadingParser.Close -/

/-- a fact about A's run alone can be added to a simulation step -/
theorem S2.andA {α β} {P : α → β → St → St → Prop} {R : α → St → Prop} {x : Except Panic (α × St)}
    {y : Except Panic (β × St)} (h : S2 P x y) (hr : ∀ a sA, x = .ok (a, sA) → R a sA) :
    S2 (fun a b sA sB => P a b sA sB ∧ R a sA) x y := by
  intro a sA e
  obtain ⟨b, sB, h1, h2⟩ := h a sA e
  exact ⟨b, sB, h1, h2, hr a sA e⟩

theorem getNode_pc {id : Nat} {s s' : St} {a : Node} (e : getNode id s = .ok (a, s')) : s'.pc = s.pc := by
  unfold getNode at e; cases e; rfl

theorem modNode_pc {id : Nat} {f : Node → Node} {s s' : St} {a : Unit} (e : modNode id f s = .ok (a, s')) :
    s'.pc = s.pc := by
  unfold modNode at e; cases e; rfl

theorem S2.pureBind {α β α' β'} {Q : α' → β' → St → St → Prop} {a : α} {b : β} {fA : α → M α'} {fB : β → M β'}
    {sA sB : St} (h : S2 Q (fA a sA) (fB b sB)) : S2 Q (((Pure.pure a : M α) >>= fA) sA) (((Pure.pure b : M β) >>= fB) sB) := by
  refine S2.bind (P := fun x y sA' sB' => a = x ∧ b = y ∧ sA = sA' ∧ sB = sB') (S2.pure ⟨rfl, rfl, rfl, rfl⟩)
    (fun x y sA' sB' hq => ?_)
  obtain ⟨e1, e2, e3, e4⟩ := hq
  subst e1 e2 e3 e4
  exact h

/-- `Segment.TrimLeftSpace` on a stored segment -/
theorem trimLeftSpace_rel {src : Bytes} {a b : Segment} (h : SegRel src a b) (a' : Segment)
    (e : a.trimLeftSpace src = .ok a') :
    ∃ b', b.trimLeftSpace (quotePrefix src) = .ok b' ∧ SegRel src a' b' := by
  obtain ⟨k, ls, hl, g1, g2, g3, hb⟩ := h
  subst hb
  obtain ⟨t, e1, e2, t1, t2, t3, t4⟩ := trimLeftSpace_q (s := a) ⟨hl, g1, g2, g3⟩
  rw [e1] at e; cases e
  refine ⟨shK k a', e2, k, ls, hl, by omega, ?_, by omega, rfl⟩
  have := trimLeftSpaceLength_le (sub src a.start.toNat a.stop.toNat)
  have hlen := length_sub src (a := a.start.toNat) (b := a.stop.toNat) (by have := lineEnd_le src ls; omega)
  omega

/-- setext_headings.go:98-103 and 110: a new paragraph with the heading's line behind the heading, which is removed -/
theorem setextClose_newPara {src k ls p} {sA sB : St} (h : SR src k ls p sA sB) (hp node : Nat) {s t : Segment}
    (hst : SegRel src s t) :
    S2 (fun _ _ sA' sB' => SR src k ls p sA' sB')
      ((do
        let para ← newNode { kind := .paragraph }
        appendLine para s
        insertAfter hp (some node) para
        removeChild hp node : M Unit) sA)
      ((do
        let para ← newNode { kind := .paragraph }
        appendLine para t
        insertAfter (hp + 1) (some (node + 1)) para
        removeChild (hp + 1) (node + 1) : M Unit) sB) := by
  refine S2.bind (newNode_s2k h _ _ (nodeRel_new src { kind := .paragraph } rfl rfl rfl rfl (by decide)))
    (fun n m sA1 sB1 hq => ?_)
  obtain ⟨_, hm, hn0, h1, hk1⟩ := hq
  subst hm
  refine S2.bind (appendLine_s2 h1 n hst (.inr (by rw [hk1]; rfl))) (fun _ _ sA2 sB2 h2 => ?_)
  refine S2.bind (insertAfter_s2 h2 hp (some node) n hn0) (fun _ _ sA3 sB3 h3 => ?_)
  exact removeChild_s2 h3 hp node

theorem getNode_eq {id : Nat} {s s' : St} {a : Node} (e : getNode id s = .ok (a, s')) :
    a = s.nodes.getD id default ∧ s' = s := by
  unfold getNode at e; cases e; exact ⟨rfl, rfl⟩

theorem modNode_kinds {id : Nat} {f : Node → Node} (hf : ∀ n, (f n).kind = n.kind) {s s' : St} {a : Unit}
    (e : modNode id f s = .ok (a, s')) : ∀ i, (s'.nodes.getD i default).kind = (s.nodes.getD i default).kind := by
  unfold modNode at e; cases e
  intro i
  simp only [List.getD_eq_getElem?_getD, List.getElem?_set]
  by_cases hi : id = i
  · subst hi
    by_cases hl : id < s.nodes.length
    · simp [hl, hf]
    · simp [hl]
  · simp [hi]

theorem modPc_nodes {f : Ctx → Ctx} {s s' : St} {a : Unit} (e : modPc f s = .ok (a, s')) : s'.nodes = s.nodes := by
  unfold modPc at e; cases e; rfl

/-- `setextHeadingParser.Close` on a node that is not the Document and not raw (the driver calls it on Heading nodes
    only: `AInv.pk`; a raw node could receive the paragraph's possibly shorter … lines, see `NodeRel.rawNE`) -/
theorem setextClose_sim' (src : Bytes) : ∀ k ls p node sA sB, SR src k ls p sA sB → node ≠ 0 →
    sA.pc.tmpPara ≠ some 0 → rawK (sA.nodes.getD node default).kind = false →
    S2 (fun _ _ sA' sB' => SR src k ls p sA' sB') (setextClose node sA) (setextClose (node + 1) sB) := by
  intro k ls p node sA sB h hnode htmp hnr
  unfold setextClose
  have hn0 : (node == 0) = false := beq_eq_false_iff_ne.mpr hnode
  refine S2.bind ((getNode_s2 h node).andA (R := fun _ s => s.pc = sA.pc ∧ s.nodes = sA.nodes)
    (fun _ _ e => ⟨getNode_pc e, by rw [(getNode_eq e).2]⟩)) (fun a b sA1 sB1 hq => ?_)
  obtain ⟨⟨hab, h1⟩, hpc1, hnd1⟩ := hq
  rw [hn0] at hab
  refine S2.bind (P := fun x y sA' sB' => SegRel src x y ∧ SR src k ls p sA' sB' ∧ sA'.pc = sA.pc ∧ sA'.nodes = sA.nodes)
    (S2.liftE (fun x hx => ?_)) (fun x y sA2 sB2 hq => ?_)
  · obtain ⟨y, hy, hxy⟩ := lineAt_q hab.lines _ x hx
    exact ⟨y, hy, hxy, h1, hpc1, hnd1⟩
  obtain ⟨hxy, h2, hpc2, hnd2⟩ := hq
  refine S2.bind ((modNode_s2 h2 node _ _ (fun a b hab => ?_)).andA
    (R := fun _ s => s.pc = sA2.pc ∧ ∀ i, (s.nodes.getD i default).kind = (sA2.nodes.getD i default).kind)
    (fun _ _ e => ⟨modNode_pc e, modNode_kinds (f := fun n => { n with lines := [], linesNil := true }) (fun _ => rfl) e⟩))
    (fun _ _ sA3 sB3 hq => ?_)
  · exact { hab with lines := trivial, linesNil := rfl, rawNE := fun _ l hl => by cases hl }
  obtain ⟨h3, hpc3, hk3⟩ := hq
  have hnr3 : rawK (sA3.nodes.getD node default).kind = false := by rw [hk3, hnd2]; exact hnr
  refine S2.bind (getPc_s2 h3) (fun ca cb sA4 sB4 hq => ?_)
  obtain ⟨hca, hcb, hcc, hA4, hB4⟩ := hq
  subst hA4 hB4
  have htmp' : ca.tmpPara ≠ some 0 := by rw [hca, hpc3, hpc2]; exact htmp
  rw [hcc.tmpPara]
  cases hct : ca.tmpPara with
  | none => exact S2.err
  | some t =>
    have ht0 : (t == 0) = false := beq_eq_false_iff_ne.mpr (fun e => htmp' (by rw [hct, e]))
    dsimp only [Option.map_some]
    refine S2.bind (P := fun x y sA' sB' => t = x ∧ t + 1 = y ∧ sA4 = sA' ∧ sB4 = sB') (S2.pure ⟨rfl, rfl, rfl, rfl⟩)
      (fun t1 t2 sA4' sB4' hq => ?_)
    obtain ⟨e1, e2, e3, e4⟩ := hq
    subst e1 e2 e3 e4
    refine S2.bind ((modPc_s2 h3 _ _ (fun ca cb hcc => ?_)).andA (R := fun _ s => s.nodes = sA4.nodes)
      (fun _ _ e => modPc_nodes e)) (fun _ _ sA5 sB5 hq => ?_)
    · exact { hcc with tmpPara := rfl }
    obtain ⟨h5, hnd5⟩ := hq
    refine S2.bind ((getNode_s2 h5 t).andA (R := fun _ s => s = sA5) (fun _ _ e => (getNode_eq e).2))
      (fun tn tn' sA6 sB6 hq => ?_)
    obtain ⟨⟨htn, h6⟩, hs6⟩ := hq
    have hnr6 : rawK (sA6.nodes.getD node default).kind = false := by rw [hs6, hnd5]; exact hnr3
    rw [ht0] at htn
    rw [SegsRel.length htn.lines]
    by_cases hc : (tn.lines.length == 0) = true
    · rw [if_pos hc, if_pos hc]
      refine S2.bind (nextSibling_s2 h6 node) (fun nxt nxt' sA7 sB7 hq => ?_)
      obtain ⟨hnx, h7⟩ := hq
      subst hnx
      refine S2.bind (source_s2 h7) (fun sa sb sA8 sB8 hq => ?_)
      obtain ⟨ha, hb, h8⟩ := hq
      rw [ha, hb]
      refine S2.bind (P := fun x' y' sA' sB' => SegRel src x' y' ∧ SR src k ls p sA' sB')
        (S2.liftE (fun x' hx' => ?_)) (fun x' y' sA9 sB9 hq => ?_)
      · obtain ⟨y', hy', hxy'⟩ := trimLeftSpace_rel hxy x' hx'
        exact ⟨y', hy', hxy', h8⟩
      obtain ⟨hxy', h9⟩ := hq
      refine S2.bind (getNode_s2 h9 node) (fun hn hn' sA10 sB10 hq => ?_)
      obtain ⟨hhn, h10⟩ := hq
      rw [hn0] at hhn
      have hp := hhn.parent
      simp only [Bool.false_eq_true, if_false] at hp
      rw [hp]
      cases hn.parent with
      | none => exact S2.err
      | some hp =>
        dsimp only [Option.map_some]
        refine S2.pureBind ?_
        cases nxt with
        | none =>
          dsimp only [Option.map_none]
          refine S2.pureBind ?_
          rw [if_pos (show (!false) = true from rfl), if_pos (show (!false) = true from rfl)]
          exact setextClose_newPara h10 hp node hxy'
        | some nx =>
          dsimp only [Option.map_some]
          refine S2.bind ((getNode_s2 h10 nx).andA (R := fun a s => a = sA10.nodes.getD nx default ∧ s = sA10)
            (fun _ _ e => getNode_eq e)) (fun nn nn' sA11 sB11 hq => ?_)
          obtain ⟨⟨hnn, h11⟩, hnn_eq, hs11⟩ := hq
          refine S2.pureBind ?_
          have hkind : (nn'.kind == Kind.paragraph) = (nn.kind == Kind.paragraph) := by
            have hk := hnn.kind
            by_cases hx0 : nx = 0
            · subst hx0
              simp only [beq_self_eq_true, if_true] at hk
              rw [hk.1, hk.2]; rfl
            · have hx : (nx == 0) = false := beq_eq_false_iff_ne.mpr hx0
              rw [hx] at hk
              simp only [Bool.false_eq_true, if_false] at hk
              rw [hk]
          rw [hkind]
          by_cases hpara : (!(nn.kind == Kind.paragraph)) = true
          · rw [if_pos hpara, if_pos hpara]
            exact setextClose_newPara h11 hp node hxy'
          · rw [if_neg hpara, if_neg hpara]
            refine S2.bind ((getNode_s2 h11 nx).andA (R := fun _ s => s = sA11) (fun _ _ e => (getNode_eq e).2))
              (fun n2 n2' sA12 sB12 hq => ?_)
            obtain ⟨⟨hn2, h12⟩, hs12⟩ := hq
            have hnx : rawK (sA12.nodes.getD nx default).kind = false := by
              rw [hs12, hs11, ← hnn_eq]
              have : nn.kind = Kind.paragraph := by simpa using hpara
              rw [this]; rfl
            rw [hn2.linesNil]
            by_cases hnil : n2.linesNil = true
            · rw [if_pos hnil]; exact S2.err
            · rw [if_neg hnil, if_neg hnil]
              refine S2.bind (modNode_s2' h12 nx _ _ (fun hab => ?_)) (fun _ _ sA13 sB13 h13 => ?_)
              · exact { hab with lines := ⟨hxy', hab.lines⟩, rawNE := fun hr => by rw [hnx] at hr; cases hr }
              exact removeChild_s2 h13 hp node
    · rw [if_neg hc, if_neg hc]
      refine S2.bind (modNode_s2' h6 node _ _ (fun hab => ?_)) (fun _ _ sA7 sB7 h7 => ?_)
      · exact { hab with lines := htn.lines, linesNil := htn.linesNil, rawNE := (fun hr => by rw [hnr6] at hr; cases hr),
                         blank := (fun hfl _ => htn.blank hfl rfl) }
      have hp := htn.parent
      simp only [Bool.false_eq_true, if_false] at hp
      rw [hp]
      cases tn.parent with
      | none => exact S2.pure h7
      | some tp => exact removeChild_s2 h7 tp t

end GM.Blocks
