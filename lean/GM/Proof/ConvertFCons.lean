/-
  GM.Proof.ConvertFCons — C11 for the BLOCK PHASE at whole-document level: on a source without the two bytes `[^` the block
  phase with the footnote block parser registered is the block phase of `convertCore`, and no Footnote / FootnoteList exists.

  The footnote parser IS consulted (on every line whose first non-space byte is `[`); it declines
  (GM.ConvertF.fnOpenScan_declines) — but it has called `reader.PeekLine()`, which fills the reader's line cache. So the
  simulation carries a reader invariant `IC`: the cache, when filled, holds the value of the current position in a source
  without `[^` (kept by every reader primitive: `RPrims`, hence by every block parser and the driver), and at the call the
  cache is already filled by openBlocks' own PeekLine (a Hoare-style step through `openBlocksLoopF`).
-/
import GM.Proof.ConvertFDecline
import GM.Proof.BlocksT
import GM.Proof.LinkRefPres

namespace GM.ConvertF
open GM GM.Text GM.Blocks GM.Convert

/-! ### `[^` does not occur -/

theorem hasInfix2_false_iff (a b : UInt8) : ∀ l : Bytes,
    GM.Ext.hasInfix [a, b] l = false ↔ ∀ i, ¬ (l[i]? = some a ∧ l[i + 1]? = some b)
  | [] => by simp [GM.Ext.hasInfix, List.isPrefixOf]
  | [x] => by
    simp only [GM.Ext.hasInfix, List.isPrefixOf, Bool.and_false, Bool.or_false, true_iff]
    intro i h
    cases i <;> simp at h
  | x :: y :: rest => by
    have ih := hasInfix2_false_iff a b (y :: rest)
    simp only [GM.Ext.hasInfix, List.isPrefixOf, Bool.and_true, Bool.or_eq_false_iff] at ih ⊢
    constructor
    · rintro ⟨h1, h2⟩ i hi
      cases i with
      | zero =>
        simp only [List.getElem?_cons_zero, Option.some.injEq, List.getElem?_cons_succ] at hi
        simp [hi.1, hi.2] at h1
      | succ i =>
        simp only [List.getElem?_cons_succ] at hi
        exact (ih.1 h2) i hi
    · intro h
      refine ⟨?_, ih.2 (fun i hi => h (i + 1) (by simpa using hi))⟩
      have h0 := h 0
      simp only [List.getElem?_cons_zero, Option.some.injEq, List.getElem?_cons_succ, not_and] at h0
      simp only [Bool.and_eq_false_imp, beq_iff_eq, beq_eq_false_iff_ne, ne_eq]
      intro hax hby
      exact h0 hax.symm hby.symm

theorem noCaret_sub {src : Bytes} (h : GM.Ext.hasInfix [91, 94] src = false) (a b : Nat) :
    GM.Ext.hasInfix [91, 94] (sub src a b) = false := by
  rw [hasInfix2_false_iff] at h ⊢
  intro i hi
  unfold sub at hi
  simp only [List.getElem?_take, List.getElem?_drop] at hi
  apply h (a + i)
  obtain ⟨h1, h2⟩ := hi
  split at h1
  · split at h2
    · exact ⟨h1, by rw [← h2]; congr 1⟩
    · cases h2
  · cases h1

theorem noCaret_append {x y : Bytes} (hx : GM.Ext.hasInfix [91, 94] x = false) (hy : GM.Ext.hasInfix [91, 94] y = false)
    (hb : x.getLast? ≠ some 91 ∨ y.head? ≠ some 94) : GM.Ext.hasInfix [91, 94] (x ++ y) = false := by
  rw [hasInfix2_false_iff] at hx hy ⊢
  intro i hi
  obtain ⟨h1, h2⟩ := hi
  by_cases hlt : i + 1 < x.length
  · apply hx i
    rw [List.getElem?_append_left (by omega)] at h1
    rw [List.getElem?_append_left hlt] at h2
    exact ⟨h1, h2⟩
  · by_cases hge : x.length ≤ i
    · apply hy (i - x.length)
      rw [List.getElem?_append_right hge] at h1
      rw [List.getElem?_append_right (by omega)] at h2
      refine ⟨h1, ?_⟩
      rw [← h2]; congr 1; omega
    · have hi' : i + 1 = x.length := by omega
      rw [List.getElem?_append_left (by omega)] at h1
      rw [List.getElem?_append_right (by omega)] at h2
      have e0 : i + 1 - x.length = 0 := by omega
      rw [e0] at h2
      rcases hb with hb | hb
      · apply hb
        rw [List.getLast?_eq_getElem?]
        have : x.length - 1 = i := by omega
        rw [this]; exact h1
      · apply hb
        rw [List.head?_eq_getElem?]; exact h2

theorem noCaret_spaces (n : Nat) : GM.Ext.hasInfix [91, 94] (spaces n) = false := by
  rw [hasInfix2_false_iff]
  intro i hi
  have := hi.1
  unfold spaces at this
  rw [List.getElem?_replicate] at this
  split at this <;> simp at this

/-- the value of a segment of a source without `[^` has no `[^` -/
theorem noCaret_value {src : Bytes} (h : GM.Ext.hasInfix [91, 94] src = false) (t : Segment) (l : Bytes)
    (hv : t.value src = .ok l) : GM.Ext.hasInfix [91, 94] l = false := by
  have hnl : ∀ r : Bytes, GM.Ext.hasInfix [91, 94] r = false → GM.Ext.hasInfix [91, 94] (r ++ [10]) = false := fun r hr =>
    noCaret_append hr (by decide) (Or.inr (by decide))
  unfold Segment.value at hv
  split at hv
  · simp only [bind, Except.bind] at hv
    cases hs : sliceB src t.start t.stop with
    | error e => rw [hs] at hv; cases hv
    | ok r =>
      rw [hs] at hv
      have hr : GM.Ext.hasInfix [91, 94] r = false := by
        unfold sliceB at hs
        split at hs
        · cases hs; exact noCaret_sub h _ _
        · cases hs
      simp only [pure, Except.pure] at hv
      split at hv
      · cases hv; exact hnl r hr
      · cases hv; exact hr
  · simp only [bind, Except.bind] at hv
    split at hv
    · cases hv
    · split at hv
      · cases hv
      · cases hs : sliceB src t.start t.stop with
        | error e => rw [hs] at hv; cases hv
        | ok r =>
          rw [hs] at hv
          have hr : GM.Ext.hasInfix [91, 94] r = false := by
            unfold sliceB at hs
            split at hs
            · cases hs; exact noCaret_sub h _ _
            · cases hs
          have hsr : GM.Ext.hasInfix [91, 94] (spaces t.padding.toNat ++ r) = false := by
            apply noCaret_append (noCaret_spaces _) hr
            left
            intro hl
            have := List.mem_of_getLast? hl
            unfold spaces at this
            simp at this
          simp only [pure, Except.pure] at hv
          split at hv
          · cases hv; exact hnl _ hsr
          · cases hv; exact hsr

/-! ### the reader invariant -/

/-- the reader's line cache, when filled, holds the value of the current position -/
def Coh (r : Reader) : Prop := ∀ l, r.peekedLine = some l → r.pos.value r.source = .ok l

theorem Coh.of_none {r : Reader} (h : r.peekedLine = none) : Coh r := fun l hl => by rw [h] at hl; cases hl

/-- `Stop` (what GM.Proof.BlocksTerm carries: the source, `pos.Stop` inside it) and the cache coherence -/
def IC (src : Bytes) (s : St) : Prop := Stop src 0 s ∧ Coh s.r

theorem pres_and {I J : St → Prop} {α : Type} {m : M α} (h1 : Pres I m)
    (h2 : ∀ s a s', I s → J s → m s = .ok (a, s') → J s') : Pres (fun s => I s ∧ J s) m := by
  constructor
  intro s hs
  have := h1.h s hs.1
  cases hm : m s with
  | error e => rw [hm] at this; exact this
  | ok p =>
    obtain ⟨a, s'⟩ := p
    rw [hm] at this
    exact ⟨this, h2 s a s' hs.1 hs.2 hm⟩

theorem coh_peekLine {r r' : Reader} {x : Option Bytes × Segment} (h : r.peekLine = .ok (x, r')) (hc : Coh r) : Coh r' := by
  unfold Reader.peekLine at h
  split at h
  · split at h
    · cases h; exact hc
    · rename_i hn
      simp only [bind, Except.bind] at h
      cases hv : r.pos.value r.source with
      | error e => rw [hv] at h; cases h
      | ok v =>
        rw [hv] at h
        cases h
        intro l hl
        simp only [Option.some.injEq] at hl
        subst hl
        exact hv
  · cases h; exact hc

theorem coh_lineOffsetOp {r r' : Reader} {x : Int} (h : r.lineOffsetOp = .ok (x, r')) (hc : Coh r) : Coh r' := by
  unfold Reader.lineOffsetOp at h
  split at h
  · simp only [bind, Except.bind] at h
    cases hv : colLoop r.source r.head r.pos.start with
    | error e => rw [hv] at h; cases h
    | ok v => rw [hv] at h; cases h; exact hc
  · cases h; exact hc

theorem advanceLoop_none : ∀ (n : Nat) (r r' : Reader), r.peekedLine = none → r.advanceLoop n = .ok r' → r'.peekedLine = none
  | 0, r, r', hn, h => by unfold Reader.advanceLoop at h; cases h; exact hn
  | n + 1, r, r', hn, h => by
    unfold Reader.advanceLoop at h
    split at h
    · split at h
      · exact advanceLoop_none n _ r' (by exact hn) h
      · simp only [bind, Except.bind] at h
        cases hb : getByte r.source r.pos.start with
        | error e => rw [hb] at h; cases h
        | ok c =>
          rw [hb] at h
          simp only at h
          split at h
          · refine advanceLoop_none n _ r' ?_ h
            unfold Reader.advanceLine
            simp only
            split <;> rfl
          · exact advanceLoop_none n _ r' (by exact hn) h
    · cases h; exact hn

theorem advance_none {r r' : Reader} {n : Int} (h : r.advance n = .ok r') : r'.peekedLine = none := by
  unfold Reader.advance at h
  dsimp only at h
  cases hpk : r.peekedLine with
  | none =>
    rw [hpk] at h
    dsimp only at h
    split at h
    · simp only [pure, Except.pure, Except.ok.injEq] at h
      rw [← h]
    · exact advanceLoop_none _ _ r' rfl h
  | some l =>
    rw [hpk] at h
    dsimp only at h
    split at h
    · simp only [pure, Except.pure, Except.ok.injEq] at h
      rw [← h]
    · exact advanceLoop_none _ _ r' rfl h

theorem advanceAndSetPadding_none {r r' : Reader} {n p : Int} (h : r.advanceAndSetPadding n p = .ok r') :
    r'.peekedLine = none := by
  unfold Reader.advanceAndSetPadding at h
  simp only [bind, Except.bind] at h
  cases ha : r.advance n with
  | error e => rw [ha] at h; cases h
  | ok x =>
    rw [ha] at h
    simp only [pure, Except.pure] at h
    split at h
    · cases h; rfl
    · cases h; exact advance_none ha

theorem ic_prims (src : Bytes) : RPrims (IC src) where
  ronly := fun s nodes pc h => ⟨(stop_prims src 0).ronly s nodes pc h.1, h.2⟩
  peekLine := pres_and (stop_prims src 0).peekLine (by
    intro s a s' _ hc hm
    unfold GM.Blocks.peekLine at hm
    simp only [bind, Except.bind] at hm
    cases hp : s.r.peekLine with
    | error e => rw [hp] at hm; cases hm
    | ok x => rw [hp] at hm; cases hm; exact coh_peekLine hp hc)
  lineOffset := pres_and (stop_prims src 0).lineOffset (by
    intro s a s' _ hc hm
    unfold GM.Blocks.lineOffset at hm
    simp only [bind, Except.bind] at hm
    cases hp : s.r.lineOffsetOp with
    | error e => rw [hp] at hm; cases hm
    | ok x => rw [hp] at hm; cases hm; exact coh_lineOffsetOp hp hc)
  advance := fun n => pres_and ((stop_prims src 0).advance n) (by
    intro s a s' _ _ hm
    unfold GM.Blocks.advance at hm
    simp only [bind, Except.bind] at hm
    cases hp : s.r.advance n with
    | error e => rw [hp] at hm; cases hm
    | ok x => rw [hp] at hm; cases hm; exact Coh.of_none (advance_none hp))
  advanceAndSetPadding := fun n p => pres_and ((stop_prims src 0).advanceAndSetPadding n p) (by
    intro s a s' _ _ hm
    unfold GM.Blocks.advanceAndSetPadding at hm
    simp only [bind, Except.bind] at hm
    cases hp : s.r.advanceAndSetPadding n p with
    | error e => rw [hp] at hm; cases hm
    | ok x => rw [hp] at hm; cases hm; exact Coh.of_none (advanceAndSetPadding_none hp))
  preserveLeadingTab := fun seg ind => pres_and ((stop_prims src 0).preserveLeadingTab seg ind) (by
    intro s a s' _ _ hm
    unfold preserveLeadingTab at hm
    simp only [bind, StateT.bind, GM.Blocks.lineOffset, position, setPosition, Reader.position, Except.bind, pure,
      Except.pure, StateT.pure] at hm
    cases hp : s.r.lineOffsetOp with
    | error e => rw [hp] at hm; cases hm
    | ok x =>
      rw [hp] at hm
      simp only at hm
      cases hp2 : (x.2.setPosition x.2.line { start := x.2.pos.start - 1, stop := x.2.pos.stop }).lineOffsetOp with
      | error e => rw [hp2] at hm; cases hm
      | ok y =>
        rw [hp2] at hm
        cases hm
        exact Coh.of_none rfl)

/-! ### simulation with a state invariant and a postcondition on the value -/

/-- from `({}, s)` with `I s`: same value and `St` as the `M` program, the footnote layer still empty, `I` again, and the
    value satisfies `Q` -/
def RSimI (I : St → Prop) {α : Type} (Q : α → Prop) (x : Except Panic ((α × FS) × St)) (y : Except Panic (α × St)) : Prop :=
  match x with
  | .ok ((a, f'), s') => f'.empty ∧ y = .ok (a, s') ∧ I s' ∧ Q a
  | .error e => y = .error e

structure FSimI (I : St → Prop) {α : Type} (Q : α → Prop) (m : MF α) (m0 : M α) : Prop where
  h : ∀ f s, FS.empty f → I s → RSimI I Q (m f s) (m0 s)

/-- no postcondition -/
abbrev QT {α : Type} : α → Prop := fun _ => True

variable {I : St → Prop}

theorem FSimI.up {α} (x : M α) (hx : Pres I x) : FSimI I QT (up x) x := by
  constructor
  intro f s hf hs
  rw [upF_apply]
  cases hm : x s with
  | error e => exact rfl
  | ok p => exact ⟨hf, rfl, hx.ok hs hm, trivial⟩

theorem FSimI.pure {α} {Q : α → Prop} (a : α) (hq : Q a) : FSimI I Q (Pure.pure a : MF α) (Pure.pure a : M α) :=
  ⟨fun _ _ hf hs => ⟨hf, rfl, hs, hq⟩⟩

theorem FSimI.throw {α} {Q : α → Prop} (e : Panic) : FSimI I Q (throw e : MF α) (throw e : M α) :=
  ⟨fun _ _ _ _ => rfl⟩

theorem RSimI.weaken {α} {Q Q' : α → Prop} {x : Except Panic ((α × FS) × St)} {y : Except Panic (α × St)}
    (h : RSimI I Q x y) (hq : ∀ a, Q a → Q' a) : RSimI I Q' x y := by
  unfold RSimI at h ⊢
  cases x with
  | error e => exact h
  | ok p => obtain ⟨⟨a, f'⟩, s'⟩ := p; exact ⟨h.1, h.2.1, h.2.2.1, hq a h.2.2.2⟩

/-- pointed form of `bind` -/
theorem RSimI.bind {α β} {Q : α → Prop} {Q' : β → Prop} {m : MF α} {m0 : M α} {k : α → MF β} {k0 : α → M β} {f : FS} {s : St}
    (hm : RSimI I Q (m f s) (m0 s)) (hk : ∀ a f' s', FS.empty f' → I s' → Q a → RSimI I Q' (k a f' s') (k0 a s')) :
    RSimI I Q' ((m >>= k) f s) ((m0 >>= k0) s) := by
  rw [mf_bind_apply, m_bind_apply']
  cases hx : m f s with
  | error e =>
    rw [hx] at hm
    simp only [RSimI] at hm
    rw [hm]; exact rfl
  | ok p =>
    obtain ⟨⟨a, f'⟩, s'⟩ := p
    rw [hx] at hm
    obtain ⟨h2, h3, h4, h5⟩ := hm
    rw [h3]
    exact hk a f' s' h2 h4 h5

theorem FSimI.bind {α β} {Q' : β → Prop} {m : MF α} {m0 : M α} {k : α → MF β} {k0 : α → M β}
    (hm : FSimI I QT m m0) (hk : ∀ a, FSimI I Q' (k a) (k0 a)) : FSimI I Q' (m >>= k) (m0 >>= k0) :=
  ⟨fun f s hf hs => RSimI.bind (hm.h f s hf hs) (fun a f' s' hf' hs' _ => (hk a).h f' s' hf' hs')⟩

theorem FSimI.ite {α} {Q : α → Prop} {c : Prop} [Decidable c] {a b : MF α} {a0 b0 : M α}
    (ha : FSimI I Q a a0) (hb : FSimI I Q b b0) : FSimI I Q (if c then a else b) (if c then a0 else b0) := by
  split <;> assumption

theorem FSimI.weaken {α} {Q Q' : α → Prop} {m : MF α} {m0 : M α} (h : FSimI I Q m m0) (hq : ∀ a, Q a → Q' a) :
    FSimI I Q' m m0 :=
  ⟨fun f s hf hs => (h.h f s hf hs).weaken hq⟩

open Lean Elab Tactic Meta in
elab "gen_discr_i" : tactic => do
  let g ← getMainGoal
  g.withContext do
    let t ← instantiateMVars (← g.getType)
    let args := t.getAppArgs
    if args.size < 5 then throwError "not an FSimI goal"
    let m := args[3]!
    let env ← getEnv
    let cand : Option Expr := (m.find? fun e =>
      if isMatcherAppCore env e then
        match e.getAppFn.constName? >>= fun n => (getMatcherInfoCore? env n) with
        | some info =>
          let as := e.getAppArgs
          (List.range info.numDiscrs).any fun i =>
            match as[info.numParams + 1 + i]? with
            | some d => !d.isFVar && !d.hasLooseBVars
            | none => false
        | none => false
      else false)
    let some e := cand | throwError "no match on a non-variable"
    let some info := e.getAppFn.constName? >>= fun n => (getMatcherInfoCore? env n) | throwError "no matcher info"
    let as := e.getAppArgs
    for i in List.range info.numDiscrs do
      match as[info.numParams + 1 + i]? with
      | some d =>
        if !d.isFVar && !d.hasLooseBVars then
          let (_, g') ← g.generalize #[{ expr := d }]
          replaceMainGoal [g']
          return
      | none => pure ()
    throwError "no discriminant"

macro "fsimi_step" : tactic =>
  `(tactic| first
    | (refine FSimI.pure _ ?_; (first | trivial | (intro _ h; first | rfl | cases h)))
    | exact FSimI.throw _
    | apply_hyp
    | (refine FSimI.up _ ?_; (first | apply_hyp | pres))
    | with_reducible apply FSimI.bind
    | with_reducible apply FSimI.ite
    | intro _
    | gen_discr_i
    | split)

macro "fsimi" : tactic => `(tactic| repeat' fsimi_step)

/-! ### the dispatch points while no Footnote exists -/

theorem bpContinueF_simI (hI : RPrims I) (bp : BP) (node : Nat) : FSimI I QT (bpContinueF bp node) (bpContinue bp node) := by
  constructor
  intro f s hf hs
  have hf' := FS.empty_eq hf
  subst hf'
  unfold bpContinueF
  rw [mf_bind_apply]
  simp only [getF, StateT.get, Pure.pure, Except.pure, FS.isFn, List.lookup, Option.isSome, Bool.false_eq_true, if_false]
  exact (FSimI.up (bpContinue bp node) (bpContinue_pres hI bp node)).h {} s FS.empty_default hs

theorem bpCloseF_simI (hI : RPrims I) (bp : BP) (node : Nat) : FSimI I QT (bpCloseF bp node) (bpClose bp node) := by
  constructor
  intro f s hf hs
  have hf' := FS.empty_eq hf
  subst hf'
  unfold bpCloseF
  rw [mf_bind_apply]
  simp only [getF, StateT.get, Pure.pure, Except.pure, FS.isFn, List.lookup, Option.isSome, Bool.false_eq_true, if_false]
  exact (FSimI.up (bpClose bp node) (bpClose_pres hI bp node)).h {} s FS.empty_default hs

theorem bpOpenF_core_simI (hI : RPrims I) (bp : BP) (parent : Nat) : FSimI I QT (bpOpenF (.core bp) parent) (bpOpen bp parent) :=
  FSimI.up _ (bpOpen_pres hI bp parent)

/-- what the driver needs to know about the outcome of the parser loop: a `goto retry` behind an opened container carries
    `newBlocksOpened` -/
def Qr (x : TryOutcomeT × OpenResult × Option Block) : Prop := ∀ p, x.1 = .retry p → x.2.1 = .newBlocksOpened

section driverI
variable (hI : RPrims I) {pts : List PT} (hp : PTsOK pts)
include hI hp

theorem closeLoopF_simI (blocks : List Block) (to : Int) (k : Nat) :
    FSimI I QT (closeLoopF pts blocks to k) (closeLoopT pts blocks to k) := by
  have hk := bpCloseF_simI hI
  have := transformParagraph_pres hI pts hp
  have := hI.ronly
  induction k with
  | zero => unfold closeLoopF closeLoopT; fsimi
  | succ k ih => unfold closeLoopF closeLoopT; fsimi

theorem closeBlocksF_simI (frm to : Int) : FSimI I QT (closeBlocksF pts frm to) (closeBlocksT pts frm to) := by
  have := closeLoopF_simI hI hp
  have := hI.ronly
  unfold closeBlocksF closeBlocksT; fsimi

theorem requireParaF_simI (parent : Nat) (last : Option Nat) (lastBlock : Option Block) :
    FSimI I QT (requireParaF pts parent last lastBlock) (requireParaT pts parent last lastBlock) := by
  have hk := bpCloseF_simI hI
  have := transformParagraph_pres hI pts hp
  have := hI.ronly
  unfold requireParaF requireParaT; fsimi

theorem tryParsersF_simI (parent : Nat) (blankLine continuable : Bool) (w : Int) (bps : List BP)
    (result : OpenResult) (lastBlock : Option Block) :
    FSimI I Qr (tryParsersF pts parent blankLine continuable w (bps.map .core) result lastBlock)
      (tryParsersT pts parent blankLine continuable w bps result lastBlock) := by
  have := requireParaF_simI hI hp
  have := closeBlocksF_simI hI hp
  have ho := bpOpenF_core_simI hI
  have := hI.ronly
  have := appendChild_pres hI
  have := lastOpenedBlock_pres hI
  induction bps generalizing result lastBlock with
  | nil => unfold tryParsersF tryParsersT; fsimi
  | cons bp bps ih =>
    simp only [List.map]
    unfold tryParsersF tryParsersT
    dsimp only [BPF.canInterruptParagraph, BPF.canAcceptIndentedLine, BPF.tag]
    apply FSimI.ite
    · exact ih _ _
    apply FSimI.ite
    · exact ih _ _
    fsimi

end driverI

/-! ### the footnote block parser at the head of the list -/

theorem idx_inRange {line : Bytes} {i : Int} (h0 : 0 ≤ i) (h1 : i.toNat < line.length) : ∃ c, idx line i = .ok c := by
  unfold idx getByte
  have : ¬ i < 0 := by omega
  simp only [this, if_false]
  rw [List.getElem?_eq_getElem h1]
  exact ⟨_, rfl⟩

/-- with the block offset inside the line there is no index panic: (nil, NoChildren) -/
theorem fnOpenScan_none (line : Bytes) (pos : Int) (hpos : pos < 0 ∨ pos.toNat < line.length)
    (h : GM.Ext.hasInfix [91, 94] line = false) : fnOpenScan line pos = .ok none := by
  rcases fnOpenScan_declines line pos h with h1 | h1
  · exact h1
  · exfalso
    unfold fnOpenScan at h1
    simp only [bind, Except.bind, pure, Except.pure] at h1
    by_cases hp : pos < 0
    · simp [hp] at h1
    · simp only [hp, if_false] at h1
      have hr : pos.toNat < line.length := by
        rcases hpos with h2 | h2
        · exact absurd h2 hp
        · exact h2
      obtain ⟨c, hc⟩ := idx_inRange (by omega) hr
      rw [hc] at h1
      simp only at h1
      split at h1
      · cases h1
      · split at h1
        · cases h1
        · rename_i hl
          obtain ⟨d, hd⟩ := idx_inRange (line := line) (i := pos + 1) (by omega) (by omega)
          rw [hd] at h1
          simp only at h1
          split at h1
          · cases h1
          · split at h1
            · cases h1
            · split at h1
              · cases h1
              · rename_i closure _ hn
                obtain ⟨e, he⟩ := idx_inRange (line := line) (i := pos + 1 + 1 + (closure : Int) + 1) (by omega) (by omega)
                rw [he] at h1
                simp only at h1
                split at h1 <;> cases h1

/-- the reader's cache holds the current line `l`, and the block offset lies inside it -/
def PPeek (l : Bytes) (s : St) : Prop :=
  s.r.peekedLine = some l ∧ (s.r.pos.start ≥ 0 ∧ s.r.pos.start < s.r.sourceLength) ∧
    (s.pc.blockOffset < 0 ∨ s.pc.blockOffset.toNat < l.length)

theorem PPeek.peekLine {l : Bytes} {s : St} (h : PPeek l s) : s.r.peekLine = .ok ((some l, s.r.pos), s.r) := by
  unfold Reader.peekLine
  simp only [h.2.1, and_self, if_true, h.1]
  rfl

theorem st_eta (s : St) : ({ r := s.r, nodes := s.nodes, pc := s.pc } : St) = s := by cases s; rfl

/-- on a source without `[^`, with the line cached: Open declines and the state is untouched -/
theorem fnOpen_noop {src : Bytes} (hsrc : GM.Ext.hasInfix [91, 94] src = false) (parent : Nat) (s : St) (l : Bytes)
    (hI : IC src s) (hp : PPeek l s) : fnOpen parent {} s = .ok (((none, stNoChildren), {}), s) := by
  have hl : GM.Ext.hasInfix [91, 94] l = false := by
    have := hI.2 l hp.1
    rw [hI.1.source] at this
    exact noCaret_value hsrc _ _ this
  have hscan := fnOpenScan_none l s.pc.blockOffset hp.2.2 hl
  unfold fnOpen
  rw [mf_bind_apply, upF_apply]
  have hpl : peekLine s = .ok ((some l, s.r.pos), s) := by
    simp only [peekLine, hp.peekLine, bind, Except.bind, pure, Except.pure]
  rw [hpl]
  simp only [Option.getD]
  rw [mf_bind_apply, upF_apply]
  simp only [getPc, pure, Except.pure]
  rw [mf_bind_apply, upF_apply]
  simp only [liftE, hscan, Except.map]
  rfl

/-- `lastBlock` as openBlocks holds it is the last opened block whenever it can still be read (parser.go:1016-1023) -/
def Fresh (cont : Bool) (result : OpenResult) (lb : Option Block) (s : St) : Prop :=
  cont = true → result = .noBlocksOpened → lb = s.pc.opened.getLast?

/-- when the first free parser is not skipped the loop re-reads `lastBlock` before it uses it -/
theorem tryParsersT_lb (pts : List PT) (parent : Nat) (bl cont : Bool) (w : Int) (result : OpenResult) (lb lb' : Option Block)
    (h : ¬ (cont = true ∧ result = .noBlocksOpened)) (hw : ¬ w > 3) :
    tryParsersT pts parent bl cont w freeParsers result lb = tryParsersT pts parent bl cont w freeParsers result lb' := by
  have h1 : (cont && result == OpenResult.noBlocksOpened && !BP.code.canInterruptParagraph) = false := by
    cases cont <;> cases result <;> simp_all [BP.canInterruptParagraph]
  have h2 : (decide (w > 3) && !BP.code.canAcceptIndentedLine) = false := by simp [hw]
  unfold freeParsers
  rw [tryParsersT]
  conv => rhs; rw [tryParsersT]
  simp only [h1, h2, Bool.false_eq_true, if_false]

theorem lastOpenedBlock_apply (s : St) : lastOpenedBlock s = .ok (s.pc.opened.getLast?, s) := rfl

section cons
variable {src : Bytes} (hsrc : GM.Ext.hasInfix [91, 94] src = false) {pts : List PT} (hp : PTsOK pts)
include hsrc hp

/-- the parser loop on a line that starts with `[`: the footnote parser declines without a trace -/
theorem tryFootnote_sim (parent : Nat) (bl cont : Bool) (w : Int) (result : OpenResult) (lb : Option Block) (s : St) (l : Bytes)
    (hI : IC src s) (hpk : PPeek l s) (hfr : Fresh cont result lb s) :
    RSimI (IC src) Qr (tryParsersF pts parent bl cont w (.footnote :: freeParsersF) result lb {} s)
      (tryParsersT pts parent bl cont w freeParsers result lb s) := by
  have hgen := fun r l' => (tryParsersF_simI (ic_prims src) hp parent bl cont w freeParsers r l').h {} s FS.empty_default hI
  have hfree : freeParsersF = freeParsers.map .core := rfl
  rw [tryParsersF]
  simp only [BPF.canInterruptParagraph, BPF.canAcceptIndentedLine, Bool.not_true, Bool.and_false, Bool.false_eq_true,
    if_false, Bool.not_false, Bool.and_true]
  by_cases hw : w > 3
  · simp only [hw, decide_true, if_true]
    rw [hfree]
    exact hgen result lb
  · simp only [hw, decide_false, Bool.false_eq_true, if_false]
    rw [mf_bind_apply, upF_apply, lastOpenedBlock_apply]
    simp only []
    rw [mf_bind_apply]
    have hop : bpOpenF BPF.footnote parent {} s = .ok (((none, stNoChildren), {}), s) := fnOpen_noop hsrc parent s l hI hpk
    rw [hop]
    simp only []
    rw [hfree]
    by_cases hc : cont = true ∧ result = .noBlocksOpened
    · rw [← hfr hc.1 hc.2]
      exact hgen result lb
    · rw [tryParsersT_lb pts parent bl cont w result lb s.pc.opened.getLast? hc hw]
      exact hgen result _

/-- the part of openBlocks behind the parser loop, given the loop's simulation at this state -/
theorem retryStep_sim (bl td cont : Bool) (parent : Nat) (w : Int) (bpsF : List BPF) (bpsT : List BP) (result : OpenResult)
    (lb : Option Block) (againF : Bool → Bool → Nat → OpenResult → Option Block → MF OpenResult)
    (againT : Bool → Bool → Nat → OpenResult → Option Block → M OpenResult)
    (ha : ∀ td c p r l' f' s', FS.empty f' → IC src s' → Fresh c r l' s' →
      RSimI (IC src) QT (againF td c p r l' f' s') (againT td c p r l' s'))
    (f : FS) (s : St) (hf : FS.empty f) (hI : IC src s)
    (ht : RSimI (IC src) Qr (tryParsersF pts parent bl cont w bpsF result lb f s)
      (tryParsersT pts parent bl cont w bpsT result lb s)) :
    RSimI (IC src) QT (retryStepF pts bl td cont parent w bpsF result lb againF f s)
      (retryStepT pts bl td cont parent w bpsT result lb againT s) := by
  have hget : ∀ (f' : FS) (s' : St), (up (get : M St)) f' s' = .ok ((s', f'), s') := fun _ _ => rfl
  have hget0 : ∀ s' : St, (get : M St) s' = .ok (s', s') := fun _ => rfl
  unfold retryStepF retryStepT
  rw [mf_bind_apply, hget, m_bind_apply', hget0]
  simp only []
  refine RSimI.bind ht ?_
  intro x f' s' hf' hs' hq
  obtain ⟨outcome, r, l'⟩ := x
  cases outcome with
  | retry p =>
    simp only []
    rw [mf_bind_apply, hget, m_bind_apply', hget0]
    simp only []
    split
    · exact rfl
    · apply ha _ _ _ _ _ f' s' hf' hs'
      intro _ hr
      have := hq p rfl
      simp only at this
      rw [this] at hr
      cases hr
  | retryTransformed =>
    simp only []
    rw [mf_bind_apply, hget, m_bind_apply', hget0]
    simp only []
    split
    · exact rfl
    · apply ha _ _ _ _ _ f' s' hf' hs'
      intro hc
      cases hc
  | done =>
    simp only []
    exact (FSimI.up _ (toContinuable_pres (ic_prims src) cont r l')).h f' s' hf' hs'

omit hsrc hp in
theorem peekLine_facts {s s1 : St} {line : Option Bytes} {seg : Segment} (h : peekLine s = .ok ((line, seg), s1)) :
    s1.pc = s.pc ∧ ∀ l, line = some l → s1.r.peekedLine = some l ∧ (s1.r.pos.start ≥ 0 ∧ s1.r.pos.start < s1.r.sourceLength) := by
  unfold GM.Blocks.peekLine at h
  simp only [bind, Except.bind] at h
  cases hp : s.r.peekLine with
  | error e => rw [hp] at h; cases h
  | ok x =>
    rw [hp] at h
    simp only [pure, Except.pure, Except.ok.injEq, Prod.mk.injEq] at h
    obtain ⟨h1, h2⟩ := h
    subst h2
    refine ⟨rfl, ?_⟩
    intro l hl
    subst hl
    unfold Reader.peekLine at hp
    split at hp
    · rename_i hr
      split at hp
      · rename_i l' hc
        simp only [pure, Except.pure, Except.ok.injEq] at hp
        rw [← hp] at h1 ⊢
        simp only [Prod.mk.injEq, Option.some.injEq] at h1
        rw [← h1.1]
        exact ⟨hc, hr⟩
      · simp only [bind, Except.bind] at hp
        cases hv : s.r.pos.value s.r.source with
        | error e => rw [hv] at hp; cases hp
        | ok v =>
          rw [hv] at hp
          simp only [pure, Except.pure, Except.ok.injEq] at hp
          rw [← hp] at h1 ⊢
          simp only [Prod.mk.injEq, Option.some.injEq] at h1
          rw [← h1.1]
          exact ⟨rfl, hr⟩
    · simp only [pure, Except.pure, Except.ok.injEq] at hp
      rw [← hp] at h1
      simp at h1

omit hsrc hp in
theorem lineOffset_facts {s1 s2 : St} {lo : Int} (h : lineOffset s1 = .ok (lo, s2)) :
    s2.pc = s1.pc ∧ s2.r.peekedLine = s1.r.peekedLine ∧ s2.r.pos = s1.r.pos ∧ s2.r.source = s1.r.source := by
  unfold GM.Blocks.lineOffset at h
  simp only [bind, Except.bind] at h
  cases hp : s1.r.lineOffsetOp with
  | error e => rw [hp] at h; cases h
  | ok x =>
    rw [hp] at h
    simp only [pure, Except.pure, Except.ok.injEq, Prod.mk.injEq] at h
    obtain ⟨_, h2⟩ := h
    subst h2
    unfold Reader.lineOffsetOp at hp
    split at hp
    · simp only [bind, Except.bind] at hp
      cases hv : colLoop s1.r.source s1.r.head s1.r.pos.start with
      | error e => rw [hv] at hp; cases hp
      | ok v =>
        rw [hv] at hp
        simp only [pure, Except.pure, Except.ok.injEq] at hp
        rw [← hp]
        exact ⟨rfl, rfl, rfl, rfl⟩
    · simp only [pure, Except.pure, Except.ok.injEq] at hp
      rw [← hp]
      exact ⟨rfl, rfl, rfl, rfl⟩

omit hsrc hp in
theorem triggered_91 : triggered 91 = none := by decide

omit hsrc hp in
theorem triggeredF_on (c : UInt8) (h : c ≠ 91) :
    (triggeredF true c).getD freeParsersF = ((triggered c).getD freeParsers).map .core := by
  have : (c == 91) = false := by simp [h]
  unfold triggeredF freeParsersF
  simp only [Bool.true_and, this, Bool.false_eq_true, if_false]
  cases triggered c <;> rfl

theorem openBlocksLoop_sim (bl : Bool) : ∀ (fuel : Nat) (td cont : Bool) (parent : Nat) (result : OpenResult) (lb : Option Block)
    (f : FS) (s : St), FS.empty f → IC src s → Fresh cont result lb s →
    RSimI (IC src) QT (openBlocksLoopF true pts bl fuel td cont parent result lb f s)
      (openBlocksLoopT pts bl fuel td cont parent result lb s)
  | 0, _, _, _, _, _, _, _, _, _, _ => by unfold openBlocksLoopF openBlocksLoopT; exact rfl
  | fuel + 1, td, cont, parent, result, lb, f, s, hf, hI, hfr => by
    have ih := openBlocksLoop_sim bl fuel
    have prims := ic_prims src
    have hf0 := FS.empty_eq hf
    subst hf0
    unfold openBlocksLoopF openBlocksLoopT
    rw [mf_bind_apply, upF_apply, m_bind_apply']
    cases hpl : peekLine s with
    | error e => exact rfl
    | ok x =>
      obtain ⟨⟨line, seg⟩, s1⟩ := x
      simp only []
      have hI1 : IC src s1 := prims.peekLine.ok hI hpl
      obtain ⟨hpc1, hpk1⟩ := peekLine_facts hpl
      rw [mf_bind_apply, upF_apply, m_bind_apply']
      cases hlo : lineOffset s1 with
      | error e => exact rfl
      | ok y =>
        obtain ⟨lo, s2⟩ := y
        simp only []
        have hI2 : IC src s2 := prims.lineOffset.ok hI1 hlo
        obtain ⟨hpc2, hpk2, hpos2, hsrc2⟩ := lineOffset_facts hlo
        generalize hiw : indentWidthI (line.getD []) lo = wp
        obtain ⟨w, pos⟩ := wp
        simp only []
        rw [mf_bind_apply, upF_apply, m_bind_apply']
        have hmod : ∀ g : Ctx → Ctx, modPc g s2 = .ok ((), { s2 with pc := g s2.pc }) := fun _ => rfl
        rw [hmod]
        simp only []
        generalize hs3 : ({ s2 with pc := (if pos ≥ ((line.getD []).length : Int) then
            { s2.pc with blockOffset := -1, blockIndent := -1 } else { s2.pc with blockOffset := pos, blockIndent := w }) } : St) = s3
        have hI3 : IC src s3 := by rw [← hs3]; exact prims.ronly s2 _ _ hI2
        have hr3 : s3.r = s2.r := by rw [← hs3]
        have hop3 : s3.pc.opened = s.pc.opened := by
          rw [← hs3, ← hpc1, ← hpc2]; simp only; split <;> rfl
        have hbo3 : s3.pc.blockOffset = if pos ≥ ((line.getD []).length : Int) then -1 else pos := by
          rw [← hs3]; simp only; split <;> rfl
        have hfr3 : Fresh cont result lb s3 := by
          intro h1 h2; rw [hop3]; exact hfr h1 h2
        have hcontT := fun r l' => (FSimI.up (I := IC src) _ (toContinuable_pres prims cont r l')).h {} s3 hf hI3
        have hagain : ∀ td c p r l' f' s', FS.empty f' → IC src s' → Fresh c r l' s' →
            RSimI (IC src) QT (openBlocksLoopF true pts bl fuel td c p r l' f' s') (openBlocksLoopT pts bl fuel td c p r l' s') :=
          fun td c p r l' f' s' h1 h2 h3 => ih td c p r l' f' s' h1 h2 h3
        have hgenT := fun bps => (tryParsersF_simI prims hp parent bl cont w bps result lb).h {} s3 hf hI3
        by_cases hnone : line.isNone = true
        · simp only [hnone, if_true]
          exact hcontT result lb
        · simp only [hnone, Bool.false_eq_true, if_false]
          rw [mf_bind_apply, upF_apply, m_bind_apply']
          cases hc0 : idx (line.getD []) 0 with
          | error e => simp only [liftE, hc0, Except.map]; exact rfl
          | ok c0 =>
            simp only [liftE, hc0, Except.map]
            by_cases h10 : (c0 == 10) = true
            · simp only [h10, if_true]
              exact hcontT result lb
            · simp only [h10, Bool.false_eq_true, if_false]
              by_cases hlt : pos < ((line.getD []).length : Int)
              · simp only [hlt, if_true]
                rw [mf_bind_apply, upF_apply, m_bind_apply']
                cases hcp : idx (line.getD []) pos with
                | error e => simp only [liftE, hcp, Except.map]; exact rfl
                | ok c =>
                  simp only [liftE, hcp, Except.map, pure_bind]
                  by_cases h91 : c = 91
                  · subst h91
                    have e1 : (triggeredF true 91).getD freeParsersF = .footnote :: freeParsersF := rfl
                    have e2 : (triggered 91).getD freeParsers = freeParsers := by rw [triggered_91]; rfl
                    rw [e1, e2]
                    obtain ⟨l, hl⟩ : ∃ l, line = some l := by
                      cases line with
                      | none => simp at hnone
                      | some l => exact ⟨l, rfl⟩
                    have hpk3 : PPeek l s3 := by
                      obtain ⟨q1, q2⟩ := hpk1 l hl
                      refine ⟨by rw [hr3, hpk2]; exact q1, by rw [hr3, hpos2]; unfold Reader.sourceLength at q2 ⊢; rw [hsrc2]; exact q2, ?_⟩
                      rw [hbo3]
                      have hge : ¬ pos ≥ ((line.getD []).length : Int) := by omega
                      simp only [hge, if_false]
                      subst hl
                      simp only [Option.getD_some] at hlt
                      by_cases h0 : pos < 0
                      · exact Or.inl h0
                      · right; omega
                    exact retryStep_sim hsrc hp bl td cont parent w _ _ result lb _ _ hagain {} s3 hf hI3
                      (tryFootnote_sim hsrc hp parent bl cont w result lb s3 l hI3 hpk3 hfr3)
                  · rw [triggeredF_on c h91]
                    exact retryStep_sim hsrc hp bl td cont parent w _ _ result lb _ _ hagain {} s3 hf hI3 (hgenT _)
              · simp only [hlt, if_false, pure_bind]
                have e3 : freeParsersF = freeParsers.map .core := rfl
                rw [e3]
                exact retryStep_sim hsrc hp bl td cont parent w _ _ result lb _ _ hagain {} s3 hf hI3 (hgenT _)

omit hsrc hp in
theorem getNode_apply (id : Nat) (s : St) : getNode id s = .ok (s.nodes.getD id default, s) := rfl
omit hsrc hp in
theorem source_apply (s : St) : source s = .ok (s.r.source, s) := rfl

theorem openBlocksF_simC (parent : Nat) (bl : Bool) :
    FSimI (IC src) QT (openBlocksF true pts parent bl) (openBlocksT pts parent bl) := by
  constructor
  intro f s hf hI
  unfold openBlocksF openBlocksT
  rw [mf_bind_apply, upF_apply, lastOpenedBlock_apply, m_bind_apply', lastOpenedBlock_apply]
  simp only []
  cases hl : s.pc.opened.getLast? with
  | none =>
    simp only [pure_bind]
    rw [mf_bind_apply, upF_apply, source_apply, m_bind_apply', source_apply]
    simp only []
    exact openBlocksLoop_sim hsrc hp bl _ false false parent .noBlocksOpened none f s hf hI (fun h => by cases h)
  | some lb =>
    simp only [bind_assoc, pure_bind]
    rw [mf_bind_apply, upF_apply, getNode_apply, m_bind_apply', getNode_apply]
    simp only []
    rw [mf_bind_apply, upF_apply, source_apply, m_bind_apply', source_apply]
    simp only []
    exact openBlocksLoop_sim hsrc hp bl _ false _ parent .noBlocksOpened (some lb) f s hf hI (fun _ _ => hl.symm)

omit hsrc hp in
theorem advanceLine_peeked (r : Reader) : r.advanceLine.peekedLine = none := by
  unfold Reader.advanceLine
  simp only
  split <;> rfl

omit hsrc hp in
theorem advanceLine_ic : Pres (IC src) advanceLine :=
  pres_and (advanceLine_stop src 0) (fun s a s' _ _ hm => by
    unfold GM.Blocks.advanceLine at hm
    simp only [pure, Except.pure, Except.ok.injEq, Prod.mk.injEq] at hm
    rw [← hm.2]
    exact Coh.of_none (advanceLine_peeked s.r))

omit hsrc hp in
theorem skipBlankLines_coh : ∀ (fuel : Nat) (lines : Int) (r : Reader) (x : (Segment × Int × Bool) × Reader), Coh r →
    skipBlankLines readerOps fuel lines r = .ok x → Coh x.2
  | 0, _, _, _, _, h => by unfold skipBlankLines at h; cases h
  | fuel + 1, lines, r, x, hc, h => by
    unfold skipBlankLines at h
    simp only [readerOps, bind, Except.bind] at h
    cases hp : r.peekLine with
    | error e => rw [hp] at h; cases h
    | ok y =>
      obtain ⟨⟨line, seg⟩, r1⟩ := y
      rw [hp] at h
      have hc1 := coh_peekLine hp hc
      simp only at h
      cases line with
      | none =>
        simp only [pure, Except.pure, Except.ok.injEq] at h
        rw [← h]; exact hc1
      | some l =>
        simp only at h
        split at h
        · simp only [pure, Except.pure] at h
          exact skipBlankLines_coh fuel _ _ x (Coh.of_none (advanceLine_peeked r1)) h
        · simp only [pure, Except.pure, Except.ok.injEq] at h
          rw [← h]; exact hc1

omit hsrc hp in
theorem skipBlankLinesR_ic : Pres (IC src) skipBlankLinesR := by
  constructor
  intro s hs
  have hsk := skipBlank_ok (loopFuel s.r.source) 0 s.r 0 hs.1.toR (by rw [hs.1.source]; exact mu_lt_loopFuel src s.r)
  unfold skipBlankLinesR
  simp only [bind, Except.bind]
  cases hr : skipBlankLines readerOps (loopFuel s.r.source) 0 s.r with
  | error e => exact hsk.err e hr
  | ok x =>
    simp only [pure, Except.pure]
    exact ⟨(hsk.ok x hr).1.toS, skipBlankLines_coh _ _ _ x hs.2 hr⟩

theorem lineLoopF_simC (parent : Nat) (openedBlocks : List Block) (lastIndex : Int) (rest : List Block) (i : Int)
    (blankLines : List LineStat) :
    FSimI (IC src) QT (lineLoopF true pts parent openedBlocks lastIndex rest i blankLines)
      (lineLoopT pts parent openedBlocks lastIndex rest i blankLines) := by
  have prims := ic_prims src
  have := closeBlocksF_simI prims hp
  have := openBlocksF_simC hsrc hp
  have hc := bpContinueF_simI prims
  have := prims.ronly
  have := prims.peekLine
  have := advanceLine_ic (src := src)
  induction rest generalizing i blankLines with
  | nil => unfold lineLoopF lineLoopT; fsimi
  | cons be rest ih => unfold lineLoopF lineLoopT; fsimi

theorem linesLoopF_simC (parent : Nat) (fuel : Nat) (blankLines : List LineStat) :
    FSimI (IC src) QT (linesLoopF true pts parent fuel blankLines) (linesLoopT pts parent fuel blankLines) := by
  have prims := ic_prims src
  have := lineLoopF_simC hsrc hp
  have := prims.ronly
  have := advanceLine_ic (src := src)
  induction fuel generalizing blankLines with
  | zero => unfold linesLoopF linesLoopT; fsimi
  | succ fuel ih => unfold linesLoopF linesLoopT; fsimi

theorem blocksLoopF_simC (parent : Nat) (fuel : Nat) (blankLines : List LineStat) :
    FSimI (IC src) QT (blocksLoopF true pts parent fuel blankLines) (blocksLoopT pts parent fuel blankLines) := by
  have prims := ic_prims src
  have := openBlocksF_simC hsrc hp
  have := linesLoopF_simC hsrc hp
  have := prims.ronly
  have := advanceLine_ic (src := src)
  have := skipBlankLinesR_ic (src := src)
  induction fuel generalizing blankLines with
  | zero => unfold blocksLoopF blocksLoopT; fsimi
  | succ fuel ih => unfold blocksLoopF blocksLoopT; fsimi

theorem parseBlocksF_simC (parent : Nat) : FSimI (IC src) QT (parseBlocksF true pts parent) (parseBlocksT pts parent) := by
  have prims := ic_prims src
  have := blocksLoopF_simC hsrc hp
  have := prims.ronly
  unfold parseBlocksF parseBlocksT; fsimi

end cons

theorem ic_init (src : Bytes) : IC src (initSt src) := by
  refine ⟨stop_init src, Coh.of_none ?_⟩
  unfold initSt Reader.new
  exact advanceLine_peeked _

/-- **C11 for the block phase at whole-document level**: on a source without the two bytes `[^`, the block phase with the
    footnote block parser registered is GM.Blocks.runT (same node store, context, reader — or the same panic), and no
    Footnote / FootnoteList exists -/
theorem runF_cons {src : Bytes} (hsrc : GM.Ext.hasInfix [91, 94] src = false) {pts : List PT} (hp : PTsOK pts) :
    runF true pts src = (runT pts src).map fun st => ({}, st) := by
  have := (parseBlocksF_simC hsrc hp 0).h {} (initSt src) FS.empty_default (ic_init src)
  unfold RSimI at this
  unfold runF runT
  cases hx : parseBlocksF true pts 0 {} (initSt src) with
  | error e =>
    rw [hx] at this
    simp only [Except.map]
    rw [this]
  | ok p =>
    obtain ⟨⟨a, f'⟩, s'⟩ := p
    rw [hx] at this
    simp only [Except.map]
    rw [this.2.1, FS.empty_eq this.1]

theorem blockPhaseF_cons {src : Bytes} (hsrc : GM.Ext.hasInfix [91, 94] src = false) :
    blockPhaseF true true src = (blockPhase true src).map fun st => ({}, st) :=
  runF_cons hsrc GM.Proof.LinkRefPres.paragraphTransformers_ok

end GM.ConvertF
