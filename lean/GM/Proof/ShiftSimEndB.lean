/-
  GM.Proof.ShiftSimEndB — the two runs that the end-to-end statement for an EMPTY document `A` needs, followed line by
  line with the exact step lemmas of ShiftSimHead1/2:
  * `run "# h\n"` ends with the store `[Document[1], Heading]`;
  * the run on `"\n# h\n\n" ++ b` reaches, after the blank line behind the heading, the outer loop of parseBlocks in a
    `Start` state (GM.Proof.ShiftSimMain) whose store is `[Document[1], Heading']`, `Heading'` = the same heading with
    its line moved by one byte.
-/
import GM.Proof.ShiftSimEndA
import GM.Proof.ShiftSimHead1
import GM.Proof.ShiftSimHead2

namespace GM.Blocks.Sh
open GM GM.Text GM.Spec GM.Proof.Reader GM.Blocks

theorem atxNodeOf_shape {line : Bytes} {seg : Segment} {bo : Int} {n : Node} (h : atxNodeOf line seg bo = .ok (some n)) :
    n.kind = .heading ∧ n.children = [] ∧ n.parent = none ∧ n.level = scanWhileEq line 35 bo - bo := by
  unfold atxNodeOf at h
  repeat' split at h
  all_goals first
    | (cases h; exact ⟨rfl, rfl, rfl, rfl⟩)
    | cases h

theorem isBlank_hl (h : Bytes) : isBlank (hlB h) = false := isBlank_hash _

theorem linesFuel_succ (src : Bytes) : ∃ f, linesFuel src = f + 3 := ⟨(src.filter (· == 10)).length, by simp [linesFuel, lineCount]⟩

/-- the store after the heading line: Document with the one child, and the heading -/
def headStore (n : Node) : List Node :=
  [{ kind := .document, children := [1] }, { n with parent := some 0, blankPrev := true }]

theorem set0_doc (n : Node) :
    (([{ kind := .document }] : List Node).set 0
        { (([{ kind := .document }] : List Node).getD 0 default) with
          children := (([{ kind := .document }] : List Node).getD 0 default).children ++ [([{ kind := .document }] : List Node).length] })
      ++ [{ n with parent := some 0, blankPrev := true }] = headStore n := by
  simp [headStore]

/-! ### `run "# h\n"` -/

theorem run_heading_line {h : Bytes} (hh : ∀ c ∈ h, c ≠ 10) (s : St) (hrun : run (hlB h) = .ok s) :
    ∃ n, atxNodeOf (hlB h) { start := 0, stop := ((h.length + 3 : Nat) : Int) } 0 = .ok (some n) ∧ s.nodes = headStore n := by
  rw [run_eq_blocksLoop] at hrun
  obtain ⟨f, hf⟩ := linesFuel_succ (hlB h)
  rw [hf] at hrun
  cases hb : blocksLoop 0 (f + 3) [] (initSt (hlB h)) with
  | error e => rw [hb] at hrun; cases hrun
  | ok v =>
    rw [hb] at hrun
    obtain ⟨u, sf⟩ := v
    simp only [Except.map, Except.ok.injEq] at hrun
    subst hrun
    -- the reader stands on the heading line
    have hlen : 0 < (hlB h).length := by simp [hlB]
    have hat : AtLine (hlB h) (initSt (hlB h)).r := by
      have := atLine_new (hlB h) hlen
      rw [hl_sub hh] at this
      exact this
    have hpos0 : (initSt (hlB h)).r.pos = { start := 0, stop := ((h.length + 3 : Nat) : Int) } := by
      show (Reader.new (hlB h)).pos = _
      unfold Reader.new
      rw [advanceLine_eq _ (by simp)]
      simp only [Int.toNat_zero]
      rw [hl_lineEnd hh]
    unfold blocksLoop at hb
    obtain ⟨x, s1, h1, k1⟩ := bind_ok hb
    obtain ⟨hx1, hx2, hl1, hn1, hp1, cu1⟩ := skipBlankLinesR_heading (h ++ [10]) _ hat x s1 h1
    obtain ⟨seg, lines, ok⟩ := x
    simp only at hx1 hx2
    subst hx1 hx2
    simp only [Bool.not_true, Bool.false_eq_true, if_false] at k1
    obtain ⟨pos, s2, h2, k2⟩ := bind_ok k1
    have e2 : s2 = s1 := by cases h2; rfl
    rw [e2] at k2
    obtain ⟨pc, s3, h3, k3⟩ := bind_ok k2
    obtain ⟨epc, e3⟩ := getPc_ok h3
    rw [e3] at k3
    simp only [bne_self_eq_false, Bool.false_eq_true, if_false] at k3
    rw [isBlankLine_nil _ _ (Int.le_refl 0)] at k3
    obtain ⟨res, s4, h4, k4⟩ := bind_ok k3
    have hop1 : s1.pc.opened = [] := by rw [hp1]; rfl
    have hlen1 : 0 < s1.nodes.length := by rw [hn1]; simp [initSt]
    obtain ⟨hres, n, hn, hnodes4, hpc4, hsrc4, hpos4, hline4, hat4⟩ :=
      openBlocks_heading_exact (h ++ [10]) _ s1 hl1 hop1 hlen1 res s4 h4
    subst hres
    simp only [bne_self_eq_false, Bool.false_eq_true, if_false] at k4
    obtain ⟨u5, s5, h5, k5⟩ := bind_ok k4
    have e5 : s5 = { s4 with r := s4.r.advanceLine } := by
      unfold GM.Blocks.advanceLine at h5; cases h5; rfl
    obtain ⟨y, s6, h6, k6⟩ := bind_ok k5
    obtain ⟨ret, st6⟩ := y
    -- the reader is at the end of the source
    have hsrc : s4.r.source = hlB h := by rw [hsrc4, cu1.2]; rfl
    have hstop4 : s4.r.pos.stop = ((h.length + 3 : Nat) : Int) := by rw [hpos4, cu1.1, hpos0]
    have heof : ¬ (s5.r.pos.start ≥ 0 ∧ s5.r.pos.start < s5.r.sourceLength) := by
      rw [e5]
      simp only
      rw [advanceLine_eq _ (by rw [hstop4]; omega)]
      simp only [Reader.sourceLength, hsrc, hstop4, hl_length hh]
      omega
    have hop5 : s5.pc.opened = [⟨s1.nodes.length, .atx⟩] := by rw [e5]; simp only; rw [hpc4]
    obtain ⟨hret, hnodes6, _⟩ := eof_after_heading_exact s5 _ _ (f + 1) heof hop5 ret st6 s6 h6
    subst hret
    simp only [if_true] at k6
    cases k6
    refine ⟨n, ?_, ?_⟩
    · have hn' := hn
      rw [cu1.1, hpos0] at hn'
      exact hn'
    · rw [hnodes6, e5]
      simp only
      rw [hnodes4, hn1]
      exact set0_doc n

/-! ### the run on `"\n# h\n\n" ++ b` up to the line behind the blank line -/

/-- the frame of the prefix `"\n# h\n\n"`: one old node (the heading) under the Document -/
def frameB (h : Bytes) (n : Node) (dl : Int) : Frame :=
  { p := 10 :: hlB h ++ [10], dl := dl, c := 1, kids0 := [1], flag := true, oldNodes := headStore n }

theorem frameB_ok (h : Bytes) (n : Node) (dl : Int) : (frameB h n dl).OK := by
  refine ⟨.inr ?_, .inr ?_, ?_⟩
  · simp [frameB, hlB]
  · simp [frameB, hlB]
  · intro x hx; simp [frameB] at hx; subst hx; simp [frameB]

theorem frameB_len (h : Bytes) (n : Node) (dl : Int) : (frameB h n dl).p.length = h.length + 5 := by
  simp [frameB, hlB]

theorem isBlankLine_single (ln : Int) : isBlankLine ln 0 [{ lineNum := ln, level := 0, isBlank := true }] = true := by
  simp [isBlankLine, isBlankLoop]

theorem run_joined {h : Bytes} (hh : ∀ c ∈ h, c ≠ 10) (b : Bytes) (sd : St) (hrun : run (docB h b) = .ok sd) :
    ∃ n stats'' s'' fuel'' dl, atxNodeOf (hlB h) { start := 1, stop := ((h.length + 4 : Nat) : Int) } 0 = .ok (some n) ∧
      s''.nodes = headStore n ∧ Start (frameB h n dl) b s'' stats'' ∧ blocksLoop 0 fuel'' stats'' s'' = .ok ((), sd) := by
  rw [run_eq_blocksLoop] at hrun
  -- the fuel: at least three line feeds
  have hfuel : ∃ f, linesFuel (docB h b) = f + 6 := by
    refine ⟨((h ++ 10 :: 10 :: b).filter (· == 10)).length - 2, ?_⟩
    have : 2 ≤ ((h ++ 10 :: 10 :: b).filter (· == 10)).length := by
      rw [List.filter_append]; simp; omega
    rw [List.filter_append] at this
    simp at this
    simp only [linesFuel, lineCount, docB]
    simp
    omega
  obtain ⟨f, hf⟩ := hfuel
  rw [hf] at hrun
  cases hb : blocksLoop 0 (f + 5 + 1) [] (initSt (docB h b)) with
  | error e => rw [show f + 6 = f + 5 + 1 from rfl, hb] at hrun; cases hrun
  | ok v =>
    rw [show f + 6 = f + 5 + 1 from rfl, hb] at hrun
    obtain ⟨u, sf⟩ := v
    simp only [Except.map, Except.ok.injEq] at hrun
    subst hrun
    have hlen : 0 < (docB h b).length := by simp [docB]
    have hlenD : (docB h b).length = h.length + 5 + b.length := by simp [docB]; omega
    have hat0 : AtLine [10] (initSt (docB h b)).r := by
      have := atLine_new (docB h b) hlen
      rw [doc_sub0 hh] at this
      exact this
    have hnew : (initSt (docB h b)).r = Reader.new (docB h b) := rfl
    have hstop0 : (Reader.new (docB h b)).pos.stop = ((1 : Nat) : Int) := by
      unfold Reader.new
      rw [advanceLine_eq _ (by simp)]
      simp only [Int.toNat_zero]
      rw [doc_lineEnd0 hh]
    have hforce0 : (Reader.new (docB h b)).pos.forceNewline = false := by
      unfold Reader.new
      rw [advanceLine_eq _ (by simp)]
    have hsrc0 : (Reader.new (docB h b)).source = docB h b := by
      unfold Reader.new
      rw [advanceLine_eq _ (by simp)]
    have hat1 : AtLine (hlB h) (initSt (docB h b)).r.advanceLine := by
      have := atLine_advanceLine (r := Reader.new (docB h b)) (src := docB h b) (k := 1) hsrc0 hstop0 hforce0 (by omega)
      rw [doc_sub1 hh] at this
      exact this
    unfold blocksLoop at hb
    obtain ⟨x, s1, h1, k1⟩ := bind_ok hb
    obtain ⟨hx1, hx2, hn1, hp1, hl1, hsrc1, hpos1, hline1⟩ :=
      skip_one_blank _ (hlB h) hat0 hat1 (isBlank_hl h) x s1 h1
    obtain ⟨seg, lines, ok⟩ := x
    simp only at hx1 hx2
    subst hx1 hx2
    simp only [Bool.not_true, Bool.false_eq_true, if_false] at k1
    obtain ⟨pos, s2, h2, k2⟩ := bind_ok k1
    have e2 : s2 = s1 := by cases h2; rfl
    rw [e2] at k2
    obtain ⟨pc, s3, h3, k3⟩ := bind_ok k2
    obtain ⟨epc, e3⟩ := getPc_ok h3
    rw [e3] at k3
    have hop1 : s1.pc.opened = [] := by rw [hp1]; rfl
    have hnop : pc.opened.length = 0 := by rw [epc, hop1]; rfl
    rw [hnop] at k3
    simp only [blankStats] at k3
    have hne : ((1 : Int) != 0) = true := by decide
    simp only [hne, if_true] at k3
    rw [isBlankLine_nil _ _ (Int.le_refl 0)] at k3
    obtain ⟨res, s4, h4, k4⟩ := bind_ok k3
    have hlen1 : 0 < s1.nodes.length := by rw [hn1]; simp [initSt]
    obtain ⟨hres, n, hn, hnodes4, hpc4, hsrc4, hpos4, hline4, hat4⟩ :=
      openBlocks_heading_exact (h ++ [10]) _ s1 hl1 hop1 hlen1 res s4 h4
    subst hres
    simp only [bne_self_eq_false, Bool.false_eq_true, if_false] at k4
    obtain ⟨u5, s5, h5, k5⟩ := bind_ok k4
    have e5 : s5 = { s4 with r := s4.r.advanceLine } := by
      unfold GM.Blocks.advanceLine at h5; cases h5; rfl
    obtain ⟨y, s6, h6, k6⟩ := bind_ok k5
    obtain ⟨ret, st6⟩ := y
    -- where the reader of s4 stands: on the heading line `[1, h.length + 4)`
    have hpos1' : s1.r.pos = { start := ((1 : Nat) : Int), stop := ((h.length + 4 : Nat) : Int), padding := 0, forceNewline := false } := by
      rw [hpos1, hnew, advanceLine_eq _ (by rw [hstop0]; omega)]
      simp only [hstop0, hforce0, hsrc0, Int.toNat_natCast]
      rw [doc_lineEnd1 hh]
    have hsrc4' : s4.r.source = docB h b := by rw [hsrc4, hsrc1, hnew, hsrc0]
    have hstop4 : s4.r.pos.stop = ((h.length + 4 : Nat) : Int) := by rw [hpos4, hpos1']
    have hforce4 : s4.r.pos.forceNewline = false := by rw [hpos4, hpos1']
    have hat5 : AtLine [10] s5.r := by
      rw [e5]
      have := atLine_advanceLine (r := s4.r) (src := docB h b) (k := h.length + 4) hsrc4' hstop4 hforce4 (by omega)
      rw [doc_sub2 hh] at this
      exact this
    have hop5 : s5.pc.opened = [⟨s1.nodes.length, .atx⟩] := by rw [e5]; simp only; rw [hpc4]
    have hfu : f + 5 = (f + 3) + 2 := rfl
    rw [hfu] at h6
    obtain ⟨hret, hnodes6, hop6, htmp6, hfence6, hskip6, heib6, hstats6, _⟩ :=
      blank_after_heading_exact s5 _ [] (f + 3) hat5 hop5 ret st6 s6 h6
    obtain ⟨hr6, hpc6⟩ := blank_after_heading_reader s5 _ [] (f + 3) hat5 hop5 ret st6 s6 h6
    subst hret
    simp only [Bool.false_eq_true, if_false] at k6
    -- the reader of s6
    have hstop5 : s5.r.pos.stop = ((h.length + 5 : Nat) : Int) := by
      rw [e5]; simp only
      rw [advanceLine_eq _ (by rw [hstop4]; omega)]
      simp only [hsrc4', hstop4, Int.toNat_natCast]
      rw [doc_lineEnd2 hh]
    have hsrc5 : s5.r.source = docB h b := by
      rw [e5]; simp only; rw [advanceLine_eq _ (by rw [hstop4]; omega)]; exact hsrc4'
    have hforce5 : s5.r.pos.forceNewline = false := by
      rw [e5]; simp only; rw [advanceLine_eq _ (by rw [hstop4]; omega)]; exact hforce4
    have hline6 : s6.r.line = s5.r.line + 1 := by
      rw [hr6, advanceLine_eq _ (by rw [hstop5]; omega)]
    have hn' : atxNodeOf (hlB h) { start := 1, stop := ((h.length + 4 : Nat) : Int) } 0 = .ok (some n) := by
      have := hn
      rw [hpos1'] at this
      exact this
    have hnodes : s6.nodes = headStore n := by
      rw [hnodes6, e5]; simp only
      rw [hnodes4, hn1]
      exact set0_doc n
    refine ⟨n, st6, s6, (f + 3) + 2, s5.r.line + 1, hn', hnodes, ?_, k6⟩
    refine ⟨?_, by rw [hnodes]; rfl, by rw [hnodes]; rfl, hop6, ?_, ?_, ?_, fun _ => by rw [heib6, e5]; simp only; rw [hpc4, hp1]; rfl,
      fun i _ _ => by rw [hnodes]; rfl, ?_, ?_⟩
    · -- the reader
      have hD : docB h b = (frameB h n (s5.r.line + 1)).p ++ b := by rw [docB_eq]; rfl
      have hle : lineEnd (docB h b) (h.length + 5) = lineEnd b 0 + (h.length + 5) := by
        have := lineEnd_shift (frameB h n (s5.r.line + 1)).p b 0
        rw [frameB_len, Nat.zero_add, ← hD] at this
        exact this
      rw [hr6, advanceLine_eq _ (by rw [hstop5]; omega)]
      unfold Reader.new
      rw [advanceLine_eq { source := b, line := -1, peekedLine := none, pos := { start := 0, stop := 0 }, head := 0, lineOffset := -1 } (by simp)]
      simp only [shR, moveSeg, Frame.d, frameB_len, hsrc5, hstop5, hforce5, Int.toNat_natCast, hle, Reader.mk.injEq,
        Segment.mk.injEq, Int.toNat_zero]
      refine ⟨hD, ?_, trivial, ⟨by omega, by omega, trivial, trivial⟩, by omega, trivial⟩
      simp only [frameB]; omega
    · rw [htmp6, e5]; simp only; rw [hpc4, hp1]; rfl
    · rw [hfence6, e5]; simp only; rw [hpc4, hp1]; rfl
    · rw [hskip6, e5]; simp only; rw [hpc4, hp1]; rfl
    · intro e he
      rw [hstats6] at he
      simp only [List.nil_append, List.mem_singleton] at he
      subst he
      simp only [frameB]
      omega
    · right
      rw [hstats6]
      simp only [List.nil_append, frameB]
      have : s5.r.line + 1 - 1 = s5.r.line := by omega
      rw [this]
      exact isBlankLine_single _

end GM.Blocks.Sh
