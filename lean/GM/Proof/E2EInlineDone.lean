/-
  GM.Proof.E2EInlineDone — `InlineSegsUnpadded` (the hypothesis of GM.Proof.E2EValue / E2EAstStore about the inline phase) is a
  THEOREM: the padding relation of GM.Proof.E2EPad* carried through `parseBlock`. Consequences: `Err.value p` of `convertCore`
  only needs the block-store half (`RawSegsInRange`); the inline children of every block resolve to bytes.
-/
import GM.Proof.E2EPadLink
import GM.Proof.E2EAstStore
import GM.Proof.E2ELoLink

namespace GM.E2E
open GM GM.Text GM.Convert GM.Spec GM.Inl GM.Proof.InlinesTotal GM.Proof.InlinesReader

/-- the segments the inline phase records on `WF0` lines have padding 0 -/
theorem inlineSegsUnpadded : InlineSegsUnpadded := by
  intro env src lines kids hw hk s hs
  rw [GM.E2E.Pad.parseBlock_unpadded env src lines hw.2 kids hk s hs]
  exact Int.le_refl _

/-- behind `convertCore`'s `WF0` check the inline children of EVERY block resolve to bytes: no `Segment.Value` panic
    from an inline node -/
theorem inlinePhase_values_total {env : Env} {src : Bytes} {n : GM.Blocks.Node} {kids : List Inl.Node}
    (h : inlinePhase true env src n = .ok kids) : ∃ ts, inlineTrees src kids = .ok ts :=
  inlinePhase_values inlineSegsUnpadded h

/-- `Err.value p` is unreachable once the raw-block segments of the store are in range -/
theorem convertCore_noValue_of_raw (uc : List (Nat × (Bool × Bool))) (o : ROpts) (src : Bytes)
    (hB : ∀ st, blockPhase true src = .ok st → RawSegsInRange src st) (p : Panic) :
    convertCore uc o src ≠ .error (.value p) :=
  convertCore_noValue inlineSegsUnpadded uc o src hB p

theorem loOf_segOf (segs : List Segment) : loOf segs = (BCur.segOf segs 0).start := by
  cases segs with
  | nil => rfl
  | cons a r => simp [loOf, BCur.segOf]

/-- the segments the inline phase records do not start before the block's first line (was a named hypothesis):
    `GM.Proof.InlinesLoLink.parseBlock_segments_lo`, the segment theorem of the inline phase re-run with the lower bound of the
    loop invariant's chain generalised from 0 to the start of the first line -/
theorem inlineSegsAfterLineStart : InlineSegsAfterLineStart := by
  intro env src lines kids hw hk s hs
  have hc := GM.Proof.InlinesLoLink.parseBlock_segments_lo hw.1 hw.2 env hk
  rw [loOf_segOf]
  exact (chain_mem hc s hs).1

/-- C05 end to end with BOTH inline hypotheses discharged -/
theorem parseAst_wfAst_store (uc : List (Nat × (Bool × Bool)))
    (src : Bytes) (a : ATree) (h : parseAst true uc src = .ok a)
    (hS : ∀ st, blockPhase true src = .ok st → StoreHyps src st) : wfAst src.length (dumpAst a) = none :=
  parseAst_wfAst inlineSegsUnpadded inlineSegsAfterLineStart uc src a h hS

/-- C05 end to end with the inline padding hypothesis discharged -/
theorem parseAst_wfAst' (hI2 : InlineSegsAfterLineStart) (uc : List (Nat × (Bool × Bool)))
    (src : Bytes) (a : ATree) (h : parseAst true uc src = .ok a)
    (hS : ∀ st, blockPhase true src = .ok st → StoreHyps src st) : wfAst src.length (dumpAst a) = none :=
  parseAst_wfAst inlineSegsUnpadded hI2 uc src a h hS

end GM.E2E
