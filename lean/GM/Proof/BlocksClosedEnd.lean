/-
  GM.Proof.BlocksClosedEnd — THE CLOSE DISCIPLINE FOR WHOLE RUNS of the block phase (transformer-free driver `run`).

  `linesLoop_cl`, `blocksLoop_cl`: at every line boundary `CInv src s s.pc.opened` holds — every block on the open-block
  stack is attached (so `closeBlocks` will hand it to its parser's `Close`), every non-raw node that is not the node of
  an open Paragraph / setext block has padding 0 on all its lines — and the block phase ends with an empty stack.
  `run_closed`: in the final store every segment of every non-raw block has padding 0, and `pc.opened = []`.
-/
import GM.Proof.BlocksClosedLoop

namespace GM.Blocks
open GM GM.Text GM.Spec GM.Proof.Reader
open GM.Proof.BlocksWF0 (isRaw)

namespace L

section run
variable {src : Bytes} (lsp : LSp src)
include lsp

/-- the loop over lines (parser.go:1074-1126) under the close discipline -/
theorem linesLoop_cl {root : Nat} (parent : Nat) (hroot : parent = root) :
    ∀ (fuel : Nat) (bl : List LineStat) (s : St) (c : RCur) (x : Bool × List LineStat) (s' : St),
      RI src s.r c → PadOK c → StableL src root s → Inv src (c.p : Int) s → c.pad = 0 → CInv src s s.pc.opened →
      linesLoop parent fuel bl s = .ok (x, s') →
      CInv src s' s'.pc.opened ∧ (x.1 = true → s'.pc.opened = []) := by
  intro fuel
  induction fuel with
  | zero => intro bl s c x s' _ _ _ _ _ _ h; unfold linesLoop at h; cases h
  | succ fuel ih =>
    intro bl s c x s' hri hpad hst hinv hp0 hci h
    unfold linesLoop at h
    obtain ⟨pc, s0, h0, k0⟩ := obind_ok h
    obtain ⟨hpc, hs0⟩ := ogetPc_ok h0
    subst s0
    subst pc
    dsimp only at k0
    split at k0
    · next hl =>
      obtain ⟨hx, hs⟩ := opure_ok k0
      subst s'
      subst x
      exact ⟨hci, fun h => by cases h⟩
    · obtain ⟨y, s1, h1, k1⟩ := obind_ok k0
      have hll := (lineLoopL lsp parent hroot s.pc.opened ((s.pc.opened.length : Int) - 1) rfl s.pc.opened [] 0 bl s c
        (by simp) (by simp) rfl hri hpad hst (fun Lk h => by simp at h)).of_ok h1
      obtain ⟨c1, hria1, hst1⟩ := hll
      have hd1 := lineLoop_ord lsp parent hroot s.pc.opened ((s.pc.opened.length : Int) - 1) rfl (c.p : Int)
        s.pc.opened [] 0 bl s c y s1 (by simp) (by simp) rfl hri hpad hst (fun Lk h => by simp at h) hinv (Int.le_refl _)
        (fun hne => absurd hp0 hne) h1
      have hq1 := lineLoop_cl lsp parent hroot s.pc.opened ((s.pc.opened.length : Int) - 1) rfl (c.p : Int)
        s.pc.opened [] 0 bl s c y s1 (by simp) (by simp) rfl hri hpad hst (fun Lk h => by simp at h) hinv (Int.le_refl _)
        (fun hne => absurd hp0 hne) hci h1
      obtain ⟨outcome, bl1⟩ := y
      cases outcome with
      | eof =>
        dsimp only at k1
        obtain ⟨hx, hs⟩ := opure_ok k1
        subst s'
        subst x
        exact ⟨hq1.1, fun _ => hq1.2 rfl⟩
      | next =>
        dsimp only at k1
        obtain ⟨_, s2, h2, k2⟩ := obind_ok k1
        have e2 : s2 = { s1 with r := s1.r.advanceLine } := by cases h2; rfl
        subst s2
        exact ih bl1 _ _ x s' (advanceLine_ria hria1) (padOK_advanceLine c1) (hst1.congr_r _) (dirty_next hd1 hria1) rfl
          (hq1.1.of_same rfl rfl rfl) k2

/-- the outer loop of parseBlocks (parser.go:1055-1127) under the close discipline: it ends with an empty stack -/
theorem blocksLoop_cl {root : Nat} (parent : Nat) (hroot : parent = root) :
    ∀ (fuel : Nat) (bl : List LineStat) (s : St) (c : RCur) (s' : St), RI src s.r c → PadOK c → StableL src root s →
      s.pc.opened = [] → Inv src (c.p : Int) s → c.pad = 0 → CInv src s s.pc.opened →
      blocksLoop parent fuel bl s = .ok ((), s') →
      CInv src s' s'.pc.opened ∧ s'.pc.opened = [] := by
  intro fuel
  induction fuel with
  | zero => intro _ _ _ _ _ _ _ _ _ _ _ h; unfold blocksLoop at h; cases h
  | succ fuel ih =>
    intro bl s c s' hri hpad hst hemp hinv hp0 hci h
    unfold blocksLoop at h
    obtain ⟨y, s1, h1, k1⟩ := obind_ok h
    -- SkipBlankLines
    have hskip : ∃ r1 c1, s1 = { s with r := r1 } ∧ RI src r1 c1 ∧ PadOK c1 ∧ c.p ≤ c1.p ∧ c1.pad = 0 := by
      unfold skipBlankLinesR at h1
      cases hsk : skipBlankLines readerOps (loopFuel s.r.source) 0 s.r with
      | error e => rw [hsk] at h1; simp [bind, Except.bind] at h1
      | ok p =>
        rw [hsk] at h1
        simp only [bind, Except.bind, pure, Except.pure] at h1
        cases h1
        obtain ⟨c1, a1, a2, a3, a4⟩ := skipBlankLines_mono (src := src) _ _ _ c p.1 p.2 hri hpad hsk
        exact ⟨p.2, c1, rfl, a1, a2, a3, a4 hp0⟩
    obtain ⟨r1, c1, hs1, hri1, hpad1, hle1, hp1⟩ := hskip
    subst s1
    obtain ⟨seg, lines, ok⟩ := y
    have hst1 := hst.congr_r r1
    have hinv1 : Inv src (c1.p : Int) { s with r := r1 } := (hinv.mono (by omega)).congr_r r1
    have hci1 : CInv src { s with r := r1 } s.pc.opened := hci.of_same rfl rfl rfl
    dsimp only at k1
    split at k1
    · obtain ⟨_, hs⟩ := opure_ok k1
      subst s'
      exact ⟨hci1, hemp⟩
    · obtain ⟨pos, s2, h2, k2⟩ := obind_ok k1
      have e2 : s2 = { s with r := r1 } := by cases h2; rfl
      subst s2
      obtain ⟨pc, s3, h3, k3⟩ := obind_ok k2
      obtain ⟨hpc, e3⟩ := ogetPc_ok h3
      subst s3
      subst pc
      dsimp only at k3
      obtain ⟨res, s4, h4, k4⟩ := obind_ok k3
      have hcl : Call ({ s with r := r1 } : St).pc.opened [] := ⟨⟨s.pc.opened, by simp, fun h b hb => by
        rw [show ({ s with r := r1 } : St).pc.opened = s.pc.opened from rfl, hemp] at hb; cases hb⟩⟩
      have hkroot : (nd ({ s with r := r1 } : St) parent).kind ≠ .list := by
        rw [hroot, hst1.ls.rootKind]; decide
      have hob := (openBlocksL lsp [] parent _ { s with r := r1 } c1 hri1 hpad1 hst1 hcl (by rw [hroot]; rfl)
        (fun hk => absurd hk hkroot)).of_ok h4
      obtain ⟨c2, new2, hria2, _, hw2, hleafy2, _, _, hend2, _⟩ := hob
      have hop2 : s4.pc.opened = new2 := by
        rcases hw2.shape with e | ⟨h, _, _⟩
        · rw [e]; show s.pc.opened ++ new2 = new2; rw [hemp]; rfl
        · exact absurd hemp h
      have hst2 : StableL src root s4 :=
        ⟨hw2.nodes, hw2.keys, hw2.blocks, by rw [hop2]; exact hleafy2, hw2.ls, by rw [hop2]; simpa using hw2.chain,
          by rw [hop2]; simpa using hend2⟩
      have hd4 := openBlocks_ord (src := src) (c1.p : Int) parent _ { s with r := r1 } c1 res s4
        ⟨hinv1, hri1, hpad1, Int.le_refl _, fun hne => absurd hp1 hne⟩ h4
      obtain ⟨how, hsame⟩ := openBlocks_cl (src := src) (c1.p : Int) parent _ { s with r := r1 } c1 res s4
        ⟨hinv1, hri1, hpad1, Int.le_refl _, fun hne => absurd hp1 hne⟩ hci1 (by rw [hroot]; exact hst1.ls.rootLt)
        (by rw [hroot, hst1.ls.rootKind]; decide) h4
      split at k4
      · next hres =>
        obtain ⟨_, hs⟩ := opure_ok k4
        subst s'
        have hne : res ≠ .newBlocksOpened := by simpa using hres
        exact ⟨how.ci, (hsame hne).trans hemp⟩
      · obtain ⟨_, s5, h5, k5⟩ := obind_ok k4
        have e5 : s5 = { s4 with r := s4.r.advanceLine } := by cases h5; rfl
        subst s5
        obtain ⟨z, s6, h6, k6⟩ := obind_ok k5
        have hri5 := advanceLine_ria hria2
        have hpad5 := padOK_advanceLine (src := src) c2
        have hst5 := hst2.congr_r s4.r.advanceLine
        have hinv5 := dirty_next hd4 hria2
        obtain ⟨q1, q2⟩ := linesLoop_ord lsp parent hroot fuel _ _ _ z s6 hri5 hpad5 hst5 hinv5 rfl h6
        obtain ⟨p1, p2⟩ := linesLoop_cl lsp parent hroot fuel _ _ _ z s6 hri5 hpad5 hst5 hinv5 rfl
          (how.ci.of_same rfl rfl rfl) h6
        obtain ⟨ret, bl3⟩ := z
        dsimp only at k6
        split at k6
        · next hret =>
          obtain ⟨_, hs⟩ := opure_ok k6
          subst s'
          exact ⟨p1, p2 hret⟩
        · next hret =>
          obtain ⟨c3, hri3, hpad3, hst3, hemp3, hinv3, hp3⟩ := q2 (by simpa using hret)
          exact ih bl3 s6 c3 s' hri3 hpad3 hst3 hemp3 hinv3 hp3 p1 k6

/-- the whole block phase: the close discipline holds of the final store, with an empty stack -/
theorem run_closed_aux (s : St) (h : run src = .ok s) : CInv src s [] ∧ s.pc.opened = [] := by
  unfold run parseBlocks at h
  have hnd0 : ∀ i, nd ({ (initSt src) with pc := { (initSt src).pc with opened := [] } } : St) i =
      if i = 0 then { kind := .document } else default := by
    intro i
    cases i with
    | zero => rfl
    | succ n => rfl
  have hnodes0 : NodesOK src { (initSt src) with pc := { (initSt src).pc with opened := [] } } := by
    intro n hn
    simp only [initSt, List.mem_singleton] at hn
    subst hn
    exact ⟨by intro t ht; simp at ht, fun _ => rfl⟩
  have hinit : StableL src 0 { (initSt src) with pc := { (initSt src).pc with opened := [] } } := by
    refine ⟨hnodes0, ⟨?_, ?_⟩, ?_, ?_, ⟨⟨?_, ?_, ?_⟩, ?_, ?_, ?_, ?_, ?_⟩, ?_, ?_⟩
    · intro t h; simp [initSt] at h
    · intro f h; simp [initSt] at h
    · intro b hb; simp at hb
    · intro b hb; simp at hb
    · intro i lc hk; rw [hnd0] at hk; split at hk <;> cases hk
    · intro i hk; rw [hnd0] at hk; split at hk <;> cases hk
    · intro i p hp; rw [hnd0] at hp; split at hp <;> cases hp
    · intro i p hp; rw [hnd0] at hp; split at hp <;> cases hp
    · rw [hnd0]; rfl
    · simp [initSt]
    · intro b hb; simp at hb
    · simp
    · trivial
    · show (nd _ (lastNode 0 [])).kind ≠ .list
      rw [lastNode_nil, hnd0]; decide
  have hinv0 : Inv src ((RCur.init).p : Int) { (initSt src) with pc := { (initSt src).pc with opened := [] } } := by
    refine ⟨fun i => ?_, fun i hk => ?_, fun i hk => ?_, fun t ht => ?_, fun b hb => ?_, hnodes0⟩
    · rw [hnd0]; split
      · exact NodeB.nil _ rfl
      · exact NodeB.nil _ rfl
    · rw [hnd0] at hk; split at hk <;> cases hk
    · rw [hnd0] at hk; split at hk <;> cases hk
    · simp [initSt] at ht
    · simp at hb
  have hci0 : CInv src { (initSt src) with pc := { (initSt src).pc with opened := [] } } [] := by
    refine ⟨⟨_, hinv0⟩, ⟨fun i p hp => ?_, fun x c hc => ?_, fun x => ?_⟩, fun i _ => .inl (fun t ht => ?_),
      (fun b hb => by cases hb), (fun a ha => by cases ha), (fun b hb => by cases hb)⟩
    · rw [hnd0] at hp; split at hp <;> cases hp
    · rw [hnd0] at hc; split at hc <;> cases hc
    · rw [hnd0]; split <;> exact List.nodup_nil
    · rw [hnd0] at ht; split at ht <;> cases ht
  simp only [bind, StateT.bind, modPc, source, Except.bind, pure, StateT.pure, Except.pure] at h
  cases hb : blocksLoop 0 (linesFuel (initSt src).r.source) []
      { r := (initSt src).r, nodes := (initSt src).nodes, pc := { (initSt src).pc with opened := [] } } with
  | error e => rw [hb] at h; cases h
  | ok p =>
    rw [hb] at h
    obtain ⟨u, s1⟩ := p
    have hs : s1 = s := by simpa [Except.map] using h
    subst hs
    obtain ⟨a1, a2⟩ := blocksLoop_cl lsp 0 rfl (linesFuel (initSt src).r.source) []
      { (initSt src) with pc := { (initSt src).pc with opened := [] } } RCur.init s1 (ri_init src)
      (fun h => absurd rfl h) hinit rfl hinv0 rfl hci0 hb
    rw [a2] at a1
    exact ⟨a1, a2⟩

end run

end L

/-- **padding 0 at the end, for every byte string**: when the block phase ends normally, every line segment of every
    block that is not raw (everything but CodeBlock, FencedCodeBlock, HTMLBlock) has padding 0 in the final store —
    each such block was handed to its parser's `Close` (paragraphParser.Close trims and resets the padding; the
    copies made by setext / list `Close` copy closed lines) or never had a padded line. -/
theorem run_closed (src : Bytes) (s : St) (h : run src = .ok s) :
    ∀ n ∈ s.nodes, isRaw n.kind = false → ∀ t ∈ n.lines, t.padding = 0 := by
  obtain ⟨hc, _⟩ := L.run_closed_aux (lsp_all src) s h
  intro n hn hr
  obtain ⟨i, _, rfl⟩ := mem_nodes_nd hn
  rcases hc.pad i hr with hcl | ⟨b, hb, _⟩
  · exact hcl
  · cases hb

/-- **the open-block stack is empty when the block phase ends**, for every byte string -/
theorem run_opened_nil (src : Bytes) (s : St) (h : run src = .ok s) : s.pc.opened = [] :=
  (L.run_closed_aux (lsp_all src) s h).2

end GM.Blocks
