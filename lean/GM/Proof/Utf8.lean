/-
  GM.Proof.Utf8 — facts about the UTF-8 validity automaton `u8run`, `encodeRune`, `decodeRune`.
-/
import GM.Model.Utf8
import GM.Model.ByteClass

namespace GM.Proof
open GM

theorem u8run_bad (l : Bytes) : u8run .bad l = .bad := by
  induction l with
  | nil => rfl
  | cons c l ih => simpa [u8run, u8step] using ih

theorem u8run_cons (st : U8St) (c : UInt8) (l : Bytes) : u8run st (c :: l) = u8run (u8step st c) l := rfl

theorem u8run_append (st : U8St) (a b : Bytes) : u8run st (a ++ b) = u8run (u8run st a) b := by
  simp [u8run, List.foldl_append]


/-- number of continuation bytes a state still needs -/
def need : U8St → Nat
  | .s0 => 0 | .c1 => 1 | .c2 => 2 | .e0 => 2 | .ed => 2 | .c3 => 3 | .f0 => 3 | .f4 => 3 | .bad => 0

theorem u8step_mid (st : U8St) (hst : st ≠ .s0) :
    ∀ b : UInt8, u8step st b ≠ .bad → isCont b = true ∧ need (u8step st b) + 1 = need st := by
  cases st <;> first | exact absurd rfl hst | (apply forall_uint8; decide +kernel)

theorem u8step_ascii (st : U8St) : ∀ b : UInt8, b < 128 → u8step st b = if st = .s0 then .s0 else .bad := by
  cases st <;> (apply forall_uint8; decide +kernel)

theorem u8step_s0 : ∀ c : UInt8, u8step .s0 c ≠ .bad → utf8len c ≠ 99 ∧ need (u8step .s0 c) = utf8len c - 1 := by
  apply forall_uint8; decide +kernel

/-- a byte string accepted from state `st` starts with exactly the continuation bytes `st` still needs,
    followed by a valid string -/
theorem u8run_split (l : Bytes) : ∀ (st : U8St), u8run st l = .s0 →
    ∃ conts rest, l = conts ++ rest ∧ conts.length = need st ∧ conts.all isCont = true ∧ u8run .s0 rest = .s0 := by
  induction l with
  | nil => intro st h; simp only [u8run, List.foldl_nil] at h; subst h; exact ⟨[], [], rfl, rfl, rfl, rfl⟩
  | cons b l ih =>
    intro st h
    by_cases hst : st = .s0
    · subst hst; exact ⟨[], b :: l, rfl, rfl, rfl, h⟩
    · rw [u8run_cons] at h
      have hb : u8step st b ≠ .bad := by
        intro hb; rw [hb, u8run_bad] at h; cases h
      obtain ⟨hc, hn⟩ := u8step_mid st hst b hb
      obtain ⟨conts, rest, hl, hlen, hall, hr⟩ := ih _ h
      exact ⟨b :: conts, rest, by simp [hl], by simp [hlen, hn], by simp [hc, hall], hr⟩

/-- a valid string starts with a complete, well-formed sequence: `utf8len c - 1` continuation bytes -/
theorem valid_cons {c : UInt8} {cs : Bytes} (h : u8run .s0 (c :: cs) = .s0) :
    utf8len c ≠ 99 ∧ ∃ conts rest, cs = conts ++ rest ∧ conts.length = utf8len c - 1 ∧
      conts.all isCont = true ∧ u8run .s0 rest = .s0 := by
  rw [u8run_cons] at h
  have hb : u8step .s0 c ≠ .bad := by
    intro hb; rw [hb, u8run_bad] at h; cases h
  obtain ⟨h99, hn⟩ := u8step_s0 c hb
  obtain ⟨conts, rest, hl, hlen, hall, hr⟩ := u8run_split cs _ h
  exact ⟨h99, conts, rest, hl, by omega, hall, hr⟩

/-! ### `encodeRune` always writes valid UTF-8 -/

theorem stepN_ascii (n : Nat) (h : n < 0x80) : u8step .s0 (UInt8.ofNat n) = .s0 := by
  have : ∀ n : Fin 256, n.val < 0x80 → u8step .s0 (UInt8.ofNat n.val) = .s0 := by decide +kernel
  exact this ⟨n, by omega⟩ h
theorem stepN_c1 (n : Nat) (h1 : 0xC2 ≤ n) (h2 : n < 0xE0) : u8step .s0 (UInt8.ofNat n) = .c1 := by
  have : ∀ n : Fin 256, 0xC2 ≤ n.val → n.val < 0xE0 → u8step .s0 (UInt8.ofNat n.val) = .c1 := by decide +kernel
  exact this ⟨n, by omega⟩ h1 h2
theorem stepN_3 (n : Nat) (h1 : 0xE0 ≤ n) (h2 : n < 0xF0) :
    u8step .s0 (UInt8.ofNat n) = if n = 0xE0 then .e0 else if n = 0xED then .ed else .c2 := by
  have : ∀ n : Fin 256, 0xE0 ≤ n.val → n.val < 0xF0 →
      u8step .s0 (UInt8.ofNat n.val) = if n.val = 0xE0 then .e0 else if n.val = 0xED then .ed else .c2 := by
    decide +kernel
  exact this ⟨n, by omega⟩ h1 h2
theorem stepN_4 (n : Nat) (h1 : 0xF0 ≤ n) (h2 : n < 0xF5) :
    u8step .s0 (UInt8.ofNat n) = if n = 0xF0 then .f0 else if n = 0xF4 then .f4 else .c3 := by
  have : ∀ n : Fin 256, 0xF0 ≤ n.val → n.val < 0xF5 →
      u8step .s0 (UInt8.ofNat n.val) = if n.val = 0xF0 then .f0 else if n.val = 0xF4 then .f4 else .c3 := by
    decide +kernel
  exact this ⟨n, by omega⟩ h1 h2
theorem stepN_cont (n : Nat) (h1 : 0x80 ≤ n) (h2 : n < 0xC0) :
    u8step .c1 (UInt8.ofNat n) = .s0 ∧ u8step .c2 (UInt8.ofNat n) = .c1 ∧ u8step .c3 (UInt8.ofNat n) = .c2 ∧
    (0xA0 ≤ n → u8step .e0 (UInt8.ofNat n) = .c1) ∧ (n < 0xA0 → u8step .ed (UInt8.ofNat n) = .c1) ∧
    (0x90 ≤ n → u8step .f0 (UInt8.ofNat n) = .c2) ∧ (n < 0x90 → u8step .f4 (UInt8.ofNat n) = .c2) := by
  have : ∀ n : Fin 256, 0x80 ≤ n.val → n.val < 0xC0 →
      u8step .c1 (UInt8.ofNat n.val) = .s0 ∧ u8step .c2 (UInt8.ofNat n.val) = .c1 ∧
      u8step .c3 (UInt8.ofNat n.val) = .c2 ∧
      (0xA0 ≤ n.val → u8step .e0 (UInt8.ofNat n.val) = .c1) ∧ (n.val < 0xA0 → u8step .ed (UInt8.ofNat n.val) = .c1) ∧
      (0x90 ≤ n.val → u8step .f0 (UInt8.ofNat n.val) = .c2) ∧ (n.val < 0x90 → u8step .f4 (UInt8.ofNat n.val) = .c2) := by
    decide +kernel
  exact this ⟨n, by omega⟩ h1 h2

/-- the four shapes of `encodeRune` for a valid rune, with the arithmetic facts about the bytes -/
theorem encodeRune_valid (r : Nat) : u8run .s0 (encodeRune r) = .s0 := by
  unfold encodeRune
  split
  · decide
  · rename_i hv
    simp only [validRune, Bool.not_eq_true', Bool.not_eq_false, Bool.or_eq_true, Bool.and_eq_true, decide_eq_true_eq] at hv
    split
    · rename_i h1
      simp only [u8run, List.foldl_cons, List.foldl_nil]
      exact stepN_ascii _ h1
    · split
      · rename_i h1 h2
        simp only [u8run, List.foldl_cons, List.foldl_nil]
        rw [stepN_c1 _ (by omega) (by omega)]
        exact (stepN_cont _ (by omega) (by omega)).1
      · split
        · rename_i h1 h2 h3
          simp only [u8run, List.foldl_cons, List.foldl_nil]
          have hm1 : 32 ≤ r / 64 := by omega
          have hm2 : r / 64 < 1024 := by omega
          have hm3 : r / 64 < 864 ∨ 896 ≤ r / 64 := by omega
          have hm : r / 4096 = r / 64 / 64 := by rw [Nat.div_div_eq_div_mul]
          have k3 : r % 64 < 64 := Nat.mod_lt _ (by decide)
          clear hv h1 h2 h3
          generalize r % 64 = q2 at *
          generalize r / 4096 = q0 at *
          generalize r / 64 = m at *
          subst hm
          have k0 : m / 64 < 16 := by omega
          have kE0 : m / 64 = 0 → 32 ≤ m % 64 := by omega
          have kED : m / 64 = 13 → m % 64 < 32 := by omega
          have k2 : m % 64 < 64 := Nat.mod_lt _ (by decide)
          clear hm1 hm2 hm3
          generalize m / 64 = q0 at *
          generalize m % 64 = q1 at *
          rw [stepN_3 _ (by omega) (by omega)]
          have c1 := stepN_cont (0x80 + q1) (by omega) (by omega)
          have c2 := stepN_cont (0x80 + q2) (by clear c1; omega) (by clear c1; omega)
          split
          · rename_i hq; have a : 0xA0 ≤ 0x80 + q1 := by clear c1 c2; omega
            rw [c1.2.2.2.1 a]; exact c2.1
          · split
            · rename_i hq; have a : 0x80 + q1 < 0xA0 := by clear c1 c2; omega
              rw [c1.2.2.2.2.1 a]; exact c2.1
            · rw [c1.2.1]; exact c2.1
        · rename_i h1 h2 h3
          simp only [u8run, List.foldl_cons, List.foldl_nil]
          have hm1 : 16 ≤ r / 4096 := by omega
          have hm2 : r / 4096 < 272 := by omega
          have hm : r / 262144 = r / 4096 / 64 := by rw [Nat.div_div_eq_div_mul]
          have k2 : r / 64 % 64 < 64 := Nat.mod_lt _ (by decide)
          have k3 : r % 64 < 64 := Nat.mod_lt _ (by decide)
          clear hv h1 h2 h3
          generalize r / 64 % 64 = q2 at *
          generalize r % 64 = q3 at *
          generalize r / 262144 = q0 at *
          generalize r / 4096 = m at *
          subst hm
          have k0 : m / 64 ≤ 4 := by omega
          have kf0 : m / 64 = 0 → 16 ≤ m % 64 := by omega
          have kf4 : m / 64 = 4 → m % 64 < 16 := by omega
          have k1 : m % 64 < 64 := Nat.mod_lt _ (by decide)
          clear hm1 hm2
          generalize m / 64 = q0 at *
          generalize m % 64 = q1 at *
          rw [stepN_4 _ (by omega) (by omega)]
          have c1 := stepN_cont (0x80 + q1) (by omega) (by omega)
          have c2 := stepN_cont (0x80 + q2) (by clear c1; omega) (by clear c1; omega)
          have c3 := stepN_cont (0x80 + q3) (by clear c1 c2; omega) (by clear c1 c2; omega)
          split
          · rename_i hq; have a : 0x90 ≤ 0x80 + q1 := by clear c1 c2 c3; omega
            rw [c1.2.2.2.2.2.1 a, c2.2.1]; exact c3.1
          · split
            · rename_i hq; have a : 0x80 + q1 < 0x90 := by clear c1 c2 c3; omega
              rw [c1.2.2.2.2.2.2 a, c2.2.1]; exact c3.1
            · rw [c1.2.2.1, c2.2.1]; exact c3.1

end GM.Proof
