/-
  GM.Proof.BlocksTNO24 — `TableData`: what a table-making call of `GM.TableX.transformPT` does to the DATA of the nodes
  (everything but the tree links) and to the paragraph's own parent pointer — from ANY store (no hypothesis on the tree
  links; GM.Proof.BlocksTNO22 `TablePost` describes the links too, but needs `TreeOK`). This is what the line invariants
  (`InvG`) need of the call.
-/
import GM.Proof.BlocksTNO23

namespace GM.Blocks.TO
open GM GM.Text GM.Spec GM.Proof.Reader GM.TableX

/-- a step that keeps reader and context, the data of every node, the parent pointer of every node below `n0`, and
    allocates nodes with `P` (of their data) -/
structure DF (P : Node → Prop) (n0 : Nat) (s s' : St) : Prop where
  r : s'.r = s.r
  pc : s'.pc = s.pc
  len : s.nodes.length ≤ s'.nodes.length
  data : ∀ i, i < s.nodes.length → dataOf (nd s' i) = dataOf (nd s i)
  par : ∀ i, i < n0 → (nd s' i).parent = (nd s i).parent
  fresh : ∀ i, s.nodes.length ≤ i → i < s'.nodes.length → P (dataOf (nd s' i))

variable {P : Node → Prop} {n0 : Nat}

theorem DF.refl (P : Node → Prop) (n0 : Nat) (s : St) : DF P n0 s s :=
  ⟨rfl, rfl, Nat.le_refl _, fun _ _ => rfl, fun _ _ => rfl, fun i h1 h2 => absurd h2 (by omega)⟩

theorem DF.trans {a b c : St} (h1 : DF P n0 a b) (h2 : DF P n0 b c) : DF P n0 a c :=
  ⟨h2.r.trans h1.r, h2.pc.trans h1.pc, Nat.le_trans h1.len h2.len,
    fun i hi => (h2.data i (Nat.lt_of_lt_of_le hi h1.len)).trans (h1.data i hi),
    fun i hi => (h2.par i hi).trans (h1.par i hi),
    fun i hi1 hi2 => by
      rcases Nat.lt_or_ge i b.nodes.length with h | h
      · rw [h2.data i h]; exact h1.fresh i hi1 h
      · exact h2.fresh i h hi2⟩

theorem DF.newNode {s s' : St} {n : Node} {id : Nat} (h0 : n0 ≤ s.nodes.length) (hP : P (dataOf n)) (e : newNode n s = .ok (id, s')) :
    DF P n0 s s' ∧ id = s.nodes.length ∧ s'.nodes.length = s.nodes.length + 1 := by
  obtain ⟨rfl, hs'⟩ := onewNode_ok e
  have hn : s'.nodes = s.nodes ++ [n] := by rw [hs']
  have hnd := nd_snoc hn
  have hlen : s'.nodes.length = s.nodes.length + 1 := by rw [hn]; simp
  refine ⟨⟨by rw [hs'], by rw [hs'], by omega, fun i hi => by rw [hnd, if_pos hi], fun i hi => ?_, fun i h1 h2 => ?_⟩, rfl, hlen⟩
  · rw [hnd, if_pos (by omega)]
  · rw [hnd, if_neg (by omega), if_pos (by omega)]; exact hP

theorem DF.modNode {s s' : St} {id : Nat} {f : Node → Node} {a : Unit} (e : modNode id f s = .ok (a, s'))
    (hf : ∀ n, dataOf (f n) = dataOf n) (hp : id < n0 → ∀ n, (f n).parent = n.parent) :
    DF P n0 s s' ∧ s'.nodes.length = s.nodes.length := by
  rw [modNode_eq] at e
  cases e
  refine ⟨⟨rfl, rfl, by rw [upd_len]; exact Nat.le_refl _, fun i _ => ?_, fun i hi => ?_, fun i h1 h2 => ?_⟩, upd_len ..⟩
  · rw [nd_upd]; split
    · next h => rw [← h.1]; exact hf _
    · rfl
  · rw [nd_upd]; split
    · next h => rw [← h.1]; exact hp (by rw [h.1]; exact hi) _
    · rfl
  · rw [upd_len] at h2; omega

theorem DF.removeChild {q c : Nat} {s s' : St} {a : Unit} (hc : n0 ≤ c) (e : removeChild q c s = .ok (a, s')) :
    DF P n0 s s' ∧ s'.nodes.length = s.nodes.length := by
  unfold GM.Blocks.removeChild at e
  obtain ⟨cn, s1, h1, k1⟩ := obind_ok e
  obtain ⟨_, hs1⟩ := ogetNode_ok h1
  subst s1
  split at k1
  · obtain ⟨_, hs⟩ := opure_ok k1
    subst s'
    exact ⟨DF.refl P n0 s, rfl⟩
  · obtain ⟨_, s2, h2, k2⟩ := obind_ok k1
    obtain ⟨d1, l1⟩ := DF.modNode (P := P) (n0 := n0) h2 (fun _ => rfl) (fun _ _ => rfl)
    obtain ⟨d2, l2⟩ := DF.modNode (P := P) (n0 := n0) k2 (fun _ => rfl) (fun h => absurd h (by omega))
    exact ⟨d1.trans d2, l2.trans l1⟩

theorem DF.ensureIsolated {c : Nat} {s s' : St} {a : Unit} (hc : n0 ≤ c) (e : ensureIsolated c s = .ok (a, s')) :
    DF P n0 s s' ∧ s'.nodes.length = s.nodes.length := by
  unfold GM.Blocks.ensureIsolated at e
  obtain ⟨cn, s1, h1, k1⟩ := obind_ok e
  obtain ⟨hcn, hs1⟩ := ogetNode_ok h1
  subst s1
  subst hcn
  cases hp : (s.nodes.getD c default).parent with
  | some q => rw [hp] at k1; exact DF.removeChild hc k1
  | none =>
    rw [hp] at k1
    obtain ⟨_, hs⟩ := opure_ok k1
    subst s'
    exact ⟨DF.refl P n0 s, rfl⟩

theorem DF.appendChild {q c : Nat} {s s' : St} {a : Unit} (hc : n0 ≤ c) (e : appendChild q c s = .ok (a, s')) :
    DF P n0 s s' ∧ s'.nodes.length = s.nodes.length := by
  unfold GM.Blocks.appendChild at e
  obtain ⟨_, s1, h1, k1⟩ := obind_ok e
  obtain ⟨d1, l1⟩ := DF.ensureIsolated (P := P) hc h1
  obtain ⟨_, s2, h2, k2⟩ := obind_ok k1
  obtain ⟨d2, l2⟩ := DF.modNode (P := P) (n0 := n0) h2 (fun _ => rfl) (fun _ _ => rfl)
  obtain ⟨d3, l3⟩ := DF.modNode (P := P) (n0 := n0) k2 (fun _ => rfl) (fun h => absurd h (by omega))
  exact ⟨(d1.trans d2).trans d3, by omega⟩

theorem DF.insertBefore {q : Nat} {v1 : Option Nat} {c : Nat} {s s' : St} {a : Unit} (hc : n0 ≤ c)
    (e : insertBefore q v1 c s = .ok (a, s')) : DF P n0 s s' ∧ s'.nodes.length = s.nodes.length := by
  unfold GM.Blocks.insertBefore at e
  cases v1 with
  | none => exact DF.appendChild hc e
  | some v =>
    dsimp only at e
    obtain ⟨vn, s0, h0, k0⟩ := obind_ok e
    obtain ⟨_, hs0⟩ := ogetNode_ok h0
    subst s0
    split at k0
    · exact DF.appendChild hc k0
    · obtain ⟨_, s1, h1, k1⟩ := obind_ok k0
      obtain ⟨d1, l1⟩ := DF.ensureIsolated (P := P) hc h1
      obtain ⟨_, s2, h2, k2⟩ := obind_ok k1
      obtain ⟨d2, l2⟩ := DF.modNode (P := P) (n0 := n0) h2 (fun _ => rfl) (fun _ _ => rfl)
      obtain ⟨d3, l3⟩ := DF.modNode (P := P) (n0 := n0) k2 (fun _ => rfl) (fun h => absurd h (by omega))
      exact ⟨(d1.trans d2).trans d3, by omega⟩

theorem DF.addCells (src : Bytes) (row : Nat) : ∀ (cells : List GM.Table.Cell) {s s' : St} {a : Unit}, n0 ≤ s.nodes.length →
    (∀ c ∈ cells, P (dataOf (cellNode src c))) → addCells src row cells s = .ok (a, s') → DF P n0 s s'
  | [], s, s', a, _, _, e => by
    unfold GM.TableX.addCells at e
    obtain ⟨_, hs⟩ := opure_ok e
    subst s'
    exact DF.refl P n0 s
  | c :: rest, s, s', a, h0, hP, e => by
    unfold GM.TableX.addCells at e
    obtain ⟨id, s1, h1, k1⟩ := obind_ok e
    obtain ⟨d1, rfl, l1⟩ := DF.newNode (P := P) (n0 := n0) h0 (hP c (List.mem_cons_self ..)) h1
    obtain ⟨_, s2, h2, k2⟩ := obind_ok k1
    obtain ⟨d2, l2⟩ := DF.appendChild (P := P) h0 h2
    exact (d1.trans d2).trans (DF.addCells src row rest (by omega) (fun c' hc' => hP c' (List.mem_cons_of_mem _ hc')) k2)

theorem DF.addRow (src : Bytes) (table tag : Nat) (cells : List GM.Table.Cell) {s s' : St} {a : Unit} (h0 : n0 ≤ s.nodes.length)
    (hR : P (dataOf { kind := .thematicBreak, htmlType := tag, offset := dashAt src, lines := (cells.flatMap (·.esc)).map escSeg, linesNil := (cells.flatMap (·.esc)).isEmpty }))
    (hP : ∀ c ∈ cells, P (dataOf (cellNode src c)))
    (e : addRow src table tag cells s = .ok (a, s')) : DF P n0 s s' := by
  unfold GM.TableX.addRow at e
  obtain ⟨id, s1, h1, k1⟩ := obind_ok e
  obtain ⟨d1, rfl, l1⟩ := DF.newNode (P := P) (n0 := n0) h0 hR h1
  obtain ⟨_, s2, h2, k2⟩ := obind_ok k1
  have d2 := DF.addCells (P := P) src s.nodes.length cells (Nat.le_trans h0 d1.len) hP h2
  obtain ⟨d3, _⟩ := DF.appendChild (P := P) (n0 := n0) (c := s.nodes.length) h0 k2
  exact (d1.trans d2).trans d3

theorem DF.addRows (src : Bytes) (table : Nat) : ∀ (rows : List (List GM.Table.Cell)) {s s' : St} {a : Unit}, n0 ≤ s.nodes.length →
    (∀ r ∈ rows, P (dataOf { kind := .thematicBreak, htmlType := tagRow, offset := dashAt src, lines := (r.flatMap (·.esc)).map escSeg, linesNil := (r.flatMap (·.esc)).isEmpty })) →
    (∀ r ∈ rows, ∀ c ∈ r, P (dataOf (cellNode src c))) →
    addRows src table rows s = .ok (a, s') → DF P n0 s s'
  | [], s, s', a, _, _, _, e => by
    unfold GM.TableX.addRows at e
    obtain ⟨_, hs⟩ := opure_ok e
    subst s'
    exact DF.refl P n0 s
  | r :: rest, s, s', a, h0, hR, hP, e => by
    unfold GM.TableX.addRows at e
    obtain ⟨_, s1, h1, k1⟩ := obind_ok e
    have d1 := DF.addRow (P := P) src table tagRow r h0 (hR r (List.mem_cons_self ..)) (hP r (List.mem_cons_self ..)) h1
    exact d1.trans (DF.addRows src table rest (Nat.le_trans h0 d1.len) (fun r' hr' => hR r' (List.mem_cons_of_mem _ hr'))
      (fun r' hr' => hP r' (List.mem_cons_of_mem _ hr')) k1)

/-- **the effect of a table-making call on the data of the nodes** -/
structure TableData (P : Node → Prop) (node : Nat) (lines : List Segment) (s s' : St) : Prop where
  r : s'.r = s.r
  pc : s'.pc = s.pc
  len : s.nodes.length < s'.nodes.length
  old : ∀ i, i < s.nodes.length → i ≠ node → dataOf (nd s' i) = dataOf (nd s i)
  self : dataOf (nd s' node) = dataOf { (nd s node) with lines := lines }
  selfpar : (nd s' node).parent = if lines.isEmpty then none else (nd s node).parent
  fresh : ∀ i, s.nodes.length ≤ i → i < s'.nodes.length → P (dataOf (nd s' i))

theorem buildTable_data (src : Bytes) {node p : Nat} {para : List GM.Table.Seg} {t : GM.Table.Table} {s s' : St} {a : Unit}
    (hp : (nd s node).parent = some p) (e : buildTable src node (some p) para t s = .ok (a, s')) :
    TableData (RecD src t) node (para.map ofSeg) s s' := by
  have hnl : node < s.nodes.length := by
    rcases Nat.lt_or_ge node s.nodes.length with h | h
    · exact h
    · rw [nd_default_of_ge s h] at hp; cases hp
  unfold buildTable at e
  obtain ⟨table, s1, h1, k1⟩ := obind_ok e
  obtain ⟨d1, rfl, l1⟩ := DF.newNode (P := RecD src t) (n0 := s.nodes.length) (Nat.le_refl _) (.inl rfl) h1
  obtain ⟨_, s2, h2, k2⟩ := obind_ok k1
  have d2 := DF.addRow (P := RecD src t) (n0 := s.nodes.length) src s.nodes.length tagHeader t.header (by omega) (.inr (.inl rfl))
    (fun c hc => .inr (.inr (.inr ⟨t.header, List.mem_cons_self .., c, hc, rfl⟩))) h2
  obtain ⟨_, s3, h3, k3⟩ := obind_ok k2
  have d3 := DF.addRows (P := RecD src t) (n0 := s.nodes.length) src s.nodes.length t.rows (by have := d2.len; omega)
    (fun r hr => .inr (.inr (.inl ⟨r, hr, rfl⟩)))
    (fun r hr c hc => .inr (.inr (.inr ⟨r, List.mem_cons_of_mem _ hr, c, hc, rfl⟩))) h3
  have dB := (d1.trans d2).trans d3
  obtain ⟨_, s4, h4, k4⟩ := obind_ok k3
  rw [modNode_eq] at h4
  cases h4
  dsimp only at k4
  obtain ⟨pn, s5, h5, k5⟩ := obind_ok k4
  obtain ⟨_, hs5⟩ := ogetNode_ok h5
  subst s5
  obtain ⟨_, s6, h6, k6⟩ := obind_ok k5
  obtain ⟨d6, l6⟩ := DF.insertBefore (P := RecD src t) (n0 := s.nodes.length) (Nat.le_refl _) h6
  have hl3 : node < s3.nodes.length := Nat.lt_of_lt_of_le hnl dB.len
  have hnd4 : ∀ i, nd (upd s3 node fun n => { n with lines := para.map ofSeg }) i =
      if node = i then { (nd s3 node) with lines := para.map ofSeg } else nd s3 i := fun i => nd_upd_lt _ _ _ hl3
  have hl4 : (upd s3 node fun n => { n with lines := para.map ofSeg }).nodes.length = s3.nodes.length := upd_len ..
  -- the store behind InsertAfter
  have hlen6 : s.nodes.length < s6.nodes.length := by rw [l6, hl4]; have := d2.len; have := d3.len; omega
  have hold6 : ∀ i, i < s.nodes.length → i ≠ node → dataOf (nd s6 i) = dataOf (nd s i) := by
    intro i hi hne
    rw [d6.data i (by rw [hl4]; exact Nat.lt_of_lt_of_le hi dB.len), hnd4, if_neg (Ne.symm hne)]
    exact dB.data i hi
  have hself6 : dataOf (nd s6 node) = dataOf { (nd s node) with lines := para.map ofSeg } := by
    rw [d6.data node (by rw [hl4]; exact hl3), hnd4, if_pos rfl]
    have := dB.data node hnl
    simp only [dataOf, Node.mk.injEq] at this ⊢
    obtain ⟨a1, _, _, _, a5, a6, a7, a8, a9, a10, a11, a12, a13, a14⟩ := this
    exact ⟨a1, trivial, trivial, trivial, a5, a6, a7, a8, a9, a10, a11, a12, a13, a14⟩
  have hpar6 : (nd s6 node).parent = some p := by
    rw [d6.par node hnl, hnd4, if_pos rfl]
    show (nd s3 node).parent = some p
    rw [dB.par node hnl]; exact hp
  have hfresh6 : ∀ i, s.nodes.length ≤ i → i < s6.nodes.length → RecD src t (dataOf (nd s6 i)) := by
    intro i h1 h2
    rw [l6, hl4] at h2
    have hne : ¬ node = i := by omega
    rw [d6.data i (by rw [hl4]; exact h2), hnd4, if_neg hne]
    exact dB.fresh i h1 h2
  have hr6 : s6.r = s.r := by rw [d6.r]; exact dB.r
  have hpc6 : s6.pc = s.pc := by rw [d6.pc]; exact dB.pc
  by_cases hemp : para.isEmpty = true
  · rw [if_pos hemp] at k6
    have hs7 := removeChild_some hpar6 k6
    have hl7 : s'.nodes.length = s6.nodes.length := by rw [hs7, upd_len, upd_len]
    have hnl6 : node < s6.nodes.length := by omega
    have hp6 : p < s6.nodes.length ∨ ¬ p < s6.nodes.length := Nat.lt_or_ge p _ |>.imp id (fun h => by omega)
    have hdata7 : ∀ i, dataOf (nd s' i) = dataOf (nd s6 i) := by
      intro i
      rw [hs7, nd_upd_lt _ _ _ (by rw [upd_len]; exact hnl6)]
      by_cases h1 : node = i
      · rw [if_pos h1, nd_upd]
        by_cases h2 : p = node ∧ p < s6.nodes.length
        · rw [if_pos h2, ← h1, ← h2.1]; rfl
        · rw [if_neg h2, ← h1]; rfl
      · rw [if_neg h1, nd_upd]
        by_cases h2 : p = i ∧ p < s6.nodes.length
        · rw [if_pos h2, ← h2.1]; rfl
        · rw [if_neg h2]
    have hemp' : (para.map ofSeg).isEmpty = true := by simpa using hemp
    refine ⟨by rw [hs7, upd_r, upd_r]; exact hr6, by rw [hs7, upd_pc, upd_pc]; exact hpc6, by omega,
      fun i hi hne => by rw [hdata7]; exact hold6 i hi hne, by rw [hdata7]; exact hself6, ?_,
      fun i h1 h2 => by rw [hdata7]; exact hfresh6 i h1 (by rw [← hl7]; exact h2)⟩
    rw [hemp', if_pos rfl, hs7, nd_upd_lt _ _ _ (by rw [upd_len]; exact hnl6), if_pos rfl]
  · have hpe : para.isEmpty = false := by
      cases hh : para.isEmpty
      · rfl
      · exact absurd hh hemp
    rw [hpe] at k6
    simp only [Bool.false_eq_true, if_false] at k6
    obtain ⟨_, hs'⟩ := opure_ok k6
    subst s'
    have hemp' : (para.map ofSeg).isEmpty = false := by
      cases hh : (para.map ofSeg).isEmpty
      · rfl
      · exfalso; apply hemp; simpa using hh
    refine ⟨hr6, hpc6, hlen6, hold6, hself6, ?_, hfresh6⟩
    rw [hemp', hpar6, hp]; rfl

theorem transformPT_data (src : Bytes) {node : Nat} {s s' : St} {a : Unit}
    (e : transformPT src node s = .ok (a, s')) :
    ((GM.Table.transform src ((nd s node).lines.map toSeg)).table = none ∧ s' = s) ∨
    ∃ t, (GM.Table.transform src ((nd s node).lines.map toSeg)).table = some t ∧ (nd s node).parent.isSome = true ∧
      TableData (RecD src t) node ((GM.Table.transform src ((nd s node).lines.map toSeg)).para.map ofSeg) s s' := by
  unfold transformPT at e
  obtain ⟨n, s1, h1, k1⟩ := obind_ok e
  obtain ⟨hn, hs1⟩ := ogetNode_ok h1
  subst s1
  subst hn
  obtain ⟨rsrc, s2, h2, k2⟩ := obind_ok k1
  have : s2 = s := by cases h2; rfl
  subst this
  split at k2
  · cases k2
  · have hnd : s2.nodes.getD node default = nd s2 node := rfl
    rw [hnd] at k2
    cases htb : (GM.Table.transform src ((nd s2 node).lines.map toSeg)).table with
    | none =>
      rw [htb] at k2
      exact .inl ⟨rfl, (opure_ok k2).2⟩
    | some t =>
      rw [htb] at k2
      right
      cases hp : (nd s2 node).parent with
      | none =>
        rw [hp] at k2
        unfold buildTable at k2
        obtain ⟨_, _, _, k3⟩ := obind_ok k2
        obtain ⟨_, _, _, k4⟩ := obind_ok k3
        obtain ⟨_, _, _, k5⟩ := obind_ok k4
        obtain ⟨_, _, _, k6⟩ := obind_ok k5
        cases k6
      | some p =>
        rw [hp] at k2
        exact ⟨t, rfl, rfl, buildTable_data src hp k2⟩

end GM.Blocks.TO
