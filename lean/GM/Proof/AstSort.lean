/-
  GM.Proof.AstSort — SortChildren (ast.go:258-288) refines `sortList` (insertion sort on the child list).
-/
import GM.Proof.AstHeap

namespace GM.Proof.AstHeap
open GM.Spec GM.Spec.Forest GM.AstHeap GM.Proof.ForestLists

/-! ### list facts about `sortIns` -/

theorem sortIns_all_lt {cmp : Nat → Nat → Int} {a : Nat} {l : List Nat} (hl : ∀ w ∈ l, cmp w a < 0) :
    sortIns cmp a l = l ++ [a] := by
  induction l with
  | nil => rfl
  | cons b t ih =>
    have hb := hl b (by simp)
    simp only [sortIns, hb, ↓reduceIte, List.cons_append]
    rw [ih (fun w hw => hl w (by simp [hw]))]

theorem sortIns_split {cmp : Nat → Nat → Int} {a d : Nat} {pre post : List Nat}
    (hl : ∀ w ∈ pre, cmp w a < 0) (hd : ¬ cmp d a < 0) :
    sortIns cmp a (pre ++ d :: post) = pre ++ a :: d :: post := by
  induction pre with
  | nil => simp [sortIns, hd]
  | cons b t ih =>
    have hb := hl b (by simp)
    simp only [List.cons_append, sortIns, hb, ↓reduceIte]
    rw [ih (fun w hw => hl w (by simp [hw]))]

theorem insBefore_split {a d : Nat} {pre post : List Nat} (hd : d ∉ pre) :
    insBefore a d (pre ++ d :: post) = pre ++ a :: d :: post := by
  induction pre with
  | nil => simp [insBefore]
  | cons b t ih =>
    have hb : b ≠ d := fun e => hd (by simp [e])
    simp only [List.cons_append, insBefore, hb, ↓reduceIte]
    rw [ih (fun hm => hd (by simp [hm]))]

theorem nextIn_append_cons {c : Nat} {pre t : List Nat} (hc : c ∉ pre) :
    nextIn (pre ++ c :: t) c = t.head? := by
  induction pre with
  | nil => simp [nextIn]
  | cons b u ih =>
    have hb : b ≠ c := fun e => hc (by simp [e])
    simp only [List.cons_append, nextIn, hb, ↓reduceIte]
    exact ih (fun hm => hc (by simp [hm]))

/-! ### the inner loop finds the insertion point -/

theorem sortInner_spec {hh : Heap} {cmp : Nat → Nat → Int} {a : Nat} {acc : List Nat}
    (nd : acc.Nodup) (hn : ∀ x ∈ acc, hh.next x = nextIn acc x) :
    ∀ (post pre : List Nat) (c fuel : Nat), acc = pre ++ c :: post → post.length < fuel →
      cmp c a < 0 → (∀ w ∈ pre, cmp w a < 0) →
      ∃ c', sortInner hh cmp a fuel c = .ok c' ∧ c' ∈ acc ∧
        sortIns cmp a acc = insBeforeOpt a (nextIn acc c') acc := by
  intro post
  induction post with
  | nil =>
    intro pre c fuel hacc hf hc hpre
    cases fuel with
    | zero => simp at hf
    | succ k =>
      have hcm : c ∈ acc := by rw [hacc]; simp
      have hcp : c ∉ pre := by
        rw [hacc] at nd; intro hm
        have := (List.nodup_append.1 nd).2.2 c hm c (by simp); exact this rfl
      have hnx : nextIn acc c = none := by rw [hacc, nextIn_append_cons hcp]; rfl
      refine ⟨c, ?_, hcm, ?_⟩
      · simp [sortInner, hn c hcm, hnx]
      · rw [hnx]; simp only [insBeforeOpt]
        apply sortIns_all_lt
        intro w hw; rw [hacc] at hw
        rcases List.mem_append.1 hw with h1 | h1
        · exact hpre w h1
        · have : w = c := by simpa using h1
          rw [this]; exact hc
  | cons d post' ih =>
    intro pre c fuel hacc hf hc hpre
    cases fuel with
    | zero => simp at hf
    | succ k =>
      have hcm : c ∈ acc := by rw [hacc]; simp
      have hcp : c ∉ pre := by
        rw [hacc] at nd; intro hm
        have := (List.nodup_append.1 nd).2.2 c hm c (by simp); exact this rfl
      have hnx : nextIn acc c = some d := by rw [hacc, nextIn_append_cons hcp]; rfl
      by_cases hd : cmp d a < 0
      · have hacc' : acc = (pre ++ [c]) ++ d :: post' := by rw [hacc]; simp
        obtain ⟨c', e, hm, hs⟩ := ih (pre ++ [c]) d k hacc' (by simpa using hf) hd
          (by intro w hw
              rcases List.mem_append.1 hw with h1 | h1
              · exact hpre w h1
              · have : w = c := by simpa using h1
                rw [this]; exact hc)
        refine ⟨c', ?_, hm, hs⟩
        simp only [sortInner, hn c hcm, hnx, hd, ↓reduceIte]; exact e
      · refine ⟨c, ?_, hcm, ?_⟩
        · simp [sortInner, hn c hcm, hnx, hd]
        · rw [hnx]; simp only [insBeforeOpt]
          have hacc' : acc = (pre ++ [c]) ++ d :: post' := by rw [hacc]; simp
          have hdp : d ∉ pre ++ [c] := by
            rw [hacc'] at nd; intro hm
            have := (List.nodup_append.1 nd).2.2 d hm d (by simp); exact this rfl
          rw [hacc', sortIns_split _ hd, insBefore_split hdp]
          intro w hw
          rcases List.mem_append.1 hw with h1 | h1
          · exact hpre w h1
          · have : w = c := by simpa using h1
            rw [this]; exact hc


/-! ### the outer loop: invariant -/

/-- `acc` is a well-linked chain, `rest` is still linked forward, nothing else was touched -/
structure SortInv (h0 hh : Heap) (l acc rest : List Nat) : Prop where
  par : hh.parent = h0.parent
  fst : hh.first = h0.first
  lst : hh.last = h0.last
  cnt : hh.count = h0.count
  accN : ∀ x ∈ acc, hh.next x = nextIn acc x
  accP : ∀ x ∈ acc, hh.prev x = prevIn acc x
  restN : ∀ x ∈ rest, hh.next x = nextIn rest x
  outN : ∀ x, x ∉ l → hh.next x = h0.next x
  outP : ∀ x, x ∉ l → hh.prev x = h0.prev x

/-- predecessor of the insertion point `ref` (`none` = append) -/
def prevOf (acc : List Nat) : Option Nat → Option Nat
  | some d => prevIn acc d
  | none => acc.getLast?

theorem sort_link {h0 hh hh1 : Heap} {l acc t : List Nat} {a : Nat} {ref : Option Nat}
    (I : SortInv h0 hh l acc (a :: t)) (nd : (acc ++ a :: t).Nodup)
    (sub : ∀ x, x ∈ acc ∨ x ∈ a :: t → x ∈ l)
    (href : ∀ d, ref = some d → d ∈ acc)
    (e1 : hh1.parent = hh.parent) (e2 : hh1.first = hh.first) (e3 : hh1.last = hh.last)
    (e4 : hh1.count = hh.count)
    (en : ∀ x, hh1.next x = if x = a then ref else if prevOf acc ref = some x then some a else hh.next x)
    (ep : ∀ x, hh1.prev x = if x = a then prevOf acc ref else if ref = some x then some a else hh.prev x) :
    SortInv h0 hh1 l (insBeforeOpt a ref acc) t := by
  have nda := (List.nodup_append.1 nd)
  have ndacc : acc.Nodup := nda.1
  have ndat := List.nodup_cons.1 nda.2.1
  have haacc : a ∉ acc := fun hm => nda.2.2 a hm a (by simp) rfl
  have hprevmem : ∀ x, prevOf acc ref = some x → x ∈ acc := by
    intro x hx
    cases ref with
    | none => exact List.mem_of_getLast? hx
    | some d => exact (prevIn_mem hx).2
  refine ⟨by rw [e1, I.par], by rw [e2, I.fst], by rw [e3, I.lst], by rw [e4, I.cnt], ?_, ?_, ?_, ?_, ?_⟩
  · -- next on the new chain
    intro x hx
    rw [en]
    cases ref with
    | none =>
      simp only [insBeforeOpt, prevOf] at hx ⊢
      rw [nextIn_append_single ndacc haacc]
      by_cases hxa : x = a
      · subst hxa
        have : acc.getLast? ≠ some x := fun e => haacc (List.mem_of_getLast? e)
        simp [this, nextIn_not_mem haacc]
      · simp only [hxa, ↓reduceIte]
        have hxm : x ∈ acc := by
          rcases List.mem_append.1 hx with h1 | h1
          · exact h1
          · exact absurd (by simpa using h1) hxa
        rw [I.accN x hxm]
        by_cases hg : acc.getLast? = some x <;> simp [hg]
    | some d =>
      have hd := href d rfl
      simp only [insBeforeOpt, prevOf] at hx ⊢
      rw [nextIn_insBefore ndacc hd haacc]
      by_cases hxa : x = a
      · simp [hxa]
      · simp only [hxa, ↓reduceIte]
        have hxm : x ∈ acc := by
          rcases mem_insBefore.1 hx with h1 | h1
          · exact absurd h1 hxa
          · exact h1
        rw [I.accN x hxm]; simp only [next_prev ndacc]
        by_cases hg : prevIn acc d = some x <;> simp [hg]
  · -- prev on the new chain
    intro x hx
    rw [ep]
    cases ref with
    | none =>
      simp only [insBeforeOpt, prevOf] at hx ⊢
      rw [prevIn_append_single haacc]
      by_cases hxa : x = a
      · simp [hxa]
      · simp only [hxa, ↓reduceIte, reduceCtorEq]
        have hxm : x ∈ acc := by
          rcases List.mem_append.1 hx with h1 | h1
          · exact h1
          · exact absurd (by simpa using h1) hxa
        exact I.accP x hxm
    | some d =>
      have hd := href d rfl
      have hda : d ≠ a := fun e => haacc (e ▸ hd)
      simp only [insBeforeOpt, prevOf] at hx ⊢
      rw [prevIn_insBefore ndacc hd haacc]
      by_cases hxa : x = a
      · subst hxa
        have : x ≠ d := fun e => hda e.symm
        simp [this]
      · simp only [hxa, ↓reduceIte, Option.some.injEq]
        have hxm : x ∈ acc := by
          rcases mem_insBefore.1 hx with h1 | h1
          · exact absurd h1 hxa
          · exact h1
        by_cases hxd : x = d
        · simp [hxd]
        · have : d ≠ x := fun e => hxd e.symm
          simp only [hxd, this, ↓reduceIte]; exact I.accP x hxm
  · -- the rest is still linked forward
    intro x hx
    rw [en]
    have hxa : x ≠ a := fun e => ndat.1 (e ▸ hx)
    have hax : a ≠ x := fun e => hxa e.symm
    have hxacc : x ∉ acc := fun hm => nda.2.2 x hm x (by simp [hx]) rfl
    have : prevOf acc ref ≠ some x := fun e => hxacc (hprevmem x e)
    simp only [hxa, this, ↓reduceIte]
    rw [I.restN x (by simp [hx])]; simp [nextIn, hax]
  · intro x hx
    rw [en]
    have hxa : x ≠ a := fun e => hx (sub x (Or.inr (by simp [e])))
    have : prevOf acc ref ≠ some x := fun e => hx (sub x (Or.inl (hprevmem x e)))
    simp only [hxa, this, ↓reduceIte]; exact I.outN x hx
  · intro x hx
    rw [ep]
    have hxa : x ≠ a := fun e => hx (sub x (Or.inr (by simp [e])))
    have : ref ≠ some x := fun e => hx (sub x (Or.inl (href x e)))
    simp only [hxa, this, ↓reduceIte]; exact I.outP x hx



/-! ### the two ways the outer loop links `current` in -/

/-- else-branch of SortChildren's outer loop (after the inner loop found `c`) -/
def sortLinkAfter (h : Heap) (current c : Nat) : Heap :=
  let cn := h.next c
  let h := { h with next := set h.next current cn }
  let h := { h with prev := set h.prev current (some c) }
  let h := match h.next c with
    | some d => { h with prev := set h.prev d (some current) }
    | none => h
  { h with next := set h.next c (some current) }

/-- then-branch: `current` becomes the new head of the sorted chain -/
def sortLinkFront (h : Heap) (current : Nat) (sorted : Option Nat) : Heap :=
  let h := { h with next := set h.next current sorted }
  let h := match sorted with
    | some s => { h with prev := set h.prev s (some current) }
    | none => h
  { h with prev := set h.prev current none }

section linkFields
variable {h : Heap} {a c : Nat}
theorem sla_parent : (sortLinkAfter h a c).parent = h.parent := by
  simp only [sortLinkAfter]; split <;> rfl
theorem sla_first : (sortLinkAfter h a c).first = h.first := by
  simp only [sortLinkAfter]; split <;> rfl
theorem sla_last : (sortLinkAfter h a c).last = h.last := by
  simp only [sortLinkAfter]; split <;> rfl
theorem sla_count : (sortLinkAfter h a c).count = h.count := by
  simp only [sortLinkAfter]; split <;> rfl
theorem sla_next (hca : c ≠ a) (x : Nat) : (sortLinkAfter h a c).next x =
    if x = c then some a else if x = a then h.next c else h.next x := by
  simp only [sortLinkAfter]; split <;> simp
theorem sla_prev (hca : c ≠ a) (x : Nat) : (sortLinkAfter h a c).prev x =
    if h.next c = some x then some a else if x = a then some c else h.prev x := by
  simp only [sortLinkAfter, set_apply, hca, ↓reduceIte]
  cases hn : h.next c <;> simp <;> grind

theorem slf_parent {s : Option Nat} : (sortLinkFront h a s).parent = h.parent := by
  simp only [sortLinkFront]; split <;> rfl
theorem slf_first {s : Option Nat} : (sortLinkFront h a s).first = h.first := by
  simp only [sortLinkFront]; split <;> rfl
theorem slf_last {s : Option Nat} : (sortLinkFront h a s).last = h.last := by
  simp only [sortLinkFront]; split <;> rfl
theorem slf_count {s : Option Nat} : (sortLinkFront h a s).count = h.count := by
  simp only [sortLinkFront]; split <;> rfl
theorem slf_next {s : Option Nat} (x : Nat) : (sortLinkFront h a s).next x =
    if x = a then s else h.next x := by
  simp only [sortLinkFront]; split <;> simp
theorem slf_prev {s : Option Nat} (x : Nat) : (sortLinkFront h a s).prev x =
    if x = a then none else if s = some x then some a else h.prev x := by
  simp only [sortLinkFront]; cases s <;> simp <;> grind
end linkFields

theorem sortOuter_front_nil {fuel0 k : Nat} {cmp : Nat → Nat → Int} {hh : Heap} {a : Nat} :
    sortOuter fuel0 cmp (k + 1) hh none (some a) =
      sortOuter fuel0 cmp k (sortLinkFront hh a none) (some a) (hh.next a) := by
  rw [sortOuter.eq_3]; rfl

theorem sortOuter_front {fuel0 k : Nat} {cmp : Nat → Nat → Int} {hh : Heap} {a s : Nat} (hp : cmp s a ≥ 0) :
    sortOuter fuel0 cmp (k + 1) hh (some s) (some a) =
      sortOuter fuel0 cmp k (sortLinkFront hh a (some s)) (some a) (hh.next a) := by
  rw [sortOuter.eq_4]; simp only [hp, decide_true, ↓reduceIte]; rfl

theorem sortOuter_after {fuel0 k : Nat} {cmp : Nat → Nat → Int} {hh : Heap} {s a c : Nat}
    (hp : ¬ cmp s a ≥ 0) (hc : sortInner hh cmp a fuel0 s = .ok c) :
    sortOuter fuel0 cmp (k + 1) hh (some s) (some a) =
      sortOuter fuel0 cmp k (sortLinkAfter hh a c) (some s) (hh.next a) := by
  rw [sortOuter.eq_4]; simp only [hp, decide_false, Bool.false_eq_true, ↓reduceIte, hc]; rfl

/-! ### the outer loop -/

theorem sortOuter_spec {h0 : Heap} {cmp : Nat → Nat → Int} {l : List Nat} {fuel0 : Nat} :
    ∀ (rest : List Nat) (fuel : Nat) (hh : Heap) (acc : List Nat),
      SortInv h0 hh l acc rest → (acc ++ rest).Nodup → (∀ x, x ∈ acc ∨ x ∈ rest → x ∈ l) →
      rest.length < fuel → acc.length + rest.length ≤ fuel0 →
      ∃ hh', sortOuter fuel0 cmp fuel hh acc.head? rest.head? =
          .ok (hh', (rest.foldl (fun acc x => sortIns cmp x acc) acc).head?) ∧
        SortInv h0 hh' l (rest.foldl (fun acc x => sortIns cmp x acc) acc) [] := by
  intro rest
  induction rest with
  | nil =>
    intro fuel hh acc I _ _ _ _
    refine ⟨hh, ?_, I⟩
    cases fuel <;> simp [sortOuter]
  | cons a t ih =>
    intro fuel hh acc I nd sub hf hf0
    cases fuel with
    | zero => simp at hf
    | succ k =>
      have nda := (List.nodup_append.1 nd)
      have ndacc : acc.Nodup := nda.1
      have ndat := List.nodup_cons.1 nda.2.1
      have haacc : a ∉ acc := fun hm => nda.2.2 a hm a (by simp) rfl
      have hna : hh.next a = t.head? := by rw [I.restN a (by simp)]; simp [nextIn]
      -- what the recursive call needs, for the new chain `sortIns cmp a acc`
      have ndnew : (sortIns cmp a acc ++ t).Nodup := by
        rw [List.nodup_append]
        refine ⟨nodup_sortIns ndacc haacc, ndat.2, ?_⟩
        intro x hx y hy e
        subst e
        rcases mem_sortIns.1 hx with h1 | h1
        · exact ndat.1 (h1 ▸ hy)
        · exact nda.2.2 x h1 x (by simp [hy]) rfl
      have subnew : ∀ x, x ∈ sortIns cmp a acc ∨ x ∈ t → x ∈ l := by
        intro x hx
        rcases hx with h1 | h1
        · rcases mem_sortIns.1 h1 with h2 | h2
          · exact sub x (Or.inr (by simp [h2]))
          · exact sub x (Or.inl h2)
        · exact sub x (Or.inr (by simp [h1]))
      have hlen : (sortIns cmp a acc).length + t.length ≤ fuel0 := by
        rw [length_sortIns]; simp only [List.length_cons] at hf0; omega
      have hk : t.length < k := by simpa using hf
      simp only [List.foldl_cons, List.head?_cons]
      -- continue with the induction hypothesis once the step is known to yield a good heap
      have finish : ∀ (hh1 : Heap) (sorted' : Option Nat),
          SortInv h0 hh1 l (sortIns cmp a acc) t → sorted' = (sortIns cmp a acc).head? →
          ∃ hh', sortOuter fuel0 cmp k hh1 sorted' t.head? =
              .ok (hh', (t.foldl (fun acc x => sortIns cmp x acc) (sortIns cmp a acc)).head?) ∧
            SortInv h0 hh' l (t.foldl (fun acc x => sortIns cmp x acc) (sortIns cmp a acc)) [] := by
        intro hh1 sorted' I1 es
        subst es
        exact ih k hh1 (sortIns cmp a acc) I1 ndnew subnew hk hlen
      cases hacc : acc with
      | nil =>
        subst hacc
        rw [List.head?_nil, sortOuter_front_nil, hna]
        apply finish
        · have := sort_link (hh1 := sortLinkFront hh a none)
            (ref := none) I nd sub (by simp) slf_parent slf_first slf_last slf_count
            (by intro x; rw [slf_next]; simp [prevOf]) (by intro x; rw [slf_prev]; simp [prevOf])
          simpa [insBeforeOpt, sortIns] using this
        · simp [sortIns]
      | cons s acc' =>
        subst hacc
        by_cases hge : cmp s a < 0
        · -- walk along the chain
          have hnge : ¬ (cmp s a ≥ 0) := by omega
          obtain ⟨c, ec, hcm, hsi⟩ := sortInner_spec (hh := hh) (cmp := cmp) (a := a) ndacc I.accN acc' [] s fuel0 rfl
            (by simp only [List.length_cons] at hf0; omega) hge (by simp)
          have hca : c ≠ a := fun e => haacc (e ▸ hcm)
          have hnc : hh.next c = nextIn (s :: acc') c := I.accN c hcm
          rw [List.head?_cons, sortOuter_after hnge ec, hna]
          apply finish
          · rw [hsi]
            apply sort_link (ref := nextIn (s :: acc') c) I nd sub (fun d hd => (nextIn_mem hd).2)
              sla_parent sla_first sla_last sla_count
            · intro x
              have hpo : ∀ y, prevOf (s :: acc') (nextIn (s :: acc') c) = some y ↔ y = c := by
                intro y
                cases hnx : nextIn (s :: acc') c with
                | none =>
                  simp only [prevOf]
                  rw [((nextIn_none_iff ndacc hcm).1 hnx)]
                  constructor
                  · intro e; exact (Option.some.inj e).symm
                  · intro e; rw [e]
                | some d =>
                  simp only [prevOf]
                  rw [((next_prev ndacc).1 hnx)]
                  constructor
                  · intro e; exact (Option.some.inj e).symm
                  · intro e; rw [e]
              rw [sla_next hca]
              simp only [hpo, hnc]
              by_cases hxc : x = c
              · simp [hxc, hca]
              · simp [hxc]
            · intro x
              have hpo : prevOf (s :: acc') (nextIn (s :: acc') c) = some c := by
                cases hnx : nextIn (s :: acc') c with
                | none => simp only [prevOf]; exact (nextIn_none_iff ndacc hcm).1 hnx
                | some d => simp only [prevOf]; exact (next_prev ndacc).1 hnx
              rw [sla_prev hca]
              simp only [hpo, hnc]
              by_cases hxa : x = a
              · subst hxa
                have : nextIn (s :: acc') c ≠ some x := fun e => haacc ((nextIn_mem e).2)
                simp [this]
              · simp [hxa]
          · simp [sortIns, hge]
        · -- put in front
          have hge' : cmp s a ≥ 0 := by omega
          have hsa : s ≠ a := fun e => haacc (by simp [e])
          rw [List.head?_cons, sortOuter_front hge', hna]
          apply finish
          · have := sort_link (hh1 := sortLinkFront hh a (some s))
              (ref := some s) I nd sub (by intro d hd; simp [← Option.some.inj hd])
              slf_parent slf_first slf_last slf_count
              (by intro x; rw [slf_next]; simp [prevOf, prevIn_head ndacc])
              (by intro x; rw [slf_prev]; simp [prevOf, prevIn_head ndacc])
            simpa [insBeforeOpt, insBefore, sortIns, hge] using this
          · simp [sortIns, hge]


/-! ### the final loop recomputes lastChild -/

theorem sortLast_spec (p : Nat) : ∀ (rest : List Nat) (fuel : Nat) (hh : Heap), rest.Nodup →
    (∀ x ∈ rest, hh.next x = nextIn rest x) → rest.length < fuel →
    ∃ h', sortLast p fuel hh rest.head? = .ok h' ∧
      h'.parent = hh.parent ∧ h'.first = hh.first ∧ h'.next = hh.next ∧ h'.prev = hh.prev ∧
      h'.count = hh.count ∧
      ∀ q, h'.last q = if q = p then (rest.getLast?).or (hh.last p) else hh.last q := by
  intro rest
  induction rest with
  | nil =>
    intro fuel hh _ _ _
    refine ⟨hh, by cases fuel <;> simp [sortLast], rfl, rfl, rfl, rfl, rfl, ?_⟩
    intro q; by_cases hq : q = p <;> simp [hq]
  | cons a t ih =>
    intro fuel hh nd hn hf
    cases fuel with
    | zero => simp at hf
    | succ k =>
      have nda := List.nodup_cons.1 nd
      have hna : hh.next a = t.head? := by rw [hn a (by simp)]; simp [nextIn]
      obtain ⟨h', e, f1, f2, f3, f4, f5, f6⟩ := ih k { hh with last := set hh.last p (some a) } nda.2
        (by
          intro x hx
          have hax : a ≠ x := fun e => nda.1 (e ▸ hx)
          show hh.next x = _
          rw [hn x (by simp [hx])]; simp [nextIn, hax])
        (by simpa using hf)
      refine ⟨h', ?_, f1, f2, f3, f4, f5, ?_⟩
      · simp only [List.head?_cons, sortLast, hna]; exact e
      · intro q
        rw [f6]
        by_cases hq : q = p
        · simp only [hq, ↓reduceIte, set_apply]
          cases t with
          | nil => simp
          | cons b u =>
            have : ∃ z, (b :: u).getLast? = some z := by
              cases hg : (b :: u).getLast? with
              | none => simp at hg
              | some z => exact ⟨z, rfl⟩
            obtain ⟨z, hz⟩ := this
            simp [List.getLast?_cons_cons, hz]
        · simp [hq]

/-! ### SortChildren refines `sortList` -/

theorem sortChildren_abs {h : Heap} {f : Forest} (A : Abs h f) (p : Nat) (cmp : Nat → Nat → Int)
    {fuel : Nat} (hf : (f p).length < fuel) :
    ∃ h', sortChildren fuel h p cmp = .ok h' ∧ Abs h' (upd f p (sortList cmp (f p))) := by
  have I0 : SortInv h h (f p) [] (f p) :=
    ⟨rfl, rfl, rfl, rfl, by simp, by simp, fun x hx => A.next x p hx, fun _ _ => rfl, fun _ _ => rfl⟩
  obtain ⟨hh, e1, I⟩ := sortOuter_spec (h0 := h) (cmp := cmp) (l := f p) (fuel0 := fuel) (f p) fuel h []
    I0 (by simpa using A.nodup p) (by intro x hx; simpa using hx) hf (by simp; omega)
  have hL : (f p).foldl (fun acc x => sortIns cmp x acc) [] = sortList cmp (f p) := rfl
  rw [hL] at e1 I
  have perm := perm_sortList cmp (f p)
  have ndL : (sortList cmp (f p)).Nodup := perm.nodup_iff.2 (A.nodup p)
  have memL : ∀ x, x ∈ sortList cmp (f p) ↔ x ∈ f p := fun x => perm.mem_iff
  obtain ⟨h3, e3, g1, g2, g3, g4, g5, g6⟩ := sortLast_spec p (sortList cmp (f p)) fuel
    { hh with first := set hh.first p (sortList cmp (f p)).head? } ndL
    (fun x hx => I.accN x hx) (by rw [perm.length_eq]; exact hf)
  refine ⟨h3, ?_, ?_⟩
  · simp only [sortChildren]
    simp only [List.head?_nil] at e1
    rw [A.first, e1]
    simp only [set_apply, ↓reduceIte]
    exact e3
  · constructor
    · intro q
      by_cases hq : q = p
      · subst hq; simpa [upd] using ndL
      · simpa [upd, hq] using A.nodup q
    · intro q
      rw [g2]
      by_cases hq : q = p
      · subst hq; simp [upd]
      · simp [upd, hq, I.fst, A.first]
    · intro q
      rw [g6]
      by_cases hq : q = p
      · subst hq
        simp only [upd, ↓reduceIte]
        cases hg : (sortList cmp (f q)).getLast? with
        | some z => simp
        | none =>
          have hnil : sortList cmp (f q) = [] := List.getLast?_eq_none_iff.1 hg
          have : f q = [] := by
            have := perm.length_eq; rw [hnil] at this
            exact List.eq_nil_of_length_eq_zero this.symm
          simp [I.lst, A.last, this]
      · simp [upd, hq, I.lst, A.last]
    · intro q
      rw [g5]
      by_cases hq : q = p
      · subst hq; simp [upd, I.cnt, A.count, perm.length_eq]
      · simp [upd, hq, I.cnt, A.count]
    · intro x q
      rw [g1]
      by_cases hq : q = p
      · subst hq; simp [upd, I.par, A.parent, memL]
      · simp [upd, hq, I.par, A.parent]
    · intro x q hxq
      rw [g3]
      by_cases hq : q = p
      · subst hq
        simp only [upd, ↓reduceIte] at hxq ⊢
        exact I.accN x hxq
      · simp only [upd, hq, ↓reduceIte] at hxq ⊢
        have : x ∉ f p := fun hm => hq (A.disjoint hxq hm)
        show hh.next x = _
        rw [I.outN x this]; exact A.next x q hxq
    · intro x q hxq
      rw [g4]
      by_cases hq : q = p
      · subst hq
        simp only [upd, ↓reduceIte] at hxq ⊢
        exact I.accP x hxq
      · simp only [upd, hq, ↓reduceIte] at hxq ⊢
        have : x ∉ f p := fun hm => hq (A.disjoint hxq hm)
        show hh.prev x = _
        rw [I.outP x this]; exact A.prev x q hxq
    · intro x hx
      rw [g1] at hx
      have hx' : h.parent x = none := by rw [← I.par]; exact hx
      have : x ∉ f p := A.not_mem_of_orphan hx' p
      rw [g3, g4]
      show hh.next x = none ∧ hh.prev x = none
      rw [I.outN x this, I.outP x this]
      exact A.orphan x hx'

end GM.Proof.AstHeap
