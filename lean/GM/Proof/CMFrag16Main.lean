/-
  GM.Proof.CMFrag16Main — stage 16: paragraphs whose lines contain inline links; the phases composed.
-/
import GM.Proof.CMFragParas
import GM.Proof.CMFrag8Main
import GM.Proof.CMFrag16Inl
import GM.Proof.CMFragRender16
import GM.Proof.CMFragSpec16

namespace GM.Proof.CMFrag
open GM GM.Text GM.Blocks GM.Spec GM.Spec.CM GM.Spec.CMFrag

theorem dest_ne_lf16 : ∀ c : UInt8, isDestC16 c = true → c ≠ 10 := by
  exact GM.forall_uint8 _ (by decide +kernel)

theorem latomSrc_noNl (a : LAtom) (h : LAtomOK a) : ∀ c ∈ latomSrc a, c ≠ 10 := by
  cases a with
  | txt bs => exact quiet_no_nl bs 0 false (h.2.1 0)
  | link t d =>
    intro c hc
    simp only [latomSrc, List.mem_append, List.mem_cons, List.not_mem_nil, or_false] at hc
    rcases hc with (((rfl | hc) | (rfl | rfl)) | hc) | rfl
    · decide
    · exact alnum_ne_lf8 c (h.1.2 c hc)
    · decide
    · decide
    · exact dest_ne_lf16 c (h.2.2 c hc)
    · decide

theorem llineSrc_append (a b : List LAtom) : llineSrc (a ++ b) = llineSrc a ++ llineSrc b := by
  simp [llineSrc]

/-- a rich line is good for the block phase -/
theorem lrichLine_blk {l : List LAtom} (h : LRichLine l) : BlkLine (llineSrc l) := by
  refine ⟨?_, ?_, ?_⟩
  · obtain ⟨bs, rest, e, hf⟩ := h.first
    have hok := h.ok (.txt bs) (by rw [e]; simp)
    cases bs with
    | nil => exact absurd rfl hok.1
    | cons c t =>
      exact ⟨c, t ++ llineSrc rest, by rw [e]; simp [llineSrc, latomSrc], hf c rfl⟩
  · obtain ⟨init, bs, e, hl⟩ := h.last
    have hok := h.ok (.txt bs) (by rw [e]; simp)
    intro c hc
    have e2 : llineSrc l = llineSrc init ++ bs := by rw [e, llineSrc_append]; simp [llineSrc, latomSrc]
    rw [e2, List.getLast?_append] at hc
    cases hb : bs.getLast? with
    | none => exact absurd (List.getLast?_eq_none_iff.mp hb) hok.1
    | some z =>
      rw [hb] at hc
      have hc' : z = c := by simpa using hc
      subst hc'
      exact (hl z hb).1
  · intro c hc
    simp only [llineSrc, List.mem_flatMap] at hc
    obtain ⟨a, ha, hca⟩ := hc
    exact latomSrc_noNl a (h.ok a ha) c hca

/-- the paragraphs of a stage-16 document as byte lines with the extra blank lines in front -/
def itemsOfL (d : LDoc) : List (Nat × List Bytes) :=
  d.items.map fun it => (it.gap, (it.lines.map (·.map latomOfS)).map llineSrc)

theorem spellLItems_raw : ∀ (first : Bool) (its : List LItem) (trail : Nat),
    spellLItems first its ++ GM.Spec.CMFrag.blanks trail =
      rawDoc6 (paraItems first (its.map fun it => (it.gap, (it.lines.map (·.map latomOfS)).map llineSrc))) trail
  | _, [], _ => by simp [spellLItems, paraItems, rawDoc6, blanks_eq]
  | first, it :: rest, trail => by
    have ih := spellLItems_raw false rest trail
    have e : it.lines.flatMap (fun l => spellLLine l ++ [10]) =
        paraBytes ((it.lines.map (·.map latomOfS)).map llineSrc) := by
      simp [paraBytes, List.flatMap_map, llineSrc_latomOfS16]
    simp only [spellLItems, List.map_cons, paraItems, rawDoc6, lines5, lines4, List.append_assoc, ih, e, blanks_eq]

theorem spellL_raw (d : LDoc) : spellL d = rawDoc6 (paraItems true (itemsOfL d)) d.trail :=
  spellLItems_raw true d.items d.trail

theorem lfrag_items (d : LDoc) (h : LFrag d) : ∀ it ∈ d.items, litemOKS it = true := by
  have := h; simp only [LFrag, lfragB, List.all_eq_true] at this; exact this

theorem litem_rich (it : LItem) (h : litemOKS it = true) : ∀ l ∈ it.lines.map (·.map latomOfS), LRichLine l := by
  intro l hl
  obtain ⟨r, hr, rfl⟩ := List.mem_map.mp hl
  exact lrichLine_latomOfS16 r ((litemOKS_lines16 it h).2 r hr)

theorem itemsOfL_blk (d : LDoc) (h : LFrag d) : ∀ it ∈ itemsOfL d, it.2 ≠ [] ∧ ∀ l ∈ it.2, BlkLine l := by
  intro x hx
  obtain ⟨it, hit, rfl⟩ := List.mem_map.mp hx
  have hok := lfrag_items d h it hit
  refine ⟨by simpa using (litemOKS_lines16 it hok).1, ?_⟩
  intro l hl
  obtain ⟨y, hy, rfl⟩ := List.mem_map.mp hl
  exact lrichLine_blk (litem_rich it hok y hy)

theorem parasDT_L (env : GM.Inl.Env) (henv : env.escapedSpace = false) : ∀ (its : List LItem),
    (∀ it ∈ its, litemOKS it = true) →
    ParasDT env (its.map fun it => (it.gap, (it.lines.map (·.map latomOfS)).map llineSrc))
      ((its.map fun it => it.lines.map (·.map latomOfS)).map lrichNodes)
  | [], _ => trivial
  | it :: rest, h => by
    have hok := litem_rich it (h it (by simp))
    have hne : it.lines.map (·.map latomOfS) ≠ [] := by simpa using (litemOKS_lines16 it (h it (by simp))).1
    exact ⟨⟨fun p => richKids16 p (it.lines.map (·.map latomOfS)),
        fun src p hl => parseBlock_rich16 env henv src p _ hne hok hl,
        fun src p hl => inlineTrees_rich16 src p _ hok hl⟩,
      parasDT_L env henv rest (fun x hx => h x (by simp [hx]))⟩

/-- **the conformance theorem of the stage-16 fragment** -/
theorem fragment16_conforms (d : LDoc) (h : LFrag d) (uc : List (Nat × (Bool × Bool))) :
    GM.Convert.convertCore uc cmOpts (spellL d) = .ok (expectedL d) := by
  rw [spellL_raw]
  refine convert_paras_gen uc (itemsOfL d) d.trail ((atomsOfL d).map lrichNodes) (expectedL d) (itemsOfL_blk d h)
    (fun env henv => parasDT_L env henv d.items (lfrag_items d h)) ?_
  have := renderDoc_expectedL16 d h
  simpa [List.map_map, Function.comp_def] using this

/-- the stage-16 document without its final line feed -/
theorem fragment16_conforms_nofinal (d : LDoc) (h : LFrag d) (hne : d.items ≠ []) (uc : List (Nat × (Bool × Bool))) :
    GM.Convert.convertCore uc cmOpts (rawDoc6E (paraItems true (itemsOfL d))) = .ok (expectedL d) := by
  refine convert_paras_genE uc (itemsOfL d) (by simpa [itemsOfL] using hne) ((atomsOfL d).map lrichNodes) (expectedL d)
    (itemsOfL_blk d h) (fun env henv => parasDT_L env henv d.items (lfrag_items d h)) ?_
  have := renderDoc_expectedL16 d h
  simpa [List.map_map, Function.comp_def] using this

end GM.Proof.CMFrag
