/-
  GM.Proof.QuoteSimInvL — the unary store invariant of GM.Proof.QuoteSimInv WITHOUT the clause "no node is a List /
  ListItem": `UStoreL nodes`: the store is not empty, node 0 (the Document) has no lines, node 0 is nobody's child.
  Kept by `Open` / `Continue` / `Close` of ALL ten block parsers (`usL_bpOpen`, `usL_bpContinue`, `usL_bpClose`; no
  hypothesis `bp.notList = true`), in particular by `listParser.Close`, which appends TextBlock nodes (fresh ids, never
  0) and replaces Paragraph children by them (`replaceChild` never inserts node 0).

  The calculus is the one of GM.Proof.QuoteSimInv with the kind obligations dropped: `USL`, tactic `ukL`.
-/
import GM.Proof.QuoteSimInvP

namespace GM.Blocks
open GM GM.Text

structure UNodeL (n : Node) : Prop where
  kids : 0 ∉ n.children

structure UStoreL (nodes : List Node) : Prop where
  pos : 0 < nodes.length
  doc : (nodes.getD 0 default).lines = []
  node : ∀ n ∈ nodes, UNodeL n

theorem UNode.toL {n : Node} (h : UNode n) : UNodeL n := ⟨h.kids⟩

theorem UStore.toL {nodes : List Node} (h : UStore nodes) : UStoreL nodes :=
  ⟨h.pos, h.doc, fun n hn => (h.node n hn).toL⟩

theorem ustore_of_L {nodes : List Node} (h : UStoreL nodes)
    (hk : ∀ n ∈ nodes, n.kind ≠ .list ∧ n.kind ≠ .listItem) : UStore nodes :=
  ⟨h.pos, h.doc, fun n hn => ⟨hk n hn, (h.node n hn).kids⟩⟩

/-- the invariant as a state predicate -/
def USL : St → Prop := fun s => UStoreL s.nodes

theorem unodeL_default : UNodeL (default : Node) := ⟨by intro h; cases h⟩

theorem UStoreL.getD {nodes : List Node} (h : UStoreL nodes) (i : Nat) : UNodeL (nodes.getD i default) := by
  rw [List.getD_eq_getElem?_getD]
  cases hg : nodes[i]? with
  | none => exact unodeL_default
  | some n => exact h.node n (List.mem_of_getElem? hg)

theorem usL_noR : NoR USL := ⟨fun _ _ hs => hs⟩

theorem usL_modPc (f : Ctx → Ctx) : Keeps USL (modPc f) := by
  intro s a s' hs h; cases h; exact hs

/-- `modNode id f`: `f` keeps `UNodeL`; the Document's lines are not touched -/
theorem usL_modNode (id : Nat) (f : Node → Node) (hf : ∀ n, UNodeL n → UNodeL (f n))
    (h0 : id = 0 → ∀ n, (f n).lines = n.lines) : Keeps USL (modNode id f) := by
  intro s a s' hs h
  cases h
  show UStoreL (s.nodes.set id (f (s.nodes.getD id default)))
  refine ⟨by simpa using hs.pos, ?_, ?_⟩
  · rw [List.getD_eq_getElem?_getD, List.getElem?_set]
    by_cases hid : id = 0
    · subst hid
      simp only [if_true]
      have hp := hs.pos
      rw [if_pos hp]
      simp only [Option.getD_some]
      rw [h0 rfl]; exact hs.doc
    · rw [if_neg hid]
      have := hs.doc
      rw [List.getD_eq_getElem?_getD] at this
      exact this
  · intro n hn
    rcases List.mem_or_eq_of_mem_set hn with h | h
    · exact hs.node n h
    · rw [h]; exact hf _ (hs.getD id)

theorem usL_appendLine (id : Nat) (seg : Segment) (h : id ≠ 0) : Keeps USL (appendLine id seg) :=
  usL_modNode id _ (fun _ hn => ⟨hn.kids⟩) (fun e => absurd e h)

theorem usL_newNode_st {n : Node} (hn : UNodeL n) {s : St} (hs : USL s) : USL { s with nodes := s.nodes ++ [n] } := by
  refine ⟨by simp, ?_, ?_⟩
  · show ((s.nodes ++ [n]).getD 0 default).lines = []
    rw [List.getD_eq_getElem?_getD, List.getElem?_append_left hs.pos]
    have := hs.doc
    rw [List.getD_eq_getElem?_getD] at this
    exact this
  · intro m hm
    rcases List.mem_append.mp hm with h | h
    · exact hs.node m h
    · simp only [List.mem_singleton] at h; rw [h]; exact hn

/-- `newNode n >>= f`: the fresh id is not 0 -/
theorem usL_newNode_bind {β} (n : Node) (f : Nat → M β) (hn : UNodeL n) (hf : ∀ id, id ≠ 0 → Keeps USL (f id)) :
    Keeps USL (newNode n >>= f) := by
  intro s b s' hs h
  have e : newNode n s = .ok (s.nodes.length, { s with nodes := s.nodes ++ [n] }) := rfl
  change StateT.bind (newNode n) f s = _ at h
  unfold StateT.bind at h
  rw [e] at h
  exact hf s.nodes.length (by have := hs.pos; omega) _ b s' (usL_newNode_st hn hs) h

theorem usL_newNode (n : Node) (hn : UNodeL n) : Keeps USL (newNode n) := by
  intro s a s' hs h; cases h; exact usL_newNode_st hn hs

/-- a freshly built node without children -/
theorem unodeL_new (n : Node) (h3 : n.children = []) : UNodeL n :=
  ⟨by rw [h3]; intro h; cases h⟩

/-- side conditions of the store rules -/
macro "ukL_side" : tactic =>
  `(tactic| first
    | assumption
    | (intro n hn; exact ⟨hn.kids⟩)
    | (intro e; exact absurd e (by assumption))
    | (intro _ n; rfl)
    | (apply unodeL_new; rfl)
    | omega)

macro "ukL_step" : tactic =>
  `(tactic| first
    | with_reducible apply Keeps.pure
    | ((with_reducible apply usL_newNode_bind) <;> (first | ukL_side | (intro_pi; intro_pi)))
    | with_reducible apply Keeps.bind
    | with_reducible apply Keeps.ite
    | with_reducible apply Keeps.throw
    | with_reducible apply getNode_keeps
    | with_reducible apply getPc_keeps
    | with_reducible apply source_keeps
    | with_reducible apply position_keeps
    | with_reducible apply get_keeps
    | with_reducible apply liftE_keeps
    | with_reducible apply lastOpenedBlock_keeps
    | (with_reducible apply peekLine_keeps; exact usL_noR)
    | (with_reducible apply lineOffset_keeps; exact usL_noR)
    | (with_reducible apply advance_keeps; exact usL_noR)
    | (with_reducible apply advanceAndSetPadding_keeps; exact usL_noR)
    | (with_reducible apply advanceLine_keeps; exact usL_noR)
    | (with_reducible apply setPosition_keeps; exact usL_noR)
    | (with_reducible apply skipBlankLinesR_keeps; exact usL_noR)
    | with_reducible apply usL_modPc
    | ((with_reducible apply usL_appendLine); ukL_side)
    | ((with_reducible apply usL_modNode) <;> ukL_side)
    | ((with_reducible apply usL_newNode); ukL_side)
    | apply_hyp
    | intro_pi
    | split)

/-- walk over an `M` do block -/
macro "ukL" : tactic => `(tactic| repeat' ukL_step)

/-! ### tree operations -/

theorem usL_removeChild (p c : Nat) : Keeps USL (removeChild p c) := by
  unfold removeChild
  refine Keeps.bind (getNode_keeps _) (fun cn => Keeps.ite (fun _ => Keeps.pure _) (fun _ => ?_))
  refine Keeps.bind (usL_modNode p _ (fun n hn => ⟨fun h => hn.kids (List.mem_of_mem_erase h)⟩) (fun _ _ => rfl))
    (fun _ => usL_modNode c _ (fun n hn => ⟨hn.kids⟩) (fun _ _ => rfl))

theorem usL_ensureIsolated (c : Nat) : Keeps USL (ensureIsolated c) := by
  have := usL_removeChild
  unfold ensureIsolated; ukL

theorem usL_appendChild (p c : Nat) (hc : c ≠ 0) : Keeps USL (appendChild p c) := by
  unfold appendChild
  refine Keeps.bind (usL_ensureIsolated c) (fun _ => ?_)
  refine Keeps.bind (usL_modNode p _ (fun n hn => ⟨fun h => ?_⟩) (fun _ _ => rfl))
    (fun _ => usL_modNode c _ (fun n hn => ⟨hn.kids⟩) (fun _ _ => rfl))
  rcases List.mem_append.mp h with h | h
  · exact hn.kids h
  · simp only [List.mem_singleton] at h; exact hc h.symm

theorem usL_insertBefore (p : Nat) (v1 : Option Nat) (ins : Nat) (hi : ins ≠ 0) :
    Keeps USL (insertBefore p v1 ins) := by
  unfold insertBefore
  split
  · exact usL_appendChild p ins hi
  · refine Keeps.bind (getNode_keeps _) (fun vn => Keeps.ite (fun _ => usL_appendChild p ins hi) (fun _ => ?_))
    refine Keeps.bind (usL_ensureIsolated ins) (fun _ => ?_)
    refine Keeps.bind (usL_modNode p _ (fun n hn => ⟨fun h => ?_⟩) (fun _ _ => rfl))
      (fun _ => usL_modNode ins _ (fun n hn => ⟨hn.kids⟩) (fun _ _ => rfl))
    rcases qs_mem_insertBeforeIn h with h | h
    · exact hi h.symm
    · exact hn.kids h

theorem usL_nextSibling (c : Nat) : Keeps USL (nextSibling c) := by
  unfold nextSibling; ukL

theorem usL_insertAfter (p : Nat) (v1 : Option Nat) (ins : Nat) (hi : ins ≠ 0) :
    Keeps USL (insertAfter p v1 ins) := by
  have h1 := usL_nextSibling
  have h2 := fun v => usL_insertBefore p v ins hi
  have h3 := usL_appendChild p ins hi
  unfold insertAfter; ukL

theorem usL_replaceChild (p v1 ins : Nat) (hi : ins ≠ 0) : Keeps USL (replaceChild p v1 ins) := by
  unfold replaceChild
  exact Keeps.bind (usL_insertBefore p (some v1) ins hi) (fun _ => usL_removeChild p v1)

/-- the next sibling of a node is a child of some node, hence not node 0 -/
theorem nextSibling_ne0L {c : Nat} {s s' : St} {nx : Nat} (hs : USL s) (h : nextSibling c s = .ok (some nx, s')) :
    nx ≠ 0 := by
  unfold nextSibling at h
  obtain ⟨cn, s1, e1, h⟩ := bind_inv_u h
  cases e1
  cases hp : (s.nodes.getD c default).parent with
  | none => rw [hp] at h; cases h
  | some p =>
    rw [hp] at h
    obtain ⟨pn, s2, e2, h⟩ := bind_inv_u h
    cases e2
    have hnx : nextIn c (s.nodes.getD p default).children = some nx := by
      have h' : (Except.ok (nextIn c (s.nodes.getD p default).children, s) : Except Panic (Option Nat × St)) =
          .ok (some nx, s') := h
      simp only [Except.ok.injEq, Prod.mk.injEq] at h'
      exact h'.1
    intro e
    subst e
    exact (hs.getD p).kids (mem_nextIn hnx)

/-! ### the eight parsers that are not list parsers (as in GM.Proof.QuoteSimInvP) -/

theorem usL_preserveLeadingTab (seg : Segment) (ind : Int) : Keeps USL (preserveLeadingTab seg ind) := by
  unfold preserveLeadingTab; ukL

theorem usL_paragraphOpen (p : Nat) : Keeps USL (paragraphOpen p) := by
  unfold paragraphOpen; ukL

theorem usL_paragraphContinue (n : Nat) (hn0 : n ≠ 0) : Keeps USL (paragraphContinue n) := by
  unfold paragraphContinue; ukL

theorem usL_paragraphClose (n : Nat) (hn0 : n ≠ 0) : Keeps USL (paragraphClose n) := by
  have := usL_removeChild
  unfold paragraphClose; ukL

theorem usL_thematicOpen (p : Nat) : Keeps USL (thematicOpen p) := by
  unfold thematicOpen; ukL

theorem usL_atxOpen (p : Nat) : Keeps USL (atxOpen p) := by
  unfold atxOpen; ukL

theorem usL_setextOpen (p : Nat) : Keeps USL (setextOpen p) := by
  unfold setextOpen; ukL

theorem usL_codeTakeLine (n : Nat) (pos padding : Int) (hn0 : n ≠ 0) : Keeps USL (codeTakeLine n pos padding) := by
  have := usL_preserveLeadingTab
  unfold codeTakeLine; ukL

theorem usL_codeOpen (p : Nat) : Keeps USL (codeOpen p) := by
  have := usL_codeTakeLine
  unfold codeOpen; ukL

theorem usL_codeContinue (n : Nat) (hn0 : n ≠ 0) : Keeps USL (codeContinue n) := by
  have := usL_codeTakeLine
  unfold codeContinue; ukL

theorem usL_codeClose (n : Nat) (hn0 : n ≠ 0) : Keeps USL (codeClose n) := by
  unfold codeClose; ukL

theorem usL_fencedOpen (p : Nat) : Keeps USL (fencedOpen p) := by
  unfold fencedOpen; ukL

theorem usL_fencedContinue (n : Nat) (hn0 : n ≠ 0) : Keeps USL (fencedContinue n) := by
  have := usL_preserveLeadingTab
  unfold fencedContinue; ukL

theorem usL_fencedClose (n : Nat) : Keeps USL (fencedClose n) := by
  unfold fencedClose; ukL

theorem usL_blockquoteProcess : Keeps USL blockquoteProcess := by
  unfold blockquoteProcess; ukL

theorem usL_blockquoteOpen (p : Nat) : Keeps USL (blockquoteOpen p) := by
  have := usL_blockquoteProcess
  unfold blockquoteOpen; ukL

theorem usL_blockquoteContinue (n : Nat) : Keeps USL (blockquoteContinue n) := by
  have := usL_blockquoteProcess
  unfold blockquoteContinue; ukL

theorem usL_htmlOpen (p : Nat) : Keeps USL (htmlOpen p) := by
  unfold htmlOpen; ukL

theorem usL_htmlContinue (n : Nat) (hn0 : n ≠ 0) : Keeps USL (htmlContinue n) := by
  unfold htmlContinue; ukL

theorem usL_nextSibling_bind {β} (c : Nat) (f : Option Nat → M β) (hnone : Keeps USL (f none))
    (hsome : ∀ nx, nx ≠ 0 → Keeps USL (f (some nx))) : Keeps USL (nextSibling c >>= f) := by
  refine Keeps.bind_of (usL_nextSibling c) (fun a ha => ?_)
  obtain ⟨s, s', hs, hm⟩ := ha
  cases a with
  | none => exact hnone
  | some nx => exact hsome nx (nextSibling_ne0L hs hm)

theorem usL_setextClose (n : Nat) (hn0 : n ≠ 0) : Keeps USL (setextClose n) := by
  have h1 := usL_removeChild
  have h2 := usL_insertAfter
  unfold setextClose
  repeat' (first
    | ((with_reducible apply usL_nextSibling_bind) <;> (first | (intro_pi; intro_pi) | skip))
    | ukL_step
    | (exfalso; contradiction)
    | (refine usL_modNode _ _ (fun n hn => ⟨hn.kids⟩) (fun e => ?_); exfalso; simp_all; done))

/-! ### the two list parsers -/

theorem usL_lastOffset (n : Nat) : Keeps USL (lastOffset n) := by
  unfold lastOffset; ukL

theorem usL_lastChildCount (n : Nat) : Keeps USL (lastChildCount n) := by
  unfold lastChildCount; ukL

/-- `listParser.Open`: the List node is fresh and has no children -/
theorem usL_listOpen (p : Nat) : Keeps USL (listOpen p) := by
  unfold listOpen; ukL

theorem usL_listContinue (n : Nat) : Keeps USL (listContinue n) := by
  have := usL_lastOffset
  have := usL_lastChildCount
  unfold listContinue; ukL

/-- list.go:268-276: the TextBlock is a fresh node (its id is not 0; it has no children), `replaceChild` puts it in
    the place of the Paragraph -/
theorem usL_tightenItem (child : Nat) : ∀ gcs : List Nat, Keeps USL (tightenItem child gcs) := by
  have := usL_replaceChild
  intro gcs
  induction gcs with
  | nil => unfold tightenItem; exact Keeps.pure _
  | cons gc gcs ih => unfold tightenItem; ukL

theorem usL_tightenItems : ∀ cs : List Nat, Keeps USL (tightenItems cs) := by
  have := usL_tightenItem
  intro cs
  induction cs with
  | nil => unfold tightenItems; exact Keeps.pure _
  | cons c cs ih => unfold tightenItems; ukL

/-- `listParser.Close`: sets `tight` (no lines, no children touched), then `tightenItems`. No condition on `n`. -/
theorem usL_listClose (n : Nat) : Keeps USL (listClose n) := by
  have := usL_tightenItems
  unfold listClose; ukL

/-- `listItemParser.Open`: the ListItem node is fresh and has no children -/
theorem usL_listItemOpen (p : Nat) : Keeps USL (listItemOpen p) := by
  have := usL_lastOffset
  unfold listItemOpen; ukL

/-- `listItemParser.Continue` does not write to the store -/
theorem usL_listItemContinue (n : Nat) : Keeps USL (listItemContinue n) := by
  have := usL_lastOffset
  unfold listItemContinue; ukL

/-! ### dispatch: all ten parsers -/

theorem usL_bpOpen (bp : BP) (p : Nat) : Keeps USL (bpOpen bp p) := by
  cases bp <;> unfold bpOpen
  · exact usL_setextOpen p
  · exact usL_thematicOpen p
  · exact usL_listOpen p
  · exact usL_listItemOpen p
  · exact usL_codeOpen p
  · exact usL_atxOpen p
  · exact usL_fencedOpen p
  · exact usL_blockquoteOpen p
  · exact usL_htmlOpen p
  · exact usL_paragraphOpen p

theorem usL_bpContinue (bp : BP) (n : Nat) (hn0 : n ≠ 0) : Keeps USL (bpContinue bp n) := by
  cases bp <;> unfold bpContinue
  · exact Keeps.pure _
  · exact Keeps.pure _
  · exact usL_listContinue n
  · exact usL_listItemContinue n
  · exact usL_codeContinue n hn0
  · exact Keeps.pure _
  · exact usL_fencedContinue n hn0
  · exact usL_blockquoteContinue n
  · exact usL_htmlContinue n hn0
  · exact usL_paragraphContinue n hn0

theorem usL_bpClose (bp : BP) (n : Nat) (hn0 : n ≠ 0) : Keeps USL (bpClose bp n) := by
  cases bp <;> unfold bpClose
  · exact usL_setextClose n hn0
  · exact Keeps.pure _
  · exact usL_listClose n
  · exact Keeps.pure _
  · exact usL_codeClose n hn0
  · exact Keeps.pure _
  · exact usL_fencedClose n
  · exact Keeps.pure _
  · exact Keeps.pure _
  · exact usL_paragraphClose n hn0

/-! the same, spelled out on stores -/

theorem ustoreL_bpOpen (bp : BP) (parent : Nat) (s : St) (a : Option Nat × PState) (s' : St)
    (hu : UStoreL s.nodes) (e : bpOpen bp parent s = .ok (a, s')) : UStoreL s'.nodes :=
  usL_bpOpen bp parent s a s' hu e

theorem ustoreL_bpContinue (bp : BP) (node : Nat) (hn0 : node ≠ 0) (s : St) (a : PState) (s' : St)
    (hu : UStoreL s.nodes) (e : bpContinue bp node s = .ok (a, s')) : UStoreL s'.nodes :=
  usL_bpContinue bp node hn0 s a s' hu e

theorem ustoreL_bpClose (bp : BP) (node : Nat) (hn0 : node ≠ 0) (s : St) (a : Unit) (s' : St)
    (hu : UStoreL s.nodes) (e : bpClose bp node s = .ok (a, s')) : UStoreL s'.nodes :=
  usL_bpClose bp node hn0 s a s' hu e

end GM.Blocks
