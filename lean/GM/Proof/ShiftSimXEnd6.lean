/-
  GM.Proof.ShiftSimXEnd6 — run A's line-boundary invariants (`AU`) survive a pass of the per-line loop and an
  `openBlocks` at the top of the outer loop, for a `Plain6` source that ends with a line feed: `StableL` from the no-panic
  proof, `K` (GM.Proof.ShiftSimAcyc2), `TopLast` / attachment (GM.Proof.ShiftSimXTop7/8), `tl_GP` (ShiftSimXTop5), the
  statistics bound and "never `eof` while there is a line" (ShiftSimXNext).
-/
import GM.Proof.ShiftSimXEnd2
import GM.Proof.ShiftSimXTop5
import GM.Proof.ShiftSimXTop8
import GM.Proof.ShiftSimXNext

namespace GM.Blocks.Xs
open GM GM.Text GM.Spec GM.Proof.Reader GM.Blocks GM.Blocks.L

theorem passKeeps (b : Bytes) (hnl : b.getLast? = some 10) (hpl : Plain6 b)
    (hRIo : ∀ bp, Cov6 bp → ∀ p, Keeps (Sh.lb_RIs b) (bpOpen bp p))
    (hRIc : ∀ bp, Cov6 bp → ∀ n, Keeps (Sh.lb_RIs b) (bpContinue bp n)) :
    PassKeeps b := by
  intro ob s s' bl x hau hop hne hcov hl hsle e
  obtain ⟨c, hri, _⟩ := hl
  have hl' : HasLine b s := ⟨c, hri, by assumption⟩
  -- StableL
  have hst' : StableL b 0 s' := by
    have := lineLoopL (lsp_all b) 0 rfl ob ((ob.length : Int) - 1) rfl ob [] 0 bl s c
      rfl rfl hop hri (hau.pad c hri) hau.st (fun Lb hLb => by simp at hLb)
    obtain ⟨_, _, h⟩ := Sh.okl_ok this e
    exact h
  -- K
  have hk' : Sh.K s' := by
    have hobs : Sh.ObsOK ob s := by
      intro z hz; exact hau.k.opened z (by rw [hop]; exact hz)
    exact (Sh.a2_lineLoop 0 ob ((ob.length : Int) - 1) ob 0 bl s s' x hau.k hau.k.doc.1 hobs (fun z hz => hz) e).1
  -- the stack is not empty
  obtain ⟨b0, rest, rfl⟩ : ∃ b0 rest, ob = b0 :: rest := by
    cases ob with
    | nil => exact absurd rfl hne
    | cons b0 rest => exact ⟨b0, rest, rfl⟩
  have hatt : ∀ z ∈ b0 :: rest, (nd s z.node).parent.isSome = true := by
    intro z hz; exact hau.att z (by rw [hop]; exact hz)
  have htop' := topLast_lineLoop6 b hpl hRIo hRIc b0 rest s s' bl x hau.k hau.top hop hcov ⟨c, hri⟩ hau.st hatt e
  have hgp' := gp_lineLoop (b0 :: rest) s s' bl x hau.gp hau.k hau.st hop e
  have hatt' := att_lineLoop6 b hpl hRIo hRIc b0 rest s s' bl x hau.k hau.top hop hcov ⟨c, hri⟩ hau.st hatt e
  obtain ⟨hnext, hsle'⟩ := lineLoop_next_sle b hnl (b0 :: rest) (((b0 :: rest).length : Int) - 1) hcov (b0 :: rest) 0 bl s s' x
    (fun z hz => hz) (List.cons_ne_nil _ _) hl' hsle e
  exact ⟨⟨hst', hk', htop', hgp', hatt'⟩, hsle', hnext⟩

theorem openKeeps (b : Bytes) (hpl : Plain6 b)
    (hRIo : ∀ bp, Cov6 bp → ∀ p, Keeps (Sh.lb_RIs b) (bpOpen bp p)) : OpenKeeps b := by
  intro blank s s' r hau hop hl e
  obtain ⟨c, hri, _⟩ := hl
  have hst' : StableL b 0 s' := by
    have hcl : Call s.pc.opened [] := ⟨⟨s.pc.opened, by simp, fun _ bb hb => by rw [hop] at hb; cases hb⟩⟩
    have hkroot : (nd s 0).kind ≠ .list := by rw [hau.st.ls.rootKind]; decide
    have hobk := openBlocksL (lsp_all b) [] 0 blank s c hri (hau.pad c hri) hau.st hcl rfl (fun hk => absurd hk hkroot)
    obtain ⟨c2, new2, hria2, _, hw2, hleafy2, _, _, hend2, _⟩ := Sh.okl_ok hobk e
    have hop2 : s'.pc.opened = new2 := by
      rcases hw2.shape with e' | ⟨hh, _, _⟩
      · rw [e', hop]; rfl
      · exact absurd hop hh
    exact ⟨hw2.nodes, hw2.keys, hw2.blocks, by rw [hop2]; exact hleafy2, hw2.ls, by rw [hop2]; simpa using hw2.chain,
      by rw [hop2]; simpa using hend2⟩
  have hk' : Sh.K s' := (Sh.a2_openBlocks 0 blank s s' r hau.k hau.k.doc.1 e).1
  have htop' := topLast_openBlocks0 blank s s' r hau.k hop e
  have hgp' : tl_GP s' := by
    refine gp_openBlocks 0 blank s s' r hau.gp hau.k.doc.1 ?_ e
    have : (nd s 0).kind = .document := hau.k.doc.2.1.2
    rw [this]; rfl
  have hatt' := att_openBlocks0 b hpl hRIo blank s s' r hau.k hop ⟨c, hri⟩ e
  exact ⟨hst', hk', htop', hgp', fun z hz => (hatt' z hz).1⟩

end GM.Blocks.Xs
