/-
  GM.Proof.ShiftSimXEnd6 — run A's line-boundary invariants (`AU`) survive a pass of the per-line loop and an
  `openBlocks` at the top of the outer loop, for a source of the positional class `PlainL` that ends with a line feed: `StableL` from the no-panic
  proof, `K` (GM.Proof.ShiftSimAcyc2), `TopLast` / attachment (GM.Proof.ShiftSimXTop7/8), `tl_GP` (ShiftSimXTop5), the
  statistics bound and "never `eof` while there is a line" (ShiftSimXNext).
-/
import GM.Proof.ShiftSimXEnd2
import GM.Proof.ShiftSimXTop5
import GM.Proof.ShiftSimXTop8
import GM.Proof.ShiftSimXTop9
import GM.Proof.ShiftSimXHcl2
import GM.Proof.ShiftSimXSafe2
import GM.Proof.ShiftSimXRi
import GM.Proof.ShiftSimXNext

namespace GM.Blocks.Xs
open GM GM.Text GM.Spec GM.Proof.Reader GM.Blocks GM.Blocks.L

/-! ### the reader invariant `HL` under the reader-only steps, and the trigger fact -/

theorem hl_peek (b : Bytes) : ∀ (t : St) lp t1, HL b t → peekLine t = .ok (lp, t1) → HL b t1 := by
  intro t lp t1 ⟨⟨c1, hc1, hlt⟩, c2, hc2, hts⟩ h
  unfold GM.Blocks.peekLine at h
  obtain ⟨r1, e1, h1⟩ := ri_peekLine hc1
  obtain ⟨r2, e2, h2⟩ := ri_peekLine hc2
  rw [e1] at h
  simp only [bind, Except.bind, pure, Except.pure, Except.ok.injEq, Prod.mk.injEq] at h
  obtain ⟨_, rfl⟩ := h
  rw [e1] at e2
  simp only [Except.ok.injEq, Prod.mk.injEq] at e2
  obtain ⟨_, rfl⟩ := e2
  exact ⟨⟨c1, h1, hlt⟩, c2, h2, hts⟩

theorem hl_lineOffset (b : Bytes) : Keeps (HL b) lineOffset := by
  intro t a t1 ⟨⟨c1, hc1, hlt⟩, c2, hc2, hts⟩ h
  unfold GM.Blocks.lineOffset at h
  obtain ⟨v1, r1, e1, h1, _⟩ := ri_lineOffset hc1
  obtain ⟨v2, r2, e2, h2, _⟩ := ri_lineOffset hc2
  rw [e1] at h
  simp only [bind, Except.bind, pure, Except.pure, Except.ok.injEq, Prod.mk.injEq] at h
  obtain ⟨_, rfl⟩ := h
  rw [e1] at e2
  simp only [Except.ok.injEq, Prod.mk.injEq] at e2
  obtain ⟨_, rfl⟩ := e2
  exact ⟨⟨c1, h1, hlt⟩, c2, h2, hts⟩

theorem hl_trig (b : Bytes) (hpl : PlainL b) : ∀ (t t1 : St) (lp : Option Bytes × Segment) (l : Bytes) (lo : Int)
    (ch : UInt8), HL b t → peekLine t = .ok (lp, t1) → lp.1 = some l → idx l (indentWidthI l lo).2 = .ok ch →
    ∀ bp ∈ (triggered ch).getD freeParsers, Cov6 bp := by
  intro t t1 lp l lo ch ⟨_, c, hc, hts⟩ h hl hidx
  unfold GM.Blocks.peekLine at h
  obtain ⟨r1, e1, h1⟩ := ri_peekLine hc
  rw [e1] at h
  simp only [bind, Except.bind, pure, Except.pure, Except.ok.injEq, Prod.mk.injEq] at h
  obtain ⟨rfl, _⟩ := h
  exact (trigAt_plainL b hpl).2 c l lo ch hc.inRange hts hl hidx

theorem hl_open_go (b : Bytes) (hnl : b.getLast? = some 10) : ∀ bp, Cov6 bp → ∀ (p : Nat) (s : St)
    (x : Option Nat × PState) (s' : St), HL b s → bpOpen bp p s = .ok (x, s') → (x.1 = none ∨ x.2.hasChildren = true) →
    HL b s' := by
  intro bp h p s x s' hl e hx
  rcases hx with hx | hx
  · have hri : ∃ c, RI b s'.r c := by
      obtain ⟨c, hc, _⟩ := hl.1
      exact ri_open6 b bp h p s x s' ⟨c, hc⟩ e
    exact hl_of_pos hl hri (bpOpen_none_pos bp p s s' x e hx)
  · exact strictO6' b hnl bp h p s s' x hl e hx

theorem hl_continue_go (b : Bytes) (hnl : b.getLast? = some 10) : ∀ bp, Cov6 bp → ∀ (n : Nat) (s : St) (st : PState)
    (s' : St), HL b s → bpContinue bp n s = .ok (st, s') → (st.cont = false ∨ st.hasChildren = true) → HL b s' := by
  intro bp h n s st s' hl e hx
  by_cases hc : st.cont = true
  · rcases hx with hx | hx
    · rw [hc] at hx; cases hx
    · exact strictC6' b hnl bp h n s s' st hl e hc hx
  · exact hcl6' b hnl bp h n s s' st hl e (by simpa using hc)

theorem passKeeps (b : Bytes) (hnl : b.getLast? = some 10) (hpl : PlainL b) : PassKeeps b := by
  intro ob s s' bl x hau hop hne hcov hl hsle e
  obtain ⟨c, hri, _⟩ := hl.1
  -- StableL
  have hst' : StableL b 0 s' := by
    have := lineLoopL (lsp_all b) 0 rfl ob ((ob.length : Int) - 1) rfl ob [] 0 bl s c
      rfl rfl hop hri (hau.pad c hri) hau.st (fun Lb hLb => by simp at hLb)
    obtain ⟨_, _, h⟩ := Sh.okl_ok this e
    exact h
  -- K
  have hk' : Sh.K s' := by
    have hobs : Sh.ObsOK ob s := by
      intro z hz; exact hau.k.opened z (by rw [hop]; exact hz)
    exact (Sh.a2_lineLoop 0 ob ((ob.length : Int) - 1) ob 0 bl s s' x hau.k hau.k.doc.1 hobs (fun z hz => hz) e).1
  obtain ⟨b0, rest, rfl⟩ : ∃ b0 rest, ob = b0 :: rest := by
    cases ob with
    | nil => exact absurd rfl hne
    | cons b0 rest => exact ⟨b0, rest, rfl⟩
  have hatt : ∀ z ∈ b0 :: rest, (nd s z.node).parent.isSome = true := by
    intro z hz; exact hau.att z (by rw [hop]; exact hz)
  have hJr : ∀ t t' : St, HL b t → t'.r = t.r → HL b t' := fun t t' h e => h.of_r e
  have htop' := topLast_lineLoopJ hJr (hl_open_go b hnl) (hl_lineOffset b) (hl_peek b) xk_free_cov6 (hl_trig b hpl)
    (hl_continue_go b hnl) b0 rest s s' bl x hau.k hau.top hop hcov hl hau.st hatt e
  have hatt' := att_lineLoopJ hJr (hl_open_go b hnl) (hl_lineOffset b) (hl_peek b) xk_free_cov6 (hl_trig b hpl)
    (hl_continue_go b hnl) b0 rest s s' bl x hau.k hau.top hop hcov hl hau.st hatt e
  have hgp' := gp_lineLoop (b0 :: rest) s s' bl x hau.gp hau.k hau.st hop e
  obtain ⟨hnext, hsle'⟩ := lineLoop_next_sle b hnl (b0 :: rest) (((b0 :: rest).length : Int) - 1) hcov (b0 :: rest) 0 bl s s' x
    (fun z hz => hz) (List.cons_ne_nil _ _) hl.1 hsle e
  exact ⟨⟨hst', hk', htop', hgp', hatt'⟩, hsle', hnext⟩

theorem openKeeps (b : Bytes) (hnl : b.getLast? = some 10) (hpl : PlainL b) : OpenKeeps b := by
  intro blank s s' r hau hop hl e
  obtain ⟨c, hri, _⟩ := hl.1
  have hst' : StableL b 0 s' := by
    have hcl : Call s.pc.opened [] := ⟨⟨s.pc.opened, by simp, fun _ bb hb => by rw [hop] at hb; cases hb⟩⟩
    have hkroot : (nd s 0).kind ≠ .list := by rw [hau.st.ls.rootKind]; decide
    have hobk := openBlocksL (lsp_all b) [] 0 blank s c hri (hau.pad c hri) hau.st hcl rfl (fun hk => absurd hk hkroot)
    obtain ⟨c2, new2, hria2, _, hw2, hleafy2, _, _, hend2, _⟩ := Sh.okl_ok hobk e
    have hop2 : s'.pc.opened = new2 := by
      rcases hw2.shape with e' | ⟨hh, _, _⟩
      · rw [e', hop]; rfl
      · exact absurd hop hh
    exact ⟨hw2.nodes, hw2.keys, hw2.blocks, by rw [hop2]; exact hleafy2, hw2.ls, by rw [hop2]; simpa using hw2.chain,
      by rw [hop2]; simpa using hend2⟩
  have hk' : Sh.K s' := (Sh.a2_openBlocks 0 blank s s' r hau.k hau.k.doc.1 e).1
  have htop' := topLast_openBlocks0 blank s s' r hau.k hop e
  have hgp' : tl_GP s' := by
    refine gp_openBlocks 0 blank s s' r hau.gp hau.k.doc.1 ?_ e
    have : (nd s 0).kind = .document := hau.k.doc.2.1.2
    rw [this]; rfl
  have hJr : ∀ t t' : St, HL b t → t'.r = t.r → HL b t' := fun t t' h e => h.of_r e
  have hatt' := att_openBlocks0J hJr (hl_open_go b hnl) (hl_lineOffset b) (hl_peek b) xk_free_cov6 (hl_trig b hpl)
    blank s s' r hau.k hop hl e
  exact ⟨hst', hk', htop', hgp', fun z hz => (hatt' z hz).1⟩

end GM.Blocks.Xs
