/-
  GM.Proof.CMFrag4Main — stage 4: the phases composed for documents of paragraphs, ATX headings and thematic breaks.
-/
import GM.Proof.CMFrag4Run
import GM.Proof.CMFrag4Atx
import GM.Proof.CMFragMain
import GM.Proof.CMFragRender4
import GM.Proof.CMFragSpec4

namespace GM.Proof.CMFrag
open GM GM.Text GM.Blocks GM.Spec

/-- `docTree` on a closed leaf block whose lines are the lines `ls` of text starting at byte `p` -/
theorem docTree_lines {src : Bytes} (env : GM.Inl.Env) (henv : env.escapedSpace = false) (ls : List Bytes) (p : Nat)
    (n : Blocks.Node) (K : GM.Kind) (hlines : n.lines = paraSegs p ls) (hraw : GM.Convert.isRawKind n.kind = false)
    (hK : GM.Convert.blockKind src n = .ok K)
    (hne : ls ≠ []) (h : ParaAt src p ls) (hp : p ≤ src.length) (hg : ∀ l ∈ ls, GoodLine l) :
    GM.Convert.docTree true env src (.node n []) = .ok (.mk K none (textNodes ls)) := by
  obtain ⟨pre, post, hsrc, hpre⟩ := paraAt_decomp ls p h hp
  have hpb := parseBlock_quiet env henv pre post ls hne hg
  rw [← hsrc, hpre] at hpb
  have hw := wf0B_para ls p hne h (fun l hl => (hg l hl).ne)
  have hit := inlineTrees_para ls p h
  have hle : (paraSegs p ls).isEmpty = false := by
    cases ls with
    | nil => exact absurd rfl hne
    | cons l rest => cases rest <;> simp [paraSegs]
  simp only [GM.Convert.docTree, GM.Convert.docTrees, GM.Convert.inlinePhase, hraw, hlines, hle, hw,
    hpb, GM.Convert.liftErr, hK, bind, Except.bind, pure, Except.pure]
  simp [hit]

/-- what the three phases need of a block -/
def Good4' : RawBlock → Prop
  | .para ls => ls ≠ [] ∧ ∀ l ∈ ls, GoodLine l
  | .atx level l => 1 ≤ level ∧ level ≤ 6 ∧ GoodLine l ∧ ∀ c, l.getLast? = some c → c ≠ 35
  | .hr h => ∃ ch n, hrChar ch ∧ h = List.replicate (n + 3) ch

theorem good4_of (b : RawBlock) (h : Good4' b) : Good4 b := by
  cases b with
  | para ls => exact ⟨h.1, fun l hl => (h.2 l hl).blk (quiet_no_nl l 0 false (h.2 l hl).quiet)⟩
  | atx level l => exact ⟨h.1, h.2.1, h.2.2.1.blk (quiet_no_nl l 0 false h.2.2.1.quiet), h.2.2.2⟩
  | hr x => exact h

theorem lines4_no_nl (b : RawBlock) (h : Good4' b) : ∀ l ∈ lines4 b, ∀ c ∈ l, c ≠ 10 := by
  cases b with
  | para ls => exact fun l hl => quiet_no_nl l 0 false (h.2 l hl).quiet
  | atx level l =>
    intro x hx c hc
    simp only [lines4, List.mem_singleton] at hx
    subst hx
    simp only [List.mem_append, List.mem_replicate, List.mem_cons] at hc
    rcases hc with ⟨_, rfl⟩ | rfl | hc
    · decide
    · decide
    · exact quiet_no_nl l 0 false h.2.2.1.quiet c hc
  | hr x =>
    obtain ⟨ch, n, hch, rfl⟩ := h
    intro l hl c hc
    simp only [lines4, List.mem_singleton] at hl
    subst hl
    simp only [List.mem_replicate] at hc
    rcases hch with h' | h' | h' <;> rw [hc.2, h'] <;> decide

/-- `docTree` on the closed node of one block -/
theorem docTree_block4 {src : Bytes} (env : GM.Inl.Env) (henv : env.escapedSpace = false) (b : RawBlock) (p : Nat)
    (bk : Bool) (hg : Good4' b) (h : ParaAt src p (lines4 b)) (hp : p ≤ src.length) :
    GM.Convert.docTree true env src (.node (node4 p b bk) []) = .ok (rawNode b) := by
  cases b with
  | para ls => exact docTree_para env henv ls p bk hg.1 h hp hg.2
  | hr x => rfl
  | atx level l =>
    obtain ⟨h1, h6, hgl, _⟩ := hg
    obtain ⟨pre0, post, hsrc, hpre0⟩ := paraAt_decomp _ p h hp
    have hno := quiet_no_nl l 0 false hgl.quiet
    have hsrc' : src = (pre0 ++ List.replicate level 35 ++ [32]) ++ (l ++ 10 :: post) := by
      rw [hsrc]; simp [lines4, paraBytes]
    have hlen : (pre0 ++ List.replicate level 35 ++ [32]).length = p + level + 1 := by simp [hpre0]; omega
    have hln := Ln.of_append (pre0 ++ List.replicate level 35 ++ [32]) l post hno
    rw [← hsrc', hlen] at hln
    have hle := hln.le
    have hK : GM.Convert.blockKind src (headN level [sg (p + level + 1) (p + level + 1 + l.length)] bk) =
        .ok (.heading level) := by
      simp [GM.Convert.blockKind, headN, pure, Except.pure]
    exact docTree_lines env henv [l] (p + level + 1) _ (.heading level) (by simp [node4, headN, paraSegs, sg]) rfl hK
      (by simp) ⟨hln, trivial⟩ (by omega) (by simpa using hgl)

theorem mkNodes4_children : ∀ (cl : List (Nat × List Bytes)) (blks : List RawBlock) (bs : List Bool),
    ∀ n ∈ mkNodes4 cl blks bs, n.children = []
  | [], _, _, n, h => by simp [mkNodes4] at h
  | _ :: _, [], _, n, h => by simp [mkNodes4] at h
  | _ :: _, _ :: _, [], n, h => by simp [mkNodes4] at h
  | (p, ls) :: cl, b :: blks, bk :: bs, n, h => by
    simp only [mkNodes4, List.mem_cons] at h
    rcases h with rfl | h
    · cases b <;> rfl
    · exact mkNodes4_children cl blks bs n h

theorem mkNodes4_length : ∀ (cl : List (Nat × List Bytes)) (blks : List RawBlock) (bs : List Bool),
    blks.length = cl.length → bs.length = cl.length → (mkNodes4 cl blks bs).length = cl.length
  | [], _, _, _, _ => by simp [mkNodes4]
  | _ :: _, [], _, h, _ => by simp at h
  | _ :: _, _ :: _, [], _, h => by simp at h
  | (p, ls) :: cl, b :: blks, bk :: bs, h1, h2 => by
    simp only [mkNodes4, List.length_cons]
    rw [mkNodes4_length cl blks bs (by simpa using h1) (by simpa using h2)]

theorem docTrees_blocks4 {src : Bytes} (env : GM.Inl.Env) (henv : env.escapedSpace = false) :
    ∀ (items : List (Nat × RawBlock)) (q : Nat) (bs : List Bool), bs.length = items.length →
      (∀ it ∈ items, Good4' it.2) →
      (∀ x ∈ closedOf q (items.map conv4), ParaAt src x.1 x.2 ∧ x.1 ≤ src.length) →
      GM.Convert.docTrees true env src
          ((mkNodes4 (closedOf q (items.map conv4)) (items.map (·.2)) bs).map (fun n => Tree.node n [])) =
        .ok (items.map fun it => rawNode it.2)
  | [], _, _, _, _, _ => rfl
  | _ :: _, _, [], h, _, _ => by simp at h
  | (g, b) :: rest, q, bk :: bs, h, hg, hx => by
    have hx0 := hx (q + g, lines4 b) (by simp [closedOf, conv4])
    have ih := docTrees_blocks4 env henv rest (q + g + (paraBytes (lines4 b)).length + 1) bs (by simpa using h)
      (fun it hit => hg it (by simp [hit])) (fun x hx' => hx x (by simp [closedOf, conv4, hx']))
    simp only [List.map_cons, conv4, closedOf, mkNodes4, GM.Convert.docTrees,
      docTree_block4 env henv b (q + g) bk (hg (g, b) (by simp)) hx0.1 hx0.2, bind, Except.bind, pure, Except.pure]
    rw [ih]

theorem atxOpens : AtxOpens :=
  fun hl level l hv h1 h6 hb hlast pts k d rest pc hop blank pk hpk =>
    openBlocks_atx hl level l hv h1 h6 hb hlast pts k d rest pc hop blank pk hpk

/-- the model of `goldmark.Convert` on the source of a stage-4 document of good blocks -/
theorem convert_raw4 (uc : List (Nat × (Bool × Bool))) (items : List (Nat × RawBlock)) (trail : Nat)
    (hgood : ∀ it ∈ items, Good4' it.2) :
    GM.Convert.convertCore uc cmOpts (rawDoc (items.map conv4) trail) = .ok (gdocHtml (items.map (·.2))) := by
  have hno : ∀ it ∈ items.map conv4, ∀ l ∈ it.2, ∀ c ∈ l, c ≠ 10 := by
    intro x hx
    obtain ⟨it, hit, rfl⟩ := List.mem_map.mp hx
    exact lines4_no_nl it.2 (hgood it hit)
  have hne : ∀ it ∈ items.map conv4, it.2 ≠ [] := by
    intro x hx
    obtain ⟨it, hit, rfl⟩ := List.mem_map.mp hx
    exact lines4_ne it.2 (good4_of it.2 (hgood it hit))
  obtain ⟨s', bs, h1, h2, h3, h4⟩ := runT_doc4 atxOpens items trail (fun it hit => good4_of it.2 (hgood it hit)) hno
  have hd := docAt_raw (items.map conv4) trail [] hno
  simp only [List.nil_append, List.length_nil] at hd
  have hcl : ∀ x ∈ closedOf 0 (items.map conv4), ParaAt (rawDoc (items.map conv4) trail) x.1 x.2 ∧
      x.1 ≤ (rawDoc (items.map conv4) trail).length :=
    fun x hx => ⟨docAt_paras _ trail 0 hd x hx, closedOf_le _ trail 0 hd hne x hx⟩
  have hlen : (closedOf 0 (items.map conv4)).length = items.length := by rw [closedOf_length]; simp
  have hml := mkNodes4_length (closedOf 0 (items.map conv4)) (items.map (·.2)) bs (by simp [hlen]) (by rw [hlen]; exact h2)
  have htree : treeOf s'.nodes s'.nodes.length 0 =
      .node (addKids { kind := .document } 0 items.length)
        ((mkNodes4 (closedOf 0 (items.map conv4)) (items.map (·.2)) bs).map fun n => Tree.node n []) := by
    rw [h3]
    have hk := treeOf_kids (mkNodes4 (closedOf 0 (items.map conv4)) (items.map (·.2)) bs).length
      (mkNodes4 (closedOf 0 (items.map conv4)) (items.map (·.2)) bs)
      [addKids { kind := .document } 0 items.length] (mkNodes4_children _ _ _)
    simp only [List.length_cons, treeOf]
    have e1 : ((addKids { kind := .document } 0 items.length ::
        mkNodes4 (closedOf 0 (items.map conv4)) (items.map (·.2)) bs).getD 0 default) =
        addKids { kind := .document } 0 items.length := rfl
    rw [e1]
    have e2 : (addKids { kind := .document } 0 items.length).children =
        List.range' 1 (mkNodes4 (closedOf 0 (items.map conv4)) (items.map (·.2)) bs).length := by
      rw [hml, hlen]; simp [addKids]
    rw [e2]
    congr 1
  have hdt := docTrees_blocks4 (src := rawDoc (items.map conv4) trail) { refs := s'.pc.refs, uc := uc } rfl items 0 bs h2
    hgood hcl
  have hlev : ∀ b ∈ items.map (·.2), ∀ level l, b = RawBlock.atx level l → level ≤ 6 := by
    intro b hb level l he
    obtain ⟨it, hit, rfl⟩ := List.mem_map.mp hb
    have := hgood it hit
    rw [he] at this
    exact this.2.1
  unfold GM.Convert.convertCore GM.Convert.convertWith GM.Convert.parseDoc GM.Convert.blockPhase
  have hrun : runT (GM.Convert.paragraphTransformers true) (rawDoc (items.map conv4) trail) = .ok s' := h1
  simp only [hrun, GM.Convert.liftErr, bind, Except.bind, htree, GM.Convert.docTree, hdt, GM.Convert.inlinePhase,
    addKids, GM.Convert.isRawKind, GM.Convert.blockKind, pure, Except.pure]
  have hit0 : GM.Convert.inlineTrees (rawDoc (items.map conv4) trail) [] = .ok [] := rfl
  have := renderDoc_gdoc (items.map (·.2)) hlev
  simp only [gdocNode, List.map_map] at this
  simpa [hit0, Function.comp_def] using this

/-! ### stage-4 fragment documents -/

open GM.Spec.CM GM.Spec.CMFrag

def convG (it : GItem) : Nat × RawBlock := (it.gap, rawOfG it.block)

theorem paraBytes_rawOfG (b : GBlock) : paraBytes (lines4 (rawOfG b)) = spellGBlock b := by
  cases b with
  | para lines => simp only [rawOfG, lines4, spellGBlock]; exact paraBytes_spelled lines
  | heading level text => simp [rawOfG, lines4, spellGBlock, paraBytes]
  | thematic c n => simp [rawOfG, lines4, spellGBlock, paraBytes]

theorem rawTail_spellG : ∀ (items : List GItem) (trail : Nat),
    rawTail ((items.map convG).map conv4) trail = spellGItems false items ++ GM.Spec.CMFrag.blanks trail
  | [], 0 => rfl
  | [], t + 1 => by simp [rawTail, spellGItems, blanks_eq, GM.Spec.CMFrag.blanks, List.replicate_succ]
  | it :: rest, trail => by
    have ih := rawTail_spellG rest trail
    simp only [List.map_cons, convG, conv4, rawTail, ih, spellGItems, paraBytes_rawOfG, blanks_eq]
    simp [GM.Spec.CMFrag.blanks, List.replicate_succ]

theorem spellG_raw (d : GDoc) : spellG d = rawDoc ((d.items.map convG).map conv4) d.trail := by
  obtain ⟨items, trail⟩ := d
  cases items with
  | nil => rfl
  | cons it rest =>
    simp only [spellG, List.map_cons, convG, conv4, rawDoc, rawTail_spellG, spellGItems, paraBytes_rawOfG, blanks_eq]
    simp

theorem alnum_not_hash : ∀ c : UInt8, isAlnumC c = true → c ≠ 35 := GM.forall_uint8 _ (by decide +kernel)

theorem escSpell_last_not_hash (l : FLine) (h : lineOK l = true) : ∀ c, (escSpell l).getLast? = some c → c ≠ 35 := by
  obtain ⟨a, rest, init, z, hl, hl', hf, hz, hall⟩ := lineOK_parts l h
  obtain ⟨zc, ze⟩ := z
  obtain ⟨sz, _, _⟩ := spell_last zc ze hz
  have e2 : escSpell l = escSpell init ++ [zc] := by
    rw [hl']; simp [escSpell, sz]
  intro c hc
  rw [e2] at hc; simp at hc; subst hc
  simp only [lastOK, Bool.and_eq_true] at hz
  exact alnum_not_hash zc hz.1

theorem thematicLine_hr (c n : Nat) : ∃ ch m, hrChar ch ∧ thematicLine c n false = List.replicate (m + 3) ch := by
  refine ⟨if c % 3 == 0 then 42 else if c % 3 == 1 then 45 else 95, n, ?_, by simp [thematicLine]⟩
  unfold hrChar
  split
  · left; rfl
  · split
    · right; left; rfl
    · right; right; rfl

theorem good4_rawOfG (b : GBlock) (h : gblockOK b = true) : Good4' (rawOfG b) := by
  cases b with
  | para lines =>
    simp only [gblockOK, Bool.and_eq_true, Bool.not_eq_true', List.all_eq_true] at h
    refine ⟨?_, ?_⟩
    · intro e
      have : lines = [] := by simpa using e
      rw [this] at h; simp at h
    · intro l hl
      obtain ⟨fl, hfl, rfl⟩ := List.mem_map.mp hl
      exact goodLine_of_lineOK fl (h.2 fl hfl)
  | heading level text =>
    simp only [gblockOK, Bool.and_eq_true, decide_eq_true_eq] at h
    exact ⟨h.1.1, h.1.2, goodLine_of_lineOK text h.2, escSpell_last_not_hash text h.2⟩
  | thematic c n => exact thematicLine_hr c n

theorem gfrag_item {d : GDoc} (h : GFrag d) {it : GItem} (hit : it ∈ d.items) : gblockOK it.block = true := by
  unfold GFrag gfragB at h
  simp only [List.all_eq_true] at h
  exact h it hit

/-- **the conformance theorem of the stage-4 fragment** -/
theorem fragment4_conforms (d : GDoc) (h : GFrag d) (uc : List (Nat × (Bool × Bool))) :
    GM.Convert.convertCore uc cmOpts (spellG d) = .ok (expectedG d) := by
  have hgood : ∀ it ∈ d.items.map convG, Good4' it.2 := by
    intro x hx
    obtain ⟨it, hit, rfl⟩ := List.mem_map.mp hx
    exact good4_rawOfG it.block (gfrag_item h hit)
  have hc := convert_raw4 uc (d.items.map convG) d.trail hgood
  rw [spellG_raw, hc]
  have he : expectedG d = gdocHtml ((d.items.map (·.block)).map rawOfG) := by
    rw [gdocHtml_spelled _ (by
      intro b hb
      obtain ⟨it, hit, rfl⟩ := List.mem_map.mp hb
      exact gfrag_item h hit)]
    simp [expectedG, List.flatMap_map]
  rw [he]
  simp [convG, List.map_map, Function.comp_def]

end GM.Proof.CMFrag
