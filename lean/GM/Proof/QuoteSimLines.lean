/-
  GM.Proof.QuoteSimLines — the pass over the opened blocks for one line (parser.go:1081-1123) preserves the
  simulation relation: A at level `i`, B at level `i+1`.
-/
import GM.Proof.QuoteSimOpen
import GM.Proof.QuoteSimStats
import GM.Proof.QuoteSimMid
import GM.Proof.QuoteSimStatsG

namespace GM.Blocks
open GM GM.Text GM.Spec GM.Proof.Reader

/-! ### closing everything at the end of the source (B closes its Blockquote too) -/

theorem blockAt_q0 (l : List Block) : blockAt (bqBlock :: l.map shB) 0 = .ok bqBlock := rfl

theorem closeLoopAll_sim {src al} (ps : PS src al) (fr : Frames al) (l : List Block) (hl : OKB al l) :
    ∀ (n : Nat) {k ls p} {sA sB : St}, SR src k ls p sA sB → AInv al sA.pc sA.nodes → PKL l sA.nodes →
      FEc al sA.nodes sB.nodes →
      S2 (fun _ _ sA' sB' => SR src k ls p sA' sB' ∧ AInv al sA'.pc sA'.nodes ∧ FEc al sA'.nodes sB'.nodes)
        (closeLoop l 0 n sA) (closeLoop (bqBlock :: l.map shB) 0 (n + 1) sB) := by
  intro n
  induction n with
  | zero =>
    intro k ls p sA sB h ha _ hfe
    -- A does nothing; B closes its Blockquote (node 1, whose parent is the Document): nothing happens
    have hroot := h.n.node 0
    have hp := hroot.parent
    simp only [beq_self_eq_true, if_true] at hp
    have hp1 : (sB.nodes.getD 1 default).parent = some 0 := by
      have : (sB.nodes.getD (0 + 1) default).parent = some 0 := hp.1
      simpa using this
    have e : closeLoop (bqBlock :: l.map shB) 0 (0 + 1) sB = .ok ((), sB) := by
      unfold closeLoop
      have e1 : liftE (blockAt (bqBlock :: l.map shB) (0 + ((0 : Nat) : Int))) sB = .ok (bqBlock, sB) := rfl
      rw [bind_run e1]
      have e2 : getNode bqBlock.node sB = .ok (sB.nodes.getD 1 default, sB) := rfl
      rw [bind_run e2, hp1]
      simp only [Option.isSome_some, if_true]
      have e3 : bpClose bqBlock.bp bqBlock.node sB = .ok ((), sB) := rfl
      rw [bind_run e3]
      unfold closeLoop
      rfl
    rw [e]
    unfold closeLoop
    exact S2.pure ⟨h, ha, hfe⟩
  | succ n ih =>
    intro k ls p sA sB h ha hpk hfe
    unfold closeLoop
    refine S2.bind (P := fun a b sA' sB' => b = shB a ∧ a ∈ l ∧ sA' = sA ∧ sB' = sB) (S2.liftE (fun a ha' => ?_))
      (fun a b sA1 sB1 hq => ?_)
    · obtain ⟨e, hm, _⟩ := blockAt_q l _ a ha'
      refine ⟨shB a, ?_, rfl, hm, rfl, rfl⟩
      rw [show (0 : Int) + ((n + 1 : Nat) : Int) = 0 + (n : Int) + 1 by omega]; exact e
    · obtain ⟨hb, hm, e1, e2⟩ := hq
      subst hb
      rw [e1, e2]
      obtain ⟨hal, hn0⟩ := hl a hm
      refine S2.bind (getNode_s2' h a.node) (fun x y sA2 sB2 hq => ?_)
      obtain ⟨hxy, e1, e2⟩ := hq
      rw [e1, e2]
      have hc : (a.node == 0) = false := beq_eq_false_iff_ne.mpr hn0
      rw [hc] at hxy
      have hp := hxy.parent
      simp only [Bool.false_eq_true, if_false] at hp
      have hsome : y.parent.isSome = x.parent.isSome := by rw [hp]; cases x.parent <;> rfl
      simp only [shB]
      rw [hsome]
      by_cases hs : x.parent.isSome = true
      · rw [if_pos hs, if_pos hs]
        have hnse : al .setext = false → a.bp ≠ .setext := fun hns e => by rw [e, hns] at hal; cases hal
        refine S2.bind (S2.andL (S2.withFE h hfe (ps.close a.bp hal k ls p a.node sA sB h hn0 ha (fun hbp => hpk.nr hm hbp) hfe)
            (fun hns _ _ e => ⟨bpn_of_bpClose a.bp (hnse hns) a.node e, chn_of_bpClose a.bp (hnse hns) a.node e⟩)
            (fun hns _ _ e => bpn_of_bpClose a.bp (hnse hns) (a.node + 1) e))
          (F := fun _ sA' => AInv al sA'.pc sA'.nodes ∧ KGn sA.nodes sA'.nodes)
          (fun _ sA' e => ⟨fr.close _ _ _ _ _ e hal hn0 ha, fr.closeKG _ _ _ _ _ e hal⟩))
          (fun _ _ sA3 sB3 h3 => ih h3.1.1 h3.2.1 (hpk.kg h3.2.2) h3.1.2)
      · rw [if_neg hs, if_neg hs]; exact ih h ha hpk hfe

/-- the relation between the two FINAL node stores, with the unary invariant of A's store -/
def FRel (src : Bytes) (al : BP → Bool) (nA nB : List Node) : Prop :=
  StoreRel src nA nB ∧ UStoreL nA ∧ NK al nA ∧ FEc al nA nB

/-- closeBlocks(lastIndex, 0) at the end of the source: afterwards nothing is open on either side -/
theorem closeBlocksAll_sim {src al} (ps : PS src al) (fr : Frames al) {k ls p} {sA sB : St} (h : DR src al k ls p sA sB)
    (L : Int) (hL : L = (sA.pc.opened.length : Int) - 1) :
    S2 (fun _ _ sA' sB' => FRel src al sA'.nodes sB'.nodes) (closeBlocks L 0 sA) (closeBlocks (L + 1) 0 sB) := by
  unfold closeBlocks
  refine S2.bind (getPc_s2 h.s) (fun a b sA1 sB1 hq => ?_)
  obtain ⟨ha, hb, hc, e1, e2⟩ := hq
  subst ha hb
  rw [e1, e2]
  simp only
  rw [hc.opened]
  have en : (L + 1 - 0 + 1).toNat = (L - 0 + 1).toNat + 1 := by omega
  rw [en]
  refine S2.bind (closeLoopAll_sim ps fr sA.pc.opened h.a.opened _ h.s h.a h.a.pk h.f) (fun _ _ sA2 sB2 hq => ?_)
  obtain ⟨h2, ha2, hfe2⟩ := hq
  have e0 : (((bqBlock :: sA.pc.opened.map shB).length : Nat) : Int) = (sA.pc.opened.length : Int) + 1 := by
    simp only [List.length_cons, List.length_map]; omega
  rw [e0]
  have c1 : (L == (sA.pc.opened.length : Int) - 1) = true := by rw [hL]; exact beq_self_eq_true _
  have c2 : (L + 1 == (sA.pc.opened.length : Int) + 1 - 1) = true := by
    rw [hL, show (sA.pc.opened.length : Int) - 1 + 1 = (sA.pc.opened.length : Int) + 1 - 1 by omega]
    exact beq_self_eq_true _
  rw [if_pos c1, if_pos c2]
  have s1 : closeBlocks.slice' sA.pc.opened 0 0 = .ok [] := by
    unfold closeBlocks.slice'; rw [if_pos (by omega)]; rfl
  have s2 : closeBlocks.slice' (bqBlock :: sA.pc.opened.map shB) 0 0 = .ok [] := by
    unfold closeBlocks.slice'; rw [if_pos (by simp only [List.length_cons, List.length_map]; omega)]; rfl
  rw [s1, s2]
  have l1 : liftE (.ok [] : Except Panic (List Block)) sA2 = .ok ([], sA2) := rfl
  have l2 : liftE (.ok [] : Except Panic (List Block)) sB2 = .ok ([], sB2) := rfl
  rw [bind_run l1, bind_run l2]
  unfold modPc
  exact S2.ok ⟨h2.n, ha2.u, ha2.nk, hfe2⟩

/-! ### the fall-through of the per-line loop: openBlocks below block `i`, then close what is left over -/

def llOpen (ob : List Block) (L i : Int) (blank : Bool) (blankLines : List LineStat) (thisParent : Nat) :
    M (LineOutcome × List LineStat) := do
  let lastNode ← liftE (blockAt ob L)
  let result ← openBlocks thisParent blank
  if (result != OpenResult.paragraphContinuation) = true then do
    let pc ← getPc
    let r ← closeBlocks (if (Option.map (fun x => x.node) (slotAfter ob pc.opened L.toNat) != some lastNode.node) = true
      then L - 1 else L) i
    (fun _ => pure (LineOutcome.next, blankLines)) r
  else pure (LineOutcome.next, blankLines)

theorem slotAfter_q (old new : List Block) (L : Int) (hL : 0 ≤ L) :
    slotAfter (bqBlock :: old.map shB) (bqBlock :: new.map shB) (L + 1).toNat = (slotAfter old new L.toNat).map shB := by
  have e : (L + 1).toNat = L.toNat + 1 := by omega
  unfold slotAfter
  rw [e]
  simp only [List.getElem?_cons_succ, List.getElem?_map]
  cases new[L.toNat]? with
  | some b => rfl
  | none => simp only [Option.map_none]

/-- the result relation of the per-line loop -/
def LLRel (src : Bytes) (al : BP → Bool) (k ls : Nat) (lo : Int) (a b : LineOutcome × List LineStat) (sA sB : St) : Prop :=
  b.1 = a.1 ∧ match a.1 with
    | .next => (∃ p', DR src al k ls p' sA sB) ∧ (FL src → ∃ j, lo ≤ j ∧ CUR (k : Int) j a.2 b.2) ∧
        (∃ j, lo ≤ j ∧ CURG (k : Int) j a.2 b.2)
    | .eof => FRel src al sA.nodes sB.nodes

theorem LLRel.mono {src al k ls} {lo lo' : Int} (hle : lo ≤ lo') {a b sA sB} (h : LLRel src al k ls lo' a b sA sB) :
    LLRel src al k ls lo a b sA sB := by
  obtain ⟨h1, h2⟩ := h
  refine ⟨h1, ?_⟩
  cases ha : a.1 with
  | eof => rw [ha] at h2; exact h2
  | next =>
    rw [ha] at h2
    exact ⟨h2.1, (fun hfl => by obtain ⟨j, hj, hc⟩ := h2.2.1 hfl; exact ⟨j, by omega, hc⟩),
      (by obtain ⟨j, hj, hc⟩ := h2.2.2; exact ⟨j, by omega, hc⟩)⟩

/-- the least level the statistics have reached when the per-line loop ends: one more than the start when there is a block to visit -/
def loOf (i : Int) : List Block → Int
  | [] => i
  | _ :: _ => i + 1

theorem loOf_ge (i : Int) (l : List Block) : i ≤ loOf i l := by cases l <;> simp only [loOf] <;> omega

theorem llOpen_sim {src al} (ps : PS src al) (fr : Frames al) (ot : OT src) (ns : NS src) (tr : TrigOK src al)
    (ob : List Block) (L i : Int) (bA bB : Bool) (stA stB : List LineStat) (t : Nat) {k ls p} {sA sB : St}
    (h : DRL src al k ls p sA sB) (hb : FL src → bB = bA) (lo : Int) (hst : FL src → ∃ j, lo ≤ j ∧ CUR (k : Int) j stA stB)
    (hstg : ∃ j, lo ≤ j ∧ CURG (k : Int) j stA stB) (hq : t < sA.nodes.length)
    (hbq : al .setext = false → (bB = bA ∨ t = 0)) :
    S2 (LLRel src al k ls lo) (llOpen ob L i bA stA t sA)
      (llOpen (bqBlock :: ob.map shB) (L + 1) (i + 1) bB stB (t + 1) sB) := by
  unfold llOpen
  refine S2.bind (P := fun a b sA' sB' => b = shB a ∧ 0 ≤ L ∧ sA' = sA ∧ sB' = sB) (S2.liftE (fun a ha => ?_))
    (fun a b sA1 sB1 hq => ?_)
  · obtain ⟨e, _, h0⟩ := blockAt_q ob _ a ha
    exact ⟨shB a, e, rfl, h0, rfl, rfl⟩
  obtain ⟨hb, hL, e1, e2⟩ := hq
  subst hb
  rw [e1, e2]
  refine S2.bind (openBlocks_sim ps fr ot ns tr bA bB hb t h hq hbq) (fun ra rb sA2 sB2 hq => ?_)
  obtain ⟨hr, ⟨p', h2⟩, _⟩ := hq
  rw [hr]
  by_cases hc : (ra != OpenResult.paragraphContinuation) = true
  · rw [if_pos hc, if_pos hc]
    refine S2.bind (getPc_s2 h2.s) (fun pa pb sA3 sB3 hq => ?_)
    obtain ⟨ea, eb, hcr, e1, e2⟩ := hq
    subst ea eb
    rw [e1, e2, hcr.opened, slotAfter_q ob _ L hL]
    have hcond : (Option.map (fun x => x.node) (Option.map shB (slotAfter ob sA2.pc.opened L.toNat)) != some (shB a).node) =
        (Option.map (fun x => x.node) (slotAfter ob sA2.pc.opened L.toNat) != some a.node) := by
      cases slotAfter ob sA2.pc.opened L.toNat with
      | none => rfl
      | some y => exact opt_succ_bne (some y.node) a.node
    rw [hcond]
    have hidx : (if (Option.map (fun x => x.node) (slotAfter ob sA2.pc.opened L.toNat) != some a.node) = true
        then L + 1 - 1 else L + 1) =
        (if (Option.map (fun x => x.node) (slotAfter ob sA2.pc.opened L.toNat) != some a.node) = true
        then L - 1 else L) + 1 := by
      split <;> omega
    rw [hidx]
    refine S2.bind (closeBlocks_sim ps fr h2 _ i) (fun _ _ sA4 sB4 h4 => ?_)
    exact S2.pure ⟨rfl, ⟨p', h4.1⟩, hst, hstg⟩
  · rw [if_neg hc, if_neg hc]
    exact S2.pure ⟨rfl, ⟨p', h2⟩, hst, hstg⟩

def llFall (q : Nat) (ob : List Block) (L i : Int) (blank : Bool) (blankLines : List LineStat) :
    M (LineOutcome × List LineStat) :=
  if (i != 0) = true then do
    let b ← liftE (blockAt ob (i - 1))
    let thisParent ← pure b.node
    llOpen ob L i blank blankLines thisParent
  else do
    let thisParent ← pure q
    llOpen ob L i blank blankLines thisParent

theorem llFall_sim {src al} (ps : PS src al) (fr : Frames al) (ot : OT src) (ns : NS src) (tr : TrigOK src al)
    (ob : List Block) (L i : Int) (hi : 0 ≤ i) (bA bB : Bool) (stA stB : List LineStat) {k ls p} {sA sB : St}
    (h : DRL src al k ls p sA sB) (hb : FL src → bB = bA) (lo : Int) (hst : FL src → ∃ j, lo ≤ j ∧ CUR (k : Int) j stA stB)
    (hstg : ∃ j, lo ≤ j ∧ CURG (k : Int) j stA stB) (hob : ∀ b ∈ ob, b.node < sA.nodes.length)
    (hbe : al .setext = false → bB = bA) :
    S2 (LLRel src al k ls lo) (llFall 0 ob L i bA stA sA)
      (llFall 0 (bqBlock :: ob.map shB) (L + 1) (i + 1) bB stB sB) := by
  unfold llFall
  have hB : (i + 1 != 0) = true := by
    have : i + 1 ≠ 0 := by omega
    simpa using this
  rw [if_pos hB]
  by_cases hA : (i != 0) = true
  · rw [if_pos hA]
    refine S2.bind (P := fun a b sA' sB' => b = shB a ∧ a ∈ ob ∧ sA' = sA ∧ sB' = sB) (S2.liftE (fun a ha => ?_))
      (fun a b sA1 sB1 hq => ?_)
    · obtain ⟨e, hmem, _⟩ := blockAt_q ob _ a ha
      refine ⟨shB a, ?_, rfl, hmem, rfl, rfl⟩
      rw [show i + 1 - 1 = i - 1 + 1 by omega]; exact e
    obtain ⟨hb, hmem, e1, e2⟩ := hq
    subst hb
    rw [e1, e2]
    simp only [pure_bind, shB]
    exact llOpen_sim ps fr ot ns tr ob L i bA bB stA stB a.node h hb lo hst hstg (hob a hmem) (fun hns => .inl (hbe hns))
  · rw [if_neg hA]
    have hi0 : i = 0 := by
      simp only [bne_iff_ne, ne_eq, Decidable.not_not] at hA; exact hA
    subst hi0
    have e : liftE (blockAt (bqBlock :: ob.map shB) ((0 : Int) + 1 - 1)) sB = .ok (bqBlock, sB) := rfl
    rw [bind_run e]
    simp only [pure_bind, bqBlock]
    exact llOpen_sim ps fr ot ns tr ob L 0 bA bB stA stB 0 h hb lo hst hstg h.n.pos (fun _ => .inr rfl)

/-! ### the loop over the opened blocks of A (levels `i`, `i+1`, …) against B's levels `i+1`, … -/

theorem advanceLine_nodes (sA sB : St) {src : Bytes} {al : BP → Bool} (h : FRel src al sA.nodes sB.nodes) :
    S2 (fun _ _ sA' sB' => FRel src al sA'.nodes sB'.nodes) (advanceLine sA) (advanceLine sB) :=
  S2.ok h

theorem viewA_some_lt {src : Bytes} {ls p : Nat} {line : Bytes} (h : viewA src ls p = some line) : p < lineEnd src ls := by
  unfold viewA at h
  split at h
  · assumption
  · cases h

theorem lineLoop_sim {src al} (ps : PS src al) (fr : Frames al) (ot : OT src) (ns : NS src) (tr : TrigOK src al)
    (ob : List Block) (L : Int) :
    ∀ (rest : List Block), (∀ b ∈ rest, b ∈ ob) → ∀ (i : Int), 0 ≤ i → ∀ (stA stB : List LineStat) {k ls p : Nat}
      {sA sB : St}, DR src al k ls p sA sB → sA.pc.opened = ob → L = (ob.length : Int) - 1 →
      (FL src → CUR (k : Int) i stA stB) → (i = 0 → p = ls) → ∀ (pre : List Block), Sh.MidA src ob pre rest i sA →
      CURG (k : Int) i stA stB →
      S2 (LLRel src al k ls (loOf i rest)) (lineLoop 0 ob L rest i stA sA)
        (lineLoop 0 (bqBlock :: ob.map shB) (L + 1) (rest.map shB) (i + 1) stB sB) := by
  intro rest
  induction rest with
  | nil =>
    intro _ i _ stA stB k ls p sA sB h _ _ hcur _ _ _ hcg
    simp only [List.map_nil]
    unfold lineLoop
    exact S2.pure ⟨rfl, ⟨p, h⟩, (fun hfl => ⟨i, Int.le_refl _, hcur hfl⟩), ⟨i, Int.le_refl _, hcg⟩⟩
  | cons be rest ih =>
    intro hsub i hi stA stB k ls p sA sB h hop hL hcur hi0 pre hm hcg
    have hbe : be ∈ ob := hsub be (by simp)
    have ih' := ih (fun b hb => hsub b (by simp [hb])) (i + 1) (by omega)
    obtain ⟨hal, hn0⟩ : al be.bp = true ∧ be.node ≠ 0 := by
      have := h.a.opened be (hop ▸ hbe); exact this
    simp only [List.map_cons]
    unfold lineLoop
    refine S2.bind (S2.andR (S2.andL (peekLine_s2 h.s) (F := fun _ sA' => sA'.pc = sA.pc ∧ sA'.nodes = sA.nodes) (fun a sA' e => ?_))
      (G := fun _ sB' => sB'.nodes = sB.nodes) (fun b sB' e => ?_))
      (fun a b sA1 sB1 hq => ?_)
    · unfold GM.Blocks.peekLine at e
      cases hp : sA.r.peekLine with
      | error x => rw [hp] at e; cases e
      | ok y => rw [hp] at e; cases e; exact ⟨rfl, rfl⟩
    · unfold GM.Blocks.peekLine at e
      cases hp : sB.r.peekLine with
      | error x => rw [hp] at e; cases e
      | ok y => rw [hp] at e; cases e; rfl
    obtain ⟨⟨⟨ea, eb, h1⟩, hpc1, hnd1⟩, hndB1⟩ := hq
    subst ea eb
    simp only
    have hfe1 : FEc al sA1.nodes sB1.nodes := by
      rw [hnd1, hndB1]; exact h.f
    have hd1 : DR src al k ls p sA1 sB1 := ⟨h1, by rw [hpc1, hnd1]; exact h.a, hfe1⟩
    have hm1 : Sh.MidA src ob pre (be :: rest) i sA1 := by
      have e : sA1 = { sA with r := sA1.r } := by
        cases sA1; cases sA; simp only at hpc1 hnd1; subst hpc1 hnd1; rfl
      rw [e]; exact hm.congr_r h.s.r.a h1.r.a
    have hop1 : sA1.pc.opened = ob := by rw [hpc1]; exact hop
    cases hv : viewA src ls p with
    | none =>
      simp only
      refine S2.bind (closeBlocksAll_sim ps fr hd1 L (by rw [hop1]; exact hL)) (fun _ _ sA2 sB2 h2 => ?_)
      refine S2.bind (advanceLine_nodes sA2 sB2 h2) (fun _ _ sA3 sB3 h3 => ?_)
      exact S2.pure ⟨rfl, h3⟩
    | some line =>
      simp only
      have hplt := viewA_some_lt hv
      refine S2.bind (S2.andR (S2.andL (position_s2 h1) (F := fun _ sA' => sA' = sA1) (fun a sA' e => ?_))
        (G := fun _ sB' => sB' = sB1) (fun b sB' e => ?_))
        (fun a b sA2 sB2 hq => ?_)
      · unfold GM.Blocks.position at e; cases e; rfl
      · unfold GM.Blocks.position at e; cases e; rfl
      obtain ⟨⟨⟨ea, eb, h2⟩, e2⟩, e2B⟩ := hq
      subst ea eb
      subst e2
      subst e2B
      simp only
      refine S2.bind (getNode_s2' h2 be.node) (fun na nb sA3 sB3 hq => ?_)
      obtain ⟨hab, e1, e2⟩ := hq
      rw [e1, e2]
      rw [beq_eq_false_iff_ne.mpr hn0] at hab
      have hk := hab.kind
      simp only [Bool.false_eq_true, if_false] at hk
      simp only [shB]
      rw [hk]
      have hd2 : DR src al k ls p sA2 sB2 := ⟨h2, hd1.a, hd1.f⟩
      have hbl : FL src → i = 0 → isBlank line = false := by
        intro hfl h0
        have hpl := hi0 h0
        have := hfl k ls h.s.r.inl.line
        rw [hpl] at hv
        unfold viewA at hv
        split at hv
        · cases hv; exact this
        · cases hv
      have hqq := fun hfl => cur_query hi (hcur hfl) (isBlank line) (hbl hfl)
      have fall : ∀ {p'} {sA' sB' : St} (stA' stB' : List LineStat), DR src al k ls p' sA' sB' →
          (FL src → isBlankLine ((k : Int) - 1) (i + 1) stB' = isBlankLine ((k : Int) - 1) i stA') →
          (FL src → ∃ j, i + 1 ≤ j ∧ CUR (k : Int) j stA' stB') →
          (∃ j, i + 1 ≤ j ∧ CURG (k : Int) j stA' stB') → sA'.pc.opened = ob →
          (isBlankLine ((k : Int) - 1) (i + 1) stB' = isBlankLine ((k : Int) - 1) i stA') →
          S2 (LLRel src al k ls (i + 1)) (llFall 0 ob L i (isBlankLine ((k : Int) - 1) i stA') stA' sA')
            (llFall 0 (bqBlock :: ob.map shB) (L + 1) (i + 1) (isBlankLine ((k : Int) - 1) (i + 1) stB') stB' sB') :=
        fun stA' stB' hd hb hst hstg hopd hbe => llFall_sim ps fr ot ns tr ob L i hi _ _ stA' stB' hd.loose hb (i + 1) hst hstg
          (fun b hb' => (hd.a.pk b (hopd ▸ hb')).1) (fun _ => hbe)
      have hqg := curG_query hi hcg (isBlank line)
      by_cases hkp : (na.kind != Kind.paragraph) = true
      · rw [if_pos hkp, if_pos hkp]
        have hp : p < src.length := h.s.r.inl.lt_iff.mpr hplt
        have hnsp := ns k ls p h.s.r.inl hp
        refine S2.bind (S2.andL (S2.withFE h2 hd2.f (ps.cont be.bp hal k ls p be.node sA2 sB2 h2 hn0 hd2.a hp hnsp
            (fun hbi hnb => listItemContPre_of_mid_sr h2 hm1 hbi hp hnb))
            (fun _ _ _ e => ⟨bpn_of_bpContinue be.bp be.node e, chn_of_bpContinue be.bp be.node e⟩)
            (fun _ _ _ e => bpn_of_bpContinue be.bp (be.node + 1) e))
          (F := fun st' sA' => AInv al sA'.pc sA'.nodes ∧ sA'.pc.opened = sA2.pc.opened ∧
            (st'.cont = true → st'.hasChildren = true → Sh.MidA src ob (pre ++ [be]) rest (i + 1) sA') ∧
            (st'.cont = true → st'.hasChildren = false → rest = []))
          (fun _ sA' e => ⟨fr.cont _ _ _ _ _ e hal hn0 hd2.a, fr.contOpened _ _ _ _ _ e,
            (fun hc hch => mid_step hm1 h2.r.a hp e hc hch), (fun hc hch => mid_leaf_last hm1 e hc hch)⟩))
          (fun sa sb sA4 sB4 hq => ?_)
        obtain ⟨⟨⟨hs, p', h4⟩, hfe4⟩, ha4, hop4, hmid4, hleaf4⟩ := hq
        rw [hs]
        have hd4 : DR src al k ls p' sA4 sB4 := ⟨h4, ha4, hfe4⟩
        have hopd4 : sA4.pc.opened = ob := by rw [hop4, hop1]
        by_cases hcont : sa.cont = true
        · rw [if_pos hcont, if_pos hcont]
          have hcond : (sa.hasChildren && i + 1 == L + 1) = (sa.hasChildren && i == L) := by
            rw [int_beq_congr (x := i + 1) (y := L + 1) (x' := i) (y' := L) (by constructor <;> intro _ <;> omega)]
          rw [hcond]
          by_cases hch : (sa.hasChildren && i == L) = true
          · rw [if_pos hch, if_pos hch]
            refine S2.bind (openBlocks_sim ps fr ot ns tr _ _ (fun hfl => (hqq hfl).1) be.node hd4.loose
              ((hd4.a.pk be (hopd4 ▸ hbe)).1) (fun _ => .inl hqg.1))
              (fun ra rb sA5 sB5 hq => ?_)
            obtain ⟨_, ⟨p'', h5⟩, _⟩ := hq
            exact S2.pure ⟨rfl, ⟨p'', h5⟩, (fun hfl => ⟨i + 1, Int.le_refl _, (hqq hfl).2⟩), ⟨i + 1, Int.le_refl _, hqg.2⟩⟩
          · rw [if_neg hch, if_neg hch]
            simp only [Bool.not_false, if_true]
            cases hhc : sa.hasChildren with
            | true =>
              exact S2.mono (ih' _ _ hd4 (by rw [hop4, hop1]) hL (fun hfl => (hqq hfl).2) (fun h0 => by omega) _
                (hmid4 hcont hhc) hqg.2) (fun _ _ _ _ hh => LLRel.mono (loOf_ge _ _) hh)
            | false =>
              have hnil := hleaf4 hcont hhc
              subst hnil
              simp only [List.map_nil]
              unfold lineLoop
              exact S2.pure ⟨rfl, ⟨p', hd4⟩, (fun hfl => ⟨i + 1, Int.le_refl _, (hqq hfl).2⟩), ⟨i + 1, Int.le_refl _, hqg.2⟩⟩
        · rw [if_neg hcont, if_neg hcont]
          simp only [Bool.not_true, Bool.false_eq_true, if_false]
          exact fall _ _ hd4 (fun hfl => (hqq hfl).1) (fun hfl => ⟨i + 1, Int.le_refl _, (hqq hfl).2⟩)
            ⟨i + 1, Int.le_refl _, hqg.2⟩ hopd4 hqg.1
      · rw [if_neg hkp, if_neg hkp]
        simp only [Bool.not_true, Bool.false_eq_true, if_false]
        exact fall _ _ hd2 (fun hfl => (hqq hfl).1) (fun hfl => ⟨i + 1, Int.le_refl _, (hqq hfl).2⟩)
          ⟨i + 1, Int.le_refl _, hqg.2⟩ hop1 hqg.1

end GM.Blocks
