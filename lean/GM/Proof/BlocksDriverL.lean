/-
  GM.Proof.BlocksDriverL — the driver proof of GM.Proof.BlocksDriver redone for ALL ten default block parsers: in
  addition to the invariants there, the list invariant (`KidsOK`, the chain of List / ListItem blocks on the stack) and
  the cross-parser facts goldmark's list parsers rely on (after listParser.Open the same line opens a ListItem; after
  listParser.Continue + listItemParser.Continue = Close the line opens the next ListItem; listItemParser.Continue is
  only reached when listParser.Continue has excluded `IndentPosition = -1`).
-/
import GM.Proof.BlocksNoPanic
import GM.Proof.BlocksInvL
import GM.Proof.BlocksItem2
import GM.Proof.BlocksDet

namespace GM.Blocks.L
open GM GM.Text GM.Spec GM.Proof.Reader GM.Blocks

/-! ### tree-link frames compose -/

theorem TF.trans {s1 s2 s3 : St} (h12 : TF s1 s2) (e12 : Ext s1 s2) (h23 : TF s2 s3) (e23 : Ext s2 s3) : TF s1 s3 where
  parent := fun i hi hk => by
    rw [h23.parent i (Nat.lt_of_lt_of_le hi e12.len) (by rw [e12.kind i hi]; exact hk), h12.parent i hi hk]
  kids := fun i hi hk => by
    rw [h23.kids i (Nat.lt_of_lt_of_le hi e12.len) (by rw [e12.kind i hi]; exact hk), h12.kids i hi hk]
  offset := fun i hi => by rw [h23.offset i (Nat.lt_of_lt_of_le hi e12.len), h12.offset i hi]
  newParent := fun i p hp hk => by
    obtain ⟨hi2, hp2⟩ := h23.newParent i p hp hk
    have hp2l : p < s2.nodes.length := by
      rcases Nat.lt_or_ge p s2.nodes.length with h | h
      · exact h
      · exact absurd hk (h23.newKind p h).1
    rw [e23.kind p hp2l] at hk
    exact h12.newParent i p hp2 hk
  newKind := fun i hi => by
    rcases Nat.lt_or_ge i s2.nodes.length with h | h
    · rw [e23.kind i h]; exact h12.newKind i hi
    · exact h23.newKind i h

theorem TF.refl (s : St) : TF s s := (TreeSame.refl s).tf

/-! ### the chain of blocks on the stack -/

/-- how the block `b'` sits under the node `p` (its predecessor on the stack, or the root): below a List there is a
    ListItem that is the List's last child; a ListItem is only found below a List -/
structure LinkP (s : St) (p : Nat) (b' : Block) : Prop where
  down : (nd s p).kind = .list → b'.bp = .listItem ∧ (nd s b'.node).parent = some p ∧
      (nd s p).children.getLast? = some b'.node
  up : b'.bp = .listItem → (nd s p).kind = .list

/-- consecutive links, starting below the node `p` -/
def ChainedO (s : St) : Nat → List Block → Prop
  | _, [] => True
  | p, b :: rest => LinkP s p b ∧ ChainedO s b.node rest

/-- the node the next block would sit under -/
def lastNode (p : Nat) (l : List Block) : Nat := (l.getLast?.map (·.node)).getD p

theorem lastNode_nil (p : Nat) : lastNode p [] = p := rfl
theorem lastNode_concat (p : Nat) (l : List Block) (x : Block) : lastNode p (l ++ [x]) = x.node := by
  simp [lastNode]
theorem lastNode_cons (p : Nat) (b : Block) (l : List Block) : lastNode p (b :: l) = lastNode b.node l := by
  cases l with
  | nil => rfl
  | cons c cs =>
    simp only [lastNode, List.getLast?_cons_cons]
    cases h : (c :: cs).getLast? with
    | none => simp at h
    | some x => rfl

theorem chainedO_append (s : St) : ∀ (p : Nat) (l1 l2 : List Block),
    ChainedO s p (l1 ++ l2) ↔ ChainedO s p l1 ∧ ChainedO s (lastNode p l1) l2 := by
  intro p l1
  induction l1 generalizing p with
  | nil => intro l2; simp [ChainedO, lastNode]
  | cons b rest ih =>
    intro l2
    simp only [List.cons_append, ChainedO, lastNode_cons]
    rw [ih b.node l2]
    exact ⟨fun ⟨a, b, c⟩ => ⟨⟨a, b⟩, c⟩, fun ⟨⟨a, b⟩, c⟩ => ⟨a, b, c⟩⟩

/-- a link survives a state change that keeps kinds and tree links of List / container nodes -/
theorem LinkP.tf {s s' : St} {p : Nat} {b' : Block} (h : LinkP s p b') (e : Ext s s') (t : TF s s')
    (hp : p < s.nodes.length) (hb : b'.node < s.nodes.length) (hbk : (nd s b'.node).kind = b'.bp.kind) : LinkP s' p b' where
  down := fun hk => by
    rw [e.kind p hp] at hk
    obtain ⟨a, b, c⟩ := h.down hk
    refine ⟨a, ?_, by rw [t.kids p hp hk]; exact c⟩
    rw [t.parent b'.node hb (by rw [hbk, a]; rfl)]; exact b
  up := fun hi => by rw [e.kind p hp]; exact h.up hi

/-! ### every parser's `Close` -/

theorem closeAll (src : Bytes) (bp : BP) : CloseSpec src bp := by
  cases bp
  case list => exact listClose_spec src
  case listItem =>
    intro node s _ hn _ _
    exact OKL.ok ⟨rfl, rfl, Ext.refl s, hn, .inl rfl, .inl rfl, fun _ => rfl⟩
  all_goals exact (specs_notList src).close _ ⟨by decide, by decide⟩

/-- parent pointers point into the store -/
abbrev PLTf (s : St) : Prop := ∀ i p, (nd s i).parent = some p → p < s.nodes.length

/-- the lemmas about individual parsers that the list part of the driver proof uses (proved in GM.Proof.BlocksFrames,
    GM.Proof.BlocksDet; collected here so that this file does not depend on their proofs) -/
structure LSp (src : Bytes) : Prop where
  closeTF : ∀ (bp : BP) (node : Nat) (s s' : St), NodesOK src s → KeysOK s → BlockOK s ⟨node, bp⟩ → KidsOK s →
    bpClose bp node s = .ok ((), s') → TF s s'
  contTS : ∀ (bp : BP) (node : Nat) (s : St) (st : PState) (s' : St), bpContinue bp node s = .ok (st, s') → TreeSame s s'
  thematicDet : ∀ (parent : Nat) (s : St) (c : RCur), RI src s.r c → c.p < src.length →
    OKL (fun a s' => a.1.isSome = isThematicBreak ((RCur.view src c).getD []) (loVal src c) ∧
        (a.1 = none → s'.pc = s.pc ∧ s'.nodes = s.nodes)) (thematicOpen parent s)
  setextNone : ∀ (parent : Nat) (s : St) (c : RCur), RI src s.r c → c.p < src.length →
    OKL (fun a s' => a.1 = none → s'.pc = s.pc ∧ s'.nodes = s.nodes) (setextOpen parent s)
  paraCloseTS : ∀ (node : Nat) (s s' : St), BlockOK s ⟨node, .paragraph⟩ → NodesOK src s →
    paragraphClose node s = .ok ((), s') → TreeSame s s'
  closePLT : ∀ (bp : BP) (node : Nat) (s s' : St), NodesOK src s → KeysOK s → BlockOK s ⟨node, bp⟩ → KidsOK s →
    (∀ i p, (nd s i).parent = some p → p < s.nodes.length) → bpClose bp node s = .ok ((), s') →
    (∀ i p, (nd s' i).parent = some p → p < s'.nodes.length)

section close
variable {src : Bytes} (lsp : LSp src)
include lsp

theorem closeListL_okl (K : List Block) : ∀ (l : List Block) (s : St), s.r.source = src → NodesOK src s → KeysOK s →
    KidsOK s → PLTf s → (∀ b ∈ l, BlockOK s b) → (∀ b ∈ l.tail, b.bp.isContainer = true) →
    (∀ k ∈ K, BlockOK s k ∧ ∀ top, l.head? = some top → Compat s k top) →
    OKL (fun _ s' => s'.r = s.r ∧ s'.pc.opened = s.pc.opened ∧ NodesOK src s' ∧ KeysOK s' ∧ Ext s s' ∧ TF s s' ∧
        KidsOK s' ∧ PLTf s' ∧ ∀ k ∈ K, BlockOK s' k) (closeList l s) := by
  intro l
  induction l with
  | nil =>
    intro s _ hn hk hkids hplt _ _ hK
    exact OKL.ok ⟨rfl, rfl, hn, hk, Ext.refl s, TF.refl s, hkids, hplt, fun k hk' => (hK k hk').1⟩
  | cons top cs ih =>
    intro s hsrc hn hk hkids hplt hl hcs hK
    unfold closeList
    refine OKL.bind (m := getNode top.node) (P := fun n s1 => n = s.nodes.getD top.node default ∧ s1 = s)
      (OKL.ok ⟨rfl, rfl⟩) (fun n s0 hn0 => ?_)
    obtain ⟨hn0, hs0⟩ := hn0
    subst n s0
    have rest : ∀ s1 : St, (s1.r = s.r ∧ s1.pc.opened = s.pc.opened ∧ NodesOK src s1 ∧ KeysOK s1 ∧ Ext s s1 ∧ TF s s1 ∧
          KidsOK s1 ∧ PLTf s1 ∧ (∀ k ∈ K, BlockOK s1 k) ∧ (∀ b ∈ cs, BlockOK s1 b)) →
        OKL (fun _ s' => s'.r = s.r ∧ s'.pc.opened = s.pc.opened ∧ NodesOK src s' ∧ KeysOK s' ∧ Ext s s' ∧ TF s s' ∧
          KidsOK s' ∧ PLTf s' ∧ ∀ k ∈ K, BlockOK s' k) (closeList cs s1) := by
      intro s1 h1
      obtain ⟨hr, hop, hn1, hk1, he1, ht1, hkids1, hplt1, hK1, hcs1⟩ := h1
      have := ih s1 (by rw [hr]; exact hsrc) hn1 hk1 hkids1 hplt1 hcs1
        (fun b hb => hcs b (List.mem_of_mem_tail hb))
        (fun k hk' => ⟨hK1 k hk', fun top' ht => Compat.of_container (hcs top' (by
            cases cs with
            | nil => simp at ht
            | cons a as => simp at ht; subst ht; simp))⟩)
      refine OKL.mono this (fun _ s2 h2 => ?_)
      obtain ⟨a, b, c, d, e, t, kk, pp, f⟩ := h2
      exact ⟨by rw [a, hr], by rw [b, hop], c, d, he1.trans e, TF.trans ht1 he1 t e, kk, pp, f⟩
    by_cases hp : (s.nodes.getD top.node default).parent.isSome = true
    · rw [if_pos hp]
      have hc := closeAll src top.bp top.node s hsrc hn hk (hl top (by simp))
      -- the frame of this Close
      have hc' : OKL (fun (_ : Unit) s1 => ClosePost src top.bp top.node s s1 ∧ TF s s1 ∧ PLTf s1) (bpClose top.bp top.node s) := by
        rcases hc with ⟨a, s1, e1, h1⟩ | e1
        · exact .inl ⟨a, s1, e1, h1, lsp.closeTF top.bp top.node s s1 hn hk (hl top (by simp)) hkids e1,
            lsp.closePLT top.bp top.node s s1 hn hk (hl top (by simp)) hkids hplt e1⟩
        · exact .inr e1
      refine OKL.bind hc' (fun _ s1 h1 => rest s1 ?_)
      obtain ⟨h1, ht1, hplt1⟩ := h1
      have hks : KeysOK s1 := hk.ext h1.ext
        (by rcases h1.tmp with h | h; exact .inl h; exact .inr h.2)
        (by rcases h1.fence with h | h; exact .inl h; exact .inr h.2.1)
      refine ⟨h1.r, h1.opened, h1.nodes, hks, h1.ext, ht1, hkids.tf h1.ext ht1, hplt1, ?_, ?_⟩
      · intro k hk'
        obtain ⟨kok, kc⟩ := hK k hk'
        have kc := kc top rfl
        refine kok.ext h1.ext ?_ ?_
        · intro hse
          rcases h1.tmp with h | h
          · rw [h]; exact (kok.setext hse).2
          · exact absurd h.1 (kc.1 hse)
        · intro hfe
          rcases h1.fence with h | h
          · rw [h]; exact kok.fenced hfe
          · obtain ⟨h1', _, f, hf, hfn⟩ := h
            exact absurd hfn (kc.2 hfe h1' f hf)
      · intro b hb
        exact (hl b (by simp [hb])).ext_container h1.ext (hcs b hb)
    · rw [if_neg hp]
      exact rest s ⟨rfl, rfl, hn, hk, Ext.refl s, TF.refl s, hkids, hplt, fun k hk' => (hK k hk').1, fun b hb => hl b (by simp [hb])⟩

theorem closeBlocksL_okl (pre mid post : List Block) (s : St) (hop : s.pc.opened = pre ++ mid ++ post)
    (hsrc : s.r.source = src) (hn : NodesOK src s) (hk : KeysOK s) (hkids : KidsOK s) (hplt : PLTf s)
    (hmid : ∀ b ∈ mid, BlockOK s b) (hleafy : Leafy mid)
    (hK : ∀ k ∈ pre ++ post, BlockOK s k ∧ ∀ top, mid.getLast? = some top → Compat s k top) :
    OKL (fun _ s' => s'.r = s.r ∧ s'.pc.opened = pre ++ post ∧ NodesOK src s' ∧ KeysOK s' ∧ Ext s s' ∧ TF s s' ∧
        KidsOK s' ∧ PLTf s' ∧ (∀ k ∈ pre ++ post, BlockOK s' k))
      (closeBlocks ((pre.length : Int) + (mid.length : Int) - 1) (pre.length : Int) s) := by
  unfold closeBlocks
  refine OKL.bind (m := getPc) (P := fun pc s1 => pc = s.pc ∧ s1 = s) (OKL.ok ⟨rfl, rfl⟩) (fun pc s0 h0 => ?_)
  obtain ⟨h0, h0'⟩ := h0
  subst pc s0
  have hcnt : ((pre.length : Int) + (mid.length : Int) - 1 - (pre.length : Int) + 1).toNat = mid.length := by omega
  rw [hcnt, hop, closeLoop_eq (pre ++ mid ++ post) pre.length mid.length (by simp)]
  have hdt : ((pre ++ mid ++ post).drop pre.length).take mid.length = mid := by
    rw [List.append_assoc, List.drop_left, List.take_left]
  rw [hdt]
  have hcl := closeListL_okl lsp (pre ++ post) mid.reverse s hsrc hn hk hkids hplt
    (fun b hb => hmid b (by simpa using hb))
    (fun b hb => hleafy b (by
      have : mid.reverse.tail = mid.dropLast.reverse := by rw [List.tail_reverse]
      rw [this] at hb; simpa using hb))
    (fun k hk' => ⟨(hK k hk').1, fun top ht => (hK k hk').2 top (by
      rw [List.head?_reverse] at ht; exact ht)⟩)
  refine OKL.bind hcl (fun _ s1 h1 => ?_)
  obtain ⟨hr, hop1, hn1, hk1, he1, ht1, hkids1, hplt1, hK1⟩ := h1
  have hpre : closeBlocks.slice' (pre ++ mid ++ post) 0 (pre.length : Int) = .ok pre := by
    unfold closeBlocks.slice'
    rw [if_pos ⟨by omega, by omega, by simp; omega⟩]
    simp
  have hpost : closeBlocks.slice' (pre ++ mid ++ post) ((pre.length : Int) + (mid.length : Int) - 1 + 1)
      ((pre ++ mid ++ post).length : Int) = .ok post := by
    unfold closeBlocks.slice'
    rw [if_pos ⟨by omega, by simp; omega, by omega⟩]
    have e1 : ((pre.length : Int) + (mid.length : Int) - 1 + 1).toNat = pre.length + mid.length := by omega
    have e2 : (((pre ++ mid ++ post).length : Int) - ((pre.length : Int) + (mid.length : Int) - 1 + 1)).toNat = post.length := by
      simp; omega
    rw [e1, e2]
    have : (pre ++ mid ++ post).drop (pre.length + mid.length) = post := by
      rw [← List.length_append, List.drop_left]
    rw [this]; simp
  have hkids2 : ∀ (o : List Block), KidsOK ({ s1 with pc := { s1.pc with opened := o } } : St) := fun o =>
    ⟨hkids1.kids, hkids1.off, hkids1.pk⟩
  have htf2 : ∀ (o : List Block), TF s ({ s1 with pc := { s1.pc with opened := o } } : St) := fun o =>
    ⟨ht1.parent, ht1.kids, ht1.offset, ht1.newParent, ht1.newKind⟩
  by_cases hfl : ((pre.length : Int) + (mid.length : Int) - 1 == ((pre ++ mid ++ post).length : Int) - 1) = true
  · rw [if_pos hfl]
    have hpe : post = [] := by
      have : (pre.length : Int) + (mid.length : Int) - 1 = ((pre ++ mid ++ post).length : Int) - 1 := by simpa using hfl
      simp at this
      cases post with
      | nil => rfl
      | cons a as => simp at this; omega
    subst hpe
    simp only [bind, StateT.bind, liftE, hpre, Except.map, Except.bind, modPc, pure, StateT.pure, Except.pure]
    refine OKL.ok ⟨hr, by simp, hn1, ⟨hk1.tmp, hk1.fence⟩, ⟨he1.len, he1.kind, he1.linesNE⟩, htf2 _, hkids2 _, hplt1, ?_⟩
    intro k hk'
    have := hK1 k hk'
    exact ⟨this.lt, this.kind, this.para, this.setext, this.fenced⟩
  · rw [if_neg hfl]
    simp only [bind, StateT.bind, liftE, hpre, hpost, Except.map, Except.bind, modPc, pure, StateT.pure, Except.pure]
    refine OKL.ok ⟨hr, rfl, hn1, ⟨hk1.tmp, hk1.fence⟩, ⟨he1.len, he1.kind, he1.linesNE⟩, htf2 _, hkids2 _, hplt1, ?_⟩
    intro k hk'
    have := hK1 k hk'
    exact ⟨this.lt, this.kind, this.para, this.setext, this.fenced⟩

end close

/-! ### every parser's `Open` -/

theorem OKL.and {α} {P Q : α → St → Prop} {x : Except Panic (α × St)} (h1 : OKL P x) (h2 : OKL Q x) :
    OKL (fun a s => P a s ∧ Q a s) x := by
  rcases h1 with ⟨a, s', e, hp⟩ | e
  · rcases h2 with ⟨a2, s2, e2, hq⟩ | e2
    · rw [e] at e2; cases e2; exact .inl ⟨a, s', e, hp, hq⟩
    · rw [e] at e2; cases e2
  · exact .inr e

/-- `OpenPost` with the progress clause as the list parser satisfies it -/
structure OpenPostW (src : Bytes) (bp : BP) (parent : Nat) (s : St) (c : RCur) (a : Option Nat × PState) (s' : St) :
    Prop where
  ri : ∃ c', RI src s'.r c' ∧ PadOK c' ∧ c.p ≤ c'.p ∧ (a.1 = none → c' = c) ∧
    (a.2.hasChildren = true → (c.p < c'.p ∧ bp ≠ .list) ∨ (bp = .list ∧ c' = c))
  opened : s'.pc.opened = s.pc.opened
  boff : s'.pc.blockOffset = s.pc.blockOffset
  noNode : a.1 = none → s'.nodes = s.nodes
  newNode : ∀ id, a.1 = some id → id = s.nodes.length ∧ ∃ n, s'.nodes = s.nodes ++ [n] ∧ n.kind = bp.kind ∧
      NodeOK src n ∧ n.parent = none ∧ (bp = .list → n.children = []) ∧ (bp = .paragraph → n.lines ≠ []) ∧ (bp = .setext → n.lines ≠ []) ∧
      (bp = .listItem → 0 ≤ n.offset)
  tmp : (bp = .setext ∧ a.1.isSome = true ∧
          ∃ lb, s.pc.opened.getLast? = some lb ∧ (nd s lb.node).kind = .paragraph ∧
            (nd s lb.node).parent = some parent ∧ s'.pc.tmpPara = some lb.node) ∨
        ((bp ≠ .setext ∨ a.1 = none) ∧ s'.pc.tmpPara = s.pc.tmpPara)
  fence : (bp = .fenced ∧ ∃ id f, a.1 = some id ∧ s'.pc.fence = some f ∧ f.node = id ∧ 3 ≤ f.length ∧ 0 ≤ f.indent) ∨
        ((bp ≠ .fenced ∨ a.1 = none) ∧ s'.pc.fence = s.pc.fence)
  req : a.2.requirePara = true → bp = .setext ∧ a.1.isSome = true
  kids : a.2.hasChildren = true → bp.isContainer = true ∧ a.1.isSome = true
  -- what only some parsers tell
  keepPc : (bp = .setext ∨ bp = .thematic) → a.1 = none → s'.pc = s.pc
  thematic : bp = .thematic → a.1.isSome = isThematicBreak ((RCur.view src c).getD []) (loVal src c)
  listFacts : bp = .list → a.1.isSome = true → a.2.hasChildren = true ∧ s.pc.skipList = false ∧
      (∃ m typ, matchesListItem ((RCur.view src c).getD []) false = (m, typ) ∧ typ ≠ .notList ∧ m.r1 ≤ 3) ∧
      ¬ (match s.pc.opened.getLast? with | some lb => (nd s lb.node).kind = .list | none => False)
  itemFacts : bp = .listItem → (a.1.isSome = true → (nd s parent).kind = .list) ∧ s'.pc.skipList = s.pc.skipList ∧
      ((nd s parent).kind = .list →
        (∀ m typ, matchesListItem ((RCur.view src c).getD []) false = (m, typ) →
          typ ≠ .notList ∧ m.r1 - li_lastOff s parent ≤ 3) → a.1.isSome = true)

theorem openPost_toW {src bp parent s c a s'} (h : OpenPost src bp parent s c a s') (hl : bp ≠ .list) (hi : bp ≠ .listItem)
    (hkeep : (bp = .setext ∨ bp = .thematic) → a.1 = none → s'.pc = s.pc)
    (hth : bp = .thematic → a.1.isSome = isThematicBreak ((RCur.view src c).getD []) (loVal src c)) :
    OpenPostW src bp parent s c a s' where
  ri := by
    obtain ⟨c', a1, a2, a3, a4, a5⟩ := h.ri
    exact ⟨c', a1, a2, a3, a4, fun hh => .inl ⟨a5 hh, hl⟩⟩
  opened := h.opened
  boff := h.boff
  noNode := h.noNode
  newNode := fun id hid => by
    obtain ⟨e, n, a1, a2, a3, a4, a5, a6⟩ := h.newNode id hid
    exact ⟨e, n, a1, a2, a3, a4, fun hh => absurd hh hl, a5, a6, fun hh => absurd hh hi⟩
  tmp := h.tmp
  fence := h.fence
  req := h.req
  kids := h.kids
  keepPc := hkeep
  thematic := hth
  listFacts := fun hh => absurd hh hl
  itemFacts := fun hh => absurd hh hi

theorem OKL.and_ret {α} {P : α → St → Prop} {Q : α → Prop} {m : M α} {s : St} (h1 : OKL P (m s)) (h2 : Ret m Q) :
    OKL (fun a s' => P a s' ∧ Q a) (m s) := by
  rcases h1 with ⟨a, s', e, hp⟩ | e
  · exact .inl ⟨a, s', e, hp, h2.h s a s' e⟩
  · exact .inr e

theorem listItemOpen_ret (p : Nat) : Ret (listItemOpen p)
    (fun a => a.2.requirePara = false ∧ (a.2.hasChildren = true → a.1.isSome = true)) := by
  unfold listItemOpen; ret
  all_goals exact Ret.pure ⟨rfl, fun _ => rfl⟩

section openall
variable {src : Bytes} (lsp : LSp src)
include lsp

omit lsp in
theorem li_kidsOK_of {s : St} (h : KidsOK s) (parent : Nat) (hk : (nd s parent).kind = .list) : li_ListKidsOK s parent :=
  fun lc hlc => (h.kids parent lc hk (List.mem_of_getLast? hlc)).2

omit lsp in
theorem listItemOpen_notList (parent : Nat) (s : St) (hk : (nd s parent).kind ≠ .list) :
    listItemOpen parent s = .ok ((none, stNoChildren), s) := by
  unfold listItemOpen
  simp only [bind, StateT.bind, getNode, pure, StateT.pure, Except.bind, Except.pure]
  have : ((List.getD s.nodes parent default).kind != Kind.list) = true := by
    simp only [nd] at hk; simpa using hk
  rw [if_pos this]
  rfl

/-- `Open` of every default block parser from the invariant -/
theorem openAllW (bp : BP) (parent : Nat) (s : St) (c : RCur) (hc : LineCtx src s c) (hkids : KidsOK s) :
    OKL (fun a s' => OpenPostW src bp parent s c a s') (bpOpen bp parent s) := by
  have gen : ∀ bp', bp' ≠ .list → bp' ≠ .listItem → bp' ≠ .setext → bp' ≠ .thematic →
      OKL (fun a s' => OpenPostW src bp' parent s c a s') (bpOpen bp' parent s) := by
    intro bp' h1 h2 h3 h4
    refine ((specs_notList src).opn bp' ⟨h1, h2⟩ parent s c hc).mono (fun a s' h => ?_)
    exact openPost_toW h h1 h2 (fun hh => by rcases hh with hh | hh; exact absurd hh h3; exact absurd hh h4) (fun hh => absurd hh h4)
  cases bp
  case setext =>
    refine (OKL.and ((specs_notList src).opn .setext ⟨by decide, by decide⟩ parent s c hc)
      (lsp.setextNone parent s c hc.ri hc.lt)).mono (fun a s' h => ?_)
    exact openPost_toW h.1 (by decide) (by decide) (fun _ hn => (h.2 hn).1) ((by intro hh; cases hh))
  case thematic =>
    refine (OKL.and ((specs_notList src).opn .thematic ⟨by decide, by decide⟩ parent s c hc)
      (lsp.thematicDet parent s c hc.ri hc.lt)).mono (fun a s' h => ?_)
    exact openPost_toW h.1 (by decide) (by decide) (fun _ hn => (h.2.2 hn).1) (fun _ => h.2.1)
  case list =>
    refine (listOpen_okl src parent s c hc).mono (fun a s' h => ?_)
    obtain ⟨r', hr, hri, ho, hb, _, ht, hf, _, hnone, hsome⟩ := h
    exact {
      ri := ⟨c, by rw [hr]; exact hri, hc.pad, Nat.le_refl _, fun _ => rfl, fun _ => .inr ⟨rfl, rfl⟩⟩
      opened := ho
      boff := hb
      noNode := fun hn => (hnone hn).1
      newNode := fun id hid => by
        obtain ⟨e, _, _, _, ⟨n, a1, a2, a3, a4, a5, a6, a7⟩, _, _⟩ := hsome id hid
        exact ⟨e, n, a1, a2, a7, a6, fun _ => a3, (by intro hh; cases hh), (by intro hh; cases hh), (by intro hh; cases hh)⟩
      tmp := .inr ⟨.inl (by decide), ht⟩
      fence := .inr ⟨.inl (by decide), hf⟩
      req := fun hr' => by
        cases ha : a.1 with
        | none => rw [(hnone ha).2.1] at hr'; cases hr'
        | some id => rw [(hsome id ha).2.1] at hr'; cases hr'
      kids := fun hch => by
        cases ha : a.1 with
        | none => rw [(hnone ha).2.1] at hch; cases hch
        | some id => exact ⟨rfl, rfl⟩
      keepPc := (by intro hh; rcases hh with hh | hh <;> cases hh)
      thematic := (by intro hh; cases hh)
      listFacts := fun _ his => by
        cases ha : a.1 with
        | none => rw [ha] at his; cases his
        | some id =>
          obtain ⟨_, e2, _, e4, _, ⟨m, typ, _, hm2, hm3, hok⟩, hl⟩ := hsome id ha
          exact ⟨by rw [e2]; rfl, e4, ⟨m, typ, hm2, hm3, hok.r1_le⟩, hl⟩
      itemFacts := (by intro hh; cases hh) }
  case listItem =>
    by_cases hk : (nd s parent).kind = .list
    · refine (OKL.and_ret (listItemOpen_okl2 src parent s c hc (li_kidsOK_of hkids parent hk)) (listItemOpen_ret parent)).mono
        (fun a s' h => ?_)
      obtain ⟨⟨c', a1, a2, a3, a4, a5, _, a7, a8, a9, a10, a11, a12, a13, a14⟩, hret⟩ := h
      -- the answer is NoChildren / HasChildren: read it off the node clause
      exact {
        ri := ⟨c', a1, a2, a3, a4, fun hh => .inl ⟨a5 hh, by decide⟩⟩
        opened := a7
        boff := a8
        noNode := a11
        newNode := fun id hid => by
          obtain ⟨e, _, n, b1, b2, b3, b4, b5, b6, b7⟩ := a12 id hid
          exact ⟨e, n, b1, b2, ⟨by rw [b4]; intro t ht; simp at ht, fun _ => b4⟩, b6, (by intro hh; cases hh),
            (by intro hh; cases hh), (by intro hh; cases hh), fun _ => by omega⟩
        tmp := .inr ⟨.inl (by decide), a9⟩
        fence := .inr ⟨.inl (by decide), a10⟩
        req := fun hr => by rw [hret.1] at hr; cases hr
        kids := fun hh => ⟨rfl, hret.2 hh⟩
        keepPc := (by intro hh; rcases hh with hh | hh <;> cases hh)
        thematic := (by intro hh; cases hh)
        listFacts := (by intro hh; cases hh)
        itemFacts := fun _ => ⟨fun _ => hk, a13, a14⟩ }
    · have e := listItemOpen_notList parent s hk
      show OKL _ (listItemOpen parent s)
      rw [e]
      exact OKL.ok {
        ri := ⟨c, hc.ri, hc.pad, Nat.le_refl _, fun _ => rfl, (by intro hh; cases hh)⟩
        opened := rfl
        boff := rfl
        noNode := fun _ => rfl
        newNode := (by intro id hid; cases hid)
        tmp := .inr ⟨.inl (by decide), rfl⟩
        fence := .inr ⟨.inl (by decide), rfl⟩
        req := (by intro hh; cases hh)
        kids := (by intro hh; cases hh)
        keepPc := (by intro hh; rcases hh with hh | hh <;> cases hh)
        thematic := (by intro hh; cases hh)
        listFacts := (by intro hh; cases hh)
        itemFacts := fun _ => ⟨(by intro hh; cases hh), rfl, fun hh => absurd hh hk⟩ }
  all_goals exact gen _ (by decide) (by decide) (by decide) (by decide)

end openall

/-! ### the list part of the invariant -/

theorem chainedO_agree {s s' : St} : ∀ (p : Nat) (l : List Block), ChainedO s p l →
    (∀ a ∈ p :: l.map (·.node), (nd s' a).kind = (nd s a).kind) →
    (∀ b ∈ l, (nd s' b.node).parent = (nd s b.node).parent) →
    (∀ a ∈ p :: l.dropLast.map (·.node), (nd s' a).children = (nd s a).children) → ChainedO s' p l := by
  intro p l
  induction l generalizing p with
  | nil => intro _ _ _ _; trivial
  | cons b rest ih =>
    intro h hk hpar hch
    obtain ⟨hl, hr⟩ := h
    refine ⟨⟨fun hkk => ?_, fun hi => ?_⟩, ?_⟩
    · rw [hk p (by simp)] at hkk
      obtain ⟨a1, a2, a3⟩ := hl.down hkk
      exact ⟨a1, by rw [hpar b (by simp)]; exact a2, by rw [hch p (by simp)]; exact a3⟩
    · rw [hk p (by simp)]; exact hl.up hi
    · cases rest with
      | nil => trivial
      | cons r rs =>
        refine ih b.node hr (fun a ha => hk a (List.mem_cons_of_mem _ (by simpa using ha)))
          (fun x hx => hpar x (List.mem_cons_of_mem _ hx)) (fun a ha => hch a ?_)
        simp only [List.dropLast_cons_cons, List.map_cons, List.mem_cons] at ha ⊢
        rcases ha with h | h
        · exact .inr (.inl h)
        · exact .inr (.inr (by simpa using h))

theorem chainedO_tf {s s' : St} (e : Ext s s') (t : TF s s') : ∀ (p : Nat) (l : List Block), ChainedO s p l →
    p < s.nodes.length → (∀ b ∈ l, b.node < s.nodes.length ∧ (nd s b.node).kind = b.bp.kind) → ChainedO s' p l := by
  intro p l
  induction l generalizing p with
  | nil => intro _ _ _; trivial
  | cons b rest ih =>
    intro h hp hb
    exact ⟨h.1.tf e t hp (hb b (by simp)).1 (hb b (by simp)).2,
      ih b.node h.2 (hb b (by simp)).1 (fun x hx => hb x (List.mem_cons_of_mem _ hx))⟩

/-- the part of the list invariant that does not depend on the window -/
structure LStore (s : St) (root : Nat) : Prop where
  kids : KidsOK s
  plt : ∀ i p, (nd s i).parent = some p → p < s.nodes.length
  rootKind : (nd s root).kind = .document
  rootLt : root < s.nodes.length
  attached : ∀ b ∈ s.pc.opened, b.bp.isContainer = true → (nd s b.node).parent.isSome = true
  incr : (root :: s.pc.opened.map (·.node)).Pairwise (· < ·)

theorem isCont_of_container {bp : BP} (h : bp.isContainer = true) : bp.kind.isCont = true := by
  cases bp <;> simp [BP.isContainer, BP.kind, Kind.isCont] at h ⊢

/-- a `Continue` / `Close` step -/
theorem LStore.step {s s' : St} {root : Nat} (h : LStore s root) (e : Ext s s') (t : TF s s')
    (hplt : ∀ i p, (nd s' i).parent = some p → p < s'.nodes.length) (ho : s'.pc.opened = s.pc.opened)
    (hb : ∀ b ∈ s.pc.opened, BlockOK s b) : LStore s' root where
  kids := h.kids.tf e t
  plt := hplt
  rootKind := by rw [e.kind root h.rootLt]; exact h.rootKind
  rootLt := Nat.lt_of_lt_of_le h.rootLt e.len
  attached := fun b hbm hc => by
    rw [ho] at hbm
    have hbk := hb b hbm
    rw [t.parent b.node hbk.lt (by rw [hbk.kind]; exact isCont_of_container hc)]
    exact h.attached b hbm hc
  incr := by rw [ho]; exact h.incr

/-! ### the window invariant, list-aware -/

/-- the line the cursor is on -/
abbrev lineOf (src : Bytes) (c : RCur) : Bytes := (RCur.view src c).getD []

/-- the invariant of one `openBlocks` call (cf. `GM.Blocks.Win`), with the list part: `root` = the document node, `pre` =
    the prefix of `old` that stays on the stack (the new blocks are appended below its last block) -/
structure WinL (src : Bytes) (old pre : List Block) (root : Nat) (s0 s : St) (new : List Block) : Prop where
  nodes : NodesOK src s
  keys : KeysOK s
  ext : Ext s0 s
  shape : s.pc.opened = old ++ new ∨ (old ≠ [] ∧ new ≠ [] ∧ s.pc.opened = old.dropLast ++ new)
  blocks : ∀ b ∈ s.pc.opened, BlockOK s b
  oldlt : ∀ b ∈ old, b.node < s0.nodes.length
  leafyOld : Leafy old
  fresh : ∀ b ∈ new, s0.nodes.length ≤ b.node
  ls : LStore s root
  chain : ChainedO s root (pre ++ new)
  stack : ∃ suf, s.pc.opened = pre ++ suf ++ new
  tsame : new = [] → TreeSame s0 s

/-- static facts about one `openBlocks` call -/
structure Call (old pre : List Block) : Prop where
  pref : ∃ suf0, old = pre ++ suf0 ∧ (suf0 = [] → ∀ b, old.getLast? = some b → b.bp.isContainer = true)

/-- a list was just opened (same line, nothing consumed): the next `goto retry` must open its first item -/
structure DueNew (src : Bytes) (sb s : St) (c : RCur) (L : Nat) : Prop where
  kind : (nd s L).kind = .list
  noKids : (nd s L).children = []
  isLast : ∃ lb, s.pc.opened.getLast? = some lb ∧ lb.node = L
  m : ∃ m typ, matchesListItem (lineOf src c) false = (m, typ) ∧ typ ≠ .notList ∧ m.r1 ≤ 3
  th : ∀ (ch : UInt8) (l pre rest : List BP), (lineOf src c)[(indentWidthI (lineOf src c) (loVal src c)).2.toNat]? = some ch →
    triggered ch = some l → l = pre ++ BP.list :: rest → (∀ q ∈ pre, q = .setext ∨ q = .thematic) → BP.thematic ∈ pre →
    isThematicBreak (lineOf src c) (loVal src c) = false
  wasNotList : lastIsList sb = false

/-- what `tryParsers` hands back; `sb` = the state it started in -/
def TPPostL (src : Bytes) (old pre : List Block) (root : Nat) (s0 sb : St) (c : RCur)
    (x : TryOutcome × OpenResult × Option Block) (s' : St) : Prop :=
  ∃ c' new', RI src s'.r c' ∧ PadOK c' ∧ c.p ≤ c'.p ∧ WinL src old pre root s0 s' new' ∧
    ((x.2.1 = .noBlocksOpened ∧ new' = [] ∧ x.2.2 = old.getLast?) ∨ (x.2.1 = .newBlocksOpened ∧ new' ≠ [])) ∧
    (∀ k ∈ new', ∀ b ∈ old, Compat s' k b) ∧
    match x.1 with
    | .retry p => (∀ b ∈ new', b.bp.isContainer = true) ∧ p = lastNode root (pre ++ new') ∧
        ((c.p < c'.p ∧ (nd s' p).kind ≠ .list) ∨ (c' = c ∧ DueNew src sb s' c p))
    | .done => Leafy new' ∧ (nd s' (lastNode root (pre ++ new'))).kind ≠ .list

/-- the facts about the freshly built block (cf. `GM.Blocks.Mid`) -/
structure MidL (src : Bytes) (old pre : List Block) (root : Nat) (s0 : St) (id : Nat) (bp : BP) (s : St)
    (new : List Block) : Prop where
  nodes : NodesOK src s
  keys : KeysOK s
  ext : Ext s0 s
  shape : s.pc.opened = old ++ new ∨ (old ≠ [] ∧ s.pc.opened = old.dropLast ++ new)
  blocks : ∀ b ∈ s.pc.opened, BlockOK s b
  nb : BlockOK s ⟨id, bp⟩
  idge : s0.nodes.length ≤ id
  fenceNew : bp = .fenced → ∃ f, s.pc.fence = some f ∧ f.node = id
  setextOld : bp = .setext → ∀ b ∈ old, b.bp ≠ .setext
  -- list part
  ls : LStore s root
  chain : ChainedO s root (pre ++ new)
  stack : ∃ suf, s.pc.opened = pre ++ suf ++ new
  idgt : ∀ b ∈ s.pc.opened, b.node < id
  rootid : root < id
  idpar : (nd s id).parent = none
  idkids : bp = .list → (nd s id).children = []
  idoff : bp = .listItem → 0 ≤ (nd s id).offset
  nopt : ∀ i, (nd s i).parent ≠ some id          -- nobody points to the new node yet

theorem WinL.toWin {src old pre root s0 s new} (h : WinL src old pre root s0 s new)
    (hallc : ∀ b ∈ new, b.bp.isContainer = true) : Win src (fun _ => True) old s0 s new where
  nodes := h.nodes
  keys := h.keys
  ext := h.ext
  shape := h.shape
  blocks := fun b hb => ⟨h.blocks b hb, trivial⟩
  oldlt := h.oldlt
  leafyOld := h.leafyOld
  fresh := h.fresh
  lastParent := fun lb hlb => by
    have hm : lb ∈ new := List.mem_of_getLast? hlb
    refine h.ls.attached lb ?_ (hallc lb hm)
    rcases h.shape with e | ⟨_, _, e⟩ <;> rw [e] <;> exact List.mem_append_right _ hm

theorem openPostW_toPost {src bp parent s c x st s'} (h : OpenPostW src bp parent s c (x, st) s') :
    OpenPost src bp parent s c (x, { st with hasChildren := false }) s' where
  ri := by
    obtain ⟨c', a1, a2, a3, a4, _⟩ := h.ri
    exact ⟨c', a1, a2, a3, a4, fun hh => by cases hh⟩
  opened := h.opened
  boff := h.boff
  noNode := h.noNode
  newNode := fun id hid => by
    obtain ⟨e, n, a1, a2, a3, a4, _, a5, a6, _⟩ := h.newNode id hid
    exact ⟨e, n, a1, a2, a3, a4, a5, a6⟩
  tmp := h.tmp
  fence := h.fence
  req := h.req
  kids := fun hh => by cases hh

theorem nd_eq_of_nodes_eq {s s' : St} (h : s'.nodes = s.nodes) (i : Nat) : nd s' i = nd s i := by simp only [nd, h]

theorem LStore.congr {s s' : St} {root : Nat} (h : LStore s root) (hn : s'.nodes = s.nodes)
    (ho : s'.pc.opened = s.pc.opened) : LStore s' root where
  kids := ⟨fun i lc hk hm => by
      rw [nd_eq_of_nodes_eq hn] at hk hm
      have := h.kids.kids i lc hk hm
      exact ⟨by rw [hn]; exact this.1, by rw [nd_eq_of_nodes_eq hn]; exact this.2⟩,
    fun i hk => by rw [nd_eq_of_nodes_eq hn] at hk ⊢; exact h.kids.off i hk,
    fun i p hp hk => by rw [nd_eq_of_nodes_eq hn] at hp hk ⊢; exact h.kids.pk i p hp hk⟩
  plt := fun i p hp => by rw [nd_eq_of_nodes_eq hn] at hp; rw [hn]; exact h.plt i p hp
  rootKind := by rw [nd_eq_of_nodes_eq hn]; exact h.rootKind
  rootLt := by rw [hn]; exact h.rootLt
  attached := fun b hb hc => by rw [ho] at hb; rw [nd_eq_of_nodes_eq hn]; exact h.attached b hb hc
  incr := by rw [ho]; exact h.incr

theorem chainedO_congr {s s' : St} (hn : s'.nodes = s.nodes) (p : Nat) (l : List Block) (h : ChainedO s p l) :
    ChainedO s' p l :=
  chainedO_agree p l h (fun a _ => by rw [nd_eq_of_nodes_eq hn]) (fun b _ => by rw [nd_eq_of_nodes_eq hn])
    (fun a _ => by rw [nd_eq_of_nodes_eq hn])

/-- an attempt that built nothing -/
theorem open_noneL {src old pre root s0 bp parent s c st s1 new} (hO : OpenPostW src bp parent s c (none, st) s1)
    (hc : LineCtx src s c) (hw : WinL src old pre root s0 s new) (hallc : ∀ b ∈ new, b.bp.isContainer = true) :
    LineCtx src s1 c ∧ WinL src old pre root s0 s1 new ∧ s1.pc.opened = s.pc.opened ∧ s1.nodes = s.nodes := by
  obtain ⟨hc1, hw1, ho⟩ := open_none (openPostW_toPost hO) hc (hw.toWin hallc)
  have hn := hO.noNode rfl
  exact ⟨hc1, ⟨hw1.nodes, hw1.keys, hw1.ext, hw1.shape, fun b hb => (hw1.blocks b hb).1, hw1.oldlt, hw1.leafyOld, hw1.fresh,
    hw.ls.congr hn ho, chainedO_congr hn _ _ hw.chain, by rw [ho]; exact hw.stack,
    fun h => (hw.tsame h).trans (TreeSame.of_nodes_eq hn)⟩, ho, hn⟩

theorem nd_append_lt {s s' : St} {n : Node} (hn : s'.nodes = s.nodes ++ [n]) {j : Nat} (hj : j < s.nodes.length) :
    nd s' j = nd s j := nd_of_append_lt hn hj

theorem nd_append_self {s s' : St} {n : Node} (hn : s'.nodes = s.nodes ++ [n]) : nd s' s.nodes.length = n := by
  simp only [nd, hn]; exact getD_length_append _ _ _

theorem nd_append_gt {s s' : St} {n : Node} (hn : s'.nodes = s.nodes ++ [n]) {j : Nat} (hj : s.nodes.length < j) :
    nd s' j = default := by
  apply nd_default_of_ge; rw [hn]; simp; omega

/-- an attempt that built the node `id` -/
theorem open_someL {src old pre root s0 bp parent s c st s1 new id} (hO : OpenPostW src bp parent s c (some id, st) s1)
    (hw : WinL src old pre root s0 s new) (hallc : ∀ b ∈ new, b.bp.isContainer = true) :
    MidL src old pre root s0 id bp s1 new ∧ id = s.nodes.length ∧ s1.pc.opened = s.pc.opened ∧
    (∀ j, j < s.nodes.length → nd s1 j = nd s j) ∧ s1.nodes.length = s.nodes.length + 1 ∧
    (st.requirePara = true → ∃ lb, s.pc.opened.getLast? = some lb ∧ (nd s lb.node).parent = some parent ∧
        lb.bp = .paragraph ∧ new = [] ∧ s.pc.opened = old) := by
  obtain ⟨hm, hid, ho, hnd, hpar, hlen, hreq⟩ := open_some (openPostW_toPost hO) (hw.toWin hallc) hallc trivial
  obtain ⟨_, n, hn, hkind, _, hnpar, hnkids, _, _, hnoff⟩ := hO.newNode id rfl
  have hndid : nd s1 id = n := by rw [hid]; exact nd_append_self hn
  have hlt : ∀ b ∈ s.pc.opened, b.node < s.nodes.length := fun b hb => (hw.blocks b hb).lt
  have hnd' : ∀ j, nd s1 j = if j < s.nodes.length then nd s j else if j = s.nodes.length then n else default := by
    intro j
    by_cases h1 : j < s.nodes.length
    · rw [if_pos h1]; exact hnd j h1
    · rw [if_neg h1]
      by_cases h2 : j = s.nodes.length
      · rw [if_pos h2, h2]; exact nd_append_self hn
      · rw [if_neg h2]; exact nd_append_gt hn (by omega)
  have hls : LStore s1 root := by
    refine ⟨⟨?_, ?_, ?_⟩, ?_, by rw [hnd root hw.ls.rootLt]; exact hw.ls.rootKind, by rw [hlen]; exact Nat.lt_succ_of_lt hw.ls.rootLt,
      fun b hb hc => by rw [ho] at hb; rw [hnd _ (hlt b hb)]; exact hw.ls.attached b hb hc, by rw [ho]; exact hw.ls.incr⟩
    · intro i lc hk hmem
      rw [hnd' i] at hk hmem
      split at hk
      · rename_i hi
        rw [if_pos hi] at hmem
        obtain ⟨a, b⟩ := hw.ls.kids.kids i lc hk hmem
        exact ⟨by rw [hlen]; exact Nat.lt_succ_of_lt a, by rw [hnd lc a]; exact b⟩
      · rename_i hi
        rw [if_neg hi] at hmem
        split at hk
        · rename_i hi2
          rw [if_pos hi2] at hmem
          rw [hkind] at hk
          have hbl : bp = .list := by cases bp <;> simp [BP.kind] at hk ⊢
          rw [hnkids hbl] at hmem; cases hmem
        · cases hk
    · intro i hk
      rw [hnd' i] at hk ⊢
      split at hk
      · rename_i hi; rw [if_pos hi]; exact hw.ls.kids.off i hk
      · rename_i hi
        rw [if_neg hi]
        split at hk
        · rename_i hi2
          rw [if_pos hi2]
          rw [hkind] at hk
          have hbl : bp = .listItem := by cases bp <;> simp [BP.kind] at hk ⊢
          exact hnoff hbl
        · cases hk
    · intro i p hp hk
      rw [hnd' i] at hp ⊢
      split at hp
      · rename_i hi
        have hpl := hw.ls.plt i p hp
        rw [hnd p hpl] at hk
        rw [if_pos ‹_›]
        exact hw.ls.kids.pk i p hp hk
      · split at hp
        · rw [hnpar] at hp; cases hp
        · cases hp
    · intro i p hp
      rw [hnd' i] at hp
      split at hp
      · rw [hlen]; exact Nat.lt_succ_of_lt (hw.ls.plt i p hp)
      · split at hp
        · rw [hnpar] at hp; cases hp
        · cases hp
  have hchain : ChainedO s1 root (pre ++ new) := by
    have hmem : ∀ b ∈ pre ++ new, b ∈ s.pc.opened := by
      obtain ⟨suf, e⟩ := hw.stack
      intro b hb
      rw [e]
      rcases List.mem_append.1 hb with h | h
      · exact List.mem_append_left _ (List.mem_append_left _ h)
      · exact List.mem_append_right _ h
    refine chainedO_agree root (pre ++ new) hw.chain ?_ ?_ ?_
    · intro a ha
      simp only [List.mem_cons, List.mem_map] at ha
      rcases ha with rfl | ⟨b, hb, rfl⟩
      · rw [hnd _ hw.ls.rootLt]
      · rw [hnd _ (hlt b (hmem b hb))]
    · intro b hb; rw [hnd _ (hlt b (hmem b hb))]
    · intro a ha
      simp only [List.mem_cons, List.mem_map] at ha
      rcases ha with rfl | ⟨b, hb, rfl⟩
      · rw [hnd _ hw.ls.rootLt]
      · rw [hnd _ (hlt b (hmem b (List.dropLast_subset _ hb)))]
  refine ⟨⟨hm.nodes, hm.keys, hm.ext, hm.shape, fun b hb => (hm.blocks b hb).1, hm.nb, hm.idge, hm.fenceNew, hm.setextOld,
    hls, hchain, by rw [ho]; exact hw.stack, fun b hb => by rw [ho] at hb; rw [hid]; exact hlt b hb,
    by rw [hid]; exact hw.ls.rootLt, by rw [hndid]; exact hnpar, fun hb => by rw [hndid]; exact hnkids hb, fun hb => by rw [hndid]; exact hnoff hb, ?_⟩,
    hid, ho, hnd, hlen, hreq⟩
  intro i hp
  rw [hnd' i] at hp
  split at hp
  · have := hw.ls.plt i id hp; omega
  · split at hp
    · rw [hnpar] at hp; cases hp
    · cases hp

/-! ### steps of a successful attempt -/

theorem pairwise_lt_lastNode : ∀ (p : Nat) (l : List Block), (p :: l.map (·.node)).Pairwise (· < ·) → l ≠ [] →
    ∀ a ∈ p :: l.dropLast.map (·.node), a < lastNode p l := by
  intro p l
  induction l generalizing p with
  | nil => intro _ h; exact absurd rfl h
  | cons b rest ih =>
    intro hp _ a ha
    rw [lastNode_cons]
    have hp' : (b.node :: rest.map (·.node)).Pairwise (· < ·) := (List.pairwise_cons.1 hp).2
    have hpb : p < b.node := (List.pairwise_cons.1 hp).1 b.node (by simp)
    cases rest with
    | nil =>
      simp only [List.dropLast_singleton, List.map_nil, List.mem_cons, List.not_mem_nil, or_false] at ha
      subst ha; simpa [lastNode] using hpb
    | cons r rs =>
      simp only [List.dropLast_cons_cons, List.map_cons, List.mem_cons] at ha
      have hlast := ih b.node hp' (by simp)
      rcases ha with rfl | ha
      · exact Nat.lt_trans hpb (hlast b.node (by simp))
      · exact hlast a (by simpa using ha)

theorem lastNode_mem (p : Nat) (l : List Block) : lastNode p l = p ∨ ∃ b ∈ l, lastNode p l = b.node := by
  unfold lastNode
  cases h : l.getLast? with
  | none => left; rfl
  | some b => right; exact ⟨b, List.mem_of_getLast? h, rfl⟩

theorem MidL.sub {src old pre root s0 id bp s new} (h : MidL src old pre root s0 id bp s new) :
    ∀ b ∈ pre ++ new, b ∈ s.pc.opened := by
  obtain ⟨suf, e⟩ := h.stack
  intro b hb
  rw [e]
  rcases List.mem_append.1 hb with h' | h'
  · exact List.mem_append_left _ (List.mem_append_left _ h')
  · exact List.mem_append_right _ h'

theorem MidL.incr' {src old pre root s0 id bp s new} (h : MidL src old pre root s0 id bp s new) :
    (root :: (pre ++ new).map (·.node)).Pairwise (· < ·) := by
  obtain ⟨suf, e⟩ := h.stack
  have := h.ls.incr
  rw [e] at this
  refine this.sublist ?_
  refine List.Sublist.cons_cons _ (List.Sublist.map _ ?_)
  rw [List.append_assoc]
  exact List.Sublist.append (List.Sublist.refl _) (List.sublist_append_right _ _)

/-- the current parent (the node the next block goes under) is an old node, below `id` -/
theorem MidL.parent_lt {src old pre root s0 id bp s new} (h : MidL src old pre root s0 id bp s new) :
    lastNode root (pre ++ new) < id ∧ lastNode root (pre ++ new) < s.nodes.length := by
  rcases lastNode_mem root (pre ++ new) with e | ⟨b, hb, e⟩
  · rw [e]
    exact ⟨h.rootid, h.ls.rootLt⟩
  · rw [e]
    exact ⟨h.idgt b (h.sub b hb), (h.blocks b (h.sub b hb)).lt⟩

/-- a change that keeps every node's kind, lines, parent, children and offset (the blank flag; `paragraph.Close`) -/
theorem MidL.same {src old pre root s0 id bp s s' new} (h : MidL src old pre root s0 id bp s new)
    (e : Ext s s') (hnodes : NodesOK src s') (t : TreeSame s s') (ho : s'.pc.opened = s.pc.opened)
    (ht : s'.pc.tmpPara = s.pc.tmpPara) (hf : s'.pc.fence = s.pc.fence) : MidL src old pre root s0 id bp s' new := by
  have hbok : ∀ b, BlockOK s b → BlockOK s' b := fun b hb =>
    hb.ext e (fun hp => by rw [ht]; exact (hb.setext hp).2) (fun hp => by rw [hf]; exact hb.fenced hp)
  refine ⟨hnodes, h.keys.ext e (.inl ht) (.inl hf), h.ext.trans e, by rw [ho]; exact h.shape,
    fun b hb => by rw [ho] at hb; exact hbok b (h.blocks b hb), hbok _ h.nb, h.idge,
    fun hp => by rw [hf]; exact h.fenceNew hp, h.setextOld, ?_, ?_, by rw [ho]; exact h.stack,
    fun b hb => by rw [ho] at hb; exact h.idgt b hb, h.rootid, by rw [(t.same id).2.1]; exact h.idpar,
    fun hb => by rw [(t.same id).2.2.1]; exact h.idkids hb, fun hb => by rw [(t.same id).2.2.2]; exact h.idoff hb,
    fun i => by rw [(t.same i).2.1]; exact h.nopt i⟩
  · exact h.ls.step e t.tf (fun i p hp => by rw [(t.same i).2.1] at hp; rw [t.len]; exact h.ls.plt i p hp) ho h.blocks
  · exact chainedO_agree root (pre ++ new) h.chain (fun a _ => (t.same a).1) (fun b _ => (t.same b.node).2.1)
      (fun a _ => (t.same a).2.2.1)

/-- popping the last opened block (nothing else changes) -/
theorem MidL.pop {src old pre root s0 id bp s} (h : MidL src old pre root s0 id bp s []) (hop : s.pc.opened = old)
    (hne : old ≠ []) (hsuf : ∃ suf, old = pre ++ suf ∧ suf ≠ []) :
    MidL src old pre root s0 id bp { s with pc := { s.pc with opened := old.dropLast } } [] where
  nodes := h.nodes
  keys := ⟨h.keys.tmp, h.keys.fence⟩
  ext := ⟨h.ext.len, h.ext.kind, h.ext.linesNE⟩
  shape := .inr ⟨hne, by simp⟩
  blocks := fun b hb => by
    have hb' : b ∈ s.pc.opened := by rw [hop]; exact List.dropLast_subset _ hb
    have := h.blocks b hb'
    exact ⟨this.lt, this.kind, this.para, this.setext, this.fenced⟩
  nb := ⟨h.nb.lt, h.nb.kind, h.nb.para, h.nb.setext, h.nb.fenced⟩
  idge := h.idge
  fenceNew := h.fenceNew
  setextOld := h.setextOld
  ls := ⟨⟨h.ls.kids.kids, h.ls.kids.off, h.ls.kids.pk⟩, h.ls.plt, h.ls.rootKind, h.ls.rootLt,
    fun b hb hc => h.ls.attached b (by rw [hop]; exact List.dropLast_subset _ hb) hc, by
      have := h.ls.incr
      rw [hop] at this
      exact this.sublist (List.Sublist.cons_cons _ (List.Sublist.map _ (List.dropLast_sublist _)))⟩
  chain := by
    have := h.chain
    exact chainedO_agree root (pre ++ []) this (fun _ _ => rfl) (fun _ _ => rfl) (fun _ _ => rfl)
  stack := by
    obtain ⟨suf, e, hs⟩ := hsuf
    refine ⟨suf.dropLast, ?_⟩
    simp only [List.append_nil]
    rw [e, List.dropLast_append_of_ne_nil hs]
  idgt := fun b hb => h.idgt b (by rw [hop]; exact List.dropLast_subset _ hb)
  rootid := h.rootid
  idpar := h.idpar
  idkids := h.idkids
  idoff := h.idoff
  nopt := h.nopt

theorem appendChild_fresh (parent node : Nat) (s : St) (hp : (nd s node).parent = none) :
    appendChild parent node s = .ok ((), upd (upd s parent fun n => { n with children := n.children ++ [node] }) node
      fun n => { n with parent := some parent }) := by
  unfold appendChild ensureIsolated
  simp only [bind, StateT.bind, getNode, Except.bind, pure, StateT.pure, Except.pure]
  have : (s.nodes.getD node default).parent = none := hp
  rw [this]
  rfl

/-- the pure facts a freshly opened list hands to the next `goto retry` -/
structure DueFacts (src : Bytes) (sb : St) (c : RCur) : Prop where
  m : ∃ m typ, matchesListItem (lineOf src c) false = (m, typ) ∧ typ ≠ .notList ∧ m.r1 ≤ 3
  th : ∀ (ch : UInt8) (l pre rest : List BP), (lineOf src c)[(indentWidthI (lineOf src c) (loVal src c)).2.toNat]? = some ch →
    triggered ch = some l → l = pre ++ BP.list :: rest → (∀ q ∈ pre, q = .setext ∨ q = .thematic) → BP.thematic ∈ pre →
    isThematicBreak (lineOf src c) (loVal src c) = false
  wasNotList : lastIsList sb = false

theorem kind_list {bp : BP} (h : bp.kind = .list) : bp = .list := by cases bp <;> simp [BP.kind] at h ⊢
theorem kind_listItem {bp : BP} (h : bp.kind = .listItem) : bp = .listItem := by cases bp <;> simp [BP.kind] at h ⊢

/-- the tail of a successful attempt: `parent.AppendChild(node)`, push onto `openedBlocks` -/
theorem tryTailL_okl {src : Bytes} {old pre : List Block} {root : Nat} {s0 sb : St} {c c' : RCur} (parent id : Nat) (bp : BP)
    (st : PState) (lb0 : Option Block) (s : St) (new : List Block) (hm : MidL src old pre root s0 id bp s new)
    (hq : parent = lastNode root (pre ++ new))
    (hw0 : ∀ b ∈ old, b.node < s0.nodes.length) (hleafy : Leafy old) (hfresh : ∀ b ∈ new, s0.nodes.length ≤ b.node)
    (hallc : ∀ b ∈ new, b.bp.isContainer = true)
    (hri : RI src s.r c') (hpad : PadOK c') (hle : c.p ≤ c'.p)
    (hprog : st.hasChildren = true → (c.p < c'.p ∧ bp ≠ .list) ∨ (c' = c ∧ bp = .list))
    (hkids : st.hasChildren = true → bp.isContainer = true)
    (hP1 : (nd s parent).kind = .list → bp = .listItem) (hP1' : bp = .listItem → (nd s parent).kind = .list)
    (hlistHC : bp = .list → st.hasChildren = true) (hdue : bp = .list → DueFacts src sb c) :
    OKL (TPPostL src old pre root s0 sb c)
      ((do
        appendChild parent id
        modPc fun pc => { pc with opened := pc.opened ++ [{ node := id, bp := bp }] }
        if st.hasChildren then return (TryOutcome.retry id, OpenResult.newBlocksOpened, lb0)
        return (TryOutcome.done, OpenResult.newBlocksOpened, lb0) : M _) s) := by
  obtain ⟨hqid, hqlt⟩ := hm.parent_lt
  rw [← hq] at hqid hqlt
  have hidlt : id < s.nodes.length := hm.nb.lt
  simp only [bind, StateT.bind, appendChild_fresh parent id s hm.idpar, Except.bind, modPc, pure, StateT.pure, Except.pure]
  generalize hs1 : (upd (upd s parent fun n => { n with children := n.children ++ [id] }) id
      fun n => { n with parent := some parent }) = s1
  have hf : FrameEq s s1 := by
    rw [← hs1]
    exact (upd_frame s parent (f := fun n => { n with children := n.children ++ [id] }) (fun n => ⟨rfl, rfl, rfl⟩)).trans
      (upd_frame _ id (f := fun n => { n with parent := some parent }) (fun n => ⟨rfl, rfl, rfl⟩))
  have hlen1 : (upd s parent fun n => { n with children := n.children ++ [id] }).nodes.length = s.nodes.length := by
    simp [upd]
  have hnd_id : nd s1 id = { nd s id with parent := some parent } := by
    rw [← hs1, nd_upd, if_pos ⟨rfl, by rw [hlen1]; exact hidlt⟩, nd_upd, if_neg (by intro h; omega)]
  have hnd_q : nd s1 parent = { nd s parent with children := (nd s parent).children ++ [id] } := by
    rw [← hs1, nd_upd, if_neg (by intro h; omega), nd_upd, if_pos ⟨rfl, hqlt⟩]
  have hnd_o : ∀ j, j ≠ id → j ≠ parent → nd s1 j = nd s j := by
    intro j h1 h2
    rw [← hs1, nd_upd, if_neg (by intro h; exact h1 h.1.symm), nd_upd, if_neg (by intro h; exact h2 h.1.symm)]
  have hkind1 : ∀ j, (nd s1 j).kind = (nd s j).kind := fun j => (hf.same j).1
  have hpar1 : ∀ j, j ≠ id → (nd s1 j).parent = (nd s j).parent := by
    intro j hj
    by_cases h2 : j = parent
    · rw [h2, hnd_q]
    · rw [hnd_o j hj h2]
  have hch1 : ∀ j, j ≠ parent → (nd s1 j).children = (nd s j).children := by
    intro j hj
    by_cases h2 : j = id
    · rw [h2, hnd_id]
    · rw [hnd_o j h2 hj]
  have hoff1 : ∀ j, (nd s1 j).offset = (nd s j).offset := by
    intro j
    by_cases h1 : j = id
    · rw [h1, hnd_id]
    · by_cases h2 : j = parent
      · rw [h2, hnd_q]
      · rw [hnd_o j h1 h2]
  -- the final state
  generalize hs2 : ({ r := s1.r, nodes := s1.nodes, pc := { s1.pc with opened := s1.pc.opened ++ [{ node := id, bp := bp }] } } : St) = s2
  have hr2 : s2.r = s.r := by rw [← hs2]; exact hf.r
  have hn2 : s2.nodes = s1.nodes := by rw [← hs2]
  have hop2 : s2.pc.opened = s.pc.opened ++ [{ node := id, bp := bp }] := by rw [← hs2]; simp only; rw [hf.pc]
  have htmp2 : s2.pc.tmpPara = s.pc.tmpPara := by rw [← hs2]; simp only; rw [hf.pc]
  have hfen2 : s2.pc.fence = s.pc.fence := by rw [← hs2]; simp only; rw [hf.pc]
  have hnd2 : ∀ j, nd s2 j = nd s1 j := fun j => by simp only [nd, hn2]
  have hext : Ext s s2 := by
    have := hf.ext
    exact ⟨by rw [hn2]; exact this.len, fun j hj => by rw [hnd2]; exact this.kind j hj,
      fun j hj hk hl => by rw [hnd2]; exact this.linesNE j hj hk hl⟩
  have hnodes2 : NodesOK src s2 := by
    have := hf.nodesOK hm.nodes
    intro n hn; rw [hn2] at hn; exact this n hn
  have hkeys2 : KeysOK s2 := hm.keys.ext hext (.inl htmp2) (.inl hfen2)
  have hbok : ∀ b, BlockOK s b → BlockOK s2 b := fun b hb =>
    hb.ext hext (fun hp => by rw [htmp2]; exact (hb.setext hp).2) (fun hp => by rw [hfen2]; exact hb.fenced hp)
  have hkidq : (nd s parent).kind = .list → (nd s id).kind = .listItem := fun h => by rw [hm.nb.kind, hP1 h]; rfl
  -- the list part of the store
  have hls2 : LStore s2 root := by
    refine ⟨⟨?_, ?_, ?_⟩, ?_, by rw [hnd2, hkind1]; exact hm.ls.rootKind, by rw [hn2, hf.len]; exact hm.ls.rootLt, ?_, ?_⟩
    · intro i lc hk hmem
      rw [hnd2, hkind1] at hk
      rw [hnd2] at hmem
      by_cases hi : i = parent
      · rw [hi, hnd_q] at hmem
        simp only [List.mem_append, List.mem_singleton] at hmem
        rcases hmem with hmem | hmem
        · obtain ⟨a, b⟩ := hm.ls.kids.kids i lc hk (by rw [hi]; exact hmem)
          exact ⟨by rw [hn2, hf.len]; exact a, by rw [hnd2, hkind1]; exact b⟩
        · rw [hmem]
          exact ⟨by rw [hn2, hf.len]; exact hidlt, by rw [hnd2, hkind1]; exact hkidq (hi ▸ hk)⟩
      · rw [hch1 i hi] at hmem
        obtain ⟨a, b⟩ := hm.ls.kids.kids i lc hk hmem
        exact ⟨by rw [hn2, hf.len]; exact a, by rw [hnd2, hkind1]; exact b⟩
    · intro i hk
      rw [hnd2, hkind1] at hk
      rw [hnd2, hoff1]
      exact hm.ls.kids.off i hk
    · intro i p hp hk
      rw [hnd2] at hp
      rw [hnd2, hkind1] at hk ⊢
      by_cases hi : i = id
      · rw [hi, hnd_id] at hp
        simp only [Option.some.injEq] at hp
        rw [← hp] at hk
        rw [hi]; exact hkidq hk
      · rw [hpar1 i hi] at hp
        exact hm.ls.kids.pk i p hp hk
    · intro i p hp
      rw [hnd2] at hp
      rw [hn2, hf.len]
      by_cases hi : i = id
      · rw [hi, hnd_id] at hp
        simp only [Option.some.injEq] at hp
        rw [← hp]; exact hqlt
      · rw [hpar1 i hi] at hp
        exact hm.ls.plt i p hp
    · intro b hb hc
      rw [hop2] at hb
      rw [hnd2]
      rcases List.mem_append.1 hb with hb | hb
      · rw [hpar1 b.node (by have := hm.idgt b hb; omega)]
        exact hm.ls.attached b hb hc
      · simp only [List.mem_singleton] at hb; subst hb
        simp only; rw [hnd_id]; rfl
    · rw [hop2, List.map_append, ← List.cons_append]
      refine List.pairwise_append.2 ⟨hm.ls.incr, by simp, ?_⟩
      intro a ha b hb
      simp only [List.map_cons, List.map_nil, List.mem_singleton] at hb
      subst hb
      simp only [List.mem_cons, List.mem_map] at ha
      rcases ha with rfl | ⟨x, hx, rfl⟩
      · exact hm.rootid
      · exact hm.idgt x hx
  -- the chain
  have hchain2 : ChainedO s2 root (pre ++ (new ++ [{ node := id, bp := bp }])) := by
    rw [← List.append_assoc, chainedO_append]
    constructor
    · have hpw := hm.incr'
      by_cases hne : pre ++ new = []
      · rw [hne]; trivial
      refine chainedO_agree root (pre ++ new) hm.chain (fun a _ => by rw [hnd2, hkind1]) ?_ ?_
      · intro b hb
        rw [hnd2, hpar1 b.node (by have := hm.idgt b (hm.sub b hb); omega)]
      · intro a ha
        rw [hnd2]
        have := pairwise_lt_lastNode root (pre ++ new) hpw hne a ha
        rw [hch1 a (by rw [hq]; omega)]
    · rw [← hq]
      refine ⟨⟨fun hk => ?_, fun hi => ?_⟩, trivial⟩
      · rw [hnd2, hkind1] at hk
        refine ⟨hP1 hk, ?_, ?_⟩
        · simp only; rw [hnd2, hnd_id]
        · rw [hnd2, hnd_q]; simp
      · simp only at hi
        rw [hnd2, hkind1]; exact hP1' hi
  have hwin : WinL src old pre root s0 s2 (new ++ [{ node := id, bp := bp }]) := by
    refine ⟨hnodes2, hkeys2, hm.ext.trans hext, ?_, ?_, hw0, hleafy, ?_, hls2, hchain2, ?_, fun h => absurd h (by simp)⟩
    · rcases hm.shape with h | ⟨h1, h2⟩
      · exact .inl (by rw [hop2, h, List.append_assoc])
      · exact .inr ⟨h1, by simp, by rw [hop2, h2, List.append_assoc]⟩
    · intro b hb
      rw [hop2] at hb
      rcases List.mem_append.1 hb with hb | hb
      · exact hbok b (hm.blocks b hb)
      · simp only [List.mem_singleton] at hb; subst hb; exact hbok _ hm.nb
    · intro b hb
      rcases List.mem_append.1 hb with hb | hb
      · exact hfresh b hb
      · simp only [List.mem_singleton] at hb; subst hb; exact hm.idge
    · obtain ⟨suf, e⟩ := hm.stack
      exact ⟨suf, by rw [hop2, e, List.append_assoc]⟩
  have hcompat : ∀ k ∈ new ++ [{ node := id, bp := bp }], ∀ b ∈ old, Compat s2 k b := by
    intro k hk b hb
    rcases List.mem_append.1 hk with hk | hk
    · exact Compat.of_container_left (hallc k hk)
    · simp only [List.mem_singleton] at hk; subst hk
      refine ⟨fun hse => hm.setextOld hse b hb, fun hfe _ f hf2 => ?_⟩
      obtain ⟨f', hf', hfn⟩ := hm.fenceNew hfe
      rw [hfen2, hf'] at hf2
      cases hf2
      have := hw0 b hb
      have := hm.idge
      omega
  have hne : new ++ [({ node := id, bp := bp } : Block)] ≠ [] := by simp
  have hlast : lastNode root (pre ++ (new ++ [({ node := id, bp := bp } : Block)])) = id := by
    rw [← List.append_assoc, lastNode_concat]
  by_cases hc : st.hasChildren = true
  · rw [if_pos hc]
    refine OKL.ok ⟨c', _, by rw [hr2]; exact hri, hpad, hle, hwin, .inr ⟨rfl, hne⟩, hcompat, ?_, hlast.symm, ?_⟩
    · intro b hb
      rcases List.mem_append.1 hb with hb | hb
      · exact hallc b hb
      · simp only [List.mem_singleton] at hb; subst hb; exact hkids hc
    · rcases hprog hc with ⟨h, hbl⟩ | ⟨h1, h2⟩
      · refine .inl ⟨h, ?_⟩
        rw [hnd2, hkind1, hm.nb.kind]
        exact fun hk => hbl (kind_list hk)
      · refine .inr ⟨h1, ?_⟩
        have hd := hdue h2
        refine ⟨by rw [hnd2, hkind1, hm.nb.kind, h2]; rfl, ?_, ⟨⟨id, bp⟩, by rw [hop2]; simp, rfl⟩, hd.m, hd.th, hd.wasNotList⟩
        rw [hnd2, hch1 id (by omega)]
        exact hm.idkids h2
  · rw [if_neg hc]
    refine OKL.ok ⟨c', _, by rw [hr2]; exact hri, hpad, hle, hwin, .inr ⟨rfl, hne⟩, hcompat, leafy_snoc hallc _, ?_⟩
    rw [hlast, hnd2, hkind1, hm.nb.kind]
    intro hk
    exact hc (hlistHC (kind_list hk))

theorem upd_treeSame (s : St) (i : Nat) {f : Node → Node}
    (hf : ∀ n, (f n).kind = n.kind ∧ (f n).parent = n.parent ∧ (f n).children = n.children ∧ (f n).offset = n.offset) :
    TreeSame s (upd s i f) := by
  refine ⟨by simp [upd], fun j => ?_⟩
  rw [nd_upd]
  split
  · rename_i h; obtain ⟨rfl, _⟩ := h; exact hf _
  · exact ⟨rfl, rfl, rfl, rfl⟩

section tp
variable {src : Bytes} (lsp : LSp src)
include lsp

/-- one parser attempt of `tryParsers` (parser.go:961-1013); `hK` handles "the parser declined" -/
theorem tryStepL {old pre : List Block} {root : Nat} {s0 sb : St} (cl : Call old pre) (parent : Nat) (blank cont : Bool) (w : Int)
    (bp : BP) (bps : List BP) (result : OpenResult) (lastBlock : Option Block) (s : St) (c : RCur) (new : List Block)
    (hc : LineCtx src s c) (hw : WinL src old pre root s0 s new) (hallc : ∀ b ∈ new, b.bp.isContainer = true)
    (hq : parent = lastNode root (pre ++ new))
    (hres : (result = .noBlocksOpened ∧ new = [] ∧ lastBlock = old.getLast?) ∨ (result = .newBlocksOpened ∧ new ≠ []))
    (hs1 : ¬ (cont && result == OpenResult.noBlocksOpened && !bp.canInterruptParagraph) = true)
    (hs2 : ¬ (decide (w > 3) && !bp.canAcceptIndentedLine) = true)
    (hP1 : ∀ a s1, OpenPostW src bp parent s c a s1 → a.1.isSome = true → (nd s parent).kind = .list → bp = .listItem)
    (hdue : ∀ a s1, OpenPostW src bp parent s c a s1 → a.1.isSome = true → bp = .list → DueFacts src sb c)
    (hK : ∀ st s1, OpenPostW src bp parent s c (none, st) s1 →
      OKL (TPPostL src old pre root s0 sb c) (tryParsers parent blank cont w bps result s.pc.opened.getLast? s1)) :
    OKL (TPPostL src old pre root s0 sb c) (tryParsers parent blank cont w (bp :: bps) result lastBlock s) := by
  unfold tryParsers
  simp only []
  rw [if_neg hs1, if_neg hs2]
  refine OKL.bind (m := lastOpenedBlock) (P := fun lb s1 => lb = s.pc.opened.getLast? ∧ s1 = s) (OKL.ok ⟨rfl, rfl⟩)
    (fun lb0 sx hlb => ?_)
  obtain ⟨hlb0, hsx⟩ := hlb
  subst sx
  refine OKL.bind (openAllW lsp bp parent s c hc hw.ls.kids) (fun x s1 hO => ?_)
  obtain ⟨nodeopt, st⟩ := x
  cases nodeopt with
  | none =>
    simp only []
    rw [hlb0]
    exact hK st s1 hO
  | some id =>
    simp only []
    obtain ⟨hm1, hid, hop1, hnd1, hlen1, hreq⟩ := open_someL hO hw hallc
    obtain ⟨c', hri, hpad, hle, _, hprog⟩ := hO.ri
    have hkids : st.hasChildren = true → bp.isContainer = true := fun h => (hO.kids h).1
    have hparlt : parent < s.nodes.length := by
      rcases lastNode_mem root (pre ++ new) with e | ⟨b, hb, e⟩
      · rw [hq, e]; exact hw.ls.rootLt
      · rw [hq, e]
        obtain ⟨suf, es⟩ := hw.stack
        refine (hw.blocks b ?_).lt
        rw [es]
        rcases List.mem_append.1 hb with h | h
        · exact List.mem_append_left _ (List.mem_append_left _ h)
        · exact List.mem_append_right _ h
    have hP1s : (nd s parent).kind = .list → bp = .listItem := hP1 _ _ hO rfl
    have hP1s' : bp = .listItem → (nd s parent).kind = .list := fun hb => (hO.itemFacts hb).1 rfl
    have hlistHC : bp = .list → st.hasChildren = true := fun hb => (hO.listFacts hb rfl).1
    have hdue' : bp = .list → DueFacts src sb c := hdue _ _ hO rfl
    have hprog' : st.hasChildren = true → (c.p < c'.p ∧ bp ≠ .list) ∨ (c' = c ∧ bp = .list) := fun h => by
      rcases hprog h with h' | ⟨h1, h2⟩
      · exact .inl h'
      · exact .inr ⟨h2, h1⟩
    -- the tail: AppendChild, push
    have tail : ∀ (sX : St) (newX : List Block), MidL src old pre root s0 id bp sX newX → sX.r = s1.r →
        (∀ b ∈ newX, s0.nodes.length ≤ b.node) → (∀ b ∈ newX, b.bp.isContainer = true) →
        parent = lastNode root (pre ++ newX) → (nd sX parent).kind = (nd s parent).kind →
        OKL (TPPostL src old pre root s0 sb c)
          ((do
            appendChild parent id
            modPc fun pc => { pc with opened := pc.opened ++ [{ node := id, bp := bp }] }
            if st.hasChildren then return (TryOutcome.retry id, OpenResult.newBlocksOpened, lb0)
            return (TryOutcome.done, OpenResult.newBlocksOpened, lb0) : M _) sX) := by
      intro sX newX hmX hrX hfX haX hqX hkX
      exact tryTailL_okl parent id bp st lb0 sX newX hmX hqX hw.oldlt hw.leafyOld hfX haX (by rw [hrX]; exact hri) hpad hle
        hprog' hkids (fun h => hP1s (by rw [← hkX]; exact h)) (fun h => by rw [hkX]; exact hP1s' h) hlistHC hdue'
    -- the middle: blank flag, the `last.Parent() == nil` test; `K` = the tail
    have mid : ∀ (K : M (TryOutcome × OpenResult × Option Block)),
        (∀ (sX : St) (newX : List Block), MidL src old pre root s0 id bp sX newX → sX.r = s1.r →
          (∀ b ∈ newX, s0.nodes.length ≤ b.node) → (∀ b ∈ newX, b.bp.isContainer = true) →
          parent = lastNode root (pre ++ newX) → (nd sX parent).kind = (nd s parent).kind →
          OKL (TPPostL src old pre root s0 sb c) (K sX)) →
        ∀ (sX : St), MidL src old pre root s0 id bp sX new → sX.r = s1.r → (nd sX parent).kind = (nd s parent).kind →
        (∀ lb, lb0 = some lb → (nd sX lb.node).parent.isSome = true ∨
            (new = [] ∧ sX.pc.opened = old ∧ old.getLast? = some lb)) →
        OKL (TPPostL src old pre root s0 sb c)
          ((modNode id (fun n => { n with blankPrev := blank }) >>= fun _ =>
            match Option.map (fun x => x.node) lb0 with
            | some l => getNode l >>= fun n =>
                if n.parent.isNone = true then
                  getPc >>= fun pc =>
                    closeBlocks ((pc.opened.length : Int) - 1) ((pc.opened.length : Int) - 1) >>= fun _ => K
                else K
            | none => K) sX) := by
      intro K hK sX hmX hrX hkX hcase
      have hfr : FrameEq sX (upd sX id fun n => { n with blankPrev := blank }) :=
        upd_frame sX id (f := fun n => { n with blankPrev := blank }) (fun n => ⟨rfl, rfl, rfl⟩)
      have hts : TreeSame sX (upd sX id fun n => { n with blankPrev := blank }) :=
        upd_treeSame sX id (f := fun n => { n with blankPrev := blank }) (fun n => ⟨rfl, rfl, rfl, rfl⟩)
      have hm3 := hmX.same hfr.ext (hfr.nodesOK hmX.nodes) hts (by rw [hfr.pc]) (by rw [hfr.pc]) (by rw [hfr.pc])
      have hpar3 : ∀ j, (nd (upd sX id fun n => { n with blankPrev := blank }) j).parent = (nd sX j).parent :=
        fun j => (hts.same j).2.1
      have hk3 : (nd (upd sX id fun n => { n with blankPrev := blank }) parent).kind = (nd s parent).kind := by
        rw [(hts.same parent).1]; exact hkX
      refine OKL.bind (m := modNode id fun n => { n with blankPrev := blank })
        (P := fun _ s3 => s3 = upd sX id fun n => { n with blankPrev := blank }) (OKL.ok rfl) (fun _ s3 h3 => ?_)
      subst h3
      cases hl : lb0 with
      | none => exact hK _ new hm3 (by rw [hfr.r, hrX]) hw.fresh hallc hq hk3
      | some lb =>
        simp only [Option.map]
        refine OKL.bind (m := getNode lb.node)
          (P := fun n s4 => n = nd (upd sX id fun n => { n with blankPrev := blank }) lb.node ∧
            s4 = upd sX id fun n => { n with blankPrev := blank }) (OKL.ok ⟨rfl, rfl⟩) (fun n s4 h4 => ?_)
        obtain ⟨h4n, h4s⟩ := h4
        subst h4n h4s
        by_cases hnn : (nd (upd sX id fun n => { n with blankPrev := blank }) lb.node).parent.isNone = true
        · rw [if_pos hnn]
          rcases hcase lb hl with hsome | ⟨hnew, hopX, hlast⟩
          · exfalso
            rw [hpar3] at hnn
            cases hh : (nd sX lb.node).parent with
            | none => rw [hh] at hsome; cases hsome
            | some _ => rw [hh] at hnn; cases hnn
          · refine OKL.bind (m := getPc)
              (P := fun pc s5 => pc = (upd sX id fun n => { n with blankPrev := blank }).pc ∧
                s5 = upd sX id fun n => { n with blankPrev := blank }) (OKL.ok ⟨rfl, rfl⟩) (fun pc s5 h5 => ?_)
            obtain ⟨h5p, h5s⟩ := h5
            subst h5p h5s
            have hop3 : (upd sX id fun n => { n with blankPrev := blank }).pc.opened = old.dropLast ++ [lb] := by
              rw [hfr.pc, hopX]; exact eq_dropLast_append_of_getLast? old lb hlast
            have hp3 : (nd (upd sX id fun n => { n with blankPrev := blank }) lb.node).parent.isSome = false := by
              cases hh : (nd (upd sX id fun n => { n with blankPrev := blank }) lb.node).parent with
              | none => rfl
              | some _ => rw [hh] at hnn; cases hnn
            subst hnew
            have hne : old ≠ [] := by intro h; rw [h] at hlast; cases hlast
            -- the popped block is not a container (it has no parent), so it is not the last block of `pre`
            have hsufne : ∃ suf, old = pre ++ suf ∧ suf ≠ [] := by
              obtain ⟨suf0, e0, h0⟩ := cl.pref
              refine ⟨suf0, e0, fun hs => ?_⟩
              have hcont := h0 hs lb hlast
              have hmem : lb ∈ sX.pc.opened := by rw [hopX]; exact List.mem_of_getLast? hlast
              have := hmX.ls.attached lb hmem hcont
              rw [← hpar3] at this
              rw [this] at hp3; cases hp3
            have hm4 := hm3.pop (by rw [hfr.pc, hopX]) hne hsufne
            refine OKL.bind (P := fun _ s6 => s6 = { (upd sX id fun n => { n with blankPrev := blank }) with
                pc := { (upd sX id fun n => { n with blankPrev := blank }).pc with opened := old.dropLast } })
              (by rw [closeBlocks_last_skip old.dropLast lb _ hop3 hp3]; exact OKL.ok rfl) (fun _ s6 h6 => ?_)
            subst h6
            exact hK _ [] hm4 (by simp only; rw [hfr.r, hrX]) (fun _ h => by cases h) (fun _ h => by cases h) hq hk3
        · rw [if_neg hnn]
          exact hK _ new hm3 (by rw [hfr.r, hrX]) hw.fresh hallc hq hk3
    -- the `last` of the non-RequireParagraph path
    have hcase1 : ∀ lb, lb0 = some lb → (nd s1 lb.node).parent.isSome = true ∨
        (new = [] ∧ s1.pc.opened = old ∧ old.getLast? = some lb) := by
      intro lb hl
      by_cases hnew : new = []
      · right
        have hop : s.pc.opened = old := by
          rcases hw.shape with h | ⟨_, h, _⟩
          · rw [h, hnew, List.append_nil]
          · exact absurd hnew h
        exact ⟨hnew, by rw [hop1, hop], by rw [← hop, ← hlb0, hl]⟩
      · left
        have hlast : new.getLast? = some lb := by
          have : s.pc.opened.getLast? = new.getLast? := by
            cases hne : new.getLast? with
            | none => exact absurd (List.getLast?_eq_none_iff.1 hne) hnew
            | some x => rcases hw.shape with h | ⟨_, _, h⟩ <;> rw [h, List.getLast?_append, hne] <;> rfl
          rw [← this, ← hlb0, hl]
        have hmem : lb ∈ s.pc.opened := by
          rcases hw.shape with h | ⟨_, _, h⟩ <;> rw [h] <;> exact List.mem_append_right _ (List.mem_of_getLast? hlast)
        rw [hnd1 _ (hw.blocks lb hmem).lt]
        exact hw.ls.attached lb hmem (hallc lb (List.mem_of_getLast? hlast))
    have hk1 : (nd s1 parent).kind = (nd s parent).kind := by rw [hnd1 _ hparlt]
    by_cases hrq : st.requirePara = true
    · rw [if_pos hrq]
      obtain ⟨lb, hlb1, hlbpar, hlbbp, hnew, hopold⟩ := hreq hrq
      have hl : lb0 = some lb := by rw [hlb0, hlb1]
      have hmem : lb ∈ s.pc.opened := List.mem_of_getLast? hlb1
      have hlblt := (hw.blocks lb hmem).lt
      have hpar1' : (nd s1 lb.node).parent = some parent := by rw [hnd1 _ hlblt]; exact hlbpar
      refine OKL.bind (m := getNode parent) (P := fun pn sy => pn = nd s1 parent ∧ sy = s1) (OKL.ok ⟨rfl, rfl⟩)
        (fun pn sy hy => ?_)
      obtain ⟨hpn, hsy⟩ := hy
      subst pn sy
      by_cases heq : (Option.map (fun x => x.node) lb0 == (nd s1 parent).children.getLast?) = true
      · rw [if_pos heq]
        subst hl
        simp only []
        -- lastBlock.Parser.Close (a paragraph)
        have hmem1 : lb ∈ s1.pc.opened := by rw [hop1]; exact hmem
        have hcl := closeAll src lb.bp lb.node s1 hri.source hm1.nodes hm1.keys (hm1.blocks lb hmem1)
        have hcl' : OKL (fun (_ : Unit) s2 => ClosePost src lb.bp lb.node s1 s2 ∧ TreeSame s1 s2) (bpClose lb.bp lb.node s1) := by
          rcases hcl with ⟨a, s2, e2, h2⟩ | e2
          · refine .inl ⟨a, s2, e2, h2, ?_⟩
            obtain ⟨lnode, lbp⟩ := lb
            simp only at hlbbp
            subst hlbbp
            exact lsp.paraCloseTS lnode s1 s2 (hm1.blocks _ hmem1) hm1.nodes e2
          · exact .inr e2
        refine OKL.bind hcl' (fun _ s2 h2 => ?_)
        obtain ⟨h2, hts2⟩ := h2
        have htmp2 : s2.pc.tmpPara = s1.pc.tmpPara := by
          rcases h2.tmp with h | ⟨h, _⟩
          · exact h
          · rw [hlbbp] at h; cases h
        have hfen2 : s2.pc.fence = s1.pc.fence := by
          rcases h2.fence with h | ⟨h, _⟩
          · exact h
          · rw [hlbbp] at h; cases h
        have hm2 : MidL src old pre root s0 id bp s2 new := hm1.same h2.ext h2.nodes hts2 h2.opened htmp2 hfen2
        have hop2 : s2.pc.opened = old := by rw [h2.opened, hop1, hopold]
        have hne : old ≠ [] := by rw [← hopold]; intro h; rw [h] at hmem; cases hmem
        refine OKL.bind (m := getPc) (P := fun pc sy => pc = s2.pc ∧ sy = s2) (OKL.ok ⟨rfl, rfl⟩) (fun pc sy hy => ?_)
        obtain ⟨hpc, hsy⟩ := hy
        subst pc sy
        have hlen2 : (s2.pc.opened.length == 0) = false := by
          rw [hop2]; cases old with
          | nil => exact absurd rfl hne
          | cons _ _ => rfl
        rw [if_neg (by rw [hlen2]; simp)]
        refine OKL.bind (m := modPc _) (P := fun _ sy => sy = { s2 with pc := { s2.pc with opened := old.dropLast } })
          (OKL.ok (by rw [hop2])) (fun _ sy hy => ?_)
        subst hy
        refine OKL.bind (m := getNode lb.node)
          (P := fun n sy => n = nd s2 lb.node ∧ sy = { s2 with pc := { s2.pc with opened := old.dropLast } })
          (OKL.ok ⟨rfl, rfl⟩) (fun n sy hy => ?_)
        obtain ⟨hn, hsy⟩ := hy
        subst n sy
        have hkind2 : (nd s2 lb.node).kind = Kind.paragraph := by
          have h1 := (hm2.blocks lb (by rw [hop2, ← hopold]; exact hmem)).kind
          rw [h1, hlbbp]; rfl
        rw [if_neg (by rw [hkind2]; simp)]
        subst hnew
        have hsufne : ∃ suf, old = pre ++ suf ∧ suf ≠ [] := by
          obtain ⟨suf0, e0, h0⟩ := cl.pref
          refine ⟨suf0, e0, fun hs => ?_⟩
          have hcont := h0 hs lb (by rw [← hopold]; exact hlb1)
          rw [hlbbp] at hcont; cases hcont
        have hm2' := (show MidL src old pre root s0 id bp s2 [] from hm2).pop hop2 hne hsufne
        refine mid _ tail _ hm2' (by simp only; rw [h2.r]) (by
          show (nd s2 parent).kind = (nd s parent).kind
          rw [(hts2.same parent).1]; exact hk1) (fun lb' hl' => ?_)
        cases hl'
        left
        have := h2.para hlbbp
        simp only [nd] at this hpar1' ⊢
        rw [this, hpar1']; rfl
      · rw [if_neg heq]
        refine mid _ tail s1 hm1 rfl hk1 (fun lb' hl' => ?_)
        rw [hl] at hl'; cases hl'
        left; rw [hpar1']; rfl
    · rw [if_neg hrq]
      exact mid _ tail s1 hm1 rfl hk1 hcase1

omit lsp in
theorem append_cons_unique {α} [DecidableEq α] (a : α) : ∀ (l1 l2 r1 r2 : List α), l1 ++ a :: r1 = l2 ++ a :: r2 →
    a ∉ l1 → a ∉ l2 → l1 = l2 := by
  intro l1
  induction l1 with
  | nil =>
    intro l2 r1 r2 h _ h2
    cases l2 with
    | nil => rfl
    | cons x xs => simp at h; exact absurd (by simp [h.1]) h2
  | cons x xs ih =>
    intro l2 r1 r2 h h1 h2
    cases l2 with
    | nil => simp at h; exact absurd (by simp [h.1]) h1
    | cons y ys =>
      simp only [List.cons_append, List.cons.injEq] at h
      rw [h.1, ih ys r1 r2 h.2 (fun hh => h1 (List.mem_cons_of_mem _ hh)) (fun hh => h2 (List.mem_cons_of_mem _ hh))]

/-- the thematic-break test of the current line -/
abbrev TH (src : Bytes) (c : RCur) : Prop := isThematicBreak (lineOf src c) (loVal src c) = false

omit lsp in
theorem lastIsList_congr {s s' : St} (hn : s'.nodes = s.nodes) (ho : s'.pc.opened = s.pc.opened) :
    lastIsList s' = lastIsList s := by unfold lastIsList; rw [hn, ho]

/-- `tryParsers` under a parent that is not a List (cf. `GM.Blocks.tryParsers_okl`); `bpsAll` = the whole parser list of
    this line, `tried` = the parsers already passed -/
theorem tryParsersL {old pre : List Block} {root : Nat} {s0 sb : St} (cl : Call old pre) (parent : Nat) (blank cont : Bool)
    (w : Int) (c : RCur) (bpsAll : List BP)
    (hstruct : BP.list ∈ bpsAll → ∃ pre0, bpsAll = pre0 ++ [BP.list, BP.listItem] ++ freeParsers ∧
      ∀ q ∈ pre0, q = BP.setext ∨ q = BP.thematic)
    (htrig : ∀ (ch : UInt8) (l : List BP),
      (lineOf src c)[(indentWidthI (lineOf src c) (loVal src c)).2.toNat]? = some ch → triggered ch = some l → BP.list ∈ bpsAll →
      l = bpsAll) :
    ∀ (bps tried : List BP), tried ++ bps = bpsAll → ∀ (result : OpenResult) (lastBlock : Option Block) (s : St)
      (new : List Block), LineCtx src s c → WinL src old pre root s0 s new → (∀ b ∈ new, b.bp.isContainer = true) →
      parent = lastNode root (pre ++ new) →
      ((result = .noBlocksOpened ∧ new = [] ∧ lastBlock = old.getLast?) ∨ (result = .newBlocksOpened ∧ new ≠ [])) →
      (nd s parent).kind ≠ .list → s.nodes = sb.nodes → s.pc.opened = sb.pc.opened →
      (BP.thematic ∈ tried → w > 3 ∨ TH src c) →
      OKL (TPPostL src old pre root s0 sb c) (tryParsers parent blank cont w bps result lastBlock s) := by
  intro bps
  induction bps with
  | nil =>
    intro tried _ result lastBlock s new hc hw hallc hq hres hpk _ _ _
    unfold tryParsers
    exact OKL.ok ⟨c, new, hc.ri, hc.pad, Nat.le_refl _, hw, hres, fun k hk b _ => Compat.of_container_left (hallc k hk),
      leafy_of_all hallc, by rw [← hq]; exact hpk⟩
  | cons bp bps ih =>
    intro tried htr result lastBlock s new hc hw hallc hq hres hpk hsn hso hacc
    have ihn := ih (tried ++ [bp]) (by rw [List.append_assoc]; exact htr)
    by_cases hs1 : (cont && result == OpenResult.noBlocksOpened && !bp.canInterruptParagraph) = true
    · unfold tryParsers
      simp only []
      rw [if_pos hs1]
      refine ihn result lastBlock s new hc hw hallc hq hres hpk hsn hso (fun hth => ?_)
      rcases List.mem_append.1 hth with h | h
      · exact hacc h
      · simp only [List.mem_singleton] at h
        rw [← h] at hs1
        simp [BP.canInterruptParagraph] at hs1
    by_cases hs2 : (decide (w > 3) && !bp.canAcceptIndentedLine) = true
    · unfold tryParsers
      simp only []
      rw [if_neg hs1, if_pos hs2]
      refine ihn result lastBlock s new hc hw hallc hq hres hpk hsn hso (fun hth => ?_)
      rcases List.mem_append.1 hth with h | h
      · exact hacc h
      · left
        simp only [Bool.and_eq_true, decide_eq_true_eq] at hs2
        exact hs2.1
    refine tryStepL lsp cl parent blank cont w bp bps result lastBlock s c new hc hw hallc hq hres hs1 hs2
      (fun _ _ _ _ hk => absurd hk hpk) ?_ ?_
    · -- a list opened: what the next `goto retry` needs
      intro a s1 hO his hbl
      subst hbl
      obtain ⟨_, _, hm, hnl⟩ := hO.listFacts rfl his
      refine ⟨hm, ?_, ?_⟩
      · intro ch l pre' rest' hch htg hl hpre' hth
        have hlmem : BP.list ∈ bpsAll := by rw [← htr]; simp
        have hlb := htrig ch l hch htg hlmem
        obtain ⟨pre0, hp0, hq0⟩ := hstruct hlmem
        have hn0 : BP.list ∉ pre0 := fun hh => by rcases hq0 _ hh with h | h <;> cases h
        have hn' : BP.list ∉ pre' := fun hh => by rcases hpre' _ hh with h | h <;> cases h
        have e1 : pre' = pre0 := by
          refine append_cons_unique BP.list pre' pre0 rest' ([BP.listItem] ++ freeParsers) ?_ hn' hn0
          rw [← hl, hlb, hp0]; simp
        -- `tried` is that prefix, too
        have hnt : BP.list ∉ tried := by
          intro hh
          have hcount : (tried ++ BP.list :: bps).count BP.list = (pre0 ++ [BP.list, BP.listItem] ++ freeParsers).count BP.list := by
            rw [htr, hp0]
          rw [List.count_append, List.count_cons_self, List.count_append, List.count_append,
            List.count_eq_zero_of_not_mem hn0] at hcount
          have h1 : 0 < tried.count BP.list := List.count_pos_iff.2 hh
          have h2 : ([BP.list, BP.listItem] : List BP).count BP.list = 1 := by decide
          have h3 : freeParsers.count BP.list = 0 := by decide
          omega
        have e2 : tried = pre0 := by
          refine append_cons_unique BP.list tried pre0 bps ([BP.listItem] ++ freeParsers) ?_ hnt hn0
          rw [htr, hp0]; simp
        rw [e1, ← e2] at hth
        rcases hacc hth with h | h
        · exfalso
          apply hs2
          simp [BP.canAcceptIndentedLine, h]
        · exact h
      · unfold lastIsList
        rw [← hsn, ← hso]
        cases hl : s.pc.opened.getLast? with
        | none => rfl
        | some lb =>
          rw [hl] at hnl
          simp only at hnl ⊢
          simpa [nd] using hnl
    · -- the parser declined
      intro st s1 hO
      obtain ⟨hc1, hw1, ho1, hn1⟩ := open_noneL hO hc hw hallc
      have hlbold : result = .noBlocksOpened → s.pc.opened.getLast? = old.getLast? := by
        intro hr
        rcases hres with ⟨_, hn, _⟩ | ⟨h, _⟩
        · rcases hw.shape with h | ⟨_, h, _⟩
          · rw [h, hn, List.append_nil]
          · exact absurd hn h
        · rw [hr] at h; cases h
      refine ihn result _ s1 new hc1 hw1 hallc hq ?_ (by rw [nd_eq_of_nodes_eq hn1]; exact hpk) (by rw [hn1, hsn])
        (by rw [ho1, hso]) (fun hth => ?_)
      · rcases hres with ⟨h1, h2, _⟩ | h
        · exact .inl ⟨h1, h2, hlbold h1⟩
        · exact .inr h
      · rcases List.mem_append.1 hth with h | h
        · exact hacc h
        · simp only [List.mem_singleton] at h
          right
          have := hO.thematic h.symm
          simpa using this.symm

/-- the parent `L` is a List and this line has to open its next item -/
structure Due (src : Bytes) (s : St) (c : RCur) (L : Nat) : Prop where
  lt : c.p < src.length
  kind : (nd s L).kind = .list
  m : ∀ m typ, matchesListItem (lineOf src c) false = (m, typ) → typ ≠ .notList ∧ m.r1 - li_lastOff s L ≤ 3
  th : ∀ (ch : UInt8) (l pre rest : List BP), (lineOf src c)[(indentWidthI (lineOf src c) (loVal src c)).2.toNat]? = some ch →
    triggered ch = some l → l = pre ++ BP.list :: rest → (∀ q ∈ pre, q = .setext ∨ q = .thematic) → BP.thematic ∈ pre → TH src c
  nl : s.pc.skipList = true ∨ (∃ lb, s.pc.opened.getLast? = some lb ∧ (nd s lb.node).kind = .list)

omit lsp in
theorem Due.congr' {s s' : St} {c : RCur} {L : Nat} (h : Due src s c L) (hn : s'.nodes = s.nodes)
    (ho : s'.pc.opened = s.pc.opened) (hsk : s'.pc.skipList = s.pc.skipList) : Due src s' c L where
  lt := h.lt
  kind := by rw [nd_eq_of_nodes_eq hn]; exact h.kind
  m := fun m typ he => by
    have : li_lastOff s' L = li_lastOff s L := by unfold li_lastOff; simp only [nd_eq_of_nodes_eq hn]
    rw [this]; exact h.m m typ he
  th := h.th
  nl := by
    rcases h.nl with h' | ⟨lb, h1, h2⟩
    · exact .inl (by rw [hsk]; exact h')
    · exact .inr ⟨lb, by rw [ho]; exact h1, by rw [nd_eq_of_nodes_eq hn]; exact h2⟩

omit lsp in
theorem Due.congr {s s' : St} {c : RCur} {L : Nat} (h : Due src s c L) (hn : s'.nodes = s.nodes) (hpc : s'.pc = s.pc) :
    Due src s' c L where
  lt := h.lt
  kind := by rw [nd_eq_of_nodes_eq hn]; exact h.kind
  m := fun m typ he => by
    have : li_lastOff s' L = li_lastOff s L := by unfold li_lastOff; simp only [nd_eq_of_nodes_eq hn]
    rw [this]; exact h.m m typ he
  th := h.th
  nl := by
    rcases h.nl with h' | ⟨lb, h1, h2⟩
    · exact .inl (by rw [hpc]; exact h')
    · exact .inr ⟨lb, by rw [hpc]; exact h1, by rw [nd_eq_of_nodes_eq hn]; exact h2⟩

/-- `tryParsers` under a List parent: the parsers before `listItemParser` decline and `listItemParser` opens an item -/
theorem tryItemL {old pre : List Block} {root : Nat} {s0 sb : St} (cl : Call old pre) (parent : Nat) (blank cont : Bool)
    (w : Int) (c : RCur) (pre0 : List BP) (hpre0 : ∀ q ∈ pre0, q = BP.setext ∨ q = BP.thematic) (ch : UInt8)
    (hch : (lineOf src c)[(indentWidthI (lineOf src c) (loVal src c)).2.toNat]? = some ch)
    (htg : triggered ch = some (pre0 ++ [BP.list, BP.listItem] ++ freeParsers)) (hw3 : ¬ w > 3) :
    ∀ (todo done : List BP), done ++ todo = pre0 → ∀ (result : OpenResult) (lastBlock : Option Block) (s : St)
      (new : List Block), LineCtx src s c → WinL src old pre root s0 s new → (∀ b ∈ new, b.bp.isContainer = true) →
      parent = lastNode root (pre ++ new) →
      ((result = .noBlocksOpened ∧ new = [] ∧ lastBlock = old.getLast?) ∨ (result = .newBlocksOpened ∧ new ≠ [])) →
      Due src s c parent →
      OKL (TPPostL src old pre root s0 sb c)
        (tryParsers parent blank cont w (todo ++ [BP.list, BP.listItem] ++ freeParsers) result lastBlock s) := by
  have hns2 : ∀ bp : BP, ¬ (decide (w > 3) && !bp.canAcceptIndentedLine) = true := by
    intro bp h; simp only [Bool.and_eq_true, decide_eq_true_eq] at h; exact hw3 h.1
  have hlbold : ∀ (result : OpenResult) (s : St) (new : List Block), WinL src old pre root s0 s new →
      ((result = .noBlocksOpened ∧ new = [] ∧ True) ∨ (result = .newBlocksOpened ∧ new ≠ [])) →
      result = .noBlocksOpened → s.pc.opened.getLast? = old.getLast? := by
    intro result s new hw hres hr
    rcases hres with ⟨_, hn, _⟩ | ⟨h, _⟩
    · rcases hw.shape with h | ⟨_, h, _⟩
      · rw [h, hn, List.append_nil]
      · exact absurd hn h
    · rw [hr] at h; cases h
  have hres' : ∀ (result : OpenResult) (lastBlock : Option Block) (s : St) (new : List Block), WinL src old pre root s0 s new →
      ((result = .noBlocksOpened ∧ new = [] ∧ lastBlock = old.getLast?) ∨ (result = .newBlocksOpened ∧ new ≠ [])) →
      ((result = .noBlocksOpened ∧ new = [] ∧ s.pc.opened.getLast? = old.getLast?) ∨ (result = .newBlocksOpened ∧ new ≠ [])) := by
    intro result lastBlock s new hw hres
    rcases hres with ⟨h1, h2, h3⟩ | h
    · exact .inl ⟨h1, h2, hlbold result s new hw (.inl ⟨h1, h2, trivial⟩) h1⟩
    · exact .inr h
  intro todo
  induction todo with
  | nil =>
    intro done _ result lastBlock s new hc hw hallc hq hres hdue
    simp only [List.nil_append, List.cons_append]
    -- listParser.Open declines
    refine tryStepL lsp cl parent blank cont w .list _ result lastBlock s c new hc hw hallc hq hres
      (by simp [BP.canInterruptParagraph]) (hns2 _) ?_ ?_ ?_
    · intro a s1 hO his _
      exfalso
      obtain ⟨_, hsk, _, hnl⟩ := hO.listFacts rfl his
      rcases hdue.nl with h | ⟨lb, h1, h2⟩
      · rw [hsk] at h; cases h
      · rw [h1] at hnl; exact hnl h2
    · intro a s1 hO his _
      exfalso
      obtain ⟨_, hsk, _, hnl⟩ := hO.listFacts rfl his
      rcases hdue.nl with h | ⟨lb, h1, h2⟩
      · rw [hsk] at h; cases h
      · rw [h1] at hnl; exact hnl h2
    · intro st s1 hO
      obtain ⟨hc1, hw1, ho1, hn1⟩ := open_noneL hO hc hw hallc
      -- listItemParser.Open opens
      refine tryStepL lsp cl parent blank cont w .listItem _ result _ s1 c new hc1 hw1 hallc hq
        (by rw [← ho1]; exact hres' result lastBlock s1 new hw1 (by
          rcases hres with ⟨h1, h2, h3⟩ | h
          · exact .inl ⟨h1, h2, h3⟩
          · exact .inr h))
        (by simp [BP.canInterruptParagraph]) (hns2 _) (fun _ _ _ _ _ => rfl) (fun _ _ _ _ h => by cases h) ?_
      intro st2 s2 hO2
      exfalso
      have hk1 : (nd s1 parent).kind = .list := by rw [nd_eq_of_nodes_eq hn1]; exact hdue.kind
      have := (hO2.itemFacts rfl).2.2 hk1 (fun m typ he => by
        have : li_lastOff s1 parent = li_lastOff s parent := by unfold li_lastOff; simp only [nd_eq_of_nodes_eq hn1]
        rw [this]; exact hdue.m m typ he)
      cases this
  | cons q todo ih =>
    intro done hd result lastBlock s new hc hw hallc hq hres hdue
    have hqm : q ∈ pre0 := by rw [← hd]; simp
    have hcan : q.canInterruptParagraph = true := by rcases hpre0 q hqm with h | h <;> rw [h] <;> rfl
    have hnone : ∀ a s1, OpenPostW src q parent s c a s1 → a.1.isSome = true → False := by
      intro a s1 hO his
      rcases hpre0 q hqm with h | h
      · subst h
        rcases hO.tmp with ⟨_, _, lb, h1, h2, h3, _⟩ | ⟨h', _⟩
        · have := hw.ls.kids.pk lb.node parent h3 hdue.kind
          rw [h2] at this; cases this
        · rcases h' with h' | h'
          · exact h' rfl
          · rw [h'] at his; cases his
      · subst h
        have h1 := hO.thematic rfl
        have h2 := hdue.th ch _ pre0 ([BP.listItem] ++ freeParsers) hch htg (by simp) hpre0 hqm
        rw [h2] at h1; rw [h1] at his; cases his
    simp only [List.cons_append]
    refine tryStepL lsp cl parent blank cont w q _ result lastBlock s c new hc hw hallc hq hres
      (by simp [hcan]) (hns2 _) (fun a s1 hO his _ => (hnone a s1 hO his).elim) (fun a s1 hO his _ => (hnone a s1 hO his).elim) ?_
    intro st s1 hO
    obtain ⟨hc1, hw1, ho1, hn1⟩ := open_noneL hO hc hw hallc
    have hpc1 : s1.pc = s.pc := hO.keepPc (by rcases hpre0 q hqm with h | h; exact .inl h; exact .inr h) rfl
    have := ih (done ++ [q]) (by rw [List.append_assoc]; exact hd) result s.pc.opened.getLast? s1 new hc1 hw1 hallc hq
      (hres' result lastBlock s new hw hres) (hdue.congr hn1 hpc1)
    simpa only [List.append_assoc] using this

omit lsp in
/-- a step that keeps kinds, lines-nonemptiness and every tree link, and `opened` / the context keys (a `Continue`) -/
theorem WinL.same {old pre : List Block} {root : Nat} {s0 s s' : St} {new : List Block}
    (h : WinL src old pre root s0 s new) (e : Ext s s') (hnodes : NodesOK src s') (t : TreeSame s s')
    (ho : s'.pc.opened = s.pc.opened) (ht : s'.pc.tmpPara = s.pc.tmpPara) (hf : s'.pc.fence = s.pc.fence) :
    WinL src old pre root s0 s' new := by
  have hbok : ∀ b, BlockOK s b → BlockOK s' b := fun b hb =>
    hb.ext e (fun hp => by rw [ht]; exact (hb.setext hp).2) (fun hp => by rw [hf]; exact hb.fenced hp)
  exact ⟨hnodes, h.keys.ext e (.inl ht) (.inl hf), h.ext.trans e, by rw [ho]; exact h.shape,
    fun b hb => by rw [ho] at hb; exact hbok b (h.blocks b hb), h.oldlt, h.leafyOld, h.fresh,
    h.ls.step e t.tf (fun i p hp => by rw [(t.same i).2.1] at hp; rw [t.len]; exact h.ls.plt i p hp) ho h.blocks,
    chainedO_agree root (pre ++ new) h.chain (fun a _ => (t.same a).1) (fun b _ => (t.same b.node).2.1)
      (fun a _ => (t.same a).2.2.1), by rw [ho]; exact h.stack, fun hn => (h.tsame hn).trans t⟩

/-- what `openBlocks` hands back (cf. `GM.Blocks.OBPost`) -/
def OBPostL (src : Bytes) (old pre : List Block) (root : Nat) (s0 : St) (c : RCur) (res : OpenResult) (s' : St) : Prop :=
  ∃ c' new', RIa src s'.r c' ∧ c.p ≤ c'.p ∧ WinL src old pre root s0 s' new' ∧ Leafy new' ∧
    (∀ k ∈ new', ∀ b ∈ old, Compat s' k b) ∧ (res = .paragraphContinuation → new' = []) ∧
    (nd s' (lastNode root (pre ++ new'))).kind ≠ .list ∧ (new' = [] → TreeSame s0 s')

theorem toContinuableL {old pre : List Block} {root : Nat} {s0 : St} (cont : Bool) (result : OpenResult)
    (lastBlock : Option Block) (s : St) (c c0 : RCur) (new : List Block) (hri : RI src s.r c) (hpad : PadOK c)
    (hle : c0.p ≤ c.p) (hw : WinL src old pre root s0 s new) (hleafy : Leafy new)
    (hcompat : ∀ k ∈ new, ∀ b ∈ old, Compat s k b)
    (hres : (result = .noBlocksOpened ∧ new = [] ∧ lastBlock = old.getLast?) ∨ (result = .newBlocksOpened ∧ new ≠ []))
    (hcont : cont = true → ∃ lb, old.getLast? = some lb ∧ lb.bp = .paragraph)
    (hend : (nd s (lastNode root (pre ++ new))).kind ≠ .list) (hplt : lastNode root (pre ++ new) < s.nodes.length) :
    OKL (OBPostL src old pre root s0 c0) (toContinuable cont result lastBlock s) := by
  unfold toContinuable
  have fin : OKL (OBPostL src old pre root s0 c0) ((pure result : M OpenResult) s) := by
    refine OKL.ok ⟨c, new, hri.toRIa, hle, hw, hleafy, hcompat, fun h => ?_, hend, hw.tsame⟩
    rcases hres with ⟨h', _⟩ | ⟨h', _⟩ <;> rw [h'] at h <;> cases h
  by_cases hc : (result == OpenResult.noBlocksOpened && cont) = true
  · rw [if_pos hc]
    simp only [Bool.and_eq_true, beq_iff_eq] at hc
    obtain ⟨hr, hct⟩ := hc
    obtain ⟨lb, hlast, hbp⟩ := hcont hct
    rcases hres with ⟨_, hnew, hlb⟩ | ⟨h', _⟩
    · subst hnew
      rw [hlb, hlast]
      simp only []
      have hop : s.pc.opened = old := by
        rcases hw.shape with h | ⟨_, h, _⟩
        · rw [h, List.append_nil]
        · exact absurd rfl h
      have hmem : lb ∈ s.pc.opened := by rw [hop]; exact List.mem_of_getLast? hlast
      obtain ⟨lnode, lbp⟩ := lb
      simp only at hbp
      subst hbp
      have hpc := paragraphContinue_spec' src lnode s c hri hpad hw.nodes hw.keys (hw.blocks _ hmem)
      have hpc' : OKL (fun st s1 => ContPost src .paragraph s c st s1 ∧ TreeSame s s1) (bpContinue .paragraph lnode s) := by
        rcases hpc with ⟨a, s1, e1, h1⟩ | e1
        · exact .inl ⟨a, s1, e1, h1, lsp.contTS .paragraph lnode s a s1 e1⟩
        · exact .inr e1
      refine OKL.bind (m := bpContinue .paragraph lnode) hpc' (fun st s1 h1 => ?_)
      obtain ⟨h1, hts⟩ := h1
      obtain ⟨c1, hria, _, hle1, _, _⟩ := h1.ria
      have hwin : WinL src old pre root s0 s1 [] :=
        hw.same h1.ext h1.nodes hts (by rw [h1.pc]) (by rw [h1.pc]) (by rw [h1.pc])
      have fin' : ∀ r : OpenResult, OKL (OBPostL src old pre root s0 c0) ((pure r : M OpenResult) s1) := fun r =>
        OKL.ok ⟨c1, [], hria, Nat.le_trans hle hle1, hwin, by intro b hb; simp at hb, by simp, fun _ => rfl,
          by rw [(hts.same _).1]; exact hend, hwin.tsame⟩
      by_cases hst : st.cont = true
      · rw [if_pos hst]; exact fin' _
      · rw [if_neg hst]; exact fin' _
    · rw [hr] at h'; cases h'
  · rw [if_neg hc]; exact fin

omit lsp in
theorem WinL.congr {old pre : List Block} {root : Nat} {s0 s s' : St} {new : List Block}
    (h : WinL src old pre root s0 s new) (hn : s'.nodes = s.nodes)
    (ho : s'.pc.opened = s.pc.opened) (ht : s'.pc.tmpPara = s.pc.tmpPara) (hf : s'.pc.fence = s.pc.fence) :
    WinL src old pre root s0 s' new :=
  h.same (Ext.of_nodes_eq hn) (fun n hm => h.nodes n (by rw [← hn]; exact hm)) (TreeSame.of_nodes_eq hn) ho ht hf

omit lsp in
theorem triggered_nl : triggered 10 = none := by decide

theorem openBlocksLoopL {old pre : List Block} {root : Nat} {s0 : St} {c0 : RCur} (cl : Call old pre)
    (blank cont : Bool) (hcont : cont = true → ∃ lb, old.getLast? = some lb ∧ lb.bp = .paragraph) :
    ∀ (fuel parent : Nat) (result : OpenResult) (lb : Option Block) (s : St) (c : RCur) (new : List Block),
      RI src s.r c → PadOK c → c0.p ≤ c.p → WinL src old pre root s0 s new → (∀ b ∈ new, b.bp.isContainer = true) →
      parent = lastNode root (pre ++ new) →
      ((result = .noBlocksOpened ∧ new = [] ∧ lb = old.getLast?) ∨ (result = .newBlocksOpened ∧ new ≠ [])) →
      ((nd s parent).kind = .list → Due src s c parent) →
      OKL (OBPostL src old pre root s0 c0) (openBlocksLoop blank cont fuel parent result lb s) := by
  intro fuel
  induction fuel with
  | zero => intro _ _ _ _ _ _ _ _ _ _ _ _ _ _; exact .inr rfl
  | succ fuel ih =>
    intro parent result lb s c new hri hpad hle hw hallc hq hres hmode
    have hcompat0 : ∀ (sX : St), ∀ k ∈ new, ∀ b ∈ old, Compat sX k b :=
      fun _ k hk _ _ => Compat.of_container_left (hallc k hk)
    unfold openBlocksLoop
    refine OKL.bind (peekLine_okl hri) (fun x s1 hx => ?_)
    obtain ⟨hx, r1, hs1, h1⟩ := hx
    subst hx hs1
    simp only
    refine OKL.bind (lineOffset_okl (s := { s with r := r1 }) h1) (fun lo s2 hlo => ?_)
    obtain ⟨hlo, r2, hs2, h2⟩ := hlo
    subst hs2
    generalize hline : (RCur.view src c).getD [] = line
    have hb := indentWidthI_bounds line lo
    generalize hpos : (indentWidthI line lo).2 = pos at hb
    generalize hwd : (indentWidthI line lo).1 = wd
    refine OKL.bind (m := modPc _)
      (P := fun _ s3 => s3.r = r2 ∧ s3.nodes = s.nodes ∧ s3.pc.opened = s.pc.opened ∧ s3.pc.tmpPara = s.pc.tmpPara ∧
        s3.pc.fence = s.pc.fence ∧ s3.pc.skipList = s.pc.skipList ∧
        s3.pc.blockOffset = (if pos ≥ (line.length : Int) then -1 else pos))
      (OKL.ok ⟨rfl, rfl, by simp only; split <;> rfl, by simp only; split <;> rfl, by simp only; split <;> rfl,
        by simp only; split <;> rfl, by simp only; split <;> rfl⟩) (fun _ s3 h3 => ?_)
    obtain ⟨h3r, h3n, h3o, h3t, h3f, h3s, h3b⟩ := h3
    have hri3 : RI src s3.r c := by rw [h3r]; exact h2
    have hw3 : WinL src old pre root s0 s3 new := hw.congr h3n h3o h3t h3f
    have hk3 : (nd s3 parent).kind = (nd s parent).kind := by rw [nd_eq_of_nodes_eq h3n]
    have hmode3 : (nd s3 parent).kind = .list → Due src s3 c parent := fun hk =>
      (hmode (by rw [← hk3]; exact hk)).congr' h3n h3o h3s
    have hplt3 : lastNode root (pre ++ new) < s3.nodes.length := by
      rcases lastNode_mem root (pre ++ new) with e | ⟨b, hb', e⟩
      · rw [e]; exact hw3.ls.rootLt
      · rw [e]
        obtain ⟨suf, es⟩ := hw3.stack
        refine (hw3.blocks b ?_).lt
        rw [es]
        rcases List.mem_append.1 hb' with h | h
        · exact List.mem_append_left _ (List.mem_append_left _ h)
        · exact List.mem_append_right _ h
    -- the exits before the parsers are tried: only when the parent is not a List
    have exit : (nd s3 parent).kind ≠ .list → ∀ (r : OpenResult) (l : Option Block),
        ((r = .noBlocksOpened ∧ new = [] ∧ l = old.getLast?) ∨ (r = .newBlocksOpened ∧ new ≠ [])) →
        OKL (OBPostL src old pre root s0 c0) (toContinuable cont r l s3) := fun hk r l hr =>
      toContinuableL lsp cont r l s3 c c0 new hri3 hpad hle hw3 (leafy_of_all hallc) (hcompat0 s3) hr hcont
        (by rw [← hq]; exact hk) hplt3
    -- in a `Due` state the line is a list item: facts about it
    have hdueLine : (nd s3 parent).kind = .list → ∃ (m : M6) (typ : ListTyp) (ch : UInt8) (pre0 : List BP),
        matchesListItem line false = (m, typ) ∧ typ ≠ .notList ∧ pos = m.r1 ∧ wd = m.r1 ∧ m.r1 ≤ 3 ∧ 0 ≤ m.r1 ∧
        line[m.r1.toNat]? = some ch ∧ triggered ch = some (pre0 ++ [BP.list, BP.listItem] ++ freeParsers) ∧
        (∀ q ∈ pre0, q = BP.setext ∨ q = BP.thematic) ∧ (∀ i : Nat, (i : Int) < m.r1 → line[i]? = some 32) ∧ lo = loVal src c := by
      intro hk
      have hd := hmode3 hk
      have hlo' : lo = loVal src c := hlo hd.lt
      cases hmt : matchesListItem line false with
      | mk m typ =>
        have hmt' : matchesListItem (lineOf src c) false = (m, typ) := by rw [← hmt, ← hline]
        obtain ⟨htyp, _⟩ := hd.m m typ hmt'
        have ok := matchesListItem_ok line false m typ hmt htyp
        have hiw := det_indent_of_item line m typ lo hmt htyp
        obtain ⟨ch, l, hch, htg, pre0, hl, hp0⟩ := det_trigger_of_item line m typ hmt htyp
        refine ⟨m, typ, ch, pre0, rfl, htyp, ?_, ?_, ok.r1_le, ok.r1_ge, hch, by rw [htg, hl], hp0, ok.spaces, hlo'⟩
        · rw [← hpos, hiw]
        · rw [← hwd, hiw]
    by_cases hnone : (RCur.view src c).isNone = true
    · rw [if_pos hnone]
      refine exit (fun hk => ?_) _ _ hres
      have := (hmode3 hk).lt
      rw [view_eq src c this] at hnone; simp at hnone
    rw [if_neg hnone]
    have hp : c.p < src.length := by
      rcases Nat.lt_or_ge c.p src.length with hp | hp
      · exact hp
      · rw [view_none src c (by omega)] at hnone; simp at hnone
    have hvl := view_length src c hp (view_eq src c hp)
    have hlen : 1 ≤ line.length := by rw [← hline, view_eq src c hp]; simp only [Option.getD_some]; omega
    obtain ⟨b0, hb0, hb0'⟩ := idx_ok line 0 (by omega) (by omega)
    refine OKL.bind (liftE_okl (P := fun a s' => a = b0 ∧ s' = s3) hb0 ⟨rfl, rfl⟩) (fun a sy hy => ?_)
    obtain ⟨ha, hsy⟩ := hy
    subst a sy
    by_cases hnl : (b0 == 10) = true
    · rw [if_pos hnl]
      refine exit (fun hk => ?_) _ _ hres
      obtain ⟨m, typ, ch, pre0, _, _, _, _, _, h0, hch, htg, _, hsp, _⟩ := hdueLine hk
      have hb10 : b0 = 10 := by simpa using hnl
      rcases Int.lt_or_le 0 m.r1 with hlt | hge
      · have := hsp 0 (by simpa using hlt)
        simp only [Int.toNat_zero] at hb0'
        rw [this] at hb0'; cases hb0'; cases hb10
      · have e0 : m.r1 = 0 := by omega
        rw [e0] at hch
        simp only [Int.toNat_zero] at hb0' hch
        rw [hch] at hb0'; cases hb0'
        rw [hb10, triggered_nl] at htg; cases htg
    rw [if_neg hnl]
    have hctx : LineCtx src s3 c := by
      refine ⟨hri3, hp, hpad, ?_, hw3.nodes⟩
      rw [h3b, hline]
      split
      · omega
      · omega
    -- the rest of the iteration, for the parser list `bps`
    have tail : ∀ bps : List BP,
        (((nd s3 parent).kind ≠ .list ∧
            (BP.list ∈ bps → ∃ pre0, bps = pre0 ++ [BP.list, BP.listItem] ++ freeParsers ∧
              ∀ q ∈ pre0, q = BP.setext ∨ q = BP.thematic) ∧
            (∀ (ch : UInt8) (l : List BP),
              (lineOf src c)[(indentWidthI (lineOf src c) (loVal src c)).2.toNat]? = some ch → triggered ch = some l →
                BP.list ∈ bps → l = bps)) ∨
          ((nd s3 parent).kind = .list ∧ ∃ (ch : UInt8) (pre0 : List BP),
            (lineOf src c)[(indentWidthI (lineOf src c) (loVal src c)).2.toNat]? = some ch ∧
            triggered ch = some (pre0 ++ [BP.list, BP.listItem] ++ freeParsers) ∧
            (∀ q ∈ pre0, q = BP.setext ∨ q = BP.thematic) ∧ bps = pre0 ++ [BP.list, BP.listItem] ++ freeParsers ∧ ¬ wd > 3)) →
        OKL (OBPostL src old pre root s0 c0)
        ((get >>= fun sb =>
          tryParsers parent blank cont wd bps result lb >>= fun __x =>
          match __x.1 with
          | TryOutcome.retry parent' =>
            get >>= fun s1 =>
              if (!decide (retryMeasure s1 < retryMeasure sb)) = true then
                (throw Panic.pre : M PUnit) >>= fun _ => openBlocksLoop blank cont fuel parent' __x.2.1 __x.2.2
              else openBlocksLoop blank cont fuel parent' __x.2.1 __x.2.2
          | TryOutcome.done => toContinuable cont __x.2.1 __x.2.2) s3) := by
      intro bps hbps
      refine OKL.bind (m := get) (P := fun sb sy => sb = s3 ∧ sy = s3) (OKL.ok ⟨rfl, rfl⟩) (fun sb sy hy => ?_)
      obtain ⟨hsb, hsy⟩ := hy
      subst sb sy
      have htp : OKL (TPPostL src old pre root s0 s3 c) (tryParsers parent blank cont wd bps result lb s3) := by
        rcases hbps with ⟨hk, hst, htr⟩ | ⟨hk, ch, pre0, hch, htg, hp0, hbe, hw3'⟩
        · exact tryParsersL lsp cl parent blank cont wd c bps hst htr bps [] rfl result lb s3 new hctx hw3 hallc hq hres hk
            rfl rfl (fun h => by cases h)
        · rw [hbe]
          exact tryItemL lsp cl parent blank cont wd c pre0 hp0 ch hch htg hw3' pre0 [] rfl result lb s3 new hctx hw3 hallc
            hq hres (hmode3 hk)
      refine OKL.bind htp (fun x s4 h4 => ?_)
      obtain ⟨outcome, res, lb'⟩ := x
      obtain ⟨c', new', hri4, hpad4, hle4, hw4, hres4, hcompat4, hout⟩ := h4
      have hplt4 : lastNode root (pre ++ new') < s4.nodes.length := by
        rcases lastNode_mem root (pre ++ new') with e | ⟨b, hb', e⟩
        · rw [e]; exact hw4.ls.rootLt
        · rw [e]
          obtain ⟨suf, es⟩ := hw4.stack
          refine (hw4.blocks b ?_).lt
          rw [es]
          rcases List.mem_append.1 hb' with h | h
          · exact List.mem_append_left _ (List.mem_append_left _ h)
          · exact List.mem_append_right _ h
      cases outcome with
      | retry p' =>
        simp only at hout ⊢
        obtain ⟨hallc4, hp4, hprog4⟩ := hout
        refine OKL.bind (m := get) (P := fun sb sy => sb = s4 ∧ sy = s4) (OKL.ok ⟨rfl, rfl⟩) (fun sb sy hy => ?_)
        obtain ⟨hsb, hsy⟩ := hy
        subst sb sy
        have hlt : retryMeasure s4 < retryMeasure s3 := by
          rcases hprog4 with ⟨hpr, _⟩ | ⟨hcc, hdn⟩
          · unfold retryMeasure
            rw [hri4.source, hri3.source, hri4.pos, hri3.pos]
            simp only [Int.toNat_natCast]
            have := hri4.inRange
            split <;> split <;> omega
          · subst hcc
            unfold retryMeasure
            rw [hri4.source, hri3.source, hri4.pos, hri3.pos]
            have h4l : lastIsList s4 = true := by
              obtain ⟨lbx, hl1, hl2⟩ := hdn.isLast
              unfold lastIsList
              rw [hl1]
              simp only
              have := hdn.kind
              rw [← hl2] at this
              simp only [nd] at this
              rw [this]; rfl
            rw [h4l, hdn.wasNotList]
            simp
        rw [if_neg (by simp [hlt])]
        refine ih p' res lb' s4 c' new' hri4 hpad4 (Nat.le_trans hle hle4) hw4 hallc4 hp4 hres4 (fun hk => ?_)
        rcases hprog4 with ⟨_, hnk⟩ | ⟨hcc, hdn⟩
        · exact absurd hk hnk
        · subst hcc
          refine ⟨hp, hdn.kind, fun m typ he => ?_, hdn.th, .inr ?_⟩
          · obtain ⟨m', typ', he', ht', hr'⟩ := hdn.m
            rw [he'] at he; cases he
            have : li_lastOff s4 p' = 0 := by unfold li_lastOff; rw [hdn.noKids]; rfl
            rw [this]
            exact ⟨ht', by omega⟩
          · obtain ⟨lbx, hl1, hl2⟩ := hdn.isLast
            exact ⟨lbx, hl1, by rw [hl2]; exact hdn.kind⟩
      | done =>
        simp only at hout ⊢
        exact toContinuableL lsp cont res lb' s4 c' c0 new' hri4 hpad4 (Nat.le_trans hle hle4) hw4 hout.1 hcompat4 hres4 hcont
          hout.2 hplt4
    -- which parsers
    have hlineOf : lineOf src c = line := hline
    by_cases hpl : pos < (line.length : Int)
    · rw [if_pos hpl]
      obtain ⟨b1, hb1, hb1'⟩ := idx_ok line pos hb.1 hpl
      refine OKL.bind (liftE_okl (P := fun a s' => a = b1 ∧ s' = s3) hb1 ⟨rfl, rfl⟩) (fun a sy hy => ?_)
      obtain ⟨ha, hsy⟩ := hy
      subst a sy
      simp only [pure_bind]
      refine tail _ ?_
      by_cases hk : (nd s3 parent).kind = .list
      · right
        obtain ⟨m, typ, ch, pre0, _, _, hpm, hwm, hr3, _, hch, htg, hp0, _, hlo'⟩ := hdueLine hk
        have hchb : ch = b1 := by rw [← hpm] at hch; rw [hch] at hb1'; cases hb1'; rfl
        subst hchb
        refine ⟨hk, ch, pre0, ?_, htg, hp0, by rw [htg]; rfl, by rw [hwm]; omega⟩
        rw [hlineOf, ← hlo', hpos, hpm]; exact hch
      · left
        refine ⟨hk, ?_, ?_⟩
        · intro hl
          cases htr : triggered b1 with
          | none => rw [htr] at hl; exact absurd hl (by decide)
          | some l => rw [htr] at hl; exact det_triggered_list b1 l htr hl
        · intro ch l hch htg hl
          by_cases hlo' : lo = loVal src c
          · rw [hlineOf, ← hlo', hpos] at hch
            rw [hch] at hb1'; cases hb1'
            rw [htg]; rfl
          · exact absurd (hlo hp) hlo'
    · rw [if_neg hpl]
      simp only [pure_bind]
      refine tail _ ?_
      by_cases hk : (nd s3 parent).kind = .list
      · exfalso
        obtain ⟨m, typ, ch, pre0, _, _, hpm, _, _, h0, hch, _⟩ := hdueLine hk
        have : m.r1.toNat < line.length := by
          rcases Nat.lt_or_ge m.r1.toNat line.length with h | h
          · exact h
          · rw [List.getElem?_eq_none h] at hch; cases hch
        omega
      · left
        exact ⟨hk, fun hl => absurd hl (by decide), fun _ _ _ _ hl => absurd hl (by decide)⟩

/-- the state invariant at line boundaries, list-aware (cf. `GM.Blocks.Stable`) -/
structure StableL (src : Bytes) (root : Nat) (s : St) : Prop where
  nodes : NodesOK src s
  keys : KeysOK s
  blocks : ∀ b ∈ s.pc.opened, BlockOK s b
  leafy : Leafy s.pc.opened
  ls : LStore s root
  chain : ChainedO s root s.pc.opened
  endOK : (nd s (lastNode root s.pc.opened)).kind ≠ .list

theorem openBlocksL {root : Nat} (pre : List Block) (parent : Nat) (blank : Bool) (s : St) (c : RCur)
    (hri : RI src s.r c) (hpad : PadOK c) (hst : StableL src root s) (cl : Call s.pc.opened pre)
    (hpar : parent = lastNode root pre) (hmode : (nd s parent).kind = .list → Due src s c parent) :
    OKL (OBPostL src s.pc.opened pre root s c) (openBlocks parent blank s) := by
  unfold openBlocks
  refine OKL.bind (m := lastOpenedBlock) (P := fun lb s1 => lb = s.pc.opened.getLast? ∧ s1 = s) (OKL.ok ⟨rfl, rfl⟩)
    (fun lb0 sx hlb => ?_)
  obtain ⟨hlb0, hsx⟩ := hlb
  subst sx
  have hw : WinL src s.pc.opened pre root s s [] := by
    obtain ⟨suf0, e0, _⟩ := cl.pref
    refine ⟨hst.nodes, hst.keys, Ext.refl s, .inl (by simp), hst.blocks, fun b hb => (hst.blocks b hb).lt, hst.leafy, by simp,
      hst.ls, ?_, ⟨suf0, by simp [← e0]⟩, fun _ => TreeSame.refl s⟩
    rw [List.append_nil]
    have := hst.chain
    rw [e0, chainedO_append] at this
    exact this.1
  have run : ∀ cont : Bool, (cont = true → ∃ lb, s.pc.opened.getLast? = some lb ∧ lb.bp = .paragraph) →
      OKL (OBPostL src s.pc.opened pre root s c)
        ((do let v ← source; openBlocksLoop blank cont (retryFuel v) parent OpenResult.noBlocksOpened lb0) s) := by
    intro cont hcont
    refine OKL.bind (m := source) (P := fun v sy => v = s.r.source ∧ sy = s) (OKL.ok ⟨rfl, rfl⟩) (fun v sy hy => ?_)
    obtain ⟨hv, hsy⟩ := hy
    subst v sy
    exact openBlocksLoopL lsp cl blank cont hcont _ parent .noBlocksOpened lb0 s c [] hri hpad (Nat.le_refl _) hw
      (by simp) (by rw [List.append_nil]; exact hpar) (.inl ⟨rfl, rfl, hlb0⟩) hmode
  cases hl : lb0 with
  | none =>
    simp only [pure_bind]
    rw [← hl]
    exact run false (fun h => by cases h)
  | some lb =>
    simp only []
    refine OKL.bind (m := getNode lb.node)
      (P := fun v sy => v = nd s lb.node ∧ sy = s) (OKL.ok ⟨rfl, rfl⟩) (fun v sy hy => ?_)
    obtain ⟨hv, hsy⟩ := hy
    subst v sy
    simp only [pure_bind]
    rw [← hl]
    refine run _ (fun h => ?_)
    have hlast : s.pc.opened.getLast? = some lb := by rw [← hlb0, hl]
    have hk := (hst.blocks lb (List.mem_of_getLast? hlast)).kind
    have : (nd s lb.node).kind = Kind.paragraph := by simpa using h
    rw [this] at hk
    exact ⟨lb, hlast, kind_paragraph hk.symm⟩

omit lsp in
/-- the list part of the store after `closeBlocks` -/
theorem LStore.close {s s' : St} {root : Nat} (h : LStore s root) (e : Ext s s') (t : TF s s') (hplt : PLTf s')
    (hsub : List.Sublist s'.pc.opened s.pc.opened) (hb : ∀ b ∈ s.pc.opened, BlockOK s b) : LStore s' root where
  kids := h.kids.tf e t
  plt := hplt
  rootKind := by rw [e.kind root h.rootLt]; exact h.rootKind
  rootLt := Nat.lt_of_lt_of_le h.rootLt e.len
  attached := fun b hbm hc => by
    have hbm' := hsub.subset hbm
    have hbk := hb b hbm'
    rw [t.parent b.node hbk.lt (by rw [hbk.kind]; exact isCont_of_container hc)]
    exact h.attached b hbm' hc
  incr := h.incr.sublist (List.Sublist.cons_cons _ (List.Sublist.map _ hsub))

/-- the post-condition of one pass over the opened blocks -/
def LLPostL (src : Bytes) (root : Nat) (_x : LineOutcome × List LineStat) (s' : St) : Prop :=
  ∃ c', RIa src s'.r c' ∧ StableL src root s'

/-- the end of an iteration of the `for i` loop: `openBlocks`, then `closeBlocks(lastIndex, i)` -/
theorem lineTailL {root : Nat} (pre : List Block) (be : Block) (rest : List Block) (ob : List Block) (li i : Int)
    (hob : ob = pre ++ be :: rest) (hli : li = (ob.length : Int) - 1) (hi : i = (pre.length : Int))
    (thisParent : Nat) (blank : Bool) (bl' : List LineStat) (s : St) (c : RCur)
    (hop : s.pc.opened = ob) (hri : RI src s.r c) (hpad : PadOK c) (hst : StableL src root s)
    (hpar : thisParent = lastNode root pre) (hmode : (nd s thisParent).kind = .list → Due src s c thisParent) :
    OKL (LLPostL src root)
      ((do
        let lastNode ← liftE (blockAt ob li)
        let result ← openBlocks thisParent blank
        if (result != OpenResult.paragraphContinuation) = true then do
            let __do_lift ← getPc
            closeBlocks
                (if (Option.map (fun x => x.node) (slotAfter ob __do_lift.opened li.toNat) != some lastNode.node) = true then
                  li - 1
                else li)
                i
            pure (LineOutcome.next, bl')
          else pure (LineOutcome.next, bl') : M _) s) := by
  have hlen : ob.length = pre.length + rest.length + 1 := by rw [hob]; simp; omega
  have hliN : li = ((pre.length + rest.length : Nat) : Int) := by rw [hli, hlen]; omega
  have hlt : pre.length + rest.length < ob.length := by omega
  have hba : blockAt ob li = .ok ob[pre.length + rest.length] := by rw [hliN]; exact blockAt_ok ob _ hlt
  refine OKL.bind (liftE_okl (P := fun a s' => a = ob[pre.length + rest.length] ∧ s' = s) hba ⟨rfl, rfl⟩) (fun ln sy hy => ?_)
  obtain ⟨hln, hsy⟩ := hy
  subst sy
  have hlastmem : ln ∈ ob := by rw [hln]; exact List.getElem_mem _
  have hcl : Call s.pc.opened pre := ⟨⟨be :: rest, by rw [hop, hob], fun h => by cases h⟩⟩
  have hob' := hop ▸ openBlocksL lsp pre thisParent blank s c hri hpad hst hcl hpar hmode
  refine OKL.bind hob' (fun res s1 h1 => ?_)
  obtain ⟨c1, new1, hria1, _, hw1, hleafy1, hcompat1, hpc1, hend1, hts1⟩ := h1
  obtain ⟨hprec, hbec, hleafmid, hmidc⟩ := leafy_split (hob ▸ hop ▸ hst.leafy)
  have hplt1 : lastNode root (pre ++ new1) < s1.nodes.length := by
    rcases lastNode_mem root (pre ++ new1) with e | ⟨b, hb', e⟩
    · rw [e]; exact hw1.ls.rootLt
    · rw [e]
      obtain ⟨suf, es⟩ := hw1.stack
      refine (hw1.blocks b ?_).lt
      rw [es]
      rcases List.mem_append.1 hb' with h | h
      · exact List.mem_append_left _ (List.mem_append_left _ h)
      · exact List.mem_append_right _ h
  have hsubnodes : ∀ b ∈ pre ++ new1, b.node < s1.nodes.length ∧ (nd s1 b.node).kind = b.bp.kind := by
    intro b hb'
    obtain ⟨suf, es⟩ := hw1.stack
    have hm : b ∈ s1.pc.opened := by
      rw [es]
      rcases List.mem_append.1 hb' with h | h
      · exact List.mem_append_left _ (List.mem_append_left _ h)
      · exact List.mem_append_right _ h
    exact ⟨(hw1.blocks b hm).lt, (hw1.blocks b hm).kind⟩
  by_cases hres : (res != OpenResult.paragraphContinuation) = true
  · rw [if_pos hres]
    refine OKL.bind (m := getPc) (P := fun pc sy => pc = s1.pc ∧ sy = s1) (OKL.ok ⟨rfl, rfl⟩) (fun pc sy hy => ?_)
    obtain ⟨hpc, hsy⟩ := hy
    subst pc sy
    have fin : ∀ s2 : St, (s2.r = s1.r ∧ s2.pc.opened = pre ++ new1 ∧ NodesOK src s2 ∧ KeysOK s2 ∧ Ext s1 s2 ∧ TF s1 s2 ∧
        KidsOK s2 ∧ PLTf s2 ∧ ∀ k ∈ pre ++ new1, BlockOK s2 k) → List.Sublist (pre ++ new1) s1.pc.opened →
        OKL (LLPostL src root) ((pure (LineOutcome.next, bl') : M _) s2) := by
      intro s2 ⟨h2r, h2o, h2n, h2k, h2e, h2t, _, h2p, h2b⟩ hsub
      refine OKL.ok ⟨c1, by rw [h2r]; exact hria1, h2n, h2k, by rw [h2o]; exact h2b,
        by rw [h2o]; exact leafy_append hprec hleafy1, hw1.ls.close h2e h2t h2p (by rw [h2o]; exact hsub) hw1.blocks, ?_, ?_⟩
      · rw [h2o]
        exact chainedO_tf h2e h2t root (pre ++ new1) hw1.chain hw1.ls.rootLt hsubnodes
      · rw [h2o, h2e.kind _ hplt1]; exact hend1
    rcases hw1.shape with e | ⟨hne, hnew, e⟩
    · have hslot : slotAfter ob s1.pc.opened li.toNat = some ln := by
        unfold slotAfter
        rw [e, hliN, Int.toNat_natCast, List.getElem?_append_left hlt, List.getElem?_eq_getElem hlt, hln]
      rw [hslot]
      simp only [Option.map, bne_self_eq_false, Bool.false_eq_true, if_false]
      have hcb := closeBlocksL_okl lsp pre (be :: rest) new1 s1 (by rw [e, hob, List.append_assoc]) hria1.source hw1.nodes hw1.keys
        hw1.ls.kids hw1.ls.plt
        (fun b hb => hw1.blocks b (by rw [e, hob]; exact List.mem_append_left _ (List.mem_append_right _ hb))) hleafmid
        (fun k hk => ⟨hw1.blocks k (by
            rw [e, hob]; rcases List.mem_append.1 hk with h | h
            · exact List.mem_append_left _ (List.mem_append_left _ h)
            · exact List.mem_append_right _ h), fun top htop => by
          rcases List.mem_append.1 hk with h | h
          · exact Compat.of_container_left (hprec k h)
          · refine hcompat1 k h top ?_
            rw [hob]; exact List.mem_append_right _ (List.mem_of_getLast? htop)⟩)
      have harg : li = (pre.length : Int) + ((be :: rest).length : Int) - 1 := by rw [hliN]; simp; omega
      rw [harg, hi]
      refine OKL.bind hcb (fun _ s2 h2 => fin s2 h2 ?_)
      rw [e, hob, List.append_assoc]
      exact List.Sublist.append (List.Sublist.refl _) (List.sublist_append_right _ _)
    · obtain ⟨x, xs, hx⟩ : ∃ x xs, new1 = x :: xs := by
        cases new1 with
        | nil => exact absurd rfl hnew
        | cons x xs => exact ⟨x, xs, rfl⟩
      have hdl : ob.dropLast.length = pre.length + rest.length := by rw [List.length_dropLast]; omega
      have hslot : slotAfter ob s1.pc.opened li.toNat = some x := by
        unfold slotAfter
        rw [e, hliN, Int.toNat_natCast, List.getElem?_append_right (by omega), hdl, Nat.sub_self, hx]
        rfl
      have hxne : (x.node == ln.node) = false := by
        have h1 := hw1.fresh x (by rw [hx]; simp)
        have h2 := hw1.oldlt ln hlastmem
        exact beq_false_of_ne (by omega)
      rw [hslot]
      have hcond : (Option.map (fun x => x.node) (some x) != some ln.node) = true := by
        simp only [Option.map, bne, Option.some_beq_some, hxne, Bool.not_false]
      rw [if_pos hcond]
      have hdrop : ob.dropLast = pre ++ (be :: rest).dropLast := by
        rw [hob]; exact List.dropLast_append_of_ne_nil (by simp)
      have hcb := closeBlocksL_okl lsp pre (be :: rest).dropLast new1 s1 (by rw [e, hdrop]) hria1.source hw1.nodes hw1.keys
        hw1.ls.kids hw1.ls.plt
        (fun b hb => hw1.blocks b (by rw [e, hdrop]; exact List.mem_append_left _ (List.mem_append_right _ hb)))
        (leafy_of_all hmidc)
        (fun k hk => ⟨hw1.blocks k (by
            rw [e, hdrop]; rcases List.mem_append.1 hk with h | h
            · exact List.mem_append_left _ (List.mem_append_left _ h)
            · exact List.mem_append_right _ h), fun top htop =>
          Compat.of_container (hmidc top (List.mem_of_getLast? htop))⟩)
      have harg : li - 1 = (pre.length : Int) + ((be :: rest).dropLast.length : Int) - 1 := by
        rw [hliN, List.length_dropLast]; simp
      rw [harg, hi]
      refine OKL.bind hcb (fun _ s2 h2 => fin s2 h2 ?_)
      rw [e, hdrop, List.append_assoc]
      exact List.Sublist.append (List.Sublist.refl _) (List.sublist_append_right _ _)
  · rw [if_neg hres]
    have hpcn : new1 = [] := hpc1 (by simpa using hres)
    subst hpcn
    have hop1 : s1.pc.opened = ob := by
      rcases hw1.shape with e | ⟨_, h, _⟩
      · rw [e, List.append_nil]
      · exact absurd rfl h
    -- nothing opened, nothing closed: the stack is the old one; kinds and links are unchanged
    have hts := hts1 rfl
    refine OKL.ok ⟨c1, hria1, hw1.nodes, hw1.keys, hw1.blocks, by rw [hop1, ← hop]; exact hst.leafy, hw1.ls, ?_, ?_⟩
    · rw [hop1, ← hop]
      exact chainedO_agree root s.pc.opened hst.chain (fun a _ => (hts.same a).1) (fun b _ => (hts.same b.node).2.1)
        (fun a _ => (hts.same a).2.2.1)
    · rw [hop1, ← hop, (hts.same _).1]; exact hst.endOK

omit lsp in
theorem lastNode_pre (root : Nat) (pre : List Block) (be : Block) (rest : List Block) (h : 1 ≤ pre.length)
    (hlt : pre.length - 1 < (pre ++ be :: rest).length) :
    (pre ++ be :: rest)[pre.length - 1].node = lastNode root pre := by
  have h1 : (pre ++ be :: rest)[pre.length - 1] = pre[pre.length - 1]'(by omega) := by
    rw [List.getElem_append_left]
  rw [h1]
  unfold lastNode
  rw [List.getLast?_eq_getElem?, List.getElem?_eq_getElem (by omega)]
  rfl

/-- the fall-through part of an iteration of the `for i` loop -/
theorem lineFL {root : Nat} (parent : Nat) (hroot : parent = root) (pre : List Block) (be : Block) (rest : List Block)
    (ob : List Block) (li i : Int)
    (hob : ob = pre ++ be :: rest) (hli : li = (ob.length : Int) - 1) (hi : i = (pre.length : Int))
    (blank : Bool) (bl' : List LineStat) (s : St) (c : RCur)
    (hop : s.pc.opened = ob) (hri : RI src s.r c) (hpad : PadOK c) (hst : StableL src root s)
    (hmode : (nd s (lastNode root pre)).kind = .list → Due src s c (lastNode root pre)) :
    OKL (LLPostL src root)
      ((if (i != 0) = true then do
          let b ← liftE (blockAt ob (i - 1))
          let thisParent ← pure b.node
          let lastNode ← liftE (blockAt ob li)
          let result ← openBlocks thisParent blank
          if (result != OpenResult.paragraphContinuation) = true then do
              let __do_lift ← getPc
              closeBlocks
                  (if (Option.map (fun x => x.node) (slotAfter ob __do_lift.opened li.toNat) != some lastNode.node) = true then
                    li - 1
                  else li)
                  i
              pure (LineOutcome.next, bl')
            else pure (LineOutcome.next, bl')
        else do
          let thisParent ← pure parent
          let lastNode ← liftE (blockAt ob li)
          let result ← openBlocks thisParent blank
          if (result != OpenResult.paragraphContinuation) = true then do
              let __do_lift ← getPc
              closeBlocks
                  (if (Option.map (fun x => x.node) (slotAfter ob __do_lift.opened li.toNat) != some lastNode.node) = true then
                    li - 1
                  else li)
                  i
              pure (LineOutcome.next, bl')
            else pure (LineOutcome.next, bl') : M _) s) := by
  by_cases hi0 : (i != 0) = true
  · rw [if_pos hi0]
    have hpos : 1 ≤ pre.length := by
      have : i ≠ 0 := by simpa using hi0
      omega
    have hlt : pre.length - 1 < ob.length := by rw [hob]; simp; omega
    have hba : blockAt ob (i - 1) = .ok ob[pre.length - 1] := by
      have : i - 1 = ((pre.length - 1 : Nat) : Int) := by omega
      rw [this]; exact blockAt_ok ob _ hlt
    refine OKL.bind (liftE_okl (P := fun a s' => a = ob[pre.length - 1] ∧ s' = s) hba ⟨rfl, rfl⟩) (fun b sy hy => ?_)
    obtain ⟨hbv, hsy⟩ := hy
    subst sy
    simp only [pure_bind]
    have hbn : b.node = lastNode root pre := by
      rw [hbv]
      subst hob
      exact lastNode_pre root pre be rest hpos hlt
    exact lineTailL lsp pre be rest ob li i hob hli hi b.node blank bl' s c hop hri hpad hst hbn (by rw [hbn]; exact hmode)
  · rw [if_neg hi0]
    simp only [pure_bind]
    have hpe : pre = [] := by
      have : i = 0 := by simpa using hi0
      exact List.length_eq_zero_iff.1 (by omega)
    have hbn : parent = lastNode root pre := by rw [hpe, hroot]; rfl
    exact lineTailL lsp pre be rest ob li i hob hli hi parent blank bl' s c hop hri hpad hst hbn (by rw [hbn]; exact hmode)

/-- what listParser.Continue has established on this line for the List node `L` -/
def ListHint (src : Bytes) (s : St) (c : RCur) (L : Nat) : Prop :=
  ∃ lc, (nd s L).children.getLast? = some lc ∧
    (isBlank (lineOf src c) = false →
      ListGoesOn (nd s L) (lineOf src c) (nd s lc).offset (nd s lc).children.isEmpty
        (indentWidthI (lineOf src c) (loVal src c)).1 s.pc.emptyItemBlank stContinueHasChildren ∧
      ((indentWidthI (lineOf src c) (loVal src c)).1 < 4 →
        ((indentWidthI (lineOf src c) (loVal src c)).1 < (nd s lc).offset ∨ (nd s lc).children.isEmpty = true) →
        LineIsItem (lineOf src c) (nd s lc).offset → TH src c))

omit lsp in
theorem StableL.same {root : Nat} {s s' : St} (h : StableL src root s) (e : Ext s s') (hnodes : NodesOK src s')
    (t : TreeSame s s') (ho : s'.pc.opened = s.pc.opened) (ht : s'.pc.tmpPara = s.pc.tmpPara)
    (hf : s'.pc.fence = s.pc.fence) : StableL src root s' := by
  have hbok : ∀ b, BlockOK s b → BlockOK s' b := fun b hb =>
    hb.ext e (fun hp => by rw [ht]; exact (hb.setext hp).2) (fun hp => by rw [hf]; exact hb.fenced hp)
  refine ⟨hnodes, h.keys.ext e (.inl ht) (.inl hf), fun b hb => by rw [ho] at hb; exact hbok b (h.blocks b hb),
    by rw [ho]; exact h.leafy,
    h.ls.step e t.tf (fun i p hp => by rw [(t.same i).2.1] at hp; rw [t.len]; exact h.ls.plt i p hp) ho h.blocks, ?_, ?_⟩
  · rw [ho]
    exact chainedO_agree root s.pc.opened h.chain (fun a _ => (t.same a).1) (fun b _ => (t.same b.node).2.1)
      (fun a _ => (t.same a).2.2.1)
  · rw [ho, (t.same _).1]; exact h.endOK

omit lsp in
theorem StableL.congr {root : Nat} {s s' : St} (h : StableL src root s) (hn : s'.nodes = s.nodes)
    (ho : s'.pc.opened = s.pc.opened) (ht : s'.pc.tmpPara = s.pc.tmpPara) (hf : s'.pc.fence = s.pc.fence) :
    StableL src root s' :=
  h.same (Ext.of_nodes_eq hn) (fun n hm => h.nodes n (by rw [← hn]; exact hm)) (TreeSame.of_nodes_eq hn) ho ht hf

omit lsp in
theorem chainedO_split {s : St} {root : Nat} {pre : List Block} {be : Block} {rest : List Block}
    (h : ChainedO s root (pre ++ be :: rest)) : ChainedO s root pre ∧ LinkP s (lastNode root pre) be ∧ ChainedO s be.node rest := by
  rw [chainedO_append] at h
  exact ⟨h.1, h.2.1, h.2.2⟩

theorem lineLoopL {root : Nat} (parent : Nat) (hroot : parent = root) (ob : List Block) (li : Int)
    (hli : li = (ob.length : Int) - 1) :
    ∀ (rest pre : List Block) (i : Int) (bl : List LineStat) (s : St) (c : RCur), ob = pre ++ rest → i = (pre.length : Int) →
      s.pc.opened = ob → RI src s.r c → PadOK c → StableL src root s →
      (∀ Lb, pre.getLast? = some Lb → Lb.bp = .list → ListHint src s c Lb.node) →
      OKL (LLPostL src root) (lineLoop parent ob li rest i bl s) := by
  intro rest
  induction rest with
  | nil =>
    intro pre i bl s c _ _ _ hri _ hst _
    unfold lineLoop
    exact OKL.ok ⟨c, hri.toRIa, hst⟩
  | cons be rest ih =>
    intro pre i bl s c hob hi hop hri hpad hst hhint
    unfold lineLoop
    simp only []
    refine OKL.bind (peekLine_okl hri) (fun x s1 hx => ?_)
    obtain ⟨hx, r1, hs1, h1⟩ := hx
    subst hx hs1
    simp only
    have hst1 : StableL src root { s with r := r1 } := hst.congr rfl rfl rfl rfl
    have hhint1 : ∀ Lb, pre.getLast? = some Lb → Lb.bp = .list → ListHint src { s with r := r1 } c Lb.node := hhint
    cases hv : RCur.view src c with
    | none =>
      simp only []
      have hcb := closeBlocksL_okl lsp [] ob [] { s with r := r1 } (by simp [hop]) h1.source hst1.nodes hst1.keys
        hst1.ls.kids hst1.ls.plt (fun b hb => hst1.blocks b (by simpa [hop] using hb)) (hop ▸ hst.leafy) (by simp)
      have e1 : ((([] : List Block).length : Int) + (ob.length : Int) - 1) = li := by simp [hli]
      rw [e1] at hcb
      refine OKL.bind (m := closeBlocks li 0) hcb (fun _ s2 h2 => ?_)
      obtain ⟨h2r, h2o, h2n, h2k, h2e, h2t, _, h2p, h2b⟩ := h2
      simp only [bind, StateT.bind, advanceLine_eq, Except.bind, pure, StateT.pure, Except.pure]
      have hri2 : RI src s2.r c := by rw [h2r]; exact h1
      have hls2 : LStore s2 root := hst1.ls.close h2e h2t h2p (by rw [h2o]; simp) hst1.blocks
      refine OKL.ok ⟨_, (ri_advanceLine hri2).toRIa, h2n, ⟨h2k.tmp, h2k.fence⟩, ?_, ?_,
        ⟨⟨hls2.kids.kids, hls2.kids.off, hls2.kids.pk⟩, hls2.plt, hls2.rootKind, hls2.rootLt, ?_, ?_⟩, ?_, ?_⟩
      · intro b hb; simp only [h2o, List.append_nil] at hb; cases hb
      · simp only [h2o, List.append_nil]; intro b hb; cases hb
      · intro b hb; simp only [h2o, List.append_nil] at hb; cases hb
      · simp only [h2o, List.append_nil, List.map_nil]; exact List.pairwise_singleton _ _
      · simp only [h2o, List.append_nil]; trivial
      · simp only [h2o, List.append_nil, lastNode_nil]
        show (nd s2 root).kind ≠ .list
        rw [hls2.rootKind]; decide
    | some line =>
      simp only []
      have hp : c.p < src.length := view_some_lt src c hv
      have hlineOf : lineOf src c = line := by unfold lineOf; rw [hv]; rfl
      refine OKL.bind (m := position) (P := fun _ sy => sy = { s with r := r1 }) (OKL.ok rfl) (fun pos sy hy => ?_)
      subst hy
      refine OKL.bind (m := getNode be.node) (P := fun n sy => n = nd { s with r := r1 } be.node ∧ sy = { s with r := r1 })
        (OKL.ok ⟨rfl, rfl⟩) (fun n sy hy => ?_)
      obtain ⟨hn, hsy⟩ := hy
      subst n sy
      have hbemem : be ∈ s.pc.opened := by rw [hop, hob]; simp
      have hbeok := hst1.blocks be hbemem
      obtain ⟨hchpre, hlink, hchrest⟩ := chainedO_split (hob ▸ hop ▸ hst1.chain)
      -- the parent of `be` is a List only if `be` is a ListItem
      have hnotitem : be.bp ≠ .listItem → (nd { s with r := r1 } (lastNode root pre)).kind ≠ .list := fun hne hk =>
        hne (hlink.down hk).1
      have useF := fun (s2 : St) (c2 : RCur) (blank : Bool) (bl' : List LineStat) (ho2 : s2.pc.opened = ob)
          (hri2 : RI src s2.r c2) (hpad2 : PadOK c2) (hst2 : StableL src root s2)
          (hmode2 : (nd s2 (lastNode root pre)).kind = .list → Due src s2 c2 (lastNode root pre)) =>
        lineFL lsp parent hroot pre be rest ob li i hob hli hi blank bl' s2 c2 ho2 hri2 hpad2 hst2 hmode2
      -- common treatment of the answer `st` of `Continue`, in state `s2`
      have after : ∀ (K : M (LineOutcome × List LineStat)) (st : PState) (s2 : St) (c2 : RCur) (blankv : Bool)
          (bl' : List LineStat), StableL src root s2 → s2.pc.opened = ob → RIa src s2.r c2 → PadOK c2 →
          ((st.cont = true ∧ st.hasChildren = false) ∨ RI src s2.r c2) →
          (be.bp.isContainer = true → st.cont = true → st.hasChildren = true) →
          (be.bp.isContainer = false → st.hasChildren = false) →
          (st.cont = true → ∀ Lb, (pre ++ [be]).getLast? = some Lb → Lb.bp = .list → ListHint src s2 c2 Lb.node) →
          (st.cont = false → RI src s2.r c2 → OKL (LLPostL src root) (K s2)) →
          OKL (LLPostL src root)
            ((if st.cont = true then
                if (st.hasChildren && i == li) = true then
                  openBlocks be.node blankv >>= fun _ => pure (LineOutcome.next, bl')
                else
                  if (!false) = true then lineLoop parent ob li rest (i + 1) bl' else K
              else
                if (!true) = true then lineLoop parent ob li rest (i + 1) bl' else K) s2) := by
        intro K st s2 c2 blankv bl' hst2 hop2 hria2 hpad2 hcase2 hcontc hleafc hhint2 hK
        by_cases hcont : st.cont = true
        · rw [if_pos hcont]
          by_cases hch : (st.hasChildren && i == li) = true
          · rw [if_pos hch]
            simp only [Bool.and_eq_true] at hch
            have hri2 : RI src s2.r c2 := by
              rcases hcase2 with ⟨_, h⟩ | h
              · rw [hch.1] at h; cases h
              · exact h
            have hbec : be.bp.isContainer = true := by
              cases hc : be.bp.isContainer with
              | true => rfl
              | false => have := hleafc hc; rw [hch.1] at this; cases this
            have hrest : rest = [] := by
              have hii : i = li := by simpa using hch.2
              have : (ob.length : Int) = pre.length + rest.length + 1 := by rw [hob]; simp; omega
              have : rest.length = 0 := by omega
              exact List.length_eq_zero_iff.1 this
            have hobe : ob = pre ++ [be] := by rw [hob, hrest]
            have hlast : ob.getLast? = some be := by rw [hobe]; simp
            have hln : lastNode root ob = be.node := by rw [hobe, lastNode_concat]
            -- `be` is not a list (a list is never the last opened block)
            have hbek : (nd s2 be.node).kind ≠ .list := by
              have := hst2.endOK
              rw [hop2, hln] at this; exact this
            have hcl : Call s2.pc.opened ob := ⟨⟨[], by rw [hop2]; simp, fun _ b hb => by
              rw [hop2, hlast] at hb; cases hb; exact hbec⟩⟩
            have hobk := openBlocksL lsp ob be.node blankv s2 c2 hri2 hpad2 hst2 hcl hln.symm (fun hk => absurd hk hbek)
            refine OKL.bind hobk (fun res s3 h3 => ?_)
            obtain ⟨c3, new3, hria3, _, hw3, hleafy3, _, _, hend3, _⟩ := h3
            clear hobk
            have hallold : ∀ b ∈ ob, b.bp.isContainer = true := by
              intro b hb
              obtain ⟨hprec, _, _, _⟩ := leafy_split (hob ▸ hop ▸ hst.leafy)
              rw [hobe] at hb
              rcases List.mem_append.1 hb with h | h
              · exact hprec b h
              · simp only [List.mem_singleton] at h; rw [h]; exact hbec
            -- nothing was popped: `ob` is a prefix of the new stack
            obtain ⟨suf, hstack⟩ := hw3.stack
            have hsufe : suf = [] ∧ s3.pc.opened = ob ++ new3 := by
              rcases hw3.shape with e | ⟨_, _, e⟩
              · rw [hop2] at e
                rw [e] at hstack
                have hl := congrArg List.length hstack
                simp only [List.length_append] at hl
                exact ⟨List.length_eq_zero_iff.1 (by omega), e⟩
              · rw [hop2] at e
                rw [e] at hstack
                have hl := congrArg List.length hstack
                simp only [List.length_append, List.length_dropLast] at hl
                have hol : 1 ≤ ob.length := by rw [hobe]; simp
                omega
            refine OKL.ok ⟨c3, hria3, hw3.nodes, hw3.keys, hw3.blocks, ?_, hw3.ls, ?_, ?_⟩
            · rw [hsufe.2]; exact leafy_append hallold hleafy3
            · rw [hsufe.2]; exact hw3.chain
            · rw [hsufe.2]; exact hend3
          · rw [if_neg hch]
            rw [if_pos (by rfl)]
            by_cases hhc : st.hasChildren = true
            · have hri2 : RI src s2.r c2 := by
                rcases hcase2 with ⟨_, h⟩ | h
                · rw [hhc] at h; cases h
                · exact h
              exact ih (pre ++ [be]) (i + 1) _ s2 c2 (by rw [hob]; simp) (by simp; omega) hop2 hri2 hpad2 hst2 (hhint2 hcont)
            · have hbec : be.bp.isContainer = false := by
                cases hc : be.bp.isContainer with
                | false => rfl
                | true => exact absurd (hcontc hc hcont) hhc
              have hrest : rest = [] := by
                obtain ⟨_, hbe, _, _⟩ := leafy_split (hob ▸ hop ▸ hst.leafy)
                cases rest with
                | nil => rfl
                | cons r rs => have := hbe (by simp); rw [hbec] at this; cases this
              subst hrest
              unfold lineLoop
              exact OKL.ok ⟨c2, hria2, hst2⟩
        · rw [if_neg hcont]
          rw [if_neg (by decide)]
          have hri2 : RI src s2.r c2 := by
            rcases hcase2 with ⟨h, _⟩ | h
            · exact absurd h hcont
            · exact h
          exact hK (by simpa using hcont) hri2
      have hprelt : lastNode root pre < s.nodes.length := by
        rcases lastNode_mem root pre with e | ⟨b, hb, e⟩
        · rw [e]; exact hst.ls.rootLt
        · rw [e]; exact (hst.blocks b (by rw [hop, hob]; exact List.mem_append_left _ hb)).lt
      by_cases hkind : ((nd { s with r := r1 } be.node).kind != Kind.paragraph) = true
      · rw [if_pos hkind]
        by_cases hbl : be.bp = .list
        · -- listParser.Continue
          have hkl : (nd { s with r := r1 } be.node).kind = .list := by rw [hbeok.kind, hbl]; rfl
          have hitem : ListHasItem { s with r := r1 } be.node := by
            cases hr : rest with
            | nil =>
              exfalso
              have := hst1.endOK
              have hob1 : ({ s with r := r1 } : St).pc.opened = pre ++ [be] := by
                show s.pc.opened = _; rw [hop, hob, hr]
              rw [hob1, lastNode_concat] at this
              exact this hkl
            | cons b' rs =>
              rw [hr] at hchrest
              obtain ⟨h1', h2', h3'⟩ := hchrest.1.down hkl
              refine ⟨b'.node, h3', ?_⟩
              have hb'm : b' ∈ s.pc.opened := by rw [hop, hob, hr]; simp
              rw [(hst1.blocks b' hb'm).kind, h1']; rfl
          obtain ⟨lc, hlc, _⟩ := hitem
          have hitem : ListHasItem { s with r := r1 } be.node := ⟨lc, hlc, by assumption⟩
          have hcs := listContinue_okl2 src be.node { s with r := r1 } c h1 hp hitem
          have ebp : bpContinue be.bp be.node = listContinue be.node := by rw [hbl]; rfl
          rw [ebp]
          refine OKL.bind hcs (fun st s2 h2 => ?_)
          obtain ⟨r2, hr2, hri2, hn2, ho2, _, _, ht2, hf2, _, hcc2, hlc2⟩ := h2
          obtain ⟨hbl2, hnb2⟩ := hlc2 lc hlc
          have hst2 : StableL src root s2 := hst1.congr hn2 ho2 ht2 hf2
          have hri2' : RI src s2.r c := by rw [hr2]; exact hri2
          refine after _ st s2 c _ _ hst2 (by rw [ho2]; exact hop) hri2'.toRIa hpad (.inr hri2') (fun _ => hcc2)
            (fun hc => by rw [hbl] at hc; cases hc) ?_ ?_
          · intro hcont Lb hLb hLbl
            rw [List.getLast?_concat] at hLb
            cases hLb
            refine ⟨lc, by rw [nd_eq_of_nodes_eq hn2]; exact hlc, fun hnb => ?_⟩
            obtain ⟨hpc, hg, hth⟩ := hnb2 hnb
            have hst' : st = stContinueHasChildren := by
              rcases hg.1 with h | h
              · rw [h] at hcont; cases hcont
              · exact h
            rw [nd_eq_of_nodes_eq hn2, nd_eq_of_nodes_eq hn2, hpc, ← hst']
            exact ⟨hg, fun a b c' => hth hcont a b c'⟩
          · intro hcont hri2''
            exact useF s2 c _ _ (by rw [ho2]; exact hop) hri2'' hpad hst2
              (fun hk => by
                rw [nd_eq_of_nodes_eq hn2] at hk
                exact absurd (hlink.down hk).1 (by rw [hbl]; decide))
        · by_cases hbi : be.bp = .listItem
          · -- listItemParser.Continue
            have hkL : (nd { s with r := r1 } (lastNode root pre)).kind = .list := hlink.up hbi
            obtain ⟨_, hparL, hlastL⟩ := hlink.down hkL
            -- the list is the last block of `pre`
            obtain ⟨Lb, hLb, hLn⟩ : ∃ Lb, pre.getLast? = some Lb ∧ Lb.node = lastNode root pre := by
              unfold lastNode
              cases hg : pre.getLast? with
              | none =>
                exfalso
                have : lastNode root pre = root := by unfold lastNode; rw [hg]; rfl
                rw [this, hst1.ls.rootKind] at hkL; cases hkL
              | some Lb => exact ⟨Lb, rfl, rfl⟩
            have hLbm : Lb ∈ s.pc.opened := by rw [hop, hob]; exact List.mem_append_left _ (List.mem_of_getLast? hLb)
            have hLbl : Lb.bp = .list := by
              have := (hst1.blocks Lb hLbm).kind
              rw [hLn, hkL] at this
              exact kind_list this.symm
            obtain ⟨lc, hlc, hg⟩ := hhint1 Lb hLb hLbl
            rw [hLn] at hlc hg
            have hlcbe : lc = be.node := by rw [hlastL] at hlc; cases hlc; rfl
            subst hlcbe
            have hkk := li_kidsOK_of hst1.ls.kids (lastNode root pre) hkL
            have hoffe : li_lastOff { s with r := r1 } (lastNode root pre) = (nd { s with r := r1 } be.node).offset := by
              unfold li_lastOff; rw [hlastL]
            have hoff : 0 ≤ li_lastOff { s with r := r1 } (lastNode root pre) := by
              rw [hoffe]; exact hst1.ls.kids.off be.node (by rw [hbeok.kind, hbi]; rfl)
            have hlist : li_ListContinued src { s with r := r1 } c be.node (lastNode root pre) := by
              unfold li_ListContinued
              simp only
              intro hnb
              rw [hoffe]
              obtain ⟨hgo, _⟩ := hg hnb
              have hns := hgo.not_short rfl
              refine ⟨hns.1, fun hh => ?_⟩
              refine hns.2.1 ⟨?_, hh.2.1, fun ⟨m, typ, hm, ht, _⟩ => ?_⟩
              · have := hh.1
                simp only [Bool.and_eq_true, beq_iff_eq] at this
                exact List.isEmpty_iff_length_eq_zero.2 this.1
              · have := hh.2.2.2
                rw [li_matchesListItem_strict] at this
                have hm' : matchesListItem (lineOf src c) false = (m, typ) := hm
                unfold lineOf at hm'
                rw [hm'] at this
                exact ht this
            have hcs := listItemContinue_okl2 src be.node { s with r := r1 } c h1 hpad hp (lastNode root pre) hparL hkk hoff hlist
            have ebp : bpContinue be.bp be.node = listItemContinue be.node := by rw [hbi]; rfl
            rw [ebp]
            refine OKL.bind hcs (fun st s2 h2 => ?_)
            obtain ⟨c2, hri2, hpad2, _, hn2, ho2, ht2, hf2, hcc2, hpcc2, hclose2⟩ := h2
            have hst2 : StableL src root s2 := hst1.congr hn2 ho2 ht2 hf2
            refine after _ st s2 c2 _ _ hst2 (by rw [ho2]; exact hop) hri2.toRIa hpad2 (.inr hri2) (fun _ => hcc2)
              (fun hc => by rw [hbi] at hc; cases hc) ?_ ?_
            · intro _ Lb' hLb' hLbl'
              rw [List.getLast?_concat] at hLb'
              cases hLb'
              rw [hbi] at hLbl'; cases hLbl'
            · intro hcont hri2''
              obtain ⟨hcc, hnb, heib, _, hcase⟩ := hclose2 hcont
              subst c2
              refine useF s2 c _ _ (by rw [ho2]; exact hop) hri2'' hpad hst2 (fun _ => ?_)
              obtain ⟨hgo, hth⟩ := hg hnb
              -- the list went on because the line starts its next item
              have hdisj := hgo.2 rfl
              have hoff2 : li_lastOff s2 (lastNode root pre) = (nd { s with r := r1 } be.node).offset := by
                rw [← hoffe]; unfold li_lastOff; simp only [nd_eq_of_nodes_eq hn2]
              rcases hcase with ⟨hsk, hm, hi4, hei⟩ | ⟨_, hne, hio, _, hnl⟩
              · rcases hdisj with ⟨_, hor, hnext⟩ | ⟨hle, heb, _⟩
                · obtain ⟨m, typ, hm', ht', hr', _⟩ := hnext
                  refine ⟨hp, by rw [nd_eq_of_nodes_eq hn2]; exact hkL, fun m2 typ2 he2 => ?_, fun _ _ _ _ _ _ _ _ _ =>
                    hth hi4 hor ⟨m, typ, hm', ht', hr'⟩, .inl hsk⟩
                  have : matchesListItem (lineOf src c) false = (m, typ) := hm'
                  rw [this] at he2; cases he2
                  rw [hoff2]
                  exact ⟨ht', by omega⟩
                · exfalso
                  rw [hoffe] at hei
                  rcases hei with h | h
                  · simp only [Bool.and_eq_true] at h
                    rw [h.2] at heb; cases heb
                  · simp only [lineOf] at hle h; omega
              · exfalso
                rw [hoffe] at hio
                rcases hdisj with ⟨_, _, m, typ, hm', ht', _⟩ | ⟨hle, _⟩
                · rw [li_matchesListItem_strict] at hnl
                  have : matchesListItem (lineOf src c) false = (m, typ) := hm'
                  unfold lineOf at this
                  rw [this] at hnl
                  exact ht' hnl
                · simp only [lineOf] at hle hio; omega
          · -- the other parsers
            have hnl : NotList be.bp := ⟨hbl, hbi⟩
            have hcs := (specs_notList src).cont be.bp hnl be.node { s with r := r1 } c h1 hpad hp hst1.nodes hst1.keys hbeok
            have hcs' : OKL (fun st s2 => ContPost src be.bp { s with r := r1 } c st s2 ∧ TreeSame { s with r := r1 } s2)
                (bpContinue be.bp be.node { s with r := r1 }) := by
              rcases hcs with ⟨a, s2, e2, h2⟩ | e2
              · exact .inl ⟨a, s2, e2, h2, lsp.contTS be.bp be.node _ a s2 e2⟩
              · exact .inr e2
            refine OKL.bind hcs' (fun st s2 h2 => ?_)
            obtain ⟨h2, hts2⟩ := h2
            obtain ⟨c2, hria2, hpad2, _, _, hcase2⟩ := h2.ria
            have hst2 : StableL src root s2 := hst1.same h2.ext h2.nodes hts2 (by rw [h2.pc]) (by rw [h2.pc]) (by rw [h2.pc])
            refine after _ st s2 c2 _ _ hst2 (by rw [h2.pc]; exact hop) hria2 hpad2 hcase2 h2.cont h2.leaf ?_ ?_
            · intro _ Lb' hLb' hLbl'
              rw [List.getLast?_concat] at hLb'
              cases hLb'
              exact absurd hLbl' hbl
            · intro hcont hri2''
              exact useF s2 c2 _ _ (by rw [h2.pc]; exact hop) hri2'' hpad2 hst2
                (fun hk => by
                  rw [(hts2.same _).1] at hk
                  exact absurd (hlink.down hk).1 hbi)
      · rw [if_neg hkind]
        rw [if_neg (by decide)]
        have hbp : be.bp ≠ .listItem := by
          intro hbi
          have : (nd { s with r := r1 } be.node).kind = .paragraph := by simpa using hkind
          rw [hbeok.kind, hbi] at this; cases this
        exact useF { s with r := r1 } c _ _ hop h1 hpad hst1 (fun hk => absurd (hlink.down hk).1 hbp)


omit lsp in
theorem StableL.congr_r {root : Nat} {s : St} (h : StableL src root s) (r' : Reader) : StableL src root { s with r := r' } :=
  h.congr rfl rfl rfl rfl

theorem linesLoopL {root : Nat} (parent : Nat) (hroot : parent = root) :
    ∀ (fuel : Nat) (bl : List LineStat) (s : St) (c : RCur), RI src s.r c → PadOK c → StableL src root s →
      OKL (fun x s' => StableL src root s' ∧ (x.1 = false → s'.pc.opened = [] ∧ ∃ c', RI src s'.r c' ∧ PadOK c'))
        (linesLoop parent fuel bl s) := by
  intro fuel
  induction fuel with
  | zero => intro _ _ _ _ _ _; exact .inr rfl
  | succ fuel ih =>
    intro bl s c hri hpad hst
    unfold linesLoop
    refine OKL.bind (m := getPc) (P := fun pc sy => pc = s.pc ∧ sy = s) (OKL.ok ⟨rfl, rfl⟩) (fun pc sy hy => ?_)
    obtain ⟨hpc, hsy⟩ := hy
    subst pc sy
    simp only []
    by_cases hl : (s.pc.opened.length == 0) = true
    · rw [if_pos hl]
      exact OKL.ok ⟨hst, fun _ => ⟨List.length_eq_zero_iff.1 (by simpa using hl), c, hri, hpad⟩⟩
    · rw [if_neg hl]
      have hll := lineLoopL lsp parent hroot s.pc.opened ((s.pc.opened.length : Int) - 1) rfl s.pc.opened [] 0 bl s c
        (by simp) (by simp) rfl hri hpad hst (fun Lb h => by simp at h)
      refine OKL.bind hll (fun x s1 h1 => ?_)
      obtain ⟨c1, hria1, hst1⟩ := h1
      obtain ⟨outcome, bl1⟩ := x
      cases outcome with
      | eof => exact OKL.ok ⟨hst1, fun h => by cases h⟩
      | next =>
        simp only []
        simp only [bind, StateT.bind, advanceLine_eq, Except.bind]
        exact ih bl1 _ _ (advanceLine_ria hria1) (padOK_advanceLine c1) (hst1.congr_r _)

theorem blocksLoopL {root : Nat} (parent : Nat) (hroot : parent = root) :
    ∀ (fuel : Nat) (bl : List LineStat) (s : St) (c : RCur), RI src s.r c → PadOK c → StableL src root s →
      s.pc.opened = [] → OKL (fun _ s' => StableL src root s') (blocksLoop parent fuel bl s) := by
  intro fuel
  induction fuel with
  | zero => intro _ _ _ _ _ _ _; exact .inr rfl
  | succ fuel ih =>
    intro bl s c hri hpad hst hemp
    unfold blocksLoop
    have hskip : OKL (fun (_ : Segment × Int × Bool) s1 => ∃ r1 c1, s1 = { s with r := r1 } ∧ RI src r1 c1 ∧ PadOK c1)
        (skipBlankLinesR s) := by
      unfold skipBlankLinesR
      rcases skipBlankLines_ri (src := src) (loopFuel s.r.source) 0 s.r c hri hpad with ⟨x, r', c', e, h1, h2⟩ | e
      · simp only [e, bind, Except.bind, pure, Except.pure]
        exact OKL.ok ⟨r', c', rfl, h1, h2⟩
      · simp only [e, bind, Except.bind]
        exact .inr rfl
    refine OKL.bind hskip (fun x s1 h1 => ?_)
    obtain ⟨r1, c1, hs1, hri1, hpad1⟩ := h1
    subst hs1
    obtain ⟨seg, lines, ok⟩ := x
    have hst1 := hst.congr_r r1
    by_cases hok : (!ok) = true
    · simp only [hok, if_true]; exact OKL.ok hst1
    simp only [hok, Bool.false_eq_true, if_false]
    refine OKL.bind (m := position) (P := fun _ sy => sy = { s with r := r1 }) (OKL.ok rfl) (fun pos sy hy => ?_)
    subst hy
    refine OKL.bind (m := getPc) (P := fun pc sy => pc = s.pc ∧ sy = { s with r := r1 }) (OKL.ok ⟨rfl, rfl⟩) (fun pc sy hy => ?_)
    obtain ⟨hpc, hsy⟩ := hy
    subst pc sy
    have hcl : Call ({ s with r := r1 } : St).pc.opened [] := ⟨⟨s.pc.opened, by simp, fun h b hb => by
      rw [show ({ s with r := r1 } : St).pc.opened = s.pc.opened from rfl, hemp] at hb; cases hb⟩⟩
    have hkroot : (nd ({ s with r := r1 } : St) parent).kind ≠ .list := by
      rw [hroot, hst1.ls.rootKind]; decide
    refine OKL.bind (openBlocksL lsp [] parent _ { s with r := r1 } c1 hri1 hpad1 hst1 hcl (by rw [hroot]; rfl)
      (fun hk => absurd hk hkroot)) (fun res s2 h2 => ?_)
    obtain ⟨c2, new2, hria2, _, hw2, hleafy2, _, _, hend2, _⟩ := h2
    have hop2 : s2.pc.opened = new2 := by
      rcases hw2.shape with e | ⟨h, _, _⟩
      · rw [e]; show s.pc.opened ++ new2 = new2; rw [hemp]; rfl
      · exact absurd hemp h
    have hst2 : StableL src root s2 :=
      ⟨hw2.nodes, hw2.keys, hw2.blocks, by rw [hop2]; exact hleafy2, hw2.ls, by rw [hop2]; simpa using hw2.chain,
        by rw [hop2]; simpa using hend2⟩
    by_cases hres : (res != OpenResult.newBlocksOpened) = true
    · rw [if_pos hres]; exact OKL.ok hst2
    rw [if_neg hres]
    refine OKL.bind (m := advanceLine) (P := fun _ sy => sy = { s2 with r := s2.r.advanceLine }) (OKL.ok rfl) (fun _ sy hy => ?_)
    subst hy
    refine OKL.bind (linesLoopL lsp parent hroot fuel _ { s2 with r := s2.r.advanceLine } _ (advanceLine_ria hria2)
      (padOK_advanceLine c2) (hst2.congr_r _)) (fun x s3 h3 => ?_)
    obtain ⟨hst3, hret3⟩ := h3
    obtain ⟨ret, bl3⟩ := x
    by_cases hret : ret = true
    · simp only [hret, if_true]; exact OKL.ok hst3
    · simp only [hret, Bool.false_eq_true, if_false]
      obtain ⟨hemp3, c3, hri3, hpad3⟩ := hret3 (by simpa using hret)
      exact ih bl3 s3 c3 hri3 hpad3 hst3 hemp3

/-- **the block phase ends normally for EVERY source** (or runs out of fuel, which `run_noLoop` excludes) -/
theorem runL : (∃ s, run src = .ok s ∧ NodesOK src s) ∨ run src = .error .loop := by
  unfold run parseBlocks
  have hinit : StableL src 0 { (initSt src) with pc := { (initSt src).pc with opened := [] } } := by
    have hnd0 : ∀ i, nd ({ (initSt src) with pc := { (initSt src).pc with opened := [] } } : St) i =
        if i = 0 then { kind := .document } else default := by
      intro i
      cases i with
      | zero => rfl
      | succ n => rfl
    refine ⟨?_, ⟨?_, ?_⟩, ?_, ?_, ⟨⟨?_, ?_, ?_⟩, ?_, ?_, ?_, ?_, ?_⟩, ?_, ?_⟩
    · intro n hn
      simp only [initSt, List.mem_singleton] at hn
      subst hn
      exact ⟨by intro t ht; simp at ht, fun _ => rfl⟩
    · intro t h; simp [initSt] at h
    · intro f h; simp [initSt] at h
    · intro b hb; simp at hb
    · intro b hb; simp at hb
    · intro i lc hk; rw [hnd0] at hk; split at hk <;> cases hk
    · intro i hk; rw [hnd0] at hk; split at hk <;> cases hk
    · intro i p hp; rw [hnd0] at hp; split at hp <;> cases hp
    · intro i p hp; rw [hnd0] at hp; split at hp <;> cases hp
    · rw [hnd0]; rfl
    · simp [initSt]
    · intro b hb; simp at hb
    · simp
    · trivial
    · show (nd _ (lastNode 0 [])).kind ≠ .list
      rw [lastNode_nil, hnd0]; decide
  have := blocksLoopL lsp 0 rfl (linesFuel src) [] { (initSt src) with pc := { (initSt src).pc with opened := [] } }
    RCur.init (ri_init src) (fun h => absurd rfl h) hinit rfl
  simp only [bind, StateT.bind, modPc, source, Except.bind, pure, StateT.pure, Except.pure]
  rcases this with ⟨_, s', e, hs'⟩ | e
  · left
    refine ⟨s', ?_, hs'.nodes⟩
    have e' : blocksLoop 0 (linesFuel (initSt src).r.source) []
        { r := (initSt src).r, nodes := (initSt src).nodes, pc := { (initSt src).pc with opened := [] } } = .ok ((), s') := e
    rw [e']; rfl
  · right
    have e' : blocksLoop 0 (linesFuel (initSt src).r.source) []
        { r := (initSt src).r, nodes := (initSt src).nodes, pc := { (initSt src).pc with opened := [] } } = .error .loop := e
    rw [e']; rfl

end tp

end GM.Blocks.L
