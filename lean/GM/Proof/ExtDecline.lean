/-
  GM.Proof.ExtDecline — the early-exit theorems over GM.Model.ExtDecline (C11): on a line that lacks the
  characters the property names, each extension's parser returns nil without effect.
-/
import GM.Model.ExtDecline
import GM.Model.Table
import GM.Proof.Table

namespace GM.Ext
open GM

/-- `pat` occurs in `l` as a contiguous subsequence (decidable form of "the document contains `www.`") -/
def hasInfix (pat : Bytes) : Bytes → Bool
  | [] => pat.isPrefixOf []
  | c :: cs => pat.isPrefixOf (c :: cs) || hasInfix pat cs

theorem no_prefix_of_drop {pat l : Bytes} (h : hasInfix pat l = false) (k : Nat) : pat.isPrefixOf (l.drop k) = false := by
  induction l generalizing k with
  | nil => simpa [hasInfix] using h
  | cons c cs ih =>
    simp only [hasInfix, Bool.or_eq_false_iff] at h
    cases k with
    | zero => simpa using h.1
    | succ k => simpa using ih h.2 k

theorem mem_of_isPrefixOf {p l : Bytes} (h : p.isPrefixOf l = true) {x : UInt8} (hx : x ∈ p) : x ∈ l := by
  rw [List.isPrefixOf_iff_prefix] at h
  exact h.subset hx

/-- two consecutive bytes form an occurrence -/
theorem hasInfix_two {l : Bytes} {p : Nat} {a b : UInt8} (h1 : l[p]? = some a) (h2 : l[p + 1]? = some b) :
    hasInfix [a, b] l = true := by
  induction l generalizing p with
  | nil => simp at h1
  | cons x xs ih =>
    cases p with
    | zero =>
      simp at h1 h2
      cases xs with
      | nil => simp at h2
      | cons y ys =>
        simp at h2
        simp [hasInfix, List.isPrefixOf, h1, h2]
    | succ p =>
      simp at h1 h2
      simp [hasInfix, ih h1 h2]

/-! ### Linkify -/

theorem findEmailIndex_no_at {b : Bytes} (h : (64 : UInt8) ∉ b) : Inl.findEmailIndex b = -1 := by
  unfold Inl.findEmailIndex
  simp only []
  split
  · rfl
  · split
    · rfl
    · rename_i hne
      exfalso
      apply hne
      simp only [bne_iff_ne, ne_eq]
      intro heq
      exact h (List.mem_of_getElem? heq)

theorem linkifyGuard_false {l : Bytes} (hcolon : (58 : UInt8) ∉ l) (hwww : domainWWW.isPrefixOf l = false) :
    linkifyGuard l = false := by
  unfold linkifyGuard
  have h1 : protoHTTP.isPrefixOf l = false := by
    cases h : protoHTTP.isPrefixOf l with
    | false => rfl
    | true => exact absurd (mem_of_isPrefixOf h (by decide)) hcolon
  have h2 : protoHTTPS.isPrefixOf l = false := by
    cases h : protoHTTPS.isPrefixOf l with
    | false => rfl
    | true => exact absurd (mem_of_isPrefixOf h (by decide)) hcolon
  have h3 : protoFTP.isPrefixOf l = false := by
    cases h : protoFTP.isPrefixOf l with
    | false => rfl
    | true => exact absurd (mem_of_isPrefixOf h (by decide)) hcolon
  simp [h1, h2, h3, hwww]

theorem linkifyBody_declines (strip : Bool) (L : Bytes)
    (hcolon : (58 : UInt8) ∉ L) (hat : (64 : UInt8) ∉ L) (hw : domainWWW.isPrefixOf L = false) :
    linkifyBody strip L = .nil 0 := by
  unfold linkifyBody
  rw [linkifyGuard_false hcolon hw, findEmailIndex_no_at hat]
  simp

/-- LINKIFY DECLINES. On every (non-empty) peeked line that contains no ':', no '@' and no `www.`, Parse returns
    nil without having moved the reader or touched the parent — inside or outside a link label. -/
theorem linkifyParse_declines (lbl : Bool) (line : Bytes) (hne : line ≠ [])
    (hcolon : (58 : UInt8) ∉ line) (hat : (64 : UInt8) ∉ line) (hwww : hasInfix domainWWW line = false) :
    linkifyParse lbl line = .nil 0 := by
  unfold linkifyParse
  split
  · rfl
  · cases line with
    | nil => exact absurd rfl hne
    | cons c rest =>
      simp only []
      split
      · exact linkifyBody_declines true rest (fun h => hcolon (by simp [h])) (fun h => hat (by simp [h]))
          (by simpa using no_prefix_of_drop hwww 1)
      · exact linkifyBody_declines false (c :: rest) hcolon hat (by simpa using no_prefix_of_drop hwww 0)

/-! ### Footnote -/

/-- FOOTNOTE INLINE, no list: while no footnote definition has been closed (no FootnoteList in the context) Parse
    returns nil on every line; it may have advanced the reader (the loop puts it back) -/
theorem footnoteParse_noList (line : Bytes) : ∃ m, footnoteParse none line = .nil m := by
  unfold footnoteParse
  simp only []
  repeat' split
  all_goals exact ⟨_, rfl⟩

/-- FOOTNOTE INLINE at a '[' that is not followed by '^': nil at the first test, whatever the context holds -/
theorem footnoteParse_bracket (refs : Option (List Bytes)) (line : Bytes) (hh : line.head? = some 91)
    (h : hasInfix [91, 94] line = false) : footnoteParse refs line = .nil 0 := by
  cases line with
  | nil => simp at hh
  | cons c rest =>
    simp at hh
    subst hh
    unfold footnoteParse
    simp only [List.head?_cons]
    have h33 : (some (91 : UInt8) == some 33) = false := by decide
    simp only [h33]
    cases rest with
    | nil => simp
    | cons d rest' =>
      have hd : d ≠ 94 := by
        intro hd
        subst hd
        simp [hasInfix, List.isPrefixOf] at h
      simp [hd]

/-- FOOTNOTE BLOCK: on a line without the two bytes `[^`, Open returns (nil, NoChildren) at once -/
theorem footnoteOpen_declines (line : Bytes) (pos : Int) (hpos : pos < 0 ∨ pos.toNat < line.length)
    (h : hasInfix [91, 94] line = false) : footnoteOpen line pos = .nil := by
  unfold footnoteOpen
  split
  · rfl
  · rename_i hp
    simp only []
    have hlt : pos.toNat < line.length := by
      rcases hpos with h1 | h1
      · exact absurd h1 hp
      · exact h1
    rw [List.getElem?_eq_getElem hlt]
    simp only []
    split
    · rfl
    · rename_i hc
      simp at hc
      by_cases hlen : pos.toNat + 1 > line.length - 1
      · simp [hlen]
      · have hlt2 : pos.toNat + 1 < line.length := by omega
        have hd : line[pos.toNat + 1] ≠ 94 := by
          intro hd
          have := hasInfix_two (l := line) (p := pos.toNat) (a := 91) (b := 94)
            (by rw [List.getElem?_eq_getElem hlt, hc]) (by rw [List.getElem?_eq_getElem hlt2, hd])
          rw [this] at h
          cases h
        have : line[pos.toNat + 1]?.getD 0 ≠ 94 := by
          rw [List.getElem?_eq_getElem hlt2]
          simpa using hd
        simp [this]

/-! ### DefinitionList -/

theorem defListOpen_declines (parentIsDL : Bool) (line : Bytes) (pos indent : Int) (last : LastChild)
    (hpos : pos < 0 ∨ pos.toNat < line.length) (h : (58 : UInt8) ∉ line) :
    defListOpen parentIsDL line pos indent last = .nil := by
  unfold defListOpen
  split
  · rfl
  · split
    · rfl
    · rename_i hp
      have hlt : pos.toNat < line.length := by
        rcases hpos with h1 | h1
        · exact absurd h1 hp
        · exact h1
      rw [List.getElem?_eq_getElem hlt]
      simp only []
      have : line[pos.toNat] ≠ 58 := fun hc => h (hc ▸ List.getElem_mem hlt)
      simp [this]

theorem defDescOpen_declines (parentIsDL : Bool) (line : Bytes) (pos indent : Int)
    (hpos : pos < 0 ∨ pos.toNat < line.length) (h : (58 : UInt8) ∉ line) :
    defDescOpen parentIsDL line pos indent = .nil := by
  unfold defDescOpen
  split
  · rfl
  · rename_i hp
    have hlt : pos.toNat < line.length := by
      rcases hpos with h1 | h1
      · exact absurd h1 hp
      · exact h1
    rw [List.getElem?_eq_getElem hlt]
    simp only []
    have : line[pos.toNat] ≠ 58 := fun hc => h (hc ▸ List.getElem_mem hlt)
    simp [this]

/-! ### TaskList -/

theorem taskParse_needs_bracket (inItem : Bool) (line : Bytes) (h : line.head? ≠ some 91) :
    taskParse inItem line = .nil 0 := by
  unfold taskParse
  split
  · rfl
  · split
    · simp at h
    · rfl

/-! ### Typographer -/

/-- TYPOGRAPHER DECLINES at every byte other than ' " - . < > (in particular at its triggers , * [) -/
theorem typoParse_declines (c : UInt8) (rest : Bytes)
    (h : c ≠ 39 ∧ c ≠ 34 ∧ c ≠ 45 ∧ c ≠ 46 ∧ c ≠ 60 ∧ c ≠ 62) : typoParse (c :: rest) = .nil 0 := by
  obtain ⟨h1, h2, h3, h4, h5, h6⟩ := h
  unfold typoParse
  simp [h1, h2, h3, h4, h5, h6]

/-! ### CJK -/

/-- what the Unicode tables say about ASCII: no ASCII rune is East-Asian wide / F / W / H or space-discarding
    (checked exhaustively on util.IsEastAsianWideRune, util.EastAsianWidth, util.IsSpaceDiscardingUnicodeRune by
    component extdecline) -/
def AsciiNarrow (U : RuneClass) : Prop :=
  ∀ r, r < 128 → U.wide r = false ∧ U.fwh r = false ∧ U.spaceDiscarding r = false

theorem softLineBreak_ascii (U : RuneClass) (hU : AsciiNarrow U) (style : Nat) (hs : style = 1 ∨ style = 2)
    (a b : Nat) (ha : a < 128) (hb : b < 128) : softLineBreak U style a b = true := by
  obtain ⟨wa, fa, sa⟩ := hU a ha
  obtain ⟨wb, fb, sb⟩ := hU b hb
  rcases hs with rfl | rfl
  · simp [softLineBreak, wa]
  · have h1 : (a == 0x200B) = false := by simp; omega
    have h2 : (b == 0x200B) = false := by simp; omega
    have h3 : (a == 0x3000) = false := by simp; omega
    have h4 : (b == 0x3000) = false := by simp; omega
    have h5 : decide (a > 127) = false := by simp; omega
    have h6 : decide (b > 127) = false := by simp; omega
    simp [softLineBreak, css3SoftLineBreak, fa, sa, sb, h1, h2, h3, h4, h5, h6]

/-- CJK, ASCII: for a Text whose last rune and whose following rune (if any) are ASCII the `\n` of a soft break is
    written under every East-Asian style, exactly as without the option (style 0) -/
theorem softBreakWritten_ascii (U : RuneClass) (hU : AsciiNarrow U) (style : Nat) (hs : style ≤ 2) (valueEmpty : Bool)
    (last : Nat) (next : Option Nat) (hl : last < 128) (hn : ∀ b, next = some b → b < 128) :
    softBreakWritten U style valueEmpty last next = softBreakWritten U 0 valueEmpty last next := by
  have h0 : softBreakWritten U 0 valueEmpty last next = true := by simp [softBreakWritten]
  rw [h0]
  unfold softBreakWritten
  split
  · rename_i hc
    cases next with
    | none => rfl
    | some b =>
      simp only []
      have hs' : style = 1 ∨ style = 2 := by
        simp at hc
        omega
      exact softLineBreak_ascii U hU style hs' last b hl (hn b rfl)
  · rfl

/-! ### block parser table -/

theorem blockCandidates_insert_off (l1 l2 : List BlockP) (q : BlockP) (t : Bytes) (c : UInt8)
    (hq : q.triggers = some t) (hc : c ∉ t) :
    blockCandidates (l1 ++ q :: l2) c = blockCandidates (l1 ++ l2) c := by
  have hf : t.filter (· == c) = [] := by
    rw [List.filter_eq_nil_iff]
    intro a ha hEq
    have : a = c := by simpa using hEq
    exact hc (this ▸ ha)
  unfold blockCandidates blockTable
  simp [List.flatMap_append, List.filter_append, hq, hf]

/-! ### Table -/

open GM.Table in
theorem findTable_no_dash (src : Bytes) (all : List Seg) (rest : List Seg) (before : List Seg) (prev : Seg)
    (h : ∀ l ∈ rest, (45 : UInt8) ∉ l.value src) :
    findTable src all before prev rest = { para := all, table := Option.none } := by
  induction rest generalizing before prev with
  | nil => rfl
  | cons cur rest ih =>
    unfold findTable
    have hnone : parseDelimiter (cur.value src) = Option.none := by
      cases hp : parseDelimiter (cur.value src) with
      | none => rfl
      | some al => exact absurd (GM.Proof.Table.parseDelimiter_some hp).2.1 (h cur (by simp))
    rw [hnone]
    exact ih _ _ (fun l hl => h l (by simp [hl]))

open GM.Table in
/-- TABLE: a paragraph none of whose lines contains '-' is left untouched by the paragraph transformer -/
theorem transform_no_dash (src : Bytes) (lines : List Seg) (h : ∀ l ∈ lines, (45 : UInt8) ∉ l.value src) :
    transform src lines = { para := lines, table := Option.none } := by
  unfold transform
  cases lines with
  | nil => rfl
  | cons first rest => exact findTable_no_dash src _ rest [] first (fun l hl => h l (by simp [hl]))

open GM.Table in
theorem value_no_dash (src : Bytes) (s : Seg) (h : (45 : UInt8) ∉ src) : (45 : UInt8) ∉ s.value src := by
  unfold Seg.value GM.Table.slice
  intro hm
  rcases List.mem_append.mp hm with hm | hm
  · have := List.eq_of_mem_replicate hm
    cases this
  · exact h (List.mem_of_mem_drop (List.mem_of_mem_take hm))

end GM.Ext
