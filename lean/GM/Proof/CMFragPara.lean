/-
  GM.Proof.CMFragPara — a whole paragraph of a fragment document in the source: its line segments while it is open
  (`openSegs`) and after `paragraphParser.Close` (`paraSegs`), the run-time check of the link-reference
  transformer passes and the transformer declines, `Close` trims nothing but the last line feed.
-/
import GM.Proof.CMFragBlocks
import GM.Proof.LinkRefFacts

namespace GM.Proof.CMFrag
open GM GM.Text GM.Blocks GM.Spec

/-- what the block phase needs of a text line -/
structure BlkLine (l : Bytes) : Prop where
  first : ∃ c t, l = c :: t ∧ GM.Spec.CM.isLetter c = true
  lastNoSpace : ∀ c, l.getLast? = some c → isSpace c = false
  noNl : ∀ c ∈ l, c ≠ 10

theorem GoodLine.blk {l : Bytes} (h : GoodLine l) (hn : ∀ c ∈ l, c ≠ 10) : BlkLine l := by
  refine ⟨?_, h.lastNoSpace, hn⟩
  cases l with
  | nil => exact absurd rfl h.ne
  | cons c t => exact ⟨c, t, rfl, h.first c rfl⟩

/-- the lines `ls` of a paragraph lie in `src` from byte `p` on -/
def ParaAt (src : Bytes) : Nat → List Bytes → Prop
  | _, [] => True
  | p, l :: rest => Ln src p (p + l.length + 1) (l ++ [10]) ∧ ParaAt src (p + l.length + 1) rest

/-- the line segments of the open paragraph -/
def openSegs : Nat → List Bytes → List Segment
  | _, [] => []
  | p, l :: rest => sg p (p + l.length + 1) :: openSegs (p + l.length + 1) rest

theorem openSegs_append (p : Nat) (ls : List Bytes) (l : Bytes) :
    openSegs p (ls ++ [l]) = openSegs p ls ++ [sg (p + (paraBytes ls).length) (p + (paraBytes ls).length + l.length + 1)] := by
  induction ls generalizing p with
  | nil => simp [openSegs, paraBytes]
  | cons a rest ih =>
    simp only [List.cons_append, openSegs, ih, paraBytes, List.flatMap_cons, List.length_append, List.length_cons,
      List.length_nil]
    have e : p + a.length + 1 + (List.flatMap (fun x => x ++ [10]) rest).length =
        p + (a.length + (0 + 1) + (List.flatMap (fun x => x ++ [10]) rest).length) := by omega
    rw [e]

theorem paraAt_append {src : Bytes} {p : Nat} {ls : List Bytes} {l : Bytes} (h : ParaAt src p ls)
    (hl : Ln src (p + (paraBytes ls).length) (p + (paraBytes ls).length + l.length + 1) (l ++ [10])) :
    ParaAt src p (ls ++ [l]) := by
  induction ls generalizing p with
  | nil => simpa [ParaAt, paraBytes] using hl
  | cons a rest ih =>
    obtain ⟨h1, h2⟩ := h
    refine ⟨h1, ih h2 ?_⟩
    have e : p + a.length + 1 + (paraBytes rest).length = p + (paraBytes (a :: rest)).length := by
      simp [paraBytes]; omega
    rw [e]; exact hl

/-- decomposition at the last line -/
theorem segs_snoc {src : Bytes} : ∀ (ls : List Bytes) (p : Nat), ls ≠ [] → ParaAt src p ls →
    ∃ init q l, l ∈ ls ∧ openSegs p ls = init ++ [sg q (q + l.length + 1)] ∧
      paraSegs p ls = init ++ [sg q (q + l.length)] ∧ Ln src q (q + l.length + 1) (l ++ [10])
  | [], _, h, _ => absurd rfl h
  | [l], p, _, h => ⟨[], p, l, by simp, rfl, by simp [paraSegs, sg], h.1⟩
  | l :: l' :: rest, p, _, h => by
    obtain ⟨init, q, x, hx, h1, h2, h3⟩ := segs_snoc (l' :: rest) (p + l.length + 1) (by simp) h.2
    refine ⟨sg p (p + l.length + 1) :: init, q, x, by simp [hx] , ?_, ?_, h3⟩
    · simp only [openSegs] at h1 ⊢; rw [h1]; rfl
    · simp only [paraSegs] at h2 ⊢; rw [h2]; simp [sg]

theorem wfSegsFromB_open {src : Bytes} : ∀ (ls : List Bytes) (p : Nat) (lo : Int), lo ≤ p → ParaAt src p ls →
    GM.LinkRef.wfSegsFromB src lo (openSegs p ls) = true
  | [], _, _, _, _ => rfl
  | l :: rest, p, lo, hlo, h => by
    have ih := wfSegsFromB_open rest (p + l.length + 1) ((p + l.length + 1 : Nat) : Int) (Int.le_refl _) h.2
    have hle := h.1.le
    simp only [openSegs, GM.LinkRef.wfSegsFromB, sg]
    simp only [Bool.and_eq_true, decide_eq_true_eq, Bool.not_eq_true']
    refine ⟨⟨⟨⟨⟨hlo, by omega⟩, by omega⟩, by omega⟩, ?_⟩, ih⟩
    first | trivial | rfl

theorem pad0_open : ∀ (ls : List Bytes) (p : Nat), GM.LinkRef.pad0B (openSegs p ls) = true
  | [], _ => rfl
  | l :: rest, p => by
    have ih := pad0_open rest (p + l.length + 1)
    simp only [GM.LinkRef.pad0B] at ih ⊢
    simp [openSegs, sg, ih]

theorem wf0B_open {src : Bytes} (ls : List Bytes) (p : Nat) (hne : ls ≠ []) (h : ParaAt src p ls) :
    GM.LinkRef.wf0B src (openSegs p ls) = true := by
  have h1 := wfSegsFromB_open ls p 0 (by omega) h
  have h2 := pad0_open ls p
  cases ls with
  | nil => exact absurd rfl hne
  | cons l rest =>
    simp only [GM.LinkRef.wf0B, GM.LinkRef.wfSegsB, h1, h2]
    simp [openSegs]

theorem trimLeftAll_open {src : Bytes} : ∀ (ls : List Bytes) (p : Nat), ParaAt src p ls → (∀ l ∈ ls, BlkLine l) →
    trimLeftAll src (openSegs p ls) = .ok (openSegs p ls)
  | [], _, _, _ => rfl
  | l :: rest, p, h, hb => by
    obtain ⟨c, t, hl, hc⟩ := (hb l (by simp)).first
    obtain ⟨_, _, _, hsp, _, _⟩ := letter_facts c hc
    have ih := trimLeftAll_open rest (p + l.length + 1) h.2 (fun x hx => hb x (by simp [hx]))
    have h1 := trimLeft_id (src := src) (p := p) (e := p + l.length + 1) (c := c) (t := t ++ [10])
      (by rw [h.1.sub, hl]; rfl) (by omega) h.1.le hsp
    simp only [openSegs, trimLeftAll, h1, ih, bind, Except.bind, pure, Except.pure]

theorem open_getLast : ∀ (ls : List Bytes) (p : Nat), ls ≠ [] →
    ∃ s, (openSegs p ls).getLast? = some s ∧ (p : Int) < s.stop
  | [], _, h => absurd rfl h
  | [l], p, _ => ⟨sg p (p + l.length + 1), rfl, by simp [sg]; omega⟩
  | l :: l' :: rest, p, _ => by
    obtain ⟨s, h1, h2⟩ := open_getLast (l' :: rest) (p + l.length + 1) (by simp)
    refine ⟨s, ?_, by omega⟩
    simp only [openSegs] at h1 ⊢
    rw [List.getLast?_cons_cons]; exact h1

/-- the link-reference transformer declines on a fragment paragraph -/
theorem transformScan_open {src : Bytes} (ls : List Bytes) (p : Nat) (hne : ls ≠ []) (h : ParaAt src p ls)
    (hb : ∀ l ∈ ls, BlkLine l) (refs : GM.LinkRef.RefMap) :
    GM.LinkRef.transformScan src (openSegs p ls) refs = .ok ([], refs) := by
  have W := GM.Proof.LinkRefTotal.wf0B_sound (wf0B_open ls p hne h)
  obtain ⟨s, hs1, hs2⟩ := open_getLast ls p hne
  cases ls with
  | nil => exact absurd rfl hne
  | cons l rest =>
    obtain ⟨c, t, hl, hc⟩ := (hb l (by simp)).first
    obtain ⟨_, _, _, hsp, _, hbr⟩ := letter_facts c hc
    refine GM.Proof.LinkRefFacts.transformScan_not_bracket W refs (b0 := c) (rest := t ++ [10]) ?_ hsp hbr
    have hsub := h.1.sub
    simp only [openSegs] at hs1
    simp only [BCur.view, BCur.live, BCur.k, BCur.lastStop, BCur.stopOf, BCur.segOf, BCur.init, openSegs, hs1]
    simp [sg, hs2, spaces, hl]
    have e : ((p : Int) + ((t.length : Int) + 1) + 1).toNat = p + l.length + 1 := by subst hl; simp; omega
    rw [e, hsub, hl]; rfl
  
end GM.Proof.CMFrag
