/-
  GM.Proof.ConvertHTree — the Heading nodes of the tree `docTreeH` hands to the renderer are exactly the Heading nodes of
  the block tree, in document order, each with the attribute store's entry for that node (`docTreeH_headings`): inline
  children are never Headings, `blockKind` answers `.heading` exactly for Heading block nodes.
-/
import GM.Proof.ConvertHMain

namespace GM.ConvertH
open GM GM.Text GM.Blocks GM.Convert

theorem ebind_ok {ε α β} {x : Except ε α} {f : α → Except ε β} {b : β} (h : x >>= f = .ok b) :
    ∃ a, x = .ok a ∧ f a = .ok b := by
  cases x with
  | error e => simp [bind, Except.bind] at h
  | ok a => exact ⟨a, rfl, h⟩

theorem liftErr_ok {α} {f : Panic → Err} {x : Except Panic α} {a : α} (h : liftErr f x = .ok a) : x = .ok a := by
  cases x with
  | error e => simp [liftErr] at h
  | ok v => simp only [liftErr, Except.ok.injEq] at h; rw [h]

theorem headingAttrsL_append : ∀ (a b : List GM.Node), headingAttrsL (a ++ b) = headingAttrsL a ++ headingAttrsL b
  | [], b => by simp [headingAttrsL]
  | x :: a, b => by simp only [List.cons_append, headingAttrsL, headingAttrsL_append a b, List.append_assoc]

/-! ### inline children are never Headings -/

mutual
theorem inlineTree_noHeading (src : Bytes) : ∀ (n : GM.Inl.Node) (t : GM.Node), inlineTree src n = .ok t → headingAttrs t = []
  | .text seg soft hard raw, t, h => by
    unfold inlineTree at h
    obtain ⟨v, _, h⟩ := ebind_ok h
    cases h; simp [headingAttrs, headingAttrsL, isHeadingKind]
  | .codeSpan kids, t, h => by
    unfold inlineTree at h
    obtain ⟨cs, hc, h⟩ := ebind_ok h
    cases h; simp [headingAttrs, isHeadingKind, inlineTrees_noHeading src kids cs hc]
  | .emphasis lv kids, t, h => by
    unfold inlineTree at h
    obtain ⟨cs, hc, h⟩ := ebind_ok h
    cases h; simp [headingAttrs, isHeadingKind, inlineTrees_noHeading src kids cs hc]
  | .link im d ti kids, t, h => by
    unfold inlineTree at h
    obtain ⟨cs, hc, h⟩ := ebind_ok h
    cases h
    cases im <;> simp [headingAttrs, isHeadingKind, inlineTrees_noHeading src kids cs hc]
  | .autoLink email seg, t, h => by
    unfold inlineTree at h
    obtain ⟨v, _, h⟩ := ebind_ok h
    cases h; simp [headingAttrs, headingAttrsL, isHeadingKind]
  | .rawHTML segs, t, h => by
    unfold inlineTree at h
    obtain ⟨v, _, h⟩ := ebind_ok h
    cases h; simp [headingAttrs, headingAttrsL, isHeadingKind]
  | .delim _ _, t, h => by
    unfold inlineTree at h
    cases h; simp [headingAttrs, headingAttrsL, isHeadingKind]
  | .label _ _ _, t, h => by
    unfold inlineTree at h
    cases h; simp [headingAttrs, headingAttrsL, isHeadingKind]
theorem inlineTrees_noHeading (src : Bytes) : ∀ (ns : List GM.Inl.Node) (ts : List GM.Node),
    inlineTrees src ns = .ok ts → headingAttrsL ts = []
  | [], ts, h => by
    unfold inlineTrees at h
    cases h; simp [headingAttrsL]
  | n :: rest, ts, h => by
    unfold inlineTrees at h
    obtain ⟨t, ht, h⟩ := ebind_ok h
    obtain ⟨ts', hts, h⟩ := ebind_ok h
    cases h
    simp [headingAttrsL, inlineTree_noHeading src n t ht, inlineTrees_noHeading src rest ts' hts]
end

/-! ### `blockKind` answers `.heading` exactly for Heading nodes -/

theorem blockKind_heading (src : Bytes) (n : Blocks.Node) (k : GM.Kind) (h : blockKind src n = .ok k) :
    isHeadingKind k = (n.kind == .heading) := by
  unfold blockKind at h
  split at h
  all_goals (rename_i hk; simp only [hk])
  all_goals simp only [bind, Except.bind, pure, Except.pure] at h
  all_goals repeat' (split at h)
  all_goals (try cases h)
  all_goals rfl

/-! ### the Heading nodes of the renderer's tree -/

mutual
theorem docTreeH_headings (hs : HS) (guard : Bool) (env : GM.Inl.Env) (src : Bytes) : ∀ (t : TreeH) (n : GM.Node),
    docTreeH hs guard env src t = .ok n → headingAttrs n = (headingIds t).map (treeAttrs hs)
  | .node id bn cs, n, h => by
    unfold docTreeH at h
    obtain ⟨bs, hbs, h⟩ := ebind_ok h
    obtain ⟨kids, _, h⟩ := ebind_ok h
    obtain ⟨is, his, h⟩ := ebind_ok h
    obtain ⟨k, hk, h⟩ := ebind_ok h
    cases h
    have h1 := docTreesH_headings hs guard env src cs bs hbs
    have h2 := inlineTrees_noHeading src kids is (liftErr_ok his)
    have h3 := blockKind_heading src bn k (liftErr_ok hk)
    simp only [headingAttrs, headingIds, headingAttrsL_append, h1, h2, h3, List.append_nil, List.map_append]
    split <;> simp
theorem docTreesH_headings (hs : HS) (guard : Bool) (env : GM.Inl.Env) (src : Bytes) : ∀ (ts : List TreeH) (ns : List GM.Node),
    docTreesH hs guard env src ts = .ok ns → headingAttrsL ns = (headingIdsL ts).map (treeAttrs hs)
  | [], ns, h => by
    unfold docTreesH at h
    cases h; simp [headingAttrsL, headingIdsL]
  | t :: rest, ns, h => by
    unfold docTreesH at h
    obtain ⟨x, hx, h⟩ := ebind_ok h
    obtain ⟨xs, hxs, h⟩ := ebind_ok h
    cases h
    simp only [headingAttrsL, headingIdsL, List.map_append, docTreeH_headings hs guard env src t x hx,
      docTreesH_headings hs guard env src rest xs hxs]
end

end GM.ConvertH
