/-
  GM.Proof.ConvertHMain — whole runs of GM.ConvertH: the block phase with AutoHeadingID projects to the block phase of
  `convertCore` and keeps `HInv` (`blockPhaseH_on`), without the option it IS that block phase (`blockPhaseH_off`); the
  tree conversion with an empty attribute store is GM.Convert.docTree (`docTreeH_erase`); no fuel exhaustion
  (`convertH_noLoop`); the Heading nodes of the renderer's tree carry the attribute store's entries (`docTreeH_headings`).
-/
import GM.Proof.ConvertHIds
import GM.Proof.ConvertTotal

namespace GM.ConvertH
open GM GM.Text GM.Blocks GM.Convert

/-! ### the block phase -/

theorem runH_on (pts : List PT) (src : Bytes) :
    match runH true pts src with
    | .ok (h, st) => HInv h ∧ runT pts src = .ok st
    | .error e => runT pts src = .error e ∨ e ≠ Panic.loop := by
  have := (parseBlocksH_sim hookOK_on pts 0).h {} (initSt src) hinv_init
  unfold RSim at this
  unfold runH runT
  cases hx : parseBlocksH true pts 0 {} (initSt src) with
  | error e =>
    rw [hx] at this
    simp only [Except.map]
    rcases this with h | h
    · rw [h]; exact Or.inl rfl
    · exact Or.inr h.2
  | ok p =>
    obtain ⟨⟨a, h'⟩, s'⟩ := p
    rw [hx] at this
    simp only [Except.map]
    rw [this.2]
    exact ⟨this.1, rfl⟩

theorem runH_off (pts : List PT) (src : Bytes) :
    runH false pts src = (runT pts src).map fun st => ({}, st) := by
  have := (parseBlocksH_sim (hookOK_off (fun h => h = {})) pts 0).h {} (initSt src) rfl
  unfold RSim at this
  unfold runH runT
  cases hx : parseBlocksH false pts 0 {} (initSt src) with
  | error e =>
    rw [hx] at this
    simp only [Except.map]
    rcases this with h | h
    · rw [h]
    · cases h.1
  | ok p =>
    obtain ⟨⟨a, h'⟩, s'⟩ := p
    rw [hx] at this
    simp only [Except.map]
    rw [this.2, this.1]

theorem blockPhaseH_noLoop (autoId : Bool) (src : Bytes) : blockPhaseH autoId true src ≠ .error .loop := by
  have hn := GM.Proof.LinkRefPres.blockPhase_noLoop src
  unfold blockPhase at hn
  unfold blockPhaseH
  cases autoId with
  | false =>
    rw [runH_off]
    intro h
    cases hr : runT (paragraphTransformers true) src with
    | error e => rw [hr] at h; simp only [Except.map] at h; cases h; exact hn hr
    | ok st => rw [hr] at h; simp [Except.map] at h
  | true =>
    have := runH_on (paragraphTransformers true) src
    intro h
    rw [h] at this
    rcases this with h1 | h1
    · exact hn h1
    · exact h1 rfl

/-! ### without attributes the tree conversion is GM.Convert.docTree -/

mutual
def TreeH.erase : TreeH → Tree
  | .node _ n cs => .node n (eraseL cs)
def eraseL : List TreeH → List Tree
  | [] => []
  | t :: rest => t.erase :: eraseL rest
end

theorem eraseL_map {α} (f : α → TreeH) : ∀ l : List α, eraseL (l.map f) = l.map fun a => (f a).erase
  | [] => rfl
  | a :: rest => by simp only [List.map, eraseL, eraseL_map f rest]

theorem treeOfH_erase (nodes : List Blocks.Node) : ∀ (fuel id : Nat), (treeOfH nodes fuel id).erase = treeOf nodes fuel id
  | 0, id => by simp only [treeOfH, treeOf, TreeH.erase, eraseL]
  | fuel + 1, id => by
    simp only [treeOfH, treeOf, TreeH.erase, eraseL_map]
    congr 1
    apply List.map_congr_left
    intro a _
    exact treeOfH_erase nodes fuel a

theorem treeAttrs_empty (id : Nat) : treeAttrs {} id = none := rfl

mutual
theorem docTreeH_erase (guard : Bool) (env : GM.Inl.Env) (src : Bytes) : ∀ t : TreeH,
    docTreeH {} guard env src t = docTree guard env src t.erase
  | .node id n cs => by
    unfold docTreeH docTree TreeH.erase
    rw [docTreesH_erase guard env src cs]
    rfl
theorem docTreesH_erase (guard : Bool) (env : GM.Inl.Env) (src : Bytes) : ∀ ts : List TreeH,
    docTreesH {} guard env src ts = docTrees guard env src (eraseL ts)
  | [] => by unfold docTreesH docTrees eraseL; rfl
  | t :: rest => by
    unfold docTreesH docTrees eraseL
    rw [docTreeH_erase guard env src t, docTreesH_erase guard env src rest]
end

theorem parseDocH_off (guard : Bool) (uc : List (Nat × (Bool × Bool))) (src : Bytes) :
    parseDocH false guard uc src = parseDoc guard uc src := by
  unfold parseDocH parseDoc blockPhaseH blockPhase
  rw [runH_off]
  cases runT (paragraphTransformers guard) src with
  | error e => rfl
  | ok st =>
    simp only [Except.map, liftErr, bind, Except.bind, finalTree]
    rw [docTreeH_erase, treeOfH_erase]

theorem convertH_off (uc : List (Nat × (Bool × Bool))) (o : ROpts) (src : Bytes) :
    convertH false uc o src = convertCore uc o src := by
  unfold convertH convertHWith convertCore convertWith
  rw [parseDocH_off]

/-! ### no fuel exhaustion -/

open GM.Proof.ConvertTotal in
mutual
theorem docTreeH_noLoop (hs : HS) (env : GM.Inl.Env) (src : Bytes) : ∀ (t : TreeH) (e : Err),
    docTreeH hs true env src t = .error e → e.isLoop = false
  | .node id n cs, e, h => by
    unfold docTreeH at h
    simp only [bind, Except.bind] at h
    cases h1 : docTreesH hs true env src cs with
    | error e1 => rw [h1] at h; cases h; exact docTreesH_noLoop hs env src cs _ h1
    | ok bs =>
      rw [h1] at h
      simp only at h
      cases h2 : inlinePhase true env src n with
      | error e2 => rw [h2] at h; cases h; exact inlinePhase_noLoop env src n h2
      | ok kids =>
        rw [h2] at h
        simp only at h
        cases h3 : liftErr Err.value (inlineTrees src kids) with
        | error e3 => rw [h3] at h; cases h; exact liftErr_value_noLoop h3
        | ok is =>
          rw [h3] at h
          simp only at h
          cases h4 : liftErr Err.value (blockKind src n) with
          | error e4 => rw [h4] at h; cases h; exact liftErr_value_noLoop h4
          | ok k => rw [h4] at h; cases h
theorem docTreesH_noLoop (hs : HS) (env : GM.Inl.Env) (src : Bytes) : ∀ (ts : List TreeH) (e : Err),
    docTreesH hs true env src ts = .error e → e.isLoop = false
  | [], e, h => by unfold docTreesH at h; cases h
  | t :: rest, e, h => by
    unfold docTreesH at h
    simp only [bind, Except.bind] at h
    cases h1 : docTreeH hs true env src t with
    | error e1 => rw [h1] at h; cases h; exact docTreeH_noLoop hs env src t _ h1
    | ok x =>
      rw [h1] at h
      simp only at h
      cases h2 : docTreesH hs true env src rest with
      | error e2 => rw [h2] at h; cases h; exact docTreesH_noLoop hs env src rest _ h2
      | ok xs => rw [h2] at h; cases h
end

theorem parseDocH_noLoop (autoId : Bool) (uc : List (Nat × (Bool × Bool))) (src : Bytes) {e : Err}
    (h : parseDocH autoId true uc src = .error e) : e.isLoop = false := by
  unfold parseDocH at h
  simp only [bind, Except.bind] at h
  cases hb : blockPhaseH autoId true src with
  | error p =>
    rw [hb] at h
    simp only [liftErr] at h
    cases h
    have := blockPhaseH_noLoop autoId src
    cases p <;> first | rfl | exact absurd hb this
  | ok st =>
    rw [hb] at h
    simp only [liftErr] at h
    exact docTreeH_noLoop _ _ src _ _ h

theorem convertH_noLoop (autoId : Bool) (uc : List (Nat × (Bool × Bool))) (o : ROpts) (src : Bytes) {e : Err}
    (h : convertH autoId uc o src = .error e) : e.isLoop = false := by
  unfold convertH convertHWith at h
  simp only [bind, Except.bind] at h
  cases hp : parseDocH autoId true uc src with
  | error e1 => rw [hp] at h; cases h; exact parseDocH_noLoop autoId uc src hp
  | ok t => rw [hp] at h; exact GM.Proof.ConvertTotal.renderDoc_noLoop o t h

end GM.ConvertH
