/-
  GM.Proof.BlocksTNO36 — the block phase of the extended composition `GM.ConvertX.blockPhaseX` (link reference
  definitions behind their run-time check, optionally GFM tables): it ends normally, the check never fires, and the line
  invariant `GM.Blocks.TX.InvG` holds of the store — for every member set and every source.
-/
import GM.Proof.BlocksTNO35

namespace GM.Blocks.TX
open GM GM.Text GM.Spec GM.Proof.Reader GM.LinkRef GM.Blocks.TO GM.TableX GM.ConvertX
open GM.Proof.BlocksWF0 (isRaw)

theorem blockPhaseX_table (src : Bytes) (guard : Bool) (c : XCfg) (h : c.table = true) :
    blockPhaseX c guard src = runT [if guard then guardedTransform else transform, transformPT src] src := by
  unfold blockPhaseX paragraphTransformersX GM.Convert.paragraphTransformers
  rw [if_pos h]; rfl

theorem blockPhaseX_noTable (src : Bytes) (guard : Bool) (c : XCfg) (h : c.table = false) :
    blockPhaseX c guard src = GM.Convert.blockPhase guard src := by
  unfold blockPhaseX paragraphTransformersX GM.Convert.blockPhase
  rw [h]; simp

/-- **the run-time check of the link reference transformer never fires**, with or without tables -/
theorem blockPhaseX_guard_irrelevant (c : XCfg) (src : Bytes) :
    blockPhaseX c true src = blockPhaseX c false src := by
  cases ht : c.table with
  | false => rw [blockPhaseX_noTable src _ c ht, blockPhaseX_noTable src _ c ht]; exact TO.blockPhase_guard_irrelevant src
  | true => rw [blockPhaseX_table src _ c ht, blockPhaseX_table src _ c ht]; exact guarded_tableX_eq src

/-- **the block phase of the extended composition ends normally** -/
theorem blockPhaseX_total (c : XCfg) (src : Bytes) :
    ∃ s, blockPhaseX c true src = .ok s ∧ NodesOK src s := by
  cases ht : c.table with
  | false => rw [blockPhaseX_noTable src _ c ht]; exact TO.blockPhase_total src
  | true =>
    rw [blockPhaseX_guard_irrelevant c src, blockPhaseX_table src _ c ht]
    exact runT_tableX_total src

/-- the line invariant of the final store (tables on) -/
theorem blockPhaseX_inv (c : XCfg) (src : Bytes) (ht : c.table = true) (s : St)
    (h : blockPhaseX c true src = .ok s) : ∃ E, InvG src E s := by
  rw [blockPhaseX_guard_irrelevant c src, blockPhaseX_table src _ c ht] at h
  exact runT_tableX_inv src s h

/-- **order clause / `WFSegs` for the final store of the block phase WITH tables**: every non-raw block that is not a
    `thematicBreak` node (the table records are `thematicBreak` nodes) has increasing, non-empty lines without
    ForceNewline, `WFSegs` when it has lines; every line of a Paragraph holds a non-space byte; the lines of the raw
    blocks increase; every line that has a successor in a Paragraph ends in a newline -/
theorem blockPhaseX_wfsegs (c : XCfg) (src : Bytes) (ht : c.table = true) (s : St)
    (h : blockPhaseX c true src = .ok s) :
    (∀ n ∈ s.nodes, isRaw n.kind = false → n.kind ≠ .thematicBreak →
      OrdFrom 0 n.lines ∧ (∀ t ∈ n.lines, t.start < t.stop ∧ t.forceNewline = false) ∧ (n.lines ≠ [] → WFSegs src n.lines)) ∧
    (∀ n ∈ s.nodes, n.kind = .paragraph → ∀ t ∈ n.lines, NonBlankSeg src t) ∧
    (∀ n ∈ s.nodes, isRaw n.kind = true → OrdFrom 0 n.lines) ∧
    (∀ n ∈ s.nodes, n.kind = .paragraph → ∀ t ∈ n.lines.dropLast, NLAt src t) ∧
    (∀ n ∈ s.nodes, ∀ t ∈ n.lines, 0 ≤ t.start ∧ t.start ≤ t.stop ∧ t.stop ≤ src.length ∧ 0 ≤ t.padding) := by
  obtain ⟨E, hE⟩ := blockPhaseX_inv c src ht s h
  refine ⟨fun n hn hraw hk => ?_, fun n hn hk => ?_, fun n hn hr => ?_, fun n hn hk => ?_, fun n hn t htl => ?_⟩
  · obtain ⟨i, _, rfl⟩ := mem_nodes_nd hn
    obtain ⟨a1, _, a3⟩ := hE.nrb i hraw hk
    have hok := (nodeOK_nd hE.nodes i).lines
    exact ⟨a1, a3, fun hne => ⟨hne, (wfSegsFrom_iff src _ 0).2 ⟨a1, fun t ht =>
      ⟨(a3 t ht).1, (hok t ht).2.2.1, (hok t ht).2.2.2, (a3 t ht).2⟩⟩⟩⟩
  · obtain ⟨i, _, rfl⟩ := mem_nodes_nd hn
    exact hE.pnb i hk
  · obtain ⟨i, _, rfl⟩ := mem_nodes_nd hn
    exact (hE.raw i hr).1
  · obtain ⟨i, _, rfl⟩ := mem_nodes_nd hn
    exact hE.pnl i hk
  · exact (hE.nodes n hn).lines t htl

end GM.Blocks.TX
