/-
  GM.Proof.ShiftSimQuoteHtml — the block quote parser (parser/blockquote.go) and the HTML block parser
  (parser/html_block.go) under the shift simulation (contracts of GM.Proof.ShiftSimPara).
-/
import GM.Proof.ShiftSimPara

namespace GM.Blocks.Sh
open GM GM.Text GM.Spec GM.Proof.Reader GM.Blocks

theorem qh_indentWidthGo_pos_nonneg (cur : Int) : ∀ (bs : Bytes) (w p : Int), 0 ≤ p → 0 ≤ (indentWidthGo cur bs w p).2 := by
  intro bs
  induction bs with
  | nil => intro w p hp; exact hp
  | cons c cs ih =>
    intro w p hp
    unfold indentWidthGo
    split
    · exact ih _ _ (by omega)
    · split
      · exact ih _ _ (by omega)
      · exact hp

theorem qh_indentWidthI_pos_nonneg (bs : Bytes) (cur : Int) : 0 ≤ (indentWidthI bs cur).2 :=
  qh_indentWidthGo_pos_nonneg cur bs 0 0 (by omega)

theorem qh_SRLim_of_l {F b sA sB sA' sB'} (h : SRLim F b sA sB) (h' : SRL F b sA.r sB.r sA' sB') : SRLim F b sA' sB' := by
  have ea := h'.ra
  have eb := h'.rb
  unfold SRLim
  rw [ea, eb]
  exact ⟨h', h.2⟩

/-! ### blockquote.go -/

theorem blockquoteProcess_p2 {F b sA sB} (h : SR F b sA sB) :
    P2 (fun x y sA' sB' => y = x ∧ SR F b sA' sB') (blockquoteProcess sA) (blockquoteProcess sB) := by
  unfold blockquoteProcess
  refine P2.bind (peekLine_p2 h) (fun x y sA1 sB1 ⟨⟨c, hc, hx⟩, hy, h1⟩ => ?_)
  subst hx hy
  simp only
  refine P2.bind (lineOffset_p2 h1) (fun lo lo' sA2 sB2 ⟨hlo, _, h2⟩ => ?_)
  subst hlo
  generalize (RCur.view b c).getD [] = line
  have hpos : 0 ≤ (indentWidthI line lo').2 + 1 := by have := qh_indentWidthI_pos_nonneg line lo'; omega
  generalize (indentWidthI line lo').2 = pos at hpos
  generalize (indentWidthI line lo').1 = w
  have advT : ∀ sA3 sB3, SR F b sA3 sB3 → P2 (fun x y sA' sB' => y = x ∧ SR F b sA' sB')
      ((do advance (pos + 1); pure true : M Bool) sA3) ((do advance (pos + 1); pure true : M Bool) sB3) := by
    intro sA3 sB3 h3
    refine P2.bind (advance_p2 h3 rfl hpos) (fun _ _ sA4 sB4 h4 => ?_)
    exact P2.pure ⟨rfl, h4⟩
  by_cases hc1 : (decide (w > 3) || decide (pos ≥ (line.length : Int))) = true
  · rw [if_pos hc1]; exact P2.pure ⟨rfl, h2⟩
  rw [if_neg hc1]
  refine P2.bind (P := fun s t sA' sB' => t = s ∧ sA' = sA2 ∧ sB' = sB2)
    (P2.liftE_same (fun a _ => ⟨rfl, rfl, rfl⟩)) (fun ch ch' sA3 sB3 ⟨ht, e1, e2⟩ => ?_)
  subst ht e1 e2
  by_cases hc2 : (ch' != 62) = true
  · rw [if_pos hc2]; exact P2.pure ⟨rfl, h2⟩
  rw [if_neg hc2]
  by_cases hc3 : pos + 1 ≥ (line.length : Int)
  · rw [if_pos hc3]; exact advT _ _ h2
  rw [if_neg hc3]
  refine P2.bind (P := fun s t sA' sB' => t = s ∧ sA' = sA3 ∧ sB' = sB3)
    (P2.liftE_same (fun a _ => ⟨rfl, rfl, rfl⟩)) (fun c1 c1' sA4 sB4 ⟨ht, e1, e2⟩ => ?_)
  subst ht e1 e2
  by_cases hc4 : (c1' == 10) = true
  · rw [if_pos hc4]; exact advT _ _ h2
  rw [if_neg hc4]
  refine P2.bind (advance_p2 h2 rfl hpos) (fun _ _ sA5 sB5 h5 => ?_)
  by_cases hc5 : (c1' == 32 || c1' == 9) = true
  · rw [if_pos hc5]
    by_cases hc6 : (c1' == 9) = true
    · rw [if_pos hc6]
      refine P2.bind (lineOffset_p2 h5) (fun l2 l2' sA6 sB6 ⟨hl2, _, h6⟩ => ?_)
      subst hl2
      refine P2.bind (P := fun s t sA' sB' => t = s ∧ SR F b sA' sB') (P2.pure ⟨rfl, h6⟩)
        (fun pd pd' sA7 sB7 ⟨hpd, h7⟩ => ?_)
      subst hpd
      refine P2.bind (advanceAndSetPadding_p2 h7 rfl rfl (by omega)) (fun _ _ sA8 sB8 h8 => ?_)
      exact P2.pure ⟨rfl, h8⟩
    · rw [if_neg hc6]
      refine P2.bind (P := fun s t sA' sB' => t = s ∧ SR F b sA' sB') (P2.pure ⟨rfl, h5⟩)
        (fun pd pd' sA7 sB7 ⟨hpd, h7⟩ => ?_)
      subst hpd
      refine P2.bind (advanceAndSetPadding_p2 h7 rfl rfl (by omega)) (fun _ _ sA8 sB8 h8 => ?_)
      exact P2.pure ⟨rfl, h8⟩
  · rw [if_neg hc5]; exact P2.pure ⟨rfl, h5⟩

theorem blockquoteOpen_sim (F : Frame) (b : Bytes) : OpenSim F b .blockquote := by
  intro parent sA sB h _
  show P2 _ (blockquoteOpen parent sA) (blockquoteOpen (F.ι parent) sB)
  unfold blockquoteOpen
  refine P2.bind (blockquoteProcess_p2 h) (fun x y sA1 sB1 ⟨hy, h1⟩ => ?_)
  subst hy
  by_cases hx : y = true
  · rw [if_pos hx]
    refine P2.bind (newNode_p2 h1 _ _ (by simp [shN, shClosure])) (fun n m sA4 sB4 ⟨_, hm, _, h4⟩ => ?_)
    subst hm
    exact P2.pure ⟨rfl, h4.limbo, fun _ => h4, fun hh => by cases hh <;> contradiction⟩
  · rw [if_neg hx]
    exact P2.pure ⟨rfl, h1.limbo, fun _ => h1, fun hh => by cases hh <;> contradiction⟩

theorem blockquoteContinue_sim (F : Frame) (b : Bytes) : ContinueSim F b .blockquote := by
  intro node sA sB h _ _
  show P2 _ (blockquoteContinue node sA) (blockquoteContinue (F.ι node) sB)
  unfold blockquoteContinue
  refine P2.bind (blockquoteProcess_p2 h) (fun x y sA1 sB1 ⟨hy, h1⟩ => ?_)
  subst hy
  by_cases hx : y = true
  · rw [if_pos hx]; exact P2.pure ⟨rfl, h1⟩
  · rw [if_neg hx]; exact P2.pure ⟨rfl, h1⟩

/-! ### html_block.go -/

theorem htmlOpen_sim (F : Frame) (b : Bytes) : OpenSim F b .html := by
  intro parent sA sB h _
  show P2 _ (htmlOpen parent sA) (htmlOpen (F.ι parent) sB)
  unfold htmlOpen
  refine P2.bind (peekLine_p2 h) (fun x y sA1 sB1 ⟨⟨c, hc, hx⟩, hy, h1⟩ => ?_)
  subst hx hy
  simp only
  generalize (RCur.view b c).getD [] = line
  generalize RCur.seg b c = segment
  have tail : ∀ (lip : Bool) sA3 sB3, SR F b sA3 sB3 →
      P2 (fun x y sA' sB' => y = (x.1.map F.ι, x.2) ∧ SRLim F b sA' sB' ∧
        ((x.2.hasChildren = true ∨ x.1 = none) → SR F b sA' sB') ∧
        ((BP.html = .list ∨ BP.html = .listItem) → x.1.isSome = true → sB'.pc.emptyItemBlank = sA'.pc.emptyItemBlank))
      ((do
        let pos := (← getPc).blockOffset
        if pos < 0 then return (none, stNoChildren)
        if (← liftE (idx line pos)) != 60 then return (none, stNoChildren)
        match htmlOpenType line lip with
        | some t =>
          let node ← newNode { kind := .htmlBlock, htmlType := t }
          advance (segment.len - trimRightSpaceLength line)
          appendLine node segment
          return (some node, stNoChildren)
        | none => return (none, stNoChildren) : M (Option Nat × PState)) sA3)
      ((do
        let pos := (← getPc).blockOffset
        if pos < 0 then return (none, stNoChildren)
        if (← liftE (idx line pos)) != 60 then return (none, stNoChildren)
        match htmlOpenType line lip with
        | some t =>
          let node ← newNode { kind := .htmlBlock, htmlType := t }
          advance ((moveSeg F.d segment).len - trimRightSpaceLength line)
          appendLine node (moveSeg F.d segment)
          return (some node, stNoChildren)
        | none => return (none, stNoChildren) : M (Option Nat × PState)) sB3) := by
    intro lip sA3 sB3 h3
    refine P2.bind (getPc_p2 h3) (fun pc pc' sA4 sB4 ⟨_, _, hpc, e1, e2⟩ => ?_)
    subst e1 e2
    rw [hpc.blockOffset]
    have hnone : ∀ sA5 sB5, SR F b sA5 sB5 →
        P2 (fun x y sA' sB' => y = (x.1.map F.ι, x.2) ∧ SRLim F b sA' sB' ∧
          ((x.2.hasChildren = true ∨ x.1 = none) → SR F b sA' sB') ∧
          ((BP.html = .list ∨ BP.html = .listItem) → x.1.isSome = true → sB'.pc.emptyItemBlank = sA'.pc.emptyItemBlank))
        ((pure (none, stNoChildren) : M (Option Nat × PState)) sA5)
        ((pure (none, stNoChildren) : M (Option Nat × PState)) sB5) := fun sA5 sB5 h5 =>
      P2.pure ⟨rfl, h5.limbo, fun _ => h5, fun hh => by cases hh <;> contradiction⟩
    by_cases hc1 : pc.blockOffset < 0
    · rw [if_pos hc1, if_pos hc1]; exact hnone _ _ h3
    rw [if_neg hc1, if_neg hc1]
    refine P2.bind (P := fun s t sA' sB' => t = s ∧ sA' = sA4 ∧ sB' = sB4)
      (P2.liftE_same (fun a _ => ⟨rfl, rfl, rfl⟩)) (fun ch ch' sA5 sB5 ⟨ht, e1, e2⟩ => ?_)
    subst ht e1 e2
    by_cases hc2 : (ch' != 60) = true
    · rw [if_pos hc2, if_pos hc2]; exact hnone _ _ h3
    rw [if_neg hc2, if_neg hc2]
    cases htmlOpenType line lip with
    | none => exact hnone _ _ h3
    | some t =>
      simp only
      refine P2.bind (newNode_p2 h3 _ _ (by simp [shN, shClosure])) (fun n m sA6 sB6 ⟨_, hm, _, h6⟩ => ?_)
      subst hm
      rw [moveSeg_len]
      refine P2.bind (advance_limbo h6 _) (fun _ _ sA7 sB7 h7 => ?_)
      refine P2.bind (appendLine_l h7.1 n rfl) (fun _ _ sA8 sB8 h8 => ?_)
      exact P2.pure ⟨rfl, qh_SRLim_of_l h7 h8, fun hh => by rcases hh with hh | hh <;> simp [stNoChildren] at hh,
        fun hh => by cases hh <;> contradiction⟩
  refine P2.bind (lastOpenedBlock_p2 h1) (fun lb lb' sA2 sB2 ⟨_, hlb, e1, e2⟩ => ?_)
  subst hlb e1 e2
  cases lb with
  | none => 
    refine P2.bind (P := fun s t sA' sB' => t = s ∧ SR F b sA' sB') (P2.pure ⟨rfl, h1⟩)
      (fun lp lp' sA7 sB7 ⟨hlp, h7⟩ => ?_)
    subst hlp
    exact tail _ _ _ h7
  | some lb =>
    simp only [Option.map_some]
    refine P2.bind (getNode_p2 h1 lb.node) (fun n m sA3 sB3 ⟨_, hm, e1, e2⟩ => ?_)
    subst hm e1 e2
    refine P2.bind (P := fun s t sA' sB' => t = s ∧ SR F b sA' sB') (P2.pure ⟨by rw [shN_kind], h1⟩)
      (fun lp lp' sA7 sB7 ⟨hlp, h7⟩ => ?_)
    subst hlp
    exact tail _ _ _ h7

/-- the `closes` test of htmlBlockParser.Continue -/
def qh_htmlCloses (ty : Nat) (v : Bytes) : Bool :=
  if ty == 1 then type1Close v
  else if ty == 2 then containsSub (strBytes "-->") v
  else if ty == 3 then containsSub (strBytes "?>") v
  else if ty == 4 then containsSub (strBytes ">") v
  else containsSub (strBytes "]]>") v

theorem qh_length_takeWhile_le {α} (p : α → Bool) (l : List α) : (l.takeWhile p).length ≤ l.length := by
  induction l with
  | nil => simp
  | cons a l ih =>
    simp only [List.takeWhile_cons]
    split
    · simp only [List.length_cons]; omega
    · simp

theorem qh_trimRight_le (l : Bytes) : trimRightSpaceLength l ≤ l.length := by
  unfold trimRightSpaceLength
  have := qh_length_takeWhile_le isSpace l.reverse
  simpa using this

theorem qh_html_adv_nonneg {b : Bytes} {r : Reader} {c : RCur} (hc : RI b r c) :
    0 ≤ (RCur.seg b c).len - (trimRightSpaceLength ((RCur.view b c).getD []) : Int) := by
  by_cases hp : c.p < b.length
  · obtain ⟨l, hv, h3, _, _, _⟩ := view_some_facts hp
    have := qh_trimRight_le l
    rw [hv]
    simp only [Option.getD_some]
    omega
  · rw [view_none b c hp]
    have h1 := hc.inRange
    have h2 := lineEnd_ge b h1
    have : trimRightSpaceLength ([] : Bytes) = 0 := by decide
    simp only [Option.getD_none, this, RCur.seg, Segment.len]
    omega

theorem htmlContinue_sim (F : Frame) (b : Bytes) : ContinueSim F b .html := by
  intro node sA sB h _ _
  show P2 _ (htmlContinue node sA) (htmlContinue (F.ι node) sB)
  unfold htmlContinue
  refine P2.bind (getNode_p2 h node) (fun n m sA0 sB0 ⟨_, hm, e1, e2⟩ => ?_)
  subst hm e1 e2
  refine P2.bind (peekLine_p2 h) (fun x y sA1 sB1 ⟨⟨c, hc, hx⟩, hy, h1⟩ => ?_)
  subst hx hy
  simp only
  have hty : (shN F (node == 0) n).htmlType = n.htmlType := rfl
  rw [hty, shN_lines, List.length_map]
  have hn := qh_html_adv_nonneg hc
  have hs0 : ¬ (RCur.seg b c).start < 0 := by simp [RCur.seg]
  generalize (RCur.view b c).getD [] = line at hn ⊢
  generalize RCur.seg b c = segment at hn hs0 ⊢
  have hcl : ∀ v, (if (n.htmlType == 1) = true then type1Close v
      else if (n.htmlType == 2) = true then containsSub (strBytes "-->") v
      else if (n.htmlType == 3) = true then containsSub (strBytes "?>") v
      else if (n.htmlType == 4) = true then containsSub (strBytes ">") v
      else containsSub (strBytes "]]>") v) = qh_htmlCloses n.htmlType v := fun v => rfl
  simp only [hcl]
  have fin : ∀ sA2 sB2, SR F b sA2 sB2 → P2 (fun x y sA' sB' => y = x ∧ SR F b sA' sB')
      ((do appendLine node segment
           advance (segment.len - trimRightSpaceLength line)
           pure stContinueNoChildren : M PState) sA2)
      ((do appendLine (F.ι node) (moveSeg F.d segment)
           advance ((moveSeg F.d segment).len - trimRightSpaceLength line)
           pure stContinueNoChildren : M PState) sB2) := by
    intro sA2 sB2 h2
    refine P2.bind (appendLine_p2 h2 node rfl) (fun _ _ sA3 sB3 h3 => ?_)
    refine P2.bind (advance_p2 h3 (by rw [moveSeg_len]) hn) (fun _ _ sA4 sB4 h4 => ?_)
    exact P2.pure ⟨rfl, h4⟩
  have mid : ∀ sA2 sB2, SR F b sA2 sB2 → P2 (fun x y sA' sB' => y = x ∧ SR F b sA' sB')
      ((if qh_htmlCloses n.htmlType line = true then do
            modNode node fun n => { n with closure := segment }
            advance (segment.len - trimRightSpaceLength line)
            pure stClose
          else do
            appendLine node segment
            advance (segment.len - trimRightSpaceLength line)
            pure stContinueNoChildren : M PState) sA2)
      ((if qh_htmlCloses n.htmlType line = true then do
            modNode (F.ι node) fun n => { n with closure := moveSeg F.d segment }
            advance ((moveSeg F.d segment).len - trimRightSpaceLength line)
            pure stClose
          else do
            appendLine (F.ι node) (moveSeg F.d segment)
            advance ((moveSeg F.d segment).len - trimRightSpaceLength line)
            pure stContinueNoChildren : M PState) sB2) := by
    intro sA2 sB2 h2
    by_cases hc1 : qh_htmlCloses n.htmlType line = true
    · rw [if_pos hc1, if_pos hc1]
      refine P2.bind (modNode_p2 h2 node _ _ (fun a => by simp [shN, shClosure, hs0]) (fun _ => rfl))
        (fun _ _ sA3 sB3 h3 => ?_)
      refine P2.bind (advance_p2 h3 (by rw [moveSeg_len]) hn) (fun _ _ sA4 sB4 h4 => ?_)
      exact P2.pure ⟨rfl, h4⟩
    · rw [if_neg hc1, if_neg hc1]; exact fin _ _ h2
  by_cases hc0 : (decide (1 ≤ n.htmlType) && decide (n.htmlType ≤ 5)) = true
  · rw [if_pos hc0, if_pos hc0]
    by_cases hc1 : (n.lines.length == 1) = true
    · rw [if_pos hc1, if_pos hc1]
      refine P2.bind (P := fun s t sA' sB' => t = moveSeg F.d s ∧ sA' = sA1 ∧ sB' = sB1)
        (P2.liftE (fun s t e1 e2 => ?_)) (fun l1 l1' sA3 sB3 ⟨ht, e1, e2⟩ => ?_)
      · rw [lineAt_sh F.d e1] at e2; cases e2; exact ⟨rfl, rfl, rfl⟩
      subst ht e1 e2
      refine P2.bind (source_p2 h1) (fun a a' sA2 sB2 ⟨ha, hb, e1, e2⟩ => ?_)
      subst e1 e2
      rw [ha, hb]
      refine P2.bind (P := fun s t sA' sB' => t = s ∧ sA' = sA2 ∧ sB' = sB2)
        (P2.liftE (fun s t e1 e2 => ?_)) (fun v v' sA3 sB3 ⟨ht, e1, e2⟩ => ?_)
      · rw [value_ok_shift F b e1] at e2; cases e2; exact ⟨rfl, rfl, rfl⟩
      subst ht e1 e2
      by_cases hc2 : qh_htmlCloses n.htmlType v' = true
      · rw [if_pos hc2, if_pos hc2]; exact P2.pure ⟨rfl, h1⟩
      · rw [if_neg hc2, if_neg hc2]; exact mid _ _ h1
    · rw [if_neg hc1, if_neg hc1]; exact mid _ _ h1
  · rw [if_neg hc0, if_neg hc0]
    by_cases hc1 : (n.htmlType == 6 || n.htmlType == 7) = true
    · rw [if_pos hc1, if_pos hc1]
      by_cases hc2 : isBlank line = true
      · rw [if_pos hc2, if_pos hc2]; exact P2.pure ⟨rfl, h1⟩
      · rw [if_neg hc2, if_neg hc2]; exact fin _ _ h1
    · rw [if_neg hc1, if_neg hc1]; exact fin _ _ h1

end GM.Blocks.Sh
