/-
  GM.Proof.ConvertFDisc3 — the close discipline, driver part 2, and AT THE END OF THE BLOCK PHASE THE OPEN-BLOCK STACK IS EMPTY
  (GM.Proof.ConvertHWFDrv / ConvertHWFEnd carried over to `MF`): `openBlocksF` pushes only when it answers
  `newBlocksOpened` (`OB`); a pass of the line loop that hits the end of the source closes the whole stack (`LJ`); the outer
  loop is (re-)entered with an empty stack. All of it keeps the invariant `FJ`.
-/
import GM.Proof.ConvertFDisc2
import GM.Proof.ConvertHWFEnd

namespace GM.ConvertF
open GM GM.Text GM.Blocks GM.Convert GM.ConvertH

/-- the last opened block a function was handed is a block that was on the stack -/
def Plb (lb : Option Block) (s : St) : Prop := ∀ b, lb = some b → PNb b s
/-- the blocks of a snapshot of the stack -/
def PR (R : List Block) (s : St) : Prop := ∀ b ∈ R, PNb b s

theorem Plb.ks {lb : Option Block} {s s' : St} (h : Plb lb s) (k : KS s s') : Plb lb s' := fun b hb => (h b hb).ks k
theorem PR.ks {R : List Block} {s s' : St} (h : PR R s) (k : KS s s') : PR R s' := fun b hb => (h b hb).ks k

/-- keeps the invariant and the stack (given the facts `P`) -/
structure OSJ (P : St → Prop) {α : Type} (m : MF α) : Prop where
  h : ∀ f s a f' s', FJ f s → P s → m f s = .ok ((a, f'), s') → FJ f' s' ∧ FM f f' ∧ KS s s' ∧ s'.pc.opened = s.pc.opened

variable {P : St → Prop}

theorem OSJ.pure {α} (a : α) : OSJ P (Pure.pure a : MF α) :=
  ⟨fun f s _ _ _ j _ e => by cases e; exact ⟨j, FM.refl _, KS.refl _, rfl⟩⟩

theorem OSJ.up {α} {W : Nat → Prop} {x : M α} (hx : Wk x) (hb : Br W x)
    (hW : ∀ s, P s → ∀ i, W i → i < s.nodes.length ∧ (ndx s i).kind ≠ .blockquote) : OSJ P (GM.ConvertF.up x) := by
  constructor
  intro f s a f' s' j hp e
  obtain ⟨rfl, ex⟩ := upF_ok' e
  have st := StepB.of (hx.h s a s' ex) (hb.h s a s' ex) (hW s hp)
  exact ⟨j.step st, FM.refl _, st.ks, st.opened⟩

theorem OSJ.up0 {α} {x : M α} (hx : Wk x) (hb : Br (fun _ => False) x) : OSJ P (GM.ConvertF.up x) :=
  OSJ.up hx hb (fun _ _ _ h => h.elim)

theorem OSJ.bind {α β} {m : MF α} {k : α → MF β} (hP : Stb P) (hm : OSJ P m) (hk : ∀ a, OSJ P (k a)) : OSJ P (m >>= k) := by
  constructor
  intro f s b f'' s'' j hp e
  obtain ⟨a, f', s', e1, e2⟩ := mf_bind_ok e
  obtain ⟨j1, m1, k1, o1⟩ := hm.h f s a f' s' j hp e1
  obtain ⟨j2, m2, k2, o2⟩ := (hk a).h f' s' b f'' s'' j1 (hP _ _ k1 hp) e2
  exact ⟨j2, m1.trans m2, k1.trans k2, o2.trans o1⟩

theorem OSJ.ite {α} {c : Prop} [Decidable c] {a b : MF α} (ha : OSJ P a) (hb : OSJ P b) : OSJ P (if c then a else b) := by
  split <;> assumption

theorem osj_getF : OSJ P getF := ⟨fun f s _ _ _ j _ e => by cases e; exact ⟨j, FM.refl _, KS.refl _, rfl⟩⟩

theorem fnContinue_osj (hP : Stb P) (node : Nat) : OSJ P (fnContinue node) := by
  unfold fnContinue
  repeat' first
    | exact OSJ.pure _
    | (refine OSJ.up0 ?_ ?_ <;> first | wk_leaf | br0_leaf)
    | (with_reducible apply OSJ.bind hP)
    | with_reducible apply OSJ.ite
    | intro _
    | split

/-- `be.Parser.Continue(be.Node, …)` for a block that was on the stack -/
theorem bpContinueF_osj (hP : Stb P) (bp : BP) (node : Nat) (hp : ∀ s, P s → PNb { node := node, bp := bp } s) :
    OSJ P (bpContinueF bp node) := by
  unfold bpContinueF
  apply OSJ.bind hP osj_getF
  intro f
  apply OSJ.ite
  · exact fnContinue_osj hP node
  · refine OSJ.up (Wk.of_stp (bpContinue_stp bp node)) (bpContinue_br bp node) (fun s hs i hi => ?_)
    obtain ⟨rfl, hne⟩ := hi
    have := hp s hs
    refine ⟨this.1, fun hk => hne (kindOf_bq bp ?_)⟩
    rw [← this.2]; exact hk

macro "osj_leaf" : tactic =>
  `(tactic| first
    | exact OSJ.pure _
    | (refine OSJ.up0 ?_ ?_ <;> first | wk_leaf | br0_leaf))

/-! ### openBlocks pushes only when it answers `newBlocksOpened` -/

/-- keeps the invariant; answers `newBlocksOpened`, or the flag `r` it was given was not `newBlocksOpened` and it pushed nothing -/
structure OB (lb : Option Block) (r : OpenResult) (m : MF OpenResult) : Prop where
  h : ∀ f s x f' s', FJ f s → Plb lb s → m f s = .ok ((x, f'), s') →
    FJ f' s' ∧ FM f f' ∧ KS s s' ∧ (x ≠ .newBlocksOpened → r ≠ .newBlocksOpened ∧ Shr s s')

theorem OB.bind_pre {lb : Option Block} {r : OpenResult} {α} {m : MF α} {k : α → MF OpenResult} (hm : OSJ (Plb lb) m)
    (hk : ∀ a, OB lb r (k a)) : OB lb r (m >>= k) := by
  constructor
  intro f s x f'' s'' j hp e
  obtain ⟨a, f', s', e1, e2⟩ := mf_bind_ok e
  obtain ⟨j1, m1, k1, o1⟩ := hm.h f s a f' s' j hp e1
  obtain ⟨j2, m2, k2, q⟩ := (hk a).h f' s' x f'' s'' j1 (hp.ks k1) e2
  exact ⟨j2, m1.trans m2, k1.trans k2, fun hx => ⟨(q hx).1, (Shr.of_eq o1).trans (q hx).2⟩⟩

theorem OB.ite {lb : Option Block} {r : OpenResult} {c : Prop} [Decidable c] {a b : MF OpenResult} (ha : OB lb r a) (hb : OB lb r b) :
    OB lb r (if c then a else b) := by split <;> assumption

theorem OB.throw (lb : Option Block) (r : OpenResult) (e : Panic) : OB lb r (throw e : MF OpenResult) :=
  ⟨fun _ _ _ _ _ _ _ e => by cases e⟩

theorem toContinuable_ob (c : Bool) (r : OpenResult) (lb : Option Block) : OB lb r (GM.ConvertF.up (toContinuable c r lb)) := by
  constructor
  intro f s x f' s' j hp e
  have hosj : OSJ (Plb lb) (GM.ConvertF.up (toContinuable c r lb)) :=
    OSJ.up (Wk.of_stp (toContinuable_stp c r lb)) (toContinuable_br c r lb) (fun s hs i hi => by
      obtain ⟨b, hb, rfl, hne⟩ := hi
      have := hs b hb
      refine ⟨this.1, fun hk => hne (kindOf_bq b.bp ?_)⟩
      rw [← this.2]; exact hk)
  obtain ⟨j1, m1, k1, o1⟩ := hosj.h f s x f' s' j hp e
  obtain ⟨_, ex⟩ := upF_ok' e
  refine ⟨j1, m1, k1, fun hx => ⟨fun hr => ?_, Shr.of_eq o1⟩⟩
  subst hr
  exact hx (toContinuable_new c lb s x s' ex)

section
variable (pts : List PT) (hpts : ∀ pt ∈ pts, PTStp pt) (hptb : ∀ pt ∈ pts, PTBr pt)
include hpts hptb

theorem OB.try {r : OpenResult} (parent : Nat) (bl c : Bool) (w : Int) (bps : List BPF) (lb : Option Block)
    {k : TryOutcomeT × OpenResult × Option Block → MF OpenResult} (hk : ∀ x, OB x.2.2 x.2.1 (k x)) :
    OB lb r (tryParsersF pts parent bl c w bps r lb >>= k) := by
  constructor
  intro f s x f'' s'' j hp e
  obtain ⟨a, f', s', e1, e2⟩ := mf_bind_ok e
  obtain ⟨⟨j1, m1, k1⟩, ob, hl⟩ := tryParsersF_spec pts hpts hptb parent bl c w bps r lb f s a f' s' j hp e1
  obtain ⟨j2, m2, k2, q⟩ := (hk a).h f' s' x f'' s'' j1 hl e2
  refine ⟨j2, m1.trans m2, k1.trans k2, fun hx => ?_⟩
  obtain ⟨r1, sh2⟩ := q hx
  obtain ⟨er, sh1⟩ := ob r1
  exact ⟨by rw [← er]; exact r1, sh1.trans sh2⟩

end

macro "ob_step" : tactic =>
  `(tactic| first
    | apply_hyp
    | exact toContinuable_ob _ _ _
    | exact OB.throw _ _ _
    | (refine OB.try _ ‹_› ‹_› _ _ _ _ _ _ (fun _ => ?_))
    | (refine OB.bind_pre (by osj_leaf) (fun _ => ?_))
    | with_reducible apply OB.ite
    | intro _
    | split)

macro "ob" : tactic => `(tactic| repeat' ob_step)

section
variable (pts : List PT) (hpts : ∀ pt ∈ pts, PTStp pt) (hptb : ∀ pt ∈ pts, PTBr pt)
include hpts hptb

theorem retryStepF_ob (blankLine tdone continuable : Bool) (parent : Nat) (w : Int) (bps : List BPF)
    (result : OpenResult) (lastBlock : Option Block)
    (again : Bool → Bool → Nat → OpenResult → Option Block → MF OpenResult)
    (ha : ∀ a b c d e, OB e d (again a b c d e)) :
    OB lastBlock result (retryStepF pts blankLine tdone continuable parent w bps result lastBlock again) := by
  unfold retryStepF; ob

theorem openBlocksLoopF_ob (on : Bool) (blankLine : Bool) (fuel : Nat) (tdone continuable : Bool) (parent : Nat)
    (result : OpenResult) (lastBlock : Option Block) :
    OB lastBlock result (openBlocksLoopF on pts blankLine fuel tdone continuable parent result lastBlock) := by
  induction fuel generalizing tdone continuable parent result lastBlock with
  | zero => unfold openBlocksLoopF; ob
  | succ fuel ih =>
    have := retryStepF_ob pts hpts hptb
    unfold openBlocksLoopF; ob

/-- `openBlocks`: the invariant, and it pushes only when it answers `newBlocksOpened` -/
theorem openBlocksF_spec (on : Bool) (parent : Nat) (blankLine : Bool) (f : FS) (s : St) (x : OpenResult) (f' : FS) (s' : St)
    (j : FJ f s) (e : openBlocksF on pts parent blankLine f s = .ok ((x, f'), s')) :
    FJ f' s' ∧ FM f f' ∧ KS s s' ∧ (x ≠ .newBlocksOpened → Shr s s') := by
  unfold openBlocksF at e
  obtain ⟨lb, f1, s1, e1, k1⟩ := mf_bind_ok e
  obtain ⟨eh1, ex1⟩ := upF_ok' e1
  subst eh1
  have elb : lb = s.pc.opened.getLast? ∧ s = s1 := by
    unfold lastOpenedBlock at ex1
    obtain ⟨pc, s0, e0, k0⟩ := bind_ok ex1
    obtain ⟨epc, es0⟩ := getPc_ok' e0
    subst es0 epc
    cases k0; exact ⟨rfl, rfl⟩
  obtain ⟨elb, es1⟩ := elb
  subst es1
  have hlb : Plb lb s := fun b hb => j.pn b (List.mem_of_getLast? (by rw [← elb]; exact hb))
  have hob : OB lb .noBlocksOpened (do
      let continuable ← match lb with
        | some lb => do pure ((← GM.ConvertF.up (getNode lb.node)).kind == .paragraph)
        | none => pure false
      openBlocksLoopF on pts blankLine (retryFuel (← GM.ConvertF.up source)) false continuable parent .noBlocksOpened lb) := by
    have := openBlocksLoopF_ob pts hpts hptb on
    ob
  obtain ⟨a1, a2, a3, a4⟩ := hob.h f s x f' s' j hlb k1
  exact ⟨a1, a2, a3, fun hx => (a4 hx).2⟩

end

/-! ### the line loop -/

/-- keeps the invariant, whatever the stack -/
structure GJ0 {α : Type} (m : MF α) : Prop where
  h : ∀ f s a f' s', FJ f s → m f s = .ok ((a, f'), s') → FJ f' s' ∧ FM f f' ∧ KS s s'

theorem GJ0.of_osj {α} {m : MF α} (h : OSJ (fun _ => True) m) : GJ0 m :=
  ⟨fun f s a f' s' j e => by obtain ⟨a1, a2, a3, _⟩ := h.h f s a f' s' j trivial e; exact ⟨a1, a2, a3⟩⟩

/-- keeps the invariant and can only answer `.next` -/
structure NXJ (m : MF (LineOutcome × List LineStat)) : Prop where
  h : ∀ f s x f' s', FJ f s → m f s = .ok ((x, f'), s') → FJ f' s' ∧ FM f f' ∧ KS s s' ∧ x.1 = .next

theorem NXJ.bind {α} {m : MF α} {k : α → MF (LineOutcome × List LineStat)} (hm : GJ0 m) (hk : ∀ a, NXJ (k a)) : NXJ (m >>= k) := by
  constructor
  intro f s x f'' s'' j e
  obtain ⟨a, f', s', e1, e2⟩ := mf_bind_ok e
  obtain ⟨j1, m1, k1⟩ := hm.h f s a f' s' j e1
  obtain ⟨j2, m2, k2, q⟩ := (hk a).h f' s' x f'' s'' j1 e2
  exact ⟨j2, m1.trans m2, k1.trans k2, q⟩

theorem NXJ.pureNext (bl : List LineStat) : NXJ (Pure.pure (LineOutcome.next, bl)) :=
  ⟨fun f s _ _ _ j e => by cases e; exact ⟨j, FM.refl _, KS.refl _, rfl⟩⟩
theorem NXJ.throw (e : Panic) : NXJ (throw e) := ⟨fun _ _ _ _ _ _ e => by cases e⟩
theorem NXJ.ite {c : Prop} [Decidable c] {a b : MF (LineOutcome × List LineStat)} (ha : NXJ a) (hb : NXJ b) :
    NXJ (if c then a else b) := by split <;> assumption

/-- started with the stack `ob` (`li` = its last index) and the facts about the blocks `R`: keeps the invariant, and answering
    `.eof` means the stack is empty afterwards -/
structure LJ (ob : List Block) (li : Int) (R : List Block) (m : MF (LineOutcome × List LineStat)) : Prop where
  h : ∀ f s x f' s', FJ f s → PR R s → s.pc.opened = ob → li = (ob.length : Int) - 1 → m f s = .ok ((x, f'), s') →
    FJ f' s' ∧ FM f f' ∧ KS s s' ∧ (x.1 = .eof → s'.pc.opened = [])

theorem LJ.of_nxj {ob : List Block} {li : Int} {R : List Block} {m : MF (LineOutcome × List LineStat)} (hm : NXJ m) : LJ ob li R m :=
  ⟨fun f s x f' s' j _ _ _ e => by
    obtain ⟨a1, a2, a3, a4⟩ := hm.h f s x f' s' j e
    exact ⟨a1, a2, a3, fun hx => by rw [a4] at hx; cases hx⟩⟩

theorem LJ.bind_pre {ob : List Block} {li : Int} {R : List Block} {α} {m : MF α} {k : α → MF (LineOutcome × List LineStat)}
    (hm : OSJ (PR R) m) (hk : ∀ a, LJ ob li R (k a)) : LJ ob li R (m >>= k) := by
  constructor
  intro f s x f'' s'' j hr ho hl e
  obtain ⟨a, f', s', e1, e2⟩ := mf_bind_ok e
  obtain ⟨j1, m1, k1, o1⟩ := hm.h f s a f' s' j hr e1
  obtain ⟨j2, m2, k2, q⟩ := (hk a).h f' s' x f'' s'' j1 (hr.ks k1) (o1.trans ho) hl e2
  exact ⟨j2, m1.trans m2, k1.trans k2, q⟩

theorem LJ.ite {ob : List Block} {li : Int} {R : List Block} {c : Prop} [Decidable c] {a b : MF (LineOutcome × List LineStat)}
    (ha : LJ ob li R a) (hb : LJ ob li R b) : LJ ob li R (if c then a else b) := by split <;> assumption

theorem LJ.mono {ob : List Block} {li : Int} {R R' : List Block} {m : MF (LineOutcome × List LineStat)} (h : LJ ob li R m)
    (hs : ∀ b ∈ R, b ∈ R') : LJ ob li R' m :=
  ⟨fun f s x f' s' j hr ho hl e => h.h f s x f' s' j (fun b hb => hr b (hs b hb)) ho hl e⟩

section
variable (pts : List PT) (hpts : ∀ pt ∈ pts, PTStp pt) (hptb : ∀ pt ∈ pts, PTBr pt)
include hpts hptb

theorem openBlocksF_gj0 (on : Bool) (parent : Nat) (blankLine : Bool) : GJ0 (openBlocksF on pts parent blankLine) :=
  ⟨fun f s x f' s' j e => by
    obtain ⟨a1, a2, a3, _⟩ := openBlocksF_spec pts hpts hptb on parent blankLine f s x f' s' j e
    exact ⟨a1, a2, a3⟩⟩

theorem closeBlocksF_gj0 (frm to : Int) : GJ0 (closeBlocksF pts frm to) :=
  ⟨fun f s x f' s' j e => by
    obtain ⟨a1, a2, a3, _⟩ := closeBlocksF_spec pts hpts hptb frm to f s f' s' j e
    exact ⟨a1, a2, a3⟩⟩

theorem LJ.eofBranch (ob : List Block) (li : Int) (R : List Block) (bl : List LineStat) :
    LJ ob li R (do closeBlocksF pts li 0; GM.ConvertF.up advanceLine; Pure.pure (LineOutcome.eof, bl)) := by
  constructor
  intro f s x f'' s'' j _ ho hl e
  obtain ⟨u1, f1, s1, e1, k1⟩ := mf_bind_ok e
  obtain ⟨j1, m1, ks1, _, hemp⟩ := closeBlocksF_spec pts hpts hptb li 0 f s f1 s1 j e1
  obtain ⟨u2, f2, s2, e2, k2⟩ := mf_bind_ok k1
  have hadv : OSJ (fun _ => True) (GM.ConvertF.up advanceLine) := by osj_leaf
  obtain ⟨j2, m2, ks2, o2⟩ := hadv.h f1 s1 u2 f2 s2 j1 trivial e2
  obtain ⟨_, h1, h2⟩ := pureF_ok k2
  subst h1 h2
  refine ⟨j2, m1.trans m2, ks1.trans ks2, fun _ => ?_⟩
  rw [o2]
  exact hemp (by rw [ho]; exact hl) rfl

end

macro "nxj_step" : tactic =>
  `(tactic| first
    | exact NXJ.pureNext _
    | exact NXJ.throw _
    | (refine NXJ.bind (by first | apply_hyp | (apply GJ0.of_osj; osj_leaf)) (fun _ => ?_))
    | with_reducible apply NXJ.ite
    | intro _
    | split)

macro "lj_step" : tactic =>
  `(tactic| first
    | apply_hyp
    | (refine LJ.bind_pre (by first | osj_leaf | apply_hyp) (fun _ => ?_))
    | with_reducible apply LJ.ite
    | (apply LJ.of_nxj; (repeat' nxj_step); done)
    | intro _
    | split)

macro "lj" : tactic => `(tactic| repeat' lj_step)

section
variable (pts : List PT) (hpts : ∀ pt ∈ pts, PTStp pt) (hptb : ∀ pt ∈ pts, PTBr pt)
include hpts hptb

theorem lineLoopF_lj (on : Bool) (parent : Nat) (ob : List Block) (li : Int) :
    ∀ (rest : List Block) (i : Int) (bl : List LineStat), LJ ob li rest (lineLoopF on pts parent ob li rest i bl)
  | [], i, bl => by unfold lineLoopF; lj
  | be :: rest, i, bl => by
    have h0 := LJ.eofBranch pts hpts hptb ob li (be :: rest)
    have h1 := openBlocksF_gj0 pts hpts hptb on
    have h2 := closeBlocksF_gj0 pts hpts hptb
    have ih := fun i bl => (lineLoopF_lj on parent ob li rest i bl).mono (R' := be :: rest) (fun b hb => List.mem_cons_of_mem _ hb)
    have h3 : OSJ (PR (be :: rest)) (bpContinueF be.bp be.node) :=
      bpContinueF_osj (fun s s' k h => h.ks k) be.bp be.node (fun s hs => hs be (List.mem_cons_self ..))
    unfold lineLoopF; lj

/-- the loop over the lines keeps the invariant and ends with an empty stack, either way -/
theorem linesLoopF_empty (on : Bool) (parent : Nat) : ∀ (fuel : Nat) (bl : List LineStat) (f : FS) (s : St)
    (x : Bool × List LineStat) (f' : FS) (s' : St), FJ f s →
    linesLoopF on pts parent fuel bl f s = .ok ((x, f'), s') → FJ f' s' ∧ s'.pc.opened = [] := by
  intro fuel
  induction fuel with
  | zero => intro bl f s x f' s' _ e; unfold linesLoopF at e; cases e
  | succ fuel ih =>
    intro bl f s x f' s' j e
    unfold linesLoopF at e
    dsimp only at e
    obtain ⟨pc, f1, s1, e1, k1⟩ := mf_bind_ok e
    obtain ⟨eh1, ex1⟩ := upF_ok' e1
    obtain ⟨epc, es1⟩ := getPc_ok' ex1
    subst eh1 es1 epc
    split at k1
    · rename_i hl
      obtain ⟨_, h1, h2⟩ := pureF_ok k1
      subst h1 h2
      exact ⟨j, List.eq_nil_of_length_eq_zero (by simpa using hl)⟩
    · obtain ⟨r, f2, s2, e2, k2⟩ := mf_bind_ok k1
      obtain ⟨j2, _, _, lj⟩ := (lineLoopF_lj pts hpts hptb on parent s.pc.opened ((s.pc.opened.length : Int) - 1) s.pc.opened 0 bl).h
        _ _ _ _ _ j j.pn rfl rfl e2
      cases hr : r.1 with
      | eof =>
        simp only [hr] at k2
        obtain ⟨_, h1, h2⟩ := pureF_ok k2
        subst h1 h2
        exact ⟨j2, lj hr⟩
      | next =>
        simp only [hr] at k2
        obtain ⟨u3, f3, s3, e3, k3⟩ := mf_bind_ok k2
        have hadv : OSJ (fun _ => True) (GM.ConvertF.up advanceLine) := by osj_leaf
        obtain ⟨j3, _, _, _⟩ := hadv.h f2 s2 u3 f3 s3 j2 trivial e3
        exact ih r.2 _ _ x f' s' j3 k3

/-- the outer loop: entered with an empty stack, it keeps the invariant and is left with an empty stack -/
theorem blocksLoopF_empty (on : Bool) (parent : Nat) : ∀ (fuel : Nat) (bl : List LineStat) (f : FS) (s : St)
    (x : Unit) (f' : FS) (s' : St), FJ f s → s.pc.opened = [] →
    blocksLoopF on pts parent fuel bl f s = .ok ((x, f'), s') → FJ f' s' ∧ s'.pc.opened = [] := by
  intro fuel
  induction fuel with
  | zero => intro bl f s x f' s' _ _ e; unfold blocksLoopF at e; cases e
  | succ fuel ih =>
    intro bl f s x f' s' j ho e
    unfold blocksLoopF at e
    dsimp only at e
    obtain ⟨r1, f1, s1, e1, k1⟩ := mf_bind_ok e
    have hskip : OSJ (fun _ => True) (GM.ConvertF.up skipBlankLinesR) := by osj_leaf
    obtain ⟨j1, _, _, op1⟩ := hskip.h f s r1 f1 s1 j trivial e1
    have o1 : s1.pc.opened = [] := by rw [op1]; exact ho
    split at k1
    · obtain ⟨_, h1, h2⟩ := pureF_ok k1
      subst h1 h2
      exact ⟨j1, o1⟩
    · obtain ⟨r2, f2, s2, e2, k2⟩ := mf_bind_ok k1
      obtain ⟨eh2, ex2⟩ := upF_ok' e2
      cases ex2
      subst eh2
      obtain ⟨pc3, f3, s3, e3, k3⟩ := mf_bind_ok k2
      obtain ⟨eh3, ex3⟩ := upF_ok' e3
      obtain ⟨_, es3⟩ := getPc_ok' ex3
      subst eh3 es3
      obtain ⟨r4, f4, s4, e4, k4⟩ := mf_bind_ok k3
      obtain ⟨j4, _, _, sh⟩ := openBlocksF_spec pts hpts hptb on parent _ _ _ _ _ _ j1 e4
      split at k4
      · rename_i hne
        obtain ⟨_, h1, h2⟩ := pureF_ok k4
        subst h1 h2
        have hne' : r4 ≠ .newBlocksOpened := by simpa using hne
        refine ⟨j4, ?_⟩
        cases hop : s4.pc.opened with
        | nil => rfl
        | cons b rest =>
          have := sh hne' b (by rw [hop]; exact List.mem_cons_self ..)
          rw [o1] at this; cases this
      · obtain ⟨u5, f5, s5, e5, k5⟩ := mf_bind_ok k4
        have hadv : OSJ (fun _ => True) (GM.ConvertF.up advanceLine) := by osj_leaf
        obtain ⟨j5, _, _, _⟩ := hadv.h f4 s4 u5 f5 s5 j4 trivial e5
        obtain ⟨r6, f6, s6, e6, k6⟩ := mf_bind_ok k5
        obtain ⟨j6, o6⟩ := linesLoopF_empty pts hpts hptb on parent fuel _ _ _ _ _ _ j5 e6
        split at k6
        · obtain ⟨_, h1, h2⟩ := pureF_ok k6
          subst h1 h2
          exact ⟨j6, o6⟩
        · exact ih r6.2 _ _ x f' s' j6 o6 k6

end

theorem FJ_init (src : Bytes) : FJ {} (initSt src) := by
  have w := (J_init src).wf
  refine ⟨w, ⟨(fun l hl => by cases hl), (fun p hp => by cases hp)⟩, (fun x hx => by cases hx), (fun l hl => by cases hl),
    fun i hk => ?_, (fun p c hc hfn => by cases hfn), (fun b hb => by cases hb)⟩
  rw [ndx_init] at hk ⊢
  split
  · rfl
  · rfl

/-- **the close discipline of the block phase with the footnote block parser**: in the final state the invariant `FJ` holds
    and the open-block stack is empty -/
theorem runF_disc (on : Bool) (pts : List PT) (hpts : ∀ pt ∈ pts, PTStp pt) (hptb : ∀ pt ∈ pts, PTBr pt) (src : Bytes)
    (f : FS) (st : St) (e : runF on pts src = .ok (f, st)) : FJ f st ∧ st.pc.opened = [] := by
  unfold runF parseBlocksF at e
  cases hx : (do
      GM.ConvertF.up (modPc fun pc => { pc with opened := [] })
      blocksLoopF on pts 0 (linesFuel (← GM.ConvertF.up source)) [] : MF Unit) {} (initSt src) with
  | error x => rw [hx] at e; cases e
  | ok r =>
    rw [hx] at e
    obtain ⟨⟨u, f'⟩, s'⟩ := r
    simp only [Except.map] at e
    cases e
    obtain ⟨u1, f1, s1, e1, k1⟩ := mf_bind_ok hx
    obtain ⟨eh1, ex1⟩ := upF_ok' e1
    have es1 := modPc_ok ex1
    subst eh1
    have j1 : FJ {} s1 := by
      rw [es1]
      have j0 := FJ_init src
      exact ⟨⟨j0.wf.edge, j0.wf.nodup, j0.wf.root, j0.wf.ne, j0.wf.rootKind⟩, j0.ids, j0.kfn, j0.klist, j0.nl,
        (fun p c hc hfn => by cases hfn), (fun b hb => by cases hb)⟩
    have o1 : s1.pc.opened = [] := by rw [es1]
    obtain ⟨v, f2, s2, e2, k2⟩ := mf_bind_ok k1
    obtain ⟨eh2, ex2⟩ := upF_ok' e2
    cases ex2
    subst eh2
    exact blocksLoopF_empty pts hpts hptb on 0 _ [] _ _ _ _ _ j1 o1 k2

theorem blockPhaseF_disc (on guard : Bool) (src : Bytes) (f : FS) (st : St) (e : blockPhaseF on guard src = .ok (f, st)) :
    FJ f st ∧ st.pc.opened = [] :=
  runF_disc on _ (paragraphTransformers_stp guard) (paragraphTransformers_br guard) src f st e

end GM.ConvertF
