/-
  GM.Proof.CMFragSpec9 — the stage-9 fragment (paragraphs whose lines may end in a hard line break written with a
  backslash) of GM.Spec.CMFrag inside the spec model GM.Spec.CommonMark:
  * `expectedBD_eq_expected`: the prescribed HTML of a stage-9 document is `expected` of the embedded document;
  * `spellBD_eq_spell`: for a NON-EMPTY stage-9 document without extra blank lines the source is `spell` of the
    embedded document, byte for byte.
-/
import GM.Proof.CMFragSpec7
namespace GM.Proof.CMFrag
open GM GM.Spec.CM GM.Spec.CMFrag

/-! ### B1: prescribed HTML -/

theorem render_expIs_bembedLines9 (ls : List BLine) : render (expIs (bembedLines ls)) = expBLines ls := by
  induction ls with
  | nil => simp [bembedLines, expIs, render, expBLines]
  | cons x rest ih =>
    cases rest with
    | nil => simp [bembedLines, expIs, expI, render, renderPiece, expBLines]
    | cons y rest =>
      have e : bembedLines (x :: y :: rest) =
          .text x.cs :: (if x.hard then .hardBreak true 0 else .softBreak) :: bembedLines (y :: rest) := rfl
      have e2 : expBLines (x :: y :: rest) =
          escHtml (plain x.cs) ++ (if x.hard then strBytes "<br />\n" else [10]) ++ expBLines (y :: rest) := rfl
      rw [e, e2, expIs, expIs, render_append, render_append, ih]
      have hbr : strBytes "<br />\n" = [60] ++ strBytes "br" ++ strBytes " />" ++ [10] := by decide +kernel
      cases x.hard
      · simp [expI, render, renderPiece, nl]
      · rw [if_pos rfl, if_pos rfl, hbr]
        simp [expI, render, renderPiece, nl]

theorem render_expB_para9 (it : BItem) :
    render (expB false false (.para {} (bembedLines it.lines) 0)) = expBItem it := by
  rw [expB]
  simp only [wrap, Bool.false_eq_true, if_false, List.cons_append]
  have h1 : strBytes "<p>" = [60] ++ strBytes "p" ++ [62] := by decide +kernel
  have h2 : strBytes "</p>\n" = [60, 47] ++ strBytes "p" ++ [62] ++ [10] := by decide +kernel
  rw [expBItem, h1, h2, ← render_expIs_bembedLines9]
  simp [render, renderPiece, nl]

theorem render_expBs_bembed9 (its : List BItem) :
    render (expBs false false (its.map fun it => .para {} (bembedLines it.lines) 0)) = its.flatMap expBItem := by
  induction its with
  | nil => simp [expBs, render]
  | cons it rest ih =>
    rw [List.map_cons, expBs, render_append, ih]
    simp [render_expB_para9]

theorem expectedBD_eq_expected_any9 (d : BDoc) : expectedBD d = expected (bembed d) := by
  rw [expected, expectedPieces, bembed, expectedBD, render_expBs_bembed9]

/-- B1 -/
theorem expectedBD_eq_expected (d : BDoc) (_h : BFrag d) : expectedBD d = expected (bembed d) :=
  expectedBD_eq_expected_any9 d

/-! ### B2: source -/

theorem spellBLine_soft9 (z : BLine) (hz : z.hard = false) : spellBLine z = escSpell z.cs := by
  simp [spellBLine, hz]

theorem spellBLine_hard9 (z : BLine) (hz : z.hard = true) : spellBLine z = escSpell z.cs ++ [92] := by
  simp [spellBLine, hz]

/-- the inline source of a paragraph whose last line is not hard -/
theorem spellIs_bembedLines9 (ls : List BLine) (hlast : ∀ z, ls.getLast? = some z → z.hard = false) (pa : Bool) :
    spellIs pa (bembedLines ls) = GM.Spec.CMFrag.joinNl (ls.map spellBLine) := by
  induction ls generalizing pa with
  | nil => simp [bembedLines, spellIs, GM.Spec.CMFrag.joinNl]
  | cons x rest ih =>
    cases rest with
    | nil =>
      have hx : x.hard = false := hlast x rfl
      simp [bembedLines, spellIs, spellI, GM.Spec.CMFrag.joinNl, spellBLine_soft9 x hx]
    | cons y rest =>
      have hl' : ∀ z, (y :: rest).getLast? = some z → z.hard = false := by
        intro z hz; exact hlast z (by rw [List.getLast?_cons_cons]; exact hz)
      have ej : GM.Spec.CMFrag.joinNl ((x :: y :: rest).map spellBLine) =
          spellBLine x ++ [10] ++ GM.Spec.CMFrag.joinNl ((y :: rest).map spellBLine) := by
        simp [GM.Spec.CMFrag.joinNl]
      rw [ej]
      cases hx : x.hard
      · have e : bembedLines (x :: y :: rest) = .text x.cs :: .softBreak :: bembedLines (y :: rest) := by
          simp [bembedLines, hx]
        rw [e]
        simp only [spellIs, spellI]
        rw [ih hl', spellBLine_soft9 x hx]
        simp
      · have e : bembedLines (x :: y :: rest) = .text x.cs :: .hardBreak true 0 :: bembedLines (y :: rest) := by
          simp [bembedLines, hx]
        rw [e]
        simp only [spellIs, spellI]
        rw [ih hl', spellBLine_hard9 x hx]
        simp

theorem spellBLine_printable9 (x : BLine) (h : lineOK x.cs = true) : (spellBLine x).all printable = true := by
  have he := escSpell_printable x.cs (lineOK_printable x.cs h)
  unfold spellBLine
  split
  · rw [List.all_append, he]; decide
  · exact he

theorem paraLines_bembed9 (ls : List BLine) (hne : ls ≠ []) (hok : ∀ x ∈ ls, lineOK x.cs = true)
    (hlast : ∀ z, ls.getLast? = some z → z.hard = false) :
    (paraLines 0 0 (spellIs false (bembedLines ls))).map (renderLine 0 0 0 0) = ls.map spellBLine := by
  have hpr : ∀ b ∈ ls.map spellBLine, ∀ c ∈ b, printable c = true := by
    intro b hb c hc
    obtain ⟨x, hx, rfl⟩ := List.mem_map.mp hb
    exact List.all_eq_true.mp (spellBLine_printable9 x (hok x hx)) c hc
  have hsplit := splitLines_joinNl (ls.map spellBLine) (by simpa using hne)
    (fun b hb c hc => (printable_facts c (hpr b hb c hc)).1)
  rw [paraLines, spellIs_bembedLines9 ls hlast, hsplit]
  cases hls : ls.map spellBLine with
  | nil => simp at hls; exact absurd hls hne
  | cons f rest =>
    rw [hls] at hpr
    simp only [List.map_cons, List.map_map]
    congr 1
    · exact renderLine_plain f (fun c hc => (printable_facts c (hpr f (by simp) c hc)).2)
    · conv => rhs; rw [← List.map_id rest]
      apply List.map_congr_left
      intro b hb
      exact renderLine_plain b (fun c hc => (printable_facts c (hpr b (by simp [hb]) c hc)).2)

/-- the source lines of the items (a blank line in front of every item but the first) -/
def docLines9 (first : Bool) : List BItem → List Bytes
  | [] => []
  | it :: rest => (if first then [] else [[]]) ++ it.lines.map spellBLine ++ docLines9 false rest

theorem bitemOK_parts_spec9 (it : BItem) (h : bitemOK it = true) :
    it.lines ≠ [] ∧ (∀ x ∈ it.lines, lineOK x.cs = true) ∧ ∀ z, it.lines.getLast? = some z → z.hard = false := by
  simp only [bitemOK, Bool.and_eq_true, Bool.not_eq_true', List.isEmpty_eq_false_iff, List.all_eq_true] at h
  refine ⟨h.1.1, h.1.2, ?_⟩
  intro z hz
  have h3 := h.2
  unfold blastSoft at h3
  rw [hz] at h3
  simpa using h3

theorem spellBs_bembed9 (its : List BItem) (hok : ∀ it ∈ its, bitemOK it = true) (prev pm : Nat) :
    (spellBs false false prev pm (its.map fun it => .para {} (bembedLines it.lines) 0)).map (renderLine 0 0 0 0) =
      docLines9 (prev == 0) its := by
  induction its generalizing prev pm with
  | nil => simp [spellBs, docLines9]
  | cons it rest ih =>
    obtain ⟨hne, hl, hlast⟩ := bitemOK_parts_spec9 it (hok it (by simp))
    have hp := paraLines_bembed9 it.lines hne hl hlast
    have ih' := ih (fun x hx => hok x (by simp [hx])) 1 0
    rw [List.map_cons, spellBs_para, List.map_append, List.map_append, hp, ih', docLines9]
    by_cases h0 : prev = 0
    · subst h0; simp
    · have : (prev == 0) = false := by simpa using h0
      simp [this, renderLine_blank]

theorem docLines_flatMap9 (its : List BItem) (hg : ∀ it ∈ its, it.gap = 0) (first : Bool) :
    (docLines9 first its).flatMap (· ++ [10]) = spellBItems first its := by
  induction its generalizing first with
  | nil => simp [docLines9, spellBItems]
  | cons it rest ih =>
    obtain ⟨g, ls⟩ := it
    have hg0 : g = 0 := hg ⟨g, ls⟩ (by simp)
    subst hg0
    rw [docLines9, spellBItems, List.flatMap_append, List.flatMap_append, ih (fun x hx => hg x (by simp [hx]))]
    cases first
    · simp [blanks, List.flatMap_map]
    · simp [blanks, List.flatMap_map]

theorem docLines_ne9 (it : BItem) (rest : List BItem) (h : bitemOK it = true) : docLines9 true (it :: rest) ≠ [] := by
  obtain ⟨hne, _, _⟩ := bitemOK_parts_spec9 it h
  obtain ⟨g, ls⟩ := it
  cases ls with
  | nil => exact absurd rfl hne
  | cons l ls => simp [docLines9]

/-- B2: a non-empty stage-9 document without extra blank lines is spelled byte for byte like the embedded one -/
theorem spellBD_eq_spell (d : BDoc) (h : BFrag d) (hb : bnoExtraBlanks d = true) (hne : d.items ≠ []) :
    spellBD d = spell (bembed d) := by
  obtain ⟨items, trail⟩ := d
  simp only [bnoExtraBlanks, Bool.and_eq_true, beq_iff_eq, List.all_eq_true] at hb
  obtain ⟨ht, hg⟩ := hb
  simp only at ht hne; subst ht
  have hok : ∀ it ∈ items, bitemOK it = true := by
    have := h; simp only [BFrag, bfragB, List.all_eq_true] at this; exact this
  have hl := spellBs_bembed9 items hok 0 0
  cases items with
  | nil => exact absurd rfl hne
  | cons it rest =>
    have hdn := docLines_ne9 it rest (hok it (by simp))
    simp only [spell, bembed, spellBD, blanks, List.replicate_zero, List.append_nil, if_true]
    rw [hl]
    simp only [beq_self_eq_true]
    rw [joinLines_flatMap _ hdn, docLines_flatMap9 _ hg]

/-- … and the empty document is the exception, as in stages 1–3 -/
theorem spellBD_empty_ne_spell9 : spellBD { items := [] } ≠ spell (bembed { items := [] }) := by decide +kernel

end GM.Proof.CMFrag
