/-
  GM.Proof.ShiftSimXBlank — the pass of the line loop of parseBlocks over a blank line `\n` closes the whole stack of
  open blocks (when the first open block is a leaf that never continues, a block quote or a paragraph), and
  `closeBlocks` does not look at BlockOffset / BlockIndent nor at the reader's caches.
-/
import GM.Proof.ShiftSimEndC

namespace GM.Blocks.Xs
open GM GM.Text GM.Blocks GM.Blocks.Sh

/-- same state up to BlockOffset / BlockIndent and the reader's caches -/
def SetBO (o i : Int) (s : St) : St := { s with pc := { s.pc with blockOffset := o, blockIndent := i } }

theorem xb_kind_paragraph {bp : BP} (h : bp.kind = .paragraph) : bp = .paragraph := by
  cases bp <;> first | rfl | cases h

/-! ### GOAL 1: the blank line -/

theorem xb_paragraphContinue_blank (node : Nat) (s : St) (hl : AtLine [10] s.r) (st : PState) (s' : St)
    (h : paragraphContinue node s = .ok (st, s')) :
    st.cont = false ∧ AtLine [10] s'.r ∧ s'.nodes = s.nodes ∧ s'.pc = s.pc ∧ h2_RC s.r s'.r := by
  unfold paragraphContinue at h
  obtain ⟨y, s1, h1, k1⟩ := bind_ok h
  obtain ⟨rfl, hl1, hn1, hp1, rc1⟩ := h2_peekLine hl h1
  simp only [Option.getD, h2_isBlank_nl, if_true] at k1
  obtain ⟨rfl, rfl⟩ := pure_ok k1
  exact ⟨rfl, hl1, hn1, hp1, rc1⟩

theorem xb_blockquoteContinue_blank (node : Nat) (s : St) (hl : AtLine [10] s.r) (st : PState) (s' : St)
    (h : blockquoteContinue node s = .ok (st, s')) :
    st.cont = false ∧ AtLine [10] s'.r ∧ s'.nodes = s.nodes ∧ s'.pc = s.pc ∧ h2_RC s.r s'.r := by
  unfold blockquoteContinue at h
  obtain ⟨b, s3, hb, h⟩ := bind_ok h
  unfold blockquoteProcess at hb
  obtain ⟨x, s4, h4, hb⟩ := bind_ok hb
  obtain ⟨rfl, hl4, hn4, hp4, c4⟩ := h2_peekLine hl h4
  dsimp only at hb
  obtain ⟨lo, s5, h5, hb⟩ := bind_ok hb
  obtain ⟨hl5, hn5, hp5, c5⟩ := h2_lineOffset hl4 h5
  simp only [Option.getD, indentWidthI_nl] at hb
  have c1 : (decide ((0:Int) > 3) || decide ((0:Int) ≥ (([10] : Bytes).length : Int))) = false := by
    decide
  rw [c1] at hb
  simp only [Bool.false_eq_true, if_false] at hb
  obtain ⟨c, s6, h6, hb⟩ := bind_ok hb
  obtain ⟨hc, rfl⟩ := liftE_ok h6
  have hc' : idx [10] 0 = .ok 10 := rfl
  rw [hc'] at hc
  cases hc
  simp only [show ((10 : UInt8) != 62) = true from rfl, if_true] at hb
  obtain ⟨rfl, rfl⟩ := pure_ok hb
  simp only [Bool.false_eq_true, if_false] at h
  obtain ⟨rfl, rfl⟩ := pure_ok h
  exact ⟨rfl, hl5, hn5.trans hn4, hp5.trans hp4, h2_RC_trans c4 c5⟩

/-- the exit of `openBlocks` on a blank line when nothing was opened -/
theorem xb_toContinuable_blank (cont : Bool) (lb : Option Block) (s : St) (hl : AtLine [10] s.r)
    (hc : cont = true → ∃ b, lb = some b ∧ b.bp = .paragraph) (res : OpenResult) (s' : St)
    (h : toContinuable cont .noBlocksOpened lb s = .ok (res, s')) :
    res = .noBlocksOpened ∧ AtLine [10] s'.r ∧ s'.nodes = s.nodes ∧ s'.pc = s.pc ∧ h2_RC s.r s'.r := by
  unfold toContinuable at h
  cases cont with
  | false =>
    simp only [Bool.and_false, Bool.false_eq_true, if_false] at h
    obtain ⟨rfl, rfl⟩ := pure_ok h
    exact ⟨rfl, hl, rfl, rfl, h2_RC_refl _⟩
  | true =>
    obtain ⟨b, rfl, hb⟩ := hc rfl
    simp only [beq_self_eq_true, Bool.and_true, if_true] at h
    rw [hb] at h
    simp only [bpContinue] at h
    obtain ⟨st, s8, h8, k8⟩ := bind_ok h
    obtain ⟨hc8, hl8, hn8, hp8, rc8⟩ := xb_paragraphContinue_blank _ _ hl _ _ h8
    rw [hc8] at k8
    simp only [Bool.false_eq_true, if_false] at k8
    obtain ⟨rfl, rfl⟩ := pure_ok k8
    exact ⟨rfl, hl8, hn8, hp8, rc8⟩

/-- `openBlocks` on the blank line, any stack: nothing is opened, the store is unchanged, the context changes in
    BlockOffset / BlockIndent only, the reader in its caches only -/
theorem xb_openBlocks_blank (parent : Nat) (blank : Bool) (s : St)
    (hl : AtLine [10] s.r)
    (hkind : ∀ x ∈ s.pc.opened, (s.nodes.getD x.node default).kind = x.bp.kind)
    (res : OpenResult) (s' : St)
    (h : openBlocks parent blank s = .ok (res, s')) :
    res = .noBlocksOpened ∧ s'.nodes = s.nodes ∧ s'.pc = { s.pc with blockOffset := 0, blockIndent := 0 } ∧
      AtLine [10] s'.r ∧ h2_RC s.r s'.r := by
  unfold openBlocks at h
  obtain ⟨lb, s1, h1, k1⟩ := bind_ok h
  obtain ⟨elb, e1⟩ := lastOpenedBlock_ok h1
  rw [e1] at k1
  have fin : ∀ cont, (cont = true → ∃ b, lb = some b ∧ b.bp = .paragraph) →
      (do let v ← source; openBlocksLoop blank cont (retryFuel v) parent OpenResult.noBlocksOpened lb : M OpenResult) s
      = .ok (res, s') → res = .noBlocksOpened ∧ s'.nodes = s.nodes ∧
        s'.pc = { s.pc with blockOffset := 0, blockIndent := 0 } ∧ AtLine [10] s'.r ∧ h2_RC s.r s'.r := by
    intro cont hcont k2
    obtain ⟨v, s3, h3, k3⟩ := bind_ok k2
    have e3 : s3 = s := by cases h3; rfl
    rw [e3] at k3
    have hf : retryFuel v = (2 * v.length + 7) + 1 := rfl
    rw [hf] at k3
    unfold openBlocksLoop at k3
    obtain ⟨y, s4, h4, k4⟩ := bind_ok k3
    obtain ⟨rfl, hl4, hn4, hp4, cu4⟩ := h2_peekLine hl h4
    dsimp only at k4
    obtain ⟨lo, s5, h5, k5⟩ := bind_ok k4
    obtain ⟨hl5, hn5, hp5, cu5⟩ := h2_lineOffset hl4 h5
    simp only [Option.getD, indentWidthI_nl] at k5
    obtain ⟨u, s6, h6, k6⟩ := bind_ok k5
    have e6 := modPc_ok h6
    have hlen : ¬ ((0 : Int) ≥ (([10] : Bytes).length : Int)) := by decide
    rw [if_neg hlen] at e6
    have hidx : idx [10] 0 = .ok 10 := rfl
    simp only [Option.isNone, Bool.false_eq_true, if_false, hidx] at k6
    obtain ⟨c, s7, h7, k7⟩ := bind_ok k6
    obtain ⟨ec, e7⟩ := liftE_ok h7
    cases ec
    simp only [beq_self_eq_true, if_true] at k7
    rw [e7] at k7
    have hl6 : AtLine [10] s6.r := by rw [e6]; exact hl5
    obtain ⟨hr, hl', hn', hp', rc'⟩ := xb_toContinuable_blank cont lb s6 hl6 hcont res s' k7
    have hp : s5.pc = s.pc := hp5.trans hp4
    have rc6 : h2_RC s.r s6.r := by rw [e6]; exact h2_RC_trans cu4 cu5
    refine ⟨hr, by rw [hn', e6]; exact hn5.trans hn4, by rw [hp', e6]; show _ = _; rw [hp], hl',
      h2_RC_trans rc6 rc'⟩
  dsimp only at k1
  cases lb with
  | none =>
    dsimp only at k1
    obtain ⟨cont, s2, h2, k2⟩ := bind_ok k1
    obtain ⟨ec, e2⟩ := pure_ok h2
    rw [e2] at k2
    exact fin cont (fun hc => by rw [ec] at hc; cases hc) k2
  | some b =>
    dsimp only at k1
    obtain ⟨n, s2, h2, k2⟩ := bind_ok k1
    obtain ⟨en, e2⟩ := getNode_ok h2
    rw [e2] at k2
    obtain ⟨cont, s3, h3, k3⟩ := bind_ok k2
    obtain ⟨ec, e3⟩ := pure_ok h3
    rw [e3] at k3
    refine fin cont (fun hc => ⟨b, rfl, ?_⟩) k3
    have hmem : b ∈ s.pc.opened := List.mem_of_getLast? elb.symm
    have hk := hkind b hmem
    rw [ec, en] at hc
    have : (s.nodes.getD b.node default).kind = .paragraph := by
      simpa using hc
    exact xb_kind_paragraph (hk.symm.trans this)

theorem xb_slotAfter_self {l : List Block} {i : Int} {b : Block} (h : blockAt l i = .ok b) :
    slotAfter l l i.toNat = some b := by
  unfold blockAt at h
  unfold slotAfter
  split at h
  · cases h
  · cases hg : l[i.toNat]? with
    | none => rw [hg] at h; cases h
    | some c => rw [hg] at h; cases h; rfl

/-- `llFall` at level 0 on the blank line: `openBlocks` opens nothing, the whole stack is closed -/
theorem xb_llFall_blank (s : St) (ob : List Block) (lineNum : Int) (bl : List LineStat)
    (hl : AtLine [10] s.r) (hop : s.pc.opened = ob)
    (hkind : ∀ x ∈ ob, (s.nodes.getD x.node default).kind = x.bp.kind)
    (x : LineOutcome × List LineStat) (s' : St)
    (h : llFall 0 ob ((ob.length : Int) - 1) 0 lineNum bl s = .ok (x, s')) :
    x = (.next, bl) ∧ ∃ rm : Reader, h2_RC s.r rm ∧
      closeBlocks ((ob.length : Int) - 1) 0 { SetBO 0 0 s with r := rm } = .ok ((), s') := by
  unfold llFall at h
  simp only [bne_self_eq_false, Bool.false_eq_true, if_false] at h
  unfold llOpen at h
  obtain ⟨lastNode, sC, hC, kC⟩ := bind_ok h
  obtain ⟨hln, eC⟩ := liftE_ok hC
  rw [eC] at kC
  obtain ⟨res, sD, hD, kD⟩ := bind_ok kC
  obtain ⟨hres, hnD, hpD, hlD, rcD⟩ := xb_openBlocks_blank 0 _ s hl (by rw [hop]; exact hkind) res sD hD
  rw [hres] at kD
  simp only [show (OpenResult.noBlocksOpened != OpenResult.paragraphContinuation) = true from rfl, if_true] at kD
  obtain ⟨pc, sE, hE, kE⟩ := bind_ok kD
  obtain ⟨epc, eE⟩ := getPc_ok hE
  rw [eE, epc] at kE
  obtain ⟨u, sF, hF, kF⟩ := bind_ok kE
  obtain ⟨eo, eF⟩ := pure_ok kF
  have hoD' : sD.pc.opened = ob := by rw [hpD]; exact hop
  rw [hoD', xb_slotAfter_self hln] at hF
  simp only [Option.map, bne_self_eq_false, Bool.false_eq_true, if_false] at hF
  refine ⟨eo, sD.r, rcD, ?_⟩
  have hsD : sD = { SetBO 0 0 s with r := sD.r } := by
    cases sD
    simp only at hnD hpD
    subst hnD hpD
    rfl
  rw [← hsD, eF] at *
  cases u
  exact hF

theorem blank_pass_closes (s : St) (b0 : Block) (rest : List Block) (stats : List LineStat)
    (hl : AtLine [10] s.r) (hop : s.pc.opened = b0 :: rest)
    (_hids : ∀ x ∈ b0 :: rest, x.node < s.nodes.length)
    (hkind : ∀ x ∈ b0 :: rest, (s.nodes.getD x.node default).kind = x.bp.kind)
    (hb0 : b0.bp = .thematic ∨ b0.bp = .atx ∨ b0.bp = .blockquote ∨ b0.bp = .paragraph ∨ b0.bp = .setext)
    (x : LineOutcome × List LineStat) (s' : St)
    (h : lineLoop 0 (b0 :: rest) (((b0 :: rest).length : Int) - 1) (b0 :: rest) 0 stats s = .ok (x, s')) :
    x.1 = .next ∧ x.2 = stats ++ [{ lineNum := s.r.line, level := 0, isBlank := true }] ∧
    ∃ (o i : Int) (rm : Reader), h2_RC s.r rm ∧
      closeBlocks (((b0 :: rest).length : Int) - 1) 0 { SetBO o i s with r := rm } = .ok ((), s') := by
  rw [ll_lineLoop_cons] at h
  obtain ⟨y, s1, h1, k1⟩ := bind_ok h
  obtain ⟨rfl, hl1, hn1, hp1, rc1⟩ := h2_peekLine hl h1
  dsimp only at k1
  obtain ⟨pos, s2, h2, k2⟩ := bind_ok k1
  have e2 : pos = (s1.r.line, s1.r.pos) ∧ s2 = s1 := by cases h2; exact ⟨rfl, rfl⟩
  obtain ⟨rfl, rfl⟩ := e2
  dsimp only at k2
  rw [h2_isBlank_nl] at k2
  have hop1 : s2.pc.opened = b0 :: rest := by rw [hp1]; exact hop
  have hkind1 : ∀ x ∈ b0 :: rest, (s2.nodes.getD x.node default).kind = x.bp.kind := by rw [hn1]; exact hkind
  -- the state before `llFall` differs from `s` in the reader's caches only
  have fin : ∀ sA : St, AtLine [10] sA.r → sA.nodes = s.nodes → sA.pc = s.pc → h2_RC s.r sA.r →
      llFall 0 (b0 :: rest) (((b0 :: rest).length : Int) - 1) 0 s2.r.line
        (stats ++ [{ lineNum := s2.r.line, level := 0, isBlank := true }]) sA = .ok (x, s') →
      x.1 = .next ∧ x.2 = stats ++ [{ lineNum := s.r.line, level := 0, isBlank := true }] ∧
      ∃ (o i : Int) (rm : Reader), h2_RC s.r rm ∧
        closeBlocks (((b0 :: rest).length : Int) - 1) 0 { SetBO o i s with r := rm } = .ok ((), s') := by
    intro sA hlA hnA hpA rcA k
    obtain ⟨ex, rm, rcm, hcl⟩ := xb_llFall_blank sA (b0 :: rest) _ _ hlA (by rw [hpA]; exact hop)
      (by rw [hnA]; exact hkind) x s' k
    refine ⟨by rw [ex], by rw [ex, rc1.2.2], 0, 0, rm, h2_RC_trans rcA rcm, ?_⟩
    have : ({ SetBO 0 0 sA with r := rm } : St) = { SetBO 0 0 s with r := rm } := by
      unfold SetBO
      rw [hnA, hpA]
    rw [← this]
    exact hcl
  unfold llBody at k2
  obtain ⟨beNode, s3, h3, k3⟩ := bind_ok k2
  obtain ⟨en3, e3⟩ := getNode_ok h3
  by_cases hk : (beNode.kind != Kind.paragraph) = true
  · rw [if_pos hk] at k3
    obtain ⟨st, s4, h4, k4⟩ := bind_ok k3
    have hl3 : AtLine [10] s3.r := by rw [e3]; exact hl1
    have hcl : st.cont = false ∧ AtLine [10] s4.r ∧ s4.nodes = s3.nodes ∧ s4.pc = s3.pc ∧ h2_RC s3.r s4.r := by
      rcases hb0 with hb | hb | hb | hb | hb
      · rw [hb] at h4; simp only [bpContinue] at h4
        obtain ⟨rfl, rfl⟩ := pure_ok h4
        exact ⟨rfl, hl3, rfl, rfl, h2_RC_refl _⟩
      · rw [hb] at h4; simp only [bpContinue] at h4
        obtain ⟨rfl, rfl⟩ := pure_ok h4
        exact ⟨rfl, hl3, rfl, rfl, h2_RC_refl _⟩
      · rw [hb] at h4; simp only [bpContinue] at h4
        exact xb_blockquoteContinue_blank _ _ hl3 _ _ h4
      · exfalso
        have := hkind1 b0 List.mem_cons_self
        rw [hb] at this
        rw [en3, this] at hk
        exact absurd hk (by decide)
      · rw [hb] at h4; simp only [bpContinue] at h4
        obtain ⟨rfl, rfl⟩ := pure_ok h4
        exact ⟨rfl, hl3, rfl, rfl, h2_RC_refl _⟩
    obtain ⟨hc4, hl4, hn4, hp4, rc4⟩ := hcl
    rw [hc4] at k4
    simp only [Bool.false_eq_true, if_false] at k4
    rw [e3] at hn4 hp4 rc4
    exact fin s4 hl4 (hn4.trans hn1) (hp4.trans hp1) (h2_RC_trans rc1 rc4) k4
  · rw [if_neg hk] at k3
    rw [e3] at k3
    exact fin s2 hl1 hn1 hp1 rc1 k3

/-! ### GOAL 2: `closeBlocks` does not look at BlockOffset / BlockIndent nor at the reader's caches -/

section comm
variable (o i : Int) (rm : Reader)

/-- overwrite BlockOffset / BlockIndent and the reader -/
abbrev xb_T (s : St) : St := { SetBO o i s with r := rm }

/-- `f` commutes with `xb_T` on the states whose reader has the source of `rm`, and keeps the source -/
def xb_Comm {α} (f : M α) : Prop :=
  ∀ s, s.r.source = rm.source →
    f (xb_T o i rm s) = (f s).map (fun p => (p.1, xb_T o i rm p.2)) ∧
      ∀ a s', f s = .ok (a, s') → s'.r.source = rm.source

variable {o i rm}

theorem xb_Comm.pure {α} (a : α) : xb_Comm o i rm (pure a : M α) :=
  fun _ hs => ⟨rfl, fun _ _ h => by cases h; exact hs⟩

theorem xb_Comm.bind {α β} {f : M α} {g : α → M β} (hf : xb_Comm o i rm f) (hg : ∀ a, xb_Comm o i rm (g a)) :
    xb_Comm o i rm (f >>= g) := by
  intro s hs
  obtain ⟨h1, h2⟩ := hf s hs
  show (StateT.bind f g (xb_T o i rm s) = (StateT.bind f g s).map _) ∧
    ∀ a s', StateT.bind f g s = .ok (a, s') → s'.r.source = rm.source
  unfold StateT.bind
  rw [h1]
  cases hfs : f s with
  | error e => exact ⟨rfl, fun a s' h => by cases h⟩
  | ok p =>
    obtain ⟨a, s1⟩ := p
    obtain ⟨h3, h4⟩ := hg a s1 (h2 a s1 hfs)
    exact ⟨h3, h4⟩

theorem xb_Comm.getNode (id : Nat) : xb_Comm o i rm (getNode id) :=
  fun _ hs => ⟨rfl, fun _ _ h => by cases h; exact hs⟩

theorem xb_Comm.modNode (id : Nat) (f : Node → Node) : xb_Comm o i rm (modNode id f) :=
  fun _ hs => ⟨rfl, fun _ _ h => by cases h; exact hs⟩

theorem xb_Comm.newNode (n : Node) : xb_Comm o i rm (newNode n) :=
  fun _ hs => ⟨rfl, fun _ _ h => by cases h; exact hs⟩

theorem xb_Comm.liftE {α} (e : Except Panic α) : xb_Comm o i rm (liftE e) := by
  intro s hs
  cases e with
  | error x => exact ⟨rfl, fun a s' h => by cases h⟩
  | ok v => exact ⟨rfl, fun a s' h => by cases h; exact hs⟩

theorem xb_Comm.throw {α} (e : Panic) : xb_Comm o i rm (throw e : M α) :=
  fun _ _ => ⟨rfl, fun _ _ h => by cases h⟩

theorem xb_Comm.source : xb_Comm o i rm source := by
  intro s hs
  refine ⟨?_, fun _ _ h => by cases h; exact hs⟩
  show Except.ok (rm.source, xb_T o i rm s) = Except.ok (s.r.source, xb_T o i rm s)
  rw [hs]

theorem xb_Comm.getPc_bind {β} {k : Ctx → M β} (hk : ∀ pc, xb_Comm o i rm (k pc))
    (hk2 : ∀ st : St, k (xb_T o i rm st).pc = k st.pc) : xb_Comm o i rm (getPc >>= k) := by
  intro s hs
  show (k (xb_T o i rm s).pc (xb_T o i rm s) = (k s.pc s).map _) ∧
    ∀ a s', k s.pc s = .ok (a, s') → s'.r.source = rm.source
  rw [hk2]
  exact hk s.pc s hs

theorem xb_Comm.get_bind {β} {k : St → M β} (hk : ∀ st, xb_Comm o i rm (k st))
    (hk2 : ∀ st : St, k (xb_T o i rm st) = k st) : xb_Comm o i rm (get >>= k) := by
  intro s hs
  show (k (xb_T o i rm s) (xb_T o i rm s) = (k s s).map _) ∧
    ∀ a s', k s s = .ok (a, s') → s'.r.source = rm.source
  rw [hk2]
  exact hk s s hs

/-- `modPc` with a function that does not touch BlockOffset / BlockIndent -/
theorem xb_Comm.modPc (f : Ctx → Ctx)
    (hf : ∀ (pc : Ctx) (a b : Int), f { pc with blockOffset := a, blockIndent := b } =
      { f pc with blockOffset := a, blockIndent := b }) : xb_Comm o i rm (modPc f) := by
  intro s hs
  refine ⟨?_, fun _ _ h => by cases h; exact hs⟩
  have h := hf s.pc o i
  show Except.ok ((), ({ r := rm, nodes := s.nodes, pc := f { s.pc with blockOffset := o, blockIndent := i } } : St)) = _
  rw [h]
  rfl

syntax "xb_step" : tactic
macro_rules
  | `(tactic| xb_step) => `(tactic|
    (first
      | with_reducible exact xb_Comm.pure _
      | with_reducible exact xb_Comm.getNode _
      | with_reducible exact xb_Comm.modNode _ _
      | with_reducible exact xb_Comm.newNode _
      | with_reducible exact xb_Comm.liftE _
      | with_reducible exact xb_Comm.throw _
      | with_reducible exact xb_Comm.source
      | assumption
      | with_reducible refine xb_Comm.getPc_bind (fun _ => ?_) (by with_unfolding_all (intro _; rfl))
      | with_reducible refine xb_Comm.get_bind (fun _ => ?_) (by with_unfolding_all (intro _; rfl))
      | with_reducible refine xb_Comm.modPc _ (by with_unfolding_all (intro _ _ _; rfl))
      | with_reducible apply xb_Comm.bind
      | with_reducible intro _
      | split
      | dsimp only))

macro "xb_comm" : tactic => `(tactic| repeat xb_step)

theorem xb_Comm.removeChild (p c : Nat) : xb_Comm o i rm (removeChild p c) := by
  unfold GM.Blocks.removeChild
  xb_comm
macro_rules | `(tactic| xb_step) => `(tactic| with_reducible exact xb_Comm.removeChild _ _)

theorem xb_Comm.ensureIsolated (c : Nat) : xb_Comm o i rm (ensureIsolated c) := by
  unfold GM.Blocks.ensureIsolated
  xb_comm
macro_rules | `(tactic| xb_step) => `(tactic| with_reducible exact xb_Comm.ensureIsolated _)

theorem xb_Comm.appendChild (p c : Nat) : xb_Comm o i rm (appendChild p c) := by
  unfold GM.Blocks.appendChild
  xb_comm
macro_rules | `(tactic| xb_step) => `(tactic| with_reducible exact xb_Comm.appendChild _ _)

theorem xb_Comm.insertBefore (p : Nat) (v1 : Option Nat) (ins : Nat) : xb_Comm o i rm (insertBefore p v1 ins) := by
  unfold GM.Blocks.insertBefore
  xb_comm
macro_rules | `(tactic| xb_step) => `(tactic| with_reducible exact xb_Comm.insertBefore _ _ _)

theorem xb_Comm.nextSibling (c : Nat) : xb_Comm o i rm (nextSibling c) := by
  unfold GM.Blocks.nextSibling
  xb_comm
macro_rules | `(tactic| xb_step) => `(tactic| with_reducible exact xb_Comm.nextSibling _)

theorem xb_Comm.insertAfter (p : Nat) (v1 : Option Nat) (ins : Nat) : xb_Comm o i rm (insertAfter p v1 ins) := by
  unfold GM.Blocks.insertAfter
  xb_comm
macro_rules | `(tactic| xb_step) => `(tactic| with_reducible exact xb_Comm.insertAfter _ _ _)

theorem xb_Comm.replaceChild (p v1 ins : Nat) : xb_Comm o i rm (replaceChild p v1 ins) := by
  unfold GM.Blocks.replaceChild
  xb_comm
macro_rules | `(tactic| xb_step) => `(tactic| with_reducible exact xb_Comm.replaceChild _ _ _)

theorem xb_Comm.appendLine (id : Nat) (seg : Segment) : xb_Comm o i rm (appendLine id seg) := by
  unfold GM.Blocks.appendLine
  xb_comm
macro_rules | `(tactic| xb_step) => `(tactic| with_reducible exact xb_Comm.appendLine _ _)

/-! the `Close` functions -/

theorem xb_Comm.paragraphClose (node : Nat) : xb_Comm o i rm (paragraphClose node) := by
  unfold GM.Blocks.paragraphClose
  xb_comm

theorem xb_Comm.codeClose (node : Nat) : xb_Comm o i rm (codeClose node) := by
  unfold GM.Blocks.codeClose
  xb_comm

theorem xb_Comm.fencedClose (node : Nat) : xb_Comm o i rm (fencedClose node) := by
  unfold GM.Blocks.fencedClose
  xb_comm

theorem xb_Comm.setextClose (node : Nat) : xb_Comm o i rm (setextClose node) := by
  unfold GM.Blocks.setextClose
  xb_comm

theorem xb_Comm.tightenItem (child : Nat) (gcs : List Nat) : xb_Comm o i rm (tightenItem child gcs) := by
  induction gcs with
  | nil => unfold GM.Blocks.tightenItem; xb_comm
  | cons gc gcs ih => unfold GM.Blocks.tightenItem; xb_comm
macro_rules | `(tactic| xb_step) => `(tactic| with_reducible exact xb_Comm.tightenItem _ _)

theorem xb_Comm.tightenItems (l : List Nat) : xb_Comm o i rm (tightenItems l) := by
  induction l with
  | nil => unfold GM.Blocks.tightenItems; xb_comm
  | cons c l ih => unfold GM.Blocks.tightenItems; xb_comm
macro_rules | `(tactic| xb_step) => `(tactic| with_reducible exact xb_Comm.tightenItems _)

theorem xb_Comm.listClose (node : Nat) : xb_Comm o i rm (listClose node) := by
  unfold GM.Blocks.listClose
  xb_comm

theorem xb_Comm.bpClose (bp : BP) (node : Nat) : xb_Comm o i rm (bpClose bp node) := by
  cases bp <;> unfold GM.Blocks.bpClose <;>
    first
      | exact xb_Comm.pure _
      | exact xb_Comm.setextClose _
      | exact xb_Comm.listClose _
      | exact xb_Comm.codeClose _
      | exact xb_Comm.fencedClose _
      | exact xb_Comm.paragraphClose _
macro_rules | `(tactic| xb_step) => `(tactic| with_reducible exact xb_Comm.bpClose _ _)

theorem xb_Comm.closeLoop (blocks : List Block) (to : Int) (k : Nat) : xb_Comm o i rm (closeLoop blocks to k) := by
  induction k with
  | zero => unfold GM.Blocks.closeLoop; xb_comm
  | succ k ih => unfold GM.Blocks.closeLoop; xb_comm
macro_rules | `(tactic| xb_step) => `(tactic| with_reducible exact xb_Comm.closeLoop _ _ _)

theorem xb_Comm.closeBlocks (frm to : Int) : xb_Comm o i rm (closeBlocks frm to) := by
  unfold GM.Blocks.closeBlocks
  xb_comm

end comm

/-- `closeBlocks` does not look at BlockOffset / BlockIndent nor at the reader's caches (all ten parsers) -/
theorem closeBlocks_setBO (frm to : Int) (o i : Int) (s : St) (rm : Reader) (hrc : rm.source = s.r.source) :
    closeBlocks frm to { SetBO o i s with r := rm } =
      (closeBlocks frm to s).map (fun p => (p.1, { SetBO o i p.2 with r := rm })) :=
  (xb_Comm.closeBlocks frm to s hrc.symm).1

end GM.Blocks.Xs
