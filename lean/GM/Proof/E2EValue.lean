/-
  GM.Proof.E2EValue — the outcome `Err.value p` of `convertCore` (a `Segment.Value` slice / makeslice panic while the
  tree is handed to the node renderers) reduced to two explicit facts about the parse phases:

    * `RawSegsInRange src st` — in the block store: the lines of the raw blocks (CodeBlock / FencedCodeBlock / HTMLBlock, the
      only lines the renderer reads itself), a fenced block's info segment and an HTML block's closure line satisfy
      `0 ≤ start ≤ stop ≤ len(source)`, `padding ≥ 0` (`Spec.segInRange`; for lines this is C05(c)'s range clause,
      proved for the driver without transformers as GM.Props.Blocks.lines_in_range);
    * `InlineSegsUnpadded` — the segments the inline phase records never carry a negative padding (their RANGE is
      proved: GM.Props.Inlines.text_segments_in_range_and_ordered, under the `WF0` check `convertCore` makes).

  Given both, `Err.value p` is unreachable. Neither is proved here (see notes/status_e2e.md).
-/
import GM.Proof.E2ERender
import GM.Proof.InlinesLink
import GM.Proof.LinkRefTotal

namespace GM.E2E
open GM GM.Text GM.Convert GM.Spec GM.Inl GM.Proof.InlinesTotal GM.Proof.InlinesReader

theorem value_total {src : Bytes} {s : Segment} (h : segInRange src s) : ∃ v, s.value src = .ok v :=
  ⟨_, GM.Proof.Reader.value_spec src s h⟩

theorem segValues_total {src : Bytes} : ∀ (l : List Segment), (∀ s ∈ l, segInRange src s) → ∃ vs, segValues src l = .ok vs
  | [], _ => ⟨[], by unfold segValues; rfl⟩
  | s :: rest, h => by
    obtain ⟨v, hv⟩ := value_total (h s (by simp))
    obtain ⟨vs, hvs⟩ := segValues_total rest (fun t ht => h t (by simp [ht]))
    exact ⟨v :: vs, by unfold segValues; rw [hv, hvs]; rfl⟩

/-! ### inline nodes -/

mutual
theorem inlineTree_total {src : Bytes} : ∀ (n : Inl.Node), (∀ s ∈ segsOf n, segInRange src s) → ∃ t, inlineTree src n = .ok t
  | .text seg soft hard raw, h => by
    obtain ⟨v, hv⟩ := value_total (h seg (by simp [segsOf]))
    exact ⟨_, by unfold inlineTree; rw [hv]; rfl⟩
  | .codeSpan ks, h => by
    obtain ⟨ts, hts⟩ := inlineTrees_total ks (fun s hs => h s (by simpa [segsOf] using hs))
    exact ⟨_, by unfold inlineTree; rw [hts]; rfl⟩
  | .emphasis lv ks, h => by
    obtain ⟨ts, hts⟩ := inlineTrees_total ks (fun s hs => h s (by simpa [segsOf] using hs))
    exact ⟨_, by unfold inlineTree; rw [hts]; rfl⟩
  | .link im d ti ks, h => by
    obtain ⟨ts, hts⟩ := inlineTrees_total ks (fun s hs => h s (by simpa [segsOf] using hs))
    exact ⟨_, by unfold inlineTree; rw [hts]; rfl⟩
  | .autoLink email seg, h => by
    obtain ⟨v, hv⟩ := value_total (h seg (by simp [segsOf]))
    exact ⟨_, by unfold inlineTree; rw [hv]; rfl⟩
  | .rawHTML segs, h => by
    obtain ⟨vs, hvs⟩ := segValues_total segs (fun s hs => h s (by simpa [segsOf] using hs))
    exact ⟨_, by unfold inlineTree; rw [hvs]; rfl⟩
  | .delim .., _ => ⟨_, by unfold inlineTree; rfl⟩
  | .label .., _ => ⟨_, by unfold inlineTree; rfl⟩
theorem inlineTrees_total {src : Bytes} : ∀ (ks : List Inl.Node), (∀ s ∈ segsOfL ks, segInRange src s) →
    ∃ ts, inlineTrees src ks = .ok ts
  | [], _ => ⟨[], by unfold inlineTrees; rfl⟩
  | k :: rest, h => by
    obtain ⟨t, ht⟩ := inlineTree_total k (fun s hs => h s (by simp [segsOfL, hs]))
    obtain ⟨ts, hts⟩ := inlineTrees_total rest (fun s hs => h s (by simp [segsOfL, hs]))
    exact ⟨t :: ts, by unfold inlineTrees; rw [ht, hts]; rfl⟩
end

theorem chain_mem {lo hi : Int} : ∀ {l : List Segment}, chain lo hi l → ∀ s ∈ l, lo ≤ s.start ∧ s.start ≤ s.stop ∧ s.stop ≤ hi
  | [], _, s, hs => by cases hs
  | t :: rest, h, s, hs => by
    simp only [chain] at h
    rcases List.mem_cons.mp hs with rfl | hs'
    · have := chain_le h.2.2
      exact ⟨h.1, h.2.1, this⟩
    · have := chain_mem h.2.2 s hs'
      exact ⟨by omega, this.2.1, this.2.2⟩

/-- the segments the inline phase records never carry a negative padding (with `WF0` lines they are all 0).
    STATED, NOT PROVED: the range half is `GM.Props.Inlines.text_segments_in_range_and_ordered`. -/
def InlineSegsUnpadded : Prop :=
  ∀ (env : Env) (src : Bytes) (lines : List Segment) (kids : List Inl.Node), WF0 src lines →
    parseBlock env src lines = .ok kids → ∀ s ∈ segsOfL kids, 0 ≤ s.padding

/-- behind `convertCore`'s `WF0` check the inline children of a block resolve to bytes -/
theorem inlinePhase_values (hI : InlineSegsUnpadded) {env : Env} {src : Bytes} {n : GM.Blocks.Node} {kids : List Inl.Node}
    (h : inlinePhase true env src n = .ok kids) : ∃ ts, inlineTrees src kids = .ok ts := by
  unfold inlinePhase at h
  split at h
  · cases h; exact ⟨[], by unfold inlineTrees; rfl⟩
  · split at h
    · cases h; exact ⟨[], by unfold inlineTrees; rfl⟩
    · split at h
      · cases h
      · rename_i hg
        have hw : GM.LinkRef.wf0B src n.lines = true := by simpa using hg
        have hwf := GM.Proof.LinkRefTotal.wf0B_sound hw
        have hk := liftErr_ok h
        have hc := GM.Proof.InlinesLink.parseBlock_segments hwf.1 hwf.2 env hk
        apply inlineTrees_total
        intro s hs
        have := chain_mem hc s hs
        exact ⟨this.1, this.2.1, this.2.2, hI env src n.lines kids hwf hk s hs⟩

/-! ### block nodes -/

/-- the segments of a block node the renderer resolves itself are in range -/
structure RawSegsP (src : Bytes) (n : GM.Blocks.Node) : Prop where
  lines : isRawKind n.kind = true → ∀ s ∈ n.lines, segInRange src s
  info : n.kind = .fencedCodeBlock → ∀ s, n.info = some s → segInRange src s
  closure : n.kind = .htmlBlock → n.closure.start ≥ 0 → segInRange src n.closure

def RawSegsInRange (src : Bytes) (st : GM.Blocks.St) : Prop := ∀ n ∈ st.nodes, RawSegsP src n

theorem rawSegsP_default (src : Bytes) : RawSegsP src (default : GM.Blocks.Node) :=
  ⟨fun h => (by cases h), fun h => (by cases h), fun h => (by cases h)⟩

theorem rawSegs_getD {src : Bytes} {s : GM.Blocks.St} (h : RawSegsInRange src s) (i : Nat) :
    RawSegsP src (s.nodes.getD i default) := by
  by_cases hlt : i < s.nodes.length
  · have : s.nodes.getD i default = s.nodes[i] := by simp [List.getD, hlt]
    rw [this]; exact h _ (List.getElem_mem hlt)
  · have : s.nodes.getD i default = default := by
      simp [List.getD, List.getElem?_eq_none (Nat.le_of_not_lt hlt)]
    rw [this]; exact rawSegsP_default src

theorem blockKind_total {src : Bytes} {n : GM.Blocks.Node} (h : RawSegsP src n) : ∃ k, blockKind src n = .ok k := by
  unfold blockKind
  split
  all_goals first
    | exact ⟨_, rfl⟩
    | skip
  · rename_i hk
    obtain ⟨vs, hvs⟩ := segValues_total n.lines (h.lines (by rw [hk]; rfl))
    exact ⟨_, by simp [bind, Except.bind, hvs, pure, Except.pure] <;> rfl⟩
  · rename_i hk
    obtain ⟨vs, hvs⟩ := segValues_total n.lines (h.lines (by rw [hk]; rfl))
    cases hi : n.info with
    | none => exact ⟨_, by simp [bind, Except.bind, hvs, pure, Except.pure] <;> rfl⟩
    | some s =>
      obtain ⟨v, hv⟩ := value_total (h.info hk s hi)
      exact ⟨_, by simp [bind, Except.bind, hvs, hv, pure, Except.pure] <;> rfl⟩
  · rename_i hk
    obtain ⟨vs, hvs⟩ := segValues_total n.lines (h.lines (by rw [hk]; rfl))
    by_cases hc : n.closure.start ≥ 0
    · obtain ⟨v, hv⟩ := value_total (h.closure hk hc)
      exact ⟨_, by simp [bind, Except.bind, hvs, hv, hc, pure, Except.pure] <;> rfl⟩
    · exact ⟨_, by simp [bind, Except.bind, hvs, hc, pure, Except.pure] <;> rfl⟩

/-- the error is a `Segment.Value` panic -/
def Err.isValue : Err → Bool
  | .value _ => true
  | _ => false

mutual
theorem docTree_noValue (hI : InlineSegsUnpadded) (env : Env) (src : Bytes) : ∀ (t : GM.Blocks.Tree) (e : Err),
    treeAll (RawSegsP src) t → docTree true env src t = .error e → Err.isValue e = false
  | .node n cs, e, ha, h => by
    simp only [treeAll] at ha
    unfold docTree at h
    simp only [bind, Except.bind] at h
    cases h1 : docTrees true env src cs with
    | error e1 => rw [h1] at h; cases h; exact docTrees_noValue hI env src cs _ ha.2 h1
    | ok bs =>
      rw [h1] at h
      simp only at h
      cases h2 : inlinePhase true env src n with
      | error e2 =>
        rw [h2] at h; cases h
        unfold inlinePhase at h2
        split at h2
        · cases h2
        · split at h2
          · cases h2
          · split at h2
            · cases h2; rfl
            · obtain ⟨p, rfl⟩ := liftErr_err h2; rfl
      | ok kids =>
        rw [h2] at h
        simp only at h
        obtain ⟨is, his⟩ := inlinePhase_values hI h2
        rw [his] at h
        simp only [liftErr] at h
        obtain ⟨k, hk⟩ := blockKind_total ha.1
        rw [hk] at h
        cases h
theorem docTrees_noValue (hI : InlineSegsUnpadded) (env : Env) (src : Bytes) : ∀ (ts : List GM.Blocks.Tree) (e : Err),
    treesAll (RawSegsP src) ts → docTrees true env src ts = .error e → Err.isValue e = false
  | [], e, _, h => by unfold docTrees at h; cases h
  | t :: rest, e, ha, h => by
    simp only [treesAll] at ha
    unfold docTrees at h
    simp only [bind, Except.bind] at h
    cases h1 : docTree true env src t with
    | error e1 => rw [h1] at h; cases h; exact docTree_noValue hI env src t _ ha.1 h1
    | ok x =>
      rw [h1] at h
      simp only at h
      cases h2 : docTrees true env src rest with
      | error e2 => rw [h2] at h; cases h; exact docTrees_noValue hI env src rest _ ha.2 h2
      | ok xs => rw [h2] at h; cases h
end

/-- `Err.value p` is unreachable once the two facts about the parse phases hold -/
theorem convertCore_noValue (hI : InlineSegsUnpadded) (uc : List (Nat × (Bool × Bool))) (o : ROpts) (src : Bytes)
    (hB : ∀ st, blockPhase true src = .ok st → RawSegsInRange src st) (p : Panic) :
    convertCore uc o src ≠ .error (.value p) := by
  intro h
  unfold convertCore at h
  cases hp : parseDoc true uc src with
  | ok t => rw [convertWith_of_tree o hp] at h; cases h
  | error e =>
    rw [convertWith_of_err o hp] at h
    cases h
    unfold parseDoc at hp
    simp only [bind, Except.bind] at hp
    cases hb : blockPhase true src with
    | error q => rw [hb] at hp; simp only [liftErr] at hp; cases hp
    | ok st =>
      rw [hb] at hp
      simp only [liftErr] at hp
      have := docTree_noValue hI _ src _ _ (treeOf_all st.nodes (rawSegs_getD (hB st hb)) _ _) hp
      simp [Err.isValue] at this

end GM.E2E
