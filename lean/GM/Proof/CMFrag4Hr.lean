/-
  GM.Proof.CMFrag4Hr — stage 4: a thematic break line with nothing open; a blank line / the end of the source behind
  a leaf block that closes at once (ATX heading, thematic break).
-/
import GM.Proof.CMFrag4Defs
import GM.Proof.CMFragLoop

namespace GM.Proof.CMFrag
open GM GM.Text GM.Blocks GM.Spec

/-- the characters of a thematic break -/
def hrChar (ch : UInt8) : Prop := ch = 42 ∨ ch = 45 ∨ ch = 95

theorem tbLoop_run (ch : UInt8) (hch : hrChar ch) : ∀ (m cnt : Nat),
    tbLoop (List.replicate m ch ++ [10]) ch cnt = decide (cnt + m > 2)
  | 0, cnt => by
    have h10 : isSpace 10 = true := by decide
    simp [tbLoop, h10]
  | m + 1, cnt => by
    have ih := tbLoop_run ch hch m (cnt + 1)
    have hsp : isSpace ch = false := by rcases hch with h | h | h <;> subst h <;> decide
    have h0 : (ch == 0) = false := by rcases hch with h | h | h <;> subst h <;> decide
    simp only [List.replicate_succ, List.cons_append, tbLoop, hsp, h0, Bool.false_eq_true, if_false, bne_self_eq_false, ih]
    congr 1
    simp only [eq_iff_iff]; omega

theorem isThematic_hr (ch : UInt8) (hch : hrChar ch) (n : Nat) :
    isThematicBreak (List.replicate (n + 3) ch ++ [10]) 0 = true := by
  have hsp : (ch == 32) = false ∧ (ch == 9) = false ∧ isSpace ch = false ∧ (ch == 42 || ch == 45 || ch == 95) = true := by
    rcases hch with h | h | h <;> subst h <;> decide
  obtain ⟨h32, h9, hs, hset⟩ := hsp
  have hiw : indentWidthI (List.replicate (n + 3) ch ++ [10]) 0 = (0, 0) := by
    simp only [List.replicate_succ, List.cons_append]
    unfold GM.Blocks.indentWidthI GM.Blocks.indentWidthGo; simp [h32, h9]
  unfold isThematicBreak
  simp only [hiw]
  have e : (List.replicate (n + 3) ch ++ [10]).drop (0 : Int).toNat = ch :: (List.replicate (n + 2) ch ++ [10]) := by
    simp [List.replicate_succ]
  rw [e]
  have := tbLoop_run ch hch (n + 2) 1
  simp only [tbLoop, hs, hset, Bool.false_eq_true, if_false, beq_self_eq_true, if_true, this]
  simp; omega

section hr
variable {src : Bytes} {p e : Nat} {v : Bytes}

/-- thematicBreakParser.Open on a thematic break line (already peeked) -/
theorem thematicOpen_hr (hl : Ln src p e v) (ch : UInt8) (hch : hrChar ch) (n : Nat)
    (hv : v = List.replicate (n + 3) ch ++ [10]) (k : Int) (nodes pc) (parent : Nat) :
    thematicOpen parent ⟨rdr src k p p e (some v) 0, nodes, pc⟩ =
      .ok ((some nodes.length, stNoChildren),
        ⟨rdr src k p (e - 1) e none (-1), nodes ++ [{ kind := .thematicBreak }], pc⟩) := by
  have hp : p < src.length := by have := hl.le; have := hl.lt; omega
  have hth : isThematicBreak v 0 = true := by rw [hv]; exact isThematic_hr ch hch n
  unfold thematicOpen
  simp only [bind_apply, peekLine_cached hp, lineOffset_cached, Option.getD_some, hth, if_true]
  have hlen := hl.len
  have hlt := hl.lt
  rw [stAdvance_fast (m := e - p - 1) (by simp [Segment.len, sg]; omega) (by omega)]
  have e3 : p + (e - p - 1) = e - 1 := by omega
  simp [bind_apply, newNode_run, pure_apply, e3]

/-- openBlocks on a thematic break line with nothing open -/
theorem openBlocks_hr (hl : Ln src p e v) (ch : UInt8) (hch : hrChar ch) (n : Nat)
    (hv : v = List.replicate (n + 3) ch ++ [10]) (pts : List PT) (k : Int)
    (d : Blocks.Node) (rest : List Blocks.Node) (pc : Ctx) (hop : pc.opened = []) (blank : Bool) (pk : Option Bytes)
    (hpk : pk = none ∨ pk = some v) :
    openBlocksT pts 0 blank ⟨rdr src k p p e pk (-1), d :: rest, pc⟩ =
      .ok (.newBlocksOpened,
        ⟨rdr src k p (e - 1) e none (-1),
          { d with children := d.children ++ [rest.length + 1] } :: (rest ++ [hrN blank]),
          { pc with blockOffset := 0, blockIndent := 0, opened := [{ node := rest.length + 1, bp := .thematic }] }⟩) := by
  have hp : p < src.length := by have := hl.le; have := hl.lt; omega
  have hfacts : (ch == 32) = false ∧ (ch == 9) = false ∧ (ch == 10) = false := by
    rcases hch with h | h | h <;> subst h <;> decide
  obtain ⟨h32, h9, h10⟩ := hfacts
  have hiw : indentWidthI v 0 = (0, 0) := by
    rw [hv]; simp only [List.replicate_succ, List.cons_append]
    unfold GM.Blocks.indentWidthI GM.Blocks.indentWidthGo; simp [h32, h9]
  have hpeek : ∀ nodes pc', peekLine ⟨rdr src k p p e pk (-1), nodes, pc'⟩ =
      .ok ((some v, sg p e), ⟨rdr src k p p e (some v) (-1), nodes, pc'⟩) := by
    intro nodes pc'
    rcases hpk with h | h
    · subst h; exact peekLine_fresh hl.sub hp (Nat.le_of_lt hl.lt) hl.le ..
    · subst h; exact peekLine_cached hp ..
  have hlen : ¬ ((0 : Int) ≥ (v.length : Int)) := by have := hl.len; have := hl.lt; omega
  have hlen' : (0 : Int) < (v.length : Int) := by omega
  have hidx : idx v 0 = .ok ch := by rw [hv]; simp only [List.replicate_succ, List.cons_append]; rfl
  have hto := thematicOpen_hr hl ch hch n hv k
  unfold openBlocksT
  simp only [bind_apply, lastOpenedBlock_run, hop, List.getLast?_nil, pure_apply, source_run, retryFuel]
  rw [openBlocksLoopT]
  simp only [bind_apply, hpeek, Option.getD_some, lineOffset_fresh, hiw]
  simp only [modPc_run, hlen, if_false, Option.isNone_some, Bool.false_eq_true, bind_apply, hidx, liftE_ok, h10, hlen',
    if_true, pure_apply]
  unfold retryStepT
  simp only [bind_apply, get_run]
  rcases hch with h | h | h <;> subst h
  · have ht : (triggered 42).getD freeParsers = [.thematic, .list, .listItem, .code, .paragraph] := by decide
    rw [ht, tryParsersT]
    simp [bind_apply, lastOpenedBlock_run, hop, bpOpen, hto, BP.canAcceptIndentedLine, pure_apply, stNoChildren,
      modNode_run, appendChild, ensureIsolated, getNode_run, map_apply, modPc_run, toContinuable, hrN]
  · have ht : (triggered 45).getD freeParsers = [.setext, .thematic, .list, .listItem, .code, .paragraph] := by decide
    rw [ht, tryParsersT]
    simp [bind_apply, lastOpenedBlock_run, hop, bpOpen, setextOpen, BP.canAcceptIndentedLine, pure_apply]
    rw [tryParsersT]
    simp [bind_apply, lastOpenedBlock_run, hop, bpOpen, hto, BP.canAcceptIndentedLine, pure_apply, stNoChildren,
      modNode_run, appendChild, ensureIsolated, getNode_run, map_apply, modPc_run, toContinuable, hrN]
  · have ht : (triggered 95).getD freeParsers = [.thematic, .code, .paragraph] := by decide
    rw [ht, tryParsersT]
    simp [bind_apply, lastOpenedBlock_run, hop, bpOpen, hto, BP.canAcceptIndentedLine, pure_apply, stNoChildren,
      modNode_run, appendChild, ensureIsolated, getNode_run, map_apply, modPc_run, toContinuable, hrN]
end hr

/-! ### behind a leaf block that closes on the next line -/

/-- parsers whose `Continue` answers Close and whose `Close` does nothing: ATX heading, thematic break -/
def closingBP (bp : BP) : Prop := bp = .atx ∨ bp = .thematic

section leaf
variable {src : Bytes}

theorem closeBlocks_leaf (bp : BP) (hbp : closingBP bp) (r : Reader) (d : Blocks.Node) (rest : List Blocks.Node)
    (x : Blocks.Node) (hk : x.kind ≠ .paragraph) (hpar : x.parent = some 0) (pc : Ctx)
    (hop : pc.opened = [{ node := rest.length + 1, bp := bp }]) :
    closeBlocksT pts 0 0 ⟨r, d :: (rest ++ [x]), pc⟩ = .ok ((), ⟨r, d :: (rest ++ [x]), { pc with opened := [] }⟩) := by
  unfold closeBlocksT
  simp only [bind_apply, getPc_run, hop]
  have e1 : ((0 : Int) - 0 + 1).toNat = 1 := by decide
  rw [e1, closeLoopT, closeLoopT]
  have e2 : ∀ blk : Block, blockAt [blk] (0 + ((0 : Nat) : Int)) = .ok blk := by intro blk; simp [blockAt]
  have hk' : (x.kind == .paragraph) = false := by simp [hk]
  have hc : bpClose bp (rest.length + 1) = (pure () : M Unit) := by
    rcases hbp with h | h <;> subst h <;> rfl
  simp only [bind_apply, e2, liftE_ok, getNode_run, getD_last, hk', hpar, Bool.false_and, Bool.false_eq_true, if_false,
    pure_apply, Option.isSome_some, if_true, hc]
  simp [closeBlocks.slice', liftE_ok, bind_apply, modPc_run, pure_apply]

theorem lineLoop_leaf_eof (bp : BP) (hbp : closingBP bp) (k : Int) (e : Nat) (d : Blocks.Node) (rest : List Blocks.Node)
    (x : Blocks.Node) (hk : x.kind ≠ .paragraph) (hpar : x.parent = some 0) (pc : Ctx)
    (hop : pc.opened = [{ node := rest.length + 1, bp := bp }]) (bl : List LineStat) :
    lineLoopT pts 0 [{ node := rest.length + 1, bp := bp }] 0 [{ node := rest.length + 1, bp := bp }] 0 bl
        ⟨rdr src k src.length src.length e none (-1), d :: (rest ++ [x]), pc⟩ =
      .ok ((.eof, bl), ⟨rdr src (k + 1) e e (lineEnd src e) none (-1), d :: (rest ++ [x]), { pc with opened := [] }⟩) := by
  rw [lineLoopT]
  simp only [bind_apply, peekLine_eof (Nat.le_refl _), closeBlocks_leaf bp hbp _ d rest x hk hpar pc hop,
    advanceLine_run, pure_apply]

theorem lineLoop_leaf_blank (bp : BP) (hbp : closingBP bp) {q : Nat} (hl : Ln src q (q + 1) [10]) (k : Int)
    (d : Blocks.Node) (rest : List Blocks.Node) (x : Blocks.Node) (hk : x.kind ≠ .paragraph) (hpar : x.parent = some 0)
    (pc : Ctx) (hop : pc.opened = [{ node := rest.length + 1, bp := bp }]) (bl : List LineStat) :
    lineLoopT pts 0 [{ node := rest.length + 1, bp := bp }] 0 [{ node := rest.length + 1, bp := bp }] 0 bl
        ⟨rdr src k q q (q + 1) none (-1), d :: (rest ++ [x]), pc⟩ =
      .ok ((.next, bl ++ [{ lineNum := k, level := 0, isBlank := true }]),
        ⟨rdr src k q q (q + 1) (some [10]) 0, d :: (rest ++ [x]),
          { pc with blockOffset := 0, blockIndent := 0, opened := [] }⟩) := by
  have hp : q < src.length := by have := hl.le; omega
  have hk' : (x.kind == .paragraph) = false := by simp [hk]
  have hk'' : (x.kind != .paragraph) = true := by simp [hk]
  have hcont : ∀ s : St, bpContinue bp (rest.length + 1) s = .ok (stClose, s) := by
    intro s; rcases hbp with h | h <;> subst h <;> rfl
  have hob : openBlocksT pts 0 (isBlankLine (k - 1) 0 (bl ++ [{ lineNum := k, level := 0, isBlank := true }]))
      ⟨rdr src k q q (q + 1) (some [10]) (-1), d :: (rest ++ [x]), pc⟩ =
      .ok (.noBlocksOpened, ⟨rdr src k q q (q + 1) (some [10]) 0, d :: (rest ++ [x]),
        { pc with blockOffset := 0, blockIndent := 0 }⟩) := by
    unfold openBlocksT
    simp only [bind_apply, lastOpenedBlock_run, hop, List.getLast?_singleton, pure_apply, source_run, retryFuel,
      getNode_run, getD_last, hk']
    rw [openBlocksLoopT]
    have hiw : indentWidthI [10] 0 = (0, 0) := by decide
    simp only [bind_apply, peekLine_cached hp, Option.getD_some, lineOffset_fresh, hiw]
    have hidx : idx [10] 0 = .ok 10 := rfl
    simp [modPc_run, bind_apply, hidx, liftE_ok, toContinuable, pure_apply, hop]
  rw [lineLoopT]
  simp only [bind_apply, peekLine_fresh hl.sub hp (Nat.le_succ _) hl.le, position_run, getNode_run, getD_last, hk'',
    if_true, hcont, stClose]
  have hib : isBlank [10] = true := by decide
  simp [liftE_ok, hib, rdr_line, hob, pure_apply, getPc_run, hop, slotAfter, bind_apply, map_apply, blockAt]
  rw [closeBlocks_leaf bp hbp _ d rest x hk hpar
    { pc with blockOffset := 0, blockIndent := 0, opened := [{ node := rest.length + 1, bp := bp }] } rfl]

/-- the per-line loop behind a leaf block: the next line is blank or the source ends -/
theorem linesLoop_leaf (bp : BP) (hbp : closingBP bp) (d : Blocks.Node) (rest : List Blocks.Node) (x : Blocks.Node)
    (hk : x.kind ≠ .paragraph) (hpar : x.parent = some 0) (q : Nat) (k : Int) (fuel : Nat) (bl : List LineStat)
    (pc : Ctx) (haft : After src q) (hf : 2 ≤ fuel) (hop : pc.opened = [{ node := rest.length + 1, bp := bp }]) :
    ∃ ret bl' s',
      linesLoopT pts 0 fuel bl ⟨rdr src k q q (lineEnd src q) none (-1), d :: (rest ++ [x]), pc⟩ = .ok ((ret, bl'), s') ∧
        s'.nodes = d :: (rest ++ [x]) ∧ s'.pc.opened = [] ∧ s'.pc.refs = pc.refs ∧
        ((ret = true ∧ q = src.length) ∨
         (ret = false ∧ Ln src q (q + 1) [10] ∧
            ∃ k', s'.r = rdr src k' (q + 1) (q + 1) (lineEnd src (q + 1)) none (-1))) := by
  obtain ⟨f, rfl⟩ : ∃ f, fuel = f + 1 := ⟨fuel - 1, by omega⟩
  have e1 : (((1 : Nat) : Int) - 1) = 0 := by decide
  have e0 : ((1 : Nat) == 0) = false := rfl
  rcases haft with hq | hl
  · refine ⟨true, bl, ⟨rdr src (k + 1) (lineEnd src src.length) (lineEnd src src.length)
        (lineEnd src (lineEnd src src.length)) none (-1), d :: (rest ++ [x]), { pc with opened := [] }⟩,
      ?_, rfl, rfl, rfl, Or.inl ⟨rfl, hq⟩⟩
    rw [linesLoopT]
    simp only [bind_apply, getPc_run, hop, List.length_singleton, e1, e0, Bool.false_eq_true, if_false]
    rw [hq]
    simp only [lineLoop_leaf_eof bp hbp k _ d rest x hk hpar pc hop bl, pure_apply]
  · obtain ⟨f', rfl⟩ : ∃ f', f = f' + 1 := ⟨f - 1, by omega⟩
    refine ⟨false, bl ++ [{ lineNum := k, level := 0, isBlank := true }],
      ⟨rdr src (k + 1) (q + 1) (q + 1) (lineEnd src (q + 1)) none (-1), d :: (rest ++ [x]),
        { pc with blockOffset := 0, blockIndent := 0, opened := [] }⟩, ?_, rfl, rfl, rfl, Or.inr ⟨rfl, hl, k + 1, rfl⟩⟩
    rw [linesLoopT]
    simp only [bind_apply, getPc_run, hop, List.length_singleton, e1, e0, Bool.false_eq_true, if_false]
    rw [hl.lineEnd]
    simp only [lineLoop_leaf_blank bp hbp hl k d rest x hk hpar pc hop bl, bind_apply, advanceLine_run]
    rw [linesLoopT]
    simp [bind_apply, getPc_run, pure_apply]
end leaf

end GM.Proof.CMFrag
