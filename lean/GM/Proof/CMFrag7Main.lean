/-
  GM.Proof.CMFrag7Main — stage 7: the source of a stage-6 document WITHOUT its final line feed, the block phase on it,
  and the phases composed.
-/
import GM.Proof.CMFrag7Run
import GM.Proof.CMFrag7Leaf
import GM.Proof.CMFrag7Inl
import GM.Proof.CMFrag6Main
import GM.Proof.CMFragSpec7

namespace GM.Proof.CMFrag
open GM GM.Text GM.Blocks GM.Spec

/-! ### the source -/

theorem lineLen_noNl (l : Bytes) (h : ∀ c ∈ l, c ≠ 10) : lineLen l = l.length := by
  induction l with
  | nil => rfl
  | cons c t ih =>
    have hc : (c == 10) = false := by simp [h c (by simp)]
    simp only [lineLen, hc, Bool.false_eq_true, if_false, List.length_cons, ih (fun x hx => h x (by simp [hx]))]
    omega

theorem lastLn_src (pre l : Bytes) (hne : l ≠ []) (h : ∀ c ∈ l, c ≠ 10) : LastLn (pre ++ l) pre.length l := by
  have hl : 0 < l.length := List.length_pos_iff.mpr hne
  refine ⟨⟨?_, by omega, by simp, ?_, by omega⟩, by simp⟩
  · have := sub_body pre l []
    simpa using this
  · unfold lineEnd
    rw [if_pos (by simp), List.drop_left, lineLen_noNl l h]

theorem paraAtE_src : ∀ (ls : List Bytes) (pre : Bytes), ls ≠ [] → (∀ l, ls.getLast? = some l → l ≠ []) →
    (∀ l ∈ ls, ∀ c ∈ l, c ≠ 10) → ParaAtE (pre ++ paraBytesE ls) pre.length ls
  | [], _, h, _, _ => absurd rfl h
  | [l], pre, _, hl, h => by
    have := lastLn_src pre l (hl l rfl) (h l (by simp))
    exact ⟨this.ln, this.eof⟩
  | l :: l' :: rest, pre, _, hl, h => by
    have e : pre ++ paraBytesE (l :: l' :: rest) = pre ++ (l ++ 10 :: paraBytesE (l' :: rest)) := by simp [paraBytesE]
    have e2 : pre ++ paraBytesE (l :: l' :: rest) = (pre ++ (l ++ [10])) ++ paraBytesE (l' :: rest) := by simp [paraBytesE]
    have h1 := Ln.of_append pre l (paraBytesE (l' :: rest)) (h l (by simp))
    have h2 := paraAtE_src (l' :: rest) (pre ++ (l ++ [10])) (by simp)
      (fun x hx => hl x (by rw [List.getLast?_cons_cons]; exact hx)) (fun x hx => h x (by simp [hx]))
    refine ⟨by rw [e]; exact h1, ?_⟩
    rw [e2]
    have : (pre ++ (l ++ [10])).length = pre.length + l.length + 1 := by simp; omega
    rw [this] at h2; exact h2

/-- the source of a stage-6 document without the final line feed (no trailing blank lines) -/
def rawDoc6E : List (Nat × Raw5) → Bytes
  | [] => []
  | [(s, b)] => blanks s ++ paraBytesE (lines5 b)
  | (s, b) :: it :: rest => blanks s ++ (paraBytes (lines5 b) ++ rawDoc6E (it :: rest))

theorem docAt6E_raw : ∀ (items : List (Nat × Raw5)) (pre : Bytes), items ≠ [] →
    (∀ it ∈ items, lines5 it.2 ≠ [] ∧ (∀ l, (lines5 it.2).getLast? = some l → l ≠ []) ∧ ∀ l ∈ lines5 it.2, ∀ c ∈ l, c ≠ 10) →
    DocAt6E (pre ++ rawDoc6E items) pre.length items 0
  | [], _, h, _ => absurd rfl h
  | [(s, b)], pre, _, hno => by
    have hb := blanksAt_append s pre (paraBytesE (lines5 b))
    have e1 : pre ++ rawDoc6E [(s, b)] = (pre ++ blanks s) ++ paraBytesE (lines5 b) := by simp [rawDoc6E]
    have l1 : (pre ++ blanks s).length = pre.length + s := by simp [blanks]
    have hp := paraAtE_src (lines5 b) (pre ++ blanks s) (hno (s, b) (by simp)).1 (hno (s, b) (by simp)).2.1
      (hno (s, b) (by simp)).2.2
    rw [l1] at hp
    exact ⟨rfl, by rw [show rawDoc6E [(s, b)] = blanks s ++ paraBytesE (lines5 b) from rfl]; exact hb, by rw [e1]; exact hp⟩
  | (s, b) :: it :: rest, pre, _, hno => by
    have hb := blanksAt_append s pre (paraBytes (lines5 b) ++ rawDoc6E (it :: rest))
    have e1 : pre ++ rawDoc6E ((s, b) :: it :: rest) =
        (pre ++ blanks s) ++ (paraBytes (lines5 b) ++ rawDoc6E (it :: rest)) := by simp [rawDoc6E]
    have l1 : (pre ++ blanks s).length = pre.length + s := by simp [blanks]
    have hp := paraAt_src (lines5 b) (pre ++ blanks s) (rawDoc6E (it :: rest))
      (hno (s, b) (by simp)).2.2
    rw [l1] at hp
    have e2 : pre ++ rawDoc6E ((s, b) :: it :: rest) =
        (pre ++ blanks s ++ paraBytes (lines5 b)) ++ rawDoc6E (it :: rest) := by simp [rawDoc6E]
    have l2 : (pre ++ blanks s ++ paraBytes (lines5 b)).length = pre.length + s + (paraBytes (lines5 b)).length := by
      simp [blanks]; omega
    have ih := docAt6E_raw (it :: rest) (pre ++ blanks s ++ paraBytes (lines5 b)) (by simp)
      (fun x hx => hno x (by simp [hx]))
    rw [l2] at ih
    exact ⟨by rw [show rawDoc6E ((s, b) :: it :: rest) = blanks s ++ (paraBytes (lines5 b) ++ rawDoc6E (it :: rest)) from rfl]; exact hb,
      by rw [e1]; exact hp, by rw [e2]; exact ih⟩

theorem nl_paraE : ∀ (ls : List Bytes), ls ≠ [] → (∀ l ∈ ls, ∀ c ∈ l, c ≠ 10) → nl (paraBytesE ls) + 1 = ls.length
  | [], h, _ => absurd rfl h
  | [l], _, h => by simp [paraBytesE, nl_line l (h l (by simp))]
  | l :: l' :: rest, _, h => by
    have ih := nl_paraE (l' :: rest) (by simp) (fun x hx => h x (by simp [hx]))
    have e : paraBytesE (l :: l' :: rest) = l ++ (10 :: paraBytesE (l' :: rest)) := by simp [paraBytesE]
    rw [e, nl_append, nl_cons10, nl_line l (h l (by simp))]
    simp only [List.length_cons] at ih ⊢
    omega

theorem left6E_nl : ∀ (items : List (Nat × Raw5)), items ≠ [] →
    (∀ it ∈ items, lines5 it.2 ≠ [] ∧ (∀ l, (lines5 it.2).getLast? = some l → l ≠ []) ∧ ∀ l ∈ lines5 it.2, ∀ c ∈ l, c ≠ 10) →
    left6 items 0 = nl (rawDoc6E items) + 1
  | [], h, _ => absurd rfl h
  | [(s, b)], _, hno => by
    have hp := nl_paraE (lines5 b) (hno (s, b) (by simp)).1 (hno (s, b) (by simp)).2.2
    simp only [left6, rawDoc6E, nl_append, nl_blanks]
    omega
  | (s, b) :: it :: rest, _, hno => by
    have ih := left6E_nl (it :: rest) (by simp) (fun x hx => hno x (by simp [hx]))
    have hp := nl_para (lines5 b) (hno (s, b) (by simp)).2.2
    simp only [left6] at ih ⊢
    simp only [rawDoc6E, nl_append, nl_blanks, hp]
    omega

/-! ### the block phase -/

theorem runT_doc7 (HA : AtxOpenE) (HH : HrOpenE) (HX : FenceCloseE) (items : List (Nat × Raw5)) (hne : items ≠ [])
    (hgood : ∀ it ∈ items, Good5 it.2) (hseps : SepsOK6 none items) (hic : IcOK6 false items)
    (hno : ∀ it ∈ items, lines5 it.2 ≠ [] ∧ (∀ l, (lines5 it.2).getLast? = some l → l ≠ []) ∧
      ∀ l ∈ lines5 it.2, ∀ c ∈ l, c ≠ 10) :
    ∃ s' bs, runT pts (rawDoc6E items) = .ok s' ∧ bs.length = items.length ∧
      s'.nodes = addKids { kind := .document } 0 items.length ::
        mkNodes5L node5E (closedOf6 0 items) (items.map (·.2)) bs ∧ s'.pc.refs = [] := by
  have hd := docAt6E_raw items [] hne hno
  simp only [List.nil_append, List.length_nil] at hd
  have hl := left6E_nl items hne hno
  have hf : left6 items 0 + 2 ≤ linesFuel (rawDoc6E items) := by
    simp only [linesFuel, lineCount]
    have : nl (rawDoc6E items) = (List.filter (fun x => x == 10) (rawDoc6E items)).length := rfl
    omega
  obtain ⟨s', bs, h1, h2, h3, h4⟩ :=
    (claim7_all (src := rawDoc6E items) HA HH HX items hne).1 0 0 0 (linesFuel (rawDoc6E items)) []
      { kind := .document } [] ({ } : Ctx) hd hgood hseps hic hf rfl
  refine ⟨s', bs, ?_, h2, by simpa using h3, h4⟩
  unfold runT parseBlocksT
  simp only [bind_apply, modPc_run, source_run, initSt, reader_new, rdr_source]
  simp only [h1]
  rfl

/-! ### the inline phase and the renderer's view, from positional facts -/

theorem wfFrom_linesE {src : Bytes} : ∀ (ls : List Bytes) (p : Nat) (lo : Int), lo ≤ p → LinesAtE src p ls →
    (∀ l ∈ ls, l ≠ []) → GM.LinkRef.wfSegsFromB src lo (paraSegs p ls) = true
  | [], _, _, _, _, _ => rfl
  | [l], p, lo, hlo, h, hne => by
    have hle := h.2
    have hl : 0 < l.length := List.length_pos_iff.mpr (hne l (by simp))
    simp only [paraSegs, GM.LinkRef.wfSegsFromB, Bool.and_eq_true, decide_eq_true_eq, Bool.not_eq_true', Bool.and_true]
    refine ⟨⟨⟨⟨hlo, by omega⟩, by omega⟩, by omega⟩, ?_⟩
    first | trivial | rfl
  | l :: l' :: rest, p, lo, hlo, h, hne => by
    have hle := h.2.1
    have ih := wfFrom_linesE (l' :: rest) (p + l.length + 1) ((p : Int) + (l.length : Int) + 1) (by omega) h.2.2
      (fun x hx => hne x (by simp [hx]))
    simp only [paraSegs, GM.LinkRef.wfSegsFromB, Bool.and_eq_true, decide_eq_true_eq, Bool.not_eq_true'] at ih ⊢
    refine ⟨⟨⟨⟨⟨hlo, by omega⟩, by omega⟩, by omega⟩, ?_⟩, ih⟩
    first | trivial | rfl

theorem wf0B_linesE {src : Bytes} (ls : List Bytes) (p : Nat) (hne : ls ≠ []) (h : LinesAtE src p ls)
    (hl : ∀ l ∈ ls, l ≠ []) : GM.LinkRef.wf0B src (paraSegs p ls) = true := by
  have h1 := wfFrom_linesE ls p 0 (by omega) h hl
  have h2 := pad0_para ls p
  have h3 : (paraSegs p ls).isEmpty = false := by
    cases ls with
    | nil => exact absurd rfl hne
    | cons l rest => cases rest <;> simp [paraSegs]
  simp [GM.LinkRef.wf0B, GM.LinkRef.wfSegsB, h1, h2, h3]

theorem text_valueE {src : Bytes} {p : Nat} {l : Bytes} (hs : sub src p (p + l.length) = l) (hle : p + l.length ≤ src.length) :
    Segment.value { start := (p : Int), stop := (p : Int) + (l.length : Int) } src = .ok l := by
  rw [value_plain, sliceB_nat src p l.length hle, hs]

theorem inlineTrees_linesE {src : Bytes} : ∀ (ls : List Bytes) (p : Nat), LinesAtE src p ls →
    GM.Convert.inlineTrees src (paraKids p ls) = .ok (textNodes ls)
  | [], _, _ => rfl
  | [l], p, h => by
    simp only [paraKids, GM.Convert.inlineTrees, GM.Convert.inlineTree, text_valueE h.1 h.2, bind, Except.bind, pure,
      Except.pure, textNodes]
  | l :: l' :: rest, p, h => by
    have ih := inlineTrees_linesE (l' :: rest) (p + l.length + 1) h.2.2
    have hv := text_valueE (src := src) (p := p) (l := l) (sub_prefix src p l.length l 10 rfl h.1) (by have := h.2.1; omega)
    simp only [paraKids, GM.Convert.inlineTrees, GM.Convert.inlineTree, hv, bind, Except.bind, pure,
      Except.pure, textNodes] at ih ⊢
    rw [ih]

/-- `docTree` on a closed non-raw block whose lines are the text lines `ls` from byte `p` on -/
theorem docTree_linesE {src : Bytes} (env : GM.Inl.Env) (henv : env.escapedSpace = false) (ls : List Bytes) (p : Nat)
    (n : Blocks.Node) (K : GM.Kind) (hlines : n.lines = paraSegs p ls) (hraw : GM.Convert.isRawKind n.kind = false)
    (hK : GM.Convert.blockKind src n = .ok K)
    (hne : ls ≠ []) (h : LinesAtE src p ls) (hg : ∀ l ∈ ls, GoodLine l) :
    GM.Convert.docTree true env src (.node n []) = .ok (.mk K none (textNodes ls)) := by
  have hpb := parseBlock_linesE env henv src p ls hne hg h
  have hw := wf0B_linesE ls p hne h (fun l hl => (hg l hl).ne)
  have hit := inlineTrees_linesE ls p h
  have hle : (paraSegs p ls).isEmpty = false := by
    cases ls with
    | nil => exact absurd rfl hne
    | cons l rest => cases rest <;> simp [paraSegs]
  simp only [GM.Convert.docTree, GM.Convert.docTrees, GM.Convert.inlinePhase, hraw, hlines, hle, hw,
    hpb, GM.Convert.liftErr, hK, bind, Except.bind, pure, Except.pure]
  simp [hit]

/-- `docTree` on the closed node of the LAST block (no final line feed) -/
theorem docTree_block7 {src : Bytes} (env : GM.Inl.Env) (henv : env.escapedSpace = false) (b : Raw5) (p : Nat)
    (bk : Bool) (hg : Good5' b) (hnic : isIcB b = false) (h : ParaAtE src p (lines5 b)) :
    GM.Convert.docTree true env src (.node (node5 p b bk) []) = .ok (rawNode5 b) := by
  cases b with
  | icode ls => exact absurd hnic (by simp [isIcB])
  | old b' =>
    cases b' with
    | para ls =>
      have hls : LinesAtE src p ls := linesAtE_of_paraAtE ls p (by simpa [lines5, lines4] using h)
      exact docTree_linesE env henv ls p _ .paragraph rfl rfl rfl hg.1 hls hg.2
    | hr x => rfl
    | atx level l =>
      obtain ⟨h1, h6, hgl, _⟩ := hg
      obtain ⟨hln, heof⟩ : Ln src p (p + (List.replicate level 35 ++ 32 :: l).length)
          (List.replicate level 35 ++ 32 :: l) ∧ p + (List.replicate level 35 ++ 32 :: l).length = src.length := by
        simpa [lines5, lines4, ParaAtE] using h
      have hsub : sub src (p + level + 1) (p + (List.replicate level 35 ++ 32 :: l).length) = l := by
        have := sub_drop_prefix src p (p + (List.replicate level 35 ++ 32 :: l).length) (List.replicate level 35 ++ [32]) l
          (by rw [hln.sub]; simp) (by simp)
        simpa [Nat.add_assoc] using this
      have hE : p + (List.replicate level 35 ++ 32 :: l).length = p + level + 1 + l.length := by simp; omega
      rw [hE] at hsub
      have hls : LinesAtE src (p + level + 1) [l] := ⟨hsub, by have := hln.le; omega⟩
      have hK : GM.Convert.blockKind src (headN level [sg (p + level + 1) (p + level + 1 + l.length)] bk) =
          .ok (.heading level) := by
        simp [GM.Convert.blockKind, headN, pure, Except.pure]
      exact docTree_linesE env henv [l] (p + level + 1) _ (.heading level) (by simp [node5, node4, headN, paraSegs, sg])
        rfl hK (by simp) hls (by simpa using hgl)
  | fence fc n info ls =>
    have hE' : ParaAtE src p (((List.replicate (n + 3) fc ++ info) :: ls) ++ [List.replicate (n + 3) fc]) := by
      simpa [lines5] using h
    obtain ⟨hpa, _⟩ := (paraAtE_snoc _ _ p).mp hE'
    obtain ⟨hl0, hrest⟩ := hpa
    have elen : (List.replicate (n + 3) fc ++ info).length = n + 3 + info.length := by simp
    rw [elen] at hl0 hrest
    have hsv := segValues_csegs ls [] (p + (n + 3 + info.length) + 1) (by simpa using hrest)
    have e1 : p + n + 3 + info.length + 1 = p + (n + 3 + info.length) + 1 := by omega
    have hle := hl0.le
    by_cases hi : info = []
    · subst hi
      simp only [node5, fenceN, GM.Convert.docTree, GM.Convert.docTrees, GM.Convert.inlinePhase, GM.Convert.isRawKind,
        GM.Convert.inlineTrees, GM.Convert.liftErr, GM.Convert.blockKind, List.isEmpty_nil, if_true, e1, hsv,
        bind, Except.bind, pure, Except.pure, rawNode5]
      simp
    · have hie : info.isEmpty = false := by cases info with
        | nil => exact absurd rfl hi
        | cons a t => rfl
      have hsub : sub src (p + n + 3) (p + (n + 3 + info.length) + 1) = info ++ [10] := by
        have := sub_drop_prefix src p (p + (n + 3 + info.length) + 1) (List.replicate (n + 3) fc) (info ++ [10])
          (by rw [hl0.sub]; simp) (by simp; omega)
        simpa [Nat.add_assoc] using this
      have hinfo : sub src (p + n + 3) (p + n + 3 + info.length) = info :=
        sub_prefix src (p + n + 3) info.length info 10 rfl (by
          have e2 : p + n + 3 + info.length + 1 = p + (n + 3 + info.length) + 1 := by omega
          rw [e2]; exact hsub)
      have hval : (sg (p + n + 3) (p + n + 3 + info.length)).value src = .ok info :=
        seg_value_nat src (p + n + 3) (p + n + 3 + info.length) false info hinfo (by omega) (by omega) (fun h => by cases h)
      have hit0 : GM.Convert.inlineTrees src [] = .ok [] := rfl
      simp only [node5, fenceN, GM.Convert.docTree, GM.Convert.docTrees, GM.Convert.inlinePhase, GM.Convert.isRawKind,
        GM.Convert.inlineTrees, GM.Convert.liftErr, GM.Convert.blockKind, hie, Bool.false_eq_true, if_false, e1, hsv,
        hval, bind, Except.bind, pure, Except.pure, rawNode5]
      simp [hit0]

/-! ### composition -/

/-- every block's closed node is read by `docTree` as the block -/
def AllDT (src : Bytes) (env : GM.Inl.Env) : List (Nat × List Bytes) → List Raw5 → Prop
  | (p, _) :: cl, b :: blks =>
    (∀ bk, GM.Convert.docTree true env src (.node (node5 p b bk) []) = .ok (rawNode5 b)) ∧ AllDT src env cl blks
  | [], [] => True
  | _, _ => False

theorem docTrees_nodes7 {src : Bytes} (env : GM.Inl.Env) :
    ∀ (cl : List (Nat × List Bytes)) (blks : List Raw5) (bs : List Bool), AllDT src env cl blks → bs.length = cl.length →
      GM.Convert.docTrees true env src ((mkNodes5 cl blks bs).map (fun n => Tree.node n [])) = .ok (blks.map rawNode5)
  | [], [], _, _, _ => by simp [mkNodes5, GM.Convert.docTrees, pure, Except.pure]
  | [], _ :: _, _, h, _ => by simp [AllDT] at h
  | _ :: _, [], _, h, _ => by simp [AllDT] at h
  | _ :: _, _ :: _, [], _, h => by simp at h
  | (p, ls) :: cl, b :: blks, bk :: bs, h, hl => by
    obtain ⟨hdt, hrest⟩ := h
    have ih := docTrees_nodes7 env cl blks bs hrest (by simpa using hl)
    simp only [mkNodes5, List.map_cons, GM.Convert.docTrees, hdt bk, ih, bind, Except.bind, pure, Except.pure]

theorem docAt6E_le {src : Bytes} : ∀ (items : List (Nat × Raw5)) (trail q : Nat), DocAt6E src q items trail →
    q ≤ src.length
  | [], _, _, h => h.elim
  | [(s, b)], trail, q, h => by
    obtain ⟨_, hb, hE⟩ := h
    rcases blanks_le s q hb with h' | h'
    · omega
    · subst h'
      cases hl : lines5 b with
      | nil => rw [hl] at hE; exact hE.elim
      | cons l rest =>
        rw [hl] at hE
        cases rest with
        | nil => have := hE.1.le; omega
        | cons l' r => have := hE.1.le; omega
  | (s, b) :: it :: rest, trail, q, h => by
    have := docAt6E_le (it :: rest) trail _ h.2.2; omega

theorem allDT_closedE {src : Bytes} (env : GM.Inl.Env) (henv : env.escapedSpace = false) :
    ∀ (items : List (Nat × Raw5)) (trail q : Nat), DocAt6E src q items trail →
    (∀ it ∈ items, Good5' it.2) → LastNotIc items → AllDT src env (closedOf6 q items) (items.map (·.2))
  | [], _, _, h, _, _ => h.elim
  | [(s, b)], trail, q, h, hg, hl => by
    obtain ⟨_, _, hE⟩ := h
    exact ⟨fun bk => docTree_block7 env henv b (q + s) bk (hg (s, b) (by simp)) hl hE, trivial⟩
  | (s, b) :: it :: rest, trail, q, h, hg, hl => by
    obtain ⟨_, hpa, hdr⟩ := h
    have hle := docAt6E_le (it :: rest) trail _ hdr
    exact ⟨fun bk => docTree_block5 env henv b (q + s) bk (hg (s, b) (by simp)) hpa (by omega),
      allDT_closedE env henv (it :: rest) trail _ hdr (fun x hx => hg x (by simp [hx])) hl⟩

theorem segValues_icsegsE {src : Bytes} : ∀ (ls : List Bytes) (P : Nat), ParaAtE src P (icLines ls) → (∀ l ∈ ls, IcLine l) →
    GM.Convert.segValues src (icsegsE P ls) = .ok (ls.map (· ++ [10]))
  | [], _, h, _ => h.elim
  | [l], P, h, hg => by
    have hl : LastLn src P (ind4 ++ l) := ⟨h.1, h.2⟩
    obtain ⟨v, hv, _⟩ := fullSeg_icE hl (hg l (by simp))
    -- the value is `l ++ [10]`
    obtain ⟨c, t, hlc, hc⟩ := (hg l (by simp)).first
    have hln := hl.ln
    have hlen : (ind4 ++ l).length = 4 + l.length := by simp [ind4]; omega
    rw [hlen] at hln
    have hsub : sub src (P + 4) (P + (4 + l.length)) = l := by
      have := sub_shift (src := src) (p := P) (e := P + (4 + l.length)) (a := ind4) (w := l) (by rw [hln.sub])
      simpa [ind4] using this
    have e : P + 4 + l.length = P + (4 + l.length) := by omega
    have hval : (csg (P + 4) (P + 4 + l.length)).value src = .ok (l ++ [10]) := by
      rw [e]
      exact seg_value12E (P + 4) (P + (4 + l.length)) l hsub (by omega) hln.le (by rw [hlc]; simp)
        (fun h => (hg l (by simp)).noNl 10 (List.mem_of_getLast? h) rfl)
    simp only [icsegsE, GM.Convert.segValues, hval, bind, Except.bind, pure, Except.pure, List.map_cons, List.map_nil]
  | l :: l' :: rest, P, h, hg => by
    have e : P + (ind4 ++ l).length + 1 = P + 4 + l.length + 1 := by simp [ind4]; omega
    have h1 : Ln src P (P + 4 + l.length + 1) ((ind4 ++ l) ++ [10]) := by
      have := h.1; simp only [icLines, List.map_cons] at this; rw [e] at this; exact this
    have h2 : ParaAtE src (P + 4 + l.length + 1) (icLines (l' :: rest)) := by
      have := h.2; simp only [icLines, List.map_cons] at this ⊢; rw [e] at this; exact this
    have ih := segValues_icsegsE (l' :: rest) (P + 4 + l.length + 1) h2 (fun x hx => hg x (by simp [hx]))
    have hsub : sub src (P + 4) (P + 4 + l.length + 1) = l ++ [10] := by
      have := sub_drop_prefix src P (P + 4 + l.length + 1) ind4 (l ++ [10]) (by rw [h1.sub]; simp)
        (by simp [ind4]; omega)
      simpa [ind4] using this
    have hval : (csg (P + 4) (P + 4 + l.length + 1)).value src = .ok (l ++ [10]) :=
      seg_value_nat src (P + 4) (P + 4 + l.length + 1) true (l ++ [10]) hsub (by omega) h1.le (fun _ => by simp)
    simp only [icsegsE, GM.Convert.segValues, hval, ih, bind, Except.bind, pure, Except.pure, List.map_cons]

/-- `docTree` on the closed node `node5E` of the LAST block (no final line feed), every kind of block -/
theorem docTree_block7E {src : Bytes} (env : GM.Inl.Env) (henv : env.escapedSpace = false) (b : Raw5) (p : Nat)
    (bk : Bool) (hg : Good5' b) (h : ParaAtE src p (lines5 b)) :
    GM.Convert.docTree true env src (.node (node5E p b bk) []) = .ok (rawNode5 b) := by
  cases b with
  | old b' => exact docTree_block7 env henv (.old b') p bk hg rfl h
  | fence fc n info ls => exact docTree_block7 env henv (.fence fc n info ls) p bk hg rfl h
  | icode ls =>
    have hsv := segValues_icsegsE ls p h hg.2
    simp only [node5E, codeN, GM.Convert.docTree, GM.Convert.docTrees, GM.Convert.inlinePhase, GM.Convert.isRawKind,
      GM.Convert.liftErr, GM.Convert.blockKind, hsv, bind, Except.bind, pure, Except.pure, rawNode5]
    have hit0 : GM.Convert.inlineTrees src [] = .ok [] := rfl
    simp [hit0]

/-- `docTrees` on the closed nodes of a document without final line feed -/
theorem docTrees_closedE {src : Bytes} (env : GM.Inl.Env) (henv : env.escapedSpace = false) :
    ∀ (items : List (Nat × Raw5)) (trail q : Nat) (bs : List Bool), DocAt6E src q items trail →
      (∀ it ∈ items, Good5' it.2) → bs.length = items.length →
      GM.Convert.docTrees true env src
          ((mkNodes5L node5E (closedOf6 q items) (items.map (·.2)) bs).map (fun n => Tree.node n [])) =
        .ok (items.map fun it => rawNode5 it.2)
  | [], _, _, _, h, _, _ => h.elim
  | [(s, b)], trail, q, [], _, _, hl => by simp at hl
  | [(s, b)], trail, q, _ :: _ :: _, _, _, hl => by simp at hl
  | [(s, b)], trail, q, [bk], h, hg, _ => by
    obtain ⟨_, _, hE⟩ := h
    simp only [closedOf6, List.map_cons, List.map_nil, mkNodes5L, GM.Convert.docTrees,
      docTree_block7E env henv b (q + s) bk (hg (s, b) (by simp)) hE, bind, Except.bind, pure, Except.pure]
  | (s, b) :: it :: rest, trail, q, [], _, _, hl => by simp at hl
  | (s, b) :: it :: rest, trail, q, [_], _, _, hl => by simp at hl
  | (s, b) :: it :: rest, trail, q, bk :: k2 :: bs, h, hg, hl => by
    obtain ⟨_, hpa, hdr⟩ := h
    have hle := docAt6E_le (it :: rest) trail _ hdr
    have ih := docTrees_closedE env henv (it :: rest) trail _ (k2 :: bs) hdr (fun x hx => hg x (by simp [hx]))
      (by simpa using hl)
    obtain ⟨s2, b2⟩ := it
    simp only [closedOf6, List.map_cons] at ih ⊢
    rw [mkNodes5L_cons]
    simp only [List.map_cons, GM.Convert.docTrees,
      docTree_block5 env henv b (q + s) bk (hg (s, b) (by simp)) hpa (by omega), ih, bind, Except.bind, pure, Except.pure]

theorem atxOpenE_holds : AtxOpenE :=
  fun hl level l hv h1 h6 hb hlast k nodes pc hoff parent => atxOpen_atxE hl level l hv h1 h6 hb hlast k nodes pc hoff parent
theorem hrOpenE_holds : HrOpenE :=
  fun hl ch hch n hv k nodes pc parent => thematicOpen_hrE hl ch hch n hv k nodes pc parent
theorem fenceCloseE_holds : FenceCloseE :=
  fun hl he fc hfc n hv k d rest x hk hpar pc hfd hop bl => lineLoop_fence_closeE hl he fc hfc n hv k d rest x hk hpar pc hfd hop bl

theorem lastLine_ne (b : Raw5) (h : Good5' b) : ∀ l, (lines5 b).getLast? = some l → l ≠ [] := by
  cases b with
  | old b' =>
    cases b' with
    | para ls =>
      intro l hl
      exact (h.2 l (List.mem_of_getLast? hl)).ne
    | atx level l =>
      intro x hx
      simp only [lines5, lines4, List.getLast?_singleton, Option.some.injEq] at hx
      subst hx
      simp
    | hr x =>
      obtain ⟨ch, n, _, rfl⟩ := h
      intro l hl
      simp only [lines5, lines4, List.getLast?_singleton, Option.some.injEq] at hl
      subst hl
      simp [List.replicate_succ]
  | fence fc n info ls =>
    intro l hl
    have : (lines5 (.fence fc n info ls)).getLast? = some (List.replicate (n + 3) fc) := by
      simp only [lines5]
      rw [List.getLast?_cons, List.getLast?_append]
      simp
    rw [this] at hl
    cases hl
    simp [List.replicate_succ]
  | icode ls =>
    intro l hl
    have hm := List.mem_of_getLast? hl
    simp only [lines5, icLines, List.mem_map] at hm
    obtain ⟨l', _, rfl⟩ := hm
    simp [ind4]

/-- the model of `goldmark.Convert` on the source of a stage-6 document of good blocks without final line feed -/
theorem convert_raw7 (uc : List (Nat × (Bool × Bool))) (items : List (Nat × Raw5)) (hne : items ≠ [])
    (hgood : ∀ it ∈ items, Good5' it.2) (hseps : SepsOK6 none items) (hic : IcOK6 false items) :
    GM.Convert.convertCore uc cmOpts (rawDoc6E items) = .ok (hdocHtml (items.map (·.2))) := by
  have hno : ∀ it ∈ items, lines5 it.2 ≠ [] ∧ (∀ l, (lines5 it.2).getLast? = some l → l ≠ []) ∧
      ∀ l ∈ lines5 it.2, ∀ c ∈ l, c ≠ 10 :=
    fun it hit => ⟨lines5_ne it.2 (good5_of it.2 (hgood it hit)), lastLine_ne it.2 (hgood it hit),
      lines5_no_nl it.2 (hgood it hit)⟩
  obtain ⟨s', bs, h1, h2, h3, h4⟩ := runT_doc7 atxOpenE_holds hrOpenE_holds fenceCloseE_holds items hne
    (fun it hit => good5_of it.2 (hgood it hit)) hseps hic hno
  have hd := docAt6E_raw items [] hne hno
  simp only [List.nil_append, List.length_nil] at hd
  have hlen : (closedOf6 0 items).length = items.length := closedOf6_length items 0
  have hml := mkNodes5L_length node5E (closedOf6 0 items) (items.map (·.2)) bs (by simp [hlen]) (by rw [hlen]; exact h2)
  have htree : treeOf s'.nodes s'.nodes.length 0 =
      .node (addKids { kind := .document } 0 items.length)
        ((mkNodes5L node5E (closedOf6 0 items) (items.map (·.2)) bs).map fun n => Tree.node n []) := by
    rw [h3]
    have hk := treeOf_kids (mkNodes5L node5E (closedOf6 0 items) (items.map (·.2)) bs).length
      (mkNodes5L node5E (closedOf6 0 items) (items.map (·.2)) bs)
      [addKids { kind := .document } 0 items.length] (mkNodes5L_children node5E node5E_children _ _ _)
    simp only [List.length_cons, treeOf]
    have e1 : ((addKids { kind := .document } 0 items.length ::
        mkNodes5L node5E (closedOf6 0 items) (items.map (·.2)) bs).getD 0 default) =
        addKids { kind := .document } 0 items.length := rfl
    rw [e1]
    have e2 : (addKids { kind := .document } 0 items.length).children =
        List.range' 1 (mkNodes5L node5E (closedOf6 0 items) (items.map (·.2)) bs).length := by
      rw [hml, hlen]; simp [addKids]
    rw [e2]
    congr 1
  have hdt := docTrees_closedE (src := rawDoc6E items) { refs := s'.pc.refs, uc := uc } rfl items 0 0 bs hd hgood h2
  have hlev : ∀ b ∈ items.map (·.2), ∀ level l, b = Raw5.old (RawBlock.atx level l) → level ≤ 6 := by
    intro b hb level l he
    obtain ⟨it, hit, rfl⟩ := List.mem_map.mp hb
    have := hgood it hit
    rw [he] at this
    exact this.2.1
  unfold GM.Convert.convertCore GM.Convert.convertWith GM.Convert.parseDoc GM.Convert.blockPhase
  have hrun : runT (GM.Convert.paragraphTransformers true) (rawDoc6E items) = .ok s' := h1
  simp only [hrun, GM.Convert.liftErr, bind, Except.bind, htree, GM.Convert.docTree, hdt, GM.Convert.inlinePhase,
    addKids, GM.Convert.isRawKind, GM.Convert.blockKind, pure, Except.pure]
  have hit0 : GM.Convert.inlineTrees (rawDoc6E items) [] = .ok [] := rfl
  have := renderDoc_hdoc (items.map (·.2)) hlev
  simp only [hdocNode, List.map_map] at this
  simpa [hit0, Function.comp_def] using this

/-! ### stage-7 fragment documents -/

open GM.Spec.CM GM.Spec.CMFrag

theorem paraBytes_dropLast : ∀ (ls : List Bytes), ls ≠ [] → (paraBytes ls).dropLast = paraBytesE ls
  | [], h => absurd rfl h
  | [l], _ => by simp [paraBytes, paraBytesE]
  | l :: l' :: rest, _ => by
    have ih := paraBytes_dropLast (l' :: rest) (by simp)
    have e : paraBytes (l :: l' :: rest) = (l ++ [10]) ++ paraBytes (l' :: rest) := by simp [paraBytes]
    have hne : paraBytes (l' :: rest) ≠ [] := by simp [paraBytes]
    rw [e, List.dropLast_append_of_ne_nil hne, ih]
    simp [paraBytesE]

theorem rawDoc6_dropLast : ∀ (items : List (Nat × Raw5)), items ≠ [] → (∀ it ∈ items, lines5 it.2 ≠ []) →
    (rawDoc6 items 0).dropLast = rawDoc6E items
  | [], h, _ => absurd rfl h
  | [(s, b)], _, hl => by
    have hne : paraBytes (lines5 b) ≠ [] := by
      cases h : lines5 b with
      | nil => exact absurd h (hl (s, b) (by simp))
      | cons a t => simp [paraBytes]
    simp only [rawDoc6, rawDoc6E, blanks, List.replicate_zero, List.append_nil]
    rw [List.dropLast_append_of_ne_nil hne, paraBytes_dropLast _ (hl (s, b) (by simp))]
  | (s, b) :: it :: rest, _, hl => by
    have ih := rawDoc6_dropLast (it :: rest) (by simp) (fun x hx => hl x (by simp [hx]))
    have hne : rawDoc6 (it :: rest) 0 ≠ [] := by
      obtain ⟨s', b'⟩ := it
      cases h : lines5 b' with
      | nil => exact absurd h (hl (s', b') (by simp))
      | cons a t => simp [rawDoc6, paraBytes, h]
    have hne2 : paraBytes (lines5 b) ++ rawDoc6 (it :: rest) 0 ≠ [] := by simp [hne]
    have e1 : rawDoc6 ((s, b) :: it :: rest) 0 = blanks s ++ (paraBytes (lines5 b) ++ rawDoc6 (it :: rest) 0) := rfl
    have e2 : rawDoc6E ((s, b) :: it :: rest) = blanks s ++ (paraBytes (lines5 b) ++ rawDoc6E (it :: rest)) := rfl
    rw [e1, e2, List.dropLast_append_of_ne_nil hne2, List.dropLast_append_of_ne_nil hne, ih]

/-- **the conformance theorem of stage 7**: a stage-6 document without its final line feed -/
theorem fragment7_conforms (d : KDoc) (h : KFragE d) (uc : List (Nat × (Bool × Bool))) :
    GM.Convert.convertCore uc cmOpts (spellKE d) = .ok (expectedK d) := by
  unfold KFragE kfragEB at h
  simp only [Bool.and_eq_true, beq_iff_eq, Bool.not_eq_true', List.isEmpty_eq_false_iff] at h
  obtain ⟨⟨hk, ht⟩, hne⟩ := h
  have hk' := hk
  unfold kfragB at hk'
  simp only [Bool.and_eq_true, List.all_eq_true] at hk'
  obtain ⟨hok, hseps⟩ := hk'
  have hgood : ∀ it ∈ d.items.map convK, Good5' it.2 := by
    intro x hx
    obtain ⟨it, hit, rfl⟩ := List.mem_map.mp hx
    exact good5_rawOfH it.block (hok it hit)
  have hne' : d.items.map convK ≠ [] := by simpa using hne
  have hnoic : ∀ it ∈ d.items.map convK, isIcB it.2 = false := by
    intro x hx
    obtain ⟨it, hit, rfl⟩ := List.mem_map.mp hx
    exact isIcB_rawOfH it.block
  have hc := convert_raw7 uc (d.items.map convK) hne' hgood (sepsOK_of none d.items hseps)
    (icOK6_of_none _ false hnoic)
  have hsp : spellKE d = rawDoc6E (d.items.map convK) := by
    unfold spellKE
    rw [spellK_raw, ht, rawDoc6_dropLast _ hne' (fun it hit => lines5_ne it.2 (good5_of it.2 (hgood it hit)))]
  rw [hsp, hc]
  have he : expectedK d = hdocHtml ((d.items.map (·.block)).map rawOfH) := by
    rw [hdocHtml_spelled _ (by
      intro b hb
      obtain ⟨it, hit, rfl⟩ := List.mem_map.mp hb
      exact hok it hit)]
    simp [expectedK, List.flatMap_map]
  rw [he]
  simp [convK, List.map_map, Function.comp_def]

end GM.Proof.CMFrag
