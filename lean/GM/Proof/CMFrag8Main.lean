/-
  GM.Proof.CMFrag8Main — stage 8: paragraphs whose lines contain code spans; the phases composed.
-/
import GM.Proof.CMFragParas
import GM.Proof.CMFrag8Inl
import GM.Proof.CMFragRender8
import GM.Proof.CMFragSpec8

namespace GM.Proof.CMFrag
open GM GM.Text GM.Blocks GM.Spec GM.Spec.CM GM.Spec.CMFrag

theorem atomSrc_noNl (a : Atom) (h : AtomOK a) : ∀ c ∈ atomSrc a, c ≠ 10 := by
  cases a with
  | txt bs => exact quiet_no_nl bs 0 false (h.2.1 0)
  | code bs =>
    intro c hc
    simp only [atomSrc, List.mem_append, List.mem_cons, List.not_mem_nil, or_false] at hc
    rcases hc with (rfl | hc) | rfl
    · decide
    · exact alnum_ne_lf8 c (h.2 c hc)
    · decide

theorem lineSrc_append (a b : List Atom) : lineSrc (a ++ b) = lineSrc a ++ lineSrc b := by
  simp [lineSrc]

/-- a rich line is good for the block phase -/
theorem richLine_blk {l : List Atom} (h : RichLine l) : BlkLine (lineSrc l) := by
  refine ⟨?_, ?_, ?_⟩
  · obtain ⟨bs, rest, e, hf⟩ := h.first
    have hok := h.ok (.txt bs) (by rw [e]; simp)
    cases bs with
    | nil => exact absurd rfl hok.1
    | cons c t =>
      exact ⟨c, t ++ lineSrc rest, by rw [e]; simp [lineSrc, atomSrc], hf c rfl⟩
  · obtain ⟨init, bs, e, hl⟩ := h.last
    have hok := h.ok (.txt bs) (by rw [e]; simp)
    intro c hc
    have e2 : lineSrc l = lineSrc init ++ bs := by rw [e, lineSrc_append]; simp [lineSrc, atomSrc]
    rw [e2, List.getLast?_append] at hc
    cases hb : bs.getLast? with
    | none => exact absurd (List.getLast?_eq_none_iff.mp hb) hok.1
    | some z =>
      rw [hb] at hc
      have hc' : z = c := by simpa using hc
      subst hc'
      exact (hl z hb).1
  · intro c hc
    simp only [lineSrc, List.mem_flatMap] at hc
    obtain ⟨a, ha, hca⟩ := hc
    exact atomSrc_noNl a (h.ok a ha) c hca

/-- the paragraphs of a stage-8 document as byte lines with the extra blank lines in front -/
def itemsOfR (d : RDoc) : List (Nat × List Bytes) :=
  d.items.map fun it => (it.gap, (it.lines.map (·.map atomOfR)).map lineSrc)

theorem spellRItems_raw : ∀ (first : Bool) (its : List RItem) (trail : Nat),
    spellRItems first its ++ GM.Spec.CMFrag.blanks trail =
      rawDoc6 (paraItems first (its.map fun it => (it.gap, (it.lines.map (·.map atomOfR)).map lineSrc))) trail
  | _, [], _ => by simp [spellRItems, paraItems, rawDoc6, blanks_eq]
  | first, it :: rest, trail => by
    have ih := spellRItems_raw false rest trail
    have e : it.lines.flatMap (fun l => spellRLine l ++ [10]) =
        paraBytes ((it.lines.map (·.map atomOfR)).map lineSrc) := by
      simp [paraBytes, List.flatMap_map, lineSrc_atomOfR8]
    simp only [spellRItems, List.map_cons, paraItems, rawDoc6, lines5, lines4, List.append_assoc, ih, e, blanks_eq]

theorem spellR_raw (d : RDoc) : spellR d = rawDoc6 (paraItems true (itemsOfR d)) d.trail :=
  spellRItems_raw true d.items d.trail

theorem rfrag_items (d : RDoc) (h : RFrag d) : ∀ it ∈ d.items, ritemOK it = true := by
  have := h; simp only [RFrag, rfragB, List.all_eq_true] at this; exact this

theorem ritem_rich (it : RItem) (h : ritemOK it = true) : ∀ l ∈ it.lines.map (·.map atomOfR), RichLine l := by
  intro l hl
  obtain ⟨r, hr, rfl⟩ := List.mem_map.mp hl
  exact richLine_atomOfR8 r ((ritemOK_lines8 it h).2 r hr)

theorem itemsOfR_blk (d : RDoc) (h : RFrag d) : ∀ it ∈ itemsOfR d, it.2 ≠ [] ∧ ∀ l ∈ it.2, BlkLine l := by
  intro x hx
  obtain ⟨it, hit, rfl⟩ := List.mem_map.mp hx
  have hok := rfrag_items d h it hit
  refine ⟨by simpa using (ritemOK_lines8 it hok).1, ?_⟩
  intro l hl
  obtain ⟨y, hy, rfl⟩ := List.mem_map.mp hl
  exact richLine_blk (ritem_rich it hok y hy)

theorem parasDT_R (env : GM.Inl.Env) (henv : env.escapedSpace = false) : ∀ (its : List RItem),
    (∀ it ∈ its, ritemOK it = true) →
    ParasDT env (its.map fun it => (it.gap, (it.lines.map (·.map atomOfR)).map lineSrc))
      ((its.map fun it => it.lines.map (·.map atomOfR)).map richNodes)
  | [], _ => trivial
  | it :: rest, h => by
    have hok := ritem_rich it (h it (by simp))
    have hne : it.lines.map (·.map atomOfR) ≠ [] := by simpa using (ritemOK_lines8 it (h it (by simp))).1
    exact ⟨⟨fun p => richKids8 p (it.lines.map (·.map atomOfR)),
        fun src p hl => parseBlock_rich8 env henv src p _ hne hok hl,
        fun src p hl => inlineTrees_rich8 src p _ hok hl⟩,
      parasDT_R env henv rest (fun x hx => h x (by simp [hx]))⟩

/-- **the conformance theorem of the stage-8 fragment** -/
theorem fragment8_conforms (d : RDoc) (h : RFrag d) (uc : List (Nat × (Bool × Bool))) :
    GM.Convert.convertCore uc cmOpts (spellR d) = .ok (expectedR d) := by
  rw [spellR_raw]
  refine convert_paras_gen uc (itemsOfR d) d.trail ((atomsOfR d).map richNodes) (expectedR d) (itemsOfR_blk d h)
    (fun env henv => parasDT_R env henv d.items (rfrag_items d h)) ?_
  have := renderDoc_expectedR8 d h
  simpa [List.map_map, Function.comp_def] using this

/-- the stage-8 document without its final line feed -/
theorem fragment8_conforms_nofinal (d : RDoc) (h : RFrag d) (hne : d.items ≠ []) (uc : List (Nat × (Bool × Bool))) :
    GM.Convert.convertCore uc cmOpts (rawDoc6E (paraItems true (itemsOfR d))) = .ok (expectedR d) := by
  refine convert_paras_genE uc (itemsOfR d) (by simpa [itemsOfR] using hne) ((atomsOfR d).map richNodes) (expectedR d)
    (itemsOfR_blk d h) (fun env henv => parasDT_R env henv d.items (rfrag_items d h)) ?_
  have := renderDoc_expectedR8 d h
  simpa [List.map_map, Function.comp_def] using this

end GM.Proof.CMFrag
