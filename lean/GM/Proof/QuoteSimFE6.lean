/-
  GM.Proof.QuoteSimFE6 — `FE` (equal flags on every child but the first of every node but the Document) across
  `setextHeadingParser.Close`, the one `Close` that copies a `HasBlankPreviousLines` flag and moves children:
    * `SXP node t n n'`   : what `setextClose node` does to the flags and the children lists (unary, any run);
    * `ADJ n t h`         : the heading `h` is the next sibling of the temporary paragraph `t` and occurs nowhere else;
    * `adj_list`          : the list fact behind it;
    * `fe_setextClose`    : `FE` survives a pair of `setextClose` with `SXP` in both runs and `ADJ` in run A;
    * `sx_setextClose`    : `SXP` for a normal end of `bpClose .setext node`.
-/
import GM.Proof.QuoteSimFE5
import GM.Proof.QuoteSimFE4

namespace GM.Blocks
open GM GM.Text

/-- what `setextClose node` (temporary paragraph `t`) does to flags and children lists -/
def SXP (node t : Nat) (n n' : List Node) : Prop :=
  n.length ≤ n'.length ∧
  (∀ i, i < n.length → i ≠ node → (n'.getD i default).blankPrev = (n.getD i default).blankPrev) ∧
  (∀ i, n.length ≤ i → (n'.getD i default).blankPrev = false) ∧
  (((n.getD t default).lines.length == 0) = true →
    (n'.getD node default).blankPrev = (n.getD node default).blankPrev ∧ CHn n n') ∧
  (((n.getD t default).lines.length == 0) = false →
    (n'.getD node default).blankPrev = (n.getD t default).blankPrev ∧
    ∀ q, (n'.getD q default).children =
      if (n.getD t default).parent = some q then (n.getD q default).children.erase t
      else (n.getD q default).children)

/-- the heading `h` is the next sibling of the paragraph `t`, and occurs nowhere else -/
def ADJ (n : List Node) (t h : Nat) : Prop :=
  ∃ q pre suf, (n.getD t default).parent = some q ∧ (n.getD q default).children = pre ++ t :: h :: suf ∧
    t ∉ pre ∧ h ∉ pre ∧ h ∉ suf ∧ ∀ q', q' ≠ q → h ∉ (n.getD q' default).children

theorem adj_list {L pre suf : List Nat} {t h : Nat} (hL : L = pre ++ t :: h :: suf) (ht : t ∉ pre) (hh : h ∉ pre)
    (hs : h ∉ suf) (hm : h ∈ (L.erase t).drop 1) : t ∈ L.drop 1 := by
  subst hL
  rw [List.erase_append_right _ ht, List.erase_cons_head] at hm
  cases pre with
  | nil => exact absurd hm hs
  | cons p pre' =>
    show t ∈ pre' ++ t :: h :: suf
    exact List.mem_append_right _ (List.mem_cons_self ..)

/-- `FE` survives `setextClose` when the heading is the temporary paragraph's next sibling -/
theorem fe_setextClose {nA nB nA' nB' : List Node} {node t : Nat} (hfe : FE nA nB)
    (hlen : nB.length = nA.length + 1) (hA : SXP node t nA nA') (hB : SXP (node + 1) (t + 1) nB nB')
    (hlines : ((nB.getD (t + 1) default).lines.length == 0) = ((nA.getD t default).lines.length == 0))
    (hnode : node < nA.length) (hadj : ADJ nA t node) : FE nA' nB' := by
  obtain ⟨hA1, hA2, hA3, hA4, hA5⟩ := hA
  obtain ⟨hB1, hB2, hB3, hB4, hB5⟩ := hB
  cases hz : ((nA.getD t default).lines.length == 0) with
  | true =>
    obtain ⟨hfa, hch⟩ := hA4 hz
    obtain ⟨hfb, _⟩ := hB4 (hlines.trans hz)
    have hbA : BPn nA nA' := by
      refine ⟨hA1, fun i hi => ?_, hA3⟩
      by_cases hin : i = node
      · rw [hin]; exact hfa
      · exact hA2 i hi hin
    have hbB : BPn nB nB' := by
      refine ⟨hB1, fun i hi => ?_, hB3⟩
      by_cases hin : i = node + 1
      · rw [hin]; exact hfb
      · exact hB2 i hi hin
    exact fe_step hfe hbA hbB hch hlen
  | false =>
    obtain ⟨hfa, hca⟩ := hA5 hz
    obtain ⟨hfb, _⟩ := hB5 (hlines.trans hz)
    intro q hq c hcm
    show (nB'.getD (c + 1) default).blankPrev = (nA'.getD c default).blankPrev
    rw [hca q] at hcm
    by_cases hlt : c < nA.length
    · by_cases hcn : c = node
      · subst hcn
        rw [hfa, hfb]
        obtain ⟨p, pre, suf, hp, hL, h1, h2, h3, h4⟩ := hadj
        rw [hp] at hcm
        by_cases hpq : q = p
        · subst hpq
          rw [if_pos rfl] at hcm
          exact hfe q hq t (adj_list hL h1 h2 h3 hcm)
        · rw [if_neg (fun e => hpq (Option.some.inj e).symm)] at hcm
          exact absurd (List.mem_of_mem_drop hcm) (h4 q hpq)
      · rw [hA2 c hlt hcn, hB2 (c + 1) (by omega) (by omega)]
        refine hfe q hq c ?_
        split at hcm
        · exact mem_drop_erase hcm
        · exact hcm
    · rw [hA3 c (by omega), hB3 (c + 1) (by omega)]

/-! ### the unary characterisation -/

theorem sx_liftE {α} {x : Except Panic α} {s s' : St} {a : α} (h : liftE x s = .ok (a, s')) : x = .ok a ∧ s = s' := by
  unfold liftE at h
  cases x with
  | error e => cases h
  | ok v => cases h; exact ⟨rfl, rfl⟩

theorem sx_getNode {id : Nat} {s s' : St} {a : Node} (h : getNode id s = .ok (a, s')) :
    a = s.nodes.getD id default ∧ s = s' := by cases h; exact ⟨rfl, rfl⟩

theorem sx_getPc {s s' : St} {a : Ctx} (h : getPc s = .ok (a, s')) : a = s.pc ∧ s = s' := by
  cases h; exact ⟨rfl, rfl⟩

theorem sx_source {s s' : St} {a : Bytes} (h : source s = .ok (a, s')) : s = s' := by
  cases h; rfl

theorem sx_pure {α} {x a : α} {s s' : St} (h : (pure x : M α) s = .ok (a, s')) : x = a ∧ s = s' := by
  cases h; exact ⟨rfl, rfl⟩

theorem sx_nextSibling {c p : Nat} {s s' : St} {a : Option Nat} (e : nextSibling c s = .ok (a, s')) :
    s = s' ∧ ((s.nodes.getD c default).parent = some p → a = nextIn c (s.nodes.getD p default).children) ∧
      ((s.nodes.getD c default).parent = none → a = none) := by
  unfold nextSibling at e
  obtain ⟨cn, s1, h1, k1⟩ := fe4_bind_inv e
  obtain ⟨hcn, rfl⟩ := sx_getNode h1
  rw [← hcn]
  cases heq : cn.parent with
  | none =>
    rw [heq] at k1
    dsimp only at k1
    obtain ⟨rfl, rfl⟩ := sx_pure k1
    exact ⟨rfl, fun h => (by cases h), fun _ => rfl⟩
  | some p' =>
    rw [heq] at k1
    dsimp only at k1
    obtain ⟨pn, s2, h2, k2⟩ := fe4_bind_inv k1
    obtain ⟨rfl, rfl⟩ := sx_getNode h2
    obtain ⟨rfl, rfl⟩ := sx_pure k2
    refine ⟨rfl, fun h => ?_, fun h => ?_⟩
    · cases h; rfl
    · cases h

theorem sx_nextIn_mem {c v : Nat} : ∀ (a : Nat) (rest : List Nat), nextIn c (a :: rest) = some v → v ∈ rest
  | _, [], h => by simp [nextIn] at h
  | a, b :: r, h => by
    unfold nextIn at h
    split at h
    · cases h; exact List.mem_cons_self ..
    · exact List.mem_cons_of_mem _ (sx_nextIn_mem b r h)

/-- inserting in front of the NEXT SIBLING of some element: nobody but the new element stops being the first -/
theorem sx_mem_drop_insBefore {l : List Nat} {c v ins x : Nat} (hn : nextIn c l = some v)
    (h : x ∈ (insertBeforeIn v ins l).drop 1) : x ∈ l.drop 1 ∨ x = ins := by
  cases l with
  | nil => simp [nextIn] at hn
  | cons a rest =>
    unfold insertBeforeIn at h
    split at h
    · rename_i hav
      have hav : a = v := by simpa using hav
      simp only [List.drop_succ_cons, List.drop_zero] at h ⊢
      rcases List.mem_cons.mp h with h | h
      · left; rw [h, hav]; exact sx_nextIn_mem a rest hn
      · exact Or.inl h
    · simp only [List.drop_succ_cons, List.drop_zero] at h ⊢
      rcases mem_insBefore_fe h with h | h
      · exact Or.inr h
      · exact Or.inl h

/-- `RemoveChild(c)` from the parent of `c`: the children lists afterwards -/
theorem sx_removeChild {p c : Nat} {s s' : St} {u : Unit} (hpar : (s.nodes.getD c default).parent = some p)
    (e : removeChild p c s = .ok (u, s')) :
    ∀ q, (s'.nodes.getD q default).children =
      if p = q then (s.nodes.getD q default).children.erase c else (s.nodes.getD q default).children := by
  unfold removeChild at e
  obtain ⟨cn, s1, h1, k1⟩ := fe4_bind_inv e
  obtain ⟨rfl, rfl⟩ := sx_getNode h1
  rw [hpar] at k1
  simp only [bne_self_eq_false, Bool.false_eq_true, if_false] at k1
  obtain ⟨_, s2, h2, k2⟩ := fe4_bind_inv k1
  intro q
  rw [modNode_proj (·.children) k2 (fun _ => rfl) q, modNode_getD h2 q]
  by_cases hpq : p = q
  · subst hpq
    rw [if_pos rfl]
    by_cases hl : p < s.nodes.length
    · rw [if_pos ⟨rfl, hl⟩]
    · rw [if_neg (fun h => hl h.2), node_getD_ge _ _ (Nat.le_of_not_lt hl)]; rfl
  · rw [if_neg hpq, if_neg (fun h => hpq h.1)]

/-- `InsertBefore(next, ins)` where `next` is the next sibling of `node`, `ins` detached -/
theorem sx_insertBefore (P : Nat → Prop) {hp node ins : Nat} {next : Option Nat} {s s' : St} {u : Unit}
    (hpar : (s.nodes.getD ins default).parent = none)
    (hnx : ∀ v, next = some v → nextIn node (s.nodes.getD hp default).children = some v)
    (hP : P ins) (k2 : insertBefore hp next ins s = .ok (u, s')) : Gn P s.nodes s'.nodes := by
  have hap : ∀ {s'' : St}, appendChild hp ins s = .ok (u, s'') → Gn P s.nodes s''.nodes :=
    fun k => ch_appendChild P s.nodes hp ins hP s u _ (Gn.refl _ _) k
  unfold insertBefore at k2
  cases next with
  | none => exact hap k2
  | some v =>
    have hnx := hnx v rfl
    dsimp only at k2
    obtain ⟨vn, s3, h3, k3⟩ := fe4_bind_inv k2
    obtain ⟨rfl, rfl⟩ := sx_getNode h3
    split at k3
    · exact hap k3
    · obtain ⟨_, s4, h4, k4⟩ := fe4_bind_inv k3
      have hs4 : s = s4 := by
        unfold ensureIsolated at h4
        obtain ⟨cn, s5, h5, k5⟩ := fe4_bind_inv h4
        obtain ⟨rfl, rfl⟩ := sx_getNode h5
        rw [hpar] at k5
        exact (sx_pure k5).2
      subst hs4
      obtain ⟨_, s5, h5, k5⟩ := fe4_bind_inv k4
      cases h5
      cases k5
      refine Gn.trans (gn_set P _ _ _ (fun c hc => ?_)) (gn_set P _ _ _ (fun c hc => Or.inl hc))
      rcases sx_mem_drop_insBefore hnx hc with h | h
      · exact Or.inl h
      · exact Or.inr (h ▸ hP)

/-- `InsertAfter(node, ins)` below the parent of `node`, `ins` detached -/
theorem sx_insertAfter (P : Nat → Prop) {hp node ins : Nat} {s s' : St} {u : Unit}
    (hpar : (s.nodes.getD ins default).parent = none) (hnp : (s.nodes.getD node default).parent = some hp)
    (hP : P ins) (e : insertAfter hp (some node) ins s = .ok (u, s')) : Gn P s.nodes s'.nodes := by
  unfold insertAfter at e
  dsimp only at e
  obtain ⟨next, s1, h1, k1⟩ := fe4_bind_inv e
  obtain ⟨rfl, hv, _⟩ := sx_nextSibling (p := hp) h1
  have hv := hv hnp
  split at k1
  · obtain ⟨next2, s2, h2, k2⟩ := fe4_bind_inv k1
    obtain ⟨rfl, _, hn⟩ := sx_nextSibling (p := 0) h2
    exact sx_insertBefore P (node := node) hpar (fun v h => by rw [hn hpar] at h; cases h) hP k2
  · obtain ⟨next2, s2, h2, k2⟩ := fe4_bind_inv k1
    obtain ⟨rfl, rfl⟩ := sx_pure h2
    exact sx_insertBefore P (node := node) hpar (fun v h => by rw [← hv, h]) hP k2

/-- the new Paragraph after the heading (setext_headings.go:97-101), then the heading removed -/
theorem sx_leafA (seg : Segment) {hp node : Nat} {s s' : St} {u : Unit}
    (hnp : (s.nodes.getD node default).parent = some hp)
    (k : (do let para ← newNode { kind := Kind.paragraph }
             appendLine para seg
             insertAfter hp (some node) para
             removeChild hp node : M Unit) s = .ok (u, s')) : CHn s.nodes s'.nodes := by
  obtain ⟨para, s1, h1, k1⟩ := fe4_bind_inv k
  obtain ⟨_, s2, h2, k2⟩ := fe4_bind_inv k1
  obtain ⟨_, s3, h3, k3⟩ := fe4_bind_inv k2
  have hpara : para = s.nodes.length ∧ s1.nodes = s.nodes ++ [{ kind := Kind.paragraph }] := by
    cases h1; exact ⟨rfl, rfl⟩
  obtain ⟨rfl, hs1⟩ := hpara
  have hnl : node < s.nodes.length := by
    apply Nat.lt_of_not_le
    intro hge
    rw [node_getD_ge _ _ hge] at hnp
    cases hnp
  have g1 : Gn (fun c => s.nodes.length ≤ c) s.nodes s1.nodes := by
    rw [hs1]; exact gn_append _ _ _ rfl
  have g2 : Gn (fun c => s.nodes.length ≤ c) s1.nodes s2.nodes :=
    ch_appendLine _ s1.nodes _ seg s1 _ s2 (Gn.refl _ _) h2
  unfold appendLine at h2
  have hp2 : ∀ i, (s2.nodes.getD i default).parent = (s1.nodes.getD i default).parent :=
    fun i => modNode_proj (·.parent) h2 (fun _ => rfl) i
  have hpar : (s2.nodes.getD s.nodes.length default).parent = none := by
    rw [hp2, hs1, getD_append_node, if_neg (Nat.lt_irrefl _), if_pos rfl]
  have hnp2 : (s2.nodes.getD node default).parent = some hp := by
    rw [hp2, hs1, getD_append_node, if_pos hnl]; exact hnp
  have g3 : Gn (fun c => s.nodes.length ≤ c) s2.nodes s3.nodes :=
    sx_insertAfter _ hpar hnp2 (Nat.le_refl _) h3
  have g4 : Gn (fun c => s.nodes.length ≤ c) s3.nodes s'.nodes :=
    ch_removeChild _ s3.nodes hp node s3 u s' (Gn.refl _ _) k3
  exact Gn.trans (Gn.trans (Gn.trans g1 g2) g3) g4

theorem sx_setextClose {node t : Nat} {s s' : St} {u : Unit} (ht : s.pc.tmpPara = some t) (hne : node ≠ t)
    (hnode : node < s.nodes.length) (e : bpClose .setext node s = .ok (u, s')) : SXP node t s.nodes s'.nodes := by
  have e : setextClose node s = .ok (u, s') := e
  unfold setextClose at e
  obtain ⟨hn, s1, h1, k1⟩ := fe4_bind_inv e
  obtain ⟨rfl, rfl⟩ := sx_getNode h1
  obtain ⟨seg, s2, h2, k2⟩ := fe4_bind_inv k1
  obtain ⟨_, rfl⟩ := sx_liftE h2
  obtain ⟨_, s3, h3, k3⟩ := fe4_bind_inv k2
  obtain ⟨pc4, s4, h4, k4⟩ := fe4_bind_inv k3
  obtain ⟨rfl, rfl⟩ := sx_getPc h4
  have hpc3 : s3.pc = s.pc := by cases h3; rfl
  rw [hpc3, ht] at k4
  dsimp only at k4
  obtain ⟨tmp, s4, h4', k4'⟩ := fe4_bind_inv k4
  obtain ⟨rfl, rfl⟩ := sx_pure h4'
  obtain ⟨_, s5, h5, k5⟩ := fe4_bind_inv k4'
  obtain ⟨tn, s6, h6, k6⟩ := fe4_bind_inv k5
  obtain ⟨rfl, rfl⟩ := sx_getNode h6
  have hn5 : s5.nodes = s3.nodes := by cases h5; rfl
  have ht5 : s5.nodes.getD t default = s.nodes.getD t default := by
    rw [hn5, modNode_getD h3, if_neg (fun h => hne h.1)]
  rw [ht5] at k6
  have hl3 : s3.nodes.length = s.nodes.length := modNode_len h3
  have hf3 : ∀ i, (s3.nodes.getD i default).blankPrev = (s.nodes.getD i default).blankPrev :=
    fun i => modNode_proj (·.blankPrev) h3 (fun _ => rfl) i
  have hb3 : BPn s.nodes s3.nodes :=
    ⟨by rw [hl3]; exact Nat.le_refl _, fun i _ => hf3 i,
      fun i hi => by rw [hf3 i]; exact getD_default_blankPrev _ i hi⟩
  cases hz : ((s.nodes.getD t default).lines.length == 0) with
  | true =>
    rw [hz, if_pos rfl] at k6
    have hbA : BPn s5.nodes s'.nodes := by
      refine Keeps.ok (I := BPI s5.nodes) ?_ (BPn.refl _) k6
      have := bp_nextSibling s5.nodes
      have := bp_appendLine s5.nodes
      have := bp_insertAfter s5.nodes
      have := bp_removeChild s5.nodes
      bpk
    have hcA : CHn s5.nodes s'.nodes := by
      obtain ⟨next, s6, h6, k6⟩ := fe4_bind_inv k6
      obtain ⟨rfl, _, _⟩ := sx_nextSibling (p := 0) h6
      obtain ⟨src, s7, h7, k7⟩ := fe4_bind_inv k6
      obtain rfl := sx_source h7
      obtain ⟨seg2, s8, h8, k8⟩ := fe4_bind_inv k7
      obtain ⟨_, rfl⟩ := sx_liftE h8
      obtain ⟨nn, s9, h9, k9⟩ := fe4_bind_inv k8
      obtain ⟨rfl, rfl⟩ := sx_getNode h9
      cases hpp : (s5.nodes.getD node default).parent with
      | none =>
        rw [hpp] at k9
        dsimp only at k9
        obtain ⟨_, _, h, _⟩ := fe4_bind_inv k9
        cases h
      | some hp =>
        rw [hpp] at k9
        dsimp only at k9
        obtain ⟨hp', s10, h10, k10⟩ := fe4_bind_inv k9
        obtain ⟨rfl, rfl⟩ := sx_pure h10
        cases next with
        | none =>
          dsimp only at k10
          obtain ⟨nip, s11, h11, k11⟩ := fe4_bind_inv k10
          obtain ⟨rfl, rfl⟩ := sx_pure h11
          rw [if_pos (show (!false) = true from by decide)] at k11
          exact sx_leafA seg2 hpp k11
        | some nx =>
          dsimp only at k10
          obtain ⟨nxn, s11, h11, k11⟩ := fe4_bind_inv k10
          obtain ⟨rfl, rfl⟩ := sx_getNode h11
          obtain ⟨nip, s12, h12, k12⟩ := fe4_bind_inv k11
          obtain ⟨rfl, rfl⟩ := sx_pure h12
          cases hk : ((s5.nodes.getD nx default).kind == Kind.paragraph) with
          | false =>
            rw [hk, if_pos (show (!false) = true from by decide)] at k12
            exact sx_leafA seg2 hpp k12
          | true =>
            rw [hk, if_neg (by decide : ¬ ((!true) = true))] at k12
            refine Keeps.ok (I := GI (fun c => s5.nodes.length ≤ c) s5.nodes) ?_ (Gn.refl _ _) k12
            have := ch_removeChild (fun c => s5.nodes.length ≤ c) s5.nodes
            chk
    have hc3 : CHn s.nodes s3.nodes :=
      ⟨by rw [hl3]; exact Nat.le_refl _, fun q _ c hc =>
        Or.inl (by rw [modNode_proj (·.children) h3 (fun _ => rfl) q] at hc; exact hc)⟩
    rw [hn5] at hbA hcA
    have hb : BPn s.nodes s'.nodes := BPn.trans hb3 hbA
    exact ⟨hb.1, fun i hi _ => hb.2.1 i hi, hb.2.2, fun _ => ⟨hb.2.1 node hnode, CHn.trans hc3 hcA⟩,
      fun h => (by rw [hz] at h; cases h)⟩
  | false =>
    rw [hz, if_neg Bool.false_ne_true] at k6
    obtain ⟨_, s7, h7, k7⟩ := fe4_bind_inv k6
    have hl7 : s7.nodes.length = s.nodes.length := by rw [modNode_len h7, hn5, hl3]
    have hf7 : ∀ i, (s7.nodes.getD i default).blankPrev =
        if i = node then (s.nodes.getD t default).blankPrev else (s.nodes.getD i default).blankPrev := by
      intro i
      rw [modNode_getD h7 i]
      by_cases hi : i = node
      · subst hi
        rw [if_pos ⟨rfl, by rw [hn5, hl3]; exact hnode⟩, if_pos rfl]
      · rw [if_neg (fun h => hi h.1.symm), if_neg hi, hn5]
        exact hf3 i
    have hc7 : ∀ q, (s7.nodes.getD q default).children = (s.nodes.getD q default).children := by
      intro q
      rw [modNode_proj (·.children) h7 (fun _ => rfl) q, hn5, modNode_proj (·.children) h3 (fun _ => rfl) q]
    have hp7 : (s7.nodes.getD t default).parent = (s.nodes.getD t default).parent := by
      rw [modNode_proj (·.parent) h7 (fun _ => rfl) t, hn5, modNode_proj (·.parent) h3 (fun _ => rfl) t]
    have hB7 : BPn s7.nodes s'.nodes ∧ ∀ q, (s'.nodes.getD q default).children =
        if (s.nodes.getD t default).parent = some q then (s7.nodes.getD q default).children.erase t
        else (s7.nodes.getD q default).children := by
      cases hp : (s.nodes.getD t default).parent with
      | none =>
        rw [hp] at k7
        obtain ⟨_, rfl⟩ := sx_pure k7
        exact ⟨BPn.refl _, fun q => by rw [if_neg (by simp)]⟩
      | some tp =>
        rw [hp] at k7
        dsimp only at k7
        refine ⟨bpn_of_keeps (fun n0 => bp_removeChild n0 tp t) k7, fun q => ?_⟩
        rw [sx_removeChild (hp7.trans hp) k7 q]
        by_cases hq : tp = q
        · rw [if_pos hq, if_pos (by rw [hq])]
        · rw [if_neg hq, if_neg (fun h => hq (Option.some.inj h))]
    refine ⟨by rw [← hl7]; exact hB7.1.1, fun i hi hin => ?_, fun i hi => hB7.1.2.2 i (by rw [hl7]; exact hi),
      fun h => (by rw [hz] at h; cases h), fun _ => ⟨?_, fun q => ?_⟩⟩
    · rw [hB7.1.2.1 i (by rw [hl7]; exact hi), hf7 i, if_neg hin]
    · rw [hB7.1.2.1 node (by rw [hl7]; exact hnode), hf7 node, if_pos rfl]
    · rw [hB7.2 q, hc7 q]

/-- the pair of calls: `FE` across `setextHeadingParser.Close` in both runs -/
theorem fe_bpClose_setext {sA sA' sB sB' : St} {node t : Nat} {uA uB : Unit} (hfe : FE sA.nodes sB.nodes)
    (hlen : sB.nodes.length = sA.nodes.length + 1) (htA : sA.pc.tmpPara = some t)
    (htB : sB.pc.tmpPara = some (t + 1)) (hne : node ≠ t) (hnode : node < sA.nodes.length)
    (hlines : ((sB.nodes.getD (t + 1) default).lines.length == 0) = ((sA.nodes.getD t default).lines.length == 0))
    (hadj : ADJ sA.nodes t node) (eA : bpClose .setext node sA = .ok (uA, sA'))
    (eB : bpClose .setext (node + 1) sB = .ok (uB, sB')) : FE sA'.nodes sB'.nodes :=
  fe_setextClose hfe hlen (sx_setextClose htA hne hnode eA)
    (sx_setextClose htB (fun h => hne (Nat.succ.inj h)) (by rw [hlen]; exact Nat.succ_lt_succ hnode) eB)
    hlines hnode hadj

end GM.Blocks
