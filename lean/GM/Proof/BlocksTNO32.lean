/-
  GM.Proof.BlocksTNO32 — X-port of GM.Proof.BlocksTNO7 (namespace `GM.Blocks.TX`, `InvG` of GM.Proof.BlocksTNO30; new: `OpenEffG.pnew`,
  the line of a fresh Paragraph ends at a line end) — GM.Proof.BlocksTNO2 for the general invariant `InvG` of GM.Proof.BlocksTNO6: `CleanG`, `DirtyG`,
  `open_effG` (what `Open` of each of the ten block parsers does to a clean state). New relative to TNO2: the setext
  heading parser may answer a node (`OpenEffG.sxL`: the state stays clean — the new Heading node is exempt from the bound —
  and temporaryParagraphKey now names the last opened block, a Paragraph), under the hypothesis that then no setext
  block is open.
-/
import GM.Proof.BlocksTNO31

namespace GM.Blocks.TX
open GM GM.Text GM.Spec GM.Proof.Reader GM.Blocks.TO GM.TableX
open GM.Proof.BlocksWF0 (isRaw)


/-- a step that writes only a RAW node keeps the invariant (given the new store's range clause and the unchanged
    context keys) -/
theorem InvGFX.onlyN {X : Nat} {src : Bytes} {B : Int} {s s' : St} (hi : InvG src B s) (h : OnlyN X s s')
    (hraw : isRaw (nd s X).kind = true) (hpc : s'.pc = s.pc) (hn : NodesOK src s')
    (hX : OrdFrom 0 (nd s' X).lines ∧ Below B (nd s' X).lines) : InvG src B s' := by
  have hk : ∀ i, (nd s' i).kind = (nd s i).kind := fun i => by
    by_cases hx : i = X
    · subst hx; exact h.2.2
    · rw [h.2.1 i hx]
  refine ⟨fun i hr => ?_, by rw [hpc]; exact hi.ord, fun i hkp => ?_, fun t ht => ?_, fun b hb => ?_, hn, fun t ht hm => ?_,
    fun i hr => ?_, fun i hkp => ?_, fun b hb hd hbp => ?_⟩
  · by_cases hx : i = X
    · subst hx; rw [h.2.2, hraw] at hr; cases hr
    · rw [h.2.1 i hx] at hr ⊢; exact hi.nrb i hr
  · by_cases hx : i = X
    · subst hx; rw [h.2.2] at hkp; rw [hkp] at hraw; cases hraw
    · rw [h.2.1 i hx] at hkp ⊢; exact hi.pnb i hkp
  · rw [hpc] at ht; rw [hk]; exact hi.tmpk t ht
  · rw [hpc] at hb; rw [hk, h.1]; exact hi.kinds b hb
  · rw [hpc] at ht hm ⊢
    obtain ⟨a1, a2⟩ := hi.tl t ht hm
    refine ⟨?_, a2⟩
    by_cases hx : t = X
    · subst hx; have := hi.tmpk t ht; rw [this] at hraw; cases hraw
    · rw [h.2.1 t hx]; exact a1
  · by_cases hx : i = X
    · subst hx; exact hX
    · rw [h.2.1 i hx] at hr ⊢; exact hi.raw i hr
  · by_cases hx : i = X
    · subst hx; rw [h.2.2] at hkp; rw [hkp] at hraw; cases hraw
    · rw [h.2.1 i hx] at hkp ⊢; exact hi.pnl i hkp
  · rw [hpc] at hb
    have hx : b.node ≠ X := fun e0 => by
      have := (hi.kinds b hb).1; rw [e0, hbp] at this; rw [this] at hraw; cases hraw
    rw [h.2.1 b.node hx]; exact hi.pol b hb hd hbp


theorem lend_of_lineEnd {src : Bytes} {seg : Segment} {p : Nat} (hp : p ≤ src.length) (h : seg.stop = (lineEnd src p : Int)) :
    LEnd src seg := by
  rcases Nat.lt_or_ge (lineEnd src p) src.length with h1 | h1
  · right
    unfold NLAt
    rw [h, Int.toNat_natCast]
    exact lineEnd_nl_before src hp h1
  · left
    rw [h]
    have := lineEnd_le src p
    omega

structure CleanG (src : Bytes) (L : Int) (s : St) (c : RCur) : Prop where
  inv : InvG src L s
  ri : RI src s.r c
  pad : PadOK c
  le : L ≤ c.p
  padl : PadL L c

/-- `InvG` up to some `E` that the reader's line end has reached -/
def DirtyG (src : Bytes) (s : St) : Prop := ∃ E : Int, InvG src E s ∧ Stop src E s

theorem CleanG.dirty {src : Bytes} {L : Int} {s : St} {c : RCur} (h : CleanG src L s c) : DirtyG src s := by
  have h2 := lineEnd_ge src h.ri.inRange
  exact ⟨(lineEnd src c.p : Int), h.inv.mono (by have := h.le; omega), h.ri.stop⟩

theorem CleanG.invE {src : Bytes} {L : Int} {s : St} {c : RCur} (h : CleanG src L s c) :
    InvG src (lineEnd src c.p : Int) s := by
  have h2 := lineEnd_ge src h.ri.inRange
  exact h.inv.mono (by have := h.le; omega)


theorem CleanG.congr {src : Bytes} {L : Int} {s s' : St} {c : RCur} (h : CleanG src L s c) (hi : InvG src L s')
    (hr : s'.r = s.r) : CleanG src L s' c := ⟨hi, by rw [hr]; exact h.ri, h.pad, h.le, h.padl⟩

theorem InvGFX.snoc {src : Bytes} {B : Int} {s s' : St} {n : Node} (hi : InvG src B s) (h : s'.nodes = s.nodes ++ [n])
    (ho : s'.pc.opened = s.pc.opened)
    (ht : ∀ t, s'.pc.tmpPara = some t → t < s.nodes.length ∧ (nd s t).kind = .paragraph)
    (hb : NodeG B n) (hp : n.kind = .paragraph → ∀ t ∈ n.lines, NonBlankSeg src t)
    (hok : NodeOK src n) (htl : s'.pc.tmpPara = s.pc.tmpPara ∨ ∀ b ∈ s.pc.opened, b.bp ≠ .setext)
    (hrw : isRaw n.kind = true → OrdFrom 0 n.lines ∧ Below B n.lines)
    (hpn : n.kind = .paragraph → ∀ t ∈ n.lines.dropLast, NLAt src t) : InvG src B s' := by
  refine ⟨fun i => ?_, by rw [ho]; exact hi.ord, fun i hk => ?_, fun t htt => ?_, fun b hbm => ?_, fun m hm => ?_, fun t htt hm => ?_,
    fun i hr => ?_, fun i hk => ?_, fun b hbm hd hbp => ?_⟩
  · rw [nd_snoc h]; split
    · exact hi.nrb i
    · split
      · exact hb
      · exact fun _ _ => ⟨trivial, fun _ => Below.nil B, fun t ht => by cases ht⟩
  · rw [nd_snoc h] at hk ⊢; split
    · next h1 => rw [if_pos h1] at hk; exact hi.pnb i hk
    · next h1 =>
      rw [if_neg h1] at hk
      split
      · next h2 => rw [if_pos h2] at hk; exact hp hk
      · next h2 => rw [if_neg h2] at hk; cases hk
  · obtain ⟨h1, h2⟩ := ht t htt
    rw [nd_snoc h, if_pos h1]; exact h2
  · rw [ho] at hbm
    obtain ⟨h1, h2⟩ := hi.kinds b hbm
    rw [nd_snoc h, if_pos h2, h]
    exact ⟨h1, by simp; omega⟩
  · rw [h] at hm
    rcases List.mem_append.1 hm with h1 | h1
    · exact hi.nodes m h1
    · simp only [List.mem_singleton] at h1; rw [h1]; exact hok
  · rw [ho] at hm ⊢
    rcases htl with e0 | hsf
    · rw [e0] at htt
      obtain ⟨a1, a2⟩ := hi.tl t htt hm
      rw [nd_snoc h, if_pos (tmp_lt (hi.tmpk t htt))]
      exact ⟨a1, a2⟩
    · obtain ⟨b, hb, hs⟩ := hm.resolve_left id
      exact absurd hs (hsf b hb)
  · rw [nd_snoc h] at hr ⊢; split
    · next h1 => rw [if_pos h1] at hr; exact hi.raw i hr
    · next h1 =>
      rw [if_neg h1] at hr
      split
      · next h2 => rw [if_pos h2] at hr; exact hrw hr
      · next h2 => rw [if_neg h2] at hr; cases hr
  · rw [nd_snoc h] at hk ⊢; split
    · next h1 => rw [if_pos h1] at hk; exact hi.pnl i hk
    · next h1 =>
      rw [if_neg h1] at hk
      split
      · next h2 => rw [if_pos h2] at hk; exact hpn hk
      · next h2 => rw [if_neg h2] at hk; cases hk
  · rw [ho] at hbm
    rw [nd_snoc h, if_pos (hi.kinds b hbm).2]; exact hi.pol b hbm hd hbp

/-- what `Open` of any of the ten parsers does to a clean state (the contract `OpenPost` of GM.Proof.BlocksInv, the list
    parsers' own contracts, and `open_newNode`) -/
structure OpenEffG (src : Bytes) (L : Int) (bp : BP) (s : St) (c : RCur) (a : Option Nat × PState) (s' : St) : Prop where
  invE : InvG src (lineEnd src c.p : Int) s'
  stop : Stop src (lineEnd src c.p : Int) s'
  opened : s'.pc.opened = s.pc.opened
  boff : s'.pc.blockOffset = s.pc.blockOffset
  declined : a.1 = none → CleanG src L s' c ∧ s'.nodes = s.nodes ∧ s'.pc.tmpPara = s.pc.tmpPara
  container : a.2.hasChildren = true → ∃ c', CleanG src L s' c' ∧ c.p ≤ c'.p
  node : ∀ id, a.1 = some id → id = s.nodes.length ∧ id < s'.nodes.length ∧ (nd s' id).kind = bp.kind
  noreq : a.2.requirePara = true → bp = .setext
  cont : a.2.hasChildren = true → bp.isContainer = true
  tmplt : ∀ t, s'.pc.tmpPara = some t → t < s.nodes.length
  tmpsame : bp ≠ .setext → s'.pc.tmpPara = s.pc.tmpPara
  sxL : bp = .setext → a.1.isSome = true → (∃ c', CleanG src L s' c' ∧ c.p ≤ c'.p) ∧
    ∃ lb, s.pc.opened.getLast? = some lb ∧ (nd s lb.node).kind = .paragraph ∧ s'.pc.tmpPara = some lb.node
  snoc : ∀ id, a.1 = some id → ∃ n, s'.nodes = s.nodes ++ [n] ∧ n.kind = bp.kind
  pnew : ∀ id, a.1 = some id → bp = .paragraph → ∃ seg, (nd s' id).lines = [seg] ∧ LEnd src seg

theorem open_effG {src : Bytes} {L : Int} {s s' : St} {c : RCur} (bp : BP) (parent : Nat) {a : Option Nat × PState}
    (hc : CleanG src L s c) (hlt : c.p < src.length)
    (hoff : s.pc.blockOffset < (((RCur.view src c).getD []).length : Int))
    (hqq : bp = .setext → ∀ lb, s.pc.opened.getLast? = some lb → (nd s lb.node).kind = .paragraph →
      ∀ b ∈ s.pc.opened, b.bp ≠ .setext)
    (e : bpOpen bp parent s = .ok (a, s')) : OpenEffG src L bp s c a s' := by
  have hctx : LineCtx src s c := ⟨hc.ri, hlt, hc.pad, hoff, hc.inv.nodes⟩
  -- the reader never moves its line end back
  have hstop : Stop src (lineEnd src c.p : Int) s' := by
    have := (bpOpen_pres (stop_prims src (lineEnd src c.p : Int)) bp parent).h s hc.ri.stop
    rw [e] at this; exact this
  -- the common part, from: reader, stack, new node / no node, `tmpPara`
  have common : ∀ (c' : RCur), RI src s'.r c' → PadOK c' → c.p ≤ c'.p → (a.1 = none → c' = c) →
      (a.2.hasChildren = true → c' = c ∨ c.p < c'.p) → (bp = .setext → PadL L c') →
      s'.pc.opened = s.pc.opened → s'.pc.blockOffset = s.pc.blockOffset →
      (a.1 = none → s'.nodes = s.nodes) →
      (∀ id, a.1 = some id → id = s.nodes.length ∧ ∃ n, s'.nodes = s.nodes ++ [n] ∧ n.kind = bp.kind ∧ NodeOK src n ∧
        (isRaw bp.kind = false → a.2.hasChildren = true → n.lines = [])) →
      (∀ t, s'.pc.tmpPara = some t → t < s.nodes.length ∧ (nd s t).kind = .paragraph) →
      (a.2.hasChildren = true → a.1.isSome = true ∧ isRaw bp.kind = false) →
      (a.2.requirePara = true → bp = .setext) →
      (s'.pc.tmpPara = s.pc.tmpPara ∨ ((∀ b ∈ s.pc.opened, b.bp ≠ .setext) ∧ bp = .setext ∧ a.1.isSome = true)) →
      (bp = .setext → a.1.isSome = true → ∃ lb, s.pc.opened.getLast? = some lb ∧ (nd s lb.node).kind = .paragraph ∧
        s'.pc.tmpPara = some lb.node) →
      (a.2.hasChildren = true → bp.isContainer = true) →
      (∀ id, a.1 = some id → bp = .paragraph → ∃ seg, (nd s' id).lines = [seg] ∧ LEnd src seg) →
      OpenEffG src L bp s c a s' := by
    intro c' hri hpad hle hsame hprg hpsx ho hbo hnone hsome htmp hkids hreq htl hsx hcont hpn
    have hnewOK : ∀ id, a.1 = some id → ∀ n, s'.nodes = s.nodes ++ [n] → ∀ t ∈ n.lines, 0 ≤ t.start := by
      intro id ha n hn t ht
      obtain ⟨_, m, hm, _, hok, _⟩ := hsome id ha
      rw [hm] at hn
      have : n = m := by simpa using hn.symm
      subst this
      exact (hok.lines t ht).1
    have htl' : s'.pc.tmpPara = s.pc.tmpPara ∨ ∀ b ∈ s.pc.opened, b.bp ≠ .setext := by
      rcases htl with h | h
      · exact .inl h
      · exact .inr h.1
    -- `InvG` for every bound `B` that the new node (if any) respects
    have hinv : ∀ B : Int, InvG src B s → (∀ n, s'.nodes = s.nodes ++ [n] → NodeG B n ∧
        (isRaw n.kind = true → OrdFrom 0 n.lines ∧ Below B n.lines)) → InvG src B s' := by
      intro B hiB hnB
      cases ha : a.1 with
      | none =>
        have hn := hnone ha
        exact ⟨fun i => by simp only [nd, hn]; exact hiB.nrb i, by rw [ho]; exact hiB.ord,
          fun i => by simp only [nd, hn]; exact hiB.pnb i,
          fun t ht => by simp only [nd, hn]; exact (htmp t ht).2, fun b hb => by
            rw [ho] at hb; simp only [nd, hn]; exact hiB.kinds b hb, fun m hm => hiB.nodes m (by rw [← hn]; exact hm),
          fun t ht hm => by
            rw [ho] at hm ⊢
            rcases htl' with e0 | hsf
            · rw [e0] at ht; simp only [nd, hn]; exact hiB.tl t ht hm
            · obtain ⟨b, hb, hs⟩ := hm.resolve_left id; exact absurd hs (hsf b hb),
          fun i => by simp only [nd, hn]; exact hiB.raw i,
          fun i => by simp only [nd, hn]; exact hiB.pnl i,
          fun b hb hd hbp => by rw [ho] at hb; simp only [nd, hn]; exact hiB.pol b hb hd hbp⟩
      | some id =>
        obtain ⟨_, n, hn, hk, hok, _⟩ := hsome id ha
        exact hiB.snoc hn ho htmp (hnB n hn).1 (fun hp => ((TO.open_newNode bp parent hctx e hn hk).2 hp).2) hok htl' (hnB n hn).2
          (fun hp => by
            have hbp : bp = .paragraph := by rw [hk] at hp; cases bp <;> first | rfl | cases hp
            obtain ⟨seg, hl, _⟩ := hpn id ha hbp
            have hid : id = s.nodes.length := (hsome id ha).1
            rw [hid, GM.Blocks.L.nd_append_self hn] at hl
            rw [hl]; intro t ht; cases ht)
    refine ⟨hinv _ hc.invE (fun n hn => ?_), hstop, ho, hbo, fun ha => ?_, fun hch => ?_, fun id ha => ?_, hreq, hcont,
      fun t ht => (htmp t ht).1, fun hb => ?_, fun hb hs => ⟨⟨c', ⟨hinv L hc.inv (fun n hn => ?_), hri, hpad, by have := hc.le; omega, hpsx hb⟩, hle⟩,
        hsx hb hs⟩,
      fun id ha => by obtain ⟨_, n, hn, hk, _⟩ := hsome id ha; exact ⟨n, hn, hk⟩, hpn⟩
    · cases ha : a.1 with
      | none => exfalso; rw [hnone ha] at hn; simp at hn
      | some id =>
        obtain ⟨_, m, hm, hk, _, _⟩ := hsome id ha
        rw [hm] at hn
        have : n = m := by simpa using hn.symm
        subst this
        exact ⟨toG (TO.open_newNode bp parent hctx e hm hk).1, fun hr =>
          bpOpen_raw_new bp parent (by rw [← hk]; exact hr) hctx.ri hctx.lt hc.le hc.padl e hm (by rw [ha]; rfl)
            (hnewOK id ha n hm)⟩
    · have hcc := hsame ha
      subst hcc
      refine ⟨⟨hinv L hc.inv (fun n hn => ?_), hri, hpad, hc.le, hc.padl⟩, hnone ha, ?_⟩
      · exfalso; rw [hnone ha] at hn; simp at hn
      · rcases htl with h | ⟨_, _, hs⟩
        · exact h
        · rw [ha] at hs; cases hs
    · obtain ⟨hsm, hnr⟩ := hkids hch
      have hpl' : PadL L c' := by
        rcases hprg hch with h1 | h1
        · rw [h1]; exact hc.padl
        · intro _; have := hc.le; omega
      refine ⟨c', ⟨hinv L hc.inv (fun n hn => ?_), hri, hpad, by have := hc.le; omega, hpl'⟩, hle⟩
      cases ha : a.1 with
      | none => rw [ha] at hsm; cases hsm
      | some id =>
        obtain ⟨_, m, hm, hk, _, hl⟩ := hsome id ha
        rw [hm] at hn
        have : n = m := by simpa using hn.symm
        subst this
        exact ⟨fun _ _ => by rw [hl hnr hch]; exact ⟨trivial, fun _ => Below.nil L, fun t ht => by cases ht⟩,
          fun hr => by rw [hk, hnr] at hr; cases hr⟩
    · obtain ⟨hid, n, hn, hk, _, _⟩ := hsome id ha
      subst hid
      exact ⟨rfl, by rw [hn]; simp, by rw [GM.Blocks.L.nd_append_self hn]; exact hk⟩
    · rcases htl with h | ⟨_, h, _⟩
      · exact h
      · exact absurd h hb
    · cases ha : a.1 with
      | none => rw [ha] at hs; cases hs
      | some id =>
        obtain ⟨_, m, hm, hk, _, _⟩ := hsome id ha
        rw [hm] at hn
        have : n = m := by simpa using hn.symm
        subst this
        have hkh : n.kind = .heading := by rw [hk, hb]; rfl
        obtain ⟨q1, _, q3⟩ := (TO.open_newNode bp parent hctx e hm hk).1 (by rw [hkh]; rfl)
        exact ⟨fun _ _ => ⟨q1, fun hh => absurd hkh hh, q3⟩, fun hr => by rw [hkh] at hr; cases hr⟩
  have hpnew : ∀ id, a.1 = some id → bp = .paragraph → ∃ seg, (nd s' id).lines = [seg] ∧ LEnd src seg := by
    intro id ha hb
    subst hb
    have e' : paragraphOpen parent s = .ok (a, s') := e
    obtain ⟨_, _, _, _, _, _, _, h1 | ⟨h0, m, seg, hm, _, hl, _, _, _, _, h4, _⟩⟩ := (paragraphOpen_line hctx.ri parent).of_ok e'
    · rw [h1.1] at ha; cases ha
    · rw [h0] at ha
      cases ha
      exact ⟨seg, by rw [GM.Blocks.L.nd_append_self hm]; exact hl, lend_of_lineEnd hc.ri.inRange h4⟩
  by_cases hl1 : bp = .list
  · subst hl1
    have e' : listOpen parent s = .ok (a, s') := e
    obtain ⟨r', hr', hri, ho, hbo, _, htm, _, _, hnone, hsome⟩ := (listOpen_okl_ri src parent s c hc.ri).of_ok e'
    subst hr'
    refine common c hri hc.pad (Nat.le_refl _) (fun _ => rfl) (fun _ => .inl rfl) (fun hb => by cases hb) ho hbo (fun ha => (hnone ha).1) (fun id ha => ?_)
      (fun t ht => by rw [htm] at ht; exact ⟨tmp_lt (hc.inv.tmpk t ht), hc.inv.tmpk t ht⟩) (fun hch => ?_) ?_ ?_ ?_ ?_
      (fun _ _ hb => by cases hb)
    · obtain ⟨h1, _, _, _, ⟨n, hn, hk, _, hl, _, _, hok⟩, _⟩ := hsome id ha
      exact ⟨h1, n, hn, hk, hok, fun _ _ => hl⟩
    · cases ha : a.1 with
      | none => rw [(hnone ha).2.1] at hch; cases hch
      | some id => exact ⟨rfl, rfl⟩
    · intro hrq
      cases ha : a.1 with
      | none => rw [(hnone ha).2.1] at hrq; cases hrq
      | some id => rw [(hsome id ha).2.1] at hrq; cases hrq
    · exact .inl htm
    · intro hb; cases hb
    · intro _; rfl
  by_cases hl2 : bp = .listItem
  · subst hl2
    have e' : listItemOpen parent s = .ok (a, s') := e
    by_cases hkl : (nd s parent).kind = .list
    · obtain ⟨c', hri, hpad, hle, hsame, hprog, ho, hbo, htm, _, hnone, hsome⟩ :=
        (listItemOpen_okl src parent s c hctx (listItemOpen_kids e' hkl)).of_ok e'
      refine common c' hri hpad hle hsame (fun hch => .inr (hprog hch)) (fun hb => by cases hb) ho hbo hnone (fun id ha => ?_)
        (fun t ht => by rw [htm] at ht; exact ⟨tmp_lt (hc.inv.tmpk t ht), hc.inv.tmpk t ht⟩) (fun hch => ?_)
        (fun hrq => by rw [listItemOpen_noreq parent s a s' e'] at hrq; cases hrq) (.inl htm) (fun hb => by cases hb) (fun _ => rfl)
        (fun _ _ hb => by cases hb)
      · obtain ⟨h1, _, n, hn, hk, _, hl, hln, _⟩ := hsome id ha
        exact ⟨h1, n, hn, hk, ⟨(by rw [hl]; exact fun t ht => by cases ht), fun _ => hl⟩, fun _ _ => hl⟩
      · refine ⟨?_, rfl⟩
        cases ha : a.1 with
        | some id => rfl
        | none =>
          exfalso
          have h1 := hsame ha
          have h2 := hprog hch
          rw [h1] at h2
          omega
    · rw [GM.Blocks.L.listItemOpen_notList parent s hkl] at e'
      cases e'
      exact common c hc.ri hc.pad (Nat.le_refl _) (fun _ => rfl) (fun _ => .inl rfl) (fun hb => by cases hb) rfl rfl (fun _ => rfl) (fun id ha => by cases ha)
        (fun t ht => ⟨tmp_lt (hc.inv.tmpk t ht), hc.inv.tmpk t ht⟩) (fun hch => by cases hch) (fun hrq => by cases hrq)
        (.inl rfl) (fun hb => by cases hb) (fun _ => rfl) (fun _ _ hb => by cases hb)
  · have hO := ((specs_notList src).opn bp ⟨hl1, hl2⟩ parent s c hctx).of_ok e
    obtain ⟨c', hri, hpad, hle, hsame, hprog⟩ := hO.ri
    have hpsxv : bp = .setext → PadL L c' := by
      intro hb
      subst hb
      have e' : setextOpen parent s = .ok (a, s') := e
      obtain ⟨r', hri', hcase⟩ := setextOpen_line hc.ri e'
      have hr' : s'.r = r' := by
        rcases hcase with ⟨_, hs⟩ | ⟨_, _, _, _, _, _, hs⟩ <;> rw [hs]
      exact padl_of_ri_ri (by rw [hr']; exact hri') hri hc.padl
    have htlv : s'.pc.tmpPara = s.pc.tmpPara ∨ ((∀ b ∈ s.pc.opened, b.bp ≠ .setext) ∧ bp = .setext ∧ a.1.isSome = true) := by
      rcases hO.tmp with ⟨hb, hs, lb, h1, h2, _, _⟩ | ⟨_, htm⟩
      · exact .inr ⟨hqq hb lb h1 h2, hb, hs⟩
      · exact .inl htm
    have hsxv : bp = .setext → a.1.isSome = true → ∃ lb, s.pc.opened.getLast? = some lb ∧ (nd s lb.node).kind = .paragraph ∧
        s'.pc.tmpPara = some lb.node := by
      intro hb hs
      rcases hO.tmp with ⟨_, _, lb, h1, h2, _, h4⟩ | ⟨h, _⟩
      · exact ⟨lb, h1, h2, h4⟩
      · rcases h with h | h
        · exact absurd hb h
        · rw [h] at hs; cases hs
    refine common c' hri hpad hle hsame (fun hch => .inr (hprog hch)) hpsxv hO.opened hO.boff hO.noNode (fun id ha => ?_) (fun t ht => ?_) (fun hch => ?_)
      (fun hrq => (hO.req hrq).1) htlv hsxv (fun hch => (hO.kids hch).1) hpnew
    · obtain ⟨h1, n, hn, hk, hok, _⟩ := hO.newNode id ha
      refine ⟨h1, n, hn, hk, hok, fun hnr hch => ?_⟩
      -- a non-raw container other than list / list item is the block quote
      have hbq : bp = .blockquote := by
        have := (hO.kids hch).1
        cases bp <;> simp_all [BP.isContainer]
      subst hbq
      have e' : blockquoteOpen parent s = .ok (a, s') := e
      unfold blockquoteOpen at e'
      obtain ⟨b, s1, h1', k1⟩ := obind_ok e'
      obtain ⟨r1, c1, hs1, _⟩ := (blockquoteProcess_okl hc.ri).of_ok h1'
      subst s1
      split at k1
      · obtain ⟨id', s2, h2, k2⟩ := obind_ok k1
        obtain ⟨_, hs2⟩ := onewNode_ok h2
        subst s2
        obtain ⟨_, hs⟩ := opure_ok k2
        subst s'
        have : n = { kind := .blockquote } := by simpa using hn.symm
        subst this
        rfl
      · obtain ⟨hx, hs⟩ := opure_ok k1
        subst s'
        exfalso; simp at hn
    · rcases hO.tmp with ⟨_, _, lb, _, hk, _, htm⟩ | ⟨_, htm⟩
      · rw [htm] at ht; cases ht; exact ⟨tmp_lt hk, hk⟩
      · rw [htm] at ht; exact ⟨tmp_lt (hc.inv.tmpk t ht), hc.inv.tmpk t ht⟩
    · obtain ⟨h1, h2⟩ := hO.kids hch
      refine ⟨h2, ?_⟩
      cases bp <;> simp_all [BP.isContainer, BP.kind, isRaw]

end GM.Blocks.TX
