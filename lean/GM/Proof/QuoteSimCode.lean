/-
  GM.Proof.QuoteSimCode — one-line-step simulation of the indented code block parser (parser/code_block.go):
  `codeOpen_sim`, `codeContinue_sim`, `codeClose_sim`.
-/
import GM.Proof.QuoteSimPara

namespace GM.Blocks
open GM GM.Text GM.Spec GM.Proof.Reader

/-! ### `IndentPosition` on a tab-free line only passes over spaces -/

theorem ippLoop_tf_spaces (cur width : Int) : ∀ (bs : Bytes) (i w : Int), (∀ c ∈ bs, c ≠ 9) →
    ∃ n : Nat, (ippLoop cur width bs i 0 w).1 = i + n ∧ n ≤ bs.length ∧ ∀ c ∈ bs.take n, c = 32 := by
  intro bs
  induction bs with
  | nil => intro i w _; exact ⟨0, by simp [ippLoop], by simp, by simp⟩
  | cons b bs ih =>
    intro i w h
    have hb : (b == 9) = false := by
      have := h b (by simp); simpa using this
    unfold ippLoop
    simp only [hb, Bool.false_and, Bool.false_eq_true, if_false, Int.lt_irrefl]
    split
    · next hc =>
      simp only [Bool.and_eq_true, beq_iff_eq, decide_eq_true_eq] at hc
      obtain ⟨n, h1, h2, h3⟩ := ih (i + 1) (w + 1) (fun c hc => h c (by simp [hc]))
      refine ⟨n + 1, by rw [h1]; omega, by simp only [List.length_cons]; omega, ?_⟩
      intro c hc'
      simp only [List.take_succ_cons, List.mem_cons] at hc'
      rcases hc' with e | e
      · rw [e]; exact hc.1
      · exact h3 c e
    · exact ⟨0, by simp, by simp, by simp⟩

theorem indentPosition_tf_spaces (bs : Bytes) (h : ∀ c ∈ bs, c ≠ 9) (cur width : Int)
    (hp : 0 ≤ (indentPosition bs cur width).1) :
    ∃ n : Nat, (indentPosition bs cur width).1 = n ∧ n ≤ bs.length ∧ ∀ c ∈ bs.take n, c = 32 := by
  unfold indentPosition indentPositionPadding at hp ⊢
  split
  · exact ⟨0, by simp, by simp, by simp⟩
  · next hw =>
    rw [if_neg hw] at hp
    obtain ⟨n, h1, h2, h3⟩ := ippLoop_tf_spaces cur width bs 0 0 h
    simp only at hp ⊢
    split
    · exact ⟨n, by simp only; rw [h1]; omega, h2, h3⟩
    · next hh => rw [if_neg hh] at hp; simp at hp

theorem isBlank_of_spaces (bs : Bytes) (h : ∀ c ∈ bs, c = 32) : isBlank bs = true := by
  unfold isBlank
  rw [List.all_eq_true]
  intro c hc
  rw [h c hc]; rfl

/-- on a tab-free, non-blank line a non-negative `IndentPosition` is a position before the end of the line -/
theorem indentPosition_tf_lt (bs : Bytes) (h : ∀ c ∈ bs, c ≠ 9) (cur width : Int)
    (hp : 0 ≤ (indentPosition bs cur width).1) (hb : isBlank bs ≠ true) :
    (indentPosition bs cur width).1 < bs.length := by
  obtain ⟨n, h1, h2, h3⟩ := indentPosition_tf_spaces bs h cur width hp
  rw [h1]
  rcases Nat.lt_or_ge n bs.length with h4 | h4
  · omega
  · exfalso; apply hb
    rw [List.take_of_length_le h4] at h3
    exact isBlank_of_spaces bs h3

theorem viewA_tf {src : Bytes} (tf : ∀ c ∈ src, c ≠ 9) (ls p : Nat) : ∀ c ∈ (viewA src ls p).getD [], c ≠ 9 := by
  unfold viewA
  split
  · exact sub_tf tf _ _
  · intro c hc; simp at hc

theorem viewA_length {src : Bytes} (ls p : Nat) : ((viewA src ls p).getD []).length = lineEnd src ls - p := by
  unfold viewA
  split
  · simp only [Option.getD_some]
    rw [length_sub src (lineEnd_le src ls)]
  · simp only [Option.getD_none, List.length_nil]; omega

/-! ### `SegRel` for a segment of the current line that starts at a reader position -/

theorem segRel_of_inl {src k ls s} (h : SegIn src k ls s) (hi : InL src k ls s.start.toNat) :
    SegRel src s (shK k s) := by
  have hge := h.ge
  have hle := h.le
  have hst := h.stop
  exact ⟨k, ls, h.line, h.ge, h.le, h.stop, rfl⟩

/-! ### `Segment.TrimLeftSpaceWidth` -/

theorem tlswLoop_shift (d : Int) : ∀ (text : Bytes) (stop start w : Int),
    tlswLoop (stop + d) text (start + d) w = ((tlswLoop stop text start w).1 + d, (tlswLoop stop text start w).2) := by
  intro text
  induction text with
  | nil => intro stop start w; rfl
  | cons c cs ih =>
    intro stop start w
    unfold tlswLoop
    have e : (decide (start + d ≥ stop + d - 1)) = decide (start ≥ stop - 1) :=
      decide_eq_decide.mpr (by constructor <;> intro _ <;> omega)
    rw [e]
    split
    · rfl
    · split
      · rw [show start + d + 1 = start + 1 + d by omega]; exact ih _ _ _
      · split
        · rw [show start + d + 1 = start + 1 + d by omega]; exact ih _ _ _
        · rfl

theorem tlswLoop_bounds_qs : ∀ (text : Bytes) (stop start w : Int),
    start ≤ (tlswLoop stop text start w).1 ∧
      ((tlswLoop stop text start w).1 ≤ start ∨ (tlswLoop stop text start w).1 ≤ stop - 1) := by
  intro text
  induction text with
  | nil => intro stop start w; simp [tlswLoop]
  | cons c cs ih =>
    intro stop start w
    unfold tlswLoop
    split
    · simp
    · next hc =>
      simp only [Bool.or_eq_true, decide_eq_true_eq, not_or] at hc
      split
      · have := ih stop (start + 1) (w - 1); omega
      · split
        · have := ih stop (start + 1) (w - 4); omega
        · simp

theorem trimLeftSpaceWidth_q {src k ls s} (h : SegIn src k ls s) (w : Int) :
    ∃ t, s.trimLeftSpaceWidth w src = .ok t ∧ (shK k s).trimLeftSpaceWidth w (quotePrefix src) = .ok (shK k t) ∧
      t.stop = s.stop ∧ s.start ≤ t.start ∧ (t.start ≤ s.start ∨ t.start ≤ s.stop - 1) := by
  obtain ⟨e1, e2⟩ := sliceB_q h.line h.ge h.le h.stop
  unfold Segment.trimLeftSpaceWidth
  simp only [shK, e1, e2, bind, Except.bind, pure, Except.pure]
  split
  · exact ⟨_, rfl, rfl, rfl, by simp, by simp⟩
  · simp only [tlswLoop_shift]
    have hb := tlswLoop_bounds_qs (sub src s.start.toNat s.stop.toNat) s.stop s.start (tlswPad w s.padding).1
    exact ⟨_, rfl, rfl, rfl, hb.1, hb.2⟩

/-! ### the common tail of Open / Continue -/

theorem codeTakeLine_s2 {src k ls p} {sA sB : St} (h : SR src k ls p sA sB) (node : Nat) {pos padding : Int}
    (hn : 0 ≤ pos) (hpd : padding ≤ 0) (hlt : p + pos.toNat < lineEnd src ls) :
    S2 (fun _ _ sA' sB' => ∃ p', p ≤ p' ∧ SR src k ls p' sA' sB')
      (codeTakeLine node pos padding sA) (codeTakeLine (node + 1) pos padding sB) := by
  have hi := h.r.inl
  have hi1 : InL src k ls (p + pos.toNat) :=
    ⟨hi.line, by have := hi.ge; omega, by omega, fun e => by omega⟩
  unfold codeTakeLine
  refine S2.bind (advanceAndSetPadding_s2 h rfl rfl hn hpd hi1) (fun _ _ sA1 sB1 h1 => ?_)
  refine S2.bind (peekLine_s2 h1) (fun a b sA2 sB2 hq => ?_)
  obtain ⟨ha, hb, h2⟩ := hq
  subst ha hb
  simp only
  have e1 : ¬ ((segA src ls (p + pos.toNat)).padding != 0) = true := by simp [segA]
  have e2 : ¬ ((shK k (segA src ls (p + pos.toNat))).padding != 0) = true := by simp [segA, shK]
  rw [if_neg e1, if_neg e2]
  refine S2.bind (P := fun a b sA' sB' => a = segA src ls (p + pos.toNat) ∧ b = shK k a ∧
    SR src k ls (p + pos.toNat) sA' sB') (S2.pure ⟨rfl, rfl, h2⟩) (fun a b sA3 sB3 hq => ?_)
  obtain ⟨ha, hb, h3⟩ := hq
  subst hb; subst ha
  have hin : SegIn src k ls { segA src ls (p + pos.toNat) with forceNewline := true } := by
    have hs := segA_in hi1
    exact ⟨hs.line, hs.ge, hs.le, hs.stop⟩
  have hseg : SegRel src { segA src ls (p + pos.toNat) with forceNewline := true }
      (shK k { segA src ls (p + pos.toNat) with forceNewline := true }) :=
    segRel_of_in hin (by simp only [segA]; omega)
  refine S2.bind (appendLine_s2 h3 node hseg (.inl (by show ((p + pos.toNat : Nat) : Int) < ((lineEnd src ls : Nat) : Int); omega)))
    (fun _ _ sA5 sB5 h5 => ?_)
  refine S2.mono (advance_s2 h5 (by simp only [Segment.len, shK, segA]; omega)
    (by simp only [Segment.len, segA]; omega) ?_) (fun _ _ sA6 sB6 h6 => ?_)
  · refine ⟨hi.line, by have := hi.ge; omega, ?_, fun e => ?_⟩
    · simp only [Segment.len, segA]; omega
    · exfalso; simp only [Segment.len, segA] at e; omega
  · exact ⟨_, by omega, h6⟩

/-! ### codeBlockParser.Open -/

theorem codeOpen_sim (src : Bytes) : OpenSim src .code := by
  intro k ls p parent sA sB h
  show S2 _ (codeOpen parent sA) (codeOpen (parent + 1) sB)
  unfold codeOpen
  refine S2.bind (peekLine_s2 h) (fun a b sA1 sB1 hq => ?_)
  obtain ⟨ha, hb, h1⟩ := hq
  subst ha hb
  simp only
  refine S2.bind (lineOffset_s2 h1) (fun a b sA2 sB2 hq => ?_)
  obtain ⟨_, h2⟩ := hq
  have htf := viewA_tf h.r.tf ls p
  rw [indentPosition_tf _ htf b a 4]
  by_cases hc : (decide ((indentPosition ((viewA src ls p).getD []) a 4).fst < 0) ||
      isBlank ((viewA src ls p).getD [])) = true
  · rw [if_pos hc]
    exact S2.pure ⟨⟨rfl, .inl ⟨rfl, rfl⟩⟩, p, Nat.le_refl _, h2⟩
  · rw [if_neg hc]
    simp only [Bool.or_eq_true, decide_eq_true_eq, not_or, Int.not_lt] at hc
    obtain ⟨hpos, hnb⟩ := hc
    have hlt := indentPosition_tf_lt _ htf a 4 hpos hnb
    rw [viewA_length] at hlt
    have hpad := (indentPosition_tf_pad _ htf a 4 (by decide)).1
    refine S2.bind (newNode_s2 h2 _ _ (nodeRel_new src { kind := .codeBlock } rfl rfl rfl rfl (by decide)))
      (fun n m sA3 sB3 hq => ?_)
    obtain ⟨_, hm, hn0, h3⟩ := hq
    subst hm
    refine S2.bind (codeTakeLine_s2 h3 n hpos hpad (by omega)) (fun _ _ sA4 sB4 hq => ?_)
    obtain ⟨p', hp', h4⟩ := hq
    exact S2.pure ⟨⟨rfl, .inr ⟨n, hn0, rfl, rfl⟩⟩, p', hp', h4⟩

/-! ### codeBlockParser.Continue -/

/-- `Continue` of the code block parser when there is a current line (on an exhausted reader the "blank line" it would
    append is empty, which the relation does not allow in a raw block: `NodeRel.rawNE`) -/
theorem codeContinue_sim' (src : Bytes) : ∀ k ls p node sA sB, SR src k ls p sA sB → p < src.length →
    S2 (fun a b sA' sB' => b = a ∧ ∃ p', p ≤ p' ∧ SR src k ls p' sA' sB')
      (bpContinue .code node sA) (bpContinue .code (node + 1) sB) := by
  intro k ls p node sA sB h hp
  show S2 _ (codeContinue node sA) (codeContinue (node + 1) sB)
  unfold codeContinue
  refine S2.bind (peekLine_s2 h) (fun a b sA1 sB1 hq => ?_)
  obtain ⟨ha, hb, h1⟩ := hq
  subst ha hb
  simp only
  have htf := viewA_tf h.r.tf ls p
  have hi := h.r.inl
  by_cases hc : isBlank ((viewA src ls p).getD []) = true
  · rw [if_pos hc, if_pos hc]
    refine S2.bind (source_s2 h1) (fun a b sA2 sB2 hq => ?_)
    obtain ⟨ha, hb, h2⟩ := hq
    rw [ha, hb]
    obtain ⟨t, e1, e2, t1, t2, t3⟩ := trimLeftSpaceWidth_q (segA_in hi) 4
    refine S2.bind (P := fun a b sA' sB' => a = t ∧ b = shK k t ∧ SR src k ls p sA' sB')
      (S2.liftE (fun a ha => ⟨shK k t, e2, by rw [e1] at ha; cases ha; exact ⟨rfl, rfl, h2⟩⟩))
      (fun a b sA3 sB3 hq => ?_)
    obtain ⟨ha, hb, h3⟩ := hq
    subst hb; subst ha
    have hs1 : (segA src ls p).start = p := rfl
    have hs2 : (segA src ls p).stop = lineEnd src ls := rfl
    rw [hs1] at t2 t3
    rw [hs2] at t1 t3
    have hge := hi.ge
    have hle := hi.le
    have hin : SegIn src k ls a := ⟨hi.line, by omega, by omega, by omega⟩
    have hinl : InL src k ls a.start.toNat := ⟨hi.line, by omega, by omega, fun e => hi.eof (by omega)⟩
    have hplt := hi.lt_iff.mp hp
    refine S2.bind (appendLine_s2 h3 node (segRel_of_inl hin hinl) (.inl (by rcases t3 with t3 | t3 <;> omega)))
      (fun _ _ sA4 sB4 h4 => ?_)
    exact S2.pure ⟨rfl, p, Nat.le_refl _, h4⟩
  · rw [if_neg hc, if_neg hc]
    refine S2.bind (lineOffset_s2 h1) (fun a b sA2 sB2 hq => ?_)
    obtain ⟨_, h2⟩ := hq
    rw [indentPosition_tf _ htf b a 4]
    by_cases hneg : (indentPosition ((viewA src ls p).getD []) a 4).fst < 0
    · rw [if_pos hneg, if_pos hneg]
      exact S2.pure ⟨rfl, p, Nat.le_refl _, h2⟩
    · rw [if_neg hneg, if_neg hneg]
      have hpos := Int.not_lt.mp hneg
      have hlt := indentPosition_tf_lt _ htf a 4 hpos hc
      rw [viewA_length] at hlt
      have hpad := (indentPosition_tf_pad _ htf a 4 (by decide)).1
      refine S2.bind (codeTakeLine_s2 h2 node hpos hpad (by omega)) (fun _ _ sA4 sB4 hq => ?_)
      obtain ⟨p', hp', h4⟩ := hq
      exact S2.pure ⟨rfl, p', hp', h4⟩

/-! ### codeBlockParser.Close -/

theorem SegRel.segIn {src s t} (h : SegRel src s t) : ∃ k ls, SegIn src k ls s ∧ t = shK k s := by
  obtain ⟨k, ls, hl, h1, h2, h3, e⟩ := h
  exact ⟨k, ls, ⟨hl, h1, h2, h3⟩, e⟩

/-- `Segment.Value` of a segment of line `k` and of the moved segment on the prefixed source (any padding) -/
theorem value_q {src k ls s} (h : SegIn src k ls s) : (shK k s).value (quotePrefix src) = s.value src := by
  obtain ⟨e1, e2⟩ := sliceB_q h.line h.ge h.le h.stop
  have hn : ∀ r, needsNewline (shK k s) r = needsNewline s r := fun _ => rfl
  unfold Segment.value
  simp only [hn]
  simp only [shK, e1, e2]
  have e : s.padding + (s.stop + 2 * ((k : Int) + 1)) - (s.start + 2 * ((k : Int) + 1)) + 1 =
      s.padding + s.stop - s.start + 1 := by omega
  rw [e]
  rfl

theorem SegsRel.getElem? {src} : ∀ {as bs : List Segment} (i : Nat) {s : Segment}, SegsRel src as bs →
    as[i]? = some s → ∃ t, bs[i]? = some t ∧ SegRel src s t := by
  intro as
  induction as with
  | nil => intro bs i s _ e; simp at e
  | cons a as ih =>
    intro bs i s h e
    cases bs with
    | nil => exact h.elim
    | cons b bs =>
      obtain ⟨h1, h2⟩ := h
      cases i with
      | zero => simp at e; subst e; exact ⟨b, by simp, h1⟩
      | succ i => simp at e ⊢; exact ih i h2 e

theorem SegsRel.take {src} : ∀ {as bs : List Segment} (n : Nat), SegsRel src as bs →
    SegsRel src (as.take n) (bs.take n) := by
  intro as
  induction as with
  | nil =>
    intro bs n h
    cases bs with
    | nil => simp; trivial
    | cons b bs => exact h.elim
  | cons a as ih =>
    intro bs n h
    cases bs with
    | nil => exact h.elim
    | cons b bs =>
      obtain ⟨h1, h2⟩ := h
      cases n with
      | zero => simp; trivial
      | succ n => simp only [List.take_succ_cons]; exact ⟨h1, ih n h2⟩

theorem codeTrimLoop_q {src} {as bs : List Segment} (h : SegsRel src as bs) : ∀ (j : Nat) (v : Int),
    codeTrimLoop src as j = .ok v → codeTrimLoop (quotePrefix src) bs j = .ok v := by
  intro j
  induction j with
  | zero => intro v hv; exact hv
  | succ j ih =>
    intro v hv
    unfold codeTrimLoop at hv ⊢
    unfold lineAt segAt at hv ⊢
    have hneg : ¬ ((j : Int) < 0) := by omega
    simp only [if_neg hneg, Int.toNat_natCast] at hv ⊢
    cases ha : as[j]? with
    | none => rw [ha] at hv; cases hv
    | some s =>
      obtain ⟨t, hb, hst⟩ := SegsRel.getElem? j h ha
      obtain ⟨k, ls, hin, et⟩ := hst.segIn
      rw [ha] at hv
      rw [hb, et]
      simp only [bind, Except.bind] at hv ⊢
      rw [value_q hin]
      cases hval : s.value src with
      | error e => rw [hval] at hv; cases hv
      | ok x =>
        rw [hval] at hv
        simp only at hv ⊢
        split
        · next hbk => rw [if_pos hbk] at hv; exact ih v hv
        · next hbk => rw [if_neg hbk] at hv; exact hv

theorem codeClose_sim (src : Bytes) : CloseSim src .code := by
  intro k ls p node sA sB h
  show S2 _ (codeClose node sA) (codeClose (node + 1) sB)
  unfold codeClose
  refine S2.bind (getNode_s2 h node) (fun a b sA1 sB1 hq => ?_)
  obtain ⟨hab, h1⟩ := hq
  refine S2.bind (source_s2 h1) (fun x y sA2 sB2 hq => ?_)
  obtain ⟨hx, hy, h2⟩ := hq
  rw [hx, hy]
  have hlen : b.lines.length = a.lines.length := SegsRel.length hab.lines
  rw [hlen, hab.linesNil]
  refine S2.bind (P := fun x y sA' sB' => y = x ∧ SR src k ls p sA' sB')
    (S2.liftE (fun v hv => ⟨v, codeTrimLoop_q hab.lines _ v hv, rfl, h2⟩)) (fun len len' sA3 sB3 hq => ?_)
  obtain ⟨hl, h3⟩ := hq
  rw [hl]
  simp only
  by_cases hc : (a.linesNil && len + 1 != 0) = true
  · rw [if_pos hc, if_pos hc]
    exact S2.bind (P := fun _ _ _ _ => False) S2.throwL (fun _ _ _ _ hf => hf.elim)
  · rw [if_neg hc, if_neg hc]
    refine modNode_s2 h3 node _ _ (fun a b hab => ?_)
    exact { hab with lines := SegsRel.take _ hab.lines, rawNE := fun hr l hl => hab.rawNE hr l (List.mem_of_mem_take hl) }

end GM.Blocks
