-- GENERATED from BlocksTNP22.lean by tools/port_blocks_v.py (package headingids): the same proofs for the monitored driver runV. Do not edit.
/-
  GM.Proof.BlocksTNP22 — general no-panic proof, part 2: `closeLoopV` / `closeBlocksV` on the weak key invariant, with the
  tree-link frame (`TF`, `KidsOK`, `PLTf`), `TreeOK`, and the frame of "`x` is the last child of `q`" (`LK`) for nodes
  `x` outside the closed range (`LKHyp`). Analogue of `L.TV.closeListLT_oke` / `closeBlocksLT_oke` (GM.Proof.BlocksTNP3).
-/
import GM.Proof.BlocksVNP21

namespace GM.Blocks.L.GV
open GM GM.Text GM.Spec GM.Proof.Reader GM.Blocks.TV GM.Blocks.TRV

/-! ### every `Close`, generically in the tree invariant -/

theorem inv_bpClose {I : St → Prop} {GC GP : Nat → Prop} (T : TInv I GC GP) (src : Bytes) (bp : BP) (node : Nat)
    (s s' : St) (hn : NodesOK src s) (hb : BlockOK s ⟨node, bp⟩) (hkids : KidsOK s)
    (ht : bp = .setext → ∀ t, s.pc.tmpPara = some t → (nd s t).kind = .paragraph ∧ (nd s t).lines ≠ [] ∧ GC t)
    (hgp : bp = .list → ∀ c ∈ (nd s node).children, GP c) (hi : I s) (h : bpClose bp node s = .ok ((), s')) : I s' := by
  cases bp <;> unfold bpClose at h
  · exact inv_setextClose T node s s' hb (ht rfl) hi h
  · cases h; exact hi
  · exact inv_listClose T node s s' hkids hb.kind (hgp rfl) hi h
  · cases h; exact hi
  · exact T.ts ((codeClose_tsame node).h s () s' h) hi
  · cases h; exact hi
  · exact T.ts ((fencedClose_tsame node).h s () s' h) hi
  · cases h; exact hi
  · cases h; exact hi
  · exact T.ts (paragraphClose_tf node s s' hb hn h) hi

/-- every `Close` from the weak key: contract, tree-link frame, `PLTf` -/
theorem closeG {src : Bytes} (lsp : LSp src) (bp : BP) (node : Nat) (s : St) (hsrc : s.r.source = src)
    (hn : NodesOK src s) (hk : W.KeysOKF s) (hb : BlockOK s ⟨node, bp⟩) (hkids : KidsOK s) (hplt : PLTf s)
    (htm : bp = .setext → TmpOK s) :
    OKL (fun (_ : Unit) s' => ClosePost src bp node s s' ∧ TF s s' ∧ PLTf s' ∧ bpClose bp node s = .ok ((), s'))
      (bpClose bp node s) := by
  by_cases hs : bp = .setext
  · have hkf : KeysOK s := KeysOK.ofF hk (htm hs)
    rcases closeAll src bp node s hsrc hn hkf hb with ⟨a, s1, e1, h1⟩ | e1
    · exact .inl ⟨a, s1, e1, h1, lsp.closeTF bp node s s1 hn hkf hb hkids e1,
        lsp.closePLT bp node s s1 hn hkf hb hkids hplt e1, e1⟩
    · exact .inr e1
  · rcases W.closeW_all src bp hs node s hsrc hn hk hb with ⟨a, s1, e1, h1⟩ | e1
    · exact .inl ⟨a, s1, e1, h1, W.bpClose_tfW src bp hs node s s1 hn hb hkids e1,
        (W.bpClose_pltW src bp hs node s s1 hn hb hkids hplt e1).1, e1⟩
    · exact .inr e1

/-! ### the transformer call with all frames -/

/-- the KEEP case of a transformer call changes no tree link and satisfies `Ext` -/
theorem keep_facts {src : Bytes} {node : Nat} {s s' : St} (hlt : node < s.nodes.length)
    (hp : PTPost node s s') (hg : TStep src node s s' false) (hpar : (nd s node).parent.isSome = true) :
    TreeSame s s' ∧ Ext s s' := by
  rcases hp.res with ⟨refs, k, hk, e⟩ | ⟨refs, p, hpp, e⟩
  · have hnodes : s'.nodes = s.nodes.set node { (nd s node) with lines := (nd s node).lines.drop k } := by rw [e]
    refine ⟨by rw [e]; exact fr_treeSame_set s node _ _ _ ⟨rfl, rfl, rfl, rfl⟩, Ext.of_set hnodes rfl (fun _ h0 => ?_)⟩
    simp only at h0; rw [h0] at hk; simp at hk
  · exfalso
    have hEn : (ptEmptied s node refs).nodes = s.nodes.set node { (nd s node) with lines := [] } := rfl
    have hElt : node < (ptEmptied s node refs).nodes.length := by rw [hEn, List.length_set]; exact hlt
    have hEp : (nd (ptEmptied s node refs) node).parent = some p := by rw [nd_of_set_self hEn hlt]; exact hpp
    obtain ⟨s2, e2, _, hpar2⟩ := ptReplace_eq node p (nd s node).blankPrev (ptEmptied s node refs) hElt hEp
    rw [e2] at e; cases e
    have := (hg.keep rfl).2
    rw [hpar2] at this
    rw [← this] at hpar; cases hpar

theorem transformParagraphG_oke {src : Bytes} {e : Panic} : ∀ (pts : List PT), PTsSpec src e pts →
    ∀ (node : Nat) (s : St), s.r.source = src → node < s.nodes.length → (nd s node).kind = .paragraph →
      (nd s node).parent.isSome = true → (nd s node).lines ≠ [] → NodesOK src s → KidsOK s → PLTf s → TreeOK s →
      OKE e (fun g s' => TStep src node s s' g ∧ TF s s' ∧ PLTf s' ∧ TreeOK s' ∧
        (∀ x q, x ≠ node → LK s x q → LK s' x q) ∧ (g = false → TreeSame s s' ∧ Ext s s'))
        (transformParagraph pts node s) := by
  intro pts
  induction pts with
  | nil =>
    intro _ node s _ _ _ _ hl hn _ hplt htree
    unfold transformParagraph
    exact OKE.ok ⟨TStep.refl hn hl, L.TF.refl s, hplt, htree, fun _ _ _ h => h, fun _ => ⟨TreeSame.refl s, Ext.refl s⟩⟩
  | cons pt pts ih =>
    intro hs node s hsrc hlt hk hp hl hn hkids hplt htree
    unfold transformParagraph
    have h1 : OKE e (fun (_ : Unit) s1 => ∃ g, TStep src node s s1 g ∧ TF s s1 ∧ PLTf s1 ∧ TreeOK s1 ∧
        (∀ x q, x ≠ node → LK s x q → LK s1 x q) ∧ (g = false → TreeSame s s1 ∧ Ext s s1)) (pt node s) := by
      rcases hs pt (List.mem_cons_self ..) node s hsrc hlt hk hp hn with ⟨s1, e1, hpost⟩ | e1
      · rw [e1]
        obtain ⟨g, a, b, c⟩ := L.TV.tstepL_of_post hn hlt hk hkids hplt hpost
        exact OKE.ok ⟨g, a, b, c, treeOK_post hlt htree hpost, fun x q hx hlk => lk_post hx htree hlk hpost,
          fun hg => keep_facts hlt hpost (hg ▸ a) hp⟩
      · exact .inr e1
    refine OKE.bind h1 (fun _ s1 hg => ?_)
    obtain ⟨g, hg, htf, hplt1, htree1, hlk1, hkeep1⟩ := hg
    refine OKE.bind (m := getNode node) (P := fun n sy => n = nd s1 node ∧ sy = s1) (OKE.ok ⟨rfl, rfl⟩) (fun n sy hy => ?_)
    obtain ⟨hn1, hsy⟩ := hy
    subst n sy
    cases g with
    | true =>
      have : (nd s1 node).parent.isNone = true := by rw [hg.goneP rfl]; rfl
      rw [if_pos this]
      exact OKE.ok ⟨hg, htf, hplt1, htree1, hlk1, fun h => by cases h⟩
    | false =>
      obtain ⟨hl1, hp1⟩ := hg.keep rfl
      have : ¬ (nd s1 node).parent.isNone = true := by
        rw [hp1]; cases hh : (nd s node).parent with
        | none => rw [hh] at hp; cases hp
        | some _ => simp
      rw [if_neg this]
      have := ih (fun q hq => hs q (List.mem_cons_of_mem _ hq)) node s1 (by rw [hg.r]; exact hsrc)
        (Nat.lt_of_lt_of_le hlt hg.len) (by rw [hg.kind node hlt]; exact hk) (by rw [hp1]; exact hp) hl1 hg.nodes
        (L.TV.KidsOK.tfW hkids hg.extW htf) hplt1 htree1
      exact this.mono (fun g2 s2 h2 => ⟨hg.trans h2.1, L.TV.TF.transW htf hg.extW h2.2.1 h2.1.extW, h2.2.2.1, h2.2.2.2.1,
        fun x q hx hlk => h2.2.2.2.2.1 x q hx (hlk1 x q hx hlk),
        fun hg2 => ⟨(hkeep1 rfl).1.trans (h2.2.2.2.2.2 hg2).1, (hkeep1 rfl).2.trans (h2.2.2.2.2.2 hg2).2⟩⟩)

/-! ### closeBlocksV -/

/-- closing `c` (with its transformation when it is a paragraph) does not invalidate the kept block `k` -/
def CompatG (s : St) (k c : Block) : Prop := CompatT s k c ∧ (k.bp = .setext → c.bp ≠ .paragraph)

theorem CompatG.of_container {s : St} {k c : Block} (h : c.bp.isContainer = true) : CompatG s k c :=
  ⟨CompatT.of_container h, fun _ hc => absurd hc (container_kind h).1⟩

theorem CompatG.of_container_left {s : St} {k c : Block} (h : k.bp.isContainer = true) : CompatG s k c :=
  ⟨CompatT.of_container_left h, fun hk => absurd hk (container_kind h).2.1⟩

/-- the store-level invariants at every point of the driver -/
structure CInv (src : Bytes) (s : St) : Prop where
  nodes : NodesOK src s
  keys : W.KeysOKF s
  kids : KidsOK s
  plt : PLTf s
  tree : TreeOK s

/-- what `closeListV` / `closeBlocksV` guarantee; `K` = the blocks that stay open -/
structure CRel (src : Bytes) (K : List Block) (s s' : St) : Prop where
  r : s'.r = s.r
  inv : CInv src s'
  extw : ExtW s s'
  tmp : s'.pc.tmpPara = s.pc.tmpPara ∨ s'.pc.tmpPara = none
  tf : TF s s'
  blocks : ∀ k ∈ K, BlockOK s' k
  tmpok : (∃ k ∈ K, k.bp = .setext) → TmpOK s → TmpOK s'

theorem CRel.refl {src : Bytes} {K : List Block} {s : St} (hi : CInv src s) (hK : ∀ k ∈ K, BlockOK s k) :
    CRel src K s s := ⟨rfl, hi, ExtW.refl s, .inl rfl, L.TF.refl s, hK, fun _ h => h⟩

theorem CRel.trans {src : Bytes} {K : List Block} {s s1 s2 : St} (h1 : CRel src K s s1) (h2 : CRel src K s1 s2) :
    CRel src K s s2 where
  r := by rw [h2.r, h1.r]
  inv := h2.inv
  extw := h1.extw.trans h2.extw
  tmp := by
    rcases h2.tmp with h | h
    · rw [h]; exact h1.tmp
    · exact .inr h
  tf := L.TV.TF.transW h1.tf h1.extw h2.tf h2.extw
  blocks := h2.blocks
  tmpok := fun hk ht => h2.tmpok hk (h1.tmpok hk ht)

/-- what the frame of "`x` is the last child of `q`" over the closing of `l` needs -/
def LKHyp (s : St) (l : List Block) (x q : Nat) : Prop :=
  (∀ b ∈ l, b.node ≠ x) ∧ s.pc.tmpPara ≠ some x ∧
    ((nd s q).kind = .listItem → ∀ b ∈ l, (nd s q).parent ≠ some b.node)

theorem LKHyp.step {src : Bytes} {K l l' : List Block} {s s1 : St} {x q : Nat} (h : LKHyp s l x q) (hr : CRel src K s s1)
    (hlk : LK s x q) (hsub : ∀ b ∈ l', b ∈ l) : LKHyp s1 l' x q := by
  refine ⟨fun b hb => h.1 b (hsub b hb), ?_, fun hk b hb => ?_⟩
  · rcases hr.tmp with e | e
    · rw [e]; exact h.2.1
    · rw [e]; simp
  · have hk0 : (nd s q).kind = .listItem := by rw [← hr.extw.kind q hlk.qlt]; exact hk
    rw [hr.tf.parent q hlk.qlt (by rw [hk0]; rfl)]
    exact h.2.2 hk0 b (hsub b hb)

section close
variable {src : Bytes} (lsp : LSp src) {e : Panic} {pts : List PT} (hpts : PTsSpec src e pts)
include lsp hpts

theorem closeListG_oke (K : List Block) : ∀ (l : List Block) (s : St), s.r.source = src → CInv src s →
    (∀ b ∈ l, BlockOK s b) → (∀ b ∈ l.tail, b.bp.isContainer = true) →
    ((∃ b ∈ l, b.bp = .setext) → TmpOK s) →
    (∀ k ∈ K, BlockOK s k ∧ ∀ top, l.head? = some top → CompatG s k top) →
    OKE e (fun _ s' => s'.pc.opened = s.pc.opened ∧ CRel src K s s' ∧ ∀ x q, LK s x q → LKHyp s l x q → LK s' x q)
      (closeListV pts l s) := by
  intro l
  induction l with
  | nil =>
    intro s _ hi _ _ _ hK
    exact OKE.ok ⟨rfl, CRel.refl hi (fun k hk => (hK k hk).1), fun _ _ h _ => h⟩
  | cons top cs ih =>
    intro s hsrc hi hl hcs htl hK
    unfold closeListV
    refine OKE.bind (m := getNode top.node) (P := fun n s1 => n = nd s top.node ∧ s1 = s)
      (OKE.ok ⟨rfl, rfl⟩) (fun n s0 hn0 => ?_)
    obtain ⟨hn0, hs0⟩ := hn0
    subst n s0
    have htop := hl top (by simp)
    have hcsc : ∀ top', cs.head? = some top' → top'.bp.isContainer = true := fun top' ht => hcs top' (by
      cases cs with
      | nil => simp at ht
      | cons a as => simp at ht; subst ht; simp)
    have rest : ∀ s1 : St, s1.pc.opened = s.pc.opened → CRel src K s s1 → (∀ b ∈ cs, BlockOK s1 b) →
        (∀ x q, LK s x q → LKHyp s (top :: cs) x q → LK s1 x q) →
        OKE e (fun _ s' => s'.pc.opened = s.pc.opened ∧ CRel src K s s' ∧
          ∀ x q, LK s x q → LKHyp s (top :: cs) x q → LK s' x q) (closeListV pts cs s1) := by
      intro s1 hop h1 hcs1 hf1
      have := ih s1 (by rw [h1.r]; exact hsrc) h1.inv hcs1 (fun b hb => hcs b (List.mem_of_mem_tail hb))
        (fun ⟨b, hb, hs⟩ => by have := hcs b hb; rw [hs] at this; cases this)
        (fun k hk' => ⟨h1.blocks k hk', fun top' ht => CompatG.of_container (hcsc top' ht)⟩)
      refine OKE.mono this (fun _ s2 h2 => ?_)
      obtain ⟨hop2, h2r, hf2⟩ := h2
      exact ⟨by rw [hop2, hop], h1.trans h2r, fun x q hlk hh =>
        hf2 x q (hf1 x q hlk hh) (hh.step h1 hlk (fun b hb => List.mem_cons_of_mem _ hb))⟩
    have close : ∀ s1 : St, s1.pc.opened = s.pc.opened → CRel src K s s1 → (∀ b ∈ cs, BlockOK s1 b) →
        (∀ x q, LK s x q → LKHyp s (top :: cs) x q → LK s1 x q) →
        BlockOK s1 top → (∀ k ∈ K, Compat s1 k top) → (top.bp = .setext → TmpOK s1) →
        OKE e (fun _ s' => s'.pc.opened = s.pc.opened ∧ CRel src K s s' ∧
          ∀ x q, LK s x q → LKHyp s (top :: cs) x q → LK s' x q)
          ((do
            if (← getNode top.node).parent.isSome then bpCloseV top.bp top.node
            closeListV pts cs : M Unit) s1) := by
      intro s1 hop h1 hcs1 hf1 htop1 hcomp1 htm1
      refine OKE.bind (m := getNode top.node) (P := fun n sy => n = nd s1 top.node ∧ sy = s1)
        (OKE.ok ⟨rfl, rfl⟩) (fun n sy hy => ?_)
      obtain ⟨hn0, hsy⟩ := hy
      subst n sy
      by_cases hp : (nd s1 top.node).parent.isSome = true
      · rw [if_pos hp]
        have hc := closeG lsp top.bp top.node s1 (by rw [h1.r]; exact hsrc) h1.inv.nodes h1.inv.keys htop1 h1.inv.kids
          h1.inv.plt htm1
        have hc := bpCloseV_okl (src := src) (fun _ s' h => ⟨h.1.nodes, by rw [h.1.r, h1.r]; exact hsrc⟩) hc
        refine OKE.bind (OKE.of_okl hc) (fun _ s2 h2 => ?_)
        obtain ⟨h2, htf2, hplt2, heq2⟩ := h2
        have htmS : top.bp = .setext → ∀ t, s1.pc.tmpPara = some t →
            (nd s1 t).kind = .paragraph ∧ (nd s1 t).lines ≠ [] ∧ True := fun hs t ht =>
          ⟨(htm1 hs t ht).2.1, (htm1 hs t ht).2.2, trivial⟩
        have hks : W.KeysOKF s2 := h1.inv.keys.ext h2.ext
          (by rcases h2.tmp with h | h; exact .inl h; exact .inr h.2)
          (by rcases h2.fence with h | h; exact .inl h; exact .inr h.2.1)
        have hr2 : CRel src K s1 s2 := by
          refine ⟨h2.r, ⟨h2.nodes, hks, h1.inv.kids.tf h2.ext htf2, hplt2,
            inv_bpClose treeOK_tinv src top.bp top.node s1 s2 h1.inv.nodes htop1 h1.inv.kids htmS
              (fun _ _ _ => trivial) h1.inv.tree heq2⟩, ExtW.of_ext h2.ext, ?_, htf2, ?_, ?_⟩
          · rcases h2.tmp with h | h
            · exact .inl h
            · exact .inr h.2
          · intro k hk'
            have kok := h1.blocks k hk'
            have kc := hcomp1 k hk'
            refine kok.ext h2.ext ?_ ?_
            · intro hse
              rcases h2.tmp with h | h
              · rw [h]; exact (kok.setext hse).2
              · exact absurd h.1 (kc.1 hse)
            · intro hfe
              rcases h2.fence with h | h
              · rw [h]; exact kok.fenced hfe
              · obtain ⟨h1', _, f, hf, hfn⟩ := h
                exact absurd hfn (kc.2 hfe h1' f hf)
          · intro ⟨k, hk', hks'⟩ ht
            rcases h2.tmp with h | h
            · exact ht.ext h2.ext h
            · exact absurd h.1 ((hcomp1 k hk').1 hks')
        refine rest s2 (by rw [h2.opened, hop]) (h1.trans hr2)
          (fun b hb => (hcs1 b hb).ext_container h2.ext (hcs b hb)) (fun x q hlk hh => ?_)
        have hlk1 := hf1 x q hlk hh
        have hh1 : LKHyp s1 (top :: cs) x q := hh.step h1 hlk (fun b hb => hb)
        refine inv_bpClose (lk_tinv x q) src top.bp top.node s1 s2 h1.inv.nodes htop1 h1.inv.kids ?_ ?_ hlk1 heq2
        · intro hs t ht
          exact ⟨(htm1 hs t ht).2.1, (htm1 hs t ht).2.2, fun e' => hh1.2.1 (by rw [ht, e'])⟩
        · intro hlist c hc e'
          have hkl : (nd s1 top.node).kind = .list := by rw [htop1.kind, hlist]; rfl
          have hkq : (nd s1 q).kind = .listItem := by rw [← e']; exact (h1.inv.kids.kids top.node c hkl hc).2
          have hpq : (nd s1 q).parent = some top.node := by rw [← e']; exact h1.inv.tree.cp top.node c hc
          exact hh1.2.2 hkq top (by simp) hpq
      · rw [if_neg hp]
        exact rest s1 hop h1 hcs1 hf1
    have hKb : ∀ k ∈ K, BlockOK s k := fun k hk => (hK k hk).1
    by_cases hpar : ((nd s top.node).kind == Kind.paragraph && (nd s top.node).parent.isSome) = true
    · rw [if_pos hpar]
      simp only [Bool.and_eq_true, beq_iff_eq] at hpar
      obtain ⟨hkind, hpp⟩ := hpar
      have hbp : top.bp = .paragraph := by
        have := htop.kind; rw [hkind] at this; exact kind_paragraph this.symm
      have htp := transformParagraphG_oke pts hpts top.node s hsrc htop.lt hkind hpp (htop.para hbp) hi.nodes hi.kids
        hi.plt hi.tree
      refine OKE.bind htp (fun g s1 hg => ?_)
      obtain ⟨hg, htf1, hplt1, htree1, hlk1, _⟩ := hg
      have hk1 : W.KeysOKF s1 := ⟨fun f hf => by
        rw [hg.fence] at hf
        obtain ⟨a, b, c⟩ := hi.keys.fence f hf
        exact ⟨a, b, Nat.lt_of_lt_of_le c hg.len⟩⟩
      have hK1 : ∀ k ∈ K, BlockOK s1 k := fun k hk' =>
        hg.blockOK hkind (hK k hk').1 (fun hkp => ((hK k hk').2 top rfl).1.2 hbp hkp)
      have hcs1 : ∀ b ∈ cs, BlockOK s1 b := fun b hb =>
        hg.blockOK hkind (hl b (by simp [hb])) (fun hkp => absurd hkp (container_kind (hcs b hb)).1)
      have hr1 : CRel src K s s1 := ⟨hg.r, ⟨hg.nodes, hk1, L.TV.KidsOK.tfW hi.kids hg.extW htf1, hplt1, htree1⟩, hg.extW,
        .inl hg.tmp, htf1, hK1, fun ⟨k, hk', hks⟩ _ => absurd hbp (((hK k hk').2 top rfl).2 hks)⟩
      have hf1 : ∀ x q, LK s x q → LKHyp s (top :: cs) x q → LK s1 x q := fun x q hlk hh =>
        hlk1 x q (fun e' => hh.1 top (by simp) e'.symm) hlk
      cases g with
      | false =>
        obtain ⟨hl1, hp1⟩ := hg.keep rfl
        have htop1 : BlockOK s1 top :=
          ⟨Nat.lt_of_lt_of_le htop.lt hg.len, by rw [hg.kind _ htop.lt]; exact htop.kind, fun _ => hl1,
            (fun h => by rw [hbp] at h; cases h), (fun h => by rw [hbp] at h; cases h)⟩
        refine close s1 hg.opened hr1 hcs1 hf1 htop1 (fun k hk' => ?_) (fun h => by rw [hbp] at h; cases h)
        have kc := ((hK k hk').2 top rfl).1.1
        refine ⟨kc.1, fun _ hc => ?_⟩
        rw [hbp] at hc; cases hc
      | true =>
        refine OKE.bind (m := getNode top.node) (P := fun n sy => n = nd s1 top.node ∧ sy = s1)
          (OKE.ok ⟨rfl, rfl⟩) (fun n sy hy => ?_)
        obtain ⟨hn0, hsy⟩ := hy
        subst n sy
        have : ¬ (nd s1 top.node).parent.isSome = true := by rw [hg.goneP rfl]; simp
        rw [if_neg this]
        exact rest s1 hg.opened hr1 hcs1 hf1
    · rw [if_neg hpar]
      exact close s rfl (CRel.refl hi hKb) (fun b hb => hl b (by simp [hb])) (fun _ _ h _ => h) htop
        (fun k hk' => ((hK k hk').2 top rfl).1.1) (fun hs => htl ⟨top, by simp, hs⟩)

theorem closeBlocksG_oke (pre mid post : List Block) (s : St) (hop : s.pc.opened = pre ++ mid ++ post)
    (hsrc : s.r.source = src) (hi : CInv src s) (hmid : ∀ b ∈ mid, BlockOK s b) (hleafy : Leafy mid)
    (htl : (∃ b ∈ mid, b.bp = .setext) → TmpOK s)
    (hK : ∀ k ∈ pre ++ post, BlockOK s k ∧ ∀ top, mid.getLast? = some top → CompatG s k top) :
    OKE e (fun _ s' => s'.pc.opened = pre ++ post ∧ CRel src (pre ++ post) s s' ∧
        ∀ x q, LK s x q → LKHyp s mid x q → LK s' x q)
      (closeBlocksV pts ((pre.length : Int) + (mid.length : Int) - 1) (pre.length : Int) s) := by
  unfold closeBlocksV
  refine OKE.bind (m := getPc) (P := fun pc s1 => pc = s.pc ∧ s1 = s) (OKE.ok ⟨rfl, rfl⟩) (fun pc s0 h0 => ?_)
  obtain ⟨h0, h0'⟩ := h0
  subst pc s0
  have hcnt : ((pre.length : Int) + (mid.length : Int) - 1 - (pre.length : Int) + 1).toNat = mid.length := by omega
  rw [hcnt, hop, closeLoopV_eq pts (pre ++ mid ++ post) pre.length mid.length (by simp)]
  have hdt : ((pre ++ mid ++ post).drop pre.length).take mid.length = mid := by
    rw [List.append_assoc, List.drop_left, List.take_left]
  rw [hdt]
  have hcl := closeListG_oke lsp hpts (pre ++ post) mid.reverse s hsrc hi
    (fun b hb => hmid b (by simpa using hb))
    (fun b hb => hleafy b (by
      have : mid.reverse.tail = mid.dropLast.reverse := by
        rw [List.tail_reverse]
      rw [this] at hb; simpa using hb))
    (fun ⟨b, hb, hs⟩ => htl ⟨b, by simpa using hb, hs⟩)
    (fun k hk' => ⟨(hK k hk').1, fun top ht => (hK k hk').2 top (by
      rw [List.head?_reverse] at ht; exact ht)⟩)
  refine OKE.bind hcl (fun _ s1 h1 => ?_)
  obtain ⟨hop1, hr1, hf1⟩ := h1
  have hpre : closeBlocks.slice' (pre ++ mid ++ post) 0 (pre.length : Int) = .ok pre := by
    unfold closeBlocks.slice'
    rw [if_pos ⟨by omega, by omega, by simp; omega⟩]
    simp
  have hpost : closeBlocks.slice' (pre ++ mid ++ post) ((pre.length : Int) + (mid.length : Int) - 1 + 1)
      ((pre ++ mid ++ post).length : Int) = .ok post := by
    unfold closeBlocks.slice'
    rw [if_pos ⟨by omega, by simp; omega, by omega⟩]
    have e1 : ((pre.length : Int) + (mid.length : Int) - 1 + 1).toNat = pre.length + mid.length := by omega
    have e2 : (((pre ++ mid ++ post).length : Int) - ((pre.length : Int) + (mid.length : Int) - 1 + 1)).toNat = post.length := by
      simp; omega
    rw [e1, e2]
    have : (pre ++ mid ++ post).drop (pre.length + mid.length) = post := by
      rw [← List.length_append, List.drop_left]
    rw [this]; simp
  have fin : ∀ o : List Block, CRel src (pre ++ post) s ({ s1 with pc := { s1.pc with opened := o } } : St) ∧
      ∀ x q, LK s x q → LKHyp s mid x q → LK ({ s1 with pc := { s1.pc with opened := o } } : St) x q := by
    intro o
    refine ⟨⟨hr1.r, ⟨hr1.inv.nodes, ⟨hr1.inv.keys.fence⟩, ⟨hr1.inv.kids.kids, hr1.inv.kids.off, hr1.inv.kids.pk⟩,
      hr1.inv.plt, ⟨hr1.inv.tree.pc, hr1.inv.tree.cp, hr1.inv.tree.nodup⟩⟩, ⟨hr1.extw.len, hr1.extw.kind⟩, hr1.tmp,
      ⟨hr1.tf.parent, hr1.tf.kids, hr1.tf.offset, hr1.tf.newParent, hr1.tf.newKind⟩, ?_, hr1.tmpok⟩, ?_⟩
    · intro k hk'
      have := hr1.blocks k hk'
      exact ⟨this.lt, this.kind, this.para, this.setext, this.fenced⟩
    · intro x q hlk hh
      have := hf1 x q hlk ⟨fun b hb => hh.1 b (by simpa using hb), hh.2.1, fun hk b hb => hh.2.2 hk b (by simpa using hb)⟩
      exact ⟨this.par, this.last, this.only⟩
  by_cases hfl : ((pre.length : Int) + (mid.length : Int) - 1 == ((pre ++ mid ++ post).length : Int) - 1) = true
  · rw [if_pos hfl]
    have hpe : post = [] := by
      have : (pre.length : Int) + (mid.length : Int) - 1 = ((pre ++ mid ++ post).length : Int) - 1 := by simpa using hfl
      simp at this
      cases post with
      | nil => rfl
      | cons a as => simp at this; omega
    subst hpe
    simp only [bind, StateT.bind, liftE, hpre, Except.map, Except.bind, modPc, pure, StateT.pure, Except.pure]
    exact OKE.ok ⟨by simp, fin _⟩
  · rw [if_neg hfl]
    simp only [bind, StateT.bind, liftE, hpre, hpost, Except.map, Except.bind, modPc, pure, StateT.pure, Except.pure]
    exact OKE.ok ⟨rfl, fin _⟩

end close

end GM.Blocks.L.GV
