/-
  GM.Proof.ShiftSimHead1 — EXACT effect of atxHeadingParser.Open and of parser.openBlocks on a non-indented ATX
  heading line when nothing is open (inversion style, cf. GM.Proof.IndepReset).
-/
import GM.Proof.IndepReset
import GM.Proof.ShiftSimOpen

namespace GM.Blocks.Sh
open GM GM.Text GM.Blocks

/-! ### list facts -/

theorem h1_set_last {α} (l : List α) (n m : α) : (l ++ [n]).set l.length m = l ++ [m] := by
  rw [List.set_append_right _ _ (Nat.le_refl _)]
  simp

theorem h1_getD_last {α} (l : List α) (n d : α) : (l ++ [n]).getD l.length d = n := by
  simp [List.getD_eq_getElem?_getD]

theorem h1_getD_left {α} (l r : List α) (i : Nat) (d : α) (hi : i < l.length) : (l ++ r).getD i d = l.getD i d := by
  simp [List.getD_eq_getElem?_getD, List.getElem?_append_left hi]

/-! ### the reader: exact versions of `peekLine_atLine`, `lineOffset_atLine` -/

theorem h1_peekLine_line {s : St} {x : Option Bytes × Segment} {s' : St} (hp : peekLine s = .ok (x, s')) :
    s'.r.line = s.r.line := by
  unfold GM.Blocks.peekLine at hp
  cases hr : s.r.peekLine with
  | error e => simp [hr, bind, Except.bind] at hp
  | ok p =>
    simp only [hr, bind, Except.bind, pure, Except.pure] at hp
    cases hp
    show p.2.line = _
    unfold Reader.peekLine at hr
    split at hr
    · split at hr
      · cases hr; rfl
      · cases hv : s.r.pos.value s.r.source with
        | error e => simp [hv, bind, Except.bind] at hr
        | ok v =>
          simp only [hv, bind, Except.bind, pure, Except.pure] at hr
          cases hr; rfl
    · cases hr; rfl

theorem h1_lineOffset_line {s : St} {x : Int} {s' : St} (hp : lineOffset s = .ok (x, s')) :
    s'.r.line = s.r.line := by
  unfold GM.Blocks.lineOffset at hp
  cases hr : s.r.lineOffsetOp with
  | error e => simp [hr, bind, Except.bind] at hp
  | ok p =>
    simp only [hr, bind, Except.bind, pure, Except.pure] at hp
    cases hp
    show p.2.line = _
    unfold Reader.lineOffsetOp at hr
    split at hr
    · cases hv : colLoop s.r.source s.r.head s.r.pos.start with
      | error e => simp [hv, bind, Except.bind] at hr
      | ok v =>
        simp only [hv, bind, Except.bind, pure, Except.pure] at hr
        cases hr; rfl
    · cases hr; rfl

/-! ### atxHeadingParser.Open, exactly -/

/-- the `stop` computation of atxHeadingParser.Open (atx_heading.go:120-139) -/
def atxStopOf (line : Bytes) (start stop0 : Int) : Except Panic Int :=
  if stop0 ≤ start then .ok start
  else
    match atxBackLoop line start stop0.toNat with
    | .error e => .error e
    | .ok i =>
      match idx line i with
      | .error e => .error e
      | .ok c => .ok ((if (i != stop0 - 1 && !isSpace c) = true then stop0 - 1 else i) + 1)

/-- what atxHeadingParser.Open appends for a line, its segment and BlockOffset: `none` = no heading -/
def atxNodeOf (line : Bytes) (seg : Segment) (bo : Int) : Except Panic (Option Node) :=
  if bo < 0 then .ok none
  else if (scanWhileEq line 35 bo == bo || decide (scanWhileEq line 35 bo - bo > 6)) = true then .ok none
  else if (scanWhileEq line 35 bo == (line.length : Int)) = true then
    .ok (some { kind := .heading, level := scanWhileEq line 35 bo - bo })
  else
    match sliceFrom line (scanWhileEq line 35 bo) with
    | .error e => .error e
    | .ok sl =>
      if (((trimLeftSpaceLength sl : Nat) : Int) == 0) = true then .ok none
      else
        match atxStopOf line
            (if scanWhileEq line 35 bo + (trimLeftSpaceLength sl : Nat) ≥ (line.length : Int) then (line.length : Int) - 1
              else scanWhileEq line 35 bo + (trimLeftSpaceLength sl : Nat))
            ((line.length : Int) - (trimRightSpaceLength line : Nat)) with
        | .error e => .error e
        | .ok stop =>
          match slice line
              (if scanWhileEq line 35 bo + (trimLeftSpaceLength sl : Nat) ≥ (line.length : Int) then (line.length : Int) - 1
                else scanWhileEq line 35 bo + (trimLeftSpaceLength sl : Nat)) stop with
          | .error e => .error e
          | .ok body =>
            if ((body.reverse.dropWhile (· == 35)).length != 0) = true then
              .ok (some { kind := .heading, level := scanWhileEq line 35 bo - bo,
                          lines := [{ start := seg.start +
                                        (if scanWhileEq line 35 bo + (trimLeftSpaceLength sl : Nat) ≥ (line.length : Int)
                                          then (line.length : Int) - 1
                                          else scanWhileEq line 35 bo + (trimLeftSpaceLength sl : Nat)) - seg.padding,
                                      stop := seg.start + stop - seg.padding }],
                          linesNil := false })
            else .ok (some { kind := .heading, level := scanWhileEq line 35 bo - bo })

theorem h1_tail (line : Bytes) (start stop a p : Int) (id : Nat) (s4 : St) (x : Option Nat × PState) (s' : St)
    (h : (do
      let body ← liftE (slice line start stop)
      if ((List.dropWhile (fun x => x == 35) (List.reverse body)).length != 0) = true then do
        appendLine id { start := a + start - p, stop := a + stop - p }
        pure (some id, stNoChildren)
      else pure (some id, stNoChildren) : M (Option Nat × PState)) s4 = .ok (x, s')) :
    ∃ body, slice line start stop = .ok body ∧ x = (some id, stNoChildren) ∧
      s' = if ((List.dropWhile (fun x => x == 35) (List.reverse body)).length != 0) = true then
          { s4 with nodes := s4.nodes.set id { (s4.nodes.getD id default) with
              lines := (s4.nodes.getD id default).lines ++ [{ start := a + start - p, stop := a + stop - p }],
              linesNil := false } }
        else s4 := by
  obtain ⟨body, s5, h5, h⟩ := bind_ok h
  obtain ⟨e5, e5'⟩ := liftE_ok h5
  rw [e5'] at h
  refine ⟨body, e5, ?_⟩
  by_cases c : ((List.dropWhile (fun x => x == 35) (List.reverse body)).length != 0) = true
  · rw [if_pos c] at h ⊢
    obtain ⟨u, s6, h6, h⟩ := bind_ok h
    have e6 := modNode_ok h6
    obtain ⟨rfl, rfl⟩ := pure_ok h
    exact ⟨rfl, e6⟩
  · rw [if_neg c] at h ⊢
    obtain ⟨rfl, rfl⟩ := pure_ok h
    exact ⟨rfl, rfl⟩

theorem atxOpen_exact (line : Bytes) (parent : Nat) (s : St) (hl : AtLine line s.r) (x : Option Nat × PState) (s' : St)
    (h : atxOpen parent s = .ok (x, s')) :
    s'.pc = s.pc ∧ s'.r.source = s.r.source ∧ s'.r.pos = s.r.pos ∧ s'.r.line = s.r.line ∧ AtLine line s'.r ∧
    ((atxNodeOf line s.r.pos s.pc.blockOffset = .ok none ∧ x = (none, stNoChildren) ∧ s'.nodes = s.nodes) ∨
     (∃ n, atxNodeOf line s.r.pos s.pc.blockOffset = .ok (some n) ∧ x = (some s.nodes.length, stNoChildren) ∧
        s'.nodes = s.nodes ++ [n])) := by
  unfold atxOpen at h
  obtain ⟨y, s1, h1, h⟩ := bind_ok h
  have hline1 := h1_peekLine_line h1
  obtain ⟨rfl, hl1, hn1, hp1, cu1⟩ := peekLine_atLine hl h1
  dsimp only at h
  obtain ⟨pc, s2, h2, h⟩ := bind_ok h
  obtain ⟨hpc, e2⟩ := getPc_ok h2
  rw [e2, hpc] at h
  clear h2 e2 hpc s2 pc
  simp only [Option.getD_some] at h
  have hsrc : s1.r.source = s.r.source := cu1.2
  have hpos : s1.r.pos = s.r.pos := cu1.1
  suffices key : (atxNodeOf line s.r.pos s1.pc.blockOffset = .ok none ∧ x = (none, stNoChildren) ∧ s' = s1) ∨
      (∃ n, atxNodeOf line s.r.pos s1.pc.blockOffset = .ok (some n) ∧ x = (some s1.nodes.length, stNoChildren) ∧
        s' = { s1 with nodes := s1.nodes ++ [n] }) by
    rw [hp1, hn1] at key
    rcases key with ⟨k1, k2, rfl⟩ | ⟨n, k1, k2, rfl⟩
    · exact ⟨hp1, hsrc, hpos, hline1, hl1, .inl ⟨k1, k2, hn1⟩⟩
    · exact ⟨rfl, hsrc, hpos, hline1, hl1, .inr ⟨n, k1, k2, rfl⟩⟩
  unfold atxNodeOf
  by_cases c0 : s1.pc.blockOffset < 0
  · rw [if_pos c0] at h ⊢
    obtain ⟨rfl, rfl⟩ := pure_ok h
    exact .inl ⟨rfl, rfl, rfl⟩
  rw [if_neg c0] at h ⊢
  by_cases c1 : (scanWhileEq line 35 s1.pc.blockOffset == s1.pc.blockOffset ||
      decide (scanWhileEq line 35 s1.pc.blockOffset - s1.pc.blockOffset > 6)) = true
  · rw [if_pos c1] at h ⊢
    obtain ⟨rfl, rfl⟩ := pure_ok h
    exact .inl ⟨rfl, rfl, rfl⟩
  rw [if_neg c1] at h ⊢
  by_cases c2 : (scanWhileEq line 35 s1.pc.blockOffset == (line.length : Int)) = true
  · rw [if_pos c2] at h ⊢
    obtain ⟨node, s3, h3, h⟩ := bind_ok h
    obtain ⟨e4, e4'⟩ := newNode_ok h3
    rw [e4, e4'] at h
    obtain ⟨rfl, rfl⟩ := pure_ok h
    exact .inr ⟨_, rfl, rfl, rfl⟩
  rw [if_neg c2] at h ⊢
  obtain ⟨sl, s3, h3, h⟩ := bind_ok h
  obtain ⟨e3, e3'⟩ := liftE_ok h3
  rw [e3'] at h
  rw [e3]
  dsimp only
  by_cases c3 : (((trimLeftSpaceLength sl : Nat) : Int) == 0) = true
  · rw [if_pos c3] at h ⊢
    obtain ⟨rfl, rfl⟩ := pure_ok h
    exact .inl ⟨rfl, rfl, rfl⟩
  rw [if_neg c3] at h ⊢
  obtain ⟨node, s4, h4, h⟩ := bind_ok h
  obtain ⟨e4, e4'⟩ := newNode_ok h4
  rw [e4, e4'] at h
  clear h4 e4 e4' h3 e3'
  generalize hstart : (if scanWhileEq line 35 s1.pc.blockOffset + ((trimLeftSpaceLength sl : Nat) : Int) ≥ (line.length : Int)
      then (line.length : Int) - 1 else scanWhileEq line 35 s1.pc.blockOffset + ((trimLeftSpaceLength sl : Nat) : Int)) = start at h ⊢
  generalize hstop0 : (line.length : Int) - ((trimRightSpaceLength line : Nat) : Int) = stop0 at h ⊢
  generalize hlvl : scanWhileEq line 35 s1.pc.blockOffset - s1.pc.blockOffset = lvl at h ⊢
  have hcommon : ∃ stop, atxStopOf line start stop0 = .ok stop ∧
      (do
        let body ← liftE (slice line start stop)
        if ((List.dropWhile (fun x => x == 35) (List.reverse body)).length != 0) = true then do
          appendLine s1.nodes.length { start := s.r.pos.start + start - s.r.pos.padding, stop := s.r.pos.start + stop - s.r.pos.padding }
          pure (some s1.nodes.length, stNoChildren)
        else pure (some s1.nodes.length, stNoChildren) : M (Option Nat × PState))
        { r := s1.r, nodes := s1.nodes ++ [{ kind := Kind.heading, level := lvl }], pc := s1.pc } = .ok (x, s') := by
    by_cases c4 : stop0 ≤ start
    · rw [if_pos c4] at h
      obtain ⟨stop, s5, h5, h⟩ := bind_ok h
      obtain ⟨rfl, e5⟩ := pure_ok h5
      rw [e5] at h
      exact ⟨_, by unfold atxStopOf; rw [if_pos c4], h⟩
    · rw [if_neg c4] at h
      obtain ⟨i, s5, h5, h⟩ := bind_ok h
      obtain ⟨e5, e5'⟩ := liftE_ok h5
      rw [e5'] at h
      obtain ⟨c, s6, h6, h⟩ := bind_ok h
      obtain ⟨e6, e6'⟩ := liftE_ok h6
      rw [e6'] at h
      obtain ⟨stop, s7, h7, h⟩ := bind_ok h
      obtain ⟨rfl, e7⟩ := pure_ok h7
      rw [e7] at h
      exact ⟨_, by unfold atxStopOf; rw [if_neg c4, e5]; dsimp only; rw [e6], h⟩
  obtain ⟨stop, hstop, k⟩ := hcommon
  obtain ⟨body, hb, hx, hs'⟩ := h1_tail _ _ _ _ _ _ _ _ _ k
  rw [hstop]; dsimp only; rw [hb]; dsimp only
  right
  by_cases c : ((List.dropWhile (fun x => x == 35) (List.reverse body)).length != 0) = true
  · rw [if_pos c] at hs' ⊢
    refine ⟨_, rfl, hx, ?_⟩
    rw [hs']
    simp only [h1_getD_last, h1_set_last]
    rfl
  · rw [if_neg c] at hs' ⊢
    exact ⟨_, rfl, hx, hs'⟩

/-- moving the segment moves the heading's line, nothing else -/
theorem atxNodeOf_move (line : Bytes) (seg : Segment) (bo : Int) (d : Int) :
    atxNodeOf line (moveSeg d seg) bo =
      (atxNodeOf line seg bo).map (Option.map fun n => { n with lines := n.lines.map (moveSeg d) }) := by
  unfold atxNodeOf
  split
  · rfl
  split
  · rfl
  split
  · rfl
  split
  · rfl
  split
  · rfl
  split
  · rfl
  split
  · rfl
  split
  · simp only [Except.map, Option.map, List.map, moveSeg]
    congr 5
    · omega
    · omega
  · rfl

/-- the node `atxOpen` builds is a childless heading without parent -/
theorem h1_atxNodeOf_fields {line : Bytes} {seg : Segment} {bo : Int} {n : Node}
    (h : atxNodeOf line seg bo = .ok (some n)) :
    n.kind = .heading ∧ n.parent = none ∧ n.children = [] ∧ n.blankPrev = false := by
  unfold atxNodeOf at h
  repeat' split at h
  all_goals first | (cases h; exact ⟨rfl, rfl, rfl, rfl⟩) | cases h

def h1_addChild (c : Nat) (n : Node) : Node := { n with children := n.children ++ [c] }
def h1_setParent (p : Nat) (n : Node) : Node := { n with parent := some p }

/-- Node.AppendChild of a node that has no parent -/
theorem h1_appendChild_exact (p c : Nat) (s : St) (hpar : (s.nodes.getD c default).parent = none) (u : Unit) (s' : St)
    (h : appendChild p c s = .ok (u, s')) :
    s' = { s with nodes := ((s.nodes.set p (h1_addChild c (s.nodes.getD p default))).set c
      (h1_setParent p ((s.nodes.set p (h1_addChild c (s.nodes.getD p default))).getD c default))) } := by
  unfold appendChild at h
  obtain ⟨u1, s1, h1, k1⟩ := bind_ok h
  unfold ensureIsolated at h1
  obtain ⟨cn, s2, h2, k2⟩ := bind_ok h1
  obtain ⟨ecn, e2⟩ := getNode_ok h2
  rw [ecn, hpar, e2] at k2
  obtain ⟨_, e1⟩ := pure_ok k2
  rw [e1] at k1
  obtain ⟨u3, s3, h3, k3⟩ := bind_ok k1
  have e3 := modNode_ok h3
  have e4 := modNode_ok k3
  rw [e4, e3]
  rfl

theorem h1_set_last' {α} (l : List α) (n m : α) (k : Nat) (hk : k = l.length) : (l ++ [n]).set k m = l ++ [m] := by
  rw [hk]; exact h1_set_last l n m

theorem h1_getD_last' {α} (l : List α) (n d : α) (k : Nat) (hk : k = l.length) : (l ++ [n]).getD k d = n := by
  rw [hk]; exact h1_getD_last l n d

/-- the node store after `blankPrev := blank` on the fresh node and `AppendChild(document, fresh)` -/
theorem h1_nodes_calc (L : List Node) (n : Node) (blank : Bool) (hlen : 0 < L.length) (N1 N2 : List Node)
    (h1 : N1 = (L ++ [n]).set L.length { ((L ++ [n]).getD L.length default) with blankPrev := blank })
    (h2 : N2 = N1.set 0 (h1_addChild L.length (N1.getD 0 default))) :
    (N1.getD L.length default).parent = n.parent ∧
    N2.set L.length (h1_setParent 0 (N2.getD L.length default)) =
      (L.set 0 { (L.getD 0 default) with children := (L.getD 0 default).children ++ [L.length] })
        ++ [{ n with parent := some 0, blankPrev := blank }] := by
  rw [h1_getD_last, h1_set_last] at h1
  rw [h1, List.set_append_left _ _ hlen, h1_getD_left _ _ _ _ hlen] at h2
  constructor
  · rw [h1, h1_getD_last]
  · rw [h2, h1_getD_last' _ _ _ _ (by simp), h1_set_last' _ _ _ _ (by simp)]
    rfl

/-- parser.openBlocks on the line `# …` when nothing is open, exactly -/
theorem openBlocks_heading_exact (rest : Bytes) (blank : Bool) (s : St) (hl : AtLine (35 :: 32 :: rest) s.r)
    (hop : s.pc.opened = []) (hlen : 0 < s.nodes.length) (res : OpenResult) (s' : St)
    (h : openBlocks 0 blank s = .ok (res, s')) :
    res = .newBlocksOpened ∧ ∃ n : Node, atxNodeOf (35 :: 32 :: rest) s.r.pos 0 = .ok (some n) ∧
      s'.nodes = (s.nodes.set 0 { (s.nodes.getD 0 default) with children := (s.nodes.getD 0 default).children ++ [s.nodes.length] })
                  ++ [{ n with parent := some 0, blankPrev := blank }] ∧
      s'.pc = { s.pc with blockOffset := 0, blockIndent := 0, opened := [⟨s.nodes.length, .atx⟩] } ∧
      s'.r.source = s.r.source ∧ s'.r.pos = s.r.pos ∧ s'.r.line = s.r.line ∧ AtLine (35 :: 32 :: rest) s'.r := by
  unfold openBlocks at h
  obtain ⟨lb, s1, h1, k1⟩ := bind_ok h
  obtain ⟨elb, e1⟩ := lastOpenedBlock_ok h1
  rw [e1] at k1
  rw [hop] at elb
  have elb' : lb = none := elb
  rw [elb'] at k1
  dsimp only at k1
  obtain ⟨cont, s2, h2, k2⟩ := bind_ok k1
  obtain ⟨ec, e2⟩ := pure_ok h2
  rw [e2, ec] at k2
  obtain ⟨v, s3, h3, k3⟩ := bind_ok k2
  have e3 : s3 = s := by cases h3; rfl
  rw [e3] at k3
  have hf : retryFuel v = (2 * v.length + 7) + 1 := rfl
  rw [hf, openBlocksLoop_succ] at k3
  clear h h1 e1 elb elb' h2 ec e2 h3 e3 hf k1 k2
  obtain ⟨lp, s4, h4, k4⟩ := bind_ok k3
  have hline4 := h1_peekLine_line h4
  obtain ⟨rfl, hl4, hn4, hp4, cu4⟩ := peekLine_atLine hl h4
  obtain ⟨lo, s5, h5, k5⟩ := bind_ok k4
  have hline5 := h1_lineOffset_line h5
  obtain ⟨hl5, hn5, hp5, cu5⟩ := lineOffset_atLine hl4 h5
  simp only [Option.getD_some, indentWidthI_hash] at k5
  clear k3 k4
  obtain ⟨u, s6, h6, k6⟩ := bind_ok k5
  have e6 := modPc_ok h6
  have hlen' : ¬ ((0:Int) ≥ ((35 :: 32 :: rest : Bytes).length : Int)) := by
    simp only [List.length_cons]; omega
  rw [if_neg hlen'] at e6
  clear k5
  have hl6 : AtLine (35 :: 32 :: rest) s6.r := by rw [e6]; exact hl5
  have hr6 : s6.r = s5.r := by rw [e6]
  have hn6 : s6.nodes = s.nodes := by rw [e6]; exact hn5.trans hn4
  have hpc5 : s5.pc = s.pc := hp5.trans hp4
  have hp6 : s6.pc = { s.pc with blockOffset := 0, blockIndent := 0 } := by rw [e6, ← hpc5]
  have hbo6 : s6.pc.blockOffset = 0 := by rw [hp6]
  have hsrc6 : s6.r.source = s.r.source := by rw [hr6, cu5.2, cu4.2]
  have hpos6 : s6.r.pos = s.r.pos := by rw [hr6, cu5.1, cu4.1]
  have hline6 : s6.r.line = s.r.line := by rw [hr6, hline5, hline4]
  clear e6 h6 h5 h4 hline5 hline4 hl5 hl4 hn5 hn4 hp5 hp4 cu5 cu4 hpc5 hr6
  have hidx : idx (35 :: 32 :: rest) 0 = .ok 35 := rfl
  simp only [Option.isNone, Bool.false_eq_true, if_false, hidx] at k6
  obtain ⟨c, s7, h7, k7⟩ := bind_ok k6
  obtain ⟨ec, e7⟩ := liftE_ok h7
  cases ec
  simp only [show ((35:UInt8) == 10) = false from rfl, Bool.false_eq_true, if_false,
    if_pos (show (0:Int) < ((35 :: 32 :: rest : Bytes).length : Int) from by simp only [List.length_cons]; omega)] at k7
  obtain ⟨c', s8, h8, k8⟩ := bind_ok k7
  obtain ⟨ec', e8⟩ := liftE_ok h8
  cases ec'
  have htrig : (triggered 35).getD freeParsers = [.atx, .code, .paragraph] := by decide
  rw [htrig, e8, e7] at k8
  clear k6 k7 h7 h8 e7 e8 s7 s8
  unfold oblTry at k8
  obtain ⟨s0, s9, h9, k9⟩ := bind_ok k8
  have e9 : s9 = s6 := by cases h9; rfl
  rw [e9] at k9
  obtain ⟨x, s10, h10, k10⟩ := bind_ok k9
  rw [tryParsers_cons] at h10
  simp only [BP.canInterruptParagraph, BP.canAcceptIndentedLine, Bool.false_and, Bool.false_eq_true, if_false,
    show ¬ ((0:Int) > 3) from by omega, decide_false] at h10
  clear k8 k9 h9 e9
  obtain ⟨lb2, s11, h11, k11⟩ := bind_ok h10
  obtain ⟨elb2, e11⟩ := lastOpenedBlock_ok h11
  rw [e11] at k11
  have elb2' : lb2 = none := by rw [elb2, hp6]; show s.pc.opened.getLast? = none; rw [hop]; rfl
  rw [elb2'] at k11
  obtain ⟨y, s12, h12, k12⟩ := bind_ok k11
  simp only [bpOpen] at h12
  obtain ⟨ey, _⟩ := atxOpen_heading rest s6 0 hl6 hbo6 y s12 h12
  obtain ⟨hpc12, hsrc12, hpos12, hline12, hl12, hcase⟩ := atxOpen_exact _ 0 s6 hl6 y s12 h12
  rcases hcase with ⟨_, ey', _⟩ | ⟨n, hn, _, hnodes12⟩
  · rw [ey] at ey'; cases ey'
  rw [ey] at k12
  dsimp only at k12
  unfold tpSome at k12
  rw [if_neg (show ¬ (stNoChildren.requirePara = true) from by decide)] at k12
  unfold tpJp1 at k12
  clear h10 h11 k11 e11 elb2 elb2'
  simp only [Option.map] at k12
  unfold tpJp2 at k12
  rw [if_neg (show ¬ (stNoChildren.hasChildren = true) from by decide)] at k12
  obtain ⟨u1, s13, h13, k13⟩ := bind_ok k12
  have e13 := modNode_ok h13
  obtain ⟨u2, s14, h14, k14⟩ := bind_ok k13
  rw [hnodes12, hn6] at e13
  obtain ⟨hpar13, hcalc⟩ := h1_nodes_calc s.nodes n blank hlen _ _ rfl rfl
  rw [hpos6, hbo6] at hn
  have e14 := h1_appendChild_exact 0 s6.nodes.length s13
    (by rw [e13, hn6]; exact hpar13.trans (h1_atxNodeOf_fields hn).2.1) u2 s14 h14
  obtain ⟨u3, s15, h15, k15⟩ := bind_ok k14
  have e15 := modPc_ok h15
  obtain ⟨ex, e10⟩ := pure_ok k15
  rw [ex] at k10
  dsimp only at k10
  unfold toContinuable at k10
  simp only [show (OpenResult.newBlocksOpened == OpenResult.noBlocksOpened) = false from rfl, Bool.false_and,
    Bool.false_eq_true, if_false] at k10
  obtain ⟨rfl, rfl⟩ := pure_ok k10
  refine ⟨rfl, n, hn, ?_, ?_, ?_, ?_, ?_, ?_⟩
  · rw [e10, e15, e14, e13, hn6]
    exact hcalc
  · rw [e10, e15, e14, e13, hn6]
    show { s12.pc with opened := s12.pc.opened ++ [(⟨s.nodes.length, .atx⟩ : Block)] } = _
    rw [hpc12, hp6]
    show { s.pc with blockOffset := 0, blockIndent := 0, opened := s.pc.opened ++ [(⟨s.nodes.length, .atx⟩ : Block)] } = _
    rw [hop]; rfl
  · rw [e10, e15, e14, e13]; exact hsrc12.trans hsrc6
  · rw [e10, e15, e14, e13]; exact hpos12.trans hpos6
  · rw [e10, e15, e14, e13]; exact hline12.trans hline6
  · rw [e10, e15, e14, e13]; exact hl12

end GM.Blocks.Sh
