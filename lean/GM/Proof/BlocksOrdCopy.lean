/-
  GM.Proof.BlocksOrdCopy — the parsers that COPY the lines of a closed paragraph into an inline-bearing block, and the
  setext heading's own (temporary) line:

  * `setextOpen_line`  — setext_headings.go:55-76: when it opens a Heading, the node is the next one of the store, its
                         single line is exactly the reader's segment `[c.p, lineEnd src c.p)` (the bar line — it is
                         thrown away by `Close`), `temporaryParagraphKey` is the last opened block's node, a Paragraph;
                         the reader's cursor is where it was; otherwise nothing changes but the reader's caches.
  * `setextClose_copy` — setext_headings.go:82-118, the branch `tmp.Lines().Len() != 0` (the only one reachable
                         without paragraph transformers): the Heading's lines become the paragraph's lines, every
                         other node keeps its lines and its kind, the store does not grow.
  * `tightenItem_copies`, `listClose_copies` — list.go:247-279: every node `Close` of a tight list adds is a TextBlock
                         whose lines are the lines of a Paragraph of the store; existing nodes keep lines and kinds.
  * `LK`               — "same store length, every node keeps lines / linesNil / kind": the frame of the tree
                         surgery (`removeChild`, `appendChild`, `insertBefore`, `replaceChild`).
-/
import GM.Proof.BlocksOrdPar

namespace GM.Blocks
open GM GM.Text GM.Spec GM.Proof.Reader


/-! ### inversion of a normal end (the lemmas of GM.Proof.IndepFrame under local names: that file cannot be imported
together with GM.Proof.BlocksSpecList) -/

theorem obind_ok {α β} {m : M α} {f : α → M β} {s : St} {b : β} {s'' : St} (h : (m >>= f) s = .ok (b, s'')) :
    ∃ a s', m s = .ok (a, s') ∧ f a s' = .ok (b, s'') := by
  simp only [Bind.bind, StateT.bind] at h
  cases hm : m s with
  | error e => rw [hm] at h; simp [Except.bind] at h
  | ok p => rw [hm] at h; exact ⟨p.1, p.2, rfl, h⟩

theorem opure_ok {α} {a b : α} {s s' : St} (h : (pure a : M α) s = .ok (b, s')) : b = a ∧ s' = s := by
  cases h; exact ⟨rfl, rfl⟩

theorem oliftE_ok {α} {e : Except Panic α} {s : St} {a : α} {s' : St} (h : liftE e s = .ok (a, s')) :
    e = .ok a ∧ s' = s := by
  cases e with
  | ok v => simp only [liftE, Except.map] at h; cases h; exact ⟨rfl, rfl⟩
  | error x => simp [liftE, Except.map] at h

theorem omodPc_ok {f : Ctx → Ctx} {s : St} {a : Unit} {s' : St} (h : modPc f s = .ok (a, s')) :
    s' = { s with pc := f s.pc } := by cases h; rfl

theorem ogetPc_ok {s : St} {a : Ctx} {s' : St} (h : getPc s = .ok (a, s')) : a = s.pc ∧ s' = s := by
  cases h; exact ⟨rfl, rfl⟩

theorem ogetNode_ok {id : Nat} {s : St} {a : Node} {s' : St} (h : getNode id s = .ok (a, s')) :
    a = s.nodes.getD id default ∧ s' = s := by cases h; exact ⟨rfl, rfl⟩

theorem omodNode_ok {id : Nat} {f : Node → Node} {s : St} {a : Unit} {s' : St} (h : modNode id f s = .ok (a, s')) :
    s' = { s with nodes := s.nodes.set id (f (s.nodes.getD id default)) } := by cases h; rfl

theorem onewNode_ok {n : Node} {s : St} {a : Nat} {s' : St} (h : newNode n s = .ok (a, s')) :
    a = s.nodes.length ∧ s' = { s with nodes := s.nodes ++ [n] } := by cases h; exact ⟨rfl, rfl⟩

theorem olastOpenedBlock_ok {s : St} {a : Option Block} {s' : St} (h : lastOpenedBlock s = .ok (a, s')) :
    a = s.pc.opened.getLast? ∧ s' = s := by
  unfold lastOpenedBlock at h
  obtain ⟨pc, s1, h1, h⟩ := obind_ok h
  obtain ⟨rfl, rfl⟩ := ogetPc_ok h1
  obtain ⟨rfl, rfl⟩ := opure_ok h
  exact ⟨rfl, rfl⟩

/-- a normal end of a run with a total-correctness contract satisfies the contract -/
theorem OKL.of_ok {α} {P : α → St → Prop} {x : Except Panic (α × St)} {a : α} {s' : St} (h : OKL P x)
    (e : x = .ok (a, s')) : P a s' := by
  rcases h with ⟨a', s'', e', hp⟩ | e'
  · rw [e] at e'; cases e'; exact hp
  · rw [e] at e'; cases e'

theorem peekLine_inv {src} {s s1 : St} {c : RCur} {x : Option Bytes × Segment} (h : RI src s.r c)
    (e : peekLine s = .ok (x, s1)) : x = (RCur.view src c, RCur.seg src c) ∧ ∃ r1, s1 = { s with r := r1 } ∧ RI src r1 c :=
  (peekLine_okl h).of_ok e

/-! ### the frame of the tree surgery -/

/-- same store length; every node keeps its lines, its `lines.values == nil` flag and its kind -/
structure LK (s s' : St) : Prop where
  len : s'.nodes.length = s.nodes.length
  same : ∀ i, (nd s' i).lines = (nd s i).lines ∧ (nd s' i).linesNil = (nd s i).linesNil ∧ (nd s' i).kind = (nd s i).kind
  r : s'.r = s.r
  pc : s'.pc = s.pc

theorem LK.refl (s : St) : LK s s := ⟨rfl, fun _ => ⟨rfl, rfl, rfl⟩, rfl, rfl⟩

theorem LK.trans {a b c : St} (h1 : LK a b) (h2 : LK b c) : LK a c :=
  ⟨h2.len.trans h1.len, fun i => ⟨(h2.same i).1.trans (h1.same i).1, (h2.same i).2.1.trans (h1.same i).2.1,
    (h2.same i).2.2.trans (h1.same i).2.2⟩, h2.r.trans h1.r, h2.pc.trans h1.pc⟩

/-- `modNode` with a function that leaves lines, nil flag and kind alone -/
theorem modNode_lk {id : Nat} {f : Node → Node} {s : St} {a : Unit} {s' : St}
    (h : modNode id f s = .ok (a, s')) (hf : SameLK f) : LK s s' := by
  rw [omodNode_ok h]
  refine ⟨by simp, fun i => ?_, rfl, rfl⟩
  have := nd_upd s id f i
  have e : nd ({ s with nodes := s.nodes.set id (f (s.nodes.getD id default)) } : St) i = nd (upd s id f) i := rfl
  rw [e, this]
  split
  · next hc => rw [hc.1]; exact ⟨(hf _).2.1, (hf _).2.2, (hf _).1⟩
  · exact ⟨rfl, rfl, rfl⟩

theorem removeChild_lk {p c : Nat} {s : St} {a : Unit} {s' : St} (h : removeChild p c s = .ok (a, s')) : LK s s' := by
  unfold removeChild at h
  obtain ⟨cn, s1, h1, k1⟩ := obind_ok h
  obtain ⟨_, rfl⟩ := ogetNode_ok h1
  split at k1
  · obtain ⟨_, rfl⟩ := opure_ok k1; exact LK.refl _
  · obtain ⟨_, s2, h2, k2⟩ := obind_ok k1
    exact (modNode_lk h2 (fun _ => ⟨rfl, rfl, rfl⟩)).trans (modNode_lk k2 (fun _ => ⟨rfl, rfl, rfl⟩))

theorem removeChild_rpc {p c : Nat} {s : St} {a : Unit} {s' : St} (h : removeChild p c s = .ok (a, s')) :
    s'.r = s.r ∧ s'.pc = s.pc := by
  unfold removeChild at h
  obtain ⟨cn, s1, h1, k1⟩ := obind_ok h
  obtain ⟨_, rfl⟩ := ogetNode_ok h1
  split at k1
  · obtain ⟨_, rfl⟩ := opure_ok k1; exact ⟨rfl, rfl⟩
  · obtain ⟨_, s2, h2, k2⟩ := obind_ok k1
    rw [omodNode_ok k2, omodNode_ok h2]; exact ⟨rfl, rfl⟩

theorem ensureIsolated_lk {c : Nat} {s : St} {a : Unit} {s' : St} (h : ensureIsolated c s = .ok (a, s')) : LK s s' := by
  unfold ensureIsolated at h
  obtain ⟨cn, s1, h1, k1⟩ := obind_ok h
  obtain ⟨rfl, rfl⟩ := ogetNode_ok h1
  cases hp : (s1.nodes.getD c default).parent with
  | some q => rw [hp] at k1; exact removeChild_lk k1
  | none => rw [hp] at k1; obtain ⟨_, rfl⟩ := opure_ok k1; exact LK.refl _

theorem appendChild_lk {p c : Nat} {s : St} {a : Unit} {s' : St} (h : appendChild p c s = .ok (a, s')) : LK s s' := by
  unfold appendChild at h
  obtain ⟨_, s1, h1, k1⟩ := obind_ok h
  obtain ⟨_, s2, h2, k2⟩ := obind_ok k1
  exact ((ensureIsolated_lk h1).trans (modNode_lk h2 (fun _ => ⟨rfl, rfl, rfl⟩))).trans
    (modNode_lk k2 (fun _ => ⟨rfl, rfl, rfl⟩))

theorem insertBefore_lk {p : Nat} {v1 : Option Nat} {ins : Nat} {s : St} {a : Unit} {s' : St}
    (h : insertBefore p v1 ins s = .ok (a, s')) : LK s s' := by
  unfold insertBefore at h
  cases v1 with
  | none => exact appendChild_lk h
  | some v =>
    dsimp only at h
    obtain ⟨vn, s1, h1, k1⟩ := obind_ok h
    obtain ⟨_, rfl⟩ := ogetNode_ok h1
    split at k1
    · exact appendChild_lk k1
    · obtain ⟨_, s2, h2, k2⟩ := obind_ok k1
      obtain ⟨_, s3, h3, k3⟩ := obind_ok k2
      exact ((ensureIsolated_lk h2).trans (modNode_lk h3 (fun _ => ⟨rfl, rfl, rfl⟩))).trans
        (modNode_lk k3 (fun _ => ⟨rfl, rfl, rfl⟩))

theorem replaceChild_lk {p v1 ins : Nat} {s : St} {a : Unit} {s' : St} (h : replaceChild p v1 ins s = .ok (a, s')) :
    LK s s' := by
  unfold replaceChild at h
  obtain ⟨_, s1, h1, k1⟩ := obind_ok h
  exact (insertBefore_lk h1).trans (removeChild_lk k1)

/-! ### setextHeadingParser.Open -/

/-- **setextHeadingParser.Open, the line it takes** (setext_headings.go:55-76), from an `RI` reader, for every normal
    end: the cursor stays; either only the reader's caches changed (no node), or the last opened block is a
    Paragraph, the new Heading is the next node of the store with the single line `[c.p, lineEnd src c.p)` — the
    reader's segment, padding included — and `temporaryParagraphKey` points to that Paragraph. -/
theorem setextOpen_line {src} {s s' : St} {c : RCur} {parent : Nat} {a : Option Nat × PState} (h : RI src s.r c)
    (e : setextOpen parent s = .ok (a, s')) :
    ∃ r', RI src r' c ∧
      ((a.1 = none ∧ s' = { s with r := r' }) ∨
       (∃ lb lvl, s.pc.opened.getLast? = some lb ∧ (nd s lb.node).kind = .paragraph ∧
          (nd s lb.node).parent = some parent ∧
          a = (some s.nodes.length, { requirePara := true }) ∧
          s' = { r := r', nodes := s.nodes ++ [{ kind := .heading, level := lvl, lines := [RCur.seg src c], linesNil := false }],
                 pc := { s.pc with tmpPara := some lb.node } })) := by
  unfold setextOpen at e
  obtain ⟨lb', s1, h1, k1⟩ := obind_ok e
  obtain ⟨hlb', hs1⟩ := olastOpenedBlock_ok h1
  subst s1
  subst lb'
  clear h1
  cases hlb : s.pc.opened.getLast? with
  | none =>
    rw [hlb] at k1
    obtain ⟨rfl, hs⟩ := opure_ok k1
    subst s'
    exact ⟨s.r, h, .inl ⟨rfl, rfl⟩⟩
  | some lb =>
    rw [hlb] at k1
    dsimp only at k1
    obtain ⟨ln, s2, h2, k2⟩ := obind_ok k1
    obtain ⟨rfl, hs2⟩ := ogetNode_ok h2
    subst s2
    split at k2
    · obtain ⟨rfl, hs⟩ := opure_ok k2
      subst s'
      exact ⟨s.r, h, .inl ⟨rfl, rfl⟩⟩
    · next hcond =>
      obtain ⟨x, s3, h3, k3⟩ := obind_ok k2
      obtain ⟨rfl, r1, hs3, hr1⟩ := peekLine_inv h h3
      subst s3
      dsimp only at k3
      obtain ⟨y, s4, h4, k4⟩ := obind_ok k3
      obtain ⟨_, hs4⟩ := oliftE_ok h4
      subst s4
      obtain ⟨cc, ok⟩ := y
      dsimp only at k4
      split at k4
      · obtain ⟨rfl, hs⟩ := opure_ok k4
        subst s'
        exact ⟨r1, hr1, .inl ⟨rfl, rfl⟩⟩
      · obtain ⟨node, s5, h5, k5⟩ := obind_ok k4
        obtain ⟨rfl, hs5⟩ := onewNode_ok h5
        subst s5
        obtain ⟨_, s6, h6, k6⟩ := obind_ok k5
        have e6 := omodNode_ok h6
        subst s6
        obtain ⟨_, s7, h7, k7⟩ := obind_ok k6
        have e7 := omodPc_ok h7
        subst s7
        obtain ⟨rfl, hs⟩ := opure_ok k7
        subst s'
        have hk : (s.nodes.getD lb.node default).kind = .paragraph ∧ (s.nodes.getD lb.node default).parent = some parent := by
          simp only [Bool.or_eq_true, bne_iff_ne, ne_eq, not_or, Decidable.not_not] at hcond
          exact hcond
        refine ⟨r1, hr1, .inr ⟨lb, (if (cc == 45) = true then 2 else 1), rfl, hk.1, hk.2, rfl, ?_⟩⟩
        simp only [getD_length_append, set_length_append]
        rfl

/-! ### setextHeadingParser.Close, the copying branch -/

/-- **setextHeadingParser.Close copies the closed paragraph** (setext_headings.go:82-118): when
    `temporaryParagraphKey` points to a node that has lines, a normal end of `Close(node)` leaves the store as long
    as it was, the heading `node` with exactly the lines of that paragraph, and every other node with its lines;
    kinds never change. -/
theorem setextClose_copy {s s' : St} {node t : Nat} (ht : s.pc.tmpPara = some t) (hne : (nd s t).lines ≠ [])
    (hnt : node ≠ t) (hlt : node < s.nodes.length) (e : setextClose node s = .ok ((), s')) :
    s'.nodes.length = s.nodes.length ∧
      ((nd s' node).lines = (nd s t).lines ∧ (nd s' node).linesNil = (nd s t).linesNil) ∧
      (∀ i, i ≠ node → (nd s' i).lines = (nd s i).lines ∧ (nd s' i).linesNil = (nd s i).linesNil) ∧
      (∀ i, (nd s' i).kind = (nd s i).kind) ∧
      s'.pc = { s.pc with tmpPara := none } ∧ s'.r = s.r := by
  unfold setextClose at e
  obtain ⟨hn, s1, h1, k1⟩ := obind_ok e
  obtain ⟨rfl, hs1⟩ := ogetNode_ok h1
  subst s1
  obtain ⟨seg, s2, h2, k2⟩ := obind_ok k1
  obtain ⟨_, hs2⟩ := oliftE_ok h2
  subst s2
  obtain ⟨_, s3, h3, k3⟩ := obind_ok k2
  have e3 := omodNode_ok h3
  obtain ⟨pc4, s4, h4, k4⟩ := obind_ok k3
  obtain ⟨rfl, hs4⟩ := ogetPc_ok h4
  subst s4
  have hpc3 : s3.pc = s.pc := by rw [e3]
  rw [hpc3, ht] at k4
  dsimp only at k4
  obtain ⟨tmp, s4, h4', k4'⟩ := obind_ok k4
  obtain ⟨htm, hs4⟩ := opure_ok h4'
  subst tmp
  subst s4
  obtain ⟨_, s5, h5, k5⟩ := obind_ok k4'
  have e5 := omodPc_ok h5
  obtain ⟨tn, s6, h6, k6⟩ := obind_ok k5
  obtain ⟨rfl, hs6⟩ := ogetNode_ok h6
  subst s6
  -- the node `t` in `s5` is the node `t` of `s` (only `node ≠ t` was written)
  have hnd5 : ∀ i, nd s5 i = if i = node then { (nd s node) with lines := [], linesNil := true } else nd s i := by
    intro i
    have : nd s5 i = nd (upd s node fun n => { n with lines := [], linesNil := true }) i := by
      rw [e5, e3]; rfl
    rw [this, nd_upd]
    by_cases hi : i = node
    · subst hi; simp [hlt]
    · have : ¬ (node = i ∧ node < s.nodes.length) := fun hh => hi hh.1.symm
      rw [if_neg this, if_neg hi]
  have ht5 : s5.nodes.getD t default = nd s t := by
    have := hnd5 t
    rw [if_neg (Ne.symm hnt)] at this
    exact this
  rw [ht5] at k6
  have hlen0 : ((nd s t).lines.length == 0) = false := by
    cases hh : (nd s t).lines with
    | nil => exact absurd hh hne
    | cons a b => simp
  rw [if_neg (by rw [hlen0]; decide)] at k6
  obtain ⟨_, s7, h7, k7⟩ := obind_ok k6
  have e7 := omodNode_ok h7
  have hlk : LK s7 s' := by
    cases hp : (nd s t).parent with
    | some tp => rw [hp] at k7; exact removeChild_lk k7
    | none => rw [hp] at k7; obtain ⟨_, rfl⟩ := opure_ok k7; exact LK.refl _
  have hlen5 : s5.nodes.length = s.nodes.length := by rw [e5, e3]; simp
  have hnd7 : ∀ i, nd s7 i = if i = node then
      { (nd s5 node) with lines := (nd s t).lines, linesNil := (nd s t).linesNil, blankPrev := (nd s t).blankPrev }
      else nd s5 i := by
    intro i
    have : nd s7 i = nd (upd s5 node fun n =>
        { n with lines := (nd s t).lines, linesNil := (nd s t).linesNil, blankPrev := (nd s t).blankPrev }) i := by
      rw [e7]; rfl
    rw [this, nd_upd]
    by_cases hi : i = node
    · subst hi; simp [hlen5, hlt]
    · have : ¬ (node = i ∧ node < s5.nodes.length) := fun hh => hi hh.1.symm
      rw [if_neg this, if_neg hi]
  have hrpc : s'.r = s7.r ∧ s'.pc = s7.pc := by
    cases hp : (nd s t).parent with
    | some tp => rw [hp] at k7; exact removeChild_rpc k7
    | none => rw [hp] at k7; obtain ⟨_, rfl⟩ := opure_ok k7; exact ⟨rfl, rfl⟩
  have hr : s'.r = s.r := by
    rw [hrpc.1, e7, e5, e3]
  have htmp : s'.pc = { s.pc with tmpPara := none } := by
    rw [hrpc.2, e7, e5, e3]
  refine ⟨?_, ⟨?_, ?_⟩, ?_, ?_, htmp, hr⟩
  · rw [hlk.len, e7]; simp [hlen5]
  · rw [(hlk.same node).1, hnd7 node, if_pos rfl]
  · rw [(hlk.same node).2.1, hnd7 node, if_pos rfl]
  · intro i hi
    refine ⟨?_, ?_⟩
    · rw [(hlk.same i).1, hnd7 i, if_neg hi, hnd5 i, if_neg hi]
    · rw [(hlk.same i).2.1, hnd7 i, if_neg hi, hnd5 i, if_neg hi]
  · intro i
    rw [(hlk.same i).2.2, hnd7 i]
    by_cases hi : i = node
    · subst hi; rw [if_pos rfl]; simp only; rw [hnd5 i, if_pos rfl]
    · rw [if_neg hi, hnd5 i, if_neg hi]

/-! ### listParser.Close: TextBlocks are copies of closed paragraphs -/

/-- what `Close` of a tight list does to the state: reader and context untouched, existing nodes keep lines, nil flag
    and kind, every added node is a TextBlock carrying the lines of an existing Paragraph -/
structure Copies (s s' : St) : Prop where
  len : s.nodes.length ≤ s'.nodes.length
  old : ∀ i, i < s.nodes.length → (nd s' i).lines = (nd s i).lines ∧ (nd s' i).linesNil = (nd s i).linesNil ∧
      (nd s' i).kind = (nd s i).kind
  new : ∀ i, s.nodes.length ≤ i → i < s'.nodes.length →
      (nd s' i).kind = .textBlock ∧ ∃ j, j < s.nodes.length ∧ (nd s j).kind = .paragraph ∧
        (nd s' i).lines = (nd s j).lines ∧ (nd s' i).linesNil = (nd s j).linesNil
  r : s'.r = s.r
  pc : s'.pc = s.pc

theorem Copies.refl (s : St) : Copies s s :=
  ⟨Nat.le_refl _, fun _ _ => ⟨rfl, rfl, rfl⟩, fun i h1 h2 => by omega, rfl, rfl⟩

theorem Copies.of_lk {s s' : St} (h : LK s s') : Copies s s' :=
  ⟨by rw [h.len]; exact Nat.le_refl _, fun i _ => h.same i, fun i h1 h2 => by rw [h.len] at h2; omega, h.r, h.pc⟩

theorem Copies.trans {a b c : St} (h1 : Copies a b) (h2 : Copies b c) : Copies a c := by
  refine ⟨Nat.le_trans h1.len h2.len, fun i hi => ?_, fun i hi1 hi2 => ?_, h2.r.trans h1.r, h2.pc.trans h1.pc⟩
  · obtain ⟨x1, x2, x3⟩ := h1.old i hi
    obtain ⟨y1, y2, y3⟩ := h2.old i (Nat.lt_of_lt_of_le hi h1.len)
    exact ⟨y1.trans x1, y2.trans x2, y3.trans x3⟩
  · rcases Nat.lt_or_ge i b.nodes.length with hb | hb
    · obtain ⟨y1, y2, y3⟩ := h2.old i hb
      obtain ⟨k, j, hj, hjk, hl, hln⟩ := h1.new i hi1 hb
      exact ⟨y3.trans k, j, hj, hjk, y1.trans hl, y2.trans hln⟩
    · obtain ⟨k, j, hj, hjk, hl, hln⟩ := h2.new i hb hi2
      rcases Nat.lt_or_ge j a.nodes.length with ha | ha
      · obtain ⟨x1, x2, x3⟩ := h1.old j ha
        exact ⟨k, j, ha, by rw [← x3]; exact hjk, by rw [hl, x1], by rw [hln, x2]⟩
      · -- `j` was itself added between `a` and `b`: then it is a TextBlock, not a Paragraph
        obtain ⟨k', _⟩ := h1.new j ha hj
        rw [k'] at hjk; cases hjk

theorem tightenItem_copies (child : Nat) : ∀ (gcs : List Nat) (s s' : St), tightenItem child gcs s = .ok ((), s') →
    Copies s s' := by
  intro gcs
  induction gcs with
  | nil => intro s s' h; unfold tightenItem at h; obtain ⟨_, rfl⟩ := opure_ok h; exact Copies.refl _
  | cons gc gcs ih =>
    intro s s' h
    unfold tightenItem at h
    obtain ⟨g, s1, h1, k1⟩ := obind_ok h
    obtain ⟨rfl, hs1⟩ := ogetNode_ok h1
    subst s1
    dsimp only at k1
    split at k1
    · next hk =>
      obtain ⟨tb, s3, h3, k3⟩ := obind_ok k1
      obtain ⟨rfl, hs3⟩ := onewNode_ok h3
      subst s3
      obtain ⟨_, s4, h4, k4⟩ := obind_ok k3
      have hlk := replaceChild_lk h4
      have hgc : gc < s.nodes.length := by
        rcases Nat.lt_or_ge gc s.nodes.length with h' | h'
        · exact h'
        · exfalso
          have hd : s.nodes.getD gc default = default := by
            simp [List.getD_eq_getElem?_getD, List.getElem?_eq_none h']
          rw [hd] at hk
          exact absurd hk (by decide)
      have hkp : (nd s gc).kind = .paragraph := by simpa using hk
      have hnew : ∀ n : Node, n.kind = .textBlock → n.lines = (s.nodes.getD gc default).lines →
          n.linesNil = (s.nodes.getD gc default).linesNil →
          Copies s ({ s with nodes := s.nodes ++ [n] } : St) := by
        intro n hnk hnl hnn
        refine ⟨by simp, fun i hi => ?_, fun i hi1 hi2 => ?_, rfl, rfl⟩
        · simp only [nd, List.getD_eq_getElem?_getD, List.getElem?_append_left hi]; exact ⟨trivial, trivial, trivial⟩
        · have : i = s.nodes.length := by simp at hi2; omega
          subst this
          simp only [nd, getD_length_append]
          exact ⟨hnk, gc, hgc, hkp, hnl, hnn⟩
      have hc := Copies.of_lk hlk
      refine Copies.trans (Copies.trans ?_ hc) (ih _ _ k4)
      exact hnew _ rfl rfl rfl
    · exact ih _ _ k1

theorem tightenItems_copies : ∀ (cs : List Nat) (s s' : St), tightenItems cs s = .ok ((), s') → Copies s s' := by
  intro cs
  induction cs with
  | nil => intro s s' h; unfold tightenItems at h; obtain ⟨_, rfl⟩ := opure_ok h; exact Copies.refl _
  | cons c cs ih =>
    intro s s' h
    unfold tightenItems at h
    obtain ⟨cn, s0, h0, k0⟩ := obind_ok h
    obtain ⟨rfl, hs0⟩ := ogetNode_ok h0
    subst s0
    obtain ⟨_, s1, h1, k1⟩ := obind_ok k0
    exact (tightenItem_copies c _ _ _ h1).trans (ih _ _ k1)

/-- **listParser.Close only copies** (list.go:247-279): existing nodes keep lines and kind; every node it adds is a
    TextBlock whose lines are the lines of a Paragraph that was in the store — `Segments` values, so what holds for
    the closed paragraph's lines (order, `WF0`) holds for the TextBlock's. -/
theorem listClose_copies {node : Nat} {s s' : St} (h : listClose node s = .ok ((), s')) : Copies s s' := by
  unfold listClose at h
  obtain ⟨list, s1, h1, k1⟩ := obind_ok h
  obtain ⟨rfl, hs1⟩ := ogetNode_ok h1
  subst s1
  obtain ⟨st, s2, h2, k2⟩ := obind_ok k1
  have e2 : st = s ∧ s2 = s := by cases h2; exact ⟨rfl, rfl⟩
  obtain ⟨hst, hs2⟩ := e2
  subst st
  subst s2
  dsimp only at k2
  obtain ⟨_, s3, h3, k3⟩ := obind_ok k2
  have hlk := modNode_lk h3 (fun _ => ⟨rfl, rfl, rfl⟩)
  split at k3
  · exact (Copies.of_lk hlk).trans (tightenItems_copies _ _ _ k3)
  · obtain ⟨_, hs'⟩ := opure_ok k3
    subst s'
    exact Copies.of_lk hlk

end GM.Blocks
