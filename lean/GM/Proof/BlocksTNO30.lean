/-
  GM.Proof.BlocksTNO30 — X-port of GM.Proof.BlocksTNO6 (namespace `GM.Blocks.TX`): the line-order / non-blank invariant
  for the block driver with paragraph transformers that may also build GFM tables.

  Differences to `GM.Blocks.TO.InvGF`:
    * `NodeG` says nothing about `thematicBreak` nodes (the Table / TableHeader / TableRow / TableCell records are
      `thematicBreak` nodes WITH lines: empty cell segments, escaped-pipe positions);
    * `pnl`: every line of a Paragraph that has a successor ends in a newline byte (the table transformer cuts one byte
      off the last line it keeps — a line that had a successor);
    * `pol`: the last line of the node of an OPEN paragraph block ends at a line end (`D` = the blocks whose closing has
      begun: `closeBlocksT` closes them one by one and removes them from the stack afterwards).
-/
import GM.Proof.BlocksTNO24

namespace GM.Blocks.TX
open GM GM.Text GM.Spec GM.Proof.Reader GM.Blocks.TO GM.TableX
open GM.Proof.BlocksWF0 (isRaw)

/-- the byte before the end of the segment is a newline -/
def NLAt (src : Bytes) (t : Segment) : Prop := src[t.stop.toNat - 1]? = some 10
/-- the segment ends at a line end of the source -/
def LEnd (src : Bytes) (t : Segment) : Prop := t.stop = (src.length : Int) ∨ NLAt src t

/-- `TO.NodeG` without a claim about `thematicBreak` nodes -/
def NodeG (B : Int) (n : Node) : Prop :=
  isRaw n.kind = false → n.kind ≠ .thematicBreak → OrdFrom 0 n.lines ∧ (n.kind ≠ .heading → Below B n.lines) ∧
    ∀ t ∈ n.lines, t.start < t.stop ∧ t.forceNewline = false

theorem toG {B : Int} {n : Node} (h : GM.Blocks.TO.NodeB B n) : NodeG B n :=
  fun hr _ => ⟨(h hr).1, fun _ => (h hr).2.1, (h hr).2.2⟩

theorem NodeG.mono {B B' : Int} (h : B ≤ B') {n : Node} (hn : NodeG B n) : NodeG B' n :=
  fun hr hk => ⟨(hn hr hk).1, fun hh => ((hn hr hk).2.1 hh).mono h, (hn hr hk).2.2⟩

structure InvGFX (D : List Block) (F : Prop) (src : Bytes) (B : Int) (s : St) : Prop where
  nrb : ∀ i, NodeG B (nd s i)
  ord : s.pc.opened.Pairwise (fun a b => a.node < b.node)
  pnb : ∀ i, (nd s i).kind = .paragraph → ∀ t ∈ (nd s i).lines, NonBlankSeg src t
  tmpk : ∀ t, s.pc.tmpPara = some t → (nd s t).kind = .paragraph
  kinds : ∀ b ∈ s.pc.opened, (nd s b.node).kind = b.bp.kind ∧ b.node < s.nodes.length
  nodes : NodesOK src s
  tl : ∀ t, s.pc.tmpPara = some t → (F ∨ ∃ b ∈ s.pc.opened, b.bp = .setext) →
    (nd s t).lines ≠ [] ∧ ∀ b' ∈ s.pc.opened, b'.node ≠ t
  raw : ∀ i, isRaw (nd s i).kind = true → OrdFrom 0 (nd s i).lines ∧ Below B (nd s i).lines
  pnl : ∀ i, (nd s i).kind = .paragraph → ∀ t ∈ (nd s i).lines.dropLast, NLAt src t
  pol : ∀ b ∈ s.pc.opened, b ∉ D → b.bp = .paragraph → ∀ t, (nd s b.node).lines.getLast? = some t → LEnd src t

abbrev InvGF (F : Prop) := InvGFX [] F
abbrev InvG := InvGF False

variable {F : Prop} {D : List Block}

theorem InvGFX.mono {src : Bytes} {B B' : Int} {s : St} (h : B ≤ B') (hi : InvGFX D F src B s) : InvGFX D F src B' s :=
  ⟨fun i => (hi.nrb i).mono h, hi.ord, hi.pnb, hi.tmpk, hi.kinds, hi.nodes, hi.tl,
    fun i hr => ⟨(hi.raw i hr).1, (hi.raw i hr).2.mono h⟩, hi.pnl, hi.pol⟩

/-- the reader does not matter -/
theorem InvGFX.congr_r {src : Bytes} {B : Int} {s : St} (hi : InvGFX D F src B s) (r' : Reader) : InvGFX D F src B { s with r := r' } :=
  ⟨hi.nrb, hi.ord, hi.pnb, hi.tmpk, hi.kinds, hi.nodes, hi.tl, hi.raw, hi.pnl, hi.pol⟩

theorem InvGFX.weaken {src : Bytes} {B : Int} {s : St} (hi : InvGFX D F src B s) : InvGFX D False src B s :=
  ⟨hi.nrb, hi.ord, hi.pnb, hi.tmpk, hi.kinds, hi.nodes, fun t ht hm => hi.tl t ht (.inr (hm.resolve_left id)), hi.raw, hi.pnl, hi.pol⟩

theorem InvGFX.strengthen {src : Bytes} {B : Int} {s : St} (hi : InvGFX D F src B s)
    (h : ∀ t, s.pc.tmpPara = some t → (nd s t).lines ≠ [] ∧ ∀ b' ∈ s.pc.opened, b'.node ≠ t) : InvGFX D True src B s :=
  ⟨hi.nrb, hi.ord, hi.pnb, hi.tmpk, hi.kinds, hi.nodes, fun t ht _ => h t ht, hi.raw, hi.pnl, hi.pol⟩

/-- of the context only `tmpPara` and `opened` matter; the stack may shrink to a sublist -/
theorem InvGFX.congr_pc {src : Bytes} {B : Int} {s : St} (hi : InvGFX D F src B s) (pc' : Ctx) (ht : pc'.tmpPara = s.pc.tmpPara)
    (ho : pc'.opened.Sublist s.pc.opened) : InvGFX D F src B { s with pc := pc' } :=
  ⟨hi.nrb, hi.ord.sublist ho, hi.pnb, fun t h => hi.tmpk t (by rw [← ht]; exact h),
    fun b hb => hi.kinds b (ho.subset hb), hi.nodes, fun t h hm => by
      obtain ⟨a1, a2⟩ := hi.tl t (by rw [← ht]; exact h) (hm.imp id (fun ⟨b, hb, hs⟩ => ⟨b, ho.subset hb, hs⟩))
      exact ⟨a1, fun b' hb' => a2 b' (ho.subset hb')⟩, hi.raw, hi.pnl, fun b hb hd => hi.pol b (ho.subset hb) hd⟩

/-- a step that keeps lines, nil flags and kinds of all nodes, the reader and the context -/
theorem InvGFX.lk {src : Bytes} {B : Int} {s s' : St} (hi : InvGFX D F src B s) (h : LK s s') : InvGFX D F src B s' := by
  refine ⟨fun i hr => ?_, by rw [h.pc]; exact hi.ord, fun i hk => ?_, fun t ht => ?_, fun b hb => ?_, fun n hn => ?_,
    fun t ht hm => ?_, fun i hr => by rw [(h.same i).2.2] at hr; rw [(h.same i).1]; exact hi.raw i hr,
    fun i hk => by rw [(h.same i).2.2] at hk; rw [(h.same i).1]; exact hi.pnl i hk,
    fun b hb hd hp => by rw [h.pc] at hb; rw [(h.same _).1]; exact hi.pol b hb hd hp⟩
  · intro hk; rw [(h.same i).2.2] at hr hk; rw [(h.same i).1, (h.same i).2.2]; exact hi.nrb i hr hk
  · rw [(h.same i).2.2] at hk; rw [(h.same i).1]; exact hi.pnb i hk
  · rw [h.pc] at ht; rw [(h.same t).2.2]; exact hi.tmpk t ht
  · rw [h.pc] at hb; rw [(h.same _).2.2, h.len]; exact hi.kinds b hb
  · obtain ⟨i, _, rfl⟩ := mem_nodes_nd hn
    have := nodeOK_nd hi.nodes i
    exact ⟨by rw [(h.same i).1]; exact this.lines, by rw [(h.same i).1, (h.same i).2.1]; exact this.nil⟩
  · rw [h.pc] at ht hm ⊢; rw [(h.same t).1]; exact hi.tl t ht hm

theorem InvGFX.linesAt {src : Bytes} {B : Int} {s s' : St} {X : Nat} {ls : List Segment} (hi : InvGFX D F src B s)
    (h : LinesAt X ls s s')
    (hb : isRaw (nd s X).kind = false → (nd s X).kind ≠ .thematicBreak → OrdFrom 0 ls ∧ ((nd s X).kind ≠ .heading → Below B ls) ∧
      ∀ t ∈ ls, t.start < t.stop ∧ t.forceNewline = false)
    (hp : (nd s X).kind = .paragraph → ∀ t ∈ ls, NonBlankSeg src t)
    (hne : (nd s X).kind = .paragraph → (nd s X).lines ≠ [] → ls ≠ []) (hok : LinesOK src ls)
    (hrw : isRaw (nd s X).kind = true → OrdFrom 0 ls ∧ Below B ls)
    (hpn : (nd s X).kind = .paragraph → ∀ t ∈ ls.dropLast, NLAt src t)
    (hpo : ∀ b ∈ s.pc.opened, b ∉ D → b.node = X → b.bp = .paragraph → ∀ t, ls.getLast? = some t → LEnd src t) :
    InvGFX D F src B s' := by
  refine ⟨fun i hr hk0 => ?_, by rw [h.opened]; exact hi.ord, fun i hk => ?_, fun t ht => ?_, fun b hbm => ?_, fun n hn => ?_,
    fun t ht hm => ?_, fun i hr => ?_, fun i hk => ?_, fun b hbm hd hbp => ?_⟩
  · rw [h.kind i] at hr hk0
    by_cases hx : i = X
    · subst hx; rw [h.lines, h.kind]; exact hb hr hk0
    · rw [(h.other i hx).1, h.kind]; exact hi.nrb i hr hk0
  · rw [h.kind i] at hk
    by_cases hx : i = X
    · subst hx; rw [h.lines]; exact hp hk
    · rw [(h.other i hx).1]; exact hi.pnb i hk
  · rw [h.kind t]; exact hi.tmpk t (h.tmp t ht)
  · rw [h.opened] at hbm; rw [h.kind, h.len]; exact hi.kinds b hbm
  · obtain ⟨i, _, rfl⟩ := mem_nodes_nd hn
    by_cases hx : i = X
    · subst hx; exact ⟨by rw [h.lines]; exact hok, fun hn => by rw [h.lines]; exact h.nil hn⟩
    · have := nodeOK_nd hi.nodes i
      exact ⟨by rw [(h.other i hx).1]; exact this.lines, by rw [(h.other i hx).1, (h.other i hx).2]; exact this.nil⟩
  · rw [h.opened] at hm ⊢
    obtain ⟨a1, a2⟩ := hi.tl t (h.tmp t ht) hm
    refine ⟨?_, a2⟩
    by_cases hx : t = X
    · subst hx; rw [h.lines]; exact hne (hi.tmpk t (h.tmp t ht)) a1
    · rw [(h.other t hx).1]; exact a1
  · rw [h.kind i] at hr
    by_cases hx : i = X
    · subst hx; rw [h.lines]; exact hrw hr
    · rw [(h.other i hx).1]; exact hi.raw i hr
  · rw [h.kind i] at hk
    by_cases hx : i = X
    · subst hx; rw [h.lines]; exact hpn hk
    · rw [(h.other i hx).1]; exact hi.pnl i hk
  · rw [h.opened] at hbm
    by_cases hx : b.node = X
    · rw [hx, h.lines]; exact hpo b hbm hd hx hbp
    · rw [(h.other b.node hx).1]; exact hi.pol b hbm hd hbp

/-! ### the `Close` functions keep `InvG` -/

/-- every old node but `node` keeps its lines -/
def LO (node : Nat) (s s' : St) : Prop := ∀ i, i < s.nodes.length → i ≠ node → (nd s' i).lines = (nd s i).lines

theorem LO.refl (node : Nat) (s : St) : LO node s s := fun _ _ _ => rfl

theorem trimLeftAll_stops {src : Bytes} : ∀ (ls ls' : List Segment), trimLeftAll src ls = .ok ls' → LinesOK src ls →
    ∀ k : Nat, (ls'[k]?).map (fun x : Segment => x.stop) = (ls[k]?).map (fun x : Segment => x.stop)
  | [], ls', h, _, k => by
    unfold trimLeftAll at h
    cases h; simp
  | l :: ls, ls', h, hok, k => by
    obtain ⟨t', ht, _, hstop, _⟩ := trimLeftSpace_ok2 (hok l (by simp))
    unfold trimLeftAll at h
    rw [ht] at h
    simp only [bind, Except.bind, pure, Except.pure] at h
    cases hr : trimLeftAll src ls with
    | error e => rw [hr] at h; cases h
    | ok r =>
      rw [hr] at h
      cases h
      cases k with
      | zero => simp [hstop]
      | succ k =>
        simp only [List.getElem?_cons_succ]
        exact trimLeftAll_stops ls r hr (fun t ht => hok t (by simp [ht])) k

/-- paragraphParser.Close leaves the end of every line but the last where it is -/
theorem paragraphClose_inner {src : Bytes} {s s' : St} {node : Nat} (hsrc : s.r.source = src)
    (hl : LinesOK src (nd s node).lines) (hne : (nd s node).lines ≠ []) (hlt : node < s.nodes.length)
    (e : paragraphClose node s = .ok ((), s')) :
    ∀ k, k + 1 < (nd s node).lines.length → ((nd s' node).lines[k]?).map (fun x : Segment => x.stop) = ((nd s node).lines[k]?).map (fun x : Segment => x.stop) := by
  obtain ⟨_, _, ls, _, hsh, _, _, hn⟩ := (paragraphClose_lines node hsrc hl hne).of_ok e
  have hlines' : (nd s' node).lines = ls := by
    simp only [nd, hn, List.getD_eq_getElem?_getD, List.getElem?_set, hlt, if_true]
    rfl
  -- the run, step by step
  unfold paragraphClose at e
  obtain ⟨n, s1, h1, k1⟩ := obind_ok e
  obtain ⟨hn1, hs1⟩ := ogetNode_ok h1
  subst s1
  subst hn1
  obtain ⟨src', s2, h2, k2⟩ := obind_ok k1
  have hs2 : s2 = s ∧ src' = src := by cases h2; exact ⟨rfl, hsrc⟩
  obtain ⟨hs2a, hs2b⟩ := hs2
  subst s2
  subst src'
  dsimp only at k2
  have hne' : ((s.nodes.getD node default).lines.length != 0) = true := by
    have : (s.nodes.getD node default).lines = (nd s node).lines := rfl
    rw [this]
    cases hh : (nd s node).lines with
    | nil => exact absurd hh hne
    | cons a b => simp
  rw [if_pos hne'] at k2
  obtain ⟨ls1, s3, h3, k3⟩ := obind_ok k2
  obtain ⟨e3, hs3⟩ := oliftE_ok h3
  subst s3
  obtain ⟨last, s4, h4, k4⟩ := obind_ok k3
  obtain ⟨e4, hs4⟩ := oliftE_ok h4
  subst s4
  obtain ⟨last', s5, h5, k5⟩ := obind_ok k4
  obtain ⟨e5, hs5⟩ := oliftE_ok h5
  subst s5
  obtain ⟨ls2, s6, h6, k6⟩ := obind_ok k5
  obtain ⟨e6, hs6⟩ := oliftE_ok h6
  subst s6
  obtain ⟨_, s7, h7, k7⟩ := obind_ok k6
  have hs7 := omodNode_ok h7
  have hl7 : (nd s7 node).lines = ls2 := by
    rw [hs7]
    simp only [nd, List.getD_eq_getElem?_getD, List.getElem?_set, hlt, if_true]
    rfl
  have hls2 : ls2 = ls1.set ((ls1.length : Int) - 1).toNat last' := by
    unfold lineSet at e6
    split at e6
    · cases e6; rfl
    · cases e6
  have hstops := trimLeftAll_stops _ _ e3 hl
  have hlen1 : ls1.length = (nd s node).lines.length := by
    have h0 := hstops ls1.length
    have h1' := hstops (nd s node).lines.length
    rcases Nat.lt_trichotomy ls1.length (nd s node).lines.length with hh | hh | hh
    · rw [List.getElem?_eq_none (Nat.le_refl _)] at h0
      have : ((s.nodes.getD node default).lines[ls1.length]?) = some ((nd s node).lines[ls1.length]) :=
        List.getElem?_eq_getElem hh
      rw [this] at h0; cases h0
    · exact hh
    · have e1 : ((s.nodes.getD node default).lines[(nd s node).lines.length]?) = none :=
        List.getElem?_eq_none (Nat.le_refl _)
      rw [e1, List.getElem?_eq_getElem hh] at h1'; cases h1'
  have hfin : (nd s' node).lines = ls2 := by
    obtain ⟨n8, s8, h8, k8⟩ := obind_ok k7
    obtain ⟨hn8, hs8⟩ := ogetNode_ok h8
    subst s8
    subst hn8
    have hl8 : (s7.nodes.getD node default).lines = ls2 := hl7
    have hnz : ls2.length ≠ 0 := by
      rw [hls2, List.length_set, hlen1]
      intro h0
      exact hne (List.length_eq_zero_iff.1 h0)
    rw [hl8] at k8
    rw [if_neg (by simpa using hnz)] at k8
    obtain ⟨_, hs9⟩ := opure_ok k8
    subst s'
    exact hl7
  intro k hk
  rw [hfin, hls2, List.getElem?_set]
  have : ¬ ((ls1.length : Int) - 1).toNat = k := by omega
  rw [if_neg this]
  exact hstops k

theorem paragraphClose_invG {src : Bytes} {B : Int} {s s' : St} {node : Nat} (hi : InvGFX D F src B s) (hsrc : s.r.source = src)
    (hk : (nd s node).kind = .paragraph) (hlt : node < s.nodes.length) (hD : ∀ b ∈ s.pc.opened, b.node = node → b ∈ D)
    (e : paragraphClose node s = .ok ((), s')) : InvGFX D F src B s' ∧ s'.r = s.r ∧ s'.pc = s.pc ∧ KG s s' ∧
      ((nd s node).lines ≠ [] → (nd s' node).lines ≠ []) ∧ LO node s s' := by
  by_cases hne : (nd s node).lines = []
  · -- a paragraph a transformer has emptied: `node.Parent().RemoveChild(node.Parent(), node)`
    have hne' : (s.nodes.getD node default).lines = [] := hne
    unfold paragraphClose at e
    obtain ⟨n, s1, h1, k1⟩ := obind_ok e
    obtain ⟨rfl, hs1⟩ := ogetNode_ok h1
    subst s1
    obtain ⟨src', s2, h2, k2⟩ := obind_ok k1
    have hs2 : s2 = s := by cases h2; rfl
    subst s2
    dsimp only at k2
    have k3 : (do
        let n ← getNode node
        if (n.lines.length == 0) = true then
            match n.parent with
            | none => throw Panic.nil
            | some p => removeChild p node
          else pure () : M Unit) s = .ok ((), s') := by
      split at k2
      · next hc => rw [hne'] at hc; simp at hc
      · exact k2
    obtain ⟨n4, s4, h4, k4⟩ := obind_ok k3
    obtain ⟨rfl, hs4⟩ := ogetNode_ok h4
    subst s4
    split at k4
    · cases hp : (s.nodes.getD node default).parent with
      | none => rw [hp] at k4; cases k4
      | some p =>
        rw [hp] at k4
        have hlk := removeChild_lk k4
        exact ⟨hi.lk hlk, hlk.r, hlk.pc, hlk.kg, fun h => absurd hne h, fun i _ _ => (hlk.same i).1⟩
    · next hc => rw [hne'] at hc; simp at hc
  · have hl : LinesOK src (nd s node).lines := (nodeOK_nd hi.nodes node).lines
    obtain ⟨hr, hpc, ls, hok, hsh, hpf, hnbl, hn⟩ := (paragraphClose_lines node hsrc hl hne).of_ok e
    have hall := hnbl (hi.pnb node hk)
    have hnb := hi.nrb node (by rw [hk]; rfl) (by rw [hk]; decide)
    have hinner := paragraphClose_inner hsrc hl hne hlt e
    have hs' : s' = { s with nodes := s.nodes.set node { (nd s node) with lines := ls } } := by
      cases s'; simp only at hr hpc hn; subst hr hpc hn; rfl
    have hlen := hsh.length
    have hlsne : ls ≠ [] := by
      intro e0; rw [e0] at hlen; exact hne (List.length_eq_zero_iff.1 hlen.symm)
    have hla := linesAt_upd s node ls hlt (fun hn0 => absurd ((nodeOK_nd hi.nodes node).nil hn0) hne)
    rw [← hs'] at hla
    have hpn : ∀ t ∈ ls.dropLast, NLAt src t := by
      intro t ht
      obtain ⟨k, hk1, hk2⟩ := List.getElem_of_mem ht
      rw [List.length_dropLast] at hk1
      rw [List.getElem_dropLast] at hk2
      have h1 := hinner k (by rw [← hlen]; omega)
      rw [hla.lines, List.getElem?_eq_getElem (by omega), hk2] at h1
      have hk' : k < (nd s node).lines.length := by rw [← hlen]; omega
      rw [List.getElem?_eq_getElem hk'] at h1
      simp only [Option.map_some, Option.some.injEq] at h1
      have hm : (nd s node).lines[k] ∈ (nd s node).lines.dropLast := by
        rw [List.mem_iff_getElem]
        exact ⟨k, by rw [List.length_dropLast, ← hlen]; omega, by rw [List.getElem_dropLast]⟩
      have := hi.pnl node hk _ hm
      unfold NLAt at this ⊢
      rw [h1]; exact this
    exact ⟨hi.linesAt hla (fun _ _ => ⟨OrdFrom.shrinks hsh hnb.1, fun hh => Below.shrinks hsh (hnb.2.1 hh),
        fun t ht => ⟨(hall t ht).2, (hpf t ht).2⟩⟩) (fun _ => fun t ht => (hall t ht).1) (fun _ _ => hlsne) hok
        (fun hr' => by rw [hk] at hr'; cases hr') (fun _ => hpn)
        (fun b hb hd hx _ => absurd (hD b hb hx) hd), hr, hpc, hla.kg,
      fun _ => by rw [hla.lines]; exact hlsne, fun i _ hx => (hla.other i hx).1⟩

theorem codeClose_invG {src : Bytes} {B : Int} {s s' : St} {node : Nat} (hi : InvGFX D F src B s)
    (hk : (nd s node).kind = .codeBlock) (hlt : node < s.nodes.length)
    (e : codeClose node s = .ok ((), s')) : InvGFX D F src B s' ∧ s'.r = s.r ∧ s'.pc = s.pc ∧ KG s s' ∧ LO node s s' := by
  unfold codeClose at e
  obtain ⟨n, s1, h1, k1⟩ := obind_ok e
  obtain ⟨rfl, hs1⟩ := ogetNode_ok h1
  subst s1
  obtain ⟨src', s2, h2, k2⟩ := obind_ok k1
  have hs2 : s2 = s := by cases h2; rfl
  subst s2
  obtain ⟨len, s3, h3, k3⟩ := obind_ok k2
  obtain ⟨_, hs3⟩ := oliftE_ok h3
  subst s3
  dsimp only at k3
  split at k3
  · obtain ⟨_, _, ht, _⟩ := obind_ok k3; cases ht
  have e4 := omodNode_ok k3
  have hs' : s' = { s with nodes := s.nodes.set node { (nd s node) with lines := (nd s node).lines.take (len + 1).toNat } } := e4
  have hok := (nodeOK_nd hi.nodes node)
  have hla := linesAt_upd s node ((nd s node).lines.take (len + 1).toNat) hlt (fun hn0 => by rw [hok.nil hn0]; simp)
  rw [← hs'] at hla
  exact ⟨hi.linesAt hla (fun hr => by rw [hk] at hr; cases hr) (fun hp => by rw [hk] at hp; cases hp)
    (fun hp => by rw [hk] at hp; cases hp) (fun t ht => hok.lines t (List.mem_of_mem_take ht))
    (fun _ => ⟨OrdFrom.take _ (hi.raw node (by rw [hk]; rfl)).1,
      fun t ht => (hi.raw node (by rw [hk]; rfl)).2 t (List.mem_of_mem_take ht)⟩) (fun hp => by rw [hk] at hp; cases hp)
    (fun b hb _ hx hbp => by have := (hi.kinds b hb).1; rw [hx, hk, hbp] at this; cases this), by rw [hs'], by rw [hs'], hla.kg,
    fun i _ hx => (hla.other i hx).1⟩

theorem fencedClose_invG {src : Bytes} {B : Int} {s s' : St} {node : Nat} (hi : InvGFX D F src B s)
    (e : fencedClose node s = .ok ((), s')) : InvGFX D F src B s' ∧ s'.r = s.r ∧ s'.pc.opened = s.pc.opened ∧ KG s s' ∧
      s'.pc.tmpPara = s.pc.tmpPara ∧ LO node s s' := by
  unfold fencedClose at e
  obtain ⟨pc, s1, h1, k1⟩ := obind_ok e
  obtain ⟨rfl, hs1⟩ := ogetPc_ok h1
  subst s1
  cases hf : s.pc.fence with
  | none => rw [hf] at k1; cases k1
  | some f =>
    rw [hf] at k1
    dsimp only at k1
    split at k1
    · have := omodPc_ok k1
      subst this
      exact ⟨hi.congr_pc _ rfl (List.Sublist.refl _), rfl, rfl, KG.refl _, rfl, fun _ _ _ => rfl⟩
    · obtain ⟨_, hs⟩ := opure_ok k1
      subst s'
      exact ⟨hi, rfl, rfl, KG.refl _, rfl, LO.refl _ _⟩

theorem listClose_invG {src : Bytes} {B : Int} {s s' : St} {node : Nat} (hi : InvGFX D F src B s)
    (e : listClose node s = .ok ((), s')) : InvGFX D F src B s' ∧ s'.r = s.r ∧ s'.pc = s.pc ∧ KG s s' ∧ LO node s s' := by
  have hc := listClose_copies e
  refine ⟨⟨fun i hr hk0 => ?_, by rw [hc.pc]; exact hi.ord, fun i hk => ?_, fun t ht => ?_, fun b hb => ?_, fun n hn => ?_, fun t ht hm => ?_, fun i hr => ?_,
    fun i hk => ?_, fun b hb hd hbp => ?_⟩, hc.r, hc.pc, hc.kg, fun i hi' _ => (hc.old i hi').1⟩
  · rcases Nat.lt_or_ge i s.nodes.length with h | h
    · obtain ⟨x1, _, x3⟩ := hc.old i h
      rw [x3] at hr hk0; rw [x1, x3]; exact hi.nrb i hr hk0
    · rcases Nat.lt_or_ge i s'.nodes.length with h' | h'
      · obtain ⟨_, j, hj, hjk, hl, _⟩ := hc.new i h h'
        rw [hl]
        obtain ⟨q1, q2, q3⟩ := hi.nrb j (by rw [hjk]; rfl) (by rw [hjk]; decide)
        exact ⟨q1, fun _ => q2 (by rw [hjk]; decide), q3⟩
      · rw [nd_default_of_ge s' h']; exact ⟨trivial, fun _ => Below.nil B, fun t ht => by cases ht⟩
  · rcases Nat.lt_or_ge i s.nodes.length with h | h
    · obtain ⟨x1, _, x3⟩ := hc.old i h
      rw [x3] at hk; rw [x1]; exact hi.pnb i hk
    · rcases Nat.lt_or_ge i s'.nodes.length with h' | h'
      · obtain ⟨k, _⟩ := hc.new i h h'
        rw [k] at hk; cases hk
      · rw [nd_default_of_ge s' h'] at hk; cases hk
  · rw [hc.pc] at ht
    have hk := hi.tmpk t ht
    have htl : t < s.nodes.length := by
      rcases Nat.lt_or_ge t s.nodes.length with h | h
      · exact h
      · rw [nd_default_of_ge s h] at hk; cases hk
    rw [(hc.old t htl).2.2]; exact hk
  · rw [hc.pc] at hb
    obtain ⟨k1, k2⟩ := hi.kinds b hb
    exact ⟨by rw [(hc.old _ k2).2.2]; exact k1, Nat.lt_of_lt_of_le k2 hc.len⟩
  · obtain ⟨i, hil, rfl⟩ := mem_nodes_nd hn
    rcases Nat.lt_or_ge i s.nodes.length with h | h
    · obtain ⟨x1, x2, _⟩ := hc.old i h
      have := nodeOK_nd hi.nodes i
      exact ⟨by rw [x1]; exact this.lines, by rw [x1, x2]; exact this.nil⟩
    · obtain ⟨_, j, _, _, hl, hln⟩ := hc.new i h hil
      have := nodeOK_nd hi.nodes j
      exact ⟨by rw [hl]; exact this.lines, by rw [hl, hln]; exact this.nil⟩
  · rw [hc.pc] at ht hm ⊢
    obtain ⟨a1, a2⟩ := hi.tl t ht hm
    exact ⟨by rw [(hc.old t (tmp_lt (hi.tmpk t ht))).1]; exact a1, a2⟩
  · rcases Nat.lt_or_ge i s.nodes.length with h | h
    · obtain ⟨x1, _, x3⟩ := hc.old i h
      rw [x3] at hr; rw [x1]; exact hi.raw i hr
    · rcases Nat.lt_or_ge i s'.nodes.length with h' | h'
      · obtain ⟨k, _⟩ := hc.new i h h'
        rw [k] at hr; cases hr
      · rw [nd_default_of_ge s' h'] at hr; cases hr
  · rcases Nat.lt_or_ge i s.nodes.length with h | h
    · obtain ⟨x1, _, x3⟩ := hc.old i h
      rw [x3] at hk; rw [x1]; exact hi.pnl i hk
    · rcases Nat.lt_or_ge i s'.nodes.length with h' | h'
      · obtain ⟨k, _⟩ := hc.new i h h'
        rw [k] at hk; cases hk
      · rw [nd_default_of_ge s' h'] at hk; cases hk
  · rw [hc.pc] at hb
    rw [(hc.old _ (hi.kinds b hb).2).1]; exact hi.pol b hb hd hbp


theorem setextClose_invG {src : Bytes} {B : Int} {s s' : St} {node : Nat} (hi : InvGFX D F src B s)
    (hk : (nd s node).kind = .heading) (hlt : node < s.nodes.length) (hm : ∃ b ∈ s.pc.opened, b.bp = .setext)
    (e : setextClose node s = .ok ((), s')) : InvGFX D F src B s' ∧ s'.r = s.r ∧ s'.pc.opened = s.pc.opened ∧ KG s s' ∧
      s'.pc.tmpPara = none ∧ LO node s s' := by
  cases ht : s.pc.tmpPara with
  | none =>
    exfalso
    unfold setextClose at e
    obtain ⟨hn, s1, h1, k1⟩ := obind_ok e
    obtain ⟨rfl, hs1⟩ := ogetNode_ok h1
    subst s1
    obtain ⟨seg, s2, h2, k2⟩ := obind_ok k1
    obtain ⟨_, hs2⟩ := oliftE_ok h2
    subst s2
    obtain ⟨_, s3, h3, k3⟩ := obind_ok k2
    have e3 := omodNode_ok h3
    obtain ⟨pc4, s4, h4, k4⟩ := obind_ok k3
    obtain ⟨rfl, hs4⟩ := ogetPc_ok h4
    subst s4
    have hpc3 : s3.pc = s.pc := by rw [e3]
    rw [hpc3, ht] at k4
    dsimp only at k4
    obtain ⟨_, _, h5, _⟩ := obind_ok k4
    cases h5
  | some t =>
    have hkt := hi.tmpk t ht
    have hne := (hi.tl t ht (.inr hm)).1
    have hnt : node ≠ t := by intro e0; rw [e0, hkt] at hk; cases hk
    obtain ⟨hlen, ⟨hl, hln⟩, hoth, hkind, hpc, hr⟩ := setextClose_copy ht hne hnt hlt e
    have hla : LinesAt node (nd s t).lines s s' :=
      ⟨hlen, hkind, hoth, hl, fun hn0 => (nodeOK_nd hi.nodes t).nil (by rw [← hln]; exact hn0), hr,
        (fun t' ht' => by rw [hpc] at ht'; cases ht'), (by rw [hpc])⟩
    obtain ⟨q1, _, q3⟩ := hi.nrb t (by rw [hkt]; rfl) (by rw [hkt]; decide)
    exact ⟨hi.linesAt hla (fun _ _ => ⟨q1, fun hh => absurd hk hh, q3⟩) (fun hp => by rw [hk] at hp; cases hp)
        (fun hp => by rw [hk] at hp; cases hp) (nodeOK_nd hi.nodes t).lines (fun hr' => by rw [hk] at hr'; cases hr')
        (fun hp => by rw [hk] at hp; cases hp)
        (fun b hb _ hx hbp => by have := (hi.kinds b hb).1; rw [hx, hk, hbp] at this; cases this),
        hr, by rw [hpc], hla.kg, by rw [hpc], fun i _ hx => (hla.other i hx).1⟩

/-- **every `Close` keeps the invariant** (the setext heading parser's: for a block of the stack), does not move the
    reader, does not touch the open-block stack, and sets no temporaryParagraphKey -/
theorem bpClose_invG {src : Bytes} {B : Int} {s s' : St} (bp : BP) (node : Nat) (hi : InvGFX D F src B s) (hsrc : s.r.source = src)
    (hk : (nd s node).kind = bp.kind) (hlt : node < s.nodes.length)
    (hm : bp = .setext → ∃ b ∈ s.pc.opened, b.bp = .setext)
    (hD : bp = .paragraph → ∀ b ∈ s.pc.opened, b.node = node → b ∈ D)
    (e : bpClose bp node s = .ok ((), s')) : InvGFX D F src B s' ∧ s'.r = s.r ∧ s'.pc.opened = s.pc.opened ∧ KG s s' ∧
      (∀ t, s'.pc.tmpPara = some t → s.pc.tmpPara = some t) ∧ LO node s s' := by
  cases bp <;> unfold bpClose at e
  · obtain ⟨a, b, c, d, f, g⟩ := setextClose_invG hi hk hlt (hm rfl) e
    exact ⟨a, b, c, d, fun t ht => (by rw [f] at ht; cases ht), g⟩
  · obtain ⟨_, hs⟩ := opure_ok e; subst s'; exact ⟨hi, rfl, rfl, KG.refl _, fun _ h => h, LO.refl _ _⟩
  · obtain ⟨a, b, c, d, g⟩ := listClose_invG hi e; exact ⟨a, b, by rw [c], d, fun _ h => (by rw [c] at h; exact h), g⟩
  · obtain ⟨_, hs⟩ := opure_ok e; subst s'; exact ⟨hi, rfl, rfl, KG.refl _, fun _ h => h, LO.refl _ _⟩
  · obtain ⟨a, b, c, d, g⟩ := codeClose_invG hi hk hlt e; exact ⟨a, b, by rw [c], d, fun _ h => (by rw [c] at h; exact h), g⟩
  · obtain ⟨_, hs⟩ := opure_ok e; subst s'; exact ⟨hi, rfl, rfl, KG.refl _, fun _ h => h, LO.refl _ _⟩
  · obtain ⟨a, b, c, d, f, g⟩ := fencedClose_invG hi e; exact ⟨a, b, c, d, fun _ h => (by rw [f] at h; exact h), g⟩
  · obtain ⟨_, hs⟩ := opure_ok e; subst s'; exact ⟨hi, rfl, rfl, KG.refl _, fun _ h => h, LO.refl _ _⟩
  · obtain ⟨_, hs⟩ := opure_ok e; subst s'; exact ⟨hi, rfl, rfl, KG.refl _, fun _ h => h, LO.refl _ _⟩
  · obtain ⟨a, b, c, d, _, g⟩ := paragraphClose_invG hi hsrc hk hlt (hD rfl) e; exact ⟨a, b, by rw [c], d, fun _ h => (by rw [c] at h; exact h), g⟩

/-! ### G2 / G1 for `InvG` -/

theorem InvGFX.linesOKB {src : Bytes} {B : Int} {s : St} (hi : InvGFX D F src B s) {node : Nat}
    (hk : (nd s node).kind = .paragraph) : GM.LinkRef.linesOKB src (nd s node).lines = true := by
  unfold GM.LinkRef.linesOKB
  cases hl : (nd s node).lines with
  | nil => rfl
  | cons a rest =>
    have hnb := hi.nrb node (by rw [hk]; rfl) (by rw [hk]; decide)
    have hok := (nodeOK_nd hi.nodes node).lines
    have hpn := hi.pnb node hk
    rw [hl] at hnb hok hpn
    have h1 : GM.LinkRef.wfSegsFromB src 0 (a :: rest) = true :=
      wfSegsFromB_complete src _ 0 hnb.1 (fun t ht => ⟨(hnb.2.2 t ht).1, (hok t ht).2.2.1, (hok t ht).2.2.2, (hnb.2.2 t ht).2⟩)
    have h2 : GM.LinkRef.noBlankB src (a :: rest) = true := by
      unfold GM.LinkRef.noBlankB
      rw [List.all_eq_true]
      intro t ht
      have := hpn t ht
      unfold NonBlankSeg at this
      rw [this]; rfl
    simp only [GM.LinkRef.wfSegsB, h1, h2, List.isEmpty_cons, Bool.not_false, Bool.and_self, Bool.or_true]

/-- the lines of a Paragraph fit the table transformer's checked twin too -/
theorem InvGFX.tblLinesB {src : Bytes} {B : Int} {s : St} (hi : InvGFX D F src B s) {node : Nat}
    (hk : (nd s node).kind = .paragraph) : TO.tblLinesB src (nd s node).lines = true := by
  have hnb := hi.nrb node (by rw [hk]; rfl) (by rw [hk]; decide)
  have hok := (nodeOK_nd hi.nodes node).lines
  unfold TO.tblLinesB
  rw [List.all_eq_true]
  intro t ht
  obtain ⟨a1, a2, a3, a4⟩ := hok t ht
  obtain ⟨b1, b2⟩ := hnb.2.2 t ht
  simp only [validB, Bool.and_eq_true, decide_eq_true_eq, Bool.not_eq_true']
  exact ⟨⟨⟨⟨⟨a1, a2⟩, a3⟩, a4⟩, b2⟩, b1⟩

theorem mem_dropLast_drop {α} (k : Nat) (l : List α) {x : α} (h : x ∈ (l.drop k).dropLast) : x ∈ l.dropLast := by
  rw [List.dropLast_eq_take, List.length_drop] at h
  rw [List.dropLast_eq_take]
  have : (l.drop k).take (l.length - k - 1) = (l.take (l.length - 1)).drop k := by
    rw [List.drop_take]; congr 1; omega
  rw [this] at h
  exact List.mem_of_mem_drop h

theorem getLast?_drop' {α} (k : Nat) (l : List α) {x : α} (h : (l.drop k).getLast? = some x) : l.getLast? = some x := by
  rw [List.getLast?_drop] at h
  split at h
  · cases h
  · exact h

/-- **G1**: a transformer call on the node of an open block that ends as `PTPost` says keeps `InvG` -/
theorem InvGFX.ptpost {src : Bytes} {B : Int} {s s' : St} {node : Nat} (hi : InvGFX D F src B s) (hlt : node < s.nodes.length)
    (hnt : ∀ t, s.pc.tmpPara = some t → (F ∨ ∃ b ∈ s.pc.opened, b.bp = .setext) → t ≠ node)
    (hkp : (nd s node).kind = .paragraph) (h : PTPost node s s') : InvGFX D F src B s' ∧ s'.r = s.r ∧ s'.pc.opened = s.pc.opened ∧ KG s s' ∧
      s'.pc.tmpPara = s.pc.tmpPara ∧ LO node s s' := by
  obtain ⟨g, ht⟩ := T.tstep_of_post hi.nodes hlt h
  have hl := ptpost_lines hlt h
  have hkind : ∀ i, (nd s' i).kind = (nd s i).kind ∨ (nd s i).lines = [] := fun i => by
    rcases Nat.lt_or_ge i s.nodes.length with h1 | h1
    · exact .inl (ht.kind i h1)
    · right; rw [nd_default_of_ge s h1]; rfl
  refine ⟨⟨fun i hr hk0 => ?_, by rw [ht.opened]; exact hi.ord, fun i hk => ?_, fun t htt => ?_, fun b hb => ?_, ht.nodes,
    fun t htt hm => ?_, fun i hr => ?_, fun i hk => ?_, fun b hb hd hbp => ?_⟩, ht.r, ht.opened, ⟨ht.len, ht.kind⟩, ht.tmp,
    fun i hi' hx => ht.other i hi' hx⟩
  · obtain ⟨k, ek⟩ := hl i
    rw [ek]
    rcases hkind i with h1 | h1
    · rw [h1] at hr hk0
      obtain ⟨a1, a2, a3⟩ := hi.nrb i hr hk0
      exact ⟨OrdFrom.drop' k a1 (fun t ht' => (a3 t ht').1),
        fun hh t ht' => a2 (by rw [← h1]; exact hh) t (List.mem_of_mem_drop ht'),
        fun t ht' => a3 t (List.mem_of_mem_drop ht')⟩
    · rw [h1]; simp only [List.drop_nil]
      exact ⟨trivial, fun _ => Below.nil B, fun t ht' => by cases ht'⟩
  · obtain ⟨k, ek⟩ := hl i
    rw [ek]
    rcases hkind i with h1 | h1
    · rw [h1] at hk
      exact fun t ht' => hi.pnb i hk t (List.mem_of_mem_drop ht')
    · rw [h1]; simp
  · rw [ht.tmp] at htt
    have hk := hi.tmpk t htt
    rw [ht.kind t (tmp_lt hk)]; exact hk
  · rw [ht.opened] at hb
    obtain ⟨k1, k2⟩ := hi.kinds b hb
    exact ⟨by rw [ht.kind _ k2]; exact k1, Nat.lt_of_lt_of_le k2 ht.len⟩
  · rw [ht.tmp] at htt
    rw [ht.opened] at hm ⊢
    obtain ⟨a1, a2⟩ := hi.tl t htt hm
    have hne : t ≠ node := hnt t htt hm
    exact ⟨by rw [ht.other t (tmp_lt (hi.tmpk t htt)) hne]; exact a1, a2⟩
  · rcases Nat.lt_or_ge i s.nodes.length with h1 | h1
    · rw [ht.kind i h1] at hr
      have hne : i ≠ node := fun e0 => by rw [e0, hkp] at hr; cases hr
      rw [ht.other i h1 hne]; exact hi.raw i hr
    · obtain ⟨k, ek⟩ := hl i
      rw [ek, nd_default_of_ge s h1]
      have : (List.drop k (default : Node).lines) = [] := by
        show List.drop k [] = []
        simp
      rw [this]
      exact ⟨trivial, Below.nil B⟩
  · obtain ⟨k, ek⟩ := hl i
    rw [ek]
    rcases hkind i with h1 | h1
    · rw [h1] at hk
      exact fun t ht' => hi.pnl i hk t (mem_dropLast_drop k _ ht')
    · rw [h1]; simp
  · rw [ht.opened] at hb
    obtain ⟨k, ek⟩ := hl b.node
    rw [ek]
    exact fun t ht' => hi.pol b hb hd hbp t (getLast?_drop' k _ ht')

/-! ### the table step -/

theorem shrinks_snoc : ∀ (init : List Segment) (u u' : Segment), u.start ≤ u'.start → u'.stop ≤ u.stop →
    Shrinks (init ++ [u]) (init ++ [u'])
  | [], _, _, h1, h2 => ⟨h1, h2, trivial⟩
  | _ :: as, u, u', h1, h2 => ⟨Int.le_refl _, Int.le_refl _, shrinks_snoc as u u' h1 h2⟩

/-- a non-blank line that ends in a newline is still non-blank (and not empty) without it -/
theorem nonblank_cut {src : Bytes} {u : Segment} (h0 : 0 ≤ u.start) (h1 : u.start < u.stop) (h2 : u.stop ≤ src.length)
    (hnb : NonBlankSeg src u) (hnl : NLAt src u) :
    NonBlankSeg src { u with stop := u.stop - 1 } ∧ u.start < u.stop - 1 := by
  unfold NonBlankSeg at hnb ⊢
  unfold NLAt at hnl
  have e1 : (u.stop - 1).toNat = u.stop.toNat - 1 := by omega
  simp only [e1]
  have hsub : sub src u.start.toNat u.stop.toNat = sub src u.start.toNat (u.stop.toNat - 1) ++ [10] := by
    unfold sub
    have e2 : u.stop.toNat - u.start.toNat = (u.stop.toNat - 1 - u.start.toNat) + 1 := by omega
    rw [e2, List.take_succ, List.getElem?_drop]
    have e3 : u.start.toNat + (u.stop.toNat - 1 - u.start.toNat) = u.stop.toNat - 1 := by omega
    rw [e3, hnl]; rfl
  rw [hsub] at hnb
  have hb : isBlank (sub src u.start.toNat (u.stop.toNat - 1)) = false := by
    unfold isBlank at hnb ⊢
    rw [List.all_append] at hnb
    cases hh : (sub src u.start.toNat (u.stop.toNat - 1)).all isSpace
    · rfl
    · rw [hh] at hnb; simp [isSpace] at hnb
  refine ⟨hb, ?_⟩
  by_cases h : u.start < u.stop - 1
  · exact h
  · exfalso
    have : sub src u.start.toNat (u.stop.toNat - 1) = [] := by
      unfold sub
      have : u.stop.toNat - 1 - u.start.toNat = 0 := by omega
      rw [this]; rfl
    rw [this] at hb
    simp [isBlank] at hb

/-- the paragraph's new lines: none, or a proper prefix of the old lines with the last line cut by one byte -/
theorem table_lines {src : Bytes} {ls : List Segment} (hv : TO.tblLinesB src ls = true) {t : GM.Table.Table}
    (ht : (GM.Table.transform src (ls.map toSeg)).table = some t) :
    (GM.Table.transform src (ls.map toSeg)).para.map ofSeg = [] ∨
    ∃ init u rest, ls = init ++ u :: rest ∧ rest ≠ [] ∧
      (GM.Table.transform src (ls.map toSeg)).para.map ofSeg = init ++ [{ u with stop := u.stop - 1 }] := by
  obtain ⟨⟨pre, hdr, dl, tl, hls, hpara⟩, _⟩ := table_facts hv ht
  rw [hpara]
  rcases List.eq_nil_or_concat pre with hp | ⟨init, u, hp⟩
  · left; subst hp; rfl
  · right
    subst hp
    refine ⟨init, u, hdr :: dl :: tl, by rw [hls]; simp, by simp, ?_⟩
    rw [List.concat_eq_append, List.map_append, List.map_cons, List.map_nil, Tab.trimLastNewline_snoc,
      List.map_append, List.map_map, List.map_cons, List.map_nil]
    have hmem : ∀ x ∈ init ++ [u], 0 ≤ x.start ∧ x.start < x.stop ∧ 0 ≤ x.padding ∧ x.forceNewline = false := by
      intro x hx
      obtain ⟨a, b, _, d, e⟩ := tblLinesB_mem hv (t := x) (by rw [hls]; simp at hx ⊢; rcases hx with hx | hx <;> simp [hx])
      exact ⟨a, b, d, e⟩
    congr 1
    · rw [List.map_congr_left (g := id)]
      · simp
      · intro x hx
        obtain ⟨a, b, c, d⟩ := hmem x (by simp [hx])
        exact ofSeg_toSeg a (by omega) c d
    · obtain ⟨a, b, c, d⟩ := hmem u (by simp)
      cases u with
      | mk us ue up uf =>
        simp only at a b c d
        subst d
        simp only [ofSeg, toSeg, List.cons.injEq, Segment.mk.injEq, and_true]
        omega

theorem data_lines {n m : Node} (h : dataOf n = dataOf m) : n.lines = m.lines := by
  have := congrArg Node.lines h; exact this
theorem data_kind {n m : Node} (h : dataOf n = dataOf m) : n.kind = m.kind := by
  have := congrArg Node.kind h; exact this
theorem data_linesNil {n m : Node} (h : dataOf n = dataOf m) : n.linesNil = m.linesNil := by
  have := congrArg Node.linesNil h; exact this

theorem nodeOK_of_data {src : Bytes} {n m : Node} (h : dataOf n = dataOf m) (hm : NodeOK src m) : NodeOK src n := by
  have h1 := data_lines h
  have h2 := data_linesNil h
  exact ⟨by rw [h1]; exact hm.lines, by rw [h1, h2]; exact hm.nil⟩

theorem recD_kind {src : Bytes} {t : GM.Table.Table} {n : Node} (h : RecD src t (dataOf n)) : n.kind = .thematicBreak := by
  rcases h with h | h | ⟨_, _, h⟩ | ⟨_, _, _, _, h⟩
  · have := congrArg Node.kind h; exact this
  · have := congrArg Node.kind h; exact this
  · have := congrArg Node.kind h; exact this
  · have := congrArg Node.kind h; exact this

/-- **a table-making call keeps `InvG`** (`tablepost_inv`): the paragraph keeps a prefix of its lines whose last line
    lost its newline byte; the records are `thematicBreak` nodes, about whose lines `InvG` says nothing -/
theorem InvGFX.tabledata {src : Bytes} {B : Int} {s s' : St} {node : Nat} {t : GM.Table.Table}
    (hi : InvGFX D F src B s) (hlt : node < s.nodes.length)
    (hnt : ∀ t, s.pc.tmpPara = some t → (F ∨ ∃ b ∈ s.pc.opened, b.bp = .setext) → t ≠ node)
    (hkp : (nd s node).kind = .paragraph) (hD : ∀ b ∈ s.pc.opened, b.node = node → b ∈ D)
    (htb : (GM.Table.transform src ((nd s node).lines.map toSeg)).table = some t)
    (h : TableData (RecD src t) node ((GM.Table.transform src ((nd s node).lines.map toSeg)).para.map ofSeg) s s') :
    InvGFX D F src B s' ∧ s'.r = s.r ∧ s'.pc.opened = s.pc.opened ∧ KG s s' ∧ s'.pc.tmpPara = s.pc.tmpPara ∧ LO node s s' := by
  have hv := hi.tblLinesB hkp
  obtain ⟨hLok, hRows⟩ := tableNodesOK' hv htb
  generalize hL' : (GM.Table.transform src ((nd s node).lines.map toSeg)).para.map ofSeg = L' at h hLok
  have hnb := hi.nrb node (by rw [hkp]; rfl) (by rw [hkp]; decide)
  have hL : OrdFrom 0 L' ∧ Below B L' ∧ (∀ x ∈ L', x.start < x.stop ∧ x.forceNewline = false) ∧
      (∀ x ∈ L', NonBlankSeg src x) ∧ ∀ x ∈ L'.dropLast, NLAt src x := by
    rcases table_lines hv htb with h0 | ⟨init, u, rest, hls, hrest, h0⟩
    · rw [hL'] at h0; subst h0
      exact ⟨trivial, Below.nil B, fun x hx => (by cases hx), fun x hx => (by cases hx), fun x hx => (by cases hx)⟩
    · rw [hL'] at h0; subst h0
      have hu : u ∈ (nd s node).lines := by rw [hls]; simp
      have hdl : (init ++ u :: rest).dropLast = init ++ u :: rest.dropLast := by
        rw [List.dropLast_append_of_ne_nil (by simp), List.dropLast_cons_of_ne_nil hrest]
      have hud : u ∈ (nd s node).lines.dropLast := by
        rw [hls, hdl]; simp
      obtain ⟨a0, a1, a2, _, _⟩ := tblLinesB_mem hv hu
      obtain ⟨c1, c2⟩ := nonblank_cut a0 a1 a2 (hi.pnb node hkp u hu) (hi.pnl node hkp u hud)
      have htake : init ++ [u] = (nd s node).lines.take (init.length + 1) := by
        rw [hls, show init ++ u :: rest = (init ++ [u]) ++ rest by simp, List.take_left' (by simp)]
      have hsh := shrinks_snoc init u { u with stop := u.stop - 1 } (Int.le_refl _) (by show u.stop - 1 ≤ u.stop; omega)
      have hO : OrdFrom 0 (init ++ [u]) := by rw [htake]; exact OrdFrom.take _ hnb.1
      have hB : Below B (init ++ [u]) := by
        rw [htake]; exact Below.take _ (hnb.2.1 (by rw [hkp]; decide))
      refine ⟨OrdFrom.shrinks hsh hO, Below.shrinks hsh hB, fun x hx => ?_, fun x hx => ?_, fun x hx => ?_⟩
      · simp only [List.mem_append, List.mem_singleton] at hx
        rcases hx with hx | hx
        · exact hnb.2.2 x (by rw [hls]; simp [hx])
        · subst hx; exact ⟨c2, (hnb.2.2 u hu).2⟩
      · simp only [List.mem_append, List.mem_singleton] at hx
        rcases hx with hx | hx
        · exact hi.pnb node hkp x (by rw [hls]; simp [hx])
        · subst hx; exact c1
      · rw [List.dropLast_concat] at hx
        refine hi.pnl node hkp x ?_
        rw [hls, hdl]
        simp [hx]
  obtain ⟨hO, hB, hS, hNB, hNL⟩ := hL
  have hkind : ∀ i, i < s.nodes.length → (nd s' i).kind = (nd s i).kind := by
    intro i hi'
    by_cases hx : i = node
    · subst hx; have := data_kind h.self; exact this
    · exact data_kind (h.old i hi' hx)
  have hlines : ∀ i, i < s.nodes.length → i ≠ node → (nd s' i).lines = (nd s i).lines :=
    fun i hi' hx => data_lines (h.old i hi' hx)
  have hself : (nd s' node).lines = L' := data_lines h.self
  have hfk : ∀ i, s.nodes.length ≤ i → (nd s' i).kind = .paragraph → False := by
    intro i h1 hk
    rcases Nat.lt_or_ge i s'.nodes.length with h2 | h2
    · rw [recD_kind (h.fresh i h1 h2)] at hk; cases hk
    · rw [nd_default_of_ge s' h2] at hk; cases hk
  have hfr : ∀ i, s.nodes.length ≤ i → isRaw (nd s' i).kind = true → False := by
    intro i h1 hk
    rcases Nat.lt_or_ge i s'.nodes.length with h2 | h2
    · rw [recD_kind (h.fresh i h1 h2)] at hk; cases hk
    · rw [nd_default_of_ge s' h2] at hk; cases hk
  refine ⟨⟨fun i hr hk0 => ?_, by rw [h.pc]; exact hi.ord, fun i hk => ?_, fun x hx => ?_, fun b hb => ?_, fun n hn => ?_,
    fun x hx hm => ?_, fun i hr => ?_, fun i hk => ?_, fun b hb hd hbp => ?_⟩, h.r, by rw [h.pc], ⟨Nat.le_of_lt h.len, hkind⟩,
    by rw [h.pc], hlines⟩
  · rcases Nat.lt_or_ge i s.nodes.length with h1 | h1
    · by_cases hx : i = node
      · subst hx
        rw [hself]
        exact ⟨hO, fun _ => hB, hS⟩
      · rw [hkind i h1] at hr hk0 ⊢
        rw [hlines i h1 hx]; exact hi.nrb i hr hk0
    · rcases Nat.lt_or_ge i s'.nodes.length with h2 | h2
      · exact absurd (recD_kind (h.fresh i h1 h2)) hk0
      · rw [nd_default_of_ge s' h2]; exact ⟨trivial, fun _ => Below.nil B, fun x hx => by cases hx⟩
  · rcases Nat.lt_or_ge i s.nodes.length with h1 | h1
    · by_cases hx : i = node
      · subst hx; rw [hself]; exact hNB
      · rw [hkind i h1] at hk; rw [hlines i h1 hx]; exact hi.pnb i hk
    · exact absurd hk (fun hk => hfk i h1 hk)
  · rw [h.pc] at hx
    have hk := hi.tmpk x hx
    rw [hkind x (tmp_lt hk)]; exact hk
  · rw [h.pc] at hb
    obtain ⟨k1, k2⟩ := hi.kinds b hb
    exact ⟨by rw [hkind _ k2]; exact k1, Nat.lt_trans k2 h.len⟩
  · obtain ⟨i, hil, rfl⟩ := mem_nodes_nd hn
    rcases Nat.lt_or_ge i s.nodes.length with h1 | h1
    · by_cases hx : i = node
      · subst hx
        refine ⟨by rw [hself]; exact hLok, fun hnil => ?_⟩
        exfalso
        have h2 : (nd s' i).linesNil = (nd s i).linesNil := by have := data_linesNil h.self; exact this
        rw [h2] at hnil
        have := (nodeOK_nd hi.nodes i).nil hnil
        rw [this] at htb
        simp [GM.Table.transform] at htb
      · exact nodeOK_of_data (h.old i h1 hx) (nodeOK_nd hi.nodes i)
    · rcases h.fresh i h1 hil with hh | hh | ⟨r, hr, hh⟩ | ⟨r, hr, c, hc, hh⟩
      · exact nodeOK_of_data (hh.trans rfl) (m := { kind := .thematicBreak, htmlType := tagTable, offset := dashAt src })
          ⟨fun x hx => (by cases hx), fun _ => rfl⟩
      · exact nodeOK_of_data hh hRows.1.1
      · exact nodeOK_of_data hh (hRows.2 r hr).1
      · simp only [List.mem_cons] at hr
        rcases hr with hr | hr
        · subst hr; exact nodeOK_of_data hh (hRows.1.2 c hc)
        · exact nodeOK_of_data hh ((hRows.2 r hr).2 c hc)
  · rw [h.pc] at hx hm ⊢
    obtain ⟨a1, a2⟩ := hi.tl x hx hm
    have hne : x ≠ node := hnt x hx hm
    exact ⟨by rw [hlines x (tmp_lt (hi.tmpk x hx)) hne]; exact a1, a2⟩
  · rcases Nat.lt_or_ge i s.nodes.length with h1 | h1
    · rw [hkind i h1] at hr
      have hne : i ≠ node := fun e0 => by rw [e0, hkp] at hr; cases hr
      rw [hlines i h1 hne]; exact hi.raw i hr
    · exact absurd hr (fun hr => hfr i h1 hr)
  · rcases Nat.lt_or_ge i s.nodes.length with h1 | h1
    · by_cases hx : i = node
      · subst hx; rw [hself]; exact hNL
      · rw [hkind i h1] at hk; rw [hlines i h1 hx]; exact hi.pnl i hk
    · exact absurd hk (fun hk => hfk i h1 hk)
  · rw [h.pc] at hb
    have hne : b.node ≠ node := fun e0 => hd (hD b hb e0)
    rw [hlines b.node (hi.kinds b hb).2 hne]; exact hi.pol b hb hd hbp

end GM.Blocks.TX
