/-
  GM.Proof.BlocksTNO17 — the facts about the final store of the block phase (with the link-reference transformer) in the
  shape the end-to-end theorem of package e2e consumes: a walk from the Document over child lists only meets non-raw
  nodes whose lines all have padding 0, and the Document itself has no lines.
-/
import GM.Proof.BlocksTNO16

namespace GM.Blocks.TO
open GM GM.Text GM.Spec GM.Proof.Reader GM.LinkRef
open GM.Proof.BlocksWF0 (isRaw)

/-- the Document (node 0) has no lines -/
theorem runT_transform_root_no_lines (src : Bytes) (s : St) (h : runT [transform] src = .ok s) : (nd s 0).lines = [] :=
  runT_transform_no_lines src s h 0 (by rw [(runT_transform_root src s h).1]; rfl)

theorem blockPhase_root_no_lines (src : Bytes) (s : St) (h : GM.Convert.blockPhase true src = .ok s) :
    (nd s 0).lines = [] :=
  runT_transform_root_no_lines src s (blockPhase_runT src s h)

theorem runT_transform_pad_facts (src : Bytes) (s : St) (h : runT [transform] src = .ok s) :
    (∀ p c, c ∈ (s.nodes.getD p default).children → isRaw (s.nodes.getD c default).kind = false →
      ∀ t ∈ (s.nodes.getD c default).lines, t.padding = 0) ∧ (s.nodes.getD 0 default).lines = [] :=
  ⟨fun p c hc hr => (runT_transform_child_closed src s h p c hc).2 hr, runT_transform_root_no_lines src s h⟩

/-- **what the end-to-end theorem needs of the block phase**: every entry of a child list that is not raw has padding 0
    on all its lines, and the Document has no lines -/
theorem blockPhase_pad_facts (src : Bytes) (s : St) (h : GM.Convert.blockPhase true src = .ok s) :
    (∀ p c, c ∈ (s.nodes.getD p default).children → isRaw (s.nodes.getD c default).kind = false →
      ∀ t ∈ (s.nodes.getD c default).lines, t.padding = 0) ∧ (s.nodes.getD 0 default).lines = [] :=
  runT_transform_pad_facts src s (blockPhase_runT src s h)

/-- the order clause for the raw kinds (CodeBlock, FencedCodeBlock, HTMLBlock) in the final store of `blockPhase true` -/
theorem blockPhase_ordered_raw (src : Bytes) (s : St) (h : GM.Convert.blockPhase true src = .ok s) :
    ∀ n ∈ s.nodes, isRaw n.kind = true → OrdFrom 0 n.lines :=
  runT_transform_ordered_raw src s (blockPhase_runT src s h)

/-- order, non-empty segments and `WFSegs` for the non-raw nodes of the final store of `blockPhase true`; every line of a
    Paragraph holds a non-space byte -/
theorem blockPhase_wfsegs (src : Bytes) (s : St) (h : GM.Convert.blockPhase true src = .ok s) :
    (∀ n ∈ s.nodes, isRaw n.kind = false → OrdFrom 0 n.lines ∧ (∀ t ∈ n.lines, t.start < t.stop ∧ t.forceNewline = false) ∧
      (n.lines ≠ [] → WFSegs src n.lines)) ∧
    (∀ n ∈ s.nodes, n.kind = .paragraph → ∀ t ∈ n.lines, NonBlankSeg src t) :=
  runT_transform_wfsegs src s (blockPhase_runT src s h)

/-- the lines of EVERY node of the final store increase (raw or not) -/
theorem blockPhase_ordered_all (src : Bytes) (s : St) (h : GM.Convert.blockPhase true src = .ok s) :
    ∀ n ∈ s.nodes, OrdFrom 0 n.lines := by
  intro n hn
  cases hr : isRaw n.kind with
  | true => exact blockPhase_ordered_raw src s h n hn hr
  | false => exact ((blockPhase_wfsegs src s h).1 n hn hr).1

end GM.Blocks.TO
