/-
  GM.Proof.CMFragBytes — basic machinery of the symbolic execution of the block phase for the fragment
  GM.Spec.CMFrag: where a line of the source is (`lineEnd`, `sub` on a decomposed source), the source reader in
  explicit form (`rdr`), and every primitive of the block-phase monad as an equation on an explicit state.
-/
import GM.Proof.CMFragDefs

namespace GM.Proof.CMFrag
open GM GM.Text GM.Blocks

/-! ### bytes of a decomposed source -/

theorem lineLen_line (l post : Bytes) (h : ∀ c ∈ l, c ≠ 10) : lineLen (l ++ 10 :: post) = l.length + 1 := by
  induction l with
  | nil => simp [lineLen]
  | cons c t ih =>
    have hc : c ≠ 10 := h c (by simp)
    have ht : ∀ c ∈ t, c ≠ 10 := fun x hx => h x (by simp [hx])
    simp only [List.cons_append, lineLen, List.length_cons]
    have : (c == 10) = false := by simp [hc]
    rw [this, ih ht]; simp; omega

theorem lineEnd_line (pre l post : Bytes) (h : ∀ c ∈ l, c ≠ 10) :
    lineEnd (pre ++ (l ++ 10 :: post)) pre.length = pre.length + l.length + 1 := by
  unfold lineEnd
  rw [if_pos (by simp)]
  rw [List.drop_left, lineLen_line l post h]; omega

theorem lineEnd_eof (src : Bytes) : lineEnd src src.length = src.length := by
  unfold lineEnd; simp [lineLen]

theorem sub_line (pre l post : Bytes) :
    sub (pre ++ (l ++ 10 :: post)) pre.length (pre.length + l.length + 1) = l ++ [10] := by
  unfold sub
  rw [List.drop_left]
  have : pre.length + l.length + 1 - pre.length = (l ++ [10]).length := by simp; omega
  rw [this]
  have e : l ++ 10 :: post = (l ++ [10]) ++ post := by simp
  rw [e, List.take_left]

theorem sub_body (pre l post : Bytes) :
    sub (pre ++ (l ++ post)) pre.length (pre.length + l.length) = l := by
  unfold sub
  rw [List.drop_left]
  have : pre.length + l.length - pre.length = l.length := by omega
  rw [this, List.take_left]

/-! ### the source reader, explicitly -/

/-- the reader on line `k` (which starts at byte `h` and ends at `e`), standing at byte `p`, with the caches
    `pk` (PeekLine) and `lo` (LineOffset) -/
def rdr (src : Bytes) (k : Int) (h p e : Nat) (pk : Option Bytes) (lo : Int) : Reader :=
  { source := src, line := k, peekedLine := pk,
    pos := { start := p, stop := e, padding := 0, forceNewline := false }, head := h, lineOffset := lo }

/-- the segment from `p` to `e` -/
def sg (p e : Nat) : Segment := { start := p, stop := e, padding := 0, forceNewline := false }

@[simp] theorem rdr_line (src k h p e pk lo) : (rdr src k h p e pk lo).line = k := rfl
@[simp] theorem rdr_source (src k h p e pk lo) : (rdr src k h p e pk lo).source = src := rfl
@[simp] theorem rdr_pos (src k h p e pk lo) : (rdr src k h p e pk lo).pos = sg p e := rfl

theorem reader_new (src : Bytes) : Reader.new src = rdr src 0 0 0 (lineEnd src 0) none (-1) := by
  simp [Reader.new, Reader.advanceLine, rdr]

/-! ### primitives of the block-phase monad on an explicit state -/

theorem bind_apply {α β} (m : M α) (f : α → M β) (s : St) :
    (m >>= f) s = (match m s with | .ok (a, s') => f a s' | .error e => .error e) := by
  show StateT.bind m f s = _
  unfold StateT.bind
  simp only [bind, Except.bind]
  cases m s with
  | error e => rfl
  | ok p => rfl

theorem map_apply {α β} (f : α → β) (m : M α) (s : St) :
    (f <$> m) s = (match m s with | .ok (a, s') => .ok (f a, s') | .error e => .error e) := by
  show StateT.map f m s = _
  unfold StateT.map
  simp only [bind, Except.bind, pure, Except.pure]
  cases m s with
  | error e => rfl
  | ok p => rfl

theorem pure_apply {α} (a : α) (s : St) : (pure a : M α) s = .ok (a, s) := rfl
theorem getNode_run (id) (s : St) : getNode id s = .ok (s.nodes.getD id default, s) := rfl
theorem modNode_run (id f) (s : St) :
    modNode id f s = .ok ((), { s with nodes := s.nodes.set id (f (s.nodes.getD id default)) }) := rfl
theorem newNode_run (n) (s : St) : newNode n s = .ok (s.nodes.length, { s with nodes := s.nodes ++ [n] }) := rfl
theorem getPc_run (s : St) : getPc s = .ok (s.pc, s) := rfl
theorem modPc_run (f) (s : St) : modPc f s = .ok ((), { s with pc := f s.pc }) := rfl
theorem get_run (s : St) : (get : M St) s = .ok (s, s) := rfl
theorem source_run (s : St) : source s = .ok (s.r.source, s) := rfl
theorem position_run (s : St) : position s = .ok ((s.r.line, s.r.pos), s) := rfl
theorem liftE_ok {α} (a : α) (s : St) : liftE (.ok a) s = .ok (a, s) := rfl
theorem lastOpenedBlock_run (s : St) : lastOpenedBlock s = .ok (s.pc.opened.getLast?, s) := rfl

theorem advanceLine_run (src k h p e pk lo nodes pc) :
    advanceLine ⟨rdr src k h p e pk lo, nodes, pc⟩ = .ok ((), ⟨rdr src (k + 1) e e (lineEnd src e) none (-1), nodes, pc⟩) := by
  have c : ¬ ((e : Int) < 0) := by omega
  simp [advanceLine, Reader.advanceLine, rdr, pure, Except.pure, c]

theorem peekLine_fresh {src : Bytes} {p e : Nat} {v : Bytes} (hsub : sub src p e = v) (hp : p < src.length) (hpe : p ≤ e)
    (he : e ≤ src.length) (k h lo nodes pc) :
    peekLine ⟨rdr src k h p e none lo, nodes, pc⟩ = .ok ((some v, sg p e), ⟨rdr src k h p e (some v) lo, nodes, pc⟩) := by
  have c1 : ((p : Int) ≥ 0 ∧ (p : Int) < (src.length : Int)) := by omega
  have c2 : (0 ≤ (p : Int) ∧ (p : Int) ≤ (e : Int) ∧ (e : Int) ≤ (src.length : Int)) := by omega
  simp [peekLine, Reader.peekLine, rdr, Reader.sourceLength, c1, Segment.value, sliceB, c2, needsNewline, hsub, sg,
    bind, Except.bind, pure, Except.pure]

theorem peekLine_cached {src : Bytes} {p : Nat} (hp : p < src.length) (k h e v lo nodes pc) :
    peekLine ⟨rdr src k h p e (some v) lo, nodes, pc⟩ = .ok ((some v, sg p e), ⟨rdr src k h p e (some v) lo, nodes, pc⟩) := by
  have c1 : ((p : Int) ≥ 0 ∧ (p : Int) < (src.length : Int)) := by omega
  simp [peekLine, Reader.peekLine, rdr, Reader.sourceLength, c1, sg, bind, Except.bind, pure, Except.pure]

theorem peekLine_eof {src : Bytes} {p : Nat} (hp : src.length ≤ p) (k h e pk lo nodes pc) :
    peekLine ⟨rdr src k h p e pk lo, nodes, pc⟩ = .ok ((none, sg p e), ⟨rdr src k h p e pk lo, nodes, pc⟩) := by
  have c1 : ¬ (p < src.length) := by omega
  simp [peekLine, Reader.peekLine, rdr, Reader.sourceLength, c1, sg, bind, Except.bind, pure, Except.pure]

/-- `LineOffset()` at the start of a line -/
theorem lineOffset_fresh (src k p e pk nodes pc) :
    lineOffset ⟨rdr src k p p e pk (-1), nodes, pc⟩ = .ok (0, ⟨rdr src k p p e pk 0, nodes, pc⟩) := by
  simp [lineOffset, Reader.lineOffsetOp, rdr, colLoop, bind, Except.bind, pure, Except.pure]

theorem lineOffset_cached (src k h p e pk nodes pc) :
    lineOffset ⟨rdr src k h p e pk 0, nodes, pc⟩ = .ok (0, ⟨rdr src k h p e pk 0, nodes, pc⟩) := by
  simp [lineOffset, Reader.lineOffsetOp, rdr, bind, Except.bind, pure, Except.pure]

/-- `Advance(n)` inside the peeked line -/
theorem stAdvance_fast {n : Int} {m : Nat} {v : Bytes} (hn : n = (m : Int)) (hm : m < v.length) (src k h p e lo nodes pc) :
    advance n ⟨rdr src k h p e (some v) lo, nodes, pc⟩ = .ok ((), ⟨rdr src k h (p + m) e none (-1), nodes, pc⟩) := by
  subst hn
  have c : ((m : Int) < (v.length : Int)) := by omega
  simp [advance, Reader.advance, rdr, c, bind, Except.bind, pure, Except.pure]

end GM.Proof.CMFrag
