/-
  GM.Proof.BlocksSpecHtml — the contracts (GM.Proof.BlocksInv) of the HTML block parser (html_block.go) and of the
  setext heading parser (setext_headings.go).
-/
import GM.Proof.BlocksInv
namespace GM.Blocks
open GM GM.Text GM.Spec GM.Proof.Reader

/-! ### the trivial entry points -/

theorem htmlClose_spec (src : Bytes) : CloseSpec src .html := by
  intro node s hsrc hn hk hb
  show OKL _ (Except.ok ((), s))
  exact OKL.ok ⟨rfl, rfl, Ext.refl s, hn, .inl rfl, .inl rfl, fun h => by cases h⟩

theorem setextContinue_spec (src : Bytes) : ContSpec src .setext := by
  intro node s c h hpad hp hn hk hb
  show OKL _ (Except.ok (stClose, s))
  exact OKL.ok ⟨⟨c, h.toRIa, hpad, Nat.le_refl _, Nat.le_of_lt hp, .inr h⟩, rfl, Ext.refl s, hn,
    fun _ => rfl, fun hc => by cases hc⟩

/-! ### setextHeadingParser.Open -/

namespace SpecHtml
theorem matchesSetextHeadingBar_ok (line : Bytes) (h : 1 ≤ line.length) :
    ∃ v, matchesSetextHeadingBar line = .ok v := by
  unfold matchesSetextHeadingBar
  simp only [bind, Except.bind, pure, Except.pure]
  split
  · exact ⟨_, rfl⟩
  · rename_i hsp
    have hcl := countLeading_le 32 line
    obtain ⟨rest, hrest⟩ := slice_ok' line (countLeading 32 line) line.length (by omega) (by omega) (Int.le_refl _)
    rw [hrest]
    simp only
    obtain ⟨b, hb, _⟩ := idx_ok line ((line.length : Int) - 1) (by omega) (by omega)
    rw [hb]
    simp only
    repeat' split
    all_goals exact ⟨_, rfl⟩

end SpecHtml
open SpecHtml

theorem setextOpen_spec (src : Bytes) : OpenSpec src .setext := by
  intro parent s c hctx
  obtain ⟨h, hp, hpad, hoff, hn⟩ := hctx
  show OKL _ (setextOpen parent s)
  unfold setextOpen
  -- every "no" answer: nothing changed but the reader cache
  have fin : ∀ r1, RI src r1 c →
      OKL (fun a s' => OpenPost src .setext parent s c a s')
        (.ok ((none, stNoChildren), { s with r := r1 })) := fun r1 h1 =>
    OKL.ok ⟨⟨c, h1, hpad, Nat.le_refl _, fun _ => rfl, fun hc => by cases hc⟩, rfl, rfl, fun _ => rfl,
      fun id hid => (by cases hid), .inr ⟨.inr rfl, rfl⟩, .inr ⟨.inr rfl, rfl⟩, fun hc => (by cases hc),
      fun hc => (by cases hc)⟩
  refine OKL.bind (m := lastOpenedBlock) (P := fun v s' => v = s.pc.opened.getLast? ∧ s' = s) (OKL.ok ⟨rfl, rfl⟩)
    (fun v s1 hv => ?_)
  obtain ⟨hv, hs1⟩ := hv
  rw [hs1]; clear hs1 s1
  cases v with
  | none => exact fin s.r h
  | some lb =>
    have hlb := hv.symm
    simp only
    refine OKL.bind (m := getNode lb.node) (P := fun v s' => v = nd s lb.node ∧ s' = s) (OKL.ok ⟨rfl, rfl⟩)
      (fun ln s2 hv => ?_)
    obtain ⟨hv, hs2⟩ := hv
    rw [hs2, hv]; clear hs2 hv s2 ln
    by_cases hg : ((nd s lb.node).kind != Kind.paragraph || (nd s lb.node).parent != some parent) = true
    · rw [if_pos hg]; exact fin s.r h
    · rw [if_neg hg]
      have hg' : (nd s lb.node).kind = .paragraph ∧ (nd s lb.node).parent = some parent := by
        simp only [Bool.or_eq_true, not_or, bne_iff_ne, ne_eq, Decidable.not_not] at hg
        exact hg
      obtain ⟨hkind, hpar⟩ := hg'
      refine OKL.bind (peekLine_okl h) (fun x s3 hx => ?_)
      obtain ⟨hx, r1, hs3, h1⟩ := hx
      subst hx hs3
      simp only
      have hv := view_eq src c hp
      have hl2 := view_length src c hp hv
      obtain ⟨v, hm⟩ := matchesSetextHeadingBar_ok ((RCur.view src c).getD []) (by rw [hv]; simp only [Option.getD_some]; omega)
      refine OKL.bind (liftE_okl (P := fun a s' => a = v ∧ s' = { s with r := r1 }) hm ⟨rfl, rfl⟩) (fun a s4 ha => ?_)
      obtain ⟨ha, hs4⟩ := ha
      subst ha hs4
      obtain ⟨ch, ok⟩ := a
      simp only
      by_cases hok : (!ok) = true
      · rw [if_pos hok]; exact fin r1 h1
      · rw [if_neg hok]
        simp only [bind, StateT.bind, newNode, appendLine, modNode, modPc, pure, StateT.pure, Except.bind, Except.pure]
        simp only [getD_length_append, set_length_append]
        refine OKL.ok ⟨⟨c, h1, hpad, Nat.le_refl _, fun hc => (by cases hc), fun hc => (by cases hc)⟩, rfl, rfl,
          fun hc => (by cases hc), ?_, .inl ⟨rfl, rfl, lb, hlb, hkind, hpar, rfl⟩, .inr ⟨.inl (by decide), rfl⟩,
          fun _ => ⟨rfl, rfl⟩, fun hc => (by cases hc)⟩
        intro id hid
        simp only [Option.some.injEq] at hid
        refine ⟨hid.symm, _, rfl, rfl, ⟨?_, fun hc => (by cases hc)⟩, rfl, fun _ => (by simp), fun _ => (by simp)⟩
        intro t ht
        simp only [List.nil_append, List.mem_singleton] at ht
        rw [ht]; exact seg_ok src c h.inRange

/-! ### htmlBlockParser.Open -/

namespace SpecHtml
/-- `Advance(segment.Len() - util.TrimRightSpaceLength(line))` is never a backward move -/
theorem html_adv_nonneg (src : Bytes) (c : RCur) (hp : c.p < src.length) :
    0 ≤ (RCur.seg src c).len - (trimRightSpaceLength ((RCur.view src c).getD []) : Int) := by
  have hv := view_eq src c hp
  have hl := view_len src c hp hv
  have := trimRightSpaceLength_le ((RCur.view src c).getD [])
  rw [hv] at this ⊢
  simp only [Option.getD_some] at this ⊢
  omega

end SpecHtml
open SpecHtml

theorem htmlOpen_spec (src : Bytes) : OpenSpec src .html := by
  intro parent s c hctx
  obtain ⟨h, hp, hpad, hoff, hn⟩ := hctx
  show OKL _ (htmlOpen parent s)
  unfold htmlOpen
  have fin : ∀ r1, RI src r1 c →
      OKL (fun a s' => OpenPost src .html parent s c a s')
        (.ok ((none, stNoChildren), { s with r := r1 })) := fun r1 h1 =>
    OKL.ok ⟨⟨c, h1, hpad, Nat.le_refl _, fun _ => rfl, fun hc => by cases hc⟩, rfl, rfl, fun _ => rfl,
      fun id hid => (by cases hid), .inr ⟨.inr rfl, rfl⟩, .inr ⟨.inr rfl, rfl⟩, fun hc => (by cases hc),
      fun hc => (by cases hc)⟩
  refine OKL.bind (peekLine_okl h) (fun x s1 hx => ?_)
  obtain ⟨hx, r1, hs1, h1⟩ := hx
  subst hx hs1
  simp only
  refine OKL.bind (m := lastOpenedBlock) (s := { s with r := r1 }) (P := fun _ s' => s' = { s with r := r1 })
    (OKL.ok rfl) (fun v s2 hs2 => ?_)
  subst hs2
  cases v
  case' none =>
    refine OKL.bind (m := pure false) (s := { s with r := r1 }) (P := fun _ s' => s' = { s with r := r1 })
      (OKL.ok rfl) (fun lastIsPara s2 hs2 => ?_)
  case' some lb =>
    refine OKL.bind (m := getNode lb.node) (s := { s with r := r1 }) (P := fun _ s' => s' = { s with r := r1 })
      (OKL.ok rfl) (fun ln s2 hs2 => ?_)
    subst hs2
    refine OKL.bind (m := pure (ln.kind == Kind.paragraph)) (s := { s with r := r1 })
      (P := fun _ s' => s' = { s with r := r1 }) (OKL.ok rfl) (fun lastIsPara s2 hs2 => ?_)
  all_goals
    subst hs2
    refine OKL.bind (m := getPc) (s := { s with r := r1 }) (P := fun v s' => v = s.pc ∧ s' = { s with r := r1 })
      (OKL.ok ⟨rfl, rfl⟩) (fun pc s3 hv => ?_)
    obtain ⟨hv, hs3⟩ := hv
    subst hv hs3
    by_cases hc0 : s.pc.blockOffset < 0
    · rw [if_pos hc0]; exact fin r1 h1
    · rw [if_neg hc0]
      obtain ⟨b0, hb0, _⟩ := idx_ok ((RCur.view src c).getD []) s.pc.blockOffset (by omega) hoff
      refine OKL.bind (liftE_okl (P := fun a s' => a = b0 ∧ s' = { s with r := r1 }) hb0 ⟨rfl, rfl⟩) (fun a s4 ha => ?_)
      obtain ⟨ha, hs4⟩ := ha
      subst ha hs4
      by_cases hc1 : (a != 60) = true
      · rw [if_pos hc1]; exact fin r1 h1
      · rw [if_neg hc1]
        cases ht : htmlOpenType ((RCur.view src c).getD []) lastIsPara with
        | none => exact fin r1 h1
        | some t =>
          simp only
          have hlen := html_adv_nonneg src c hp
          simp only [bind, StateT.bind, newNode, pure, StateT.pure, Except.bind, Except.pure]
          have hadv := advance_okl (src := src)
            (s := { r := r1, nodes := s.nodes ++ [({ kind := Kind.htmlBlock, htmlType := t } : Node)], pc := s.pc })
            (c := c) h1 hlen
          rcases hadv with ⟨_, s5, e5, r5, hs5, h5⟩ | e5
          · rw [e5]
            simp only [appendLine, modNode, pure, Except.pure]
            rw [hs5]
            simp only [getD_length_append, set_length_append]
            refine OKL.ok ⟨⟨_, h5, hpad.advN h.inRange _, (advN_mono src _ c h.inRange).1, fun hc => (by cases hc),
              fun hc => (by cases hc)⟩, rfl, rfl, fun hc => (by cases hc), ?_, .inr ⟨.inl (by decide), rfl⟩,
              .inr ⟨.inl (by decide), rfl⟩, fun hc => (by cases hc), fun hc => (by cases hc)⟩
            intro id hid
            simp only [Option.some.injEq] at hid
            refine ⟨hid.symm, _, rfl, rfl, ⟨?_, fun hc => (by cases hc)⟩, rfl, fun hc => (by cases hc),
              fun hc => (by cases hc)⟩
            intro t ht
            simp only [List.nil_append, List.mem_singleton] at ht
            rw [ht]; exact seg_ok src c h.inRange
          · rw [e5]; exact .inr rfl

/-! ### writes to one node of the store -/

namespace SpecHtml
theorem okl_ite {α} {P : α → St → Prop} {c : Prop} [Decidable c] {a b : M α} {s : St}
    (ha : c → OKL P (a s)) (hb : ¬ c → OKL P (b s)) : OKL P ((if c then a else b) s) := by
  by_cases hc : c
  · rw [if_pos hc]; exact ha hc
  · rw [if_neg hc]; exact hb hc

theorem getD_set_eq {α} (l : List α) (i : Nat) (m d : α) (hi : i < l.length) : (l.set i m).getD i d = m := by
  simp [List.getD, hi]

theorem getD_set_ne {α} (l : List α) (i j : Nat) (m d : α) (hj : i ≠ j) : (l.set i m).getD j d = l.getD j d := by
  simp [List.getD, hj]

theorem nd_mem {s : St} {i : Nat} (hi : i < s.nodes.length) : nd s i ∈ s.nodes := by
  have : nd s i = s.nodes[i] := by simp [nd, List.getD, List.getElem?_eq_getElem hi]
  rw [this]; exact List.getElem_mem hi

/-- overwriting node `i` by a node of the same kind that has a line when the old one had -/
theorem ext_set (s : St) (i : Nat) (m : Node) (r : Reader) (pc : Ctx) (hk : m.kind = (nd s i).kind)
    (hne : (nd s i).lines ≠ [] → m.lines ≠ []) : Ext s { r := r, nodes := s.nodes.set i m, pc := pc } := by
  refine ⟨by simp, fun j hj => ?_, fun j hj _ hl => ?_⟩
  · by_cases e : i = j
    · subst e; simp only [nd]; rw [getD_set_eq _ _ _ _ hj]; exact hk
    · simp only [nd]; rw [getD_set_ne _ _ _ _ _ e]
  · by_cases e : i = j
    · subst e; simp only [nd]; rw [getD_set_eq _ _ _ _ hj]; exact hne hl
    · simp only [nd]; rw [getD_set_ne _ _ _ _ _ e]; exact hl

theorem nodesOK_set {src : Bytes} {s : St} (hn : NodesOK src s) (i : Nat) (m : Node) (r : Reader) (pc : Ctx)
    (hm : NodeOK src m) : NodesOK src { r := r, nodes := s.nodes.set i m, pc := pc } := by
  intro n hmem
  rcases List.mem_or_eq_of_mem_set hmem with h1 | h1
  · exact hn n h1
  · rw [h1]; exact hm

end SpecHtml
open SpecHtml

/-! ### htmlBlockParser.Continue -/

namespace SpecHtml
/-- the two tails of `Continue`: a write to the node, then `Advance` to the end of the line -/
theorem html_tail_okl {src : Bytes} {s : St} {c : RCur} {r1 : Reader} (h1 : RI src r1 c) (hpad : PadOK c)
    (hp : c.p < src.length) (hn : NodesOK src s) (node : Nat) (f : Node → Node) (st : PState)
    (hst : st.hasChildren = false) (hk : (f (nd s node)).kind = (nd s node).kind)
    (hne : (nd s node).lines ≠ [] → (f (nd s node)).lines ≠ []) (hok : NodeOK src (f (nd s node))) :
    OKL (fun st' s' => ContPost src .html s c st' s')
      ((modNode node f >>= fun _ =>
          advance ((RCur.seg src c).len - (trimRightSpaceLength ((RCur.view src c).getD []) : Int)) >>=
            fun _ => (pure st : M PState)) { s with r := r1 }) := by
  have hlen := html_adv_nonneg src c hp
  simp only [bind, StateT.bind, modNode, pure, Except.pure, Except.bind]
  have hadv := advance_okl (src := src)
    (s := { r := r1, nodes := s.nodes.set node (f (s.nodes.getD node default)), pc := s.pc }) (c := c) h1 hlen
  rcases hadv with ⟨_, s5, e5, r5, hs5, h5⟩ | e5
  · rw [e5]
    simp only [StateT.pure, pure, Except.pure]
    rw [hs5]
    have hm := advN_mono src ((RCur.seg src c).len - (trimRightSpaceLength ((RCur.view src c).getD []) : Int)).toNat c
      (Nat.le_of_lt hp)
    exact OKL.ok ⟨⟨_, h5.toRIa, hpad.advN (Nat.le_of_lt hp) _, hm.1, hm.2, .inr h5⟩, rfl,
      ext_set s node _ r5 s.pc hk hne, nodesOK_set hn node _ r5 s.pc hok, fun _ => hst, fun hc => (by cases hc)⟩
  · rw [e5]; exact .inr rfl

theorem lineAt_one {ls : List Segment} (h : (ls.length == 1) = true) :
    ∃ x, lineAt ls 0 = .ok x ∧ x ∈ ls := by
  cases ls with
  | nil => simp at h
  | cons a l => exact ⟨a, rfl, by simp⟩

end SpecHtml
open SpecHtml

theorem htmlContinue_spec (src : Bytes) : ContSpec src .html := by
  intro node s c h hpad hp hn hk hb
  show OKL _ (htmlContinue node s)
  unfold htmlContinue
  refine OKL.bind (m := getNode node) (s := s) (P := fun v s' => v = nd s node ∧ s' = s) (OKL.ok ⟨rfl, rfl⟩)
    (fun n s0 hv => ?_)
  obtain ⟨hv, hs0⟩ := hv
  rw [hs0, hv]; clear hs0 hv s0 n
  refine OKL.bind (peekLine_okl h) (fun x s1 hx => ?_)
  obtain ⟨hx, r1, hs1, h1⟩ := hx
  subst hx hs1
  simp only
  have hnode : NodeOK src (nd s node) := hn _ (nd_mem hb.lt)
  have hClose : OKL (fun st s' => ContPost src .html s c st s') ((pure stClose : M PState) { s with r := r1 }) :=
    OKL.ok ⟨⟨c, h1.toRIa, hpad, Nat.le_refl _, Nat.le_of_lt hp, .inr h1⟩, rfl, Ext.of_nodes_eq rfl, hn,
      fun _ => rfl, fun hc => (by cases hc)⟩
  have hCloseAdv := html_tail_okl (s := s) h1 hpad hp hn node
    (fun n => { n with closure := RCur.seg src c }) stClose rfl rfl (fun hl => hl) ⟨hnode.lines, hnode.nil⟩
  have hCont := html_tail_okl (s := s) h1 hpad hp hn node
    (fun n => { n with lines := n.lines ++ [RCur.seg src c], linesNil := false }) stContinueNoChildren rfl rfl
    (fun _ => by simp)
    ⟨fun t ht => by
        simp only [List.mem_append, List.mem_singleton] at ht
        rcases ht with ht | ht
        · exact hnode.lines t ht
        · rw [ht]; exact seg_ok src c h.inRange,
      fun hc => (by cases hc)⟩
  refine okl_ite (fun hc1 => ?_) (fun hc1 => ?_)
  · refine okl_ite (fun hc2 => ?_) (fun hc2 => ?_)
    · obtain ⟨x, hx, hxm⟩ := lineAt_one hc2
      have hxok : SegOK src x := hnode.lines x hxm
      have hval := value_spec src x hxok
      refine OKL.bind (liftE_okl (P := fun a s' => a = x ∧ s' = { s with r := r1 }) hx ⟨rfl, rfl⟩) (fun a s4 ha => ?_)
      obtain ⟨ha, hs4⟩ := ha
      subst ha hs4
      refine OKL.bind (m := source) (s := { s with r := r1 }) (P := fun v s' => v = src ∧ s' = { s with r := r1 })
        (OKL.ok ⟨h1.source, rfl⟩) (fun v s5 hv => ?_)
      obtain ⟨hv, hs5⟩ := hv
      subst hs5
      rw [hv]
      refine OKL.bind (liftE_okl (P := fun a s' => s' = { s with r := r1 }) hval rfl) (fun a s4 ha => ?_)
      subst ha
      exact okl_ite (fun _ => hClose) (fun _ => okl_ite (fun _ => hCloseAdv) (fun _ => hCont))
    · exact okl_ite (fun _ => hCloseAdv) (fun _ => hCont)
  · exact okl_ite (fun _ => okl_ite (fun _ => hClose) (fun _ => hCont)) (fun _ => hCont)

/-! ### setextHeadingParser.Close -/

namespace SpecHtml
theorem nodesOK_modKeep {src : Bytes} {s : St} (hn : NodesOK src s) (i : Nat) (f : Node → Node) (r : Reader) (pc : Ctx)
    (hl : ∀ n, (f n).lines = n.lines) (hnil : ∀ n, (f n).linesNil = n.linesNil) :
    NodesOK src { r := r, nodes := s.nodes.set i (f (s.nodes.getD i default)), pc := pc } := by
  by_cases hi : i < s.nodes.length
  · have hnode : NodeOK src (nd s i) := hn _ (nd_mem hi)
    refine nodesOK_set hn i _ r pc ⟨?_, ?_⟩
    · rw [hl]; exact hnode.lines
    · rw [hl, hnil]; exact hnode.nil
  · rw [List.set_eq_of_length_le (Nat.le_of_not_lt hi)]; exact hn

theorem ext_modKeep (s : St) (i : Nat) (f : Node → Node) (r : Reader) (pc : Ctx)
    (hk : ∀ n, (f n).kind = n.kind) (hl : ∀ n, (f n).lines = n.lines) :
    Ext s { r := r, nodes := s.nodes.set i (f (s.nodes.getD i default)), pc := pc } :=
  ext_set s i _ r pc (hk _) (fun h => by rw [hl]; exact h)

/-- a write that touches neither the kind nor the lines of a node -/
theorem modNode_keep {src : Bytes} {s : St} (hn : NodesOK src s) (i : Nat) (f : Node → Node)
    (hk : ∀ n, (f n).kind = n.kind) (hl : ∀ n, (f n).lines = n.lines) (hnil : ∀ n, (f n).linesNil = n.linesNil) :
    ∃ s', modNode i f s = .ok ((), s') ∧ s'.r = s.r ∧ s'.pc = s.pc ∧ NodesOK src s' ∧ Ext s s' :=
  ⟨_, rfl, rfl, rfl, nodesOK_modKeep hn i f s.r s.pc hl hnil, ext_modKeep s i f s.r s.pc hk hl⟩

theorem removeChild_ok {src : Bytes} {s : St} (hn : NodesOK src s) (p c : Nat) :
    ∃ s', removeChild p c s = .ok ((), s') ∧ s'.r = s.r ∧ s'.pc = s.pc ∧ NodesOK src s' ∧ Ext s s' := by
  unfold removeChild
  simp only [bind, StateT.bind, getNode, pure, Except.bind, Except.pure]
  split
  · exact ⟨s, rfl, rfl, rfl, hn, Ext.refl s⟩
  · obtain ⟨s1, e1, hr1, hpc1, hn1, hx1⟩ := modNode_keep hn p (fun n => { n with children := n.children.erase c })
      (fun _ => rfl) (fun _ => rfl) (fun _ => rfl)
    obtain ⟨s2, e2, hr2, hpc2, hn2, hx2⟩ := modNode_keep hn1 c (fun n => { n with parent := none })
      (fun _ => rfl) (fun _ => rfl) (fun _ => rfl)
    simp only [StateT.bind, bind, Except.bind, e1, e2]
    exact ⟨s2, rfl, by rw [hr2, hr1], by rw [hpc2, hpc1], hn2, hx1.trans hx2⟩

theorem lineAt_zero {ls : List Segment} (h : ls ≠ []) : ∃ x, lineAt ls 0 = .ok x := by
  cases ls with
  | nil => exact absurd rfl h
  | cons a l => exact ⟨a, rfl⟩

end SpecHtml
open SpecHtml

theorem setextClose_spec (src : Bytes) : CloseSpec src .setext := by
  intro node s hsrc hn hk hb
  show OKL _ (setextClose node s)
  unfold setextClose
  obtain ⟨hlines, htmp⟩ := hb.setext rfl
  have hlt : node < s.nodes.length := hb.lt
  have hkind : (nd s node).kind = .heading := hb.kind
  obtain ⟨t, ht⟩ := Option.isSome_iff_exists.mp htmp
  obtain ⟨htlt, htkind, htlines⟩ := hk.tmp t ht
  have hne : node ≠ t := by
    intro e; rw [e, htkind] at hkind; cases hkind
  refine OKL.bind (m := getNode node) (s := s) (P := fun v s' => v = nd s node ∧ s' = s) (OKL.ok ⟨rfl, rfl⟩)
    (fun hnode s0 hv => ?_)
  obtain ⟨hv, hs0⟩ := hv
  rw [hs0, hv]; clear hs0 hv s0 hnode
  obtain ⟨x, hx⟩ := lineAt_zero hlines
  refine OKL.bind (liftE_okl (P := fun _ s' => s' = s) hx rfl) (fun seg s1 hs1 => ?_)
  rw [hs1]; clear hs1 s1
  refine OKL.bind (m := modNode node _) (s := s)
    (P := fun _ s' => s' = { s with nodes := s.nodes.set node { (nd s node) with lines := [], linesNil := true } })
    (OKL.ok rfl) (fun _ s1 hs1 => ?_)
  rw [hs1]; clear hs1 s1
  refine OKL.bind (m := getPc) (s := { s with nodes := s.nodes.set node { (nd s node) with lines := [], linesNil := true } })
    (P := fun v s' => v = s.pc ∧ s' = { s with nodes := s.nodes.set node { (nd s node) with lines := [], linesNil := true } })
    (OKL.ok ⟨rfl, rfl⟩) (fun pc s1 hs1 => ?_)
  obtain ⟨hpc, hs1⟩ := hs1
  rw [hs1, hpc]; clear hs1 hpc s1 pc
  simp only [ht]
  refine OKL.bind (m := pure t) (s := { s with nodes := s.nodes.set node { (nd s node) with lines := [], linesNil := true } })
    (P := fun v s' => v = t ∧ s' = { s with nodes := s.nodes.set node { (nd s node) with lines := [], linesNil := true } })
    (OKL.ok ⟨rfl, rfl⟩) (fun tmp s1 hs1 => ?_)
  obtain ⟨htmp', hs1⟩ := hs1
  rw [hs1, htmp']; clear hs1 htmp' s1 tmp
  refine OKL.bind (m := modPc _) (s := { s with nodes := s.nodes.set node { (nd s node) with lines := [], linesNil := true } })
    (P := fun _ s' => s' = { r := s.r, nodes := s.nodes.set node { (nd s node) with lines := [], linesNil := true }, pc := { s.pc with tmpPara := none } })
    (OKL.ok rfl) (fun _ s1 hs1 => ?_)
  rw [hs1]; clear hs1 s1
  refine OKL.bind (m := getNode t)
    (s := { r := s.r, nodes := s.nodes.set node { (nd s node) with lines := [], linesNil := true }, pc := { s.pc with tmpPara := none } })
    (P := fun v s' => v = nd s t ∧ s' = { r := s.r, nodes := s.nodes.set node { (nd s node) with lines := [], linesNil := true }, pc := { s.pc with tmpPara := none } })
    (OKL.ok ⟨getD_set_ne _ _ _ _ _ hne, rfl⟩) (fun tn s1 hs1 => ?_)
  obtain ⟨htn, hs1⟩ := hs1
  rw [hs1]; clear hs1 s1
  refine okl_ite (fun hc => ?_) (fun _ => ?_)
  · exfalso
    rw [htn] at hc
    cases hh : (nd s t).lines with
    | nil => exact htlines hh
    | cons a b => rw [hh] at hc; simp at hc
  rw [htn]
  have htok : NodeOK src (nd s t) := hn _ (nd_mem htlt)
  have hext : Ext s { r := s.r, nodes := s.nodes.set node { (nd s node) with lines := (nd s t).lines, linesNil := (nd s t).linesNil, blankPrev := (nd s t).blankPrev }, pc := { s.pc with tmpPara := none } } :=
    ext_set s node _ _ _ rfl (fun _ => htlines)
  have hnodes : NodesOK src { r := s.r, nodes := s.nodes.set node { (nd s node) with lines := (nd s t).lines, linesNil := (nd s t).linesNil, blankPrev := (nd s t).blankPrev }, pc := { s.pc with tmpPara := none } } :=
    nodesOK_set hn node _ _ _ ⟨htok.lines, htok.nil⟩
  refine OKL.bind (m := modNode node _)
    (s := { r := s.r, nodes := s.nodes.set node { (nd s node) with lines := [], linesNil := true }, pc := { s.pc with tmpPara := none } })
    (P := fun _ s' => s' = { r := s.r, nodes := s.nodes.set node { (nd s node) with lines := (nd s t).lines, linesNil := (nd s t).linesNil, blankPrev := (nd s t).blankPrev }, pc := { s.pc with tmpPara := none } })
    (OKL.ok (by simp only [getD_set_eq _ _ _ _ hlt, List.set_set])) (fun _ s1 hs1 => ?_)
  rw [hs1]; clear hs1 s1
  cases (nd s t).parent with
  | some tp =>
    obtain ⟨s3, e3, hr3, hpc3, hn3, hx3⟩ := removeChild_ok hnodes tp t
    simp only
    rw [e3]
    exact OKL.ok ⟨by rw [hr3], by rw [hpc3], hext.trans hx3, hn3, .inr ⟨rfl, by rw [hpc3]⟩, .inl (by rw [hpc3]),
      fun h => (by cases h)⟩
  | none => exact OKL.ok ⟨rfl, rfl, hext, hnodes, .inr ⟨rfl, rfl⟩, .inl rfl, fun h => (by cases h)⟩

end GM.Blocks
